import SageoptModel.Model.GF2
import SageoptModel.Drv.All
import SageoptModel.Props.C18
