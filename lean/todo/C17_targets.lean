/-
C17 targets.  Final home: SageoptModel/Props/C17.lean; helper lemmas in SageoptModel/Lemmas/Solrec*.lean (prefix `sr_`).
-/
import SageoptModel.Model.Solrec

namespace Sageopt.Props.C17
open Sageopt Sageopt.Solrec

/-- what a `true` verdict of the filter means: every inequality value is a number `≥ −ineq_tol` (or +∞), every equality
    value is a number within `eq_tol` of zero; in particular no value is NaN -/
theorem isFeasible_iff (itol etol : Rat) (gt eq : List FV) :
    isFeasible itol etol gt eq = true ↔
      (∀ v ∈ gt, v = .pinf ∨ ∃ q, v = .num q ∧ -itol ≤ q) ∧ (∀ v ∈ eq, ∃ q, v = .num q ∧ -etol ≤ q ∧ q ≤ etol) := by
  sorry

/-- a NaN constraint value is always a violation (the defect F8 was exactly the failure of this statement) -/
theorem nan_never_feasible (itol etol : Rat) (gt eq : List FV) (h : FV.nan ∈ gt ∨ FV.nan ∈ eq) :
    isFeasible itol etol gt eq = false := by
  sorry

/-- every returned point passed the filter -/
theorem select_feasible (itol etol : Rat) (cands : List Cand) :
    ∀ i ∈ select itol etol cands, ∃ c, cands[i]? = some c ∧ isFeasible itol etol c.gt c.eq = true := by
  sorry

/-- every candidate that passes the filter is returned, exactly once -/
theorem select_complete (itol etol : Rat) (cands : List Cand) :
    (select itol etol cands).Nodup ∧
    ∀ i c, cands[i]? = some c → isFeasible itol etol c.gt c.eq = true → i ∈ select itol etol cands := by
  sorry

/-- the returned list is sorted by nondecreasing objective value (whenever no surviving objective value is NaN) -/
theorem select_sorted (itol etol : Rat) (cands : List Cand)
    (hnum : ∀ c ∈ cands, isFeasible itol etol c.gt c.eq = true → c.obj ≠ .nan) :
    (select itol etol cands).Pairwise fun i j =>
      ¬ fvLt ((cands.getD j ⟨[], [], .nan⟩).obj) ((cands.getD i ⟨[], [], .nan⟩).obj) = true := by
  sorry

/-- stability: candidates with equal objective values keep the order in which they were examined -/
theorem select_stable (itol etol : Rat) (cands : List Cand)
    (hnum : ∀ c ∈ cands, isFeasible itol etol c.gt c.eq = true → c.obj ≠ .nan) :
    (select itol etol cands).Pairwise fun i j =>
      (cands.getD i ⟨[], [], .nan⟩).obj = (cands.getD j ⟨[], [], .nan⟩).obj → i < j := by
  sorry

/-- larger tolerances only add points -/
theorem select_mono (itol etol itol' etol' : Rat) (h1 : itol ≤ itol') (h2 : etol ≤ etol') (cands : List Cand) :
    ∀ i ∈ select itol etol cands, i ∈ select itol' etol' cands := by
  sorry

end Sageopt.Props.C17
