/-
C19 targets (to be proved; statements may be strengthened, hypotheses the constructor guarantees may be
added when a counterexample without them is proved).  Final home: SageoptModel/Props/C19.lean, helper
lemmas in SageoptModel/Lemmas/Opt*.lean.
-/
import SageoptModel.Model.Sage
import SageoptModel.Model.SageKernel
import SageoptModel.Lemmas.ExpCone
import SageoptModel.Lemmas.SageSem
import SageoptModel.Props.C02

namespace Sageopt.Props.C19
open Sageopt Sageopt.Sage Sageopt.Compile Sageopt.Solvers Sageopt.Analysis

/-! ### compact vs epigraph dual rows (`compact_dual`) -/

def withCompact (inp : DualIn) (b : Bool) : DualIn := { inp with settings := { inp.settings with compactDual := b } }

/-- every point of the epigraph form is a point of the compact form (the same assignment) -/
theorem compact_of_epigraph (Q : CType → List ℝ → Prop) (inp : DualIn) (hwf : C02.WfDual (withCompact inp false))
    (rowsE : List CRow) (KE : List Cone) (hE : dualRows (withCompact inp false) = .ok (rowsE, KE))
    (rowsC : List CRow) (KC : List Cone) (hC : dualRows (withCompact inp true) = .ok (rowsC, KC))
    (σ : Nat → ℝ) (hσ : FeasRows Q σ rowsE KE) : FeasRows Q σ rowsC KC := by
  sorry

/-- every point of the compact form extends (on the epigraph variables only) to a point of the epigraph form -/
theorem epigraph_of_compact (Q : CType → List ℝ → Prop) (inp : DualIn) (hwf : C02.WfDual (withCompact inp false))
    (rowsE : List CRow) (KE : List Cone) (hE : dualRows (withCompact inp false) = .ok (rowsE, KE))
    (rowsC : List CRow) (KC : List Cone) (hC : dualRows (withCompact inp true) = .ok (rowsC, KC))
    (σ : Nat → ℝ) (hσ : FeasRows Q σ rowsC KC) :
    ∃ σ' : Nat → ℝ, (∀ id, id ∉ inp.ids.flatMap (·.epi) → σ' id = σ id) ∧ FeasRows Q σ' rowsE KE := by
  sorry

/-! ### forced equality of the AGE sum (`sum_age_force_equality`) -/

def withForce (inp : PrimalIn) (b : Bool) : PrimalIn := { inp with settings := { inp.settings with sumAgeForceEquality := b } }

/-- equality is stronger: a point of the forced-equality system is a point of the inequality system -/
theorem ineq_of_force_eq (Q : CType → List ℝ → Prop) (inp : PrimalIn) (hwf : WfPrimal inp)
    (rowsT : List CRow) (KT : List Cone) (hT : primalRows (withForce inp true) = .ok (rowsT, KT))
    (rowsF : List CRow) (KF : List Cone) (hF : primalRows (withForce inp false) = .ok (rowsF, KF))
    (σ : Nat → ℝ) (hσ : FeasRows Q σ rowsT KT) : FeasRows Q σ rowsF KF := by
  sorry

/-- the relative-entropy block of one AGE cone is monotone: raising the `y` arguments (the cover entries of the
    AGE vector) and lowering `z` (raising the own entry) keeps it feasible.  This is why slack can be absorbed. -/
theorem relent_block_mono (z z' : ℝ) (epi x y y' : List ℝ) (hy : y.length = y'.length)
    (hyy : ∀ k, k < y.length → y.getD k 0 ≤ y'.getD k 0) (hz : z' ≤ z)
    (h0 : 0 ≤ -z - epi.sum)
    (h : ∀ k, k < x.length → InExpCone (-(epi.getD k 0)) (Real.exp 1 * y.getD k 0) (x.getD k 0)) :
    0 ≤ -z' - epi.sum ∧ ∀ k, k < x.length → InExpCone (-(epi.getD k 0)) (Real.exp 1 * y'.getD k 0) (x.getD k 0) := by
  sorry

/-- abstract absorption: if every cone `A i` is monotone at the indices it reaches, then "sum ≤ c" and
    "sum = c at reached indices, ≤ elsewhere" certify the same vectors `c`.  (`F7`: before the repair the code
    demanded equality at ALL indices, which is NOT equivalent — see `force_eq_all_indices_differs`.) -/
theorem absorb_slack (m : Nat) (U : List Nat) (reach : Nat → Nat → Bool) (A : Nat → (Nat → ℝ) → Prop)
    (hmono : ∀ i ∈ U, ∀ a j (s : ℝ), reach i j = true → 0 ≤ s → A i a → A i (Function.update a j (a j + s)))
    (c : Nat → ℝ) :
    (∃ ages : Nat → Nat → ℝ, (∀ i ∈ U, A i (ages i)) ∧ ∀ j, j < m → (U.map fun i => ages i j).sum ≤ c j) ↔
    (∃ ages : Nat → Nat → ℝ, (∀ i ∈ U, A i (ages i)) ∧ ∀ j, j < m →
        if U.any (fun i => reach i j) then (U.map fun i => ages i j).sum = c j else (U.map fun i => ages i j).sum ≤ c j) := by
  sorry

/-- the pre-repair behaviour (equality at every index) is genuinely different: with `U = [1]`, `reach 1 j = (j ≤ 1)`
    and cones that vanish off the reached indices, `c = (0, 0, 1)` is certified by the inequality form only -/
theorem force_eq_all_indices_differs :
    ∃ (A : Nat → (Nat → ℝ) → Prop) (c : Nat → ℝ),
      (∃ ages : Nat → Nat → ℝ, A 1 (ages 1) ∧ ∀ j, j < 3 → ages 1 j ≤ c j) ∧
      ¬ (∃ ages : Nat → Nat → ℝ, A 1 (ages 1) ∧ ∀ j, j < 3 → ages 1 j = c j) := by
  sorry

/-- STRETCH (row level, the converse of `ineq_of_force_eq`): a point of the inequality system can be changed on
    the `c^{(i)}` variables only so that it satisfies the forced-equality system.  `FreshC` = the ids of the
    `c^{(i)}` Variables are pairwise distinct and occur neither in `c` nor among the `nu`/`epi`/`eta` ids
    (the constructor creates them fresh).  If this cannot be completed, deliver the strongest partial version
    (e.g. for `X = none` and `kernelBasis = false`) under the name `force_eq_of_ineq_partial`. -/
def FreshC (inp : PrimalIn) : Prop :=
  (inp.ids.flatMap (·.cvar)).Nodup ∧
  (∀ id ∈ inp.ids.flatMap (·.cvar), (∀ cj ∈ inp.c, id ∉ cj.co.map (·.1)) ∧
      id ∉ inp.ids.flatMap (fun p => p.nu ++ p.epi ++ p.eta)) ∧
  (inp.ids.map (·.i)).Nodup

theorem force_eq_of_ineq (Q : CType → List ℝ → Prop) (inp : PrimalIn) (hwf : WfPrimal inp) (hfresh : FreshC inp)
    (hcov0 : ∀ p ∈ inp.ids, p.nu = [] → trueIdx (coverOf inp.ech p.i) = [])
    (rowsT : List CRow) (KT : List Cone) (hT : primalRows (withForce inp true) = .ok (rowsT, KT))
    (rowsF : List CRow) (KF : List Cone) (hF : primalRows (withForce inp false) = .ok (rowsF, KF))
    (σ : Nat → ℝ) (hσ : FeasRows Q σ rowsF KF) :
    ∃ σ' : Nat → ℝ, (∀ id, id ∉ inp.ids.flatMap (·.cvar) → σ' id = σ id) ∧ FeasRows Q σ' rowsT KT := by
  sorry

/-! ### kernel-basis witnesses (`kernel_basis`): pruning a cone with a trivial kernel -/

/-- when the model (exact elimination) says the kernel is trivial, the balance equations force `ν = 0` -/
theorem kernelTrivial_sound (n : Nat) (alpha : List (List Rat)) (i : Nat) (cov : List Bool)
    (hw : ∀ r ∈ alpha, r.length = n)
    (h : kernelTrivial n alpha i cov = true) (ν : List ℝ) (hν : ν.length = (trueIdx cov).length)
    (hbal : ∀ t, t < n → (((trueIdx cov).zip ν).map fun (j, v) =>
        ((((alpha.getD j []).getD t 0 - (alpha.getD i []).getD t 0 : Rat)) : ℝ) * v).sum = 0) :
    ∀ k, k < ν.length → ν.getD k 0 = 0 := by
  sorry

/-- with `ν = 0` a relative-entropy block only says that the cover entries and the own entry are nonnegative:
    the cone is the nonnegative orthant, which is what the code's "empty cover" branch imposes -/
theorem relent_block_zero_nu (z : ℝ) (epi y : List ℝ) (he : epi.length = y.length)
    (h0 : 0 ≤ -z - epi.sum)
    (h : ∀ k, k < y.length → InExpCone (-(epi.getD k 0)) (Real.exp 1 * y.getD k 0) 0) :
    0 ≤ -z ∧ ∀ k, k < y.length → 0 ≤ y.getD k 0 := by
  sorry

/-- `kernelPrune` only ever empties covers, and only when the kernel is trivial -/
theorem kernelPrune_spec (n : Nat) (alpha : List (List Rat)) (hasX : Bool) (s : Settings) (e : Ech) :
    let e' := kernelPrune n alpha hasX s e
    e'.U = e.U ∧ e'.N = e.N ∧ e'.P = e.P ∧ e'.covers.map (·.1) = e.covers.map (·.1) ∧
    ∀ p ∈ e.covers, ∀ p' ∈ e'.covers, p'.1 = p.1 →
      p'.2 = p.2 ∨ (s.kernelBasis = true ∧ hasX = false ∧ kernelTrivial n alpha p.1 p.2 = true ∧ p'.2 = p.2.map fun _ => false) := by
  sorry

end Sageopt.Props.C19
