/- Proof targets for C20 (NOT part of the library).  Statements only. -/
import SageoptModel.Model.Vars
namespace Sageopt.Props.C20
open Sageopt.Vars

/-- symmetric layout: mirrored entries share an index, nothing else does, and exactly n(n+1)/2 indices are used -/
theorem symId_symm (n i j : Nat) : symId n i j = symId n j i := sorry
theorem symId_lt (n i j : Nat) (hi : i < n) (hj : j < n) : symId n i j < n * (n + 1) / 2 := sorry
theorem symId_inj (n i j i' j' : Nat) (hi : i < n) (hj : j < n) (hi' : i' < n) (hj' : j' < n)
    (h : symId n i j = symId n i' j') : (i = i' ∧ j = j') ∨ (i = j' ∧ j = i') := sorry

/-- a created Variable gets exactly the indices [counter, counter'), is proper, and carries the current generation -/
theorem create_spec (a a' : Alloc) (shape : List Nat) (name : Option String) (sym : Bool) (v : VarObj)
    (h : create a shape name sym = some (a', v)) :
    v.proper = true ∧ v.gen = a.gen ∧ a'.gen = a.gen ∧ a.counter ≤ a'.counter ∧ v.shape = shape ∧
    v.ids.length = size shape ∧
    (∀ id ∈ v.ids, a.counter ≤ id ∧ id < a'.counter) ∧
    (sym = false → v.ids.Nodup) := sorry

/-- UNIQUE INDICES, for every history of a session: two different proper Variables of the same generation
    never share a scalar index -/
theorem ids_unique (a : Alloc) (ops : List HOp) (i j : Nat) (v w : VarObj)
    (hv : (runH a ops).2[i]? = some v) (hw : (runH a ops).2[j]? = some w) (hij : i ≠ j) (hg : v.gen = w.gen) :
    ∀ id ∈ v.ids, id ∉ w.ids := sorry

/-- generations of a session stay within the session's window above its initial value -/
theorem gen_window (a : Alloc) (ops : List HOp) :
    ∀ v ∈ (runH a ops).2, a.gen ≤ v.gen ∧ v.gen ≤ a.gen + ops.length := sorry

/-- ACROSS SESSIONS: if two sessions start at different multiples of 2^16 (the random per-session offsets) and
    each clears its indices fewer than 2^16 times, no Variable of one shares a generation with a Variable of the
    other — so a loaded Variable can never collide with one created in the loading session -/
theorem sessions_disjoint (sA sB : Nat) (hne : sA ≠ sB) (opsA opsB : List HOp)
    (hA : opsA.length < 2 ^ 16) (hB : opsB.length < 2 ^ 16)
    (v w : VarObj) (hv : v ∈ (runH { gen := sA * 2 ^ 16 } opsA).2) (hw : w ∈ (runH { gen := sB * 2 ^ 16 } opsB).2) :
    v.gen ≠ w.gen := sorry

/-- slices share the components of their parent (same indices at the selected positions, same generation, same
    name) and are improper -/
theorem slice_shares_components (v : VarObj) (pos : List Nat) (shape : List Nat) (hp : ∀ p ∈ pos, p < v.ids.length) :
    (slice v pos shape).proper = false ∧ (slice v pos shape).gen = v.gen ∧ (slice v pos shape).name = v.name ∧
    (∀ id ∈ (slice v pos shape).ids, id ∈ v.ids) ∧
    (slice v pos shape).ids.length = pos.length := sorry

/-- PICKLE ROUND TRIP, parent links: for EVERY order in which `__setstate__` runs over the array objects of an
    unpickled graph, every scalar variable that belongs to a proper Variable of the graph ends up with that
    Variable as its parent (never with a slice), provided indices are unique among the graph's proper Variables -/
theorem relink_proper_wins (objs : List VarObj) (order : List Nat) (hperm : order.Perm (List.range objs.length))
    (p : Nat) (o : VarObj) (hp : objs[p]? = some o) (hprop : o.proper = true) (id : Nat) (hid : id ∈ o.ids)
    (huniq : ∀ q o', objs[q]? = some o' → o'.proper = true → id ∈ o'.ids → q = p) :
    parentOf (relink objs order) id = some p := sorry

/-- loading never changes the allocator of the loading session -/
theorem load_keeps_alloc (a : Alloc) (graph : List VarObj) : graph.foldl loadAdvance a = a := sorry

end Sageopt.Props.C20
