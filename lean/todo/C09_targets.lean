/- Proof targets for C09 (NOT part of the library).  Statements only. -/
import SageoptModel.Model.SolveGlue
namespace Sageopt.Props.C09
open Sageopt Sageopt.Glue

/-- a Problem's variable map is consistent: a scalar id is paired with one column only (mirrored entries of a
    symmetric Variable repeat the same pair) -/
def Consistent (s : Solve) : Prop :=
  ∀ v ∈ s.vars, ∀ w ∈ s.vars, ∀ p ∈ v.ids.zip v.cols, ∀ q ∈ w.ids.zip w.cols, p.1 = q.1 → p.2 = q.2

/-- one solve overwrites every component of every Variable of its Problem -/
theorem applySolve_spec (k : Nat) (st : Store) (s : Solve) (hc : Consistent s)
    (v : PVar) (hv : v ∈ s.vars) (p : Nat × Int) (hp : p ∈ v.ids.zip v.cols) :
    (applySolve k st s).get p.1 = cellFor k s.loads p.2 := sorry

/-- … and touches nothing else -/
theorem applySolve_frame (k : Nat) (st : Store) (s : Solve) (id : Nat)
    (h : ∀ v ∈ s.vars, id ∉ v.ids.take v.cols.length) : (applySolve k st s).get id = st.get id := sorry

/-- SOLVE HISTORY: after ANY finite sequence of solves (any problems sharing Variables, any outcomes including
    forced failures) followed by a solve `s` of a Problem P: if values were loaded, every component of every
    Variable of P holds the entry of THIS solve's solution at its column (0 for non-participating components);
    otherwise every component is NaN — no value of an earlier solve survives. -/
theorem solve_history (hist : List Solve) (s : Solve) (hc : Consistent s)
    (v : PVar) (hv : v ∈ s.vars) (p : Nat × Int) (hp : p ∈ v.ids.zip v.cols) :
    (runSolves (hist ++ [s])).get p.1 = cellFor hist.length s.loads p.2 := sorry

theorem no_stale_values (hist : List Solve) (s : Solve) (hc : Consistent s) (hfail : s.loads = false)
    (v : PVar) (hv : v ∈ s.vars) (id : Nat) (hid : id ∈ v.ids.take v.cols.length) :
    (runSolves (hist ++ [s])).get id = .nan := sorry

theorem nonparticipating_zero (hist : List Solve) (s : Solve) (hc : Consistent s) (hl : s.loads = true)
    (v : PVar) (hv : v ∈ s.vars) (p : Nat × Int) (hp : p ∈ v.ids.zip v.cols) (hneg : p.2 < 0) :
    (runSolves (hist ++ [s])).get p.1 = .zero := sorry

end Sageopt.Props.C09
