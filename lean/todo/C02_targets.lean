/- Proof targets for C02 (NOT part of the library).  Statements only. -/
import SageoptModel.Lemmas.SageSem
namespace Sageopt.Props.C02
open Sageopt Sageopt.Sage Sageopt.Compile Sageopt.Solvers Sageopt.Analysis

/-- well-formed dual input -/
structure WfDual (inp : DualIn) : Prop where
  width : ∀ r ∈ inp.alpha, r.length = inp.n
  vlen : inp.v.length = inp.alpha.length
  idsU : inp.ids.map (·.i) = inp.ech.U
  cover : ∀ p ∈ inp.ids,
    (coverOf inp.ech p.i).length = inp.alpha.length ∧ p.i < inp.alpha.length ∧ p.i ∉ trueIdx (coverOf inp.ech p.i)
  sizes : ∀ p ∈ inp.ids,
    p.mu.length = (match inp.X with | some X => X.N | none => inp.n) ∧
    (inp.settings.compactDual = false → p.epi.length = (trueIdx (coverOf inp.ech p.i)).length)
  dom : ∀ X, inp.X = some X → domWf inp.n X
  /-- the auxiliary Variables are fresh: their ids are pairwise distinct and do not occur in `v` -/
  fresh : ((inp.ids.flatMap fun p => p.mu ++ p.epi)).Nodup ∧
    ∀ id ∈ (inp.ids.flatMap fun p => p.mu ++ p.epi), ∀ vj ∈ inp.v, id ∉ vj.co.map (·.1)
  idx : (inp.ids.map (·.i)).Nodup

/-- THE PROPERTY.  For every exponent matrix, every X in conic form over {+,0,S,e} (possibly lifted), every
    point x of X (with lift x̃), every scale t ≥ 0, all sign information, all covers, both values of
    `compact_dual` (and of the other settings), and every assignment σ₀ of the user's variables under which
    `v` evaluates to the moment vector `t·exp(α x)` (v a Variable, or any affine image that reaches it):
    σ₀ extends — by `μ_i = v_i·x̃` and, in the epigraph form, `epi_ij = v_i (α_i − α_j)·x` — to an assignment
    satisfying the compiled dual SAGE constraint.  In particular the corner t = 0 uses the closed cone. -/
theorem dual_admits_moments (Q : CType → List ℝ → Prop) (inp : DualIn) (hwf : WfDual inp)
    (rows : List CRow) (K : List Cone) (h : dualRows inp = .ok (rows, K))
    (x xt : List ℝ) (hx : x.length = inp.n)
    (hxt : match inp.X with
      | none => xt = x
      | some X => xt.length = X.N ∧ xt.take inp.n = x ∧ FeasBlocks (conP Q) X.K (domSlack X xt))
    (t : ℝ) (ht : 0 ≤ t) (σ₀ : Nat → ℝ)
    (hv : ∀ j, j < inp.alpha.length →
      argVal σ₀ (inp.v.getD j (constE 0)) = t * Real.exp (rdot (inp.alpha.getD j []) x)) :
    ∃ σ : Nat → ℝ,
      (∀ id, id ∉ (inp.ids.flatMap fun p => p.mu ++ p.epi) → σ id = σ₀ id) ∧
      (∀ p ∈ inp.ids, ∀ k, k < p.mu.length →
        σ (p.mu.getD k 0) = argVal σ₀ (inp.v.getD p.i (constE 0)) * xt.getD k 0) ∧
      FeasRows Q σ rows K := sorry

/-- cones over ℝ are closed under nonnegative scaling (used for the perspective rows `A μ_i + v_i b ∈ K`) -/
theorem conP_scale (Q : CType → List ℝ → Prop) (hQ : ∀ t v (a : ℝ), 0 ≤ a → Q t v → Q t (v.map (a * ·)))
    (ty : CType) (hty : ty ∈ [CType.zero, .pos, .soc, .exp]) (v : List ℝ) (a : ℝ) (ha : 0 ≤ a) (h : conP Q ty v) :
    conP Q ty (v.map (a * ·)) := sorry

/-- consequence: minimising any linear functional over the dual SAGE constraint can never cut off a moment
    vector of X — `inf {ℓ·v | v in the model} ≤ ℓ·(t·exp(α x))` -/
theorem dual_never_cuts (Q : CType → List ℝ → Prop) (inp : DualIn) (hwf : WfDual inp)
    (rows : List CRow) (K : List Cone) (h : dualRows inp = .ok (rows, K))
    (x xt : List ℝ) (hx : x.length = inp.n)
    (hxt : match inp.X with
      | none => xt = x
      | some X => xt.length = X.N ∧ xt.take inp.n = x ∧ FeasBlocks (conP Q) X.K (domSlack X xt))
    (t : ℝ) (ht : 0 ≤ t) (σ₀ : Nat → ℝ)
    (hv : ∀ j, j < inp.alpha.length →
      argVal σ₀ (inp.v.getD j (constE 0)) = t * Real.exp (rdot (inp.alpha.getD j []) x))
    (ℓ : List ℝ) :
    ∃ σ : Nat → ℝ, FeasRows Q σ rows K ∧
      (List.zipWith (fun l (vj : AffE) => l * argVal σ vj) ℓ inp.v).sum
        = (List.zipWith (fun l (a : List Rat) => l * (t * Real.exp (rdot a x))) ℓ inp.alpha).sum := sorry

end Sageopt.Props.C02
