/-
C05 targets, part D: the constrained bound over all orthants.  Final home: a new file SageoptModel/Props/C05Constrained.lean
(namespace Sageopt.Props.C05); helper lemmas in SageoptModel/Lemmas/PolyD*.lean (prefix `pd_`).
-/
import SageoptModel.Props.C05
import SageoptModel.Props.C05Lagr

namespace Sageopt.Props.C05
open Sageopt Sageopt.Sig Sageopt.Relax Sageopt.Poly Sageopt.Sage

/-- THE BOUND (ell = 0) at a real point of ANY orthant: if, under an assignment of γ and the multiplier coefficients, the Lagrangian and
    every inequality multiplier are nonnegative at a point x that satisfies all the original constraints, then γ ≤ p(x) -/
theorem poly_constrained_bound (f : SigQ) (gts eqs : List SigQ) (hf : PolyWfQ' f)
    (hg : ∀ g ∈ gts ++ eqs, PolyWfQ' g ∧ g.n = f.n) (p q : Nat) (gid : Nat) (sIds zIds : List (List Nat))
    (σ : Nat → Rat) (x : List ℝ) (hl : x.length = f.n) :
    let lg := makePolyLagrangian f gts eqs p q gid sIds zIds
    0 ≤ polyR (evalL σ lg.L.terms) x →
    (∀ ids ∈ sIds, 0 ≤ polyR (evalL σ (varSig f.n lg.alphaMult ids).terms) x) →
    (∀ g ∈ gts, 0 ≤ polyR g.terms x) → (∀ h ∈ eqs, polyR h.terms x = 0) →
    (σ gid : ℝ) ≤ polyR f.terms x := by
  sorry

/-- nonnegativity of a polynomial with variable coefficients at a real point without zero coordinate follows from nonnegativity of its
    signomial representative at log|x| (this is how the SAGE-polynomial constraints on the Lagrangian and on the multipliers, which
    live in log-magnitudes, certify the two nonnegativity hypotheses of `poly_constrained_bound` in every orthant) -/
theorem poly_nonneg_of_sigrep (pl : SigL) (hp : PolyWf pl) (chat : List Nat) (hc : (needVars pl).length ≤ chat.length)
    (σ : Nat → Rat) (hside : SideOk σ (sigRep pl chat).2) (x : List ℝ) (hx : NoZero x) (hl : x.length = pl.n)
    (h : 0 ≤ sigR (evalL σ (sigRep pl chat).1.terms) (logAbs x)) :
    0 ≤ polyR (evalL σ pl.terms) x := by
  sorry

/-- the multipliers are polynomials in the sense of `PolyWf` (so `poly_nonneg_of_sigrep` applies to them) -/
theorem multiplier_polyWf (n : Nat) (alphaMult : List Exp) (h : ∀ a ∈ alphaMult, a.length = n ∧ isPolyExp a = true)
    (hnd : alphaMult.Nodup) (ids : List Nat) :
    PolyWf (varSig n alphaMult ids) ∧ (varSig n alphaMult ids).n = n := by
  sorry

end Sageopt.Props.C05
