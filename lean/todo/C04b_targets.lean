/-
C04 targets, part B: the Lagrangian identity at REAL points and the bound it gives.  Final home: a new file
SageoptModel/Props/C04Bound.lean (namespace Sageopt.Props.C04); helper lemmas in SageoptModel/Lemmas/LagrReal*.lean (prefix `lr_`).
-/
import SageoptModel.Props.C04
import SageoptModel.Lemmas.PolySem

namespace Sageopt.Props.C04
open Sageopt Sageopt.Sig Sageopt.Relax Sageopt.Poly Sageopt.Sage

/-- the identity as functions on ℝⁿ -/
theorem lagrangian_identity_real (f : SigQ) (hf : Wf f) (gts eqs : List SigQ)
    (hg : ∀ g ∈ gts ++ eqs, Wf g ∧ g.n = f.n) (p q : Nat) (hq : 1 ≤ q) (gid : Nat) (sIds zIds : List (List Nat))
    (σ : Nat → Rat) (x : List ℝ) (hx : x.length = f.n) :
    let lg := makeLagrangian f gts eqs p q gid sIds zIds
    IdsOk lg sIds zIds →
    sigR (evalL σ lg.L.terms) x =
      sigR f.terms x - (σ gid : ℝ)
        - ((lg.gts.zip sIds).map fun pr => sigR (evalL σ (varSig f.n lg.alphaHat pr.2).terms) x * sigR pr.1.terms x).sum
        - ((lg.eqs.zip zIds).map fun pr => sigR (evalL σ (varSig f.n lg.alphaHat pr.2).terms) x * sigR pr.1.terms x).sum := by
  sorry

/-- folded constraints at real points: products of at most q (and at least one) members of the input list -/
theorem qfold_sound_real (n : Nat) (cons : List SigQ) (hc : ∀ g ∈ cons, Wf g ∧ g.n = n) (q : Nat) (hq : 1 ≤ q)
    (x : List ℝ) (hx : x.length = n) :
    ∀ pr ∈ qFold n cons q, ∃ comb : List SigQ, comb ≠ [] ∧ comb.length ≤ q ∧ (∀ g ∈ comb, g ∈ cons) ∧
      sigR pr.terms x = (comb.map fun g => sigR g.terms x).prod := by
  sorry

/-- THE BOUND (level ell = 0): if, under an assignment of γ and the multiplier coefficients, the Lagrangian and every inequality
    multiplier are nonnegative at a point x that satisfies all the original constraints, then γ ≤ f(x).  (Nonnegativity on X of the
    Lagrangian and of the multipliers is what the SAGE constraints of `sig_constrained_primal` certify: C01.) -/
theorem constrained_primal_bound (f : SigQ) (hf : Wf f) (gts eqs : List SigQ)
    (hg : ∀ g ∈ gts ++ eqs, Wf g ∧ g.n = f.n) (p q : Nat) (hq : 1 ≤ q) (gid : Nat) (sIds zIds : List (List Nat))
    (σ : Nat → Rat) (x : List ℝ) (hx : x.length = f.n) :
    let lg := makeLagrangian f gts eqs p q gid sIds zIds
    IdsOk lg sIds zIds →
    0 ≤ sigR (evalL σ lg.L.terms) x →
    (∀ ids ∈ sIds, 0 ≤ sigR (evalL σ (varSig f.n lg.alphaHat ids).terms) x) →
    (∀ g ∈ gts, 0 ≤ sigR g.terms x) → (∀ h ∈ eqs, sigR h.terms x = 0) →
    (σ gid : ℝ) ≤ sigR f.terms x := by
  sorry

end Sageopt.Props.C04
