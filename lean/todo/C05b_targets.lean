/-
C05 targets, part B (the Lagrangians as FUNCTIONS on all of ℝⁿ).  Final home: a new file
SageoptModel/Props/C05Lagr.lean (namespace Sageopt.Props.C05), helper lemmas in SageoptModel/Lemmas/PolyB*.lean (prefix `pb_`).
-/
import SageoptModel.Model.Poly
import SageoptModel.Lemmas.PolySem

namespace Sageopt.Props.C05
open Sageopt Sageopt.Sig Sageopt.Relax Sageopt.Poly Sageopt.Sage

/-- distinct polynomial rows of width `n` -/
def PolyWfQ' (f : SigQ) : Prop := PolyWfQ f ∧ (keys f.terms).Nodup

/-- `(f − γ)·modulator` evaluates, at EVERY real point (any orthant, zero coordinates included) and for every value of γ,
    to `(f(x) − γ)·modulator(x)` -/
theorem modLagrangian_function (f m : SigQ) (hf : PolyWfQ' f) (hm : PolyWfQ' m) (hn : m.n = f.n) (g : Nat) (σ : Nat → Rat)
    (x : List ℝ) (hl : x.length = f.n) :
    polyR (evalL σ (modLagrangian f m g).terms) x = (polyR f.terms x - (σ g : ℝ)) * polyR m.terms x := by
  sorry

/-- the multiplier exponents are polynomial rows -/
theorem polyAlphaMult_rows (n : Nat) (alphas : List (List Exp)) (h : ∀ l ∈ alphas, ∀ a ∈ l, a.length = n ∧ isPolyExp a = true) (p : Nat) :
    ∀ a ∈ polyAlphaMult n alphas p, a.length = n ∧ isPolyExp a = true := by
  sorry

/-- THE IDENTITY: for every assignment of γ and of the multiplier coefficients, at every real point,
    `L(x) = f(x) − γ − Σ_k s_k(x)·g_k(x) − Σ_k z_k(x)·h_k(x)` with `g_k`, `h_k` the q-fold products -/
theorem polyLagrangian_identity (f : SigQ) (gts eqs : List SigQ) (hf : PolyWfQ' f)
    (hg : ∀ g ∈ gts ++ eqs, PolyWfQ' g ∧ g.n = f.n) (p q : Nat) (gid : Nat) (sIds zIds : List (List Nat))
    (σ : Nat → Rat) (x : List ℝ) (hl : x.length = f.n) :
    let lg := makePolyLagrangian f gts eqs p q gid sIds zIds
    polyR (evalL σ lg.L.terms) x =
      polyR f.terms x - (σ gid : ℝ)
        - ((lg.gts.zip sIds).map fun pr => polyR (evalL σ (varSig f.n lg.alphaMult pr.2).terms) x * polyR pr.1.terms x).sum
        - ((lg.eqs.zip zIds).map fun pr => polyR (evalL σ (varSig f.n lg.alphaMult pr.2).terms) x * polyR pr.1.terms x).sum := by
  sorry

/-- the modulator of the constrained builders has even rows only, so it is nonnegative everywhere and positive off the
    coordinate hyperplanes (when there is at least one row) -/
theorem conModulator_nonneg (n : Nat) (alphas : List (List Exp)) (h : ∀ l ∈ alphas, ∀ a ∈ l, a.length = n ∧ isPolyExp a = true)
    (ell : Nat) (x : List ℝ) (hl : x.length = n) :
    (∀ t ∈ (conModulator n alphas ell).terms, isEvenExp t.1 = true) ∧ 0 ≤ polyR (conModulator n alphas ell).terms x := by
  sorry

theorem conModulator_pos (n : Nat) (alphas : List (List Exp)) (h : ∀ l ∈ alphas, ∀ a ∈ l, a.length = n ∧ isPolyExp a = true)
    (hne : alphas.flatten ≠ []) (ell : Nat) (x : List ℝ) (hl : x.length = n) (hx : NoZero x) :
    0 < polyR (conModulator n alphas ell).terms x := by
  sorry

end Sageopt.Props.C05
