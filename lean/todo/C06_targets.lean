/-
C06 targets.  Final home: SageoptModel/Props/C06.lean (keep `ordAge_sound`); helper lemmas in SageoptModel/Lemmas/AgeInv*.lean
(prefix `ai_`).
-/
import SageoptModel.Lemmas.AgeCert
import Mathlib.Analysis.SpecialFunctions.Pow.Real

namespace Sageopt.Props.C06
open Sageopt.Analysis
open scoped BigOperators

variable {ι : Type} {n : ℕ}

/-- TRANSLATION `x ↦ x + t` multiplies the coefficient of `e^{α_j·x}` by `e^{α_j·t}`: the certificate is invariant -/
theorem ordAge_translate (α : ι → Fin n → ℝ) (i : ι) (S : Finset ι) (c : ι → ℝ) (t : Fin n → ℝ) :
    OrdAgeCert α i S c ↔ OrdAgeCert α i S (fun j => c j * Real.exp (dotp (α j) t)) := by
  sorry

/-- LINEAR CHANGE OF VARIABLES `x = M y` replaces the exponents by `α M`: a certificate is carried along -/
theorem ordAge_linear {m : ℕ} (α : ι → Fin n → ℝ) (i : ι) (S : Finset ι) (c : ι → ℝ) (M : Fin n → Fin m → ℝ)
    (h : OrdAgeCert α i S c) :
    OrdAgeCert (fun j l => ∑ k, α j k * M k l) i S c := by
  sorry

/-- for an INVERTIBLE change of variables the certificates correspond exactly -/
theorem ordAge_linear_iff (α : ι → Fin n → ℝ) (i : ι) (S : Finset ι) (c : ι → ℝ) (M Minv : Fin n → Fin n → ℝ)
    (hinv : ∀ k k', ∑ l, M k l * Minv l k' = if k = k' then 1 else 0) :
    OrdAgeCert α i S c ↔ OrdAgeCert (fun j l => ∑ k, α j k * M k l) i S c := by
  sorry

/-- POSITIVE SCALING -/
theorem ordAge_scale (α : ι → Fin n → ℝ) (i : ι) (S : Finset ι) (c : ι → ℝ) (a : ℝ) (ha : 0 < a) :
    OrdAgeCert α i S c ↔ OrdAgeCert α i S (fun j => a * c j) := by
  sorry

/-- SHIFT of all exponents by `β` (multiplication of the signomial by the monomial `e^{β·x}`: the step from ell to ell + 1
    multiplies by a sum of such monomials) -/
theorem ordAge_shift (α : ι → Fin n → ℝ) (i : ι) (S : Finset ι) (c : ι → ℝ) (β : Fin n → ℝ) :
    OrdAgeCert α i S c ↔ OrdAgeCert (fun j k => α j k + β k) i S c := by
  sorry

/-- RE-INDEXING (permutation of the terms) -/
theorem ordAge_reindex {ι' : Type} (e : ι' ≃ ι) (α : ι → Fin n → ℝ) (i : ι) (S : Finset ι) (c : ι → ℝ) :
    OrdAgeCert α i S c ↔ OrdAgeCert (fun j => α (e j)) (e.symm i) (S.map e.symm.toEmbedding) (fun j => c (e j)) := by
  sorry

/-- a LARGER COVER only helps, as long as the added coefficients are nonnegative: cover reductions can lose certificates,
    never create wrong ones -/
theorem ordAge_cover_mono (α : ι → Fin n → ℝ) (i : ι) (S S' : Finset ι) (hS : S ⊆ S') (c : ι → ℝ)
    (hc : ∀ j ∈ S', j ∉ S → 0 ≤ c j) (h : OrdAgeCert α i S c) : OrdAgeCert α i S' c := by
  sorry

/-- the converse fails: dropping an index from the cover can destroy the certificate (this is F10's mechanism):
    with exponents 0, 1, 2 and coefficients 1, −2, 1 the full cover {0, 2} certifies `(eˣ − 1)² ≥ 0`, the cover {0} does not -/
theorem ordAge_cover_drop_loses :
    ∃ (α : Fin 3 → Fin 1 → ℝ) (c : Fin 3 → ℝ),
      OrdAgeCert α 1 {0, 2} c ∧ ¬ OrdAgeCert α 1 {0} c := by
  sorry

/-- CIRCUIT COMPLETENESS (closed form): if the inner exponent is the convex combination `Σ λ_j α_j` of the outer ones with positive
    weights, the outer coefficients are positive and the inner coefficient is at least `−∏ (c_j/λ_j)^{λ_j}` (minus the circuit number),
    then a certificate exists -/
theorem circuit_complete (α : ι → Fin n → ℝ) (i : ι) (S : Finset ι) (hSne : S.Nonempty) (c lam : ι → ℝ)
    (hlam : ∀ j ∈ S, 0 < lam j) (hsum : ∑ j ∈ S, lam j = 1)
    (hconv : ∀ k : Fin n, α i k = ∑ j ∈ S, lam j * α j k)
    (hc : ∀ j ∈ S, 0 < c j)
    (hbeta : -(c i) ≤ ∏ j ∈ S, (c j / lam j) ^ (lam j)) :
    OrdAgeCert α i S c := by
  sorry

/-- and the circuit number is sharp on the midpoint circuit `c₀ + c₂ e^{2x} − β eˣ`: nonnegative on ℝ iff `β ≤ 2 √(c₀ c₂)` iff certified -/
theorem midpoint_circuit_exact (c0 c2 β : ℝ) (h0 : 0 < c0) (h2 : 0 < c2) :
    ((∀ x : ℝ, 0 ≤ c0 + c2 * Real.exp (2 * x) - β * Real.exp x) ↔ β ≤ 2 * Real.sqrt (c0 * c2)) ∧
    (β ≤ 2 * Real.sqrt (c0 * c2) ↔
      OrdAgeCert (fun (j : Fin 3) (_ : Fin 1) => (j : ℝ)) 1 {0, 2} (fun j => if j = 0 then c0 else if j = 1 then -β else c2)) := by
  sorry

end Sageopt.Props.C06
