/- Proof targets for C07 (NOT part of the library).  Statements only. -/
import SageoptModel.Lemmas.CompileSem
namespace Sageopt.Props.C07
open Sageopt Sageopt.Compile Sageopt.Solvers Sageopt.Analysis

/-! ### per-atom epigraph rows: `rows ∈ K ↔ atom(σ) ≤ epi` (also with constant arguments, whose rows
    carry a zero entry on the dummy column) -/
theorem epiRows_iff (Q : CType → List ℝ → Prop) (σ : Nat → ℝ) (a : NlAtom) (dummy : Nat)
    (rows : List CRow) (k : Cone) (h : epiRows a dummy = .ok (rows, k)) :
    FeasBlocks (conP Q) [k] (rows.map (crowVal σ)) ↔ AtomLe σ a (σ a.epi) := sorry

/-- every atom with a nonempty epigraph has a least epigraph value (its value) -/
theorem atom_has_value (σ : Nat → ℝ) (a : NlAtom) (t : ℝ) (h : AtomLe σ a t) : ∃ v, IsVal σ a v := sorry
theorem atomLe_mono (σ : Nat → ℝ) (a : NlAtom) (t t' : ℝ) (h : AtomLe σ a t) (ht : t ≤ t') : AtomLe σ a t' := sorry
/-- the epigraph relation only depends on (kind, args): atoms that the code identifies have the same value -/
theorem atomLe_same (σ : Nat → ℝ) (a b : NlAtom) (h : a.same b = true) (t : ℝ) : AtomLe σ a t ↔ AtomLe σ b t := sorry

/-! ### affine constraints: the residual rows equal the slack identically -/
theorem elem_rows_residual (σ : Nat → ℝ) (dummy : Nat) (isEq : Bool) (rows : List SRow)
    (haff : ∀ r ∈ rows, rowAtoms r = []) (crows : List CRow) (K : List Cone)
    (h : conRows dummy (.elem isEq rows) = .ok (crows, K)) :
    crows.map (crowVal σ) = rows.map (fun r => - affVal σ r) ∧
    K = [⟨if isEq then .zero else .pos, rows.length⟩] := sorry

/-! ### set-membership classes -/
theorem primal_rows_iff (Q : CType → List ℝ → Prop) (σ : Nat → ℝ) (dummy : Nat) (y : List SRow) (K : List Cone)
    (crows : List CRow) (K' : List Cone) (h : conRows dummy (.primal y K) = .ok (crows, K')) :
    K' = K ∧ crows.map (crowVal σ) = y.map (affVal σ) ∧ ∀ r ∈ y, rowAtoms r = [] := sorry

/-- the rows `DualProductCone.conic_form` emits hold iff `y ∈ K*`, for every sequence over {+,0,S,e}
    (uses `exp_dual_iff`: (u,v,w) ∈ K_exp* ↔ (−w, e·v, −u) ∈ K_exp — the factor e is in the code) -/
theorem dual_rows_iff (Q : CType → List ℝ → Prop) (σ : Nat → ℝ) (dummy : Nat) (y : List SRow) (K : List Cone)
    (hK : ∀ co ∈ K, co.type ∈ [CType.zero, .pos, .soc, .exp]) (hlen : y.length = (K.map (·.len)).sum)
    (crows : List CRow) (K' : List Cone) (h : conRows dummy (.dual y K) = .ok (crows, K')) :
    (∀ r ∈ y, rowAtoms r = []) →
    (FeasBlocks (conP Q) K' (crows.map (crowVal σ)) ↔ FeasBlocks (dualP Q) K (y.map (affVal σ))) := sorry

/-- second-order cone self-duality (justifies treating `S` as its own dual in `dualP`) -/
theorem soc_self_dual (y : List ℝ) :
    socR y ↔ ∀ s : List ℝ, s.length = y.length → socR s → 0 ≤ dot s y := sorry

/-! ### the compiler: equivalence with the high-level constraints -/
/-- For every constraint list satisfying the curvature condition `Convex` (and with fresh epigraph
    variables), an assignment of the user's variables satisfies every constraint by its mathematical
    definition iff it extends, by some values of the epigraph variables, to a point of the compiled
    system. -/
theorem compile_equiv (Q : CType → List ℝ → Prop) (cons : List Con) (dummy : Nat)
    (hconv : ∀ c ∈ cons, Convex c = true) (hfresh : EpiFresh cons)
    (hwf : ∀ c ∈ cons, match c with
      | .primal y K => y.length = (K.map (·.len)).sum
      | .dual y K => y.length = (K.map (·.len)).sum ∧ ∀ co ∈ K, co.type ∈ [CType.zero, .pos, .soc, .exp]
      | _ => True)
    (rows : List CRow) (K : List Cone) (h : compileBlocks cons dummy = .ok (rows, K)) (σ : Nat → ℝ) :
    (∀ c ∈ cons, Holds Q σ c) ↔
      ∃ σ' : Nat → ℝ,
        (∀ id, id ∉ (collectAtoms ((cons.filter isElem).flatMap elemRowsOf)).map (·.epi) → σ' id = σ id) ∧
        FeasRows Q σ' rows K := sorry

/-- row dimensions of the compiled system agree -/
theorem compile_dims (cons : List Con) (dummy : Nat) (vars : List VarInfo) (c : Compiled) (vm : List (String × List Int))
    (h : compile cons dummy vars = .ok (c, vm)) :
    c.A.length = (c.K.map (·.len)).sum ∧ c.b.length = (c.K.map (·.len)).sum ∧ ∀ r ∈ c.A, r.length = c.cols.length := sorry

/-! ### assembly and the variable map -/
/-- the assembled dense row applied to `x_j = σ(cols_j)` is the compiled row's value (duplicates in the
    triplet list are summed) -/
theorem assemble_correct (rows : List CRow) (K : List Cone) (σ : Nat → ℝ) (i : Nat) (hi : i < rows.length) :
    let c := assemble rows K
    (List.zipWith (fun (a : Rat) (cid : Nat) => (a : ℝ) * σ cid) (c.A.getD i []) c.cols).sum + ((c.b.getD i 0 : Rat) : ℝ)
      = ((rows.getD i ⟨[], 0, false⟩).entries.map fun e => (e.2 : ℝ) * σ e.1).sum
          + (((rows.getD i ⟨[], 0, false⟩).const : Rat) : ℝ) := sorry

/-- columns are the sorted distinct ids that occur: distinct components get distinct columns -/
theorem cols_sorted (rows : List CRow) : (sortedCols rows).Pairwise (· < ·) ∧
    ∀ id, id ∈ sortedCols rows ↔ ∃ r ∈ rows, ∃ e ∈ r.entries, e.1 = id := sorry

/-- `-1` exactly for ids that occur nowhere; otherwise the column that carries the id -/
theorem colOf_spec (cols : List Nat) (hnd : cols.Nodup) (id : Nat) :
    (colOf cols id = -1 ↔ id ∉ cols) ∧
    (∀ j : Nat, colOf cols id = (j : Int) → cols.getD j 0 = id ∧ j < cols.length) ∧
    (id ∈ cols → ∃ j : Nat, colOf cols id = (j : Int)) := sorry

theorem variable_map_correct (cols : List Nat) (vars : List VarInfo) (vm : List (String × List Int))
    (h : variableMap cols vars = .ok vm) :
    (∀ v ∈ vars, (v.name, v.ids.map (colOf cols)) ∈ vm) ∧ vm.length = vars.length ∧
    (∀ v ∈ vars, ∀ w ∈ vars, v.gen = w.gen) := sorry

/-- mixed generations are rejected -/
theorem variable_map_rejects (cols : List Nat) (vars : List VarInfo)
    (h : ∃ v ∈ vars, ∃ w ∈ vars, v.gen ≠ w.gen) : ∃ m, variableMap cols vars = .error m := sorry

end Sageopt.Props.C07
