/- Proof targets for C11 (NOT part of the library).  Statements only. -/
import SageoptModel.Lemmas.CompileSem
import SageoptModel.Model.Recompile
namespace Sageopt.Props.C11
open Sageopt Sageopt.Compile Sageopt.Solvers

/-- all indices of every compile operation are valid positions of the pool, without repetition -/
def ValidOps (n : Nat) (ops : List Op) : Prop :=
  ∀ op ∈ ops, match op with
    | .compile idxs => (∀ i ∈ idxs, i < n) ∧ idxs.Nodup
    | .unrelated _ => True

/-- writing the unchanged post-state back changes nothing -/
theorem writeBack_pick (cons : List Con) (idxs : List Nat) (h : ∀ i ∈ idxs, i < cons.length) :
    writeBack cons idxs (pick cons idxs) = cons := sorry

/-- STATE INVARIANT over all finite histories: whatever is compiled, in whatever order, interleaved with
    the creation of any number of unrelated Variables, the constraint objects keep their state -/
theorem history_state_invariant (w : World) (ops : List Op) (hv : ValidOps w.cons.length ops) :
    (run w ops).1.cons = w.cons := sorry

/-- the dummy column (id of the most recently created scalar variable; it moves whenever unrelated
    Variables are created) only carries zero entries: for any two dummies the cones are identical and the
    compiled rows have the same value under every assignment -/
theorem unrelated_vars_irrelevant (cons : List Con) (d d' : Nat) (rows : List CRow) (K : List Cone)
    (h : compileBlocks cons d = .ok (rows, K)) :
    ∃ rows', compileBlocks cons d' = .ok (rows', K) ∧
      ∀ σ : Nat → ℝ, rows'.map (crowVal σ) = rows.map (crowVal σ) := sorry

/-- every compilation that occurs anywhere in any history returns the compilation of the same objects
    in their INITIAL state (a freshly built copy), up to the dummy column: same cones, rows equal under
    every assignment; and a compilation fails in the history iff it fails on the fresh copy -/
theorem history_outputs_fresh (w : World) (ops : List Op) (hv : ValidOps w.cons.length ops)
    (k : Nat) (idxs : List Nat) (hk : ops[k]? = some (.compile idxs)) :
    ∃ out, (run w ops).2[k]? = some (some out) ∧
      (match out, compileBlocks (pick w.cons idxs) 0 with
       | .ok (rows, K), .ok (rows0, K0) => K = K0 ∧ ∀ σ : Nat → ℝ, rows.map (crowVal σ) = rows0.map (crowVal σ)
       | .error _, .error _ => True
       | _, _ => False) := sorry

/-- models that mix Variables of different index generations are rejected -/
theorem generation_rejected (cols : List Nat) (vars : List VarInfo)
    (h : ∃ v ∈ vars, ∃ w ∈ vars, v.gen ≠ w.gen) : ∃ m, variableMap cols vars = .error m := sorry

end Sageopt.Props.C11
