/-
Proof targets for C10 (NOT part of the library).  Statements only.
-/
import SageoptModel.Lemmas.SolversSem
namespace Sageopt.Props.C10
open Sageopt Sageopt.Solvers

variable {R : Type} [CommRing R] [LinearOrder R] [IsStrictOrderedRing R]

/-- T1 (the property's first sentence, ECOS part): for EVERY cone sequence over {0,+,S,e} — including
    adjacent cones of equal type — the ECOS data describe exactly the coniclifts feasible set
    (and the objective vector is passed through unchanged). -/
theorem ecos_equiv (S : ConeSem R) (n : Nat) (c : Vec R) (A : Mat R) (b : Vec R) (K : List Cone)
    (d : EcosData R) (x : Vec R) (hwf : WFSys n A b K) (hx : x.length = n)
    (hd : ecosApply c A b K = some d) :
    d.c = c ∧ (FeasBlocks S.P K (slack A b x) ↔ FeasECOS S.P d x) := sorry

/-- ECOS.apply raises exactly on cone sequences with a type outside {0,+,S,e} -/
theorem ecos_rejects_iff (c : Vec R) (A : Mat R) (b : Vec R) (K : List Cone) :
    ecosApply c A b K = none ↔ ∃ co ∈ K, co.type ∉ [CType.zero, .pos, .soc, .exp] := sorry

/-- T2: slack separation preserves the projection onto the original columns, for every dont_sep;
    the `col mapping` annotations point at exactly the slack columns, and only allowed cone types
    remain in the affine part. -/
theorem separate_equiv (S : ConeSem R) (n : Nat) (A : Mat R) (b : Vec R) (K : List Cone)
    (dontSep : CType → Bool) (x : Vec R) (hwf : WFSys n A b K) (hx : x.length = n) :
    let r := separate n A b K dontSep
    (∀ co ∈ r.K, co.type = .zero ∨ dontSep co.type = true) ∧
    (FeasBlocks S.P K (slack A b x) ↔
      ∃ y : Vec R, y.length = (r.slacks.map (·.len)).sum ∧
        FeasBlocks S.P r.K (slack r.A r.b (x ++ y)) ∧
        ∀ sc ∈ r.slacks, S.P sc.type (sc.cols.map fun k => (x ++ y).getD k 0)) := sorry

/-- T3: dualisation.  f = -b, G = Aᵀ, h = c, Kd = dual cones; weak duality for every pair of
    feasible points, given the pairing inequality of each cone with its dual (proved for the concrete
    cones over ℝ in `exp_pairing`, `soc_pairing`). -/
theorem weak_duality (S Sd : ConeSem R) (n : Nat) (c : Vec R) (A : Mat R) (b : Vec R) (K : List Cone)
    (x y : Vec R) (hwf : WFSys n A b K) (hx : x.length = n) (hc : c.length = n)
    (pair : ∀ co ∈ K, ∀ s y : List R, s.length = co.len → y.length = co.len →
        S.P co.type s → Sd.P (dualCone co).type y → 0 ≤ dot s y)
    (hp : FeasBlocks S.P K (slack A b x))
    (hy : y.length = A.length)
    (hd : FeasBlocks Sd.P (dualize n c A b K).Kd y)
    (hG : mulVec (dualize n c A b K).G y = (dualize n c A b K).h) :
    dot (dualize n c A b K).f y ≤ dot c x := sorry

/-- zero gap ⇒ both optimal -/
theorem zero_gap_optimal (S Sd : ConeSem R) (n : Nat) (c : Vec R) (A : Mat R) (b : Vec R) (K : List Cone)
    (x y : Vec R) (hwf : WFSys n A b K) (hx : x.length = n) (hc : c.length = n)
    (pair : ∀ co ∈ K, ∀ s y : List R, s.length = co.len → y.length = co.len →
        S.P co.type s → Sd.P (dualCone co).type y → 0 ≤ dot s y)
    (hp : FeasBlocks S.P K (slack A b x)) (hy : y.length = A.length)
    (hd : FeasBlocks Sd.P (dualize n c A b K).Kd y)
    (hG : mulVec (dualize n c A b K).G y = (dualize n c A b K).h)
    (hgap : dot (dualize n c A b K).f y = dot c x) :
    (∀ x' : Vec R, x'.length = n → FeasBlocks S.P K (slack A b x') → dot c x ≤ dot c x') ∧
    (∀ y' : Vec R, y'.length = A.length → FeasBlocks Sd.P (dualize n c A b K).Kd y' →
        mulVec (dualize n c A b K).G y' = (dualize n c A b K).h →
        dot (dualize n c A b K).f y' ≤ dot (dualize n c A b K).f y) := sorry

/-- T4: MOSEK primal form.  `PM` = MOSEK's cones; hypotheses relate them to the coniclifts cones
    (quad = S in the same order; pexp (x1,x2,x3) = coniclifts e at (x3,x1,x2)). -/
theorem mosek_primal_equiv (S : ConeSem R) (PM : MosekConeKind → List R → Prop)
    (hquad : ∀ v, PM .quad v ↔ S.P .soc v)
    (hpexp : ∀ x1 x2 x3, PM .pexp [x1, x2, x3] ↔ S.P .exp [x3, x1, x2])
    (n : Nat) (c : Vec R) (A : Mat R) (b : Vec R) (K : List Cone) (x : Vec R)
    (hwf : WFSys n A b K) (hx : x.length = n) (hc : c.length = n)
    (hK : ∀ co ∈ K, co.type ∈ [CType.zero, .pos, .soc, .exp])
    (t : MosekTask R) (ht : mosekPrimalTask (mosekPrimalApply n c A b K) = some t) :
    (FeasBlocks S.P K (slack A b x) ↔ ∃ y : Vec R, TaskFeas PM t (x ++ y)) ∧
    (∀ y : Vec R, (x ++ y).length = t.nvars → dot t.obj (x ++ y) = dot c x) ∧ t.maximize = false := sorry

/-- T5: MOSEK dual form: the task's feasible points are exactly the regrouped (+, S, de, fr) dual
    feasible points of `dualize`, with the same objective.
    `regroup` lists the blocks of y by type in the order +, S, e(→de), 0(→fr). -/
def regroup (K : List Cone) (y : Vec R) : Vec R :=
  selectBy (selector K .pos) y ++ selectBy (selector K .soc) y ++ selectBy (selector K .exp) y
    ++ selectBy (selector K .zero) y

theorem mosek_dual_equiv (Sd : ConeSem R) (PM : MosekConeKind → List R → Prop)
    (hquad : ∀ v, PM .quad v ↔ Sd.P .soc v)
    (hdexp : ∀ s1 s2 s3, PM .dexp [s1, s2, s3] ↔ Sd.P .dexp [s3, s1, s2])
    (n : Nat) (c : Vec R) (A : Mat R) (b : Vec R) (K : List Cone) (y : Vec R)
    (hwf : WFSys n A b K) (hc : c.length = n) (hy : y.length = A.length)
    (hK : ∀ co ∈ K, co.type ∈ [CType.zero, .pos, .soc, .exp]) :
    let D := dualize n c A b K
    let t := mosekDualTask (mosekDualApply n c A b K)
    ((FeasBlocks Sd.P D.Kd y ∧ mulVec D.G y = D.h) ↔ TaskFeas PM t (regroup K y)) ∧
    dot t.obj (regroup K y) = dot D.f y ∧ t.maximize = true := sorry

end Sageopt.Props.C10
