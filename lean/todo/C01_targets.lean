/- Proof targets for C01 (NOT part of the library).  Statements only. -/
import SageoptModel.Lemmas.SageSem
namespace Sageopt.Props.C01
open Sageopt Sageopt.Sage Sageopt.Compile Sageopt.Solvers Sageopt.Analysis

/-- semantics of the rows `sum_relent(x, y, z, epi, y_scale = e)` emits:
    `0 ≤ −z − Σ epi_k` and `(−epi_k, e·y_k, x_k) ∈ K_exp` for every k -/
theorem sumRelent_iff (Q : CType → List ℝ → Prop) (σ : Nat → ℝ) (x y : List AffE) (z : AffE) (epi : List Nat)
    (hy : y.length = x.length) (he : epi.length = x.length) :
    FeasBlocks (conP Q) (sumRelent x y z epi).2 ((sumRelent x y z epi).1.map (crowVal σ)) ↔
      (0 ≤ -(argVal σ z) - (epi.map σ).sum) ∧
      ∀ k, k < x.length →
        InExpCone (-(σ (epi.getD k 0))) (Real.exp 1 * argVal σ (y.getD k (constE 0))) (argVal σ (x.getD k (constE 0))) := sorry

/-- kernel-basis witnesses are sound as soon as the basis lies in the kernel of the balance matrix
    (a fact about the numerical SVD, audited per instance) -/
def KernelOk (inp : PrimalIn) : Prop :=
  inp.settings.kernelBasis = true → ∀ p ∈ inp.ids, p.basis ≠ [] →
    ∀ t, t < inp.n → ∀ l, l < p.nu.length →
      ((trueIdx (coverOf inp.ech p.i)).zipIdx.map fun (j, k) =>
        ((inp.alpha.getD j []).getD t 0 - (inp.alpha.getD p.i []).getD t 0) * ((p.basis.getD k []).getD l 0)).sum = 0

/-- THE PROPERTY.  For every exponent matrix, every coefficient vector (constants and affine
    expressions), every domain X given in conic form over {+,0,S,e} (possibly with lifted coordinates), every
    cover family with `i ∉ cover i` (user supplied, default, or presolved with any answers of the optimisation
    presolve), every combination of the settings, and every assignment σ satisfying the compiled rows:
    (i) the AGE vectors sum to at most c (exactly c under `sum_age_force_equality`),
    (ii) every entry of an AGE vector other than its own index is nonnegative,
    (iii) every AGE vector defines a signomial that is nonnegative at every point of X,
    (iv) hence the signomial with coefficients c(σ) is nonnegative on all of X. -/
theorem primal_sound (Q : CType → List ℝ → Prop) (inp : PrimalIn) (hwf : WfPrimal inp) (hker : KernelOk inp)
    (rows : List CRow) (K : List Cone) (h : primalRows inp = .ok (rows, K))
    (σ : Nat → ℝ) (hσ : FeasRows Q σ rows K) :
    let m := inp.alpha.length
    ((inp.ids.filter fun p => !p.nu.isEmpty) ≠ [] →
      (∀ j, j < m → (inp.ids.map fun p => ageVal σ m inp.c inp.ech p j).sum ≤ cVal σ inp.c j) ∧
      (inp.settings.sumAgeForceEquality = true →
        ∀ j, j < m → (inp.ids.map fun p => ageVal σ m inp.c inp.ech p j).sum = cVal σ inp.c j) ∧
      (∀ p ∈ inp.ids, ∀ j, j < m → j ≠ p.i → 0 ≤ ageVal σ m inp.c inp.ech p j) ∧
      (∀ p ∈ inp.ids, ∀ x, InDom Q inp.X inp.n x →
        0 ≤ sigVal inp.alpha ((List.range m).map fun j => ageVal σ m inp.c inp.ech p j) x)) ∧
    (∀ x, InDom Q inp.X inp.n x → 0 ≤ sigVal inp.alpha ((List.range m).map fun j => cVal σ inp.c j) x) := sorry

/-- indices that get no AGE cone have nonnegative constant coefficients (what makes (iv) follow from (i)–(iii)):
    every index outside U_I is a nonnegative constant -/
theorem outside_U_nonneg (alpha : List (List Rat)) (c : List AffE) (hasX : Bool) (s : Settings) (answers : List Bool)
    (j : Nat) (hj : j < c.length) (hnot : j ∉ (defaultEch alpha (some (c.map classify)) hasX s answers).U) :
    (c.getD j (constE 0)).co = [] ∧ 0 ≤ (c.getD j (constE 0)).off := sorry

/-- the default cover family never covers an index by itself and never uses a definitely-negative index,
    whatever the settings and the presolve answers: the sign / cover presolve only ever shrinks the cone -/
theorem default_covers_ok (alpha : List (List Rat)) (signs : Option (List CSign)) (hasX : Bool) (s : Settings)
    (answers : List Bool) :
    let e := defaultEch alpha signs hasX s answers
    ∀ p ∈ e.covers, p.1 ∈ e.U ∧ p.2.length = alpha.length ∧ p.1 ∉ trueIdx p.2 ∧ ∀ j ∈ trueIdx p.2, j ∉ e.N := sorry

end Sageopt.Props.C01
