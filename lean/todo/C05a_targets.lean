/-
C05 targets, part A (polynomial-specific facts).  Final home: SageoptModel/Props/C05.lean (keep the existing
theorem `sigRep_keys` there), helper lemmas in SageoptModel/Lemmas/PolyA*.lean (prefix `pa_`).
-/
import SageoptModel.Model.Poly
import SageoptModel.Lemmas.PolySem
import Mathlib.Analysis.SpecialFunctions.Log.Basic

namespace Sageopt.Props.C05
open Sageopt Sageopt.Sig Sageopt.Relax Sageopt.Poly Sageopt.Sage

/-- a monomial at a point without zero coordinates: `|x^a| = e^{a·log|x|}`, and `x^a = e^{a·log|x|}` when the row is even -/
theorem mono_abs_exp (a : Exp) (x : List ℝ) (hx : NoZero x) (hl : a.length = x.length) (ha : isPolyExp a = true) :
    |monoR a x| = Real.exp (rdot a (logAbs x)) ∧ (isEvenExp a = true → monoR a x = Real.exp (rdot a (logAbs x))) := by
  sorry

/-- numeric signomial representative: `p(x) ≥ sr(log|x|)` at every point with no zero coordinate, in every orthant -/
theorem sigRepQ_minorant (f : SigQ) (hf : PolyWfQ f) (x : List ℝ) (hx : NoZero x) (hl : x.length = f.n) :
    sigR (sigRepQ f).terms (logAbs x) ≤ polyR f.terms x := by
  sorry

/-- variable coefficients: for EVERY assignment satisfying the side constraints `ĉ ≤ c`, `ĉ ≤ −c` -/
theorem sigRep_minorant (p : SigL) (hp : PolyWf p) (chat : List Nat) (hc : (needVars p).length ≤ chat.length)
    (σ : Nat → Rat) (hside : SideOk σ (sigRep p chat).2) (x : List ℝ) (hx : NoZero x) (hl : x.length = p.n) :
    sigR (evalL σ (sigRep p chat).1.terms) (logAbs x) ≤ polyR (evalL σ p.terms) x := by
  sorry

/-- with too few fresh ids the statement fails (the model poisons the coefficient; the code always allocates enough) -/
theorem sigRep_minorant_needs_ids :
    ∃ (p : SigL) (σ : Nat → Rat) (x : List ℝ), PolyWf p ∧ SideOk σ (sigRep p []).2 ∧ NoZero x ∧ x.length = p.n ∧
      ¬ sigR (evalL σ (sigRep p []).1.terms) (logAbs x) ≤ polyR (evalL σ p.terms) x := by
  sorry

/-- the side constraints are exactly one pair per row in `needVars`, in order, on the supplied ids -/
theorem sigRep_side (p : SigL) (chat : List Nat) (hc : (needVars p).length ≤ chat.length) :
    (sigRep p chat).2.map (·.chat) = chat.take (needVars p).length ∧
    (sigRep p chat).2.map (·.c) = (needVars p).map fun i => (p.terms.getD i ([], Lin.const 0)).2 := by
  sorry

/-- `create_covers`: a cover never contains its own index nor a row with an odd exponent; an index has no AGE cone
    exactly when its coefficient is a nonnegative constant on an even row -/
theorem createCovers_spec (sr : SigL) :
    (∀ pr ∈ createCovers sr, pr.2.length = sr.terms.length ∧ pr.2.getD pr.1 false = false ∧
        ∀ j, pr.2.getD j false = true → isEvenExp ((sr.terms.getD j ([], Lin.const 0)).1) = true) ∧
    (∀ i, i < sr.terms.length →
        (i ∉ (createCovers sr).map (·.1) ↔
          ((sr.terms.getD i ([], Lin.const 0)).2.isConstant = true ∧ 0 ≤ (sr.terms.getD i ([], Lin.const 0)).2.off ∧
            isEvenExp ((sr.terms.getD i ([], Lin.const 0)).1) = true))) := by
  sorry

/-- even-exponent modulators are nonnegative everywhere -/
theorem stdMultiplier_nonneg (f : SigQ) (hf : PolyWfQ f) (ell : Nat) (x : List ℝ) (hl : x.length = f.n) :
    0 ≤ polyR (powNat isZeroQ (stdMultiplier f) ell).terms x := by
  sorry

/-- and positive away from the coordinate hyperplanes as soon as `f` has one even row
    (without an even row the modulator is the zero polynomial: `stdMultiplier_zero`) -/
theorem stdMultiplier_pos (f : SigQ) (hf : PolyWfQ f) (hnd : (keys f.terms).Nodup) (hev : ∃ t ∈ f.terms, isEvenExp t.1 = true) (ell : Nat)
    (x : List ℝ) (hx : NoZero x) (hl : x.length = f.n) :
    0 < polyR (powNat isZeroQ (stdMultiplier f) ell).terms x := by
  sorry

theorem stdMultiplier_zero (f : SigQ) (hev : ∀ t ∈ f.terms, isEvenExp t.1 = false) (x : List ℝ) :
    polyR (stdMultiplier f).terms x = 0 := by
  sorry

/-- the dual construction admits the SIGNED moment vectors of every real point: with `v_j = t·x^{a_j}` and
    `aux_j = t·e^{a_j·log|x|}` one has `aux_j = v_j` on even rows and `|v_j| ≤ aux_j` on the others -/
theorem dual_signed_moments (alpha : List Exp) (x : List ℝ) (hx : NoZero x) (hw : ∀ a ∈ alpha, a.length = x.length ∧ isPolyExp a = true)
    (t : ℝ) (ht : 0 ≤ t) :
    ∀ a ∈ alpha,
      (isEvenExp a = true → t * Real.exp (rdot a (logAbs x)) = t * monoR a x) ∧
      (-(t * Real.exp (rdot a (logAbs x))) ≤ t * monoR a x ∧ t * monoR a x ≤ t * Real.exp (rdot a (logAbs x))) := by
  sorry

/-- a bound valid at all points without zero coordinates is valid everywhere (polynomials are continuous and those
    points are dense): this is how the relaxations, which work in `log|x|`, bound `p` at points with zero coordinates -/
theorem bound_extends_to_zero_coords (ts : List (Exp × Rat)) (n : Nat) (hw : ∀ t ∈ ts, t.1.length = n) (v : ℝ)
    (h : ∀ x : List ℝ, x.length = n → NoZero x → v ≤ polyR ts x) :
    ∀ x : List ℝ, x.length = n → v ≤ polyR ts x := by
  sorry

end Sageopt.Props.C05
