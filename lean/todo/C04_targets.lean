/- Proof targets for C04 (NOT part of the library).  Statements only. -/
import SageoptModel.Model.Relax
import SageoptModel.Props.C13
namespace Sageopt.Props.C04
open Sageopt Sageopt.Sig Sageopt.Relax Sageopt.Props.C13

/-- substitute values for the variables in every coefficient, and evaluate against a grid character -/
def evalσ (χ : Exp → Rat) (σ : Nat → Rat) (f : SigL) : Rat := eval χ (mapσ σ f).terms

/-- `combinations_with_replacement`: every enumerated multiset has the requested size and only members of `xs` -/
theorem combsWithRep_spec {α : Type} (k : Nat) (xs : List α) :
    ∀ comb ∈ combsWithRep k xs, comb.length = k ∧ ∀ g ∈ comb, g ∈ xs := sorry

/-- Q-FOLD SOUNDNESS: every folded constraint is a product of at least one and at most q members of the input
    list — so it is ≥ 0 (resp. = 0) wherever all input constraints are -/
theorem qfold_sound (n : Nat) (χ : Exp → Rat) (hχ : IsGridChar n χ) (cons : List SigQ)
    (hc : ∀ g ∈ cons, Wf g ∧ g.n = n) (q : Nat) (hq : 1 ≤ q) :
    ∀ pr ∈ qFold n cons q, ∃ comb : List SigQ, comb ≠ [] ∧ comb.length ≤ q ∧ (∀ g ∈ comb, g ∈ cons) ∧
      eval χ pr.terms = (comb.map fun g => eval χ g.terms).prod := sorry

/-- well-formedness of the multiplier id lists: one list of ids per folded constraint, each as long as alpha_hat -/
def IdsOk (lg : Lagrangian) (sIds zIds : List (List Nat)) : Prop :=
  sIds.length = lg.gts.length ∧ zIds.length = lg.eqs.length ∧
  (∀ ids ∈ sIds ++ zIds, ids.length = lg.alphaHat.length)

/-- THE LAGRANGIAN IDENTITY: for all f, gts, eqs, p, q and EVERY assignment σ of γ and of the multiplier
    coefficients, as functions (against every grid character χ, e.g. evaluation at a point):
      L = f − γ − Σ_{(s,g)} s·g − Σ_{(z,h)} z·h
    over exactly the folded constraints the builder returns -/
theorem lagrangian_identity (f : SigQ) (hf : Wf f) (gts eqs : List SigQ)
    (hg : ∀ g ∈ gts ++ eqs, Wf g ∧ g.n = f.n) (p q : Nat) (hq : 1 ≤ q) (gammaId : Nat) (sIds zIds : List (List Nat))
    (χ : Exp → Rat) (hχ : IsGridChar f.n χ) (σ : Nat → Rat) :
    let lg := makeLagrangian f gts eqs p q gammaId sIds zIds
    IdsOk lg sIds zIds →
    evalσ χ σ lg.L =
      eval χ f.terms - σ gammaId
        - ((lg.gts.zip sIds).map fun pr => evalσ χ σ (varSig f.n lg.alphaHat pr.2) * eval χ pr.1.terms).sum
        - ((lg.eqs.zip zIds).map fun pr => evalσ χ σ (varSig f.n lg.alphaHat pr.2) * eval χ pr.1.terms).sum := sorry

/-- the multiplier with coefficient ids `ids` evaluates to `Σ_k σ(ids_k)·χ(alpha_hat_k)` -/
theorem varSig_eval (n : Nat) (alphaHat : List Exp) (hnd : alphaHat.Nodup) (hgrid : ∀ r ∈ alphaHat, OnGrid r ∧ r.length = n)
    (ids : List Nat) (hl : ids.length = alphaHat.length) (χ : Exp → Rat) (σ : Nat → Rat) :
    evalσ χ σ (varSig n alphaHat ids) = (List.zipWith (fun id a => σ id * χ a) ids alphaHat).sum := sorry

/-- `hierarchy_e_k` returns distinct rows on the grid, of the right width -/
theorem hierarchyEk_wf (n : Nat) (alphas : List (List Exp)) (hw : ∀ a ∈ alphas, ∀ r ∈ a, r.length = n ∧ OnGrid r) (k : Nat) :
    (hierarchyEk n alphas k).Nodup ∧ ∀ r ∈ hierarchyEk n alphas k, r.length = n ∧ OnGrid r := sorry

end Sageopt.Props.C04
