/- Proof targets for C12 (NOT part of the library).  Statements only. -/
import SageoptModel.Lemmas.SigSem
import Mathlib.Algebra.Order.Field.Rat
import Mathlib.Algebra.Order.Ring.Abs
namespace Sageopt.Props.C12
open Sageopt.Sig

variable {C : Type} [CommRing C]

/-! rounding -/
theorem round7_idem (q : Rat) : round7 (round7 q) = round7 q := sorry
/-- the grid is closed under addition, so the rounding inside `product` is the identity on
    constructed signomials -/
theorem round7_add_grid (a b : Rat) (ha : round7 a = a) (hb : round7 b = b) : round7 (a + b) = a + b := sorry
theorem round7_zero : round7 0 = 0 := sorry
/-- half-integers (the generated domain) are on the grid -/
theorem round7_half_int (k : Int) : round7 ((k : Rat) / 2) = (k : Rat) / 2 := sorry

/-! construction: repeated rows are added; the result satisfies the representation invariant -/
theorem mk_wf (n : Nat) (ts : List (Exp × C)) (hw : ∀ t ∈ ts, t.1.length = n) : Wf (mk n ts) := sorry
theorem mk_coeff (n : Nat) (ts : List (Exp × C)) (a : Exp) :
    coeff (mk n ts).terms a = coeff (ts.map fun t => (roundExp t.1, t.2)) a := sorry
theorem mk_eval (n : Nat) (ts : List (Exp × C)) (χ : Exp → C) :
    eval χ (mk n ts).terms = eval χ (ts.map fun t => (roundExp t.1, t.2)) := sorry
/-- on-grid, distinct rows: the constructor changes nothing (row order preserved) -/
theorem mk_id (f : SigT C) (hf : Wf f) : mk f.n f.terms = f := sorry

/-! without_zeros -/
theorem withoutZeros_coeff (isZero : C → Bool) (hz : ∀ c, isZero c = true ↔ c = 0) (f : SigT C) (hf : Wf f) (a : Exp) :
    coeff (withoutZeros isZero f).terms a = coeff f.terms a := sorry
theorem withoutZeros_wf (isZero : C → Bool) (f : SigT C) (hf : Wf f) : Wf (withoutZeros isZero f) := sorry
/-- no explicitly-zero term survives, other than the zero function's single term -/
theorem withoutZeros_no_zero (isZero : C → Bool) (hz : ∀ c, isZero c = true ↔ c = 0) (f : SigT C) (hf : Wf f) :
    (∀ t ∈ (withoutZeros isZero f).terms, t.2 ≠ 0) ∨ (withoutZeros isZero f).terms.length = 1 := sorry

/-! sums -/
theorem sum_coeff (f g : SigT C) (hf : Wf f) (hg : Wf g) (hn : f.n = g.n) (a : Exp) :
    coeff (sumList f.n [f, g]).terms a = coeff f.terms a + coeff g.terms a := sorry
theorem add_hom (isZero : C → Bool) (hz : ∀ c, isZero c = true ↔ c = 0) (f g h : SigT C) (hf : Wf f) (hg : Wf g)
    (hadd : add isZero f g = .ok h) :
    Wf h ∧ (∀ a, coeff h.terms a = coeff f.terms a + coeff g.terms a) ∧
    (∀ χ : Exp → C, eval χ h.terms = eval χ f.terms + eval χ g.terms) ∧
    ((∀ t ∈ h.terms, t.2 ≠ 0) ∨ h.terms.length = 1) := sorry
theorem add_raises_iff (isZero : C → Bool) (f g : SigT C) :
    (∃ m, add isZero f g = .raises m) ↔ f.n ≠ g.n := sorry
/-- `Signomial.sum` of any list (Lagrangian summands): coefficientwise sum -/
theorem sumList_coeff (n : Nat) (fs : List (SigT C)) (hfs : ∀ f ∈ fs, Wf f ∧ f.n = n) (hne : fs ≠ []) (a : Exp) :
    coeff (sumList n fs).terms a = (fs.map fun f => coeff f.terms a).sum := sorry

/-! products -/
theorem product_eval (n : Nat) (χ : Exp → C) (hχ : IsChar n χ) (f g : SigT C) (hf : Wf f) (hg : Wf g)
    (hfn : f.n = n) (hgn : g.n = n) :
    eval χ (product f g).terms = eval χ f.terms * eval χ g.terms := sorry
theorem product_coeff (f g : SigT C) (hf : Wf f) (hg : Wf g) (hn : f.n = g.n) (a : Exp) :
    coeff (product f g).terms a =
      ((f.terms.flatMap fun t1 => g.terms.map fun t2 => if addExp t1.1 t2.1 == a then t1.2 * t2.2 else 0)).sum := sorry
theorem mul_hom (isZero : C → Bool) (hz : ∀ c, isZero c = true ↔ c = 0) (n : Nat) (χ : Exp → C) (hχ : IsChar n χ)
    (f g h : SigT C) (hf : Wf f) (hg : Wf g) (hfn : f.n = n) (hmul : mul isZero f g = .ok h) :
    Wf h ∧ eval χ h.terms = eval χ f.terms * eval χ g.terms ∧
    ((∀ t ∈ h.terms, t.2 ≠ 0) ∨ h.terms.length = 1) := sorry
theorem neg_hom (isZero : C → Bool) (hz : ∀ c, isZero c = true ↔ c = 0) (f : SigT C) (hf : Wf f) (a : Exp) :
    Wf (neg isZero f) ∧ coeff (neg isZero f).terms a = - coeff f.terms a := sorry
theorem sub_hom (isZero : C → Bool) (hz : ∀ c, isZero c = true ↔ c = 0) (f g h : SigT C) (hf : Wf f) (hg : Wf g)
    (hsub : sub isZero f g = .ok h) :
    Wf h ∧ (∀ a, coeff h.terms a = coeff f.terms a - coeff g.terms a) ∧
    ((∀ t ∈ h.terms, t.2 ≠ 0) ∨ h.terms.length = 1) := sorry
theorem powNat_eval (isZero : C → Bool) (hz : ∀ c, isZero c = true ↔ c = 0) (n : Nat) (χ : Exp → C) (hχ : IsChar n χ)
    (f : SigT C) (hf : Wf f) (hfn : f.n = n) (k : Nat) :
    Wf (powNat isZero f k) ∧ eval χ (powNat isZero f k).terms = (eval χ f.terms) ^ k := sorry

/-! numeric instance: monomial powers, division, equality -/
theorem ratRoot_spec (k : Nat) (hk : 0 < k) (q r : Rat) (h : ratRoot? k q = some r) : 0 ≤ r ∧ r ^ k = q := sorry
theorem ratPowInt_spec (v : Rat) (hv : v ≠ 0) (p : Int) : ratPowInt v p = v ^ p := sorry
/-- a (negative / fractional) power of a monomial is the monomial with scaled exponent and the exact
    power of the coefficient: `c' ^ p.den = c ^ p.num` -/
theorem pow_monomial (f g : SigT Rat) (p : Rat) (hp : ¬ (p.den = 1 ∧ p ≥ 0)) (h : pow f p = .ok g) :
    ∃ a c c', (f.terms.filter fun t => !(isZeroQ t.2)) = [(a, c)] ∧ c ≠ 0 ∧
      g = mk f.n [(a.map (p * ·), c')] ∧ c' ^ p.den = c ^ p.num := sorry
/-- division by a one-term signomial multiplies by its reciprocal monomial -/
theorem div_hom (n : Nat) (χ : Exp → Rat) (hχ : IsChar n χ) (f g h : SigT Rat) (hf : Wf f) (hg : Wf g)
    (hfn : f.n = n) (hgn : g.n = n) (hdiv : div f g = .ok h)
    (hgrid : ∀ t ∈ g.terms, OnGrid (t.1.map (-1 * ·))) :
    eval χ h.terms * eval χ g.terms = eval χ f.terms := sorry

theorem eq_refl (tol : Rat) (htol : 0 ≤ tol) (f : SigT Rat) (hf : Wf f) : eqCode tol f f = true := sorry
theorem eq_symm (tol : Rat) (f g : SigT Rat) : eqCode tol f g = eqCode tol g f := sorry
/-- equality holds exactly when all coefficients agree up to the tolerance (at `tol = 0`: the
    coefficient functions coincide) -/
theorem eq_iff (tol : Rat) (htol : 0 ≤ tol) (f g : SigT Rat) (hf : Wf f) (hg : Wf g) :
    eqCode tol f g = true ↔ ∀ a : Exp, |coeff f.terms a - coeff g.terms a| ≤ tol := sorry
theorem queryCoeff_eq (f : SigT Rat) (hf : Wf f) (a : Exp) : queryCoeff f a = coeff f.terms (roundExp a) := sorry

end Sageopt.Props.C12
