/- Proof targets for C13 (NOT part of the library).  Statements only. -/
import SageoptModel.Lemmas.SigOps
import SageoptModel.Model.Lin
namespace Sageopt.Props.C13
open Sageopt Sageopt.Sig

/-- substitute values for the scalar variables in every coefficient -/
def mapσ (σ : Nat → Rat) (f : SigT Lin) : SigT Rat := ⟨f.n, f.terms.map fun t => (t.1, Lin.value σ t.2)⟩

/-- no coefficient carries the poison flag (product of two non-constant expressions) -/
def Clean (f : SigT Lin) : Prop := ∀ t ∈ f.terms, t.2.bad = false

/-- representation invariant on the Lin side (the same as `Sig.Wf`, which is stated for any C) -/
abbrev WfL (f : SigT Lin) : Prop := Wf f

/-! the affine-form operations mean what they say, under every assignment -/
theorem value_const (σ : Nat → Rat) (q : Rat) : Lin.value σ (Lin.const q) = q := sorry
theorem value_add (σ : Nat → Rat) (x y : Lin) : Lin.value σ (x + y) = Lin.value σ x + Lin.value σ y := sorry
theorem value_scale (σ : Nat → Rat) (q : Rat) (x : Lin) : Lin.value σ (Lin.scale q x) = q * Lin.value σ x := sorry
theorem value_neg (σ : Nat → Rat) (x : Lin) : Lin.value σ (-x) = - Lin.value σ x := sorry
theorem value_mul (σ : Nat → Rat) (x y : Lin) (h : (x * y).bad = false) :
    Lin.value σ (x * y) = Lin.value σ x * Lin.value σ y := sorry
/-- the product is rejected (poisoned) exactly when both factors are non-constant (or an operand already was) -/
theorem mul_bad_iff (x y : Lin) :
    (x * y).bad = true ↔ (x.bad = true ∨ y.bad = true ∨ (x.isConstant = false ∧ y.isConstant = false)) := sorry

/-! terms are dropped only when identically zero — and the test has no access to variable values -/
theorem isZero_sound (x : Lin) (h : Lin.isZero x = true) : ∀ σ : Nat → Rat, Lin.value σ x = 0 := sorry
/-- every term that `without_zeros` removes has an identically-zero coefficient (the zero affine form) -/
theorem drop_only_identically_zero (f : SigT Lin) (hf : Wf f) (t : Exp × Lin)
    (ht : t ∈ f.terms) (hdrop : ∀ c, (t.1, c) ∉ (withoutZeros Lin.isZero f).terms) :
    t.2.co = [] ∧ t.2.off = 0 ∧ t.2.bad = false := sorry
/-- `without_zeros` preserves the represented function under every assignment -/
theorem withoutZeros_map (σ : Nat → Rat) (f : SigT Lin) (hf : Wf f) (a : Exp) :
    coeff (mapσ σ (withoutZeros Lin.isZero f)).terms a = coeff (mapσ σ f).terms a := sorry

/-! arithmetic, then substitution  =  substitution, then arithmetic   (as coefficient functions) -/
theorem map_mk (σ : Nat → Rat) (n : Nat) (ts : List (Exp × Lin)) (a : Exp) :
    coeff (mapσ σ (mk n ts)).terms a = coeff (mk n (ts.map fun t => (t.1, Lin.value σ t.2))).terms a := sorry
theorem map_const (σ : Nat → Rat) (n : Nat) (x : Lin) (a : Exp) :
    coeff (mapσ σ (const n x)).terms a = coeff (const n (Lin.value σ x)).terms a := sorry
theorem map_sumList (σ : Nat → Rat) (n : Nat) (fs : List (SigT Lin)) (hfs : ∀ f ∈ fs, Wf f ∧ f.n = n)
    (hne : fs ≠ []) (a : Exp) :
    coeff (mapσ σ (sumList n fs)).terms a = (fs.map fun f => coeff (mapσ σ f).terms a).sum := sorry
theorem map_add (σ : Nat → Rat) (f g h : SigT Lin) (hf : Wf f) (hg : Wf g)
    (hadd : add Lin.isZero f g = .ok h) (a : Exp) :
    Wf h ∧ coeff (mapσ σ h).terms a = coeff (mapσ σ f).terms a + coeff (mapσ σ g).terms a := sorry
theorem map_sub (σ : Nat → Rat) (f g h : SigT Lin) (hf : Wf f) (hg : Wf g)
    (hsub : sub Lin.isZero f g = .ok h) (a : Exp) :
    Wf h ∧ coeff (mapσ σ h).terms a = coeff (mapσ σ f).terms a - coeff (mapσ σ g).terms a := sorry
/-- products (one factor numeric, as in `s_g * g`): evaluation against any character commutes,
    provided the code did not reject the product -/
theorem map_mul (σ : Nat → Rat) (n : Nat) (χ : Exp → Rat) (hχ : IsChar n χ) (f g h : SigT Lin)
    (hf : Wf f) (hg : Wf g) (hfn : f.n = n) (hmul : mul Lin.isZero f g = .ok h) (hclean : Clean h) :
    Wf h ∧ eval χ (mapσ σ h).terms = eval χ (mapσ σ f).terms * eval χ (mapσ σ g).terms := sorry
/-- commutation with the numeric operation itself: computing `f + g` symbolically and substituting
    gives the same coefficient function as substituting and adding numerically -/
theorem add_commutes (σ : Nat → Rat) (f g h : SigT Lin) (h' : SigT Rat) (hf : Wf f) (hg : Wf g)
    (hadd : add Lin.isZero f g = .ok h) (hadd' : add isZeroQ (mapσ σ f) (mapσ σ g) = .ok h') (a : Exp) :
    coeff (mapσ σ h).terms a = coeff h'.terms a := sorry
theorem mul_commutes (σ : Nat → Rat) (n : Nat) (χ : Exp → Rat) (hχ : IsChar n χ) (f g h : SigT Lin) (h' : SigT Rat)
    (hf : Wf f) (hg : Wf g) (hfn : f.n = n)
    (hmul : mul Lin.isZero f g = .ok h) (hclean : Clean h) (hmul' : mul isZeroQ (mapσ σ f) (mapσ σ g) = .ok h') :
    eval χ (mapσ σ h).terms = eval χ h'.terms := sorry

end Sageopt.Props.C13
