/- Proof targets for C03 (NOT part of the library).  Statements only. -/
import SageoptModel.Model.Relax
import SageoptModel.Props.C13
import SageoptModel.Props.C16
import SageoptModel.Lemmas.SageSem
namespace Sageopt.Props.C03
open Sageopt Sageopt.Sig Sageopt.Relax Sageopt.Sage

noncomputable section

/-- real value of a rational-coefficient signomial at a real point -/
def sigR (ts : List (Exp × Rat)) (x : List ℝ) : ℝ := (ts.map fun t => (t.2 : ℝ) * Real.exp (rdot t.1 x)).sum

/-- the coefficient vector of the primal SAGE constraint under an assignment σ of (γ and other) variables -/
def primalCoeffs (d : PrimalData) (σ : Nat → Rat) : List (Exp × Rat) := d.alpha.zip (d.c.map (Lin.value σ))

/-- modulator used by the builders -/
def modOf (f : SigQ) (ell : Nat) (ms : Option (List Exp)) (g : Nat) : SigQ :=
  let f' := withoutZeros isZeroQ f
  let L := okOr (add Lin.isZero (embed f') (const f'.n (Lin.scale (-1) (Lin.var g)))) (embed f')
  modulator f'.n (ms.getD (keys L.terms)) ell

/-- STRUCTURE of the primal problem: under every assignment the constrained coefficient vector is the
    coefficient vector of `(f − γ)·t^ell`, as functions of x (for every real x) -/
theorem sigPrimal_function (f : SigQ) (hf : Wf f) (ell : Nat) (ms : Option (List Exp)) (hms : ∀ s, ms = some s → ∀ r ∈ s, r.length = f.n)
    (g : Nat) (σ : Nat → Rat) (x : List ℝ) (hx : x.length = f.n) :
    sigR (primalCoeffs (sigPrimal f ell ms g) σ) x
      = (sigR f.terms x - (σ g : ℝ)) * sigR (modOf f ell ms g).terms x := sorry

/-- the modulator is positive everywhere (its support is nonempty: it contains the exponents of `f − γ`, or the
    given rows) -/
theorem modulator_pos (f : SigQ) (hf : Wf f) (ell : Nat) (ms : Option (List Exp)) (hms : ∀ s, ms = some s → s ≠ [] ∧ ∀ r ∈ s, r.length = f.n)
    (g : Nat) (x : List ℝ) (hx : x.length = f.n) : 0 < sigR (modOf f ell ms g).terms x := sorry

/-- PRIMAL BOUND: whenever the coefficient vector of the constraint defines a signomial that is nonnegative on a
    set S (which is what a satisfied primal SAGE constraint certifies for S = X, C01.primal_sound (iv)), the
    objective value γ is a lower bound of f on S — at every hierarchy level and for every modulator support -/
theorem primal_bound (f : SigQ) (hf : Wf f) (ell : Nat) (ms : Option (List Exp))
    (hms : ∀ s, ms = some s → s ≠ [] ∧ ∀ r ∈ s, r.length = f.n) (g : Nat) (σ : Nat → Rat) (S : List ℝ → Prop)
    (hS : ∀ x, S x → x.length = f.n)
    (hcert : ∀ x, S x → 0 ≤ sigR (primalCoeffs (sigPrimal f ell ms g) σ) x) :
    ∀ x, S x → (σ g : ℝ) ≤ sigR f.terms x := sorry

/-- the primal and dual builders use the same exponent rows, and the coefficient vector of the primal constraint
    is `obj − γ·a` row by row -/
theorem primal_dual_coeffs (f : SigQ) (hf : Wf f) (ell : Nat) (ms : Option (List Exp)) (g : Nat) (σ : Nat → Rat) :
    (sigDual f ell ms g).alpha = (sigPrimal f ell ms g).alpha ∧
    ∀ j, j < (sigPrimal f ell ms g).alpha.length →
      Lin.value σ ((sigPrimal f ell ms g).c.getD j 0)
        = (sigDual f ell ms g).obj.getD j 0 - σ g * (sigDual f ell ms g).a.getD j 0 := sorry

/-- DUAL ATTAINS f: for every real x the vector `v_j = e^{α_j·x} / t(x)` satisfies the normalisation `a·v = 1` and
    has objective value `obj·v = f(x)`; being a nonnegative multiple of the moment vector of x it satisfies the
    dual SAGE constraint whenever x ∈ X (C02.dual_admits_moments).  Hence the dual optimal value is at most f(x) for
    every x ∈ X, and the dual problem is feasible whenever X is nonempty. -/
theorem dual_attains (f : SigQ) (hf : Wf f) (ell : Nat) (ms : Option (List Exp))
    (hms : ∀ s, ms = some s → s ≠ [] ∧ ∀ r ∈ s, r.length = f.n) (g : Nat) (x : List ℝ) (hx : x.length = f.n) :
    let d := sigDual f ell ms g
    let tx := sigR (modOf f ell ms g).terms x
    let v := d.alpha.map fun a => Real.exp (rdot a x) / tx
    (List.zipWith (fun (a : Rat) (vj : ℝ) => (a : ℝ) * vj) d.a v).sum = 1 ∧
    (List.zipWith (fun (o : Rat) (vj : ℝ) => (o : ℝ) * vj) d.obj v).sum = sigR (withoutZeros isZeroQ f).terms x ∧
    ∀ vj ∈ v, 0 ≤ vj := sorry

/-- WEAK DUALITY of the two built problems, given the pairing inequality between the primal and dual SAGE
    models (`0 ≤ c·v` for c in the primal model and v in the dual model — proved for the compiled ordinary cones
    in `ord_age_pairing`): every primal feasible γ is at most every dual feasible objective value -/
theorem weak_duality (f : SigQ) (hf : Wf f) (ell : Nat) (ms : Option (List Exp)) (g : Nat) (σ : Nat → Rat) (v : List ℝ)
    (hv : v.length = (sigDual f ell ms g).alpha.length)
    (hpair : 0 ≤ (List.zipWith (fun (c : Lin) (vj : ℝ) => (Lin.value σ c : ℝ) * vj) (sigPrimal f ell ms g).c v).sum)
    (hnorm : (List.zipWith (fun (a : Rat) (vj : ℝ) => (a : ℝ) * vj) (sigDual f ell ms g).a v).sum = 1) :
    (σ g : ℝ) ≤ (List.zipWith (fun (o : Rat) (vj : ℝ) => (o : ℝ) * vj) (sigDual f ell ms g).obj v).sum := sorry

end

end Sageopt.Props.C03
