/- Proof targets for C16 (NOT part of the library).  Statements only. -/
import SageoptModel.Lemmas.SigSem
import SageoptModel.Model.SymCorr
import Mathlib.Algebra.Order.Field.Rat
namespace Sageopt.Props.C16
open Sageopt.Sig Sageopt.SymCorr

/-- the tolerance the code uses: 10^-(7+1) -/
def tol8 : Rat := 1 / (10 ^ (decimals + 1) : Nat)

/-- on 7-decimal-rounded rows tolerance matching is exact matching: two distinct grid points differ by
    at least 1e-7 > 1e-8 -/
theorem tol_match_exact (r1 r2 : Exp) (h1 : OnGrid r1) (h2 : OnGrid r2) (hl : r1.length = r2.length) :
    rowMatch tol8 r1 r2 = true ↔ r1 = r2 := sorry

/-- `row_correspondence` returns exactly the rows of alpha1 that occur in alpha2, with the index of the
    FIRST occurrence -/
theorem row_correspondence_spec (n : Nat) (a1 a2 : List Exp)
    (h1 : ∀ r ∈ a1, OnGrid r ∧ r.length = n) (h2 : ∀ r ∈ a2, OnGrid r ∧ r.length = n) :
    let res := rowCorrespondence tol8 a1 a2
    res.1.length = res.2.length ∧
    (∀ p ∈ res.1.zip res.2, a1.getD p.1 [] = a2.getD p.2 [] ∧ p.1 < a1.length ∧ p.2 < a2.length ∧
        ∀ j < p.2, a2.getD j [] ≠ a1.getD p.1 []) ∧
    (∀ i < a1.length, a1.getD i [] ∈ a2 → i ∈ res.1) := sorry

variable {C : Type} [CommRing C]

/-- relative_coeff_vector places g's coefficients at the matching rows of alpha and zero elsewhere.
    Stated row by row, hence independent of the order of the rows of `ref` (and of g). -/
theorem rcv_placement (n : Nat) (g : SigT C) (hg : Wf g) (hn : g.n = n) (ref : List Exp)
    (href : ∀ r ∈ ref, OnGrid r ∧ r.length = n) (hnd : ref.Nodup) :
    (relativeCoeffVector tol8 g.terms ref).length = ref.length ∧
    ∀ k < ref.length, (relativeCoeffVector tol8 g.terms ref).getD k 0 = coeff g.terms (ref.getD k []) := sorry

/-- row-order independence, explicitly: permuting the reference rows permutes the result -/
theorem rcv_perm (n : Nat) (g : SigT C) (hg : Wf g) (hn : g.n = n) (ref ref' : List Exp)
    (href : ∀ r ∈ ref, OnGrid r ∧ r.length = n) (hnd : ref.Nodup) (hp : ref'.Perm ref) :
    ∀ k < ref'.length, ∀ k' < ref.length, ref'.getD k [] = ref.getD k' [] →
      (relativeCoeffVector tol8 g.terms ref').getD k 0 = (relativeCoeffVector tol8 g.terms ref).getD k' 0 := sorry

/-- if supp g ⊆ ref then  Σ_k (relCoeff g ref)_k · χ(ref_k) = g  (evaluated against any χ) -/
theorem rcv_eval (n : Nat) (g : SigT C) (hg : Wf g) (hn : g.n = n) (ref : List Exp)
    (href : ∀ r ∈ ref, OnGrid r ∧ r.length = n) (hnd : ref.Nodup)
    (hsupp : ∀ t ∈ g.terms, t.2 ≠ 0 → t.1 ∈ ref) (χ : Exp → C) :
    ((List.zipWith (fun c r => c * χ r) (relativeCoeffVector tol8 g.terms ref) ref)).sum = eval χ g.terms := sorry

/-- a missing exponent is an error, never silently dropped -/
theorem mra_missing_is_error (n : Nat) (shKeys shhKeys : List Exp) (h : SigT Rat) (Lkeys : List Exp) :
    (∃ m, momentReductionArray tol8 n shKeys shhKeys h Lkeys = .raises m) ↔ ∃ r ∈ shhKeys, r ∉ Lkeys := sorry

/-- the moment-reduction identity: for EVERY coefficient vector `sc` of the multiplier,
    s(x)·h(x) = sc · (C G_L(x)), where G_L lists L's monomials — for every character χ -/
theorem mra_identity (n : Nat) (χ : Exp → Rat) (hχ : IsChar n χ)
    (shKeys : List Exp) (h : SigT Rat) (hh : Wf h) (hhn : h.n = n) (Lkeys : List Exp)
    (hsh : ∀ r ∈ shKeys, OnGrid r ∧ r.length = n) (hL : ∀ r ∈ Lkeys, OnGrid r ∧ r.length = n) (hLnd : Lkeys.Nodup)
    (shhKeys : List Exp) (Cm : List (List Rat))
    (hC : momentReductionArray tol8 n shKeys shhKeys h Lkeys = .ok Cm)
    (hcontained : ∀ a ∈ shKeys, ∀ t ∈ h.terms, t.2 ≠ 0 → addExp t.1 a ∈ Lkeys)
    (sc : List Rat) (hsc : sc.length = shKeys.length) :
    Cm.length = shKeys.length ∧
    (List.zipWith (fun s row => s * (List.zipWith (fun c r => c * χ r) row Lkeys).sum) sc Cm).sum
      = (List.zipWith (fun s a => s * χ a) sc shKeys).sum * eval χ h.terms := sorry

end Sageopt.Props.C16
