/- Proof targets for C14 (NOT part of the library).  Statements only. -/
import SageoptModel.Lemmas.SigOps
import SageoptModel.Model.SigCalc
import Mathlib.Analysis.SpecialFunctions.Exp
import Mathlib.Analysis.Calculus.Deriv.Basic
namespace Sageopt.Props.C14
open Sageopt.Sig

/-- `evalWith` (the driver's left fold) is `eval` -/
theorem evalWith_eq_eval (χ : Exp → Rat) (f : SigT Rat) : evalWith χ f = eval χ f.terms := sorry

/-! ### symbolic derivatives, coefficient level -/

/-- ∂/∂x_i of Σ c_a e^{a·x} has coefficient a_i·c_a at exponent a -/
theorem partialSig_coeff (f : SigT Rat) (hf : Wf f) (i : Nat) (a : Exp) :
    coeff (partialSig f i).terms a = a.getD i 0 * coeff f.terms a := sorry
theorem partialSig_wf (f : SigT Rat) (hf : Wf f) (i : Nat) : Wf (partialSig f i) ∧ (partialSig f i).n = f.n := sorry

def incExp (b : Exp) (i : Nat) : Exp := b.set i (b.getD i 0 + 1)

/-- ∂/∂x_i of Σ c_a x^a has coefficient (b_i+1)·c_{b+e_i} at exponent b (the formal partial derivative) -/
theorem partialPoly_coeff (f : SigT Rat) (hf : Wf f) (hp : polyOk f = true) (i : Nat) (hi : i < f.n)
    (b : Exp) (hb : b.length = f.n) (hbp : isPolyExp b = true) :
    coeff (partialPoly f i).terms b = (b.getD i 0 + 1) * coeff f.terms (incExp b i) := sorry
theorem partialPoly_wf (f : SigT Rat) (hf : Wf f) (hp : polyOk f = true) (i : Nat) (hi : i < f.n) :
    Wf (partialPoly f i) ∧ (partialPoly f i).n = f.n ∧ polyOk (partialPoly f i) = true := sorry

/-- mixed partials commute (so the mirrored Hessian is the Hessian), signomials -/
theorem partialSig_comm (f : SigT Rat) (hf : Wf f) (i j : Nat) (a : Exp) :
    coeff (partialSig (partialSig f i) j).terms a = coeff (partialSig (partialSig f j) i).terms a := sorry
/-- … and polynomials -/
theorem partialPoly_comm (f : SigT Rat) (hf : Wf f) (hp : polyOk f = true) (i j : Nat) (hi : i < f.n) (hj : j < f.n)
    (b : Exp) (hb : b.length = f.n) (hbp : isPolyExp b = true) :
    coeff (partialPoly (partialPoly f i) j).terms b = coeff (partialPoly (partialPoly f j) i).terms b := sorry
/-- every entry of `hess` is the iterated partial derivative, in either order -/
theorem hess_entry (poly : Bool) (f : SigT Rat) (i j : Nat) (hi : i < f.n) (hj : j < f.n) :
    ((hess poly f).getD i []).getD j (mk 0 []) =
      (if j ≤ i then partialOf poly (partialOf poly f i) j else partialOf poly (partialOf poly f j) i) := sorry

/-! ### the grad_val / hess_val formulas are the values of the symbolic derivatives -/
theorem gradValSig_eq (χ : Exp → Rat) (f : SigT Rat) (hf : Wf f) (i : Nat) (hi : i < f.n) :
    (gradValSig χ f).getD i 0 = evalWith χ (partialSig f i) := sorry
theorem hessValSig_eq (χ : Exp → Rat) (f : SigT Rat) (hf : Wf f) (i k : Nat) (hi : i < f.n) (hk : k < f.n) :
    ((hessValSig χ f).getD i []).getD k 0 = evalWith χ (partialSig (partialSig f i) k) := sorry
theorem hessValSig_symm (χ : Exp → Rat) (f : SigT Rat) (i k : Nat) (hi : i < f.n) (hk : k < f.n) :
    ((hessValSig χ f).getD i []).getD k 0 = ((hessValSig χ f).getD k []).getD i 0 := sorry

/-! ### shift_coordinates -/
/-- if `w a = e^{a·x0}` then the shifted signomial evaluated at `x` is `f` evaluated at `x + x0`
    (`χ' a = χ a · w a` is exactly `e^{a·(x+x0)} = e^{a·x} e^{a·x0}`) -/
theorem shiftBy_eval (χ χ' w : Exp → Rat) (hw : ∀ a, χ' a = χ a * w a) (f : SigT Rat) (hf : Wf f) :
    evalWith χ (shiftBy w f) = evalWith χ' f := sorry

/-! ### conversions keep the representation -/
theorem conv_id (f : SigT Rat) (hf : Wf f) : mk f.n f.terms = f := sorry

/-! ### composition -/
/-- multiplicative on polynomial rows (nonnegative integer exponents) of width `n`: what evaluation at a
    point `x` is (`monoAt_polyChar`).  (Multiplicativity on ALL rational rows would force `χ ≡ 1` over `Rat`.) -/
structure IsPolyChar (n : Nat) (χ : Exp → Rat) : Prop where
  zero : χ (zeroExp n) = 1
  add : ∀ a b : Exp, a.length = n → b.length = n → isPolyExp a = true → isPolyExp b = true →
    χ (addExp a b) = χ a * χ b

theorem monoAt_polyChar (x : List Rat) : IsPolyChar x.length (monoAt x) := sorry

/-- `p(z)` evaluates to `Σ_a c_a ∏_i z_i(·)^{a_i}` at every point of the inner variables -/
theorem compose_eval (nz : Nat) (χ : Exp → Rat) (hχ : IsPolyChar nz χ) (p : SigT Rat) (hp : Wf p) (hpp : polyOk p = true)
    (zs : List (SigT Rat)) (hz : ∀ z ∈ zs, Wf z ∧ z.n = nz ∧ polyOk z = true) (hlen : zs.length = p.n) (hpos : 0 < p.n)
    (r : SigT Rat) (hr : compose p zs = some r) :
    evalWith χ r =
      (p.terms.map fun t => t.2 * (List.zipWith (fun z ai => (evalWith χ z) ^ ai.num.toNat) zs t.1).prod).sum := sorry

/-- numeric evaluation of a polynomial at a rational point, spelled out:
    `p(x) = Σ_a c_a ∏_i x_i^{a_i}` -/
theorem evalWith_monoAt (x : List Rat) (p : SigT Rat) :
    evalWith (monoAt x) p = (p.terms.map fun t => t.2 * monoAt x t.1).sum := sorry

/-! ### real analysis: the symbolic partial derivative IS the derivative (signomials) -/
/-- real evaluation of a rational-coefficient signomial at `x : ℕ → ℝ` (coordinates beyond n unused) -/
noncomputable def evalR (f : SigT Rat) (x : Nat → ℝ) : ℝ :=
  (f.terms.map fun t => (t.2 : ℝ) * Real.exp ((t.1.zipIdx.map fun p => (p.1 : ℝ) * x p.2).sum)).sum

theorem sig_hasDerivAt (f : SigT Rat) (hf : Wf f) (i : Nat) (hi : i < f.n) (x : Nat → ℝ) :
    HasDerivAt (fun s : ℝ => evalR f (Function.update x i s)) (evalR (partialSig f i) x) (x i) := sorry

end Sageopt.Props.C14
