/-
C15 targets.  Final home: SageoptModel/Props/C15.lean (replace the placeholder theorem there); helper lemmas in
SageoptModel/Lemmas/Dom*.lean (prefix `dm_`).
-/
import SageoptModel.Model.Domain
import SageoptModel.Lemmas.DomainSem
import SageoptModel.Lemmas.SigSem

namespace Sageopt.Props.C15
open Sageopt Sageopt.Sig Sageopt.Relax Sageopt.Poly Sageopt.Sage Sageopt.Domain

/-- normalising an inequality (dividing by its single positive monomial) does not change the set -/
theorem posyIneq_keep_iff (g g' : SigQ) (hg : SigWf g) (hgrid : ∀ t ∈ g.terms, OnGrid t.1) (h : posyIneq g = .keep g')
    (y : List ℝ) (hy : y.length = g.n) :
    0 ≤ sigR g.terms y ↔ 0 ≤ sigR g'.terms y := by
  sorry

/-- a constraint that is skipped is simply not used: the inferred set can only be larger; a constraint with no positive
    term and some negative term is reported as infeasible, and it is (no point satisfies it) -/
theorem posyIneq_raise_infeasible (g : SigQ) (h : posyIneq g = .raises "RuntimeError: infeasible signomial inequality")
    (y : List ℝ) : sigR g.terms y < 0 := by
  sorry

/-- normalising an equation does not change the set -/
theorem monoEq_keep_iff (g g' : SigQ) (hg : SigWf g) (hgrid : ∀ t ∈ g.terms, OnGrid t.1) (h : monoEq g = .keep g')
    (y : List ℝ) (hy : y.length = g.n) :
    sigR g.terms y = 0 ↔ sigR g'.terms y = 0 := by
  sorry

/-- the generated log-space constraints of a standard-form inequality describe exactly `g ≥ 0` -/
theorem clconGt_iff (g : SigQ) (hg : StdGt g) (y : List ℝ) (hy : y.length = g.n) :
    (∀ c ∈ clconGt g, LogCon.holds y c) ↔ 0 ≤ sigR g.terms y := by
  sorry

/-- the generated log-space constraint of a standard-form equation describes exactly `g = 0` -/
theorem clconEq_iff (g : SigQ) (hg : StdEq g) (y : List ℝ) (hy : y.length = g.n) :
    (∀ c ∈ clconEq g, LogCon.holds y c) ↔ sigR g.terms y = 0 := by
  sorry

/-- what `posyIneq` keeps is in standard form (so `clconGt_iff` applies to it) -/
theorem posyIneq_keep_std (g g' : SigQ) (hg : SigWf g) (hgrid : ∀ t ∈ g.terms, OnGrid t.1) (h : posyIneq g = .keep g') : StdGt g' := by
  sorry

/-- what `monoEq` keeps: either in standard form, or a single positive constant (the equation `c e^{a·y} = 0`, for which
    `clconEq` raises: the code raises IndexError there, pre-finding F14) -/
theorem monoEq_keep_std (g g' : SigQ) (hg : SigWf g) (hgrid : ∀ t ∈ g.terms, OnGrid t.1) (h : monoEq g = .keep g') :
    StdEq g' ∨ g'.terms.length ≤ 1 := by
  sorry

/-- CONTAINMENT: every point satisfying all of gts and eqs lies in the inferred set -/
theorem inferSig_contains (gts eqs : List SigQ) (hw : ∀ g ∈ gts ++ eqs, SigWf g ∧ ∀ t ∈ g.terms, OnGrid t.1) (n : Nat)
    (hn : ∀ g ∈ gts ++ eqs, g.n = n) (r : Inferred) (h : inferSig gts eqs = .ok (some r)) (y : List ℝ) (hy : y.length = n)
    (hg : ∀ g ∈ gts, 0 ≤ sigR g.terms y) (he : ∀ g ∈ eqs, sigR g.terms y = 0) :
    ∀ c ∈ r.cons, LogCon.holds y c := by
  sorry

/-- EXACTNESS: the inferred set is exactly the set cut out by the kept constraints `X.gts`, `X.eqs` -/
theorem inferSig_exact (gts eqs : List SigQ) (hw : ∀ g ∈ gts ++ eqs, SigWf g ∧ ∀ t ∈ g.terms, OnGrid t.1) (n : Nat)
    (hn : ∀ g ∈ gts ++ eqs, g.n = n) (r : Inferred) (h : inferSig gts eqs = .ok (some r)) (y : List ℝ) (hy : y.length = n) :
    (∀ c ∈ r.cons, LogCon.holds y c) ↔ ((∀ g ∈ r.gts, 0 ≤ sigR g.terms y) ∧ (∀ g ∈ r.eqs, sigR g.terms y = 0)) := by
  sorry

/-- polynomials with even exponents only: `g(x) = g_sig(log|x|)` at every point without zero coordinate, in every orthant -/
theorem even_poly_logabs (g : SigQ) (hg : PolyWfQ g) (he : allEven g = true) (x : List ℝ) (hx : NoZero x) (hl : x.length = g.n) :
    polyR g.terms x = sigR g.terms (logAbs x) := by
  sorry

/-- CONTAINMENT for polynomials, in log|x| -/
theorem inferPoly_contains (gts eqs : List SigQ) (hw : ∀ g ∈ gts ++ eqs, PolyWfQ g ∧ (keys g.terms).Nodup) (n : Nat)
    (hn : ∀ g ∈ gts ++ eqs, g.n = n) (r : Inferred) (h : inferPoly gts eqs = .ok (some r)) (x : List ℝ) (hx : NoZero x) (hl : x.length = n)
    (hg : ∀ g ∈ gts, 0 ≤ polyR g.terms x) (he : ∀ g ∈ eqs, polyR g.terms x = 0) :
    ∀ c ∈ r.cons, LogCon.holds (logAbs x) c := by
  sorry

/-- EXACTNESS for polynomials: `log|x|` lies in the inferred set iff `x` satisfies the kept polynomial constraints -/
theorem inferPoly_exact (gts eqs : List SigQ) (hw : ∀ g ∈ gts ++ eqs, PolyWfQ g ∧ (keys g.terms).Nodup) (n : Nat)
    (hn : ∀ g ∈ gts ++ eqs, g.n = n) (r : Inferred) (h : inferPoly gts eqs = .ok (some r)) (x : List ℝ) (hx : NoZero x) (hl : x.length = n) :
    (∀ c ∈ r.cons, LogCon.holds (logAbs x) c) ↔ ((∀ g ∈ r.gts, 0 ≤ polyR g.terms x) ∧ (∀ g ∈ r.eqs, polyR g.terms x = 0)) := by
  sorry

/-- COLUMN REORDERING.  `selector` lists, for each component of `x`, its column in the compiled system or −1; when the columns
    of the `x` components that occur are exactly the first `used` columns (the auxiliary variables are created later, hence
    numbered after them), a row of the reordered matrix applied to `(x, aux)` equals the original row applied to the assignment
    that puts `x_i` in column `selector[i]` and `aux_k` in column `used + k` -/
theorem reorderCols_row (row : List Rat) (ncols : Nat) (hrow : row.length = ncols) (selector : List Int)
    (hsel : ∀ s ∈ selector, s = -1 ∨ (0 ≤ s ∧ s.toNat < (selector.filter (· != -1)).length))
    (hinj : ((selector.filter (· != -1)).map Int.toNat).Nodup)
    (hused : (selector.filter (· != -1)).length ≤ ncols)
    (x aux : List ℝ) (hx : x.length = selector.length) (haux : aux.length = ncols - (selector.filter (· != -1)).length) :
    let used := (selector.filter (· != -1)).length
    let σ : Nat → ℝ := fun col =>
      if col < used then
        match (selector.zip x).find? (fun p => p.1 == (col : Int)) with
        | some p => p.2
        | none => 0
      else aux.getD (col - used) 0
    (List.zipWith (fun (q : Rat) (t : ℝ) => (q : ℝ) * t) ((reorderCols [row] ncols selector).headD []) (x ++ aux)).sum
      = ((List.range ncols).map fun col => ((row.getD col 0 : Rat) : ℝ) * σ col).sum := by
  sorry

end Sageopt.Props.C15
