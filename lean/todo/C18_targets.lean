/-
Proof targets for C18 (NOT part of the library; never imported).  Statements only.
Each one is to be proved (no sorry) and moved to SageoptModel/Props/C18.lean; helper lemmas go to
SageoptModel/Lemmas/GF2*.lean.
-/
import SageoptModel.Lemmas.GF2
namespace Sageopt.Props.C18
open Sageopt.GF2

/-- all rows have length n -/
def WF (n : Nat) (A : Mat) : Prop := ∀ r ∈ A, r.length = n

/-- `A x = b (mod 2)`, rows of `A` paired with entries of `b` -/
def Solves (A : Mat) (b : Row) (x : Row) : Prop := ∀ p ∈ A.zip b, dotB p.1 x = p.2

/-- T1: both modes of mod2rref return a row-equivalent matrix (same solution set) -/
theorem rref_row_equiv (n : Nat) (A : Mat) (f : Bool) (x : Row) (hA : WF n A) :
    Sol (rref n A f).1 x ↔ Sol A x := sorry

/-- T2: pivot columns are strictly increasing and in range -/
theorem rref_pivots_sorted (n : Nat) (A : Mat) (f : Bool) :
    ((rref n A f).2).Pairwise (· < ·) ∧ ∀ c ∈ (rref n A f).2, c < n := sorry

/-- T3: echelon structure.  Row i (i < number of pivots) has its leading 1 in pivot column p[i];
    rows past the rank are zero; in the reduced form pivot columns are unit columns. -/
theorem rref_echelon (n : Nat) (A : Mat) (f : Bool) (hA : WF n A) :
    let R := (rref n A f).1
    let p := (rref n A f).2
    R.length = A.length ∧ WF n R ∧ p.length ≤ R.length ∧
    (∀ i, i < p.length → entry (R.getD i []) (p.getD i 0) = true ∧
        ∀ j, j < p.getD i 0 → entry (R.getD i []) j = false) ∧
    (∀ i, p.length ≤ i → i < R.length → ∀ j, entry (R.getD i []) j = false) ∧
    (f = false → ∀ i i', i < p.length → i' < R.length → i' ≠ i →
        entry (R.getD i' []) (p.getD i 0) = false) := sorry

/-- T4: a returned vector solves the system -/
theorem linsolve_sound (n : Nat) (A : Mat) (b x : Row) (hA : WF n A) (hb : b.length = A.length) :
    linsolve n A b = some x → x.length = n ∧ Solves A b x := sorry

/-- T5: `None` is returned only when no solution exists -/
theorem linsolve_complete (n : Nat) (A : Mat) (b : Row) (hA : WF n A) (hb : b.length = A.length) :
    linsolve n A b = none → ∀ x : Row, ¬ Solves A b x := sorry

/-- T6: the enumerated null space is exactly the solution set of A x = 0 -/
theorem nullspace_sound (n : Nat) (A : Mat) (hA : WF n A) (v : Row) :
    v ∈ nullspace n (rref n A false).1 (rref n A false).2 → v.length = n ∧ Sol A v := sorry

theorem nullspace_complete (n : Nat) (A : Mat) (hA : WF n A) (x : Row) (hx : x.length = n) :
    Sol A x → x ∈ nullspace n (rref n A false).1 (rref n A false).2 := sorry

/-- number of enumerated vectors = 2^(n - rank) (no duplicates as a list) -/
theorem nullspace_card (n : Nat) (A : Mat) (hA : WF n A) :
    (nullspace n (rref n A false).1 (rref n A false).2).length = 2 ^ (n - (rref n A false).2.length)
    ∧ (nullspace n (rref n A false).1 (rref n A false).2).Nodup := sorry

/-! sign patterns.  `alphaOdd[i][j]` = (alpha[i,j] is odd); `nz[i]` = (moments[i] ≠ 0);
    `neg[i]` = (moments[i] < 0); a sign vector is its negativity indicator. -/

/-- y is consistent with the signs of all nonzero moments:
    sign(prod_j y_j^alpha_ij) = sign(moment_i), i.e. parity of the odd exponents at negative
    coordinates equals [moment_i < 0] -/
def Consistent (alphaOdd : Mat) (nz neg : Row) (y : Row) : Prop :=
  ∀ i, i < alphaOdd.length → entry nz i = true → dotB (alphaOdd.getD i []) y = entry neg i

/-- the property's premise: moments are nonnegative on all-even monomials -/
def EvenNonneg (alphaOdd : Mat) (nz neg : Row) : Prop :=
  ∀ i, i < alphaOdd.length → (alphaOdd.getD i []).any id = false → entry nz i = true → entry neg i = false

theorem sign_patterns_sound (n : Nat) (α : Mat) (nz neg : Row) (all : Bool) (hα : WF n α)
    (hpos : EvenNonneg α nz neg) (y : Row) :
    y ∈ variableSignPatterns n α nz neg all → y.length = n ∧ Consistent α nz neg y := sorry

theorem sign_patterns_none_iff (n : Nat) (α : Mat) (nz neg : Row) (all : Bool) (hα : WF n α)
    (hpos : EvenNonneg α nz neg) :
    variableSignPatterns n α nz neg all = [] ↔ ¬ ∃ y : Row, Consistent α nz neg y := sorry

/-- with all_signs, every consistent pattern is returned up to the coordinates that are irrelevant to
    signs (coordinates that are odd in no row with a nonzero moment) -/
theorem sign_patterns_complete (n : Nat) (α : Mat) (nz neg : Row) (hα : WF n α)
    (hpos : EvenNonneg α nz neg) (y : Row) (hy : y.length = n) (hc : Consistent α nz neg y) :
    ∃ y' ∈ variableSignPatterns n α nz neg true,
      ∀ j, j < n → (∃ i, i < α.length ∧ entry nz i = true ∧ entry (α.getD i []) j = true) →
        entry y' j = entry y j := sorry

/-- the reduction of sign consistency to GF(2): for y ∈ {-1,+1}^n (as negativity indicator `neg`)
    the sign of prod_j y_j^(alpha_j) is -1 iff an odd number of odd exponents sit at negative
    coordinates -/
def signProd : List Bool → List Nat → Int
  | ng :: ngs, a :: as => (if ng then (-1 : Int) else 1) ^ a * signProd ngs as
  | _, _ => 1

theorem sign_reduction (ng : List Bool) (a : List Nat) :
    signProd ng a = if dotB (a.map (· % 2 = 1)) ng then -1 else 1 := sorry

end Sageopt.Props.C18
