/- Proof targets for C08 (NOT part of the library).  Statements only. -/
import SageoptModel.Model.Wiring
import SageoptModel.Lemmas.LinValue
namespace Sageopt.Props.C08
open Sageopt Sageopt.Wiring

/-- NATURALITY: any operator given by a wiring commutes with evaluation, for EVERY assignment:
    the value of the Expression result is the numeric operator applied to the values of the arguments -/
theorem wiring_natural (w : Wire) (ins : List Lin) (σ : Nat → Rat) :
    (applyLin w ins).map (Lin.value σ) = applyNum w (ins.map (Lin.value σ)) := sorry

/-- wirings compose (numerically) … -/
theorem wiring_comp (w2 w1 : Wire) (hlen : w1.rows.length = w1.off.length) (xs : List Rat) :
    applyNum (compose w2 w1) xs = applyNum w2 (applyNum w1 xs) := sorry

/-- … hence naturality holds for every straight-line program: running the steps one after another on
    Expressions and then evaluating equals running them on the values -/
def runLin (prog : List Wire) (ins : List Lin) : List Lin := prog.foldl (fun acc w => applyLin w acc) ins
def runNum (prog : List Wire) (xs : List Rat) : List Rat := prog.foldl (fun acc w => applyNum w acc) xs

theorem program_natural (prog : List Wire) (ins : List Lin) (σ : Nat → Rat) :
    (runLin prog ins).map (Lin.value σ) = runNum prog (ins.map (Lin.value σ)) := sorry

/-- normal form of an affine cell: variables strictly increasing, no zero coefficient, not poisoned -/
def NF (x : Lin) : Prop := x.co.Pairwise (fun p q => p.1 < q.1) ∧ (∀ p ∈ x.co, p.2 ≠ 0) ∧ x.bad = false

/-- the arithmetic keeps cells in normal form (so introspection is meaningful on every result) -/
theorem add_nf (x y : Lin) (hx : NF x) (hy : NF y) : NF (Lin.add x y) := sorry
theorem scale_nf (q : Rat) (x : Lin) (hx : NF x) : NF (Lin.scale q x) := sorry
theorem applyLin_nf (w : Wire) (ins : List Lin) (h : ∀ x ∈ ins, NF x) : ∀ y ∈ applyLin w ins, NF y := sorry

/-- INTROSPECTION = support of the value function: the value depends on a scalar variable iff it is reported -/
theorem depends_iff (x : Lin) (hx : NF x) (i : Nat) :
    i ∈ support x ↔ ∃ σ : Nat → Rat, ∃ t : Rat, Lin.value (Function.update σ i t) x ≠ Lin.value σ x := sorry

theorem constant_iff (x : Lin) (hx : NF x) :
    isAffineConst x = true ↔ ∀ σ σ' : Nat → Rat, Lin.value σ x = Lin.value σ' x := sorry

/-- the symbolic equivalence test at zero tolerance: True only for functionally equal cells, and always for them -/
theorem cellEquiv_sound (x y : Lin) (h : cellEquiv 0 0 x y = true) : ∀ σ : Nat → Rat, Lin.value σ x = Lin.value σ y := sorry
theorem cellEquiv_complete (x y : Lin) (hx : NF x) (hy : NF y)
    (h : ∀ σ : Nat → Rat, Lin.value σ x = Lin.value σ y) : cellEquiv 0 0 x y = true := sorry

end Sageopt.Props.C08
