import SageoptModel.Drv.Util
import SageoptModel.Drv.Solvers
import SageoptModel.Model.Compile
import SageoptModel.Model.Recompile
open Lean Sageopt Sageopt.Drv Sageopt.Compile

namespace Sageopt.Drv.Compile

abbrev M := Except String

def asPair (j : Json) : M (Nat × Rat) := do
  let a ← j.getArr?
  match a.toList with
  | [i, v] => pure ((← i.getNat?), (← asRat v))
  | _ => throw "bad pair"

def asAffArg (j : Json) : M AffArg := do
  pure ⟨← asList (← getField j "co") asPair, ← asRat (← getField j "off")⟩

def asKind (s : String) : M AtomKind :=
  match s with
  | "Abs" => pure .abs | "Pos" => pure .pos | "Exponential" => pure .exp
  | "RelEnt" => pure .relent | "Vector2Norm" => pure .norm2
  | _ => throw s!"unknown atom kind {s}"

def asAtomRef (j : Json) : M AtomRef := do
  match optField j "v" with
  | some v => pure (.var (← v.getNat?))
  | none =>
    pure (.nl ⟨← asKind (← getStr j "kind"), ← asList (← getField j "args") asAffArg, ← getNat j "epi"⟩)

def asSRow (j : Json) : M SRow := do
  let terms ← asList (← getField j "terms") fun t => do
    let a ← t.getArr?
    match a.toList with
    | [r, c] => pure ((← asAtomRef r), (← asRat c))
    | _ => throw "bad term"
  pure ⟨terms, ← asRat (← getField j "off")⟩

def asCon (j : Json) : M Con := do
  match ← getStr j "cls" with
  | "elem" => pure (.elem (← getBool j "eq") (← asList (← getField j "rows") asSRow))
  | "primal" => pure (.primal (← asList (← getField j "y") asSRow) (← Solvers.asK (← getField j "K")))
  | "dual" => pure (.dual (← asList (← getField j "y") asSRow) (← Solvers.asK (← getField j "K")))
  | "pow" => pure (.pow (← asList (← getField j "w") asSRow) (← asList (← getField j "z") asSRow))
  | "psd" => pure (.psd (← asList (← getField j "arg") fun r => asList r asSRow))
  | c => throw s!"unknown constraint class {c}"

def asVar (j : Json) : M VarInfo := do
  pure ⟨← getStr j "name", ← asNatList (← getField j "ids"), ← getNat j "gen"⟩

def compiledJ (c : Compiled) (vm : List (String × List Int)) : Json :=
  Json.mkObj [("cols", natListJ c.cols), ("A", ratMatJ c.A), ("b", ratListJ c.b),
    ("eRows", Json.arr (c.eRows.map fun (b : Bool) => (b : Json)).toArray), ("K", Solvers.kJ c.K),
    ("vmap", Json.mkObj (vm.map fun p => (p.1, intListJ p.2)))]

def compileH : Handler := fun j => do
  let cons ← asList (← getField j "cons") asCon
  let dummy ← getNat j "dummy"
  let vars ← asList (← getField j "vars") asVar
  let (c, vm) ← compile cons dummy vars
  let base := compiledJ c vm
  match optField j "obj" with
  | none => pure base
  | some o =>
    let (cv, off) ← compileObjective c.cols (← asSRow o)
    pure (base.mergeObj (Json.mkObj [("c", ratListJ cv), ("c_offset", ratJ off)]))

def kindS : AtomKind → String
  | .abs => "Abs" | .pos => "Pos" | .exp => "Exponential" | .relent => "RelEnt" | .norm2 => "Vector2Norm"

def pairJ (p : Nat × Rat) : Json := Json.arr #[(p.1 : Nat), ratJ p.2]
def argJ (x : AffArg) : Json := Json.mkObj [("co", listJ pairJ x.co), ("off", ratJ x.off)]
def atomJ (a : NlAtom) : Json :=
  Json.mkObj [("kind", kindS a.kind), ("args", listJ argJ a.args), ("epi", (a.epi : Nat))]
def refJ : AtomRef → Json
  | .var id => Json.mkObj [("v", (id : Nat))]
  | .nl a => atomJ a
def srowJ (r : SRow) : Json :=
  Json.mkObj [("terms", listJ (fun (t : AtomRef × Rat) => Json.arr #[refJ t.1, ratJ t.2]) r.terms), ("off", ratJ r.off)]

/-- the mutable part of the state: rows of elementwise constraints -/
def conStateJ (c : Con) : Json :=
  match c with
  | .elem isEq rows => Json.mkObj [("cls", "elem"), ("eq", isEq), ("rows", listJ srowJ rows)]
  | _ => Json.mkObj [("cls", "setmem")]

def stepH : Handler := fun j => do
  let cons ← asList (← getField j "cons") asCon
  let dummy ← getNat j "dummy"
  let vars ← asList (← getField j "vars") asVar
  let (rows, K, cons') ← compileStep cons dummy
  if rows.length ≠ (K.map (·.len)).sum then throw "RuntimeError: K and A disagree on the number of rows" else
  let c := assemble rows K
  let vm ← variableMap c.cols vars
  pure ((compiledJ c vm).mergeObj (Json.mkObj [("post", listJ conStateJ cons')]))

def handlers : List (String × Handler) := [("compile.system", compileH), ("compile.step", stepH)]

end Sageopt.Drv.Compile
