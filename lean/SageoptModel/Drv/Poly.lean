import SageoptModel.Drv.Util
import SageoptModel.Drv.Sig
import SageoptModel.Drv.SigL
import SageoptModel.Drv.Relax
import SageoptModel.Model.Poly
open Lean Sageopt Sageopt.Drv Sageopt.Sig Sageopt.Relax Sageopt.Poly

namespace Sageopt.Drv.Poly

abbrev M := Except String

def getSigL (j : Json) (k : String) : M SigL := do
  match ← Drv.SigL.eval (← getField j k) with
  | .sig _ _ f => pure f
  | .sc _ => throw "not a polynomial"

def coversJ (cv : List (Nat × List Bool)) : Json :=
  listJ (fun (p : Nat × List Bool) => Json.arr #[(p.1 : Nat), bitRowJ p.2]) cv

def sideJ (s : List SideCon) : Json :=
  listJ (fun (x : SideCon) => Json.mkObj [("chat", (x.chat : Nat)), ("c", SigL.linJ x.c)]) s

def coneJ (d : PolyCone) : Json :=
  Json.mkObj [("alpha", listJ ratListJ d.alpha), ("c", listJ SigL.linJ d.c), ("covers", coversJ d.covers),
    ("side", sideJ d.side), ("evens", bitRowJ d.evens)]

def sigrepH : Handler := fun j => do
  let p ← getSigL j "p"
  let chat ← asNatList (← getField j "chat")
  pure <| (coneJ (polyCone p chat)).mergeObj (Json.mkObj [("need", natListJ (needVars p))])

def primalH : Handler := fun j => do
  let f ← Relax.getSigQ j "f"
  let chat ← asNatList (← getField j "chat")
  match polyPrimal f (← getNat j "poly_ell") (← getNat j "sigrep_ell") (← getNat j "gamma") chat with
  | .viaSig d => pure <| Json.mkObj [("kind", "sig"), ("alpha", listJ ratListJ d.alpha), ("c", listJ SigL.linJ d.c)]
  | .cone d => pure <| (coneJ d).mergeObj (Json.mkObj [("kind", "cone")])
  | .modulated alpha c side =>
    pure <| Json.mkObj [("kind", "modulated"), ("alpha", listJ ratListJ alpha), ("c", listJ SigL.linJ c), ("side", sideJ side)]

def dualH : Handler := fun j => do
  let f ← Relax.getSigQ j "f"
  let chat ← asNatList (← getField j "chat")
  match polyDual f (← getNat j "poly_ell") (← getNat j "sigrep_ell") (← getNat j "gamma") chat with
  | .viaSig d =>
    pure <| Json.mkObj [("kind", "sig"), ("alpha", listJ ratListJ d.alpha), ("c", listJ SigL.linJ d.c), ("a", ratListJ d.a),
      ("obj", ratListJ d.obj)]
  | .cone d a obj => pure <| (coneJ d).mergeObj (Json.mkObj [("kind", "cone"), ("a", ratListJ a), ("obj", ratListJ obj)])
  | .notImplemented => throw "NotImplementedError"

def lagrH : Handler := fun j => do
  let f ← Relax.getSigQ j "f"
  let gts ← Relax.getSigList j "gts"
  let eqs ← Relax.getSigList j "eqs"
  let sIds ← asList (← getField j "s_ids") asNatList
  let zIds ← asList (← getField j "z_ids") asNatList
  let lg := makePolyLagrangian f gts eqs (← getNat j "p") (← getNat j "q") (← getNat j "gamma") sIds zIds
  pure <| Json.mkObj [("alpha", listJ ratListJ (keys lg.L.terms)), ("c", listJ SigL.linJ (lg.L.terms.map (·.2))),
    ("alpha_mult", listJ ratListJ lg.alphaMult), ("gts", listJ Relax.sigQJ lg.gts), ("eqs", listJ Relax.sigQJ lg.eqs)]

def conmodH : Handler := fun j => do
  let n ← getNat j "n"
  let alphas ← asList (← getField j "alphas") fun a => asList a asRatList
  pure (Relax.sigQJ (conModulator n alphas (← getNat j "ell")))

def handlers : List (String × Handler) :=
  [("poly.sigrep", sigrepH), ("poly.primal", primalH), ("poly.dual", dualH), ("poly.lagrangian", lagrH), ("poly.conmod", conmodH)]

end Sageopt.Drv.Poly
