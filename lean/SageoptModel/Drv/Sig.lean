import SageoptModel.Drv.Util
import SageoptModel.Model.Sig
import SageoptModel.Generated.SigConsts
open Lean Sageopt.Drv Sageopt.Sig

namespace Sageopt.Drv.Sig

/-- values of an expression tree: a number, or a signomial / polynomial -/
inductive Val where
  | num (q : Rat)
  | sig (poly : Bool) (f : SigT Rat)

abbrev M := Except String

def ofRes : Res (SigT Rat) → M (SigT Rat)
  | .ok v => pure v
  | .raises m => throw m

/-- `Polynomial(alpha, c)` checks run after every Polynomial operation (`as_polynomial`) -/
def chk (poly : Bool) (f : SigT Rat) : M Val :=
  if poly && !polyOk f then throw "ValueError: exponents must be nonnegative integers"
  else pure (.sig poly f)

def asExp (j : Json) : M Exp := asRatList j

def tol : Rat := Sageopt.Generated.SigConsts.eqTol   -- regenerated from the source

partial def eval (j : Json) : M Val := do
  let k ← getStr j "k"
  match k with
  | "num" => pure (.num (← asRat (← getField j "v")))
  | "sig" =>
    let n ← getNat j "n"
    let poly ← getBool j "poly"
    let alpha ← asList (← getField j "alpha") asExp
    let c ← asRatList (← getField j "c")
    if alpha.length ≠ c.length then throw "ValueError: alpha and c specify different numbers of terms"
    chk poly (mk n (alpha.zip c))
  | "dict" =>
    let n ← getNat j "n"
    let poly ← getBool j "poly"
    let items ← asList (← getField j "items") fun it => do
      let a ← it.getArr?
      match a.toList with
      | [kk, v] => pure ((← asExp kk), (← asRat v))
      | _ => throw "bad item"
    chk poly (mk n items)
  | "neg" =>
    match ← eval (← getField j "l") with
    | .num q => pure (.num (-q))
    | .sig p f => chk p (neg isZeroQ f)
  | "wz" =>
    match ← eval (← getField j "l") with
    | .num q => pure (.num q)
    | .sig p f => chk p (withoutZeros isZeroQ f)
  | "pow" =>
    let pw ← asRat (← getField j "p")
    match ← eval (← getField j "l") with
    | .num _ => throw "model: numeric power not modelled"
    | .sig p f => do chk p (← ofRes (pow f pw))
  | "add" | "sub" | "mul" | "div" =>
    let l ← eval (← getField j "l")
    let r ← eval (← getField j "r")
    match l, r with
    | .num _, .num _ => throw "model: numeric-numeric operation not modelled"
    | .sig p f, .sig p' g =>
      if p != p' then throw "model: mixed Signomial/Polynomial operands not modelled" else
      match k with
      | "add" => do chk p (← ofRes (add isZeroQ f g))
      | "sub" => do chk p (← ofRes (sub isZeroQ f g))
      | "mul" => do chk p (← ofRes (mul isZeroQ f g))
      | _ => if p then throw "ValueError: cannot divide a polynomial by a non-numeric type"
             else do chk p (← ofRes (div f g))
    | .sig p f, .num q =>
      match k with
      | "add" => do chk p (← ofRes (add isZeroQ f (const f.n q)))
      | "sub" => do chk p (← ofRes (add isZeroQ f (const f.n (-1 * q))))
      | "mul" => do chk p (← ofRes (mul isZeroQ f (const f.n q)))
      | _ => if q == 0 then throw "ZeroDivisionError"
             else do chk p (← ofRes (mul isZeroQ f (const f.n (1 / q))))
    | .num q, .sig p f =>
      match k with
      | "add" => do chk p (← ofRes (add isZeroQ f (const f.n q)))
      | "sub" => do
          -- other + (-1) * self
          let m1 ← (do match ← chk p (smul isZeroQ f (-1)) with
                        | .sig _ g => pure g
                        | .num _ => throw "unreachable")
          chk p (← ofRes (add isZeroQ m1 (const f.n q)))
      | "mul" => do chk p (← ofRes (mul isZeroQ f (const f.n q)))
      | _ => do
          -- self ** -1 * other
          let inv ← ofRes (pow f (-1))
          let _ ← chk p inv
          chk p (← ofRes (mul isZeroQ inv (const f.n q)))
  | _ => throw s!"bad node {k}"

def sigJ (p : Bool) (f : SigT Rat) : Json :=
  Json.mkObj [("poly", p), ("n", (f.n : Nat)), ("alpha", listJ ratListJ (f.terms.map (·.1))),
              ("c", ratListJ (f.terms.map (·.2)))]

def valJ : Val → Json
  | .num q => Json.mkObj [("num", ratJ q)]
  | .sig p f => sigJ p f

def evalH : Handler := fun j => do
  let v ← eval (← getField j "t")
  pure (valJ v)

/-- `(f == g, g == f)` with the code's one-sided comparison -/
def eqH : Handler := fun j => do
  let l ← eval (← getField j "l")
  let r ← eval (← getField j "r")
  match l, r with
  | .sig p f, .sig p' g =>
    -- Polynomial.__eq__(Signomial) is False; Signomial.__eq__(Polynomial) compares
    let lr := if p && !p' then false else eqCode tol f g
    let rl := if p' && !p then false else eqCode tol g f
    pure <| Json.mkObj [("lr", lr), ("rl", rl)]
  | _, _ => throw "model: eq on non-signomials not modelled"

def queryH : Handler := fun j => do
  let v ← eval (← getField j "t")
  let a ← asExp (← getField j "a")
  match v with
  | .sig _ f => pure <| Json.mkObj [("coeff", ratJ (queryCoeff f a))]
  | _ => throw "not a signomial"

def round7H : Handler := fun j => do
  let q ← asRat (← getField j "q")
  pure <| Json.mkObj [("r", ratJ (round7 q))]

def handlers : List (String × Handler) :=
  [("sig.eval", evalH), ("sig.eq", eqH), ("sig.query", queryH), ("sig.round7", round7H)]

end Sageopt.Drv.Sig
