import SageoptModel.Drv.GF2
import SageoptModel.Drv.Solvers
import SageoptModel.Drv.Sig
import SageoptModel.Drv.SigL
import SageoptModel.Drv.SigCalc
import SageoptModel.Drv.Compile
import SageoptModel.Drv.Sage
import SageoptModel.Drv.Vars
import SageoptModel.Drv.Glue
import SageoptModel.Drv.Wiring
import SageoptModel.Drv.Relax
import SageoptModel.Drv.Poly
import SageoptModel.Drv.Solrec
import SageoptModel.Drv.Domain
open Lean

namespace Sageopt.Drv

def allHandlers : List (String × Handler) :=
  GF2.handlers ++ Solvers.handlers ++ Sig.handlers ++ SigL.handlers ++ SigCalc.handlers ++ Compile.handlers ++ Sage.handlers ++ Vars.handlers ++ Glue.handlers ++ Wiring.handlers ++ Relax.handlers ++ Poly.handlers ++ Solrec.handlers ++ Domain.handlers

def dispatch (line : String) : String :=
  match Json.parse line with
  | .error e => (Json.mkObj [("error", s!"parse: {e}")]).compress
  | .ok j =>
    match j.getObjValAs? String "op" with
    | .error e => (Json.mkObj [("error", s!"no op: {e}")]).compress
    | .ok op =>
      match allHandlers.lookup op with
      | none => (Json.mkObj [("error", s!"unknown op {op}")]).compress
      | some h =>
        match h j with
        | .ok r => r.compress
        | .error e => (Json.mkObj [("raises", e)]).compress

end Sageopt.Drv
