import SageoptModel.Drv.Util
import SageoptModel.Model.Vars
open Lean Sageopt.Drv Sageopt.Vars

namespace Sageopt.Drv.Vars

abbrev M := Except String

def allocJ (a : Alloc) : Json :=
  Json.mkObj [("counter", (a.counter : Nat)), ("gen", (a.gen : Nat)), ("unnamed", (a.unnamed : Nat))]

def varJ (v : VarObj) : Json :=
  Json.mkObj [("name", v.name), ("ids", natListJ v.ids), ("gen", (v.gen : Nat)), ("proper", v.proper),
              ("shape", natListJ v.shape)]

structure St where
  alloc : Alloc
  objs : List (Nat × VarObj)                 -- handle ↦ object (live objects of the current session)
  blobs : List (String × List VarObj)        -- slot ↦ dumped graph

def getObj (s : St) (h : Nat) : M VarObj :=
  match s.objs.find? (·.1 == h) with
  | some p => pure p.2
  | none => throw s!"no object {h}"

def putObj (s : St) (h : Nat) (v : VarObj) : St := { s with objs := (h, v) :: s.objs.filter (·.1 != h) }

def stepOp (s : St) (op : Json) : M (St × Json) := do
  match ← getStr op "k" with
  | "create" =>
    let shape ← asNatList (← getField op "shape")
    let name := match optField op "name" with | some (.str n) => some n | _ => none
    let sym := match optField op "sym" with | some (.bool b) => b | _ => false
    match create s.alloc shape name sym with
    | none => pure (s, Json.mkObj [("raises", "RuntimeError"), ("alloc", allocJ s.alloc)])
    | some (a, v) =>
      let s' := putObj { s with alloc := a } (← getNat op "h") v
      pure (s', Json.mkObj [("var", varJ v), ("alloc", allocJ a)])
  | "clear" =>
    let a := clear s.alloc
    pure ({ s with alloc := a }, Json.mkObj [("alloc", allocJ a)])
  | "slice" =>
    let v ← getObj s (← getNat op "of")
    let a ← getNat op "a"
    let b ← getNat op "b"
    let sl := match v.shape with
      | [n] => slice v ((List.range (min b n - min a n)).map (· + min a n)) [min b n - min a n]
      | r :: rest => let w := size rest; slice v ((List.range w).map (· + (a % r) * w)) rest
      | [] => v
    pure (putObj s (← getNat op "h") sl, Json.mkObj [("var", varJ sl)])
  | "dump" =>
    let hs ← asNatList (← getField op "hs")
    let graph ← hs.mapM (getObj s)
    let slot ← getStr op "slot"
    pure ({ s with blobs := (slot, graph) :: s.blobs.filter (·.1 != slot) }, Json.mkObj [("dumped", (graph.length : Nat))])
  | "load" =>
    let slot ← getStr op "slot"
    let hs ← asNatList (← getField op "hs")
    match s.blobs.find? (·.1 == slot) with
    | none => throw "no blob"
    | some (_, graph) =>
      -- `__setstate__` runs for the array objects in the order they appear in the pickled list
      let a := graph.foldl loadAdvance s.alloc
      let s' := (hs.zip graph).foldl (fun st p => putObj st p.1 p.2) { s with alloc := a }
      let links := relink graph (List.range graph.length)
      let ids := (graph.flatMap (·.ids)).foldl (fun acc i => if acc.contains i then acc else acc ++ [i]) []
      let linkJ := ids.map fun id => Json.arr #[(id : Nat), match parentOf links id with | some k => ((k : Nat) : Json) | none => Json.null]
      pure (s', Json.mkObj [("vars", listJ varJ graph), ("links", Json.arr linkJ.toArray), ("alloc", allocJ a)])
  | "newsession" =>
    -- a fresh interpreter: counters at zero, the generation counter at this session's random offset (an input)
    let a : Alloc := { gen := ← getNat op "salt" }
    pure ({ s with alloc := a, objs := [] }, Json.mkObj [("alloc", allocJ a)])
  | k => throw s!"unknown op {k}"

def historyH : Handler := fun j => do
  let ops ← (← getField j "ops").getArr?
  let salt ← getNat j "salt"
  let mut s : St := { alloc := { gen := salt }, objs := [], blobs := [] }
  let mut outs : Array Json := #[]
  for op in ops do
    let (s', o) ← stepOp s op
    s := s'
    outs := outs.push o
  pure (Json.mkObj [("out", Json.arr outs)])

def handlers : List (String × Handler) := [("vars.history", historyH)]

end Sageopt.Drv.Vars
