import SageoptModel.Drv.Util
import SageoptModel.Model.Sig
import SageoptModel.Model.Lin
import SageoptModel.Model.SymCorr
import SageoptModel.Generated.SigConsts
import SageoptModel.Generated.SymCorrConsts
open Lean Sageopt Sageopt.Drv Sageopt.Sig

/-! Expression trees over signomials whose coefficients are affine forms (`Lin`): C13, C16, C04. -/
namespace Sageopt.Drv.SigL

abbrev M := Except String

def asLin (j : Json) : M Lin :=
  match j with
  | .obj _ => do
    let off ← asRat (← getField j "off")
    let co ← asList (← getField j "co") fun p => do
      let a ← p.getArr?
      match a.toList with
      | [i, v] => pure ((← i.getNat?), (← asRat v))
      | _ => throw "bad coefficient pair"
    -- normalise: sum duplicates, sort, drop zeros
    pure (co.foldl (fun acc p => Lin.add acc (Lin.scale p.2 (Lin.var p.1))) (Lin.const off))
  | _ => do pure (Lin.const (← asRat j))

def linJ (x : Lin) : Json :=
  Json.mkObj [("off", ratJ x.off), ("co", listJ (fun (p : Nat × Rat) => Json.arr #[(p.1 : Nat), ratJ p.2]) x.co)]

inductive Val where
  | sc (x : Lin)                        -- a number or a ScalarExpression
  | sig (poly : Bool) (sym : Bool) (f : SigT Lin)   -- `sym`: the coefficient vector is an Expression (dtype object)

def ofRes : Res (SigT Lin) → M (SigT Lin)
  | .ok v => pure v
  | .raises m => throw m

def poisoned (f : SigT Lin) : Bool := f.terms.any fun t => t.2.bad

def chk (poly : Bool) (sym : Bool) (f : SigT Lin) : M Val :=
  if poisoned f then throw "RuntimeError: cannot multiply two non-constant ScalarExpression objects"
  else if poly && !polyOk f then throw "ValueError: exponents must be nonnegative integers"
  else pure (.sig poly sym f)

/-- `without_zeros`, tracking the coefficient array type: when every term is dropped the result is
    `upcast_to_signomial(0)`, a numeric signomial -/
def wz (sym : Bool) (f : SigT Lin) : Bool × SigT Lin :=
  let g := withoutZeros Lin.isZero f
  if f.terms.length ≠ 1 ∧ (f.terms.filter fun t => !Lin.isZero t.2).isEmpty then (false, g) else (sym, g)

def addS (p : Bool) (s1 : Bool) (f : SigT Lin) (s2 : Bool) (g : SigT Lin) : M Val :=
  if f.n ≠ g.n then throw "RuntimeError: different numbers of variables" else
  let (s, r) := wz (s1 || s2) (sumList f.n [f, g])
  chk p s r

def mulS (p : Bool) (s1 : Bool) (f : SigT Lin) (s2 : Bool) (g : SigT Lin) : M Val :=
  if p && s1 && s2 then throw "ValueError: cannot multiply two polynomials that contain non-numeric coefficients" else
  if f.n ≠ g.n then throw "RuntimeError: different numbers of variables" else
  let (s, r) := wz (s1 || s2) (product f g)
  chk p s r

def isScalarSym (x : Lin) : Bool := !x.isConstant || false

def asExp (j : Json) : M Exp := asRatList j

partial def eval (j : Json) : M Val := do
  let k ← getStr j "k"
  match k with
  | "num" => pure (.sc (Lin.const (← asRat (← getField j "v"))))
  | "sx" => pure (.sc (← asLin (← getField j "v")))
  | "sig" | "sigL" =>
    let n ← getNat j "n"
    let poly ← getBool j "poly"
    let alpha ← asList (← getField j "alpha") asExp
    let c ← asList (← getField j "c") asLin
    if alpha.length ≠ c.length then throw "ValueError: alpha and c specify different numbers of terms"
    chk poly (k == "sigL") (mk n (alpha.zip c))
  | "dict" =>
    let n ← getNat j "n"
    let poly ← getBool j "poly"
    let items ← asList (← getField j "items") fun it => do
      let a ← it.getArr?
      match a.toList with
      | [kk, v] => pure ((← asExp kk), (← asLin v))
      | _ => throw "bad item"
    chk poly false (mk n items)
  | "neg" =>
    match ← eval (← getField j "l") with
    | .sc x => pure (.sc (Lin.neg x))
    | .sig p s f => mulS p s f false (const f.n (-1))
  | "wz" =>
    match ← eval (← getField j "l") with
    | .sc x => pure (.sc x)
    | .sig p s f => let (s', r) := wz s f; chk p s' r
  | "sum" =>
    let fs ← asList (← getField j "fs") eval
    let sigs ← fs.mapM fun v => match v with
      | .sig p s f => pure (p, s, f)
      | .sc _ => throw "ValueError: Signomial.sum of a non-signomial"
    match sigs with
    | [] => throw "ValueError: empty sum"
    | [(p, s, f)] => chk p s f
    | (p, _, f) :: _ => chk p (sigs.any (·.2.1)) (sumList f.n (sigs.map (·.2.2)))
  | "add" | "sub" | "mul" =>
    let l ← eval (← getField j "l")
    let r ← eval (← getField j "r")
    let isSx : Bool := (match (getField j "r") with
      | .ok rj => (match getStr rj "k" with | .ok "sx" => true | _ => false)
      | _ => false)
    match l, r with
    | .sc _, .sc _ => throw "model: scalar-scalar operation not modelled"
    | .sig p s1 f, .sig p' s2 g =>
      if p != p' then throw "model: mixed Signomial/Polynomial operands not modelled" else
      match k with
      | "add" => addS p s1 f s2 g
      | "sub" => do
          -- self + (-1 * other)
          match ← mulS p s2 g false (const g.n (-1)) with
          | .sig _ s2' g' => addS p s1 f s2' g'
          | .sc _ => throw "unreachable"
      | _ => mulS p s1 f s2 g
    | .sig p s1 f, .sc q =>
      -- a ScalarExpression operand is upcast to a signomial with an Expression coefficient
      match k with
      | "add" => addS p s1 f isSx (const f.n q)
      | "sub" => addS p s1 f isSx (const f.n (Lin.scale (-1) q))
      | _ => mulS p s1 f isSx (const f.n q)
    | .sc q, .sig p s1 f =>
      match k with
      | "add" => addS p s1 f false (const f.n q)
      | "sub" => do
          match ← mulS p s1 f false (const f.n (-1)) with
          | .sig _ s' g => addS p s' g false (const f.n q)
          | .sc _ => throw "unreachable"
      | _ => mulS p s1 f false (const f.n q)
  | _ => throw s!"bad node {k}"

def sigJ (p : Bool) (f : SigT Lin) : Json :=
  Json.mkObj [("poly", p), ("n", (f.n : Nat)), ("alpha", listJ ratListJ (f.terms.map (·.1))),
              ("c", listJ linJ (f.terms.map (·.2)))]

def evalH : Handler := fun j => do
  match ← eval (← getField j "t") with
  | .sc x => pure <| Json.mkObj [("sc", linJ x)]
  | .sig p _ f => pure (sigJ p f)

def tol : Rat := Sageopt.Generated.SymCorrConsts.rowTol   -- regenerated from the source

/-- relative_coeff_vector(g, alpha) for a numeric g -/
def rcvH : Handler := fun j => do
  match ← eval (← getField j "g") with
  | .sig _ _ g =>
    let ref ← asList (← getField j "ref") asExp
    pure <| Json.mkObj [("c", listJ linJ (SymCorr.relativeCoeffVector tol g.terms ref))]
  | _ => throw "not a signomial"

def rowCorrH : Handler := fun j => do
  let a1 ← asList (← getField j "a1") asExp
  let a2 ← asList (← getField j "a2") asExp
  let (c, m) := SymCorr.rowCorrespondence tol a1 a2
  pure <| Json.mkObj [("common", natListJ c), ("map", natListJ m)]

/-- moment_reduction_array(s_h, h, L) -/
def mraH : Handler := fun j => do
  let sh ← eval (← getField j "s")
  let h ← eval (← getField j "h")
  let L ← eval (← getField j "L")
  match sh, h, L with
  | .sig p ss s, .sig p' sh hh, .sig p'' _ LL =>
    if p != p' || p != p'' then throw "model: mixed kinds" else
    if hh.terms.any (fun t => !t.2.isConstant) then throw "model: h must be numeric" else
    let hq : SigT Rat := ⟨hh.n, hh.terms.map fun t => (t.1, t.2.off)⟩
    let prod ← (do match ← mulS p ss s sh hh with
                    | .sig _ _ f => pure f
                    | .sc _ => throw "unreachable")
    match SymCorr.momentReductionArray tol s.n (keys s.terms) (keys prod.terms) hq (keys LL.terms) with
    | .ok Cm => pure <| Json.mkObj [("C", ratMatJ Cm)]
    | .raises m => throw m
  | _, _, _ => throw "not signomials"

def handlers : List (String × Handler) :=
  [("sigl.eval", evalH), ("symcorr.rcv", rcvH), ("symcorr.rows", rowCorrH), ("symcorr.mra", mraH)]

end Sageopt.Drv.SigL
