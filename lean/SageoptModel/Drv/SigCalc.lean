import SageoptModel.Drv.Sig
import SageoptModel.Model.SigCalc
open Lean Sageopt.Drv Sageopt.Sig Sageopt.Drv.Sig

namespace Sageopt.Drv.SigCalc

def getSig (j : Json) (k : String) : M (Bool × SigT Rat) := do
  match ← eval (← getField j k) with
  | .sig p f => pure (p, f)
  | .num _ => throw "not a signomial"

def partialH : Handler := fun j => do
  let (p, f) ← getSig j "t"
  let i ← getNat j "i"
  if i ≥ f.n then throw "index out of range" else
  pure (sigJ p (partialOf p f i))

def gradH : Handler := fun j => do
  let (p, f) ← getSig j "t"
  pure <| Json.mkObj [("grad", listJ (sigJ p) (grad p f))]

def hessH : Handler := fun j => do
  let (p, f) ← getSig j "t"
  pure <| Json.mkObj [("hess", listJ (listJ (sigJ p)) (hess p f))]

def asIntL (j : Json) : M (List Int) := asIntList j

/-- values at a point: signomials at `x = ln4·k`, polynomials at a rational `x` -/
def valsH : Handler := fun j => do
  let (p, f) ← getSig j "t"
  if p then
    let x ← asRatList (← getField j "x")
    if x.length ≠ f.n then throw "ValueError: wrong dimension" else
    let χ := monoAt x
    pure <| Json.mkObj [("val", ratJ (evalWith χ f)),
      ("grad", ratListJ ((grad true f).map (evalWith χ))),
      ("hess", ratMatJ ((hess true f).map fun row => row.map (evalWith χ)))]
  else
    let k ← asIntL (← getField j "k")
    if k.length ≠ f.n then throw "ValueError: wrong dimension" else
    let χ := expAt4 k
    pure <| Json.mkObj [("val", ratJ (evalWith χ f)),
      ("grad", ratListJ (gradValSig χ f)),
      ("hess", ratMatJ (hessValSig χ f)),
      ("grad_sym", ratListJ ((grad false f).map (evalWith χ))),
      ("hess_sym", ratMatJ ((hess false f).map fun row => row.map (evalWith χ)))]

def shiftH : Handler := fun j => do
  let (p, f) ← getSig j "t"
  let k ← asIntL (← getField j "k")
  if k.length ≠ f.n then throw "ValueError: wrong dimension" else
  pure (sigJ p (shiftBy (expAt4 k) f))

def convH : Handler := fun j => do
  let (p, f) ← getSig j "t"
  -- as_polynomial (from a Signomial) checks the exponents; as_signomial always works
  if !p && !polyOk f then throw "ValueError: exponents must be nonnegative integers"
  else pure (sigJ (!p) (mk f.n f.terms))

def composeH : Handler := fun j => do
  let (p, f) ← getSig j "p"
  if !p then throw "not a polynomial" else
  let zs ← asList (← getField j "zs") fun z => do
    match ← eval z with
    | .sig true g => pure g
    | _ => throw "model: only polynomial arguments modelled"
  if zs.length ≠ f.n then throw "ValueError: wrong dimension" else
  match zs with
  | [] => throw "empty"
  | z0 :: _ =>
    if zs.any (fun z => z.n != z0.n) then throw "ValueError: functions over different variables" else
    match compose f zs with
    | none => throw "empty"
    | some r => if polyOk r then pure (sigJ true r) else throw "ValueError: exponents"

def handlers : List (String × Handler) :=
  [("calc.partial", partialH), ("calc.grad", gradH), ("calc.hess", hessH), ("calc.vals", valsH),
   ("calc.shift", shiftH), ("calc.conv", convH), ("calc.compose", composeH)]

end Sageopt.Drv.SigCalc
