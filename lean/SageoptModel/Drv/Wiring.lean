import SageoptModel.Drv.Util
import SageoptModel.Drv.SigL
import SageoptModel.Model.Wiring
open Lean Sageopt Sageopt.Drv Sageopt.Wiring

namespace Sageopt.Drv.Wiring

abbrev M := Except String

def asWire (j : Json) : M Wire := do
  let rows ← asList (← getField j "rows") fun r => asList r fun p => do
    let a ← p.getArr?
    match a.toList with
    | [i, q] => pure ((← i.getNat?), (← asRat q))
    | _ => throw "bad wire entry"
  pure ⟨rows, ← asRatList (← getField j "off")⟩

def applyH : Handler := fun j => do
  let w ← asWire (← getField j "wire")
  let ins ← asList (← getField j "ins") SigL.asLin
  let out := applyLin w ins
  pure <| Json.mkObj [("out", listJ SigL.linJ out),
    ("support", listJ (fun x => natListJ (support x)) out),
    ("const", Json.arr (out.map fun x => (isAffineConst x : Json)).toArray)]

def handlers : List (String × Handler) := [("wiring.apply", applyH)]

end Sageopt.Drv.Wiring
