import SageoptModel.Drv.Util
import SageoptModel.Drv.Relax
import SageoptModel.Model.Domain
open Lean Sageopt Sageopt.Drv Sageopt.Sig Sageopt.Relax Sageopt.Domain

namespace Sageopt.Drv.Domain

abbrev M := Except String

def conJ : LogCon → Json
  | .lse c alpha cst => Json.mkObj [("kind", "lse"), ("c", ratListJ c), ("alpha", listJ ratListJ alpha), ("cst", ratJ cst)]
  | .lin a num den => Json.mkObj [("kind", "lin"), ("a", ratListJ a), ("num", ratJ num), ("den", ratJ den)]
  | .eq a num den => Json.mkObj [("kind", "eq"), ("a", ratListJ a), ("num", ratJ num), ("den", ratJ den)]
  | .raises m => Json.mkObj [("kind", "raises"), ("msg", m)]

def inferredJ : Option Inferred → Json
  | none => Json.mkObj [("none", Json.bool true)]
  | some r => Json.mkObj [("none", Json.bool false), ("gts", listJ Relax.sigQJ r.gts), ("eqs", listJ Relax.sigQJ r.eqs),
      ("log_gts", listJ Relax.sigQJ r.logGts), ("log_eqs", listJ Relax.sigQJ r.logEqs), ("cons", listJ conJ r.cons)]

def inferH (poly : Bool) : Handler := fun j => do
  let gts ← Relax.getSigList j "gts"
  let eqs ← Relax.getSigList j "eqs"
  match (if poly then inferPoly gts eqs else inferSig gts eqs) with
  | .ok r => pure (inferredJ r)
  | .error m => throw m

def asIntList (j : Json) : M (List Int) := asList j fun x => x.getInt?

def reorderH : Handler := fun j => do
  let A ← asRatMat (← getField j "A")
  let ncols ← getNat j "ncols"
  let sel ← asIntList (← getField j "selector")
  pure <| Json.mkObj [("A", listJ ratListJ (reorderCols A ncols sel))]

def boxRowsH : Handler := fun j => do
  let lo ← asRatList (← getField j "lo")
  let hi ← asRatList (← getField j "hi")
  if lo.length != hi.length then throw "box: lengths differ"
  let rows := boxRows lo hi
  pure <| Json.mkObj [("A", listJ ratListJ (rows.map Prod.fst)), ("b", ratListJ (rows.map Prod.snd))]

def handlers : List (String × Handler) :=
  [("domain.infer_sig", inferH false), ("domain.infer_poly", inferH true), ("domain.reorder", reorderH), ("domain.box_rows", boxRowsH)]

end Sageopt.Drv.Domain
