import SageoptModel.Drv.Util
import SageoptModel.Model.Solvers
open Lean Sageopt Sageopt.Drv Sageopt.Solvers

namespace Sageopt.Drv.Solvers

def asCone (j : Json) : Except String Cone := do
  let a ← j.getArr?
  match a.toList with
  | [t, l] =>
    let ts ← t.getStr?
    match CType.ofTag? ts with
    | some ty => pure ⟨ty, ← l.getNat?⟩
    | none => throw s!"bad cone tag {ts}"
  | _ => throw "bad cone"

def asK (j : Json) : Except String (List Cone) := asList j asCone

def coneJ (c : Cone) : Json := Json.arr #[c.type.tag, (c.len : Nat)]
def kJ (K : List Cone) : Json := listJ coneJ K
def slackJ (s : SlackCone) : Json := Json.arr #[s.type.tag, (s.len : Nat), natListJ s.cols]

structure Sys where
  n : Nat
  c : List Rat
  A : List (List Rat)
  b : List Rat
  K : List Cone

def getSys (j : Json) : Except String Sys := do
  pure { n := ← getNat j "n", c := ← asRatList (← getField j "c"), A := ← asRatMat (← getField j "A"),
         b := ← asRatList (← getField j "b"), K := ← asK (← getField j "K") }

def ecosH : Handler := fun j => do
  let s ← getSys j
  match ecosApply s.c s.A s.b s.K with
  | none => throw "RuntimeError: unsupported cone"
  | some d => pure <| Json.mkObj [("c", ratListJ d.c), ("G", ratMatJ d.G), ("h", ratListJ d.h),
      ("l", (d.l : Nat)), ("q", natListJ d.q), ("e", (d.e : Nat)), ("A", ratMatJ d.A), ("b", ratListJ d.b)]

def separateH : Handler := fun j => do
  let s ← getSys j
  let ds ← asList (← getField j "dont_sep") (·.getStr?)
  let r := separate s.n s.A s.b s.K (fun t => ds.contains t.tag)
  pure <| Json.mkObj [("A", ratMatJ r.A), ("b", ratListJ r.b), ("K", kJ r.K), ("slacks", listJ slackJ r.slacks)]

def dualizeH : Handler := fun j => do
  let s ← getSys j
  let d := dualize s.n s.c s.A s.b s.K
  pure <| Json.mkObj [("f", ratListJ d.f), ("G", ratMatJ d.G), ("h", ratListJ d.h), ("Kd", kJ d.Kd)]

def bkJ : BoundKey → Json
  | .fr => "fr" | .up => "up" | .fx => "fx" | .lo => "lo"
def ckJ : MosekConeKind → Json
  | .quad => "quad" | .pexp => "pexp" | .dexp => "dexp"

def taskJ (t : MosekTask Rat) : Json :=
  Json.mkObj [("nvars", (t.nvars : Nat)), ("varBounds", listJ bkJ t.varBounds),
    ("cones", listJ (fun (p : MosekConeKind × List Nat) => Json.arr #[ckJ p.1, natListJ p.2]) t.cones),
    ("ncons", (t.ncons : Nat)), ("aij", ratMatJ t.aij),
    ("conBounds", listJ (fun (p : BoundKey × Rat) => Json.arr #[bkJ p.1, ratJ p.2]) t.conBounds),
    ("obj", ratListJ t.obj), ("maximize", t.maximize)]

def mosekPrimalH : Handler := fun j => do
  let s ← getSys j
  let d := mosekPrimalApply s.n s.c s.A s.b s.K
  let task : Json := match mosekPrimalTask d with
    | none => Json.mkObj [("raises", "RuntimeError: unknown separated cone")]
    | some t => taskJ t
  pure <| Json.mkObj [("A", ratMatJ d.A), ("b", ratListJ d.b), ("nIneq", (d.nIneq : Nat)), ("nEq", (d.nEq : Nat)),
    ("sepK", listJ slackJ d.sepK), ("c", ratListJ d.c), ("n", (d.n : Nat)), ("task", task)]

def mosekDualH : Handler := fun j => do
  let s ← getSys j
  let d := mosekDualApply s.n s.c s.A s.b s.K
  pure <| Json.mkObj [("f", ratListJ d.f), ("G", ratMatJ d.G), ("h", ratListJ d.h), ("nPos", (d.nPos : Nat)),
    ("socDims", natListJ d.socDims), ("nDexp", (d.nDexp : Nat)), ("nFree", (d.nFree : Nat)),
    ("task", taskJ (mosekDualTask d))]

def selH : Handler := fun j => do
  let K ← asK (← getField j "K")
  let ts ← getStr j "t"
  match CType.ofTag? ts with
  | none => throw "bad tag"
  | some t =>
    let s := selector K t
    pure <| Json.mkObj [("sel", bitRowJ s), ("runs", natListJ (runLengths s))]

def runsH : Handler := fun j => do
  let s ← asBitRow (← getField j "sel")
  pure <| Json.mkObj [("runs", natListJ (runLengths s))]

def handlers : List (String × Handler) :=
  [("solv.ecos", ecosH), ("solv.separate", separateH), ("solv.dualize", dualizeH),
   ("solv.mosek_primal", mosekPrimalH), ("solv.mosek_dual", mosekDualH), ("solv.selector", selH),
   ("solv.runs", runsH)]

end Sageopt.Drv.Solvers
