import SageoptModel.Drv.Util
import SageoptModel.Model.GF2
open Lean Sageopt.Drv Sageopt.GF2

namespace Sageopt.Drv.GF2

def rrefH : Handler := fun j => do
  let n ← getNat j "n"
  let A ← asBitMat (← getField j "A")
  let f ← getBool j "fwd"
  let (R, p) := rref n A f
  pure <| Json.mkObj [("A", bitMatJ R), ("piv", natListJ p)]

def linsolveH : Handler := fun j => do
  let n ← getNat j "n"
  let A ← asBitMat (← getField j "A")
  let b ← asBitRow (← getField j "b")
  match linsolve n A b with
  | none => pure <| Json.mkObj [("x", Json.null)]
  | some x => pure <| Json.mkObj [("x", bitRowJ x)]

def nullspaceH : Handler := fun j => do
  let n ← getNat j "n"
  let A ← asBitMat (← getField j "A")
  let p ← asNatList (← getField j "piv")
  pure <| Json.mkObj [("basis", bitMatJ (nullspaceBasis n A p)), ("N", bitMatJ (nullspace n A p))]

def nullspaceOfH : Handler := fun j => do
  let n ← getNat j "n"
  let A ← asBitMat (← getField j "A")
  let (R, p) := rref n A false
  pure <| Json.mkObj [("basis", bitMatJ (nullspaceBasis n R p)), ("N", bitMatJ (nullspace n R p)),
                      ("R", bitMatJ R), ("piv", natListJ p)]

def signsH : Handler := fun j => do
  let n ← getNat j "n"
  let A ← asBitMat (← getField j "alphaOdd")
  let nz ← asBitRow (← getField j "nz")
  let neg ← asBitRow (← getField j "neg")
  let all ← getBool j "all"
  let lsn : Json := match linearSystemNegatives n A nz neg with
    | .trivial => Json.mkObj [("kind", "trivial")]
    | .infeasible a U W => Json.mkObj [("kind", "infeasible"), ("alpha1", bitMatJ a), ("U", natListJ U), ("W", natListJ W)]
    | .solved x a U W => Json.mkObj [("kind", "solved"), ("x", bitRowJ x), ("alpha1", bitMatJ a), ("U", natListJ U), ("W", natListJ W)]
  pure <| Json.mkObj [("lsn", lsn), ("signs", bitMatJ (variableSignPatterns n A nz neg all))]

def handlers : List (String × Handler) :=
  [("gf2.rref", rrefH), ("gf2.linsolve", linsolveH), ("gf2.nullspace", nullspaceH), ("gf2.nullspace_of", nullspaceOfH), ("gf2.signs", signsH)]

end Sageopt.Drv.GF2
