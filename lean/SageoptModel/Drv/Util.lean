/-
JSON helpers for the line-protocol driver.  Rationals travel as "p/q" strings or JSON integers.
-/
import Lean.Data.Json
open Lean

namespace Sageopt.Drv

abbrev Handler := Json → Except String Json

def getField (j : Json) (k : String) : Except String Json := j.getObjVal? k

def getNat (j : Json) (k : String) : Except String Nat := do (← getField j k).getNat?
def getInt (j : Json) (k : String) : Except String Int := do (← getField j k).getInt?
def getBool (j : Json) (k : String) : Except String Bool := do (← getField j k).getBool?
def getStr (j : Json) (k : String) : Except String String := do (← getField j k).getStr?
def getArr (j : Json) (k : String) : Except String (Array Json) := do (← getField j k).getArr?

def optField (j : Json) (k : String) : Option Json :=
  match j.getObjVal? k with
  | .ok .null => none
  | .ok v => some v
  | .error _ => none

def asList (j : Json) (f : Json → Except String α) : Except String (List α) := do
  let a ← j.getArr?
  a.toList.mapM f

def asBit (j : Json) : Except String Bool := do
  match j with
  | .bool b => pure b
  | _ => let n ← j.getInt?; pure (n % 2 != 0)

def asBitRow (j : Json) : Except String (List Bool) := asList j asBit
def asBitMat (j : Json) : Except String (List (List Bool)) := asList j asBitRow
def asNatList (j : Json) : Except String (List Nat) := asList j (·.getNat?)
def asIntList (j : Json) : Except String (List Int) := asList j (·.getInt?)
def asIntMat (j : Json) : Except String (List (List Int)) := asList j asIntList

def parseRatStr (s : String) : Except String Rat :=
  match s.splitOn "/" with
  | [p] => match p.toInt? with
    | some n => pure (n : Rat)
    | none => throw s!"bad rational {s}"
  | [p, q] => match p.toInt?, q.toNat? with
    | some n, some d => if d = 0 then throw s!"zero denominator {s}" else pure (mkRat n d)
    | _, _ => throw s!"bad rational {s}"
  | _ => throw s!"bad rational {s}"

def asRat (j : Json) : Except String Rat :=
  match j with
  | .str s => parseRatStr s
  | _ => do let n ← j.getInt?; pure (n : Rat)

def asRatList (j : Json) : Except String (List Rat) := asList j asRat
def asRatMat (j : Json) : Except String (List (List Rat)) := asList j asRatList

def bitJ (b : Bool) : Json := if b then (1 : Nat) else (0 : Nat)
def bitRowJ (r : List Bool) : Json := Json.arr (r.map bitJ).toArray
def bitMatJ (m : List (List Bool)) : Json := Json.arr (m.map bitRowJ).toArray
def natListJ (l : List Nat) : Json := Json.arr (l.map fun (n : Nat) => (n : Json)).toArray
def intListJ (l : List Int) : Json := Json.arr (l.map fun (n : Int) => (n : Json)).toArray
def intMatJ (m : List (List Int)) : Json := Json.arr (m.map intListJ).toArray

def ratJ (q : Rat) : Json :=
  if q.den = 1 then Json.str (toString q.num) else Json.str s!"{q.num}/{q.den}"
def ratListJ (l : List Rat) : Json := Json.arr (l.map ratJ).toArray
def ratMatJ (m : List (List Rat)) : Json := Json.arr (m.map ratListJ).toArray

def listJ (f : α → Json) (l : List α) : Json := Json.arr (l.map f).toArray

end Sageopt.Drv
