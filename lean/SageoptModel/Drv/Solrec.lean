import SageoptModel.Drv.Util
import SageoptModel.Model.Solrec
open Lean Sageopt Sageopt.Drv Sageopt.Solrec

namespace Sageopt.Drv.Solrec

abbrev M := Except String

def asFV (j : Json) : M FV :=
  match j with
  | .str "nan" => pure .nan
  | .str "inf" => pure .pinf
  | .str "-inf" => pure .ninf
  | _ => do pure (.num (← asRat j))

def asCand (j : Json) : M Cand := do
  pure { gt := ← asList (← getField j "gt") asFV, eq := ← asList (← getField j "eq") asFV, obj := ← asFV (← getField j "obj") }

def feasH : Handler := fun j => do
  let itol ← asRat (← getField j "ineq_tol")
  let etol ← asRat (← getField j "eq_tol")
  let gt ← asList (← getField j "gt") asFV
  let eq ← asList (← getField j "eq") asFV
  pure <| Json.mkObj [("feasible", Json.bool (isFeasible itol etol gt eq))]

def selectH : Handler := fun j => do
  let itol ← asRat (← getField j "ineq_tol")
  let etol ← asRat (← getField j "eq_tol")
  let cands ← asList (← getField j "cands") asCand
  pure <| Json.mkObj [("order", natListJ (select itol etol cands)),
    ("verdicts", Json.arr (cands.map fun c => Json.bool (isFeasible itol etol c.gt c.eq)).toArray)]

def asMu (j : Json) : M (Nat × List Rat) := do
  pure (← getNat j "i", ← asRatList (← getField j "mu"))

def candsH : Handler := fun j => do
  let n ← getNat j "n"
  let v ← asRatList (← getField j "v")
  let mus ← asList (← getField j "mus") asMu
  let M ← asRatMat (← getField j "M")
  let d : DualIn := { n := n, v := v, mus := mus, M := M }
  pure <| Json.mkObj [("cands", listJ ratListJ (dualAgeCands d))]

def handlers : List (String × Handler) := [("solrec.feasible", feasH), ("solrec.select", selectH), ("solrec.dual_age_cands", candsH)]

end Sageopt.Drv.Solrec
