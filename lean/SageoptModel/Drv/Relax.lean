import SageoptModel.Drv.Util
import SageoptModel.Drv.Sig
import SageoptModel.Drv.SigL
import SageoptModel.Model.Relax
open Lean Sageopt Sageopt.Drv Sageopt.Sig Sageopt.Relax

namespace Sageopt.Drv.Relax

abbrev M := Except String

def getSigQ (j : Json) (k : String) : M SigQ := do
  match ← Drv.Sig.eval (← getField j k) with
  | .sig _ f => pure f
  | .num _ => throw "not a signomial"

def getSigList (j : Json) (k : String) : M (List SigQ) := do
  asList (← getField j k) fun t => do
    match ← Drv.Sig.eval t with
    | .sig _ f => pure f
    | .num _ => throw "not a signomial"

def sigQJ (f : SigQ) : Json :=
  Json.mkObj [("n", (f.n : Nat)), ("alpha", listJ ratListJ (keys f.terms)), ("c", ratListJ (f.terms.map (·.2)))]

def optSupp (j : Json) : M (Option (List Exp)) :=
  match optField j "mod_supp" with
  | some s => do pure (some (← asList s asRatList))
  | none => pure none

def primalH : Handler := fun j => do
  let d := sigPrimal (← getSigQ j "f") (← getNat j "ell") (← optSupp j) (← getNat j "gamma")
  pure <| Json.mkObj [("alpha", listJ ratListJ d.alpha), ("c", listJ SigL.linJ d.c)]

def dualH : Handler := fun j => do
  let d := sigDual (← getSigQ j "f") (← getNat j "ell") (← optSupp j) (← getNat j "gamma")
  pure <| Json.mkObj [("alpha", listJ ratListJ d.alpha), ("c", listJ SigL.linJ d.c), ("a", ratListJ d.a), ("obj", ratListJ d.obj)]

def ekH : Handler := fun j => do
  let n ← getNat j "n"
  let alphas ← asList (← getField j "alphas") fun a => asList a asRatList
  pure <| Json.mkObj [("alpha", listJ ratListJ (hierarchyEk n alphas (← getNat j "k")))]

def qfoldH : Handler := fun j => do
  let n ← getNat j "n"
  let cons ← getSigList j "cons"
  pure <| Json.mkObj [("fold", listJ sigQJ (qFold n cons (← getNat j "q")))]

def lagrH : Handler := fun j => do
  let f ← getSigQ j "f"
  let gts ← getSigList j "gts"
  let eqs ← getSigList j "eqs"
  let sIds ← asList (← getField j "s_ids") asNatList
  let zIds ← asList (← getField j "z_ids") asNatList
  let lg := makeLagrangian f gts eqs (← getNat j "p") (← getNat j "q") (← getNat j "gamma") sIds zIds
  pure <| Json.mkObj [("alpha", listJ ratListJ (keys lg.L.terms)), ("c", listJ SigL.linJ (lg.L.terms.map (·.2))),
    ("alpha_hat", listJ ratListJ lg.alphaHat), ("gts", listJ sigQJ lg.gts), ("eqs", listJ sigQJ lg.eqs)]

def handlers : List (String × Handler) :=
  [("relax.sig_primal", primalH), ("relax.sig_dual", dualH), ("relax.ek", ekH), ("relax.qfold", qfoldH), ("relax.lagrangian", lagrH)]

end Sageopt.Drv.Relax
