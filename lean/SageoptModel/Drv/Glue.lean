import SageoptModel.Drv.Util
import SageoptModel.Model.SolveGlue
open Lean Sageopt.Drv Sageopt.Glue

namespace Sageopt.Drv.Glue

abbrev M := Except String

def statusS : Status → String
  | .solved => "solved" | .inaccurate => "inaccurate" | .failed => "failed"
def repS : Reported → String
  | .fin false => "pcost" | .fin true => "-pcost" | .pinf => "pinf" | .minf => "minf" | .nan => "nan"
def cellJ : Cell → Json
  | .nan => "nan" | .zero => "zero" | .x k c => Json.arr #[(k : Nat), (c : Nat)]

def asPVar (j : Json) : M PVar := do
  pure ⟨← asNatList (← getField j "ids"), ← asIntList (← getField j "cols")⟩

def historyH : Handler := fun j => do
  let steps ← (← getField j "solves").getArr?
  let mut st : Store := []
  let mut outs : Array Json := #[]
  let mut k := 0
  for s in steps do
    let flag ← getInt s "flag"
    let sense := if (← getStr s "sense") == "max" then Sense.max else Sense.min
    let vars ← asList (← getField s "vars") asPVar
    let (status, vk, loads) := parseFlag flag
    st := applySolve k st ⟨vars, loads⟩
    let watch ← asNatList (← getField s "watch")
    outs := outs.push (Json.mkObj [("status", statusS status), ("value", repS (reported sense status vk)),
      ("cells", listJ (fun id => Json.arr #[(id : Nat), cellJ (st.get id)]) watch)])
    k := k + 1
  pure (Json.mkObj [("out", Json.arr outs)])

def handlers : List (String × Handler) := [("glue.history", historyH)]

end Sageopt.Drv.Glue
