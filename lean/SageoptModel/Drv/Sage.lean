import SageoptModel.Drv.Util
import SageoptModel.Drv.Solvers
import SageoptModel.Drv.Compile
import SageoptModel.Model.Sage
import SageoptModel.Model.SageKernel
open Lean Sageopt Sageopt.Drv Sageopt.Compile Sageopt.Sage

namespace Sageopt.Drv.Sage

abbrev M := Except String

def asAffE (j : Json) : M AffE := Drv.Compile.asAffArg j

def asSettings (j : Json) : M Settings := do
  pure { heuristicReduction := ← getBool j "heuristic_reduction",
         presolveTrivial := ← getBool j "presolve_trivial_age_cones",
         sumAgeForceEquality := ← getBool j "sum_age_force_equality",
         compactDual := ← getBool j "compact_dual",
         kernelBasis := ← getBool j "kernel_basis" }

def asDom (j : Json) : M Dom := do
  pure { A := ← asRatMat (← getField j "A"), b := ← asRatList (← getField j "b"),
         K := ← Solvers.asK (← getField j "K"), N := ← getNat j "N" }

def asSign (j : Json) : M CSign := do
  match ← j.getStr? with
  | "nonconst" => pure .nonconst | "neg" => pure .neg | "pos" => pure .pos | "zero" => pure .zero
  | s => throw s!"bad sign {s}"

def asCoverList (j : Json) : M (List (Nat × List Bool)) :=
  asList j fun p => do
    let a ← p.getArr?
    match a.toList with
    | [i, cov] => pure ((← i.getNat?), (← asBitRow cov))
    | _ => throw "bad cover"

def echJ (e : Ech) : Json :=
  Json.mkObj [("U", natListJ e.U), ("N", natListJ e.N), ("P", natListJ e.P),
    ("covers", listJ (fun (p : Nat × List Bool) => Json.arr #[(p.1 : Nat), bitRowJ p.2]) e.covers)]

def getEch (j : Json) (alpha : List (List Rat)) (signs : Option (List CSign)) (hasX : Bool) (s : Settings) : M Ech := do
  let answers ← match optField j "answers" with
    | some a => asBitRow a
    | none => pure []
  match optField j "user_covers" with
  | some u =>
    match userEch alpha signs (← asCoverList u) with
    | some e => pure e
    | none => throw "RuntimeError: required key missing from covers"
  | none => pure (defaultEch alpha signs hasX s answers)

def getSigns (j : Json) : M (Option (List CSign)) :=
  match optField j "signs" with
  | some s => do pure (some (← asList s asSign))
  | none => pure none

def echH : Handler := fun j => do
  let alpha ← asRatMat (← getField j "alpha")
  let s ← asSettings (← getField j "settings")
  let e ← getEch j alpha (← getSigns j) (← getBool j "hasX") s
  pure (echJ e)

def asPIds (j : Json) : M PIds := do
  pure { i := ← getNat j "i", nu := ← asNatList (← getField j "nu"), basis := ← asRatMat (← getField j "basis"),
         cvar := ← asNatList (← getField j "cvar"), epi := ← asNatList (← getField j "epi"),
         eta := ← asNatList (← getField j "eta") }

def asDIds (j : Json) : M DIds := do
  pure { i := ← getNat j "i", mu := ← asNatList (← getField j "mu"), epi := ← asNatList (← getField j "epi") }

def outJ (rows : List CRow) (K : List Cone) (e : Ech) : Json :=
  let c := assemble rows K
  (Drv.Compile.compiledJ c []).mergeObj (Json.mkObj [("ech", echJ e)])

def primalH : Handler := fun j => do
  let alpha ← asRatMat (← getField j "alpha")
  let c ← asList (← getField j "c") asAffE
  let s ← asSettings (← getField j "settings")
  let X ← match optField j "X" with
    | some x => do pure (some (← asDom x))
    | none => pure none
  let signs := some (c.map classify)
  let e0 ← getEch j alpha signs X.isSome s
  let e := kernelPrune (← getNat j "n") alpha X.isSome s e0
  let ids ← asList (← getField j "ids") asPIds
  let inp : PrimalIn := { n := ← getNat j "n", alpha := alpha, c := c, X := X, settings := s, ech := e, ids := ids,
                          dummy := ← getNat j "dummy" }
  let (rows, K) ← primalRows inp
  pure (outJ rows K e)

def dualH : Handler := fun j => do
  let alpha ← asRatMat (← getField j "alpha")
  let v ← asList (← getField j "v") asAffE
  let s ← asSettings (← getField j "settings")
  let X ← match optField j "X" with
    | some x => do pure (some (← asDom x))
    | none => pure none
  let signs ← match optField j "c" with
    | some cj => do pure (some ((← asList cj asAffE).map classify))
    | none => pure none
  let e ← getEch j alpha signs X.isSome s
  let ids ← asList (← getField j "ids") asDIds
  let inp : DualIn := { n := ← getNat j "n", alpha := alpha, v := v, X := X, settings := s, ech := e, ids := ids,
                        dummy := ← getNat j "dummy" }
  let (rows, K) ← dualRows inp
  pure (outJ rows K e)

def handlers : List (String × Handler) := [("sage.ech", echH), ("sage.primal", primalH), ("sage.dual", dualH)]

end Sageopt.Drv.Sage
