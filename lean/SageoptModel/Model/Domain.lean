/-
Model of domain inference (`relaxations/constraint_generators.py`: `valid_posynomial_inequalities`,
`valid_monomial_equations`, `valid_gp_representable_poly_inequalities`, `valid_gp_representable_poly_eqs`,
`clcons_from_standard_gprep`; `sage_sigs.infer_domain`, `sage_polys.infer_domain`) and of the column
reordering in `SigDomain.parse_coniclifts_constraints` / `PolyDomain.parse_coniclifts_constraints`.
Logarithms stay symbolic (`log (num / den)` is recorded by its argument).  Core Lean only.
-/
import SageoptModel.Model.Poly

namespace Sageopt.Domain
open Sageopt Sageopt.Sig Sageopt.Relax Sageopt.Poly

/-- outcome of looking at one constraint -/
inductive Sel where
  | skip                      -- not convexifiable: left to the Lagrangian
  | keep (g : SigQ)           -- kept (normalised form)
  | raises (msg : String)
  deriving Repr

def posTerms (g : SigQ) : List (Exp × Rat) := g.terms.filter fun t => decide (0 < t.2)
def negTerms (g : SigQ) : List (Exp × Rat) := g.terms.filter fun t => decide (t.2 < 0)

/-- the monomial `e^{a·x}` with coefficient one (`Signomial.from_dict({a: 1})`) -/
def monomial (n : Nat) (a : Exp) : SigQ := mk n [(roundExp a, (1 : Rat))]

def negExp (a : Exp) : Exp := a.map (- ·)

/-- `valid_posynomial_inequalities`, one constraint `g(x) ≥ 0` -/
def posyIneq (g : SigQ) : Sel :=
  let pos := posTerms g
  if pos.length ≥ 2 then .skip
  else if pos.length == 0 && (negTerms g).length > 0 then .raises "RuntimeError: infeasible signomial inequality"
  else match pos with
    | [] => .raises "IndexError"                     -- the zero signomial
    | p :: _ => .keep (mulQ g (monomial g.n (negExp p.1)))

/-- `valid_monomial_equations`, one constraint `g(x) = 0` -/
def monoEq (g : SigQ) : Sel :=
  if nonzeroCount g > 2 then .skip
  else match posTerms g with
    | [p] => .keep (mulQ g (monomial g.n (negExp p.1)))
    | _ => .skip

def allEven (g : SigQ) : Bool := g.terms.all fun t => isEvenExp t.1

/-- `valid_gp_representable_poly_inequalities`, one constraint (a polynomial): kept unchanged -/
def gpPolyIneq (g : SigQ) : Sel :=
  let np := (posTerms g).length
  if np == 1 && allEven g then .keep g
  else if np == 0 && allEven g then
    -- `g(0) == 0`: warning, constraint dropped; otherwise infeasible
    if lookupC g.terms (zeroExp g.n) == 0 then .skip else .raises "RuntimeError: infeasible polynomial inequality"
  else .skip

/-- `valid_gp_representable_poly_eqs` -/
def gpPolyEq (g : SigQ) : Sel :=
  if allEven g && nonzeroCount g == 2 && (posTerms g).length == 1 then .keep g else .skip

/-- a log-space constraint produced by `clcons_from_standard_gprep` -/
inductive LogCon where
  /-- `Σ_k c_k e^{α_k·y} ≤ cst` (`weighted_sum_exp(c, alpha @ y) <= cst`) -/
  | lse (c : List Rat) (alpha : List Exp) (cst : Rat)
  /-- `a·y ≤ log(num/den)` -/
  | lin (a : Exp) (num den : Rat)
  /-- `a·y = log(num/den)` -/
  | eq (a : Exp) (num den : Rat)
  | raises (msg : String)
  deriving Repr

def constLoc (g : SigQ) : Option Nat := g.terms.findIdx? fun t => t.1.all (· == 0)

def absR (q : Rat) : Rat := if q < 0 then -q else q

/-- one normalised inequality `g ≥ 0` (constant term positive, all other coefficients negative) -/
def clconGt (g : SigQ) : List LogCon :=
  match constLoc g with
  | none => [.raises "constant_location failed"]
  | some k =>
    let cst := (g.terms.getD k ([], 0)).2
    let others := (g.terms.zipIdx.filter fun p => p.2 != k).map (·.1)
    if g.terms.length > 2 then [.lse (others.map fun t => -t.2) (others.map (·.1)) cst]
    else if g.terms.length == 2 then
      match others with
      | [t] => [.lin t.1 cst (absR t.2)]
      | _ => []
    else []

/-- one normalised equality `c₁ − c₂ e^{a·y} = 0` -/
def clconEq (g : SigQ) : List LogCon :=
  match constLoc g with
  | none => [.raises "constant_location failed"]
  | some k =>
    match g.terms.getD (1 - k) ([], 0), g.terms.length with
    | t, 2 => [.eq t.1 ((g.terms.getD k ([], 0)).2) (absR t.2)]
    | _, _ => [.raises "IndexError"]

def keptOf : List Sel → List SigQ
  | [] => []
  | .keep g :: r => g :: keptOf r
  | _ :: r => keptOf r

def firstRaise : List Sel → Option String
  | [] => none
  | .raises m :: _ => some m
  | _ :: r => firstRaise r

structure Inferred where
  gts : List SigQ            -- kept inequalities (signomials: normalised; polynomials: as given), what `X.gts` holds
  eqs : List SigQ
  logGts : List SigQ         -- the normalised log-space forms
  logEqs : List SigQ
  cons : List LogCon
  deriving Repr

/-- `sage_sigs.infer_domain(f, gts, eqs)`; `none` = no constraint was convexifiable (the function returns None) -/
def inferSig (gts eqs : List SigQ) : Except String (Option Inferred) :=
  let sg := gts.map posyIneq
  let se := eqs.map monoEq
  match firstRaise sg, firstRaise se with
  | some m, _ => .error m
  | _, some m => .error m
  | none, none =>
    let kg := keptOf sg
    let ke := keptOf se
    let cons := kg.flatMap clconGt ++ ke.flatMap clconEq
    match cons.find? (fun c => match c with | .raises _ => true | _ => false) with
    | some (.raises m) => .error m
    | _ => if cons.isEmpty then .ok none else .ok (some ⟨kg, ke, kg, ke, cons⟩)

/-- `sage_polys.infer_domain(f, gts, eqs)` -/
def inferPoly (gts eqs : List SigQ) : Except String (Option Inferred) :=
  let pg := gts.map gpPolyIneq
  let pe := eqs.map gpPolyEq
  match firstRaise pg, firstRaise pe with
  | some m, _ => .error m
  | _, some m => .error m
  | none, none =>
    let kg := keptOf pg
    let ke := keptOf pe
    let sg := kg.map posyIneq
    let se := ke.map monoEq
    match firstRaise sg, firstRaise se with
    | some m, _ => .error m
    | _, some m => .error m
    | none, none =>
      let lg := keptOf sg
      let le := keptOf se
      let cons := lg.flatMap clconGt ++ le.flatMap clconEq
      match cons.find? (fun c => match c with | .raises _ => true | _ => false) with
      | some (.raises m) => .error m
      | _ => if cons.isEmpty then .ok none else .ok (some ⟨kg, ke, lg, le, cons⟩)

/-! ### column reordering of a compiled system -/

/-- `parse_coniclifts_constraints`: `A` has one column per scalar variable that occurs; `selector[i]` is the column of the
    i-th component of `x` or `-1` when it occurs nowhere.  Result: first the `n` columns of `x` (zero columns for absent
    components), then the remaining (auxiliary) columns, taken as the LAST `num_aux` columns of `A`. -/
def reorderCols (A : List (List Rat)) (ncols : Nat) (selector : List Int) : List (List Rat) :=
  let used := (selector.filter (· != -1)).length
  let numAux := ncols - used
  A.map fun row =>
    (selector.map fun s => if s == -1 then (0 : Rat) else row.getD s.toNat 0) ++ row.drop (ncols - numAux)

/-! ### the conic form of a box -/

/-- the rows `(a, b)` (meaning `a·x + b ≥ 0`) of the conic form of the box `lo ≤ x ≤ hi` as `SigDomain(coniclifts_cons=[x >= lo, x <= hi])`
    compiles it: `x_l − lo_l ≥ 0` for every coordinate, then `hi_l − x_l ≥ 0` for every coordinate; all rows in `+` cones -/
def boxRowsF {N : Nat} (lo hi : Fin N → Rat) : List (List Rat × Rat) :=
  (List.ofFn fun l : Fin N => (List.ofFn fun l' : Fin N => if l = l' then (1 : Rat) else 0, -lo l)) ++
  (List.ofFn fun l : Fin N => (List.ofFn fun l' : Fin N => if l = l' then (-1 : Rat) else 0, hi l))

/-- the same on lists (the driver's entry point) -/
def boxRows (lo hi : List Rat) : List (List Rat × Rat) :=
  boxRowsF (N := lo.length) (fun l => lo.getD l.val 0) (fun l => hi.getD l.val 0)

end Sageopt.Domain
