/-
Model of the glue around the solver in `Problem.solve` / `ECOS.parse_result` / `ECOS.load_variable_values`
(`problems/problem.py`, `problems/solvers/ecos.py`): exit flag ↦ (status, value kind, whether values are
loaded), the MIN/MAX sense flip, and the value store of the ScalarVariables as a state machine over
arbitrary sequences of solves of Variable-sharing problems.  Core Lean only.
-/
namespace Sageopt.Glue

inductive Status where
  | solved | inaccurate | failed
  deriving Repr, BEq, DecidableEq

inductive VKind where
  | pcost      -- the solver's primal objective value
  | pinf | minf | nan
  deriving Repr, BEq, DecidableEq

/-- `ECOS.parse_result`: exit flag ↦ (status, value kind, variable values are loaded) -/
def parseFlag (flag : Int) : Status × VKind × Bool :=
  if flag = 0 then (.solved, .pcost, true)
  else if flag = 1 then (.solved, .pinf, false)
  else if flag = 2 then (.solved, .minf, false)
  else if flag = 10 then (.inaccurate, .pcost, true)
  else if flag = 11 then (.inaccurate, .pinf, false)
  else if flag = 12 then (.inaccurate, .minf, false)
  else (.failed, .nan, false)

inductive Sense where
  | min | max
  deriving Repr, BEq, DecidableEq

/-- the value `Problem.solve` reports: the parsed value, negated for MAX (the objective vector was negated when
    the Problem was built); NaN unless the status is solved / inaccurate -/
inductive Reported where
  | fin (negated : Bool)     -- ± pcost
  | pinf | minf | nan
  deriving Repr, BEq, DecidableEq

def reported (s : Sense) (st : Status) (vk : VKind) : Reported :=
  match st with
  | .failed => .nan
  | _ =>
    match vk, s with
    | .pcost, .min => .fin false
    | .pcost, .max => .fin true
    | .pinf, .min => .pinf
    | .pinf, .max => .minf
    | .minf, .min => .minf
    | .minf, .max => .pinf
    | .nan, _ => .nan

/-- value of one scalar component -/
inductive Cell where
  | nan
  | zero                          -- component that does not participate (variable_map = -1)
  | x (solve : Nat) (col : Nat)   -- entry `col` of the solution vector returned by solve number `solve`
  deriving Repr, BEq, DecidableEq

abbrev Store := List (Nat × Cell)      -- scalar-variable id ↦ cell; absent = never assigned (NaN at creation)

def Store.get (s : Store) (id : Nat) : Cell := ((s.find? (·.1 == id)).map (·.2)).getD .nan
def Store.set (s : Store) (id : Nat) (c : Cell) : Store := (id, c) :: s.filter (·.1 != id)

/-- one Variable of a Problem: scalar ids in flat order and its `variable_map` entries -/
structure PVar where
  ids : List Nat
  cols : List Int
  deriving Repr, BEq

/-- one solve: which Variables the Problem has, and whether values are loaded (else everything is set to NaN) -/
structure Solve where
  vars : List PVar
  loads : Bool
  deriving Repr, BEq

def cellFor (k : Nat) (loads : Bool) (col : Int) : Cell :=
  if !loads then .nan else if col < 0 then .zero else .x k col.toNat

def applySolve (k : Nat) (st : Store) (s : Solve) : Store :=
  s.vars.foldl (fun st v => (v.ids.zip v.cols).foldl (fun st p => st.set p.1 (cellFor k s.loads p.2)) st) st

/-- the store after a whole history of solves -/
def runSolves (hist : List Solve) : Store :=
  (hist.zipIdx.foldl (fun st p => applySolve p.2 st p.1) [])

end Sageopt.Glue
