/-
Model of the signomial relaxation builders (`relaxations/sage_sigs.py`, `constraint_generators.py`):
`hierarchy_e_k`, `up_to_q_fold_cons`, `make_sig_lagrangian`, `sig_primal`, `sig_dual`,
`sig_constrained_primal`, `sig_constrained_dual` — as far as the DATA of the built problem is
concerned: the exponent matrix and coefficient vector (affine in γ and in the multiplier variables)
of every SAGE constraint, the normalisation vector `a`, the objective vector and the
moment-reduction matrices.  Signomials with symbolic coefficients are `SigT Lin`.  Core Lean only.
-/
import SageoptModel.Model.Sig
import SageoptModel.Model.Lin
import SageoptModel.Model.SymCorr

namespace Sageopt.Relax
open Sageopt Sageopt.Sig

abbrev SigQ := SigT Rat
abbrev SigL := SigT Lin

def embed (f : SigQ) : SigL := ⟨f.n, f.terms.map fun t => (t.1, Lin.const t.2)⟩

def okOr {α} (r : Res α) (d : α) : α := match r with | .ok v => v | .raises _ => d

/-- `hierarchy_e_k(sigs, k)`: exponents of `(Σ_{a ∈ ∪ alphas} e^{a·x})^k`; `np.unique` sorts the rows -/
def hierarchyEk (n : Nat) (alphas : List (List Exp)) (k : Nat) : List Exp :=
  let rows := sortedKeys alphas.flatten
  let s : SigQ := mk n (rows.map fun r => (r, (1 : Rat)))
  keys (powNat isZeroQ s k).terms

/-- numeric product with `without_zeros` (`Signomial.__mul__`) -/
def mulQ (f g : SigQ) : SigQ := withoutZeros isZeroQ (product f g)

def nonzeroCount (f : SigQ) : Nat := (f.terms.filter fun t => !(isZeroQ t.2)).length

/-- multisets of size `k` from `xs`, in the order of `itertools.combinations_with_replacement` -/
def combsWithRep : Nat → List α → List (List α)
  | 0, _ => [[]]
  | _ + 1, [] => []
  | k + 1, x :: xs => (combsWithRep k (x :: xs)).map (x :: ·) ++ combsWithRep (k + 1) xs

/-- same function (coefficientwise) — the `==`/`hash` by which the code's `set` identifies products -/
def sameSig (f g : SigQ) : Bool := eqCode 0 f g

/-- `up_to_q_fold_cons(cons, q)`: all products of ≤ q members with more than one nonzero term, without
    repetitions (the code collects them in a `set`; here: first occurrence in enumeration order) -/
def qFold (n : Nat) (cons : List SigQ) (q : Nat) : List SigQ :=
  if cons.isEmpty || q == 1 then cons
  else
    let prods := (List.range q).flatMap fun qq =>
      (combsWithRep (qq + 1) cons).filterMap fun comb =>
        match comb with
        | [] => none
        | g :: gs =>
          let pr := gs.foldl mulQ g
          if nonzeroCount pr > 1 then some pr else none
    prods.foldl (fun acc g => if acc.any (sameSig g) then acc else acc ++ [g]) []

/-- a signomial whose coefficients are the scalar variables `ids` -/
def varSig (n : Nat) (alpha : List Exp) (ids : List Nat) : SigL :=
  mk n (alpha.zip (ids.map Lin.var))

def negL (f : SigL) : SigL := smul Lin.isZero f (Lin.const (-1))

structure Lagrangian where
  L : SigL
  alphaHat : List Exp
  gts : List SigQ            -- folded inequality constraints, in the model's order
  eqs : List SigQ
  deriving Repr

/-- `make_sig_lagrangian(f, gts, eqs, p, q)`; `gammaId`, and the ids of the multiplier coefficients for the
    k-th folded inequality / equality, are inputs -/
def makeLagrangian (f : SigQ) (gts eqs : List SigQ) (p q : Nat) (gammaId : Nat)
    (sIds zIds : List (List Nat)) : Lagrangian :=
  let n := f.n
  let fg := qFold n gts q
  let fe := qFold n eqs q
  -- L = f - gamma
  let L0 := okOr (add Lin.isZero (embed f) (const n (Lin.scale (-1) (Lin.var gammaId)))) (embed f)
  let alphaHat := hierarchyEk n ([keys L0.terms] ++ gts.map (fun g => keys g.terms) ++ eqs.map (fun g => keys g.terms)) p
  let mkSummand := fun (g : SigQ) (ids : List Nat) =>
    -- `-g * s_g`
    okOr (mul Lin.isZero (embed (neg isZeroQ g)) (varSig n alphaHat ids)) (embed g)
  let summands := [L0] ++ (fg.zip sIds).map (fun p => mkSummand p.1 p.2) ++ (fe.zip zIds).map (fun p => mkSummand p.1 p.2)
  { L := sumList n summands, alphaHat := alphaHat, gts := fg, eqs := fe }

/-- the modulator `t^ell` with `t = Σ_{a ∈ supp} e^{a·x}` -/
def modulator (n : Nat) (supp : List Exp) (ell : Nat) : SigQ :=
  powNat isZeroQ (mk n (supp.map fun r => (r, (1 : Rat)))) ell

structure PrimalData where
  alpha : List Exp
  c : List Lin
  deriving Repr

/-- `sig_primal(f, ell, X, modulator_support)`: the SAGE constraint on `(f − γ)·t^ell`; objective `γ` (MAX) -/
def sigPrimal (f : SigQ) (ell : Nat) (modSupp : Option (List Exp)) (gammaId : Nat) : PrimalData :=
  let f := withoutZeros isZeroQ f
  let n := f.n
  let L := okOr (add Lin.isZero (embed f) (const n (Lin.scale (-1) (Lin.var gammaId)))) (embed f)
  let supp := modSupp.getD (keys L.terms)
  let t := modulator n supp ell
  let s := okOr (mul Lin.isZero L (embed t)) L
  { alpha := keys s.terms, c := s.terms.map (·.2) }

structure DualData where
  alpha : List Exp          -- exponents of the (modulated) Lagrangian = rows of the dual SAGE constraint
  c : List Lin              -- its coefficients (sign information for the dual cone)
  a : List Rat              -- normalisation `a · v = 1`
  obj : List Rat            -- objective `obj · v`
  deriving Repr

def tol8 : Rat := 1 / 100000000

/-- `sig_dual(f, ell, X, modulator_support)` -/
def sigDual (f : SigQ) (ell : Nat) (modSupp : Option (List Exp)) (gammaId : Nat) : DualData :=
  let f := withoutZeros isZeroQ f
  let n := f.n
  let L0 := okOr (add Lin.isZero (embed f) (const n (Lin.scale (-1) (Lin.var gammaId)))) (embed f)
  let supp := modSupp.getD (keys L0.terms)
  let t := modulator n supp ell
  let L := okOr (mul Lin.isZero L0 (embed t)) L0
  let fmod := mulQ f t
  let alpha := keys L.terms
  { alpha := alpha, c := L.terms.map (·.2),
    a := SymCorr.relativeCoeffVector tol8 t.terms alpha,
    obj := SymCorr.relativeCoeffVector tol8 fmod.terms alpha }

end Sageopt.Relax
