/-
`Lin`: affine forms over scalar variables with rational coefficients — the model of a coniclifts
`ScalarExpression` whose atoms are all `ScalarVariable`s, as far as its *meaning* is concerned
(the map variable ↦ coefficient with zero entries dropped, plus the offset).  `bad` is a poison
flag for operations the code rejects (product of two non-constant expressions).  Core Lean only.
-/
namespace Sageopt

structure Lin where
  off : Rat
  co : List (Nat × Rat)      -- sorted by variable id, no zero coefficients
  bad : Bool := false
  deriving Repr, BEq, DecidableEq

namespace Lin

def const (q : Rat) : Lin := ⟨q, [], false⟩
def var (i : Nat) : Lin := ⟨0, [(i, 1)], false⟩

instance : Zero Lin := ⟨const 0⟩
instance : One Lin := ⟨const 1⟩
instance : OfNat Lin n := ⟨const (n : Rat)⟩

/-- merge two sorted coefficient lists, adding coefficients of equal ids, dropping zeros -/
def merge : List (Nat × Rat) → List (Nat × Rat) → List (Nat × Rat)
  | [], ys => ys
  | xs, [] => xs
  | (i, a) :: xs, (j, b) :: ys =>
    if i < j then (i, a) :: merge xs ((j, b) :: ys)
    else if j < i then (j, b) :: merge ((i, a) :: xs) ys
    else if a + b = 0 then merge xs ys else (i, a + b) :: merge xs ys
termination_by xs ys => xs.length + ys.length

def add (x y : Lin) : Lin := ⟨x.off + y.off, merge x.co y.co, x.bad || y.bad⟩

def scale (q : Rat) (x : Lin) : Lin :=
  if q = 0 then ⟨0, [], x.bad⟩ else ⟨q * x.off, x.co.map fun p => (p.1, q * p.2), x.bad⟩

def neg (x : Lin) : Lin := scale (-1) x

/-- `ScalarExpression.is_constant()` -/
def isConstant (x : Lin) : Bool := x.co.isEmpty

/-- `ScalarExpression.__mul__`: one factor must be constant -/
def mul (x y : Lin) : Lin :=
  if y.isConstant then ⟨(scale y.off x).off, (scale y.off x).co, x.bad || y.bad⟩
  else if x.isConstant then ⟨(scale x.off y).off, (scale x.off y).co, x.bad || y.bad⟩
  else ⟨0, [], true⟩

instance : Add Lin := ⟨add⟩
instance : Mul Lin := ⟨mul⟩
instance : Neg Lin := ⟨neg⟩

/-- `ci.is_constant() and ci.value == 0` of `find_zero_entries`: no access to variable values -/
def isZero (x : Lin) : Bool := !x.bad && x.co.isEmpty && x.off == 0

/-- value under an assignment of the scalar variables -/
def value (σ : Nat → Rat) (x : Lin) : Rat := x.co.foldl (fun acc p => acc + p.2 * σ p.1) x.off

end Lin
end Sageopt
