/-
Model of `sageopt/relaxations/symbolic_correspondences.py`:
`row_correspondence`, `relative_coeff_vector`, `moment_reduction_array`.  Core Lean only.
-/
import SageoptModel.Model.Sig

namespace Sageopt.SymCorr
open Sageopt.Sig

/-- `np.all(np.abs(alpha2_row - row) < tol)` -/
def rowMatch (tol : Rat) (row r2 : Exp) : Bool :=
  (List.zipWith (fun a b => absQ (b - a)) row r2).all (· < tol)

/-- index of the first row of `alpha2` matching `row` -/
def findRow (tol : Rat) (row : Exp) (alpha2 : List Exp) : Option Nat :=
  alpha2.findIdx? (rowMatch tol row)

/-- `row_correspondence(alpha1, alpha2)` = (common, alpha1_to_alpha2) -/
def rowCorrespondence (tol : Rat) (alpha1 alpha2 : List Exp) : List Nat × List Nat :=
  let pairs := alpha1.zipIdx.filterMap fun (row, i) => (findRow tol row alpha2).map fun loc => (i, loc)
  (pairs.map (·.1), pairs.map (·.2))

variable {C : Type}

/-- `c = zeros(len(ref)); c[corr] = sc[common]` (numpy fancy assignment: the last write wins) -/
def relativeCoeffVector [Zero C] (tol : Rat) (terms : List (Exp × C)) (ref : List Exp) : List C :=
  let (common, corr) := rowCorrespondence tol (keys terms) ref
  let writes := corr.zip (common.map fun i => (terms.map Prod.snd).getD i 0)
  (List.range ref.length).map fun k =>
    match (writes.reverse.find? fun w => w.1 == k) with
    | some w => w.2
    | none => 0

/-- `moment_reduction_array(s_h, h, L)`.  `shhKeys` = exponent rows of the product `s_h * h` as the
    code computes it (`(s_h * h).alpha_c`), `Lkeys` = rows of `L.alpha`.  A row of the product that
    is not a row of `L` (exact comparison, both already rounded by the constructor) is an error. -/
def momentReductionArray (tol : Rat) (n : Nat) (shKeys : List Exp) (shhKeys : List Exp) (h : SigT Rat) (Lkeys : List Exp) :
    Res (List (List Rat)) :=
  if shhKeys.all fun r => Lkeys.contains r then
    .ok (shKeys.map fun ai =>
      let temp := mk n (h.terms.map fun t => (addExp t.1 ai, t.2))
      relativeCoeffVector tol temp.terms Lkeys)
  else .raises "RuntimeError: exponent of s_h * h not present in L"

end Sageopt.SymCorr
