/-
Model of the polynomial relaxation builders (`relaxations/sage_polys.py`, `symbolic/polynomials.py`):
`Polynomial._compute_sig_rep`, `create_covers`, `standard_multiplier`, `poly_primal`, `poly_dual`,
`relative_dual_sage_poly_cone`, `make_poly_lagrangian`, `poly_constrained_primal/dual` — as far as the DATA of
the built problem is concerned (exponent matrices, coefficient vectors as affine forms, covers, side
constraints, normalisation and objective vectors).  A polynomial is a `SigT` whose exponents are
nonnegative integers; `x^a` for real `x` is the semantics (Lemmas/PolySem.lean).  Core Lean only.
-/
import SageoptModel.Model.Relax

namespace Sageopt.Poly
open Sageopt Sageopt.Sig Sageopt.Relax

/-- `np.all(row % 2 == 0)` for an integer row -/
def isEvenExp (a : Exp) : Bool := a.all fun q => q.den == 1 && q.num % 2 == 0

def absLin (q : Rat) : Rat := if q < 0 then -q else q

/-- one side constraint pair of the signomial representative: `ĉ ≤ c` and `ĉ ≤ −c` for the fresh scalar variable `chat` -/
structure SideCon where
  chat : Nat
  c : Lin
  deriving Repr, BEq

/-- `Polynomial._compute_sig_rep`: rows with an odd exponent get `−|c|` when the coefficient is a constant and a
    fresh variable `ĉ` (ids supplied in order) otherwise; even rows keep their coefficient -/
def sigRepTerms : List (Exp × Lin) → List Nat → List (Exp × Lin) × List SideCon
  | [], _ => ([], [])
  | (a, c) :: ts, ids =>
    if isEvenExp a then
      let (r, s) := sigRepTerms ts ids
      ((a, c) :: r, s)
    else if c.isConstant then
      let (r, s) := sigRepTerms ts ids
      ((a, Lin.const (-(absLin c.off))) :: r, s)
    else
      match ids with
      | [] => -- not enough ids supplied: poison (never happens when the driver passes the code's ids)
        let (r, s) := sigRepTerms ts []
        ((a, { c with bad := true }) :: r, s)
      | id :: rest =>
        let (r, s) := sigRepTerms ts rest
        ((a, Lin.var id) :: r, ⟨id, c⟩ :: s)

def sigRep (p : SigL) (chat : List Nat) : SigL × List SideCon :=
  let (ts, side) := sigRepTerms p.terms chat
  (⟨p.n, ts⟩, side)

/-- rows that need a fresh variable, in order (`need_vars`) -/
def needVars (p : SigL) : List Nat :=
  (p.terms.zipIdx.filter fun (t, _) => !isEvenExp t.1 && !t.2.isConstant).map (·.2)

/-- `create_covers(s)` -/
def createCovers (sr : SigL) : List (Nat × List Bool) :=
  let m := sr.terms.length
  let evens := sr.terms.map fun t => isEvenExp t.1
  sr.terms.zipIdx.filterMap fun (t, i) =>
    if t.2.isConstant && decide (0 ≤ t.2.off) && isEvenExp t.1 then none
    else some (i, (List.range m).map fun j => j != i && evens.getD j false)

/-- `Polynomial.standard_multiplier()`: the even rows with coefficient one -/
def stdMultiplier (f : SigQ) : SigQ :=
  mk f.n ((f.terms.filter fun t => isEvenExp t.1).map fun t => (t.1, (1 : Rat)))

def constSig (f : SigL) : Option SigQ :=
  if f.terms.all (fun t => t.2.isConstant && !t.2.bad) then some ⟨f.n, f.terms.map fun t => (t.1, t.2.off)⟩ else none

/-- data of the SAGE-polynomial constraint on a polynomial with affine coefficients
    (`primal_sage_poly_cone` / the conic part of `relative_dual_sage_poly_cone`) -/
structure PolyCone where
  alpha : List Exp
  c : List Lin                     -- coefficients of the signomial representative
  covers : List (Nat × List Bool)
  side : List SideCon
  evens : List Bool                -- `is_even` mask (dual: `aux_v[even] = v[even]`, `|v[odd]| ≤ aux_v[odd]`)
  deriving Repr, BEq

def polyCone (p : SigL) (chat : List Nat) : PolyCone :=
  let (sr, side) := sigRep p chat
  { alpha := keys sr.terms, c := sr.terms.map (·.2), covers := createCovers sr, side := side,
    evens := sr.terms.map fun t => isEvenExp t.1 }

/-- `(f − γ)·modulator` as a polynomial with affine coefficients -/
def modLagrangian (f : SigQ) (modulator : SigQ) (gammaId : Nat) : SigL :=
  let L := okOr (add Lin.isZero (embed f) (const f.n (Lin.scale (-1) (Lin.var gammaId)))) (embed f)
  okOr (mul Lin.isZero L (embed modulator)) L

inductive PrimalOut where
  /-- `poly_ell = 0`: `sig_primal(sr, sigrep_ell, X)` -/
  | viaSig (d : PrimalData)
  /-- `poly_ell > 0`, `sigrep_ell = 0`: `primal_sage_poly_cone(lagrangian)` -/
  | cone (d : PolyCone)
  /-- `poly_ell > 0`, `sigrep_ell > 0`: default covers on `sr · (Σ e^{a·y})^sigrep_ell` plus the side constraints -/
  | modulated (alpha : List Exp) (c : List Lin) (side : List SideCon)
  deriving Repr

/-- the numeric signomial representative of a numeric polynomial -/
def sigRepQ (f : SigQ) : SigQ := ⟨f.n, f.terms.map fun t => if isEvenExp t.1 then t else (t.1, -(absLin t.2))⟩

def polyPrimal (f : SigQ) (polyEll sigrepEll : Nat) (gammaId : Nat) (chat : List Nat) : PrimalOut :=
  if polyEll == 0 then .viaSig (sigPrimal (sigRepQ f) sigrepEll none gammaId)
  else
    let modulator := powNat isZeroQ (stdMultiplier f) polyEll
    let lag := modLagrangian f modulator gammaId
    if sigrepEll > 0 then
      let (sr, side) := sigRep lag chat
      let sigMod : SigQ := powNat isZeroQ (mk sr.n ((keys sr.terms).map fun a => (a, (1 : Rat)))) sigrepEll
      let s := okOr (mul Lin.isZero sr (embed sigMod)) sr
      .modulated (keys s.terms) (s.terms.map (·.2)) side
    else .cone (polyCone lag chat)

inductive DualOut where
  | viaSig (d : DualData)
  /-- `poly_ell > 0`: dual poly cone on the Lagrangian, normalisation `a`, objective `obj` -/
  | cone (d : PolyCone) (a obj : List Rat)
  | notImplemented
  deriving Repr

def polyDual (f : SigQ) (polyEll sigrepEll : Nat) (gammaId : Nat) (chat : List Nat) : DualOut :=
  if polyEll == 0 then .viaSig (sigDual (sigRepQ f) sigrepEll none gammaId)
  else if sigrepEll == 0 then
    let modulator := powNat isZeroQ (stdMultiplier f) polyEll
    let lag := modLagrangian f modulator gammaId
    let fmod := mulQ f modulator
    let alpha := keys lag.terms
    .cone (polyCone lag chat) (SymCorr.relativeCoeffVector tol8 modulator.terms alpha)
      (SymCorr.relativeCoeffVector tol8 fmod.terms alpha)
  else .notImplemented

/-- multiplier exponents of `make_poly_lagrangian`: `unique(vstack([2·E_p, E_p]))` -/
def polyAlphaMult (n : Nat) (alphas : List (List Exp)) (p : Nat) : List Exp :=
  let ep := hierarchyEk n alphas p
  sortedKeys (ep.map (fun a => a.map (2 * ·)) ++ ep)

structure PolyLagrangian where
  L : SigL
  alphaMult : List Exp
  gts : List SigQ
  eqs : List SigQ
  deriving Repr

/-- `make_poly_lagrangian(f, gts, eqs, p, q)` -/
def makePolyLagrangian (f : SigQ) (gts eqs : List SigQ) (p q : Nat) (gammaId : Nat)
    (sIds zIds : List (List Nat)) : PolyLagrangian :=
  let n := f.n
  let fg := qFold n gts q
  let fe := qFold n eqs q
  let L0 := okOr (add Lin.isZero (embed f) (const n (Lin.scale (-1) (Lin.var gammaId)))) (embed f)
  -- hierarchy_e_k([f, f.upcast_to_polynomial(1)] + gts + eqs, k = p)
  let am := polyAlphaMult n ([keys f.terms, [zeroExp n]] ++ gts.map (fun g => keys g.terms) ++ eqs.map (fun g => keys g.terms)) p
  let mkSummand := fun (g : SigQ) (ids : List Nat) =>
    okOr (mul Lin.isZero (embed (neg isZeroQ g)) (varSig n am ids)) (embed g)
  let summands := [L0] ++ (fg.zip sIds).map (fun p => mkSummand p.1 p.2) ++ (fe.zip zIds).map (fun p => mkSummand p.1 p.2)
  { L := sumList n summands, alphaMult := am, gts := fg, eqs := fe }

/-- the even modulator of the constrained builders: `Polynomial(2·E_1, ones)^ell` -/
def conModulator (n : Nat) (alphas : List (List Exp)) (ell : Nat) : SigQ :=
  let e1 := hierarchyEk n alphas 1
  powNat isZeroQ (mk n (e1.map fun a => (a.map (2 * ·), (1 : Rat)))) ell

end Sageopt.Poly
