/-
Cone tags of `sageopt/coniclifts/cones.py` and the selector helpers
(`build_cone_type_selectors`, `utilities.contiguous_selector_lengths`).  Core Lean only.
-/
namespace Sageopt

inductive CType where
  | zero   -- '0'
  | pos    -- '+'
  | soc    -- 'S'
  | exp    -- 'e'
  | dexp   -- 'de'
  | free   -- 'fr'
  | pow    -- 'pow'
  | psd    -- 'P'
  deriving DecidableEq, Repr, BEq

def CType.tag : CType → String
  | .zero => "0" | .pos => "+" | .soc => "S" | .exp => "e"
  | .dexp => "de" | .free => "fr" | .pow => "pow" | .psd => "P"

def CType.ofTag? : String → Option CType
  | "0" => some .zero | "+" => some .pos | "S" => some .soc | "e" => some .exp
  | "de" => some .dexp | "fr" => some .free | "pow" => some .pow | "P" => some .psd
  | _ => none

structure Cone where
  type : CType
  len : Nat
  deriving DecidableEq, Repr, BEq

/-- `build_cone_type_selectors(K)[t]`: boolean mask over the rows of (A, b) -/
def selector (K : List Cone) (t : CType) : List Bool :=
  K.flatMap fun co => List.replicate co.len (co.type == t)

/-- keep the entries whose mask bit is set (`A[mask, :]`, `b[mask]`) -/
def selectBy : List Bool → List α → List α
  | true :: ms, x :: xs => x :: selectBy ms xs
  | false :: ms, _ :: xs => selectBy ms xs
  | _, _ => []

/-- lengths of the maximal runs of `true` (`contiguous_selector_lengths`) -/
def runLengthsAux : List Bool → Nat → List Nat
  | [], cur => if cur = 0 then [] else [cur]
  | true :: ms, cur => runLengthsAux ms (cur + 1)
  | false :: ms, cur => if cur = 0 then runLengthsAux ms 0 else cur :: runLengthsAux ms 0

def runLengths (mask : List Bool) : List Nat := runLengthsAux mask 0

def countTrue (mask : List Bool) : Nat := (mask.filter id).length

/-- split a list into consecutive blocks of the given lengths -/
def splitBy : List Nat → List α → List (List α)
  | [], _ => []
  | n :: ns, xs => xs.take n :: splitBy ns (xs.drop n)

end Sageopt
