/-
Model of Variable identity in coniclifts (`base.py`: `ScalarVariable.__init__`,
`Variable.__new__/__unstructured_populate__/__symmetric_populate__`, slicing, `__reduce__`/`__setstate__`/
`_relink_scalar_variables`; `__init__.py`: `clear_variable_indices`): the global allocator
(`_SCALAR_VARIABLE_COUNTER`, `_VARIABLE_GENERATION`, `_UNNAMED_VARIABLE_CALL_COUNT`) as a state machine,
sessions (a fresh interpreter = a fresh allocator), and unpickling of an object graph as a sequence of
`__setstate__` calls in an explicit order.  Core Lean only.
-/
namespace Sageopt.Vars

structure Alloc where
  counter : Nat := 0
  gen : Nat := 0
  unnamed : Nat := 0
  deriving Repr, BEq, DecidableEq

/-- an array object holding scalar-variable components: a proper Variable, or a slice/view of one -/
structure VarObj where
  name : String
  shape : List Nat
  ids : List Nat            -- scalar variable ids in flat (row-major) order
  gen : Nat
  proper : Bool
  deriving Repr, BEq, DecidableEq

def size (shape : List Nat) : Nat := shape.foldl (· * ·) 1

/-- ids of a symmetric n×n Variable in flat order: entry (i,j) and (j,i) share the id allocated for
    (min, max) in the order (0,0),(0,1),…,(0,n-1),(1,1),… -/
def symId (n i j : Nat) : Nat :=
  let a := min i j
  let b := max i j
  -- number of ids allocated before row a: n + (n-1) + … + (n-a+1)
  (List.range a).foldl (fun acc r => acc + (n - r)) 0 + (b - a)

def symIds (base n : Nat) : List Nat :=
  (List.range n).flatMap fun i => (List.range n).map fun j => base + symId n i j

/-- `Variable(shape, name, var_properties)`; zero-size shapes raise -/
def create (a : Alloc) (shape : List Nat) (name : Option String) (symmetric : Bool) : Option (Alloc × VarObj) :=
  let (nm, a1) := match name with
    | some s => (s, a)
    | none => ("unnamed_var_{" ++ toString a.unnamed ++ "}", { a with unnamed := a.unnamed + 1 })
  if size shape = 0 then none
  else if symmetric then
    match shape with
    | [n, n'] =>
      if n = n' then
        let cnt := n * (n + 1) / 2
        some ({ a1 with counter := a1.counter + cnt }, ⟨nm, shape, symIds a1.counter n, a1.gen, true⟩)
      else none
    | _ => none
  else
    let k := size shape
    some ({ a1 with counter := a1.counter + k }, ⟨nm, shape, (List.range k).map (· + a1.counter), a1.gen, true⟩)

/-- `clear_variable_indices()` -/
def clear (a : Alloc) : Alloc := { a with counter := 0, gen := a.gen + 1 }

/-- a slice / view: the listed flat positions of the parent; shares the parent's components, is improper -/
def slice (v : VarObj) (pos : List Nat) (shape : List Nat) : VarObj :=
  ⟨v.name, shape, pos.map fun p => v.ids.getD p 0, v.gen, false⟩

/-- `Variable.__setstate__`: the allocator of the loading session is not touched.  Identity across sessions
    rests on the generation counter starting at a random per-session offset (`Alloc.gen` of a fresh session is
    an input): a Variable loaded from another session never shares a generation with Variables created here. -/
def loadAdvance (a : Alloc) (_v : VarObj) : Alloc := a

/-! ### parent links of the scalar variables under unpickling -/

/-- after `pickle.loads`, `__setstate__` runs once per array object in some order; a proper Variable claims
    its components (`sv.parent = self`), an improper one leaves the links alone.  The result maps a scalar
    id to the index (in `objs`) of the object that is its parent. -/
def relink (objs : List VarObj) (order : List Nat) : List (Nat × Nat) :=
  order.foldl (fun links k =>
    match objs[k]? with
    | none => links
    | some o =>
      if o.proper then
        o.ids.foldl (fun l id => (id, k) :: l.filter (·.1 != id)) links
      else links) []

def parentOf (links : List (Nat × Nat)) (id : Nat) : Option Nat := (links.find? (·.1 == id)).map (·.2)

end Sageopt.Vars

namespace Sageopt.Vars

/-- operations of one interpreter session that touch the allocator -/
inductive HOp where
  | create (shape : List Nat) (name : Option String) (symmetric : Bool)
  | clear
  deriving Repr

/-- run a session history; returns the final allocator and the proper Variables created, in order -/
def runH (a : Alloc) : List HOp → Alloc × List VarObj
  | [] => (a, [])
  | .clear :: ops => runH (clear a) ops
  | .create shape name sym :: ops =>
    match create a shape name sym with
    | none => runH a ops                      -- the constructor raised: nothing allocated… (the name counter may move)
    | some (a', v) => let (af, vs) := runH a' ops; (af, v :: vs)

end Sageopt.Vars
