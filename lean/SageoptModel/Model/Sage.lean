/-
Model of `constraints/set_membership/sage_cones.py` and `operators/precompiled/{relent,affine}.py`:
`ExpCoverHelper` (sign classification U_I / N_I / P_I, default covers, sign presolve,
`_simplify_age_cone`, single-cover triviality; the optimisation-based presolve takes the solver's
yes/no answers as an input list), aligned AGE vectors, and the rows of `PrimalSageCone.conic_form`
(ordinary and conditional, kernel-basis witnesses, forced equality) and `DualSageCone.conic_form`
(compact / epigraph form, perspective of X).

Rows are `Compile.CRow`s: sparse (scalar-variable id, coefficient) entries exactly as the code's
triplets (including explicit zeros), constant, and the `eScale` flag for rows multiplied by
`y_scale = e` in `sum_relent`.  The scalar-variable ids of the auxiliary Variables the constraint
created are an INPUT (`PIds` / `DIds`): index allocation is modelled in C20.  Core Lean only.
-/
import SageoptModel.Model.Compile

namespace Sageopt.Sage
open Sageopt Sageopt.Compile

abbrev AffE := AffArg      -- an affine ScalarExpression: zero-free (id, coeff) list + offset

structure Settings where
  heuristicReduction : Bool := true
  presolveTrivial : Bool := false
  sumAgeForceEquality : Bool := false
  compactDual : Bool := true
  kernelBasis : Bool := false
  deriving Repr, BEq, DecidableEq

/-- the conic description of X: `A` (r × N), `b` (r), `K`; `N ≥ n` (lifted coordinates) -/
structure Dom where
  A : List (List Rat)
  b : List Rat
  K : List Cone
  N : Nat
  deriving Repr, BEq

/-! ### ExpCoverHelper -/

inductive CSign where
  | nonconst | neg | pos | zero
  deriving Repr, BEq, DecidableEq

def classify (c : AffE) : CSign :=
  if !c.co.isEmpty then .nonconst else if c.off < 0 then .neg else if 0 < c.off then .pos else .zero

structure Ech where
  U : List Nat
  N : List Nat
  P : List Nat
  covers : List (Nat × List Bool)     -- for i ∈ U, in the order of U
  deriving Repr, BEq

def dotQ (a b : List Rat) : Rat := (List.zipWith (· * ·) a b).foldl (· + ·) 0

def coverOf (e : Ech) (i : Nat) : List Bool := (e.covers.find? (·.1 == i)).map (·.2) |>.getD []

/-- indices j with cover[j] = true -/
def trueIdx (cov : List Bool) : List Nat := (cov.zipIdx.filter (·.1)).map (·.2)

def countTrueB (cov : List Bool) : Nat := (cov.filter id).length

/-- `_simplify_age_cone(zero_loc, cover, alpha[i])` -/
def simplifyCover (alpha : List (List Rat)) (zeroLoc i : Nat) (cov : List Bool) : List Bool :=
  cov.zipIdx.map fun (cj, j) =>
    if cj && j != zeroLoc && dotQ (alpha.getD i []) (alpha.getD j []) == 0 then false else cj

/-- consume one presolve answer -/
def presolveStep (cov : List Bool) (answers : List Bool) : List Bool × List Bool :=
  if cov.any id then
    match answers with
    | [] => (cov, [])                               -- no answer recorded: treated as "not trivial"
    | a :: rest => (if a then cov.map (fun _ => false) else cov, rest)
  else (cov, answers)

/-- `ExpCoverHelper.__init__` (default covers).  `signs = none`: no `c` given (dual cone without sign
    information).  `hasX`: a domain is present.  `answers`: outcomes of the optimisation-based presolve,
    in the order the code asks (only used when `presolve_trivial_age_cones`). -/
def defaultEch (alpha : List (List Rat)) (signs : Option (List CSign)) (hasX : Bool) (s : Settings)
    (answers : List Bool) : Ech :=
  let m := alpha.length
  let idx := List.range m
  let (U, N, P) : List Nat × List Nat × List Nat := match signs with
    | none => (idx, [], [])
    | some sg =>
      (idx.filter fun i => sg.getD i .zero == .nonconst || sg.getD i .zero == .neg,
       idx.filter fun i => sg.getD i .zero == .neg,
       idx.filter fun i => sg.getD i .zero == .pos)
  let cov0 : List (Nat × List Bool) := U.map fun i => (i, idx.map fun j => !(N.contains j) && j != i)
  let rowSums := alpha.map fun r => r.foldl (· + ·) 0
  let allNonneg := alpha.all fun r => r.all fun q => 0 ≤ q
  let minZero := (rowSums.foldl (fun acc q => if q < acc then q else acc) (rowSums.headD 0)) == 0
  let cov1 :=
    if (!hasX || s.heuristicReduction) && allNonneg && minZero && !rowSums.isEmpty then
      let zeroLoc := (rowSums.findIdx? (· == 0)).getD 0
      cov0.map fun (i, cov) => if i == zeroLoc then (i, cov) else (i, simplifyCover alpha zeroLoc i cov)
    else cov0
  let cov2 := if !hasX then cov1.map fun (i, cov) => if countTrueB cov == 1 then (i, cov.map fun _ => false) else (i, cov)
              else cov1
  let cov3 :=
    if s.presolveTrivial then
      (cov2.foldl (fun (acc : List (Nat × List Bool) × List Bool) p =>
        let (c', rest) := presolveStep p.2 acc.2
        (acc.1 ++ [(p.1, c')], rest)) ([], answers)).1
    else cov2
  { U := U, N := N, P := P, covers := cov3 }

/-- user-supplied covers (`_verify_covers`): the diagonal entry is corrected to False -/
def userEch (alpha : List (List Rat)) (signs : Option (List CSign)) (user : List (Nat × List Bool)) : Option Ech :=
  let base := defaultEch alpha signs false {} []
  if base.U.all (fun i => user.any (·.1 == i)) then
    some { base with covers := base.U.map fun i =>
      (i, ((user.find? (·.1 == i)).map (·.2)).getD [] |>.zipIdx.map fun (b, j) => if j == i then false else b) }
  else none

/-! ### primal cone -/

/-- scalar-variable ids of the Variables `PrimalSageCone.__init__` created for index `i ∈ U_I` -/
structure PIds where
  i : Nat
  nu : List Nat                 -- `nu^{(i)}` (or the `_pre_nu` Variable when `kernel_basis`)
  basis : List (List Rat)       -- kernel basis (num_cover × k) when `kernel_basis`, else []
  cvar : List Nat               -- `c^{(i)}`
  epi : List Nat                -- `_relent_epi_^{(i)}`
  eta : List Nat                -- `eta^{(i)}` (conditional only)
  deriving Repr, BEq

def varE (id : Nat) : AffE := ⟨[(id, 1)], 0⟩
def constE (q : Rat) : AffE := ⟨[], q⟩
def negE (x : AffE) : AffE := ⟨x.co.map fun p => (p.1, -p.2), -x.off⟩

/-- the aligned AGE vector `age_vectors[i]` (length m) -/
def ageVector (m : Nat) (c : List AffE) (e : Ech) (p : PIds) : List AffE :=
  let cov := trueIdx (coverOf e p.i)
  (List.range m).map fun j =>
    if j == p.i then
      if e.N.contains p.i then c.getD p.i (constE 0) else varE (p.cvar.getLastD 0)
    else match cov.idxOf? j with
      | some k => varE (p.cvar.getD k 0)
      | none => constE 0

/-- the expressions `nu^{(i)}_k` -/
def nuExprs (s : Settings) (p : PIds) : List AffE :=
  if s.kernelBasis && !p.basis.isEmpty then
    p.basis.map fun row => ⟨(row.zip p.nu).filterMap fun (q, id) => if q == 0 then none else some (id, q), 0⟩
  else p.nu.map varE

def eEntries (x : AffE) : List (Nat × Rat) := x.co

/-- `sum_relent(x, y, z, epi, y_scale = e)`: Σ x_k ln(x_k / (e y_k)) + z ≤ 0 -/
def sumRelent (x y : List AffE) (z : AffE) (epi : List Nat) : List CRow × List Cone :=
  let row0 : CRow := ⟨z.co.map (fun p => (p.1, -p.2)) ++ epi.map (fun id => (id, -1)), -z.off, false⟩
  let blocks := (List.range x.length).flatMap fun k =>
    let xk := x.getD k (constE 0)
    let yk := y.getD k (constE 0)
    [ (⟨[(epi.getD k 0, -1)], 0, false⟩ : CRow), ⟨yk.co, yk.off, true⟩, ⟨xk.co, xk.off, false⟩ ]
  (row0 :: blocks, ⟨.pos, 1⟩ :: List.replicate x.length ⟨.exp, 3⟩)

/-- `_matvec_by_var_indices(mat, ids)`: row r has an entry for EVERY column (zeros included) -/
def matvecRows (mat : List (List Rat)) (ids : List Nat) : List CRow :=
  mat.map fun row => ⟨(row.zip ids).map fun (q, id) => (id, q), 0, false⟩

def transposeQ (ncols : Nat) (A : List (List Rat)) : List (List Rat) :=
  (List.range ncols).map fun j => A.map fun r => r.getD j 0

def subRow (a b : List Rat) : List Rat := List.zipWith (· - ·) a b
def padTo (N : Nat) (r : List Rat) : List Rat := r ++ List.replicate (N - r.length) 0

/-- `0 <= age_vectors[i][i]` through `ElementwiseConstraint.conic_form` -/
def nonnegRow (x : AffE) (dummy : Nat) : CRow :=
  if x.co.isEmpty then ⟨[(dummy, 0)], x.off, false⟩ else ⟨x.co, x.off, false⟩

/-- indices some AGE vector can reach: `i ∈ U_I` itself and every member of a cover -/
def reachedB (e : Ech) (j : Nat) : Bool :=
  e.U.contains j || e.covers.any fun p => p.2.getD j false

/-- `_age_vectors_sum_to_c` via `columns_sum_leq_vec(mat_offsets=True)`: `Σ_i age_i ≤ c`; with `sum_age_force_equality` equality is demanded at the reached
    indices (listed first), the other rows stay inequalities -/
def sumToC (m : Nat) (c : List AffE) (ages : List (List AffE)) (forceEq : Bool) (dummy : Nat) (e : Ech) :
    List CRow × List Cone :=
  let row := fun (j : Nat) =>
    let svs := ages.flatMap fun a => (a.getD j (constE 0)).co.map (·.1)
    let offs := (ages.map fun a => (a.getD j (constE 0)).off).foldl (· + ·) 0
    let cj := c.getD j (constE 0)
    let ents := svs.map (fun id => (id, (-1 : Rat))) ++ cj.co
    (⟨if ents.isEmpty then [(dummy, 0)] else ents, cj.off - offs, false⟩ : CRow)
  if forceEq then
    let reached := (List.range m).filter (reachedB e)
    let rest := (List.range m).filter fun j => !reachedB e j
    ((reached ++ rest).map row, [⟨.zero, reached.length⟩] ++ if rest.isEmpty then [] else [⟨.pos, rest.length⟩])
  else ((List.range m).map row, [⟨.pos, m⟩])

structure PrimalIn where
  n : Nat
  alpha : List (List Rat)
  c : List AffE
  X : Option Dom
  settings : Settings
  ech : Ech
  ids : List PIds
  dummy : Nat
  deriving Repr, BEq

/-- `PrimalSageCone.conic_form()` -/
def primalRows (inp : PrimalIn) : M (List CRow × List Cone) := do
  let m := inp.alpha.length
  let withNu := inp.ids.filter fun p => !p.nu.isEmpty
  if withNu.isEmpty then
    -- `self.c >= 0`
    pure (inp.c.map (nonnegRow · inp.dummy), [⟨.pos, inp.c.length⟩])
  else
    let N := match inp.X with | some X => X.N | none => inp.n
    let lifted := inp.alpha.map (padTo N)
    let ages := inp.ids.map (ageVector m inp.c inp.ech)
    let perI ← inp.ids.mapM fun p => do
      let age := ageVector m inp.c inp.ech p
      let cov := trueIdx (coverOf inp.ech p.i)
      if p.nu.isEmpty then
        pure ([nonnegRow (age.getD p.i (constE 0)) inp.dummy], [(⟨.pos, 1⟩ : Cone)])
      else
        let x := nuExprs inp.settings p
        let y := cov.map fun j => age.getD j (constE 0)
        let selfE := age.getD p.i (constE 0)
        match inp.X with
        | none =>
          let (r1, k1) := sumRelent x y (negE selfE) p.epi
          if inp.settings.kernelBasis then pure (r1, k1)
          else
            let mat := transposeQ inp.n (cov.map fun j => subRow (inp.alpha.getD j []) (inp.alpha.getD p.i []))
            pure (r1 ++ matvecRows mat p.nu, k1 ++ [⟨.zero, inp.n⟩])
        | some X =>
          -- z = -age[i] + eta @ b   (zero coefficients dropped by the matmul)
          let etaB : List (Nat × Rat) := (p.eta.zip X.b).filterMap fun (id, q) => if q == 0 then none else some (id, q)
          let z : AffE := ⟨(negE selfE).co ++ etaB, (negE selfE).off⟩
          let (r1, k1) := sumRelent x y z p.epi
          let mat1 := transposeQ N (cov.map fun j => subRow (lifted.getD j []) (lifted.getD p.i []))
          let mat2 := (transposeQ N X.A).map fun r => r.map (- ·)
          let eqRows := (List.range N).map fun t =>
            (⟨((mat1.getD t []).zip p.nu).map (fun (q, id) => (id, q)) ++ ((mat2.getD t []).zip p.eta).map (fun (q, id) => (id, q)),
              0, false⟩ : CRow)
          let (r3, k3) ← conRows inp.dummy (.dual (p.eta.map fun id => ⟨[(.var id, 1)], 0⟩) X.K)
          pure (r1 ++ eqRows ++ r3, k1 ++ [⟨.zero, N⟩] ++ k3)
    let (rs, ks) := sumToC m inp.c ages inp.settings.sumAgeForceEquality inp.dummy inp.ech
    pure (perI.flatMap (·.1) ++ rs, perI.flatMap (·.2) ++ ks)

/-! ### dual cone -/

structure DIds where
  i : Nat
  mu : List Nat                 -- lifted `mu[i]` (length N)
  epi : List Nat                -- `_relent_epi_[i]` when not compact
  deriving Repr, BEq

structure DualIn where
  n : Nat
  alpha : List (List Rat)
  v : List AffE
  X : Option Dom
  settings : Settings
  ech : Ech
  ids : List DIds
  dummy : Nat
  deriving Repr, BEq

def insertNatS (a : Nat) : List Nat → List Nat
  | [] => [a]
  | b :: bs => if a < b then a :: b :: bs else if a = b then b :: bs else b :: insertNatS a bs

/-- `DualSageCone.conic_form()`; `none`-like failures of the code (`zip(*[])` on an empty dict in the
    compact form) are errors -/
def dualRows (inp : DualIn) : M (List CRow × List Cone) := do
  let m := inp.alpha.length
  if m ≤ 1 then
    pure (inp.v.map (nonnegRow · inp.dummy), [⟨.pos, inp.v.length⟩])
  else
    let nontriv := (inp.ech.U ++ inp.ech.P).foldl (fun acc i => insertNatS i acc) []
    let r0 := nontriv.map fun i => nonnegRow (inp.v.getD i (constE 0)) inp.dummy
    let perI ← inp.ids.mapM fun p => do
      let cov := trueIdx (coverOf inp.ech p.i)
      if cov.isEmpty then pure ([], [])
      else
        let vi := inp.v.getD p.i (constE 0)
        let mat := cov.map fun j => subRow (inp.alpha.getD p.i []) (inp.alpha.getD j [])
        let muN := p.mu.take inp.n
        let (r1, k1) ←
          if inp.settings.compactDual then do
            let blocks ← cov.zipIdx.mapM fun (j, k) => do
              let vj := inp.v.getD j (constE 0)
              let z : List (Nat × Rat) := ((mat.getD k []).zip muN).filterMap fun (q, id) => if q == 0 then none else some (id, q)
              if z.isEmpty || vi.co.isEmpty || vj.co.isEmpty then throw "ValueError: not enough values to unpack"
              else pure [ (⟨z.map fun p => (p.1, -p.2), 0, false⟩ : CRow), ⟨vj.co, vj.off, false⟩, ⟨vi.co, vi.off, false⟩ ]
            pure (blocks.flatten, List.replicate cov.length (⟨.exp, 3⟩ : Cone))
          else
            let blocks := cov.zipIdx.flatMap fun (j, k) =>
              let vj := inp.v.getD j (constE 0)
              [ (⟨[(p.epi.getD k 0, -1)], 0, false⟩ : CRow), ⟨vj.co, vj.off, false⟩, ⟨vi.co, vi.off, false⟩ ]
            let lin := cov.zipIdx.map fun (_, k) =>
              (⟨((mat.getD k []).zip muN).map (fun (q, id) => (id, q)) ++ [(p.epi.getD k 0, -1)], 0, false⟩ : CRow)
            pure (blocks ++ lin, List.replicate cov.length (⟨.exp, 3⟩ : Cone) ++ [⟨.pos, cov.length⟩])
        match inp.X with
        | none => pure (r1, k1)
        | some X =>
          -- A @ mu_i + v_i * b ∈ K
          let rows := (X.A.zip X.b).map fun (arow, br) =>
            (⟨(arow.zip p.mu).map (fun (q, id) => (id, q)) ++ vi.co.map (fun pc => (pc.1, br * pc.2)), vi.off * br, false⟩ : CRow)
          pure (r1 ++ rows, k1 ++ X.K)
    pure (r0 ++ perI.flatMap (·.1), [⟨.pos, nontriv.length⟩] ++ perI.flatMap (·.2))

end Sageopt.Sage
