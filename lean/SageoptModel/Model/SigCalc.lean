/-
Model of the calculus / conversion methods of `Signomial` and `Polynomial`:
`_partial`, `grad`, `hess`, the `grad_val` / `hess_val` formulas, `shift_coordinates`,
`as_polynomial` / `as_signomial`, `Polynomial.__call__` (numeric points, matrices of points,
polynomial-valued arguments).  Core Lean only.
-/
import SageoptModel.Model.Sig

namespace Sageopt.Sig

/-- `Signomial._partial(i)` (numeric coefficients): terms `c_j·α_ji` with zero products left out;
    the zero signomial if nothing is left -/
def partialSig (f : SigT Rat) (i : Nat) : SigT Rat :=
  let ts := f.terms.filterMap fun t =>
    let c := t.2 * t.1.getD i 0
    if c == 0 then none else some (t.1, c)
  if ts.isEmpty then mk f.n [(zeroExp f.n, 0)] else mk f.n ts

def decExp (a : Exp) (i : Nat) : Exp := a.set i (a.getD i 0 - 1)

/-- merge `(k, v)` into an insertion-ordered dict (`d[k] = v` / `d[k] += v`) -/
def dictAdd (d : List (Exp × Rat)) (k : Exp) (v : Rat) : List (Exp × Rat) :=
  if d.any (·.1 == k) then d.map fun p => if p.1 == k then (p.1, p.2 + v) else p else d ++ [(k, v)]

/-- `Polynomial._partial(i)`: only rows with `α_ji > 0` contribute; coefficients are NOT filtered -/
def partialPoly (f : SigT Rat) (i : Nat) : SigT Rat :=
  let d := f.terms.foldl (fun d t =>
    if t.1.getD i 0 > 0 then dictAdd d (decExp t.1 i) (t.2 * t.1.getD i 0) else d) []
  if d.isEmpty then mk f.n [(zeroExp f.n, 0)] else mk f.n d

def partialOf (poly : Bool) (f : SigT Rat) (i : Nat) : SigT Rat :=
  if poly then partialPoly f i else partialSig f i

def grad (poly : Bool) (f : SigT Rat) : List (SigT Rat) := (List.range f.n).map (partialOf poly f)

/-- `hess[i][j]`: computed for `j ≤ i` as `∂_j ∂_i f` and mirrored -/
def hess (poly : Bool) (f : SigT Rat) : List (List (SigT Rat)) :=
  (List.range f.n).map fun i => (List.range f.n).map fun j =>
    if j ≤ i then partialOf poly (partialOf poly f i) j else partialOf poly (partialOf poly f j) i

/-- evaluation against a table of basis-function values: `Σ_j c_j · χ(α_j)` -/
def evalWith (χ : Exp → Rat) (f : SigT Rat) : Rat := (f.terms.map fun t => t.2 * χ t.1).foldl (· + ·) 0

/-- `Signomial.grad_val`: `αᵀ (c ⊙ e^{αx})`, with `χ α_j` standing for `e^{α_j·x}` -/
def gradValSig (χ : Exp → Rat) (f : SigT Rat) : List Rat :=
  (List.range f.n).map fun i => (f.terms.map fun t => t.1.getD i 0 * (t.2 * χ t.1)).foldl (· + ·) 0

/-- `Signomial.hess_val`: `αᵀ diag(c ⊙ e^{αx}) α` -/
def hessValSig (χ : Exp → Rat) (f : SigT Rat) : List (List Rat) :=
  (List.range f.n).map fun i => (List.range f.n).map fun k =>
    (f.terms.map fun t => t.1.getD i 0 * (t.1.getD k 0 * (t.2 * χ t.1))).foldl (· + ·) 0

/-- `shift_coordinates(x0)`: every coefficient is multiplied by `w α_j` (`= e^{α_j·x0}`) -/
def shiftBy (w : Exp → Rat) (f : SigT Rat) : SigT Rat := mk f.n (f.terms.map fun t => (t.1, t.2 * w t.1))

/-! ### concrete characters used by the driver (exact at rational data) -/

/-- integer power of a rational -/
def qpow (b : Rat) (e : Int) : Rat := if e ≥ 0 then b ^ e.toNat else 1 / b ^ (-e).toNat

/-- the polynomial character at a rational point: `∏ x_i ^ a_i` (exponents nonnegative integers) -/
def monoAt (x : List Rat) (a : Exp) : Rat :=
  (List.zipWith (fun xi ai => xi ^ ai.num.toNat) x a).foldl (· * ·) 1

/-- the signomial character at the point `x = ln 4 · k`, `k` an integer vector:
    `e^{a·x} = 4^{a·k} = 2^{2 a·k}`, an exact rational when `2 a·k` is an integer -/
def dot (a : Exp) (k : List Int) : Rat :=
  (List.zipWith (fun (ai : Rat) (ki : Int) => ai * (ki : Rat)) a k).foldl (· + ·) 0

def expAt4 (k : List Int) (a : Exp) : Rat := qpow 2 ((2 * dot a k).num)

/-! ### composition `p(z)` for a vector `z` of polynomials (`Polynomial.__call__`) -/

/-- `np.prod(np.power(z, α_j))`: left-to-right product of the integer powers -/
def monoOfPolys (zs : List (SigT Rat)) (a : Exp) : Option (SigT Rat) :=
  match List.zipWith (fun z ai => powNat isZeroQ z ai.num.toNat) zs a with
  | [] => none
  | p :: ps => some (ps.foldl (fun acc q => withoutZeros isZeroQ (product acc q)) p)

/-- `p(z)`: `Signomial.sum([c_j · ∏ z_i^{α_ji}])` (no `without_zeros` after the final sum) -/
def compose (p : SigT Rat) (zs : List (SigT Rat)) : Option (SigT Rat) :=
  match zs with
  | [] => none
  | z0 :: _ =>
    (p.terms.mapM fun t => (monoOfPolys zs t.1).map fun m => smul isZeroQ m t.2).map fun summands =>
      sumList z0.n summands

end Sageopt.Sig
