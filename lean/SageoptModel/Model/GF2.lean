/-
Model of the GF(2) linear algebra and sign-pattern code in
`sageopt/relaxations/poly_solution_recovery.py`
(`mod2rref`, `mod2nullspace_basis`, `mod2nullspace`, `mod2linsolve`,
`linear_system_negatives`, `variable_sign_patterns`).

Core Lean only (no Mathlib): executable under `lean --run` and the object of the theorems in
`Props/C18.lean`.  A matrix is a list of rows, a row a list of bits.  The functions make the
same pivot / swap / update choices as the in-place numpy loops (first row at or below `h` with a
1 in column `k`; swap with row `h`; xor into the rows below; back substitution touching only
columns `pc:`), so the correspondence check can compare the returned matrices entry by entry.
-/
namespace Sageopt.GF2

abbrev Row := List Bool
abbrev Mat := List Row

def dotB : Row → Row → Bool
  | a :: as, x :: xs => xor (a && x) (dotB as xs)
  | _, _ => false

def addRow : Row → Row → Row
  | a :: as, b :: bs => xor a b :: addRow as bs
  | as, [] => as
  | [], bs => bs

def entry (r : Row) (k : Nat) : Bool := r.getD k false

/-- xor the pivot row `p` into every row that has a 1 in column `k` -/
def elim (k : Nat) (p : Row) (rows : List Row) : List Row :=
  rows.map fun r => if entry r k then addRow r p else r

/-- first row with a 1 in column `k` among the rows below `r0` (= old row `h`); the remaining rows
    with `r0` swapped into the pivot row's place (`np.argmax` returns the first maximiser) -/
def pickPivot (k : Nat) (r0 : Row) : List Row → Option (Row × List Row)
  | [] => none
  | r :: rs =>
    if entry r k then some (r, r0 :: rs)
    else (pickPivot k r0 rs).map fun q => (q.1, r :: q.2)

/-- forward elimination of `mod2rref`: `rem` = rows h.., `done` = rows 0..h-1 reversed,
    `piv` = pivot columns reversed, `k` = current column, `fuel` = number of columns still to
    visit (`n - k`; the `while h < m and k < n` loop, structurally recursive) -/
def fwd : (fuel : Nat) → (k : Nat) → (rem done : List Row) → (piv : List Nat) → List Row × List Nat
  | 0, _, rem, done, piv => (done.reverse ++ rem, piv.reverse)
  | _ + 1, _, [], done, piv => (done.reverse, piv.reverse)
  | fuel + 1, k, r0 :: rest, done, piv =>
    if entry r0 k then
      fwd fuel (k+1) (elim k r0 rest) (r0 :: done) (k :: piv)
    else
      match pickPivot k r0 rest with
      | none => fwd fuel (k+1) (r0 :: rest) done piv
      | some (p, rest') => fwd fuel (k+1) (elim k p rest') (p :: done) (k :: piv)

/-- `A[row, pc:] = (A[row, pc:] - A[pr, pc:]) mod 2` -/
def addRowFrom (pc : Nat) (r p : Row) : Row :=
  r.take pc ++ addRow (r.drop pc) (p.drop pc)

/-- one outer iteration of the back substitution: pivot row index `pr`, pivot column `pc` -/
def backStep (rows : List Row) (pr pc : Nat) : List Row :=
  let p := rows.getD pr []
  rows.zipIdx.map fun (r, i) => if i < pr && entry r pc then addRowFrom pc r p else r

def backSub (rows : List Row) (piv : List Nat) : List Row :=
  piv.zipIdx.foldl (fun acc (pc, pr) => backStep acc pr pc) rows

/-- `mod2rref(A, forward_only)`; `n` is `A.shape[1]` -/
def rref (n : Nat) (A : Mat) (forwardOnly : Bool) : Mat × List Nat :=
  let (rows, piv) := fwd n 0 A [] []
  if forwardOnly then (rows, piv) else (backSub rows piv, piv)

/-- back substitution of `mod2linsolve`: processes pivots from the last to the first;
    `x` is the current (partial) solution, a length-`n` vector -/
def setBit (x : Row) (k : Nat) (b : Bool) : Row := x.set k b

def backSolve (n : Nat) : List (Row × Nat) → Row → Row
  | [], x => x
  | (r, pc) :: rest, x =>
    -- x[pc] = (b1[row] - dot(A1[row, pc+1:], x[pc+1:])) % 2
    let v := xor (entry r n) (dotB ((r.take n).drop (pc+1)) (x.drop (pc+1)))
    backSolve n rest (setBit x pc v)

/-- `mod2linsolve(A, b)`; `n = A.shape[1]`; rows of `A` and entries of `b` are zipped into the
    augmented matrix (np.column_stack) -/
def linsolve (n : Nat) (A : Mat) (b : Row) : Option Row :=
  let A0 : Mat := (A.zip b).map fun (r, bi) => r ++ [bi]
  let (A1, piv) := fwd (n+1) 0 A0 [] []
  if piv.getLast? = some n then none
  else
    let rowsPiv := ((A1.take n).zip piv).reverse   -- (row, pivot column), last pivot first
    some (backSolve n rowsPiv (List.replicate n false))

/-- `mod2nullspace_basis(arref, p)` with the free columns in increasing order (the code iterates
    over a Python `set`, whose order is unspecified; callers only use the span) -/
def nullspaceBasis (n : Nat) (arref : Mat) (p : List Nat) : List Row :=
  let free := (List.range n).filter fun j => !(p.contains j)
  free.map fun f =>
    (List.range n).map fun j =>
      if j = f then true
      else match p.idxOf? j with
        | some i => entry (arref.getD i []) f
        | none => false

/-- all sums of subsets of `vs` (the power-set enumeration of `mod2nullspace`), starting from
    the zero vector of length `n` -/
def subsetSums (n : Nat) : List Row → List Row
  | [] => [List.replicate n false]
  | v :: vs => let s := subsetSums n vs; s ++ s.map (fun w => addRow w v)

def nullspace (n : Nat) (arref : Mat) (p : List Nat) : List Row :=
  subsetSums n (nullspaceBasis n arref p)

/-! ### sign patterns -/

/-- output of `linear_system_negatives` -/
inductive LSN where
  | trivial                                         -- (zeros, None, None, None)
  | infeasible (alpha1 : Mat) (U W : List Nat)      -- (None, alpha, U, W)
  | solved (x : Row) (alpha1 : Mat) (U W : List Nat)
  deriving Repr, BEq

def scatter (n : Nat) (W : List Nat) (xw : Row) : Row :=
  (List.range n).map fun j =>
    match W.idxOf? j with
    | some i => entry xw i
    | none => false

/-- `alphaOdd[i][j]` = (alpha[i,j] mod 2 = 1); `nz[i]` = (moments[i] ≠ 0); `neg[i]` = (moments[i] < 0) -/
def linearSystemNegatives (n : Nat) (alphaOdd : Mat) (nz neg : Row) : LSN :=
  let m := alphaOdd.length
  let U := (List.range m).filter fun i => entry nz i && (alphaOdd.getD i []).any id
  if U.isEmpty then .trivial else
  let W := (List.range n).filter fun j => U.any fun i => entry (alphaOdd.getD i []) j
  if W.isEmpty then .trivial else
  let alpha1 : Mat := U.map fun i => W.map fun j => entry (alphaOdd.getD i []) j
  let b : Row := U.map fun i => entry neg i
  match linsolve W.length alpha1 b with
  | none => .infeasible alpha1 U W
  | some xw => .solved (scatter n W xw) alpha1 U W

/-- `variable_sign_patterns(alpha, moments, hueristic=False, all_signs)`; a sign vector is returned
    as its negativity indicator (`true` ↔ y_j = -1).  `none` stands for the greedy heuristic
    (only reached with `hueristic=True`, excluded by the property). -/
def variableSignPatterns (n : Nat) (alphaOdd : Mat) (nz neg : Row) (allSigns : Bool) : List Row :=
  match linearSystemNegatives n alphaOdd nz neg with
  | .trivial => [List.replicate n false]
  | .infeasible _ _ _ => []
  | .solved x0 alpha1 _ W =>
    let N0 : List Row :=
      if allSigns then
        let (arref, p) := rref W.length alpha1 false
        nullspace W.length arref p
      else [List.replicate W.length false]
    N0.map fun vec0 => addRow (scatter n W vec0) x0

end Sageopt.GF2
