/-
Model of compilation as a STATE TRANSFORMER on constraint objects (C11): `epigraph_substitution`
rewrites the elementwise constraints' expressions in place; each constraint object remembers the
nonlinear atoms that were replaced by their epigraph variables (`_epigraph_atoms`), and later
compilations keep emitting those atoms' epigraph cones.  Core Lean only.
-/
import SageoptModel.Model.Compile

namespace Sageopt.Compile

/-- a constraint object: its current `Con` state plus the atoms substituted by earlier compilations -/
structure ECon where
  con : Con
  mem : List NlAtom
  deriving Repr, BEq

def addAtom (acc : List NlAtom) (a : NlAtom) : List NlAtom := if acc.any (·.same a) then acc else acc ++ [a]

/-- dict of atoms in first-seen order: per constraint, first its remembered atoms, then the atoms still
    present in its rows -/
def collectAtomsMem (cons : List ECon) : List NlAtom :=
  cons.foldl (fun acc e =>
    let acc := e.mem.foldl addAtom acc
    (elemRowsOf e.con).foldl (fun acc r => (rowAtoms r).foldl addAtom acc) acc) []

/-- atoms of the dict that occur in the rows of `c` (these are the ones recorded on `c`) -/
def atomsIn (atoms : List NlAtom) (c : Con) : List NlAtom :=
  atoms.filter fun a => (elemRowsOf c).any fun r => (rowAtoms r).any (·.same a)

/-- `find_variables_from_constraints` lists each constraint's variables, which runs `remove_zeros()` on
    its expressions (a no-op on expressions built by the arithmetic operators, which never keep a zero) -/
def dropZeros : Con → Con
  | .elem isEq rows => .elem isEq (rows.map fun r => { r with terms := r.terms.filter fun t => t.2 != 0 })
  | c => c

/-- one `compile_constrained_system` call on a list of constraint objects: output blocks and the new
    state of the objects -/
def compileStep (cons : List ECon) (dummy : Nat) : M (List CRow × List Cone × List ECon) := do
  let elems := cons.filter fun e => isElem e.con
  let setm := cons.filter fun e => !isElem e.con
  let atoms := collectAtomsMem elems
  let elems' := elems.map fun e => (substCon atoms e.con)
  let e1 ← elems'.mapM (conRows dummy)
  let e2 ← atoms.mapM fun a => do let (r, k) ← epiRows a dummy; pure (r, [k])
  let e3 ← setm.mapM fun e => conRows dummy e.con
  let all := e1 ++ e2 ++ e3
  if (all.flatMap (·.1)).isEmpty then throw "ValueError: zero-size array to reduction operation maximum"
  else
    let cons' := cons.map fun e =>
      if isElem e.con then
        { con := dropZeros (substCon atoms e.con), mem := (atomsIn atoms e.con).foldl addAtom e.mem }
      else e
    pure (all.flatMap (·.1), all.flatMap (·.2), cons')

end Sageopt.Compile
