/-
Model of compilation as a STATE TRANSFORMER on constraint objects (C11), and of finite histories of
compilations interleaved with the creation of unrelated Variables.

`epigraph_substitution` works on a copy (`linearized_expr`) of every elementwise constraint's
expression, so the state that later compilations read — the constraint's `expr` — is not changed by
compiling.  (Before the repair of finding F2 the substitution was done in place and a second
compilation lost the epigraph cones; the correspondence check compares the objects' serialised state
after every compilation with `compileStep`'s post-state, so a return of that behaviour is caught.)
Core Lean only.
-/
import SageoptModel.Model.Compile

namespace Sageopt.Compile

/-- one `compile_constrained_system` call on a list of constraint objects: output blocks and the
    state of the objects afterwards -/
def compileStep (cons : List Con) (dummy : Nat) : M (List CRow × List Cone × List Con) := do
  let (rows, K) ← compileBlocks cons dummy
  pure (rows, K, cons)

/-- operations of a history over a fixed pool of constraint objects -/
inductive Op where
  | compile (idxs : List Nat)        -- compile the sub-list of objects with these indices, in this order
  | unrelated (k : Nat)              -- create an unrelated Variable with k components
  deriving Repr

structure World where
  cons : List Con                    -- the constraint objects (their current state)
  counter : Nat                      -- ScalarVariable counter (`curr_variable_count()`)
  deriving Repr

def pick (cons : List Con) (idxs : List Nat) : List Con := idxs.filterMap fun i => cons[i]?

/-- write the post-state of the compiled objects back into the pool -/
def writeBack (cons : List Con) (idxs : List Nat) (post : List Con) : List Con :=
  (idxs.zip post).foldl (fun acc p => acc.set p.1 p.2) cons

def step (w : World) : Op → World × Option (M (List CRow × List Cone))
  | .unrelated k => ({ w with counter := w.counter + k }, none)
  | .compile idxs =>
    match compileStep (pick w.cons idxs) (w.counter - 1) with
    | .ok (rows, K, post) => ({ w with cons := writeBack w.cons idxs post }, some (.ok (rows, K)))
    | .error m => (w, some (.error m))

def run (w : World) : List Op → World × List (Option (M (List CRow × List Cone)))
  | [] => (w, [])
  | op :: ops =>
    let (w', out) := step w op
    let (w'', outs) := run w' ops
    (w'', out :: outs)

end Sageopt.Compile
