/-
Model of the solver standard forms:
  * `ECOS.apply`                       (problems/solvers/ecos.py)
  * `separate_cone_constraints`, `dualize_problem`   (reformulators.py)
  * `Mosek._primal_apply`, `Mosek._dual_apply` and the MOSEK task built by
    `_primal_solve_via_data` / `_dual_solve_via_data`   (problems/solvers/mosek.py)

Generic in the scalar type `R` (only `Neg`/`Zero`/`One` are used): the same definitions are *run*
at `Rat` by the driver and *reasoned about* over any commutative ring / ordered field in
`Props/C10.lean`.  Matrices are dense lists of rows.  Core Lean only.
-/
import SageoptModel.Model.Cones

namespace Sageopt.Solvers
open Sageopt

abbrev Vec (R : Type) := List R
abbrev Mat (R : Type) := List (List R)

variable {R : Type}

def negVec [Neg R] (v : Vec R) : Vec R := v.map (- ·)
def negMat [Neg R] (A : Mat R) : Mat R := A.map negVec

/-! ### ECOS -/

structure EcosData (R : Type) where
  c : Vec R
  G : Mat R
  h : Vec R
  l : Nat
  q : List Nat
  e : Nat
  A : Mat R
  b : Vec R
  deriving Repr, BEq

def ecosAllowed (t : CType) : Bool := t == .exp || t == .soc || t == .pos || t == .zero

/-- `ECOS.apply(c, A, b, K, params)`; `none` = RuntimeError (unsupported cone) -/
def ecosApply [Neg R] (c : Vec R) (A : Mat R) (b : Vec R) (K : List Cone) : Option (EcosData R) :=
  if K.all (fun co => ecosAllowed co.type) then
    let s0 := selector K .zero
    let sp := selector K .pos
    let sS := selector K .soc
    let se := selector K .exp
    some {
      c := c
      A := selectBy s0 A
      b := negVec (selectBy s0 b)
      G := negMat (selectBy sp A) ++ negMat (selectBy sS A) ++ negMat (selectBy se A)
      h := selectBy sp b ++ selectBy sS b ++ selectBy se b
      l := countTrue sp
      e := countTrue se / 3
      q := (K.filter (·.type == .soc)).map (·.len) }
  else none

/-! ### separate_cone_constraints -/

structure SlackCone where
  type : CType
  len : Nat
  cols : List Nat      -- annotations['col mapping']
  deriving Repr, BEq, DecidableEq

structure Separated (R : Type) where
  A : Mat R
  b : Vec R
  K : List Cone
  slacks : List SlackCone
  deriving Repr, BEq

/-- for every row of the system: `some j` if the row belongs to a separated cone and gets the new
    column `j` (0-based among the new columns), `none` otherwise; plus the rewritten cone list and
    the slack cones.  `n` = number of original columns, `next` = running new-variable index. -/
def sepPlan (allowed : CType → Bool) (n : Nat) : List Cone → Nat →
    List (Option Nat) × List Cone × List SlackCone
  | [], _ => ([], [], [])
  | co :: K, next =>
    if allowed co.type then
      let (rows, K', sl) := sepPlan allowed n K next
      (List.replicate co.len none ++ rows, co :: K', sl)
    else
      let newCols := (List.range co.len).map (· + next)
      let (rows, K', sl) := sepPlan allowed n K (next + co.len)
      (newCols.map some ++ rows, ⟨.zero, co.len⟩ :: K',
        ⟨co.type, co.len, newCols.map (· + n)⟩ :: sl)

/-- the row `[0, …, -1 at j, …, 0]` of width `w` (`none`: all zero) -/
def slackRow [Neg R] [Zero R] [One R] (w : Nat) (j : Option Nat) : List R :=
  (List.range w).map fun k => if j = some k then (-1 : R) else 0

/-- `separate_cone_constraints(A, b, K, dont_sep)`; `n = A.shape[1]`.  The zero cone is always
    allowed.  When nothing is separated `A` is returned unchanged (no extra columns). -/
def separate [Neg R] [Zero R] [One R] (n : Nat) (A : Mat R) (b : Vec R) (K : List Cone)
    (dontSep : CType → Bool) : Separated R :=
  let allowed := fun t => t == .zero || dontSep t
  let (rows, K', sl) := sepPlan allowed n K 0
  let w := (sl.map (·.len)).sum
  let A' := if w = 0 then A else (A.zip rows).map fun (r, j) => r ++ slackRow w j
  { A := A', b := b, K := K', slacks := sl }

/-! ### dualize_problem -/

def dualCone (co : Cone) : Cone :=
  match co.type with
  | .exp => ⟨.dexp, 3⟩
  | .zero => ⟨.free, co.len⟩
  | _ => co

def transpose (ncols : Nat) (A : Mat R) [Zero R] : Mat R :=
  (List.range ncols).map fun j => A.map fun r => r.getD j 0

structure Dualized (R : Type) where
  f : Vec R
  G : Mat R
  h : Vec R
  Kd : List Cone
  deriving Repr, BEq

/-- `dualize_problem(c, A, b, Kp)`: max{ f·y : G y = h, y ∈ Kd }; `n = A.shape[1]` -/
def dualize [Neg R] [Zero R] (n : Nat) (c : Vec R) (A : Mat R) (b : Vec R) (Kp : List Cone) : Dualized R :=
  { f := negVec b, G := transpose n A, h := c, Kd := Kp.map dualCone }

/-! ### MOSEK, primal form -/

structure MosekPrimalData (R : Type) where
  A : Mat R
  b : Vec R
  nIneq : Nat           -- K = [Cone('+', nIneq), Cone('0', nEq)]
  nEq : Nat
  sepK : List SlackCone
  c : Vec R
  n : Nat               -- inv_data['n']
  deriving Repr, BEq

def mosekPrimalApply [Neg R] [Zero R] [One R] (n : Nat) (c : Vec R) (A : Mat R) (b : Vec R)
    (K : List Cone) : MosekPrimalData R :=
  let s := separate n A b K (fun t => t == .zero || t == .pos)
  let w := (s.slacks.map (·.len)).sum
  let c' := c ++ List.replicate w 0
  let sp := selector s.K .pos
  let s0 := selector s.K .zero
  let Aineq := selectBy sp s.A
  let Az := selectBy s0 s.A
  { A := negMat (Aineq ++ Az)
    b := selectBy sp s.b ++ selectBy s0 s.b
    nIneq := Aineq.length, nEq := Az.length, sepK := s.slacks, c := c', n := n }

/-- bound keys of the MOSEK API as far as the interface uses them -/
inductive BoundKey where | fr | up | fx | lo
  deriving Repr, BEq, DecidableEq

inductive MosekConeKind where | quad | pexp | dexp
  deriving Repr, BEq, DecidableEq

/-- what `_primal_solve_via_data` / `_dual_solve_via_data` tell MOSEK -/
structure MosekTask (R : Type) where
  nvars : Nat
  varBounds : List BoundKey               -- one per variable (lower/upper value is 0 where used)
  cones : List (MosekConeKind × List Nat) -- member variable indices, in MOSEK's order
  ncons : Nat
  aij : Mat R                             -- dense ncons × nvars
  conBounds : List (BoundKey × R)
  obj : Vec R
  maximize : Bool
  deriving Repr, BEq

/-- `None` = RuntimeError('Unknown separated cone') -/
def mosekPrimalTask (d : MosekPrimalData R) : Option (MosekTask R) :=
  let nv := d.c.length     -- = A.shape[1] after padding `c`
  let cones? := d.sepK.mapM fun co =>
    match co.type with
    | .soc => some (MosekConeKind.quad, co.cols)
    | .exp => some (MosekConeKind.pexp, [co.cols.getD 1 0, co.cols.getD 2 0, co.cols.getD 0 0])
    | _ => none
  cones?.map fun cones =>
    { nvars := nv
      varBounds := List.replicate nv .fr
      cones := cones
      ncons := d.A.length
      aij := d.A
      conBounds := (List.replicate d.nIneq BoundKey.up ++ List.replicate d.nEq BoundKey.fx).zip d.b
      obj := d.c
      maximize := false }

/-! ### MOSEK, dual form -/

structure MosekDualData (R : Type) where
  f : Vec R
  G : Mat R
  h : Vec R
  nPos : Nat
  socDims : List Nat
  nDexp : Nat
  nFree : Nat
  deriving Repr, BEq

def selectCols (mask : List Bool) (A : Mat R) : Mat R := A.map (selectBy mask)

def hcat (Ms : List (Mat R)) (nrows : Nat) : Mat R :=
  (List.range nrows).map fun i => Ms.flatMap fun M => M.getD i []

def mosekDualApply [Neg R] [Zero R] (n : Nat) (c : Vec R) (A : Mat R) (b : Vec R) (K : List Cone) :
    MosekDualData R :=
  let d := dualize n c A b K
  let sp := selector d.Kd .pos
  let sf := selector d.Kd .free
  let sd := selector d.Kd .dexp
  let sS := selector d.Kd .soc
  { f := selectBy sp d.f ++ selectBy sS d.f ++ selectBy sd d.f ++ selectBy sf d.f
    G := hcat [selectCols sp d.G, selectCols sS d.G, selectCols sd d.G, selectCols sf d.G] n
    h := d.h
    nPos := countTrue sp
    socDims := (d.Kd.filter (·.type == .soc)).map (·.len)
    nDexp := (d.Kd.filter (·.type == .dexp)).length
    nFree := countTrue sf }

def mosekDualTask (d : MosekDualData R) : MosekTask R :=
  let m := d.f.length
  let socStart := d.nPos
  let socCones : List (MosekConeKind × List Nat) :=
    (d.socDims.foldl (fun (acc : List (MosekConeKind × List Nat) × Nat) len =>
      (acc.1 ++ [(MosekConeKind.quad, (List.range len).map (· + acc.2))], acc.2 + len)) ([], socStart)).1
  let expStart := socStart + d.socDims.sum
  let expCones : List (MosekConeKind × List Nat) :=
    (List.range d.nDexp).map fun i =>
      let idx := expStart + 3 * i
      (MosekConeKind.dexp, [idx + 1, idx + 2, idx])
  { nvars := m
    varBounds := List.replicate d.nPos .lo ++ List.replicate (m - d.nPos) .fr
    cones := socCones ++ expCones
    ncons := d.G.length
    aij := d.G
    conBounds := d.h.map fun v => (BoundKey.fx, v)
    obj := d.f
    maximize := true }

end Sageopt.Solvers
