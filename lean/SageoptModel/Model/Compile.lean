/-
Model of the coniclifts compiler: `compilers.py` (`epigraph_substitution`, `conify_constraints`,
`compile_constrained_system`, `make_variable_map`, `compile_objective`), the elementwise constraint
(`constraints/elementwise.py`), the nonlinear atoms' `epigraph_conic_form`
(`operators/{abs,pos,exp,relent,norms}.py`) and the set-membership constraints
(`product_cone.py`, `pow_cone.py`, `psd_cone.py`).

The input is the *state of the constraint objects* (each ScalarExpression as its insertion-ordered
atom→coefficient dict and offset); the output is the list of compiled rows, each row a sparse list of
(scalar-variable id, coefficient) triplet entries exactly as the code emits them (including the
zero-valued entries on the dummy column), the cone list, and the assembled `(A, b)` over the sorted
distinct column ids.  A row may carry the flag `eScale`: the whole row is multiplied by Euler's
number (the `np.exp(1) * y` of `DualProductCone`); `e` itself never appears in executable code.
Core Lean only.
-/
import SageoptModel.Model.Cones

namespace Sageopt.Compile
open Sageopt

/-- a parsed affine argument of a nonlinear atom (`NonlinearScalarAtom.parse_arg`):
    (variable id, coefficient) pairs sorted by id, zero-free, and the offset -/
structure AffArg where
  co : List (Nat × Rat)
  off : Rat
  deriving Repr, BEq, DecidableEq

inductive AtomKind where
  | abs | pos | exp | relent | norm2
  deriving Repr, BEq, DecidableEq

/-- a nonlinear scalar atom; identity (`__eq__`/`__hash__`) is (kind, args); `epi` is the id of the
    epigraph ScalarVariable created with the atom object -/
structure NlAtom where
  kind : AtomKind
  args : List AffArg
  epi : Nat
  deriving Repr, BEq, DecidableEq

def NlAtom.same (a b : NlAtom) : Bool := a.kind == b.kind && a.args == b.args

inductive AtomRef where
  | var (id : Nat)
  | nl (a : NlAtom)
  deriving Repr, BEq, DecidableEq

/-- a ScalarExpression: insertion-ordered atom → coefficient dict, and offset -/
structure SRow where
  terms : List (AtomRef × Rat)
  off : Rat
  deriving Repr, BEq, DecidableEq

/-- a compiled row: sparse triplet entries (column id, value) as emitted, constant, e-scaling flag -/
structure CRow where
  entries : List (Nat × Rat)
  const : Rat
  eScale : Bool := false
  deriving Repr, BEq, DecidableEq

inductive Con where
  | elem (isEq : Bool) (rows : List SRow)                 -- `expr == 0` / `expr <= 0` (already normalised)
  | primal (y : List SRow) (K : List Cone)                -- PrimalProductCone
  | dual (y : List SRow) (K : List Cone)                  -- DualProductCone
  | pow (wLow zLow : List SRow)                           -- PowCone
  | psd (arg : List (List SRow))                          -- PSD (LMI), square matrix of expressions
  deriving Repr, BEq

abbrev M := Except String

/-! ### epigraph substitution -/

def rowAtoms (r : SRow) : List NlAtom :=
  r.terms.filterMap fun t => match t.1 with | .nl a => some a | .var _ => none

/-- distinct nonlinear atoms in first-seen order (dict keyed by atom equality; the key object kept is
    the first one seen, so its epigraph variable is the one used) -/
def collectAtoms (rows : List SRow) : List NlAtom :=
  rows.foldl (fun acc r => (rowAtoms r).foldl (fun acc a => if acc.any (·.same a) then acc else acc ++ [a]) acc) []

def elemRowsOf : Con → List SRow
  | .elem _ rows => rows
  | _ => []

/-- replace one atom (by identity) by its epigraph variable in a row: `c = d[nl]; del d[nl]; d[x] = c` -/
def substRow (a : NlAtom) (r : SRow) : SRow :=
  match r.terms.find? (fun t => match t.1 with | .nl b => b.same a | .var _ => false) with
  | none => r
  | some t =>
    let rest := r.terms.filter fun u => !(match u.1 with | .nl b => b.same a | .var _ => false)
    -- `d[x] = c`: overwrite if the key exists, else append
    if rest.any (fun u => u.1 == .var a.epi) then
      { r with terms := rest.map fun u => if u.1 == .var a.epi then (u.1, t.2) else u }
    else { r with terms := rest ++ [(.var a.epi, t.2)] }

def substCon (atoms : List NlAtom) : Con → Con
  | .elem isEq rows => .elem isEq (rows.map fun r => atoms.foldl (fun r a => substRow a r) r)
  | c => c

/-! ### per-atom epigraph rows (`epigraph_conic_form`) -/

def argEntries (x : AffArg) (dummy : Nat) (sign : Rat := 1) : List (Nat × Rat) :=
  if x.co.isEmpty then [(dummy, 0)] else x.co.map fun p => (p.1, sign * p.2)

def epiRows (a : NlAtom) (dummy : Nat) : M (List CRow × Cone) :=
  match a.kind, a.args with
  | .abs, [x] =>
    -- 0 <= epi + x, 0 <= epi - x
    pure ([⟨(a.epi, 1) :: x.co, x.off, false⟩,
           ⟨(a.epi, 1) :: x.co.map (fun p => (p.1, -p.2)), -x.off, false⟩], ⟨.pos, 2⟩)
  | .pos, [x] =>
    -- 0 <= epi, x <= epi
    pure ([⟨[(a.epi, 1)], 0, false⟩,
           ⟨(a.epi, 1) :: x.co.map (fun p => (p.1, -p.2)), -x.off, false⟩], ⟨.pos, 2⟩)
  | .exp, [x] =>
    -- (x, epi, 1) ∈ K_exp
    pure ([⟨argEntries x dummy, x.off, false⟩, ⟨[(a.epi, 1)], 0, false⟩, ⟨[(dummy, 0)], 1, false⟩], ⟨.exp, 3⟩)
  | .relent, [x, y] =>
    -- (-epi, y, x) ∈ K_exp
    pure ([⟨[(a.epi, -1)], 0, false⟩, ⟨argEntries y dummy, y.off, false⟩, ⟨argEntries x dummy, x.off, false⟩], ⟨.exp, 3⟩)
  | .norm2, args =>
    -- (epi, args…) ∈ SOC
    pure (⟨[(a.epi, 1)], 0, false⟩ :: args.map (fun x => ⟨argEntries x dummy, x.off, false⟩), ⟨.soc, args.length + 1⟩)
  | _, _ => throw "malformed atom"

/-! ### rows of the constraint classes -/

/-- entries of a (linearised) ScalarExpression, coefficients multiplied by `sign`;
    a constant row gets the zero entry on the dummy column.  A nonlinear atom that is still present
    contributes its atom-counter id in the code (garbage); the model rejects it. -/
def rowEntries (r : SRow) (dummy : Nat) (sign : Rat) : M (List (Nat × Rat)) :=
  if r.terms.isEmpty then pure [(dummy, 0)]
  else r.terms.mapM fun t => match t.1 with
    | .var id => pure (id, sign * t.2)
    | .nl _ => throw "nonlinear atom outside an elementwise constraint"

def linRows (rows : List SRow) (dummy : Nat) (sign : Rat) : M (List CRow) :=
  rows.mapM fun r => do pure ⟨← rowEntries r dummy sign, sign * r.off, false⟩

def negRow (r : SRow) : SRow := ⟨r.terms.map fun t => (t.1, -t.2), -r.off⟩

/-- `DualProductCone.conic_form`: the blocks of `y` mapped to (pretend) self-dual cones -/
def dualMap : List SRow → List Cone → M (List (SRow × Bool) × List Cone)
  | _, [] => pure ([], [])
  | y, co :: K => do
    let blk := y.take co.len
    let (rest, K') ← dualMap (y.drop co.len) K
    match co.type with
    | .pos | .soc | .psd => pure (blk.map (·, false) ++ rest, co :: K')
    | .exp =>
      match blk with
      | [y0, y1, y2] => pure ([(negRow y2, false), (y1, true), (negRow y0, false)] ++ rest, co :: K')
      | _ => throw "exponential cone of length != 3"
    | .zero => pure (rest, K')
    | _ => throw "RuntimeError: unexpected cone type"

def triuEntries (arg : List (List SRow)) : List SRow :=
  (List.range arg.length).flatMap fun i => ((arg.getD i []).drop i)

def conRows (dummy : Nat) : Con → M (List CRow × List Cone)
  | .elem isEq rows => do
    -- signs inverted: `expr <= 0` becomes `-expr ∈ R₊`
    pure (← linRows rows dummy (-1), [⟨if isEq then .zero else .pos, rows.length⟩])
  | .primal y K => do pure (← linRows y dummy 1, K)
  | .dual y K => do
    let (ym, K') ← dualMap y K
    if ym.isEmpty then pure ([], K')     -- only zero cones: the dual is the free cone, no rows
    else
      let rows ← ym.mapM fun p => do pure (⟨← rowEntries p.1 dummy 1, p.1.off, p.2⟩ : CRow)
      pure (rows, K')
  | .pow w z => do pure (← linRows (w ++ z) dummy 1, [⟨.pow, w.length + z.length⟩])
  | .psd arg => do
    let ents := triuEntries arg
    -- PSD uses `curr_variable_count()` (not `- 1`) for its dummy column
    pure (← linRows ents (dummy + 1) 1, [⟨.psd, ents.length⟩])

def isElem : Con → Bool
  | .elem _ _ => true
  | _ => false

/-- `conify_constraints`: elementwise rows, then epigraph cones, then set-membership rows -/
def compileBlocks (cons : List Con) (dummy : Nat) : M (List CRow × List Cone) := do
  let elems := cons.filter isElem
  let setm := cons.filter (!isElem ·)
  let atoms := collectAtoms (elems.flatMap elemRowsOf)
  let elems' := elems.map (substCon atoms)
  let e1 ← elems'.mapM (conRows dummy)
  let e2 ← atoms.mapM fun a => do let (r, k) ← epiRows a dummy; pure (r, [k])
  let e3 ← setm.mapM (conRows dummy)
  let all := e1 ++ e2 ++ e3
  -- (a constraint list that produces no row at all compiles to the empty system)
  pure (all.flatMap (·.1), all.flatMap (·.2))

/-! ### assembly: sorted distinct column ids, dense A, b -/

def insertNat (a : Nat) : List Nat → List Nat
  | [] => [a]
  | b :: bs => if a < b then a :: b :: bs else if a = b then b :: bs else b :: insertNat a bs

/-- the columns of the assembled matrix: the ids of the entries with a NONZERO value (entries with value zero are the
    placeholders with which constant rows are padded, at an arbitrary column; they do not create columns) -/
def sortedCols (rows : List CRow) : List Nat :=
  (rows.flatMap fun r => (r.entries.filter fun e => e.2 != 0).map (·.1)).foldl (fun acc c => insertNat c acc) []

/-- duplicates in the triplet list are summed (scipy) -/
def denseRow (cols : List Nat) (r : CRow) : List Rat :=
  cols.map fun c => ((r.entries.filter fun e => e.1 == c).map (·.2)).foldl (· + ·) 0

structure Compiled where
  cols : List Nat                 -- column j carries scalar variable id cols[j]
  A : List (List Rat)
  b : List Rat
  eRows : List Bool               -- rows to be multiplied by e
  K : List Cone
  deriving Repr, BEq

def assemble (rows : List CRow) (K : List Cone) : Compiled :=
  let cols := sortedCols rows
  { cols := cols, A := rows.map (denseRow cols), b := rows.map (·.const), eRows := rows.map (·.eScale), K := K }

/-- `svid2col[id]` with the `-1` sentinel -/
def colOf (cols : List Nat) (id : Nat) : Int :=
  match cols.idxOf? id with
  | some j => (j : Int)
  | none => -1

/-- a proper Variable: name, scalar ids in flat (row-major) order, generation -/
structure VarInfo where
  name : String
  ids : List Nat
  gen : Nat
  deriving Repr, BEq

/-- `leading_scalar_variable_id()` of a proper Variable: the first recorded id -/
def leadingId (v : VarInfo) : Nat := v.ids.headD 0

def insertVar (v : VarInfo) : List VarInfo → List VarInfo
  | [] => [v]
  | w :: ws => if leadingId v < leadingId w then v :: w :: ws else w :: insertVar v ws

/-- `compile_constrained_system` after `conify_constraints`: generation check, variables sorted by
    leading scalar-variable id (stable), variable map -/
def variableMap (cols : List Nat) (vars : List VarInfo) : M (List (String × List Int)) :=
  match vars with
  | [] => pure []
  | v0 :: _ =>
    if vars.any (fun v => v.gen != v0.gen) then throw "RuntimeError: Variables of distinct generation"
    else
      let sorted := vars.foldl (fun acc v => insertVar v acc) []     -- stable
      pure (sorted.map fun v => (v.name, v.ids.map (colOf cols)))

def compile (cons : List Con) (dummy : Nat) (vars : List VarInfo) : M (Compiled × List (String × List Int)) := do
  let (rows, K) ← compileBlocks cons dummy
  if rows.length ≠ (K.map (·.len)).sum then throw "RuntimeError: K and A disagree on the number of rows" else
  let c := assemble rows K
  let vm ← variableMap c.cols vars
  pure (c, vm)

/-- `compile_objective(objective, svid2col)`: objective vector over the participating columns and the
    dropped constant; an objective variable that is in no constraint is an error -/
def compileObjective (cols : List Nat) (obj : SRow) : M (List Rat × Rat) := do
  let pairs ← obj.terms.mapM fun t => match t.1 with
    | .var id => pure (colOf cols id, t.2)
    | .nl _ => throw "NotImplementedError: the objective must be affine"
  if pairs.any (fun p => p.1 < 0) then
    throw "ValueError: objective contains a ScalarVariable that is in no constraint"
  else
    pure ((List.range cols.length).map (fun (j : Nat) =>
      match (pairs.reverse.find? fun p => p.1 == Int.ofNat j) with
      | some p => p.2
      | none => (0 : Rat)), obj.off)

end Sageopt.Compile
