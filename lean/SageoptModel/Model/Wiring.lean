/-
Wirings: the normal form of an affine array operator.  Every operator of `operators/affine.py`
(and the arithmetic / indexing / matmul kernel of `base.py`) applied to Expression arguments, with all
constant arguments fixed, computes each output cell as a finite linear combination of input cells plus a
constant.  A `Wire` is that description; `applyLin` runs it on affine forms (`Lin`), `applyNum` on
numbers.  Core Lean only.
-/
import SageoptModel.Model.Lin

namespace Sageopt.Wiring
open Sageopt

structure Wire where
  rows : List (List (Nat × Rat))     -- output cell r = Σ coef · in[idx]  (+ off[r])
  off : List Rat
  deriving Repr, BEq

/-- run the wiring on affine forms -/
def applyLin (w : Wire) (ins : List Lin) : List Lin :=
  (w.rows.zip w.off).map fun (row, o) =>
    row.foldl (fun acc p => Lin.add acc (Lin.scale p.2 (ins.getD p.1 (Lin.const 0)))) (Lin.const o)

/-- run the wiring on numbers -/
def applyNum (w : Wire) (xs : List Rat) : List Rat :=
  (w.rows.zip w.off).map fun (row, o) => row.foldl (fun acc p => acc + p.2 * xs.getD p.1 0) o

/-- composition: first `w1` (on the original inputs), then `w2` on its outputs -/
def compose (w2 w1 : Wire) : Wire :=
  { rows := (w2.rows.zip w2.off).map fun (row, _) =>
      row.flatMap fun p => ((w1.rows.getD p.1 []).map fun q => (q.1, p.2 * q.2))
    off := (w2.rows.zip w2.off).map fun (row, o) => row.foldl (fun acc p => acc + p.2 * w1.off.getD p.1 0) o }

/-! ### introspection on affine forms -/

/-- scalar variables an affine form mentions (with nonzero coefficient, by the normal form) -/
def support (x : Lin) : List Nat := x.co.map (·.1)

def isAffineConst (x : Lin) : Bool := x.co.isEmpty

/-- `Expression.are_equivalent` on affine cells: same cells (normal forms), up to the tolerance on coefficients -/
def absR (q : Rat) : Rat := if q < 0 then -q else q

def closeQ (atol rtol a b : Rat) : Bool := absR (a - b) ≤ atol + rtol * absR b

def cellEquiv (atol rtol : Rat) (x y : Lin) : Bool :=
  x.co.map (·.1) == y.co.map (·.1) &&
  (x.co.zip y.co).all (fun p => closeQ atol rtol p.1.2 p.2.2) && closeQ atol rtol x.off y.off

end Sageopt.Wiring
