/-
Model of `sageopt/symbolic/signomials.py` / `polynomials.py` / `utilities.py`: the *representation*
(`alpha`, `c` in the order the code produces them) and the arithmetic on it.

A signomial is a list of terms `(exponent row, coefficient)`.  Exponents are rationals (the code's
floats; the correspondence check only feeds exactly representable values), coefficients live in
any type `C` with the operations used (run at `Rat`; reasoned about over a commutative ring).
Core Lean only.
-/
namespace Sageopt.Sig

abbrev Exp := List Rat

/-- `np.round(q, decimals=7)` on exact rationals: round half to even of `q·10^7`, divided by `10^7` -/
def roundHalfEven (q : Rat) : Int :=
  let f := q.floor
  let r := q - f
  if r < 1/2 then f
  else if r > 1/2 then f + 1
  else if f % 2 = 0 then f else f + 1

def decimals : Nat := 7   -- __EXPONENT_VECTOR_DECIMAL_POINTS__ (checked against the source by translate.py)

def round7 (q : Rat) : Rat := (roundHalfEven (q * (10 ^ decimals : Nat)) : Rat) / (10 ^ decimals : Nat)

def roundExp (a : Exp) : Exp := a.map round7

/-- lexicographic order on rows (`np.unique(axis=0)` sorts rows lexicographically) -/
def lexLt : Exp → Exp → Bool
  | [], [] => false
  | [], _ :: _ => true
  | _ :: _, [] => false
  | x :: xs, y :: ys => if x < y then true else if y < x then false else lexLt xs ys

def insertSorted (a : Exp) : List Exp → List Exp
  | [] => [a]
  | b :: bs => if lexLt a b then a :: b :: bs else if a = b then b :: bs else b :: insertSorted a bs

/-- sorted list of the distinct rows -/
def sortedKeys (ks : List Exp) : List Exp := ks.foldl (fun acc k => insertSorted k acc) []

structure SigT (C : Type) where
  n : Nat
  terms : List (Exp × C)
  deriving Repr, BEq

variable {C : Type}

def keys (ts : List (Exp × C)) : List Exp := ts.map Prod.fst

def hasDupKeys : List Exp → Bool
  | [] => false
  | k :: ks => ks.contains k || hasDupKeys ks

/-- `0 + c[i1] + c[i2] + …` -/
def sumC [Add C] [Zero C] (cs : List C) : C := cs.foldl (· + ·) 0

/-- `sym_util.consolidate_basis_funcs`: unchanged (original order) when all rows are distinct;
    otherwise rows sorted lexicographically with coefficients of equal rows added -/
def consolidate [Add C] [Zero C] (ts : List (Exp × C)) : List (Exp × C) :=
  if hasDupKeys (keys ts) then
    (sortedKeys (keys ts)).map fun k => (k, sumC ((ts.filter fun t => t.1 == k).map Prod.snd))
  else ts

/-- `Signomial.__init__(alpha, c)` -/
def mk [Add C] [Zero C] (n : Nat) (ts : List (Exp × C)) : SigT C :=
  ⟨n, consolidate (ts.map fun t => (roundExp t.1, t.2))⟩

def zeroExp (n : Nat) : Exp := List.replicate n 0

/-- `upcast_to_signomial(scalar)` -/
def const [Add C] [Zero C] (n : Nat) (v : C) : SigT C := mk n [(zeroExp n, v)]

def lookupC [Zero C] (ts : List (Exp × C)) (k : Exp) : C :=
  match ts.find? (fun t => t.1 == k) with
  | some t => t.2
  | none => 0

/-- `align_basis_matrices`: rows of the first matrix, then unseen rows in first-seen order -/
def alignKeys (mats : List (List Exp)) : List Exp :=
  mats.foldl (fun acc m => m.foldl (fun acc r => if acc.contains r then acc else acc ++ [r]) acc) []

/-- `Signomial.sum(funcs)` for a list of length ≥ 2 (a singleton list returns its element) -/
def sumList [Add C] [Zero C] (n : Nat) (fs : List (SigT C)) : SigT C :=
  match fs with
  | [f] => f
  | _ =>
    let ks := alignKeys (fs.map fun f => keys f.terms)
    mk n (ks.map fun k => (k, sumC (fs.map fun f => lookupC f.terms k)))

/-- `Signomial.without_zeros` for numeric coefficients (`isZero` decides `c[i] == 0`) -/
def withoutZeros [Add C] [Zero C] (isZero : C → Bool) (f : SigT C) : SigT C :=
  if f.terms.length = 1 then f
  else
    let keep := f.terms.filter fun t => !isZero t.2
    if keep.length = f.terms.length then f
    else if keep.isEmpty then const f.n 0
    else mk f.n keep

def addExp (a b : Exp) : Exp := List.zipWith (· + ·) a b

/-- `Signomial.product(f1, f2)`: tile/repeat order (f2's index is the slow one) -/
def product [Add C] [Mul C] [Zero C] (f g : SigT C) : SigT C :=
  mk f.n (g.terms.flatMap fun t2 => f.terms.map fun t1 => (roundExp (addExp t1.1 t2.1), t1.2 * t2.2))

inductive Res (α : Type) where
  | ok (v : α)
  | raises (msg : String)
  deriving Repr

def add [Add C] [Zero C] (isZero : C → Bool) (f g : SigT C) : Res (SigT C) :=
  if f.n ≠ g.n then .raises "RuntimeError: different numbers of variables"
  else .ok (withoutZeros isZero (sumList f.n [f, g]))

def mul [Add C] [Mul C] [Zero C] (isZero : C → Bool) (f g : SigT C) : Res (SigT C) :=
  if f.n ≠ g.n then .raises "RuntimeError: different numbers of variables"
  else .ok (withoutZeros isZero (product f g))

/-- scalar multiple `f * v` (`__mul__` with an upcast scalar) -/
def smul [Add C] [Mul C] [Zero C] (isZero : C → Bool) (f : SigT C) (v : C) : SigT C :=
  withoutZeros isZero (product f (const f.n v))

def neg [Add C] [Mul C] [Zero C] [Neg C] [One C] (isZero : C → Bool) (f : SigT C) : SigT C :=
  smul isZero f (-1)

/-- `f - g = f + (-1 * g)` -/
def sub [Add C] [Mul C] [Zero C] [Neg C] [One C] (isZero : C → Bool) (f g : SigT C) : Res (SigT C) :=
  add isZero f (smul isZero g (-1))

/-- integer power by repeated multiplication, exactly as `__pow__` does it -/
def powNat [Add C] [Mul C] [Zero C] [One C] (isZero : C → Bool) (f : SigT C) : Nat → SigT C
  | 0 => const f.n 1
  | k + 1 =>
    let s0 := mk f.n f.terms
    (List.range k).foldl (fun s _ => withoutZeros isZero (product s f)) s0

/-! ### the numeric (`Rat`) instance: powers of monomials, division, equality -/

def isZeroQ (q : Rat) : Bool := q == 0

/-- integer `k`-th root of a natural number, if it is a perfect power -/
def natRoot? (k : Nat) (a : Nat) : Option Nat :=
  (List.range (a + 2)).find? fun r => r ^ k == a

def ratRoot? (k : Nat) (q : Rat) : Option Rat :=
  if q < 0 then none else
  match natRoot? k q.num.toNat, natRoot? k q.den with
  | some a, some b => if b = 0 then none else some ((a : Rat) / (b : Rat))
  | _, _ => none

def ratPowInt (v : Rat) (p : Int) : Rat :=
  if p ≥ 0 then v ^ p.toNat else 1 / (v ^ (-p).toNat)

/-- `float(v) ** power` where the result is exactly representable; `none` = not an exact power
    (the generators never produce such inputs) -/
def ratPow? (v : Rat) (p : Rat) : Option Rat :=
  if p.den = 1 then some (ratPowInt v p.num)
  else (ratRoot? p.den v).map fun r => ratPowInt r p.num

/-- `Signomial.__pow__(power)` for numeric coefficients -/
def pow (f : SigT Rat) (p : Rat) : Res (SigT Rat) :=
  if p.den = 1 ∧ p ≥ 0 then .ok (powNat isZeroQ f p.num.toNat)
  else
    let d := f.terms.filter fun t => !(isZeroQ t.2)
    match d with
    | [t] =>
      if t.2 < 0 ∧ p.den ≠ 1 then .raises "ValueError: non-integer power of negative coefficient"
      else if t.2 == 0 then .raises "ZeroDivisionError"
      else match ratPow? t.2 p with
        | none => .raises "model: inexact power (outside the generated domain)"
        | some c => .ok (mk f.n [(t.1.map (p * ·), c)])
    | _ => .raises "ValueError: only one-term signomials can be raised to this power"

/-- `f / g` for a Signomial `g` -/
def div (f g : SigT Rat) : Res (SigT Rat) :=
  match pow g (-1) with
  | .ok gi => mul isZeroQ f gi
  | .raises m => .raises m

/-- `query_coeff(a)`: look the rounded key up in `alpha_c` -/
def queryCoeff (f : SigT Rat) (a : Exp) : Rat := lookupC f.terms (roundExp a)

def absQ (q : Rat) : Rat := if q < 0 then -q else q

/-- `Signomial.__eq__`: every term of either operand is matched in the other one up to `tol`
    (a term that is absent counts as coefficient 0) -/
def eqCode (tol : Rat) (f g : SigT Rat) : Bool :=
  (f.terms.all fun t => absQ (t.2 - queryCoeff g t.1) ≤ tol) &&
  (g.terms.all fun t => absQ (t.2 - queryCoeff f t.1) ≤ tol)

/-! ### polynomials: same representation; extra checks -/

def isPolyExp (a : Exp) : Bool := a.all fun q => q.den == 1 && q ≥ 0

def polyOk (f : SigT C) : Bool := f.terms.all fun t => isPolyExp t.1

end Sageopt.Sig
