/-
Model of the final stage of solution recovery (`relaxations/sig_solution_recovery.py`: `is_feasible`, the tail of
`sig_solrec`; `poly_solution_recovery.py`: the tail of `poly_solrec`): every candidate is passed through the
feasibility filter, survivors are sorted (stably) by objective value.  Constraint values are what float comparisons
see: a number, ±∞ or NaN.  Core Lean only.
-/
namespace Sageopt.Solrec

/-- a float as far as `<`, `<=`, `abs` are concerned -/
inductive FV where
  | num (q : Rat)
  | pinf
  | ninf
  | nan
  deriving Repr, BEq, DecidableEq

/-- `v >= -tol` (False for NaN) -/
def geNegTol (tol : Rat) : FV → Bool
  | .num q => decide (-tol ≤ q)
  | .pinf => true
  | .ninf => false
  | .nan => false

/-- `abs(v) <= tol` (False for NaN and ±∞) -/
def absLeTol (tol : Rat) : FV → Bool
  | .num q => decide (-tol ≤ q) && decide (q ≤ tol)
  | _ => false

/-- `is_feasible(x, gts, eqs, ineq_tol, eq_tol)` on the constraint values at `x` -/
def isFeasible (itol etol : Rat) (gt eq : List FV) : Bool :=
  gt.all (geNegTol itol) && eq.all (absLeTol etol)

structure Cand where
  gt : List FV        -- values of the inequality constraints (those of the problem, then those defining X)
  eq : List FV        -- values of the equality constraints
  obj : FV            -- objective value
  deriving Repr, BEq

/-- `a < b` on floats (False when either is NaN) -/
def fvLt : FV → FV → Bool
  | .num a, .num b => decide (a < b)
  | .ninf, .num _ => true
  | .ninf, .pinf => true
  | .num _, .pinf => true
  | _, _ => false

/-- stable insertion by key (what `list.sort(key=...)` computes when no key is NaN): insert after every element whose
    key is not greater -/
def insertStable (x : Nat × FV) : List (Nat × FV) → List (Nat × FV)
  | [] => [x]
  | y :: ys => if fvLt x.2 y.2 then x :: y :: ys else y :: insertStable x ys

def sortStable (xs : List (Nat × FV)) : List (Nat × FV) := xs.foldl (fun acc x => insertStable x acc) []

/-- the tail of `sig_solrec` / `poly_solrec`: indices (into the candidate list, in the order the candidates are examined)
    of the returned points, in the order they are returned -/
def select (itol etol : Rat) (cands : List Cand) : List Nat :=
  let kept := (cands.zipIdx.filter fun p => isFeasible itol etol p.1.gt p.1.eq).map fun p => (p.2, p.1.obj)
  (sortStable kept).map (·.1)

end Sageopt.Solrec
