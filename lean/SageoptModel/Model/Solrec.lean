/-
Model of the final stage of solution recovery (`relaxations/sig_solution_recovery.py`: `is_feasible`, the tail of
`sig_solrec`; `poly_solution_recovery.py`: the tail of `poly_solrec`): every candidate is passed through the
feasibility filter, survivors are sorted (stably) by objective value.  Constraint values are what float comparisons
see: a number, ±∞ or NaN.  Core Lean only.
-/
namespace Sageopt.Solrec

/-- a float as far as `<`, `<=`, `abs` are concerned -/
inductive FV where
  | num (q : Rat)
  | pinf
  | ninf
  | nan
  deriving Repr, BEq, DecidableEq

/-- `v >= -tol` (False for NaN) -/
def geNegTol (tol : Rat) : FV → Bool
  | .num q => decide (-tol ≤ q)
  | .pinf => true
  | .ninf => false
  | .nan => false

/-- `abs(v) <= tol` (False for NaN and ±∞) -/
def absLeTol (tol : Rat) : FV → Bool
  | .num q => decide (-tol ≤ q) && decide (q ≤ tol)
  | _ => false

/-- `is_feasible(x, gts, eqs, ineq_tol, eq_tol)` on the constraint values at `x` -/
def isFeasible (itol etol : Rat) (gt eq : List FV) : Bool :=
  gt.all (geNegTol itol) && eq.all (absLeTol etol)

structure Cand where
  gt : List FV        -- values of the inequality constraints (those of the problem, then those defining X)
  eq : List FV        -- values of the equality constraints
  obj : FV            -- objective value
  deriving Repr, BEq

/-- `a < b` on floats (False when either is NaN) -/
def fvLt : FV → FV → Bool
  | .num a, .num b => decide (a < b)
  | .ninf, .num _ => true
  | .ninf, .pinf => true
  | .num _, .pinf => true
  | _, _ => false

/-- stable insertion by key (what `list.sort(key=...)` computes when no key is NaN): insert after every element whose
    key is not greater -/
def insertStable (x : Nat × FV) : List (Nat × FV) → List (Nat × FV)
  | [] => [x]
  | y :: ys => if fvLt x.2 y.2 then x :: y :: ys else y :: insertStable x ys

def sortStable (xs : List (Nat × FV)) : List (Nat × FV) := xs.foldl (fun acc x => insertStable x acc) []

/-- the tail of `sig_solrec` / `poly_solrec`: indices (into the candidate list, in the order the candidates are examined)
    of the returned points, in the order they are returned -/
def select (itol etol : Rat) (cands : List Cand) : List Nat :=
  let kept := (cands.zipIdx.filter fun p => isFeasible itol etol p.1.gt p.1.eq).map fun p => (p.2, p.1.obj)
  (sortStable kept).map (·.1)

/-! ### candidate generation of `_dual_age_cone_solution_recovery` (exact arithmetic) -/

def dotL (a b : List Rat) : Rat := (List.zipWith (· * ·) a b).sum
def vecAdd (a b : List Rat) : List Rat := List.zipWith (· + ·) a b
def vecSmul (c : Rat) (a : List Rat) : List Rat := a.map (c * ·)

/-- what the function reads: `v` (negative entries already clipped), the values of `con.mu_vars` in dict order, the
    moment reduction array `M` (one row per exponent of the Lagrangian), the number of coordinates of a candidate -/
structure DualIn where
  n : Nat
  v : List Rat
  mus : List (Nat × List Rat)
  M : List (List Rat)

/-- `mus_exist`: the indices with a `mu` Variable and `v[i] > 0` -/
def musExist (d : DualIn) : List (Nat × List Rat) := d.mus.filter fun p => decide (0 < d.v.getD p.1 0)

/-- `raw_xs`: `mu_i / v_i` -/
def rawXs (d : DualIn) : List (List Rat) := (musExist d).map fun p => vecSmul (1 / d.v.getD p.1 0) p.2

def vInterest (d : DualIn) : List Rat := (musExist d).map fun p => d.v.getD p.1 0
def mInterest (d : DualIn) (row : List Rat) : List Rat := (musExist d).map fun p => row.getD p.1 0

/-- one row of `weights` (`none` when `v_reduced` is zero there: the row is dropped) -/
def rowWeights (d : DualIn) (row : List Rat) : Option (List Rat) :=
  let mi := mInterest d row
  let vi := vInterest d
  let vr := dotL mi vi
  if vr = 0 then none else some (List.zipWith (fun m v => m / vr * v) mi vi)

/-- `raw_xs @ w` -/
def combo (n : Nat) (ws : List Rat) (xs : List (List Rat)) : List Rat :=
  (List.zipWith vecSmul ws xs).foldl vecAdd (List.replicate n 0)

def reducedXs (d : DualIn) : List (List Rat) :=
  d.M.filterMap fun row => (rowWeights d row).map fun ws => combo d.n ws (rawXs d)

/-- lexicographic order of columns (the order of `np.unique(..., axis=1)`) -/
def lexLt : List Rat → List Rat → Bool
  | [], [] => false
  | [], _ :: _ => true
  | _ :: _, [] => false
  | a :: as, b :: bs => if a < b then true else if b < a then false else lexLt as bs

/-- insertion into a sorted duplicate-free list -/
def insertUnique (x : List Rat) : List (List Rat) → List (List Rat)
  | [] => [x]
  | y :: ys => if x = y then y :: ys else if lexLt x y then x :: y :: ys else y :: insertUnique x ys

def uniqueCols (xs : List (List Rat)) : List (List Rat) := xs.foldl (fun acc x => insertUnique x acc) []

/-- all candidates, in the order in which they are passed to `is_feasible` -/
def dualAgeCands (d : DualIn) : List (List Rat) :=
  if (musExist d).isEmpty then [] else uniqueCols (rawXs d ++ reducedXs d)

end Sageopt.Solrec
