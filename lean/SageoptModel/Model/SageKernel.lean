/-
`PrimalSageCone._ordsage_init_variables` with `kernel_basis`: an AGE cone whose balance matrix
`(alpha[cover] - alpha[i])ᵀ` has a trivial kernel admits only `nu = 0`, and the code then treats it like
an empty cover (it empties `ech.covers[i]`).  The model decides triviality of the kernel by exact
Gaussian elimination over ℚ (the code: rank from an SVD with tolerance 1e-6·σ_max).  Core Lean only.
-/
import SageoptModel.Model.Sage

namespace Sageopt.Sage

/-- one elimination step on the rows: pick a row with a nonzero entry in column `j`, eliminate that column
    from the others; returns the remaining rows and whether a pivot was found -/
def elimCol (rows : List (List Rat)) (j : Nat) : List (List Rat) × Bool :=
  match rows.find? (fun r => r.getD j 0 != 0) with
  | none => (rows, false)
  | some p =>
    let pj := p.getD j 0
    let rest := (rows.filter fun r => r != p) -- the pivot row (and exact copies of it: rank-neutral) removed
    (rest.map fun r =>
      let f := r.getD j 0 / pj
      (r.zip p).map fun (a, b) => a - f * b, true)

/-- rank of a matrix given by rows of length `ncols` -/
def rankQ (ncols : Nat) (rows : List (List Rat)) : Nat :=
  ((List.range ncols).foldl (fun (acc : List (List Rat) × Nat) j =>
    let (rest, found) := elimCol acc.1 j
    (rest, if found then acc.2 + 1 else acc.2)) (rows, 0)).2

/-- the kernel of `(alpha[cover] - alpha[i])ᵀ` (an `n × k` matrix, `k = #cover`) is trivial iff its rank is `k`;
    rows of the transposed matrix are the `k` difference vectors -/
def kernelTrivial (n : Nat) (alpha : List (List Rat)) (i : Nat) (cov : List Bool) : Bool :=
  let idx := trueIdx cov
  let diffs := idx.map fun j => subRow (alpha.getD j []) (alpha.getD i [])
  rankQ n diffs == idx.length

/-- the cover helper after `_ordsage_init_variables` ran -/
def kernelPrune (n : Nat) (alpha : List (List Rat)) (hasX : Bool) (s : Settings) (e : Ech) : Ech :=
  if s.kernelBasis && !hasX then
    { e with covers := e.covers.map fun (i, cov) =>
        if cov.any id && kernelTrivial n alpha i cov then (i, cov.map fun _ => false) else (i, cov) }
  else e

end Sageopt.Sage
