/-
The sign-pattern reduction of SAGE decompositions (Murray–Chandrasekaran–Wierman, "Newton polytopes and relative entropy
optimization", Thm 2 / Cor 5) at the level of functions: a sum of AGE functions (nonnegative signomials with at most one negative
coefficient, at the cone's own index) whose total coefficient vector `c` has the negative set `N` can be rewritten as a sum of AGE
functions indexed by `N` only, the `i`-th of which vanishes at every other index of `N`.  This is what `ExpCoverHelper` relies on
when it creates AGE cones only for possibly-negative coefficients and excludes definitely-negative indices from every cover.
Helper lemmas for `Props/C19Sign.lean`; with `ordAge_exact` (C06) the function-level statement becomes one about certificates.
-/
import SageoptModel.Lemmas.ExpCone
import Mathlib.Algebra.BigOperators.Field
import Mathlib.Tactic.Linarith
import Mathlib.Tactic.FieldSimp

namespace Sageopt.Analysis
open scoped BigOperators

set_option linter.unusedVariables false
set_option linter.unusedSectionVars false

variable {ι : Type} [Fintype ι] [DecidableEq ι] {N : ℕ}

/-- the signomial with coefficient vector `w` is nonnegative on the set `X` (a section variable: all of what follows holds for every `X`;
    `X = Set.univ` is the ordinary case) -/
def NN (X : Set (Fin N → ℝ)) (α : ι → Fin N → ℝ) (w : ι → ℝ) : Prop :=
  ∀ x ∈ X, 0 ≤ ∑ j, w j * Real.exp (dotp (α j) x)

/-- an AGE function for the index `k`: nonnegative on ℝⁿ, all coefficients except possibly the `k`-th nonnegative -/
def AGEf (X : Set (Fin N → ℝ)) (α : ι → Fin N → ℝ) (k : ι) (w : ι → ℝ) : Prop := NN X α w ∧ ∀ j, j ≠ k → 0 ≤ w j

theorem NN_add (X : Set (Fin N → ℝ)) (α : ι → Fin N → ℝ) (u v : ι → ℝ) (hu : NN X α u) (hv : NN X α v) : NN X α (fun j => u j + v j) := by
  intro x hx
  have : ∑ j, (u j + v j) * Real.exp (dotp (α j) x)
      = ∑ j, u j * Real.exp (dotp (α j) x) + ∑ j, v j * Real.exp (dotp (α j) x) := by
    rw [← Finset.sum_add_distrib]; apply Finset.sum_congr rfl; intro j _; ring
  rw [this]; exact add_nonneg (hu x hx) (hv x hx)

theorem NN_smul (X : Set (Fin N → ℝ)) (α : ι → Fin N → ℝ) (a : ℝ) (u : ι → ℝ) (ha : 0 ≤ a) (hu : NN X α u) : NN X α (fun j => a * u j) := by
  intro x hx
  have : ∑ j, (a * u j) * Real.exp (dotp (α j) x) = a * ∑ j, u j * Real.exp (dotp (α j) x) := by
    rw [Finset.mul_sum]; apply Finset.sum_congr rfl; intro j _; ring
  rw [this]; exact mul_nonneg ha (hu x hx)

theorem NN_zero (X : Set (Fin N → ℝ)) (α : ι → Fin N → ℝ) : NN X α (fun _ => (0 : ℝ)) := by
  intro x _; simp

/-- nonnegative combinations of nonnegative signomials -/
theorem NN_sum (X : Set (Fin N → ℝ)) (α : ι → Fin N → ℝ) (F : Finset ι) (r : ι → ℝ) (v : ι → ι → ℝ)
    (h : ∀ l ∈ F, 0 ≤ r l ∧ NN X α (v l)) : NN X α (fun j => ∑ l ∈ F, r l * v l j) := by
  intro x hx
  have : ∑ j, (∑ l ∈ F, r l * v l j) * Real.exp (dotp (α j) x)
      = ∑ l ∈ F, r l * ∑ j, v l j * Real.exp (dotp (α j) x) := by
    simp_rw [Finset.sum_mul, Finset.mul_sum]
    rw [Finset.sum_comm]
    apply Finset.sum_congr rfl; intro l _
    apply Finset.sum_congr rfl; intro j _; ring
  rw [this]
  exact Finset.sum_nonneg (fun l hl => mul_nonneg (h l hl).1 ((h l hl).2 x hx))

theorem AGEf_add_smul (X : Set (Fin N → ℝ)) (α : ι → Fin N → ℝ) (k : ι) (u v : ι → ℝ) (t : ℝ) (ht : 0 ≤ t)
    (hu : AGEf X α k u) (hv : NN X α v) (hoff : ∀ j, j ≠ k → 0 ≤ u j + t * v j) :
    AGEf X α k (fun j => u j + t * v j) :=
  ⟨NN_add X α u (fun j => t * v j) hu.1 (NN_smul X α t v ht hv), hoff⟩

theorem AGEf_smul (X : Set (Fin N → ℝ)) (α : ι → Fin N → ℝ) (k : ι) (u : ι → ℝ) (a : ℝ) (ha : 0 ≤ a) (hu : AGEf X α k u) :
    AGEf X α k (fun j => a * u j) :=
  ⟨NN_smul X α a u ha hu.1, fun j hj => mul_nonneg ha (hu.2 j hj)⟩

/-- what the reduction delivers for a coefficient vector `c` -/
def SignReduced (X : Set (Fin N → ℝ)) (α : ι → Fin N → ℝ) (c : ι → ℝ) : Prop :=
  ∃ ŵ : ι → ι → ℝ,
    (∀ i, c i < 0 → AGEf X α i (ŵ i)) ∧
    (∀ i l, c i < 0 → c l < 0 → l ≠ i → ŵ i l = 0) ∧
    (∀ l, ∑ i ∈ Finset.univ.filter (fun i => c i < 0), ŵ i l ≤ c l)

theorem signReduced_of_nonneg (X : Set (Fin N → ℝ)) (α : ι → Fin N → ℝ) (c : ι → ℝ) (h : ∀ l, 0 ≤ c l) : SignReduced X α c := by
  refine ⟨fun _ _ => 0, ?_, ?_, ?_⟩
  · intro i hi; exact absurd (h i) (not_le.mpr hi)
  · intro i l hi; exact absurd (h i) (not_le.mpr hi)
  · intro l; simp [h l]

theorem signReduced_congr (X : Set (Fin N → ℝ)) (α : ι → Fin N → ℝ) (c c' : ι → ℝ) (h : ∀ l, c l = c' l) (hc : SignReduced X α c) :
    SignReduced X α c' := by
  have : c = c' := funext h
  rw [← this]; exact hc

/-- REDISTRIBUTION of one member `k` of a family over the others with weights `s` that sum to one: the sum is unchanged, the members
    stay AGE functions as long as the entries at `k` stay nonnegative -/
theorem redistribute (X : Set (Fin N → ℝ)) (α : ι → Fin N → ℝ) (T : Finset ι) (w : ι → ι → ℝ) (k : ι) (hk : k ∈ T) (s : ι → ℝ)
    (hw : ∀ m ∈ T, AGEf X α m (w m))
    (hs0 : ∀ m ∈ T.erase k, 0 ≤ s m) (hs1 : ∑ m ∈ T.erase k, s m = 1)
    (hkk : ∀ m ∈ T.erase k, 0 ≤ w m k + s m * w k k) :
    (∀ m ∈ T.erase k, AGEf X α m (fun l => w m l + s m * w k l)) ∧
    (∀ l, ∑ m ∈ T.erase k, (w m l + s m * w k l) = ∑ m ∈ T, w m l) := by
  constructor
  · intro m hm
    have hmT : m ∈ T := Finset.mem_of_mem_erase hm
    have hmk : m ≠ k := Finset.ne_of_mem_erase hm
    apply AGEf_add_smul X α m (w m) (w k) (s m) (hs0 m hm) (hw m hmT) (hw k hk).1
    intro l hl
    by_cases hlk : l = k
    · subst hlk; exact hkk m hm
    · exact add_nonneg ((hw m hmT).2 l hl) (mul_nonneg (hs0 m hm) ((hw k hk).2 l hlk))
  · intro l
    rw [Finset.sum_add_distrib, ← Finset.sum_mul, hs1, one_mul, add_comm]
    exact Finset.add_sum_erase T (fun m => w m l) hk

/-- the reduction, by induction on the number of AGE functions in the decomposition -/
theorem sign_reduction_aux (X : Set (Fin N → ℝ)) (α : ι → Fin N → ℝ) : ∀ (n : ℕ) (T : Finset ι) (w : ι → ι → ℝ), T.card = n →
    (∀ k ∈ T, AGEf X α k (w k)) → SignReduced X α (fun l => ∑ k ∈ T, w k l) := by
  intro n
  induction n with
  | zero =>
    intro T w hT _
    have : T = ∅ := Finset.card_eq_zero.mp hT
    subst this
    exact signReduced_of_nonneg X α _ (fun l => by simp)
  | succ n ih =>
    intro T w hT hw
    set c : ι → ℝ := fun l => ∑ k ∈ T, w k l with hc
    by_cases hA : ∃ k ∈ T, 0 ≤ c k
    · -- a member whose own index is not negative in the total: redistribute it over the others
      obtain ⟨k, hk, hck⟩ := hA
      have hcard : (T.erase k).card = n := by rw [Finset.card_erase_of_mem hk, hT]; rfl
      by_cases hT' : T.erase k = ∅
      · -- the only member: the total is that member, entrywise nonnegative
        apply signReduced_of_nonneg
        intro l
        have hTk : T = {k} := by
          ext m; constructor
          · intro hm
            by_contra hne
            have : m ∈ T.erase k := Finset.mem_erase.mpr ⟨by simpa using hne, hm⟩
            rw [hT'] at this; exact absurd this (Finset.notMem_empty m)
          · intro hm; rw [Finset.mem_singleton] at hm; subst hm; exact hk
        have hcl : c l = w k l := by simp [hc, hTk]
        by_cases hlk : l = k
        · subst hlk; exact hck
        · rw [hcl]; exact (hw k hk).2 l hlk
      · obtain ⟨k', hk'⟩ := Finset.nonempty_iff_ne_empty.mpr hT'
        have hsplit : c k = w k k + ∑ m ∈ T.erase k, w m k := (Finset.add_sum_erase T (fun m => w m k) hk).symm
        have hDnn : 0 ≤ ∑ m ∈ T.erase k, w m k :=
          Finset.sum_nonneg (fun m hm => (hw m (Finset.mem_of_mem_erase hm)).2 k (Finset.ne_of_mem_erase hm).symm)
        by_cases hkk : 0 ≤ w k k
        · -- everything onto k'
          obtain ⟨h1, h2⟩ := redistribute X α T w k hk (fun m => if m = k' then 1 else 0) hw
            (fun m _ => by split_ifs <;> norm_num)
            (by rw [Finset.sum_ite_eq' (T.erase k) k']; simp [hk'])
            (fun m hm => by
              have : 0 ≤ w m k := (hw m (Finset.mem_of_mem_erase hm)).2 k (Finset.ne_of_mem_erase hm).symm
              split_ifs
              · nlinarith
              · linarith)
          have := ih (T.erase k) (fun m l => w m l + (if m = k' then 1 else 0) * w k l) hcard h1
          exact signReduced_congr X α _ _ h2 this
        · push Not at hkk
          set D : ℝ := ∑ m ∈ T.erase k, w m k with hD
          have hDpos : 0 < D := by linarith
          obtain ⟨h1, h2⟩ := redistribute X α T w k hk (fun m => w m k / D) hw
            (fun m hm => div_nonneg ((hw m (Finset.mem_of_mem_erase hm)).2 k (Finset.ne_of_mem_erase hm).symm) hDpos.le)
            (by rw [← Finset.sum_div, ← hD]; exact div_self hDpos.ne')
            (fun m hm => by
              have hmk : 0 ≤ w m k := (hw m (Finset.mem_of_mem_erase hm)).2 k (Finset.ne_of_mem_erase hm).symm
              have : w m k + w m k / D * w k k = w m k * ((D + w k k) / D) := by field_simp
              rw [this]
              exact mul_nonneg hmk (div_nonneg (by linarith) hDpos.le))
          have := ih (T.erase k) (fun m l => w m l + w m k / D * w k l) hcard h1
          exact signReduced_congr X α _ _ h2 this
    · -- every member's own index is negative in the total
      push Not at hA
      have hTne : T.Nonempty := by
        rw [← Finset.card_pos, hT]; exact Nat.succ_pos n
      obtain ⟨j, hj⟩ := hTne
      have hcard : (T.erase j).card = n := by rw [Finset.card_erase_of_mem hj, hT]; rfl
      have hoffT : ∀ l, l ∉ T → 0 ≤ c l := by
        intro l hl
        exact Finset.sum_nonneg (fun k hk => (hw k hk).2 l (fun h => hl (h ▸ hk)))
      have hnegT : ∀ l, c l < 0 ↔ l ∈ T := by
        intro l
        constructor
        · intro h; by_contra hl; exact absurd (hoffT l hl) (not_le.mpr h)
        · intro h; exact hA l h
      have hsplit : c j = w j j + ∑ m ∈ T.erase j, w m j := (Finset.add_sum_erase T (fun m => w m j) hj).symm
      have hrest : 0 ≤ ∑ m ∈ T.erase j, w m j :=
        Finset.sum_nonneg (fun m hm => (hw m (Finset.mem_of_mem_erase hm)).2 j (Finset.ne_of_mem_erase hm).symm)
      have hcj : c j < 0 := hA j hj
      set a : ℝ := -(w j j) with ha
      have hapos : 0 < a := by rw [ha]; linarith
      set t : ι → ℝ := fun k => w k j / a with ht
      set θ : ℝ := -(c j) / a with hθ
      have hθpos : 0 < θ := div_pos (by linarith) hapos
      have htsum : ∑ k ∈ T.erase j, t k = 1 - θ := by
        rw [ht, ← Finset.sum_div, hθ]
        have : ∑ k ∈ T.erase j, w k j = c j + a := by rw [hsplit, ha]; ring
        rw [this]; field_simp; ring
      have ht0 : ∀ k ∈ T.erase j, 0 ≤ t k := fun k hk =>
        div_nonneg ((hw k (Finset.mem_of_mem_erase hk)).2 j (Finset.ne_of_mem_erase hk).symm) hapos.le
      -- the other members absorb what they carry at j
      set w' : ι → ι → ℝ := fun k l => w k l + t k * w j l with hw'
      have hw'v : ∀ k ∈ T.erase j, AGEf X α k (w' k) := by
        intro k hk
        have hkT := Finset.mem_of_mem_erase hk
        have hkj := Finset.ne_of_mem_erase hk
        apply AGEf_add_smul X α k (w k) (w j) (t k) (ht0 k hk) (hw k hkT) (hw j hj).1
        intro l hl
        by_cases hlj : l = j
        · subst hlj
          have : w k l + t k * w l l = 0 := by
            rw [ht]; simp only
            have : w l l = -a := by rw [ha]; ring
            rw [this]; field_simp; ring
          rw [this]
        · exact add_nonneg ((hw k hkT).2 l hl) (mul_nonneg (ht0 k hk) ((hw j hj).2 l hlj))
      set c'' : ι → ℝ := fun l => ∑ k ∈ T.erase j, w' k l with hc''
      have hc''eq : ∀ l, c'' l = c l - θ * w j l := by
        intro l
        have h1 : c'' l = ∑ k ∈ T.erase j, w k l + (∑ k ∈ T.erase j, t k) * w j l := by
          rw [hc'', hw']; simp only
          rw [Finset.sum_add_distrib, Finset.sum_mul]
        have h2 : c l = w j l + ∑ k ∈ T.erase j, w k l := (Finset.add_sum_erase T (fun m => w m l) hj).symm
        rw [h1, htsum, h2]; ring
      obtain ⟨ŵ, hŵ1, hŵ2, hŵ3⟩ := ih (T.erase j) w' hcard hw'v
      -- which entries of c'' are negative
      have hneg'' : ∀ l, c'' l < 0 ↔ l ∈ T.erase j := by
        intro l
        constructor
        · intro h
          by_contra hl
          have : 0 ≤ c'' l := Finset.sum_nonneg (fun k hk => (hw'v k hk).2 l (fun e => hl (e ▸ hk)))
          linarith
        · intro hl
          have hlT := Finset.mem_of_mem_erase hl
          have hlj := Finset.ne_of_mem_erase hl
          rw [hc''eq]
          have h1 : c l < 0 := hA l hlT
          have h2 : 0 ≤ θ * w j l := mul_nonneg hθpos.le ((hw j hj).2 l hlj)
          linarith
      have hfilter'' : Finset.univ.filter (fun i => c'' i < 0) = T.erase j := by
        ext l; simp [hneg'']
      have hfilter : Finset.univ.filter (fun i => c i < 0) = T := by
        ext l; simp [hnegT]
      have hc''j : c'' j = 0 := by
        have hne : w j j ≠ 0 := by linarith
        have : θ * w j j = c j := by rw [hθ, ha]; field_simp
        rw [hc''eq, this]; ring
      -- the diagonal entries of the reduced members
      have hdiag : ∀ l ∈ T.erase j, ŵ l l ≤ c'' l := by
        intro l hl
        have h := hŵ3 l
        rw [hfilter''] at h
        have : ∑ i ∈ T.erase j, ŵ i l = ŵ l l := by
          apply Finset.sum_eq_single l
          · intro i hi hne
            exact hŵ2 i l ((hneg'' i).mpr hi) ((hneg'' l).mpr hl) (Ne.symm hne)
          · intro h'; exact absurd hl h'
        rw [this] at h; exact h
      have hatj : ∀ i ∈ T.erase j, ŵ i j = 0 := by
        have hnn : ∀ i ∈ T.erase j, 0 ≤ ŵ i j := fun i hi =>
          (hŵ1 i ((hneg'' i).mpr hi)).2 j (Finset.ne_of_mem_erase hi).symm
        have hle : ∑ i ∈ T.erase j, ŵ i j ≤ 0 := by
          have h := hŵ3 j
          rw [hfilter''] at h
          calc ∑ i ∈ T.erase j, ŵ i j ≤ c'' j := h
            _ = 0 := hc''j
        have hz : ∑ i ∈ T.erase j, ŵ i j = 0 := le_antisymm hle (Finset.sum_nonneg hnn)
        exact (Finset.sum_eq_zero_iff_of_nonneg hnn).mp hz
      set r : ι → ℝ := fun l => θ * w j l / (-(ŵ l l)) with hr
      have hbpos : ∀ l ∈ T.erase j, θ * w j l < -(ŵ l l) ∨ (θ * w j l = 0 ∧ 0 < -(ŵ l l)) := by
        intro l hl
        have h1 := hdiag l hl
        have h2 : c l < 0 := hA l (Finset.mem_of_mem_erase hl)
        rw [hc''eq] at h1
        left; linarith
      have hbpos' : ∀ l ∈ T.erase j, 0 < -(ŵ l l) := by
        intro l hl
        have h1 := hdiag l hl
        have h2 := (hneg'' l).mpr hl
        linarith
      have hr0 : ∀ l ∈ T.erase j, 0 ≤ r l := fun l hl =>
        div_nonneg (mul_nonneg hθpos.le ((hw j hj).2 l (Finset.ne_of_mem_erase hl))) (hbpos' l hl).le
      have hr1 : ∀ l ∈ T.erase j, r l ≤ 1 := by
        intro l hl
        rw [hr]; simp only
        rw [div_le_one (hbpos' l hl)]
        have h1 := hdiag l hl
        have h2 : c l < 0 := hA l (Finset.mem_of_mem_erase hl)
        rw [hc''eq] at h1; linarith
      have hrdiag : ∀ l ∈ T.erase j, r l * ŵ l l = -(θ * w j l) := by
        intro l hl
        rw [hr]; simp only
        have : ŵ l l ≠ 0 := by have := hbpos' l hl; linarith
        field_simp
      -- the entry at l ∈ T' of the new member j
      have hjl : ∀ l ∈ T.erase j, θ * w j l + ∑ m ∈ T.erase j, r m * ŵ m l = 0 := by
        intro l hl
        have : ∑ m ∈ T.erase j, r m * ŵ m l = r l * ŵ l l := by
          apply Finset.sum_eq_single l
          · intro m hm hne
            rw [hŵ2 m l ((hneg'' m).mpr hm) ((hneg'' l).mpr hl) (Ne.symm hne), mul_zero]
          · intro h'; exact absurd hl h'
        rw [this, hrdiag l hl]; ring
      refine ⟨fun i => if i = j then (fun l => θ * w j l + ∑ m ∈ T.erase j, r m * ŵ m l) else (fun l => (1 - r i) * ŵ i l),
        ?_, ?_, ?_⟩
      · intro i hi
        have hiT : i ∈ T := (hnegT i).mp hi
        by_cases hij : i = j
        · subst hij
          simp only [if_true]
          refine ⟨NN_add X α _ _ (NN_smul X α θ (w i) hθpos.le (hw i hj).1)
            (NN_sum X α (T.erase i) r ŵ (fun m hm => ⟨hr0 m hm, (hŵ1 m ((hneg'' m).mpr hm)).1⟩)), ?_⟩
          intro l hl
          by_cases hlT : l ∈ T.erase i
          · show 0 ≤ θ * w i l + ∑ m ∈ T.erase i, r m * ŵ m l
            rw [hjl l hlT]
          · show 0 ≤ θ * w i l + ∑ m ∈ T.erase i, r m * ŵ m l
            apply add_nonneg (mul_nonneg hθpos.le ((hw i hj).2 l hl))
            apply Finset.sum_nonneg
            intro m hm
            exact mul_nonneg (hr0 m hm) ((hŵ1 m ((hneg'' m).mpr hm)).2 l (fun e => hlT (e ▸ hm)))
        · simp only [hij, if_false]
          have hiT' : i ∈ T.erase j := Finset.mem_erase.mpr ⟨hij, hiT⟩
          exact AGEf_smul X α i (ŵ i) (1 - r i) (by linarith [hr1 i hiT']) (hŵ1 i ((hneg'' i).mpr hiT'))
      · intro i l hi hl hli
        have hiT : i ∈ T := (hnegT i).mp hi
        have hlT : l ∈ T := (hnegT l).mp hl
        by_cases hij : i = j
        · subst hij
          simp only [if_true]
          exact hjl l (Finset.mem_erase.mpr ⟨hli, hlT⟩)
        · simp only [hij, if_false]
          have hiT' : i ∈ T.erase j := Finset.mem_erase.mpr ⟨hij, hiT⟩
          by_cases hlj : l = j
          · subst hlj; rw [hatj i hiT', mul_zero]
          · have hlT' : l ∈ T.erase j := Finset.mem_erase.mpr ⟨hlj, hlT⟩
            rw [hŵ2 i l ((hneg'' i).mpr hiT') ((hneg'' l).mpr hlT') hli, mul_zero]
      · intro l
        rw [hfilter, ← Finset.add_sum_erase T _ hj]
        simp only [if_true]
        have hrest' : ∑ i ∈ T.erase j, (if i = j then (fun l => θ * w j l + ∑ m ∈ T.erase j, r m * ŵ m l)
            else (fun l => (1 - r i) * ŵ i l)) l = ∑ i ∈ T.erase j, (1 - r i) * ŵ i l := by
          apply Finset.sum_congr rfl
          intro i hi
          simp only [Finset.ne_of_mem_erase hi, if_false]
        rw [hrest']
        have h3 := hŵ3 l
        rw [hfilter''] at h3
        have hexp : ∑ i ∈ T.erase j, (1 - r i) * ŵ i l = ∑ i ∈ T.erase j, ŵ i l - ∑ i ∈ T.erase j, r i * ŵ i l := by
          rw [← Finset.sum_sub_distrib]; apply Finset.sum_congr rfl; intro i _; ring
        rw [hexp]
        have := hc''eq l
        linarith

/-- THE SIGN-PATTERN REDUCTION: a sum of AGE functions with total coefficient vector `c` is (entrywise at most `c` and) a sum of AGE
    functions indexed by the negative entries of `c`, each of which vanishes at the other negative entries -/
theorem sign_reduction (X : Set (Fin N → ℝ)) (α : ι → Fin N → ℝ) (T : Finset ι) (w : ι → ι → ℝ) (hw : ∀ k ∈ T, AGEf X α k (w k)) :
    SignReduced X α (fun l => ∑ k ∈ T, w k l) :=
  sign_reduction_aux X α T.card T w rfl hw

theorem NN_of_nonneg (X : Set (Fin N → ℝ)) (α : ι → Fin N → ℝ) (u : ι → ℝ) (hu : ∀ j, 0 ≤ u j) : NN X α u := by
  intro x _
  exact Finset.sum_nonneg (fun j _ => mul_nonneg (hu j) (Real.exp_pos _).le)

/-- THE EQUALITY FORM (what `sum_age_force_equality` asks for): when `c` has a negative entry, the reduced AGE functions can be chosen to
    sum to `c` EXACTLY: the slack at a negative index goes to that index's own function, the slack elsewhere to any one of them -/
theorem signReduced_eq (X : Set (Fin N → ℝ)) (α : ι → Fin N → ℝ) (c : ι → ℝ) (h : SignReduced X α c) (i0 : ι) (hi0 : c i0 < 0) :
    ∃ ŵ : ι → ι → ℝ,
      (∀ i, c i < 0 → AGEf X α i (ŵ i)) ∧
      (∀ i l, c i < 0 → c l < 0 → l ≠ i → ŵ i l = 0) ∧
      (∀ l, ∑ i ∈ Finset.univ.filter (fun i => c i < 0), ŵ i l = c l) := by
  obtain ⟨w, h1, h2, h3⟩ := h
  set δ : ι → ℝ := fun l => c l - ∑ i ∈ Finset.univ.filter (fun i => c i < 0), w i l with hδ
  have hδ0 : ∀ l, 0 ≤ δ l := fun l => by simp only [hδ]; linarith [h3 l]
  set e : ι → ι → ℝ := fun i l => if l = i then (if c l < 0 then δ l else (if i = i0 then δ l else 0))
    else (if i = i0 ∧ ¬ c l < 0 then δ l else 0) with he
  have he0 : ∀ i l, 0 ≤ e i l := by
    intro i l
    simp only [he]
    split_ifs <;> first | exact hδ0 l | exact le_refl 0
  refine ⟨fun i l => w i l + e i l, ?_, ?_, ?_⟩
  · intro i hi
    refine ⟨NN_add X α (w i) (e i) (h1 i hi).1 (NN_of_nonneg X α (e i) (he0 i)), ?_⟩
    intro j hj
    exact add_nonneg ((h1 i hi).2 j hj) (he0 i j)
  · intro i l hi hl hli
    have : e i l = 0 := by
      simp only [he, hli, if_false, hl, not_true_eq_false, and_false]
    show w i l + e i l = 0
    rw [h2 i l hi hl hli, this, add_zero]
  · intro l
    show ∑ i ∈ Finset.univ.filter (fun i => c i < 0), (w i l + e i l) = c l
    rw [Finset.sum_add_distrib]
    have hsum : ∑ i ∈ Finset.univ.filter (fun i => c i < 0), e i l = δ l := by
      by_cases hl : c l < 0
      · -- only the function of l itself receives slack at l
        rw [Finset.sum_eq_single l]
        · simp [he, hl]
        · intro i _ hil
          have hli : l ≠ i := fun e' => hil e'.symm
          simp only [he, hli, if_false, hl, not_true_eq_false, and_false]
        · intro hnot
          exact absurd (Finset.mem_filter.mpr ⟨Finset.mem_univ l, hl⟩) hnot
      · -- l is not negative: only i0 receives slack at l
        rw [Finset.sum_eq_single i0]
        · have hli0 : l ≠ i0 := fun e' => hl (e' ▸ hi0)
          simp [he, hli0, hl]
        · intro i hi hii0
          have hci : c i < 0 := (Finset.mem_filter.mp hi).2
          have hli : l ≠ i := fun e' => hl (e' ▸ hci)
          simp only [he, hli, if_false, hii0, false_and]
        · intro hnot
          exact absurd (Finset.mem_filter.mpr ⟨Finset.mem_univ i0, hi0⟩) hnot
    rw [hsum]
    simp only [hδ]; ring

end Sageopt.Analysis
