/-
C15 helper lemmas, part 1: real evaluation of the normalised constraint `g · e^{-a·y}`:
`sigR` against the character calculus of `Lemmas/RelaxSigCalc.lean`, the monomial `e^{a·y}`, `negExp`,
and the value of `mulQ g (monomial g.n (negExp a))`.
-/
import SageoptModel.Lemmas.DomainSem
import SageoptModel.Lemmas.RelaxSigCalc
import SageoptModel.Lemmas.PolyAMono

namespace Sageopt.Domain
open Sageopt Sageopt.Sig Sageopt.Sig.Hom Sageopt.Relax Sageopt.Poly Sageopt.Sage Sageopt.RelaxSig

/-! ### `sigR` as an evaluation -/

theorem dm_sigR_eq (ts : List (Exp × Rat)) (y : List ℝ) :
    sigR ts y = eval (rs_chi y) (mapT rs_cast ts) := by
  unfold sigR eval mapT rs_chi rs_cast
  rw [List.map_map]
  rfl

theorem dm_wf_of (g : SigQ) (hg : SigWf g) (hgrid : ∀ t ∈ g.terms, OnGrid t.1) : Wf g :=
  ⟨hg.1, hgrid, hg.2⟩

theorem dm_sigWf_of {g : SigQ} (hg : Wf g) : SigWf g := ⟨hg.width, hg.nodup⟩

theorem dm_sigR_mulQ (f g : SigQ) (hf : Wf f) (hg : Wf g) (hn : f.n = g.n) (y : List ℝ) :
    sigR (mulQ f g).terms y = sigR f.terms y * sigR g.terms y := by
  unfold mulQ
  rw [dm_sigR_eq, dm_sigR_eq, dm_sigR_eq, rs_eval_withoutZeros y _ (product_wf f g hf hg hn),
    rs_eval_product y f.n f g hf hg rfl hn.symm]

theorem dm_mulQ_wf (f g : SigQ) (hf : Wf f) (hg : Wf g) (hn : f.n = g.n) : Wf (mulQ f g) :=
  withoutZeros_wf' isZeroQ _ (product_wf f g hf hg hn)

theorem dm_mulQ_n (f g : SigQ) : (mulQ f g).n = f.n := by
  unfold mulQ
  rw [withoutZeros_n]
  rfl

/-! ### `negExp` and the monomial -/

theorem dm_negExp_length (a : Exp) : (negExp a).length = a.length := by simp [negExp]

theorem dm_negExp_onGrid {a : Exp} (h : OnGrid a) : OnGrid (negExp a) := by
  intro q hq
  simp only [negExp, List.mem_map] at hq
  obtain ⟨p, hp, rfl⟩ := hq
  exact round7_neg_grid p (h p hp)

theorem dm_rdot_negExp (a : Exp) (y : List ℝ) : rdot (negExp a) y = - rdot a y := by
  induction a generalizing y with
  | nil => simp [negExp, rdot]
  | cons q a ih =>
    cases y with
    | nil => simp [negExp, rdot]
    | cons t y =>
      have h := ih y
      unfold negExp at h ⊢
      rw [List.map_cons, pa_rdot_cons, pa_rdot_cons, h]
      push_cast
      ring

theorem dm_addExp_negExp (a : Exp) : addExp a (negExp a) = zeroExp a.length := by
  unfold addExp negExp zeroExp
  induction a with
  | nil => rfl
  | cons x xs ih =>
    simp only [List.map_cons, List.zipWith_cons_cons, List.length_cons, List.replicate_succ, ih]
    congr 1
    ring

theorem dm_monomial_terms (n : Nat) {a : Exp} (ha : OnGrid a) : (monomial n a).terms = [(a, 1)] := by
  unfold monomial
  rw [roundExp_of_onGrid ha, mk_terms_of_wf]
  · intro t ht
    simp only [List.mem_singleton] at ht
    rw [ht]; exact ha
  · simp [keys]

theorem dm_monomial_n (n : Nat) (a : Exp) : (monomial n a).n = n := rfl

theorem dm_monomial_wf (n : Nat) (a : Exp) (hl : a.length = n) : Wf (monomial n a) := by
  unfold monomial
  apply mk_wf'
  intro t ht
  simp only [List.mem_singleton] at ht
  rw [ht]
  simpa [roundExp_length] using hl

theorem dm_sigR_monomial (n : Nat) {a : Exp} (ha : OnGrid a) (y : List ℝ) :
    sigR (monomial n a).terms y = Real.exp (rdot a y) := by
  rw [dm_monomial_terms n ha]
  simp [sigR]

/-- the normalised constraint evaluates to `g(y) · e^{-a·y}` -/
theorem dm_sigR_normalised (g : SigQ) (hg : Wf g) (a : Exp) (ha : OnGrid a) (hl : a.length = g.n)
    (y : List ℝ) :
    sigR (mulQ g (monomial g.n (negExp a))).terms y = sigR g.terms y * Real.exp (-(rdot a y)) := by
  rw [dm_sigR_mulQ g _ hg (dm_monomial_wf g.n _ (by rw [dm_negExp_length, hl])) rfl,
    dm_sigR_monomial g.n (dm_negExp_onGrid ha), dm_rdot_negExp]

theorem dm_normalised_wf (g : SigQ) (hg : Wf g) (a : Exp) (hl : a.length = g.n) :
    Wf (mulQ g (monomial g.n (negExp a))) :=
  dm_mulQ_wf g _ hg (dm_monomial_wf g.n _ (by rw [dm_negExp_length, hl])) rfl

end Sageopt.Domain
