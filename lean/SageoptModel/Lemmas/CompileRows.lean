/-
C07 helper lemmas, rows of the constraint classes: value of `rowEntries`/`linRows`, the elementwise,
primal, dual (`dualMap`), pow and psd classes; second-order cone self-duality.
-/
import SageoptModel.Lemmas.CompileAtoms

namespace Sageopt.Compile
open Sageopt Sageopt.Solvers Sageopt.Analysis

/-- value of a term list -/
noncomputable def termsVal (σ : Nat → ℝ) (τ : NlAtom → ℝ) (ts : List (AtomRef × Rat)) : ℝ :=
  (ts.map fun t => (t.2 : ℝ) * (match t.1 with | .var id => σ id | .nl a => τ a)).sum

theorem rowValWith_eq (σ : Nat → ℝ) (τ : NlAtom → ℝ) (r : SRow) :
    rowValWith σ τ r = termsVal σ τ r.terms + (r.off : ℝ) := rfl

theorem termsMapM_ok (σ : Nat → ℝ) (τ : NlAtom → ℝ) (s : Rat) (ts : List (AtomRef × Rat)) (ents : List (Nat × Rat))
    (h : ts.mapM (fun t => match t.1 with
        | .var id => (pure (id, s * t.2) : M (Nat × Rat))
        | .nl _ => throw "nonlinear atom outside an elementwise constraint") = .ok ents) :
    (∀ t ∈ ts, ∃ id, t.1 = .var id) ∧
    (ents.map fun e => ((e.2 : Rat) : ℝ) * σ e.1).sum = (s : ℝ) * termsVal σ τ ts := by
  rw [mapM_ok_iff] at h
  induction h with
  | nil => simp [termsVal]
  | @cons t e ts ents h1 _ ih =>
    obtain ⟨ref, c⟩ := t
    cases ref with
    | nl a => cases h1
    | var id =>
      simp only [pure, Except.pure, Except.ok.injEq] at h1
      subst h1
      refine ⟨?_, ?_⟩
      · intro t ht
        rcases List.mem_cons.1 ht with rfl | ht
        · exact ⟨id, rfl⟩
        · exact ih.1 t ht
      · simp only [List.map_cons, List.sum_cons, ih.2, termsVal]
        push_cast; ring

theorem rowAtoms_nil_iff (r : SRow) : rowAtoms r = [] ↔ ∀ t ∈ r.terms, ∃ id, t.1 = .var id := by
  unfold rowAtoms
  rw [List.filterMap_eq_nil_iff]
  constructor
  · intro h t ht
    have := h t ht
    obtain ⟨ref, c⟩ := t
    cases ref with
    | var id => exact ⟨id, rfl⟩
    | nl a => simp at this
  · intro h t ht
    obtain ⟨id, hid⟩ := h t ht
    simp [hid]

theorem rowEntries_ok (σ : Nat → ℝ) (τ : NlAtom → ℝ) (r : SRow) (dummy : Nat) (s : Rat) (ents : List (Nat × Rat))
    (h : rowEntries r dummy s = .ok ents) :
    rowAtoms r = [] ∧
    (ents.map fun e => ((e.2 : Rat) : ℝ) * σ e.1).sum = (s : ℝ) * termsVal σ τ r.terms := by
  unfold rowEntries at h
  by_cases he : r.terms.isEmpty = true
  · rw [if_pos he] at h
    have h0 : r.terms = [] := by simpa using he
    have : ents = [(dummy, 0)] := by cases h; rfl
    subst this
    refine ⟨by simp [rowAtoms, h0], ?_⟩
    simp [h0, termsVal]
  · rw [if_neg he] at h
    obtain ⟨h1, h2⟩ := termsMapM_ok σ τ s r.terms ents h
    exact ⟨(rowAtoms_nil_iff r).2 h1, h2⟩

theorem linRows_ok (σ : Nat → ℝ) (τ : NlAtom → ℝ) (rows : List SRow) (dummy : Nat) (s : Rat) (crows : List CRow)
    (h : linRows rows dummy s = .ok crows) :
    (∀ r ∈ rows, rowAtoms r = []) ∧
    crows.map (crowVal σ) = rows.map (fun r => (s : ℝ) * rowValWith σ τ r) := by
  unfold linRows at h
  rw [mapM_ok_iff] at h
  induction h with
  | nil => simp
  | @cons r cr rows crows h1 _ ih =>
    cases hre : rowEntries r dummy s with
    | error e => rw [hre] at h1; cases h1
    | ok ents =>
      rw [hre] at h1
      have hcr : cr = ⟨ents, s * r.off, false⟩ := by cases h1; rfl
      obtain ⟨h3, h4⟩ := rowEntries_ok σ τ r dummy s ents hre
      refine ⟨?_, ?_⟩
      · intro r' hr'
        rcases List.mem_cons.1 hr' with rfl | hr'
        · exact h3
        · exact ih.1 r' hr'
      · simp only [List.map_cons, ih.2, hcr, crowVal_false, h4, rowValWith_eq]
        congr 1
        push_cast; ring

theorem linRows_length (rows : List SRow) (dummy : Nat) (s : Rat) (crows : List CRow)
    (h : linRows rows dummy s = .ok crows) : crows.length = rows.length :=
  mapM_ok_length h


theorem conRows_elem_ok (dummy : Nat) (isEq : Bool) (rows : List SRow) (crows : List CRow) (K : List Cone)
    (h : conRows dummy (.elem isEq rows) = .ok (crows, K)) :
    linRows rows dummy (-1) = .ok crows ∧ K = [⟨if isEq then .zero else .pos, rows.length⟩] := by
  simp only [conRows] at h
  cases hl : linRows rows dummy (-1) with
  | error e => rw [hl] at h; cases h
  | ok cr =>
    rw [hl] at h
    simp only [bind, Except.bind, pure, Except.pure, Except.ok.injEq, Prod.mk.injEq] at h
    exact ⟨by rw [h.1], h.2.symm⟩

theorem conRows_primal_ok (dummy : Nat) (y : List SRow) (K : List Cone) (crows : List CRow) (K' : List Cone)
    (h : conRows dummy (.primal y K) = .ok (crows, K')) :
    linRows y dummy 1 = .ok crows ∧ K' = K := by
  simp only [conRows] at h
  cases hl : linRows y dummy 1 with
  | error e => rw [hl] at h; cases h
  | ok cr =>
    rw [hl] at h
    simp only [bind, Except.bind, pure, Except.pure, Except.ok.injEq, Prod.mk.injEq] at h
    exact ⟨by rw [h.1], h.2.symm⟩

theorem conRows_pow_ok (dummy : Nat) (w z : List SRow) (crows : List CRow) (K' : List Cone)
    (h : conRows dummy (.pow w z) = .ok (crows, K')) :
    linRows (w ++ z) dummy 1 = .ok crows ∧ K' = [⟨.pow, w.length + z.length⟩] := by
  simp only [conRows] at h
  cases hl : linRows (w ++ z) dummy 1 with
  | error e => rw [hl] at h; cases h
  | ok cr =>
    rw [hl] at h
    simp only [bind, Except.bind, pure, Except.pure, Except.ok.injEq, Prod.mk.injEq] at h
    exact ⟨by rw [h.1], h.2.symm⟩

theorem conRows_psd_ok (dummy : Nat) (arg : List (List SRow)) (crows : List CRow) (K' : List Cone)
    (h : conRows dummy (.psd arg) = .ok (crows, K')) :
    linRows (triuEntries arg) (dummy + 1) 1 = .ok crows ∧ K' = [⟨.psd, (triuEntries arg).length⟩] := by
  simp only [conRows] at h
  cases hl : linRows (triuEntries arg) (dummy + 1) 1 with
  | error e => simp only [hl] at h; cases h
  | ok cr =>
    simp only [hl] at h
    simp only [bind, Except.bind, pure, Except.pure, Except.ok.injEq, Prod.mk.injEq] at h
    exact ⟨by rw [h.1], h.2.symm⟩

theorem elem_rows_residual' (σ : Nat → ℝ) (dummy : Nat) (isEq : Bool) (rows : List SRow)
    (crows : List CRow) (K : List Cone)
    (h : conRows dummy (.elem isEq rows) = .ok (crows, K)) :
    crows.map (crowVal σ) = rows.map (fun r => - affVal σ r) ∧
    K = [⟨if isEq then .zero else .pos, rows.length⟩] := by
  obtain ⟨h1, h2⟩ := conRows_elem_ok dummy isEq rows crows K h
  refine ⟨?_, h2⟩
  rw [(linRows_ok σ (fun _ => 0) rows dummy (-1) crows h1).2]
  apply List.map_congr_left
  intro r _
  simp [affVal]

theorem primal_rows' (σ : Nat → ℝ) (dummy : Nat) (y : List SRow) (K : List Cone)
    (crows : List CRow) (K' : List Cone) (h : conRows dummy (.primal y K) = .ok (crows, K')) :
    K' = K ∧ crows.map (crowVal σ) = y.map (affVal σ) ∧ ∀ r ∈ y, rowAtoms r = [] := by
  obtain ⟨h1, h2⟩ := conRows_primal_ok dummy y K crows K' h
  obtain ⟨h3, h4⟩ := linRows_ok σ (fun _ => 0) y dummy 1 crows h1
  refine ⟨h2, ?_, h3⟩
  rw [h4]
  apply List.map_congr_left
  intro r _
  simp [affVal]


/-! ### DualProductCone -/

/-- value of a (row, e-flag) pair produced by `dualMap` -/
noncomputable def dval (σ : Nat → ℝ) (p : SRow × Bool) : ℝ :=
  (if p.2 then Real.exp 1 else 1) * affVal σ p.1

theorem conRows_dual_ok (dummy : Nat) (y : List SRow) (K : List Cone) (crows : List CRow) (K' : List Cone)
    (h : conRows dummy (.dual y K) = .ok (crows, K')) :
    ∃ ym, dualMap y K = .ok (ym, K') ∧
      ym.mapM (fun p => do pure (⟨← rowEntries p.1 dummy 1, p.1.off, p.2⟩ : CRow)) = .ok crows := by
  simp only [conRows] at h
  cases hd : dualMap y K with
  | error e => rw [hd] at h; cases h
  | ok p =>
    obtain ⟨ym, K''⟩ := p
    rw [hd] at h
    simp only [bind, Except.bind] at h
    by_cases he : ym.isEmpty = true
    · rw [if_pos he] at h
      have h0 : ym = [] := by simpa using he
      simp only [pure, Except.pure, Except.ok.injEq, Prod.mk.injEq] at h
      refine ⟨ym, by rw [h.2], ?_⟩
      rw [h0, ← h.1]; rfl
    · rw [if_neg he] at h
      cases hm : ym.mapM (fun p => do pure (⟨← rowEntries p.1 dummy 1, p.1.off, p.2⟩ : CRow)) with
      | error e =>
        simp only [bind, Except.bind] at hm
        rw [hm] at h; cases h
      | ok rows =>
        have hm' := hm
        simp only [bind, Except.bind] at hm'
        rw [hm'] at h
        simp only [pure, Except.pure, Except.ok.injEq, Prod.mk.injEq] at h
        exact ⟨ym, by rw [h.2], by rw [← h.1]; exact hm⟩

theorem dualRows_val (σ : Nat → ℝ) (dummy : Nat) (ym : List (SRow × Bool)) (crows : List CRow)
    (h : ym.mapM (fun p => do pure (⟨← rowEntries p.1 dummy 1, p.1.off, p.2⟩ : CRow)) = .ok crows) :
    (∀ p ∈ ym, rowAtoms p.1 = []) ∧ crows.map (crowVal σ) = ym.map (dval σ) := by
  rw [mapM_ok_iff] at h
  induction h with
  | nil => simp
  | @cons p cr ym crows h1 _ ih =>
    cases hre : rowEntries p.1 dummy 1 with
    | error e => simp only [hre] at h1; cases h1
    | ok ents =>
      simp only [hre] at h1
      have hcr : cr = ⟨ents, p.1.off, p.2⟩ := by cases h1; rfl
      obtain ⟨h3, h4⟩ := rowEntries_ok σ (fun _ => 0) p.1 dummy 1 ents hre
      refine ⟨?_, ?_⟩
      · intro q hq
        rcases List.mem_cons.1 hq with rfl | hq
        · exact h3
        · exact ih.1 q hq
      · simp only [List.map_cons, ih.2, hcr]
        congr 1
        simp only [crowVal, dval, affVal, rowValWith_eq, h4]
        push_cast; ring

theorem affVal_negRow (σ : Nat → ℝ) (r : SRow) : affVal σ (negRow r) = - affVal σ r := by
  simp only [affVal, rowValWith_eq, negRow, termsVal]
  have : ∀ ts : List (AtomRef × Rat),
      ((ts.map fun t => (t.1, -t.2)).map fun t => ((t.2 : Rat) : ℝ) * (match t.1 with | .var id => σ id | .nl _ => (0 : ℝ))).sum
        = - (ts.map fun t => ((t.2 : Rat) : ℝ) * (match t.1 with | .var id => σ id | .nl _ => (0 : ℝ))).sum := by
    intro ts
    induction ts with
    | nil => simp
    | cons t ts ih =>
      simp only [List.map_cons, List.sum_cons, ih]
      push_cast; ring
  rw [this]; push_cast; ring


theorem dval_false (σ : Nat → ℝ) (r : SRow) : dval σ (r, false) = affVal σ r := by simp [dval]
theorem dval_true (σ : Nat → ℝ) (r : SRow) : dval σ (r, true) = Real.exp 1 * affVal σ r := by simp [dval]

theorem map_dval_false (σ : Nat → ℝ) (blk : List SRow) :
    (blk.map (·, false)).map (dval σ) = blk.map (affVal σ) := by
  rw [List.map_map]; apply List.map_congr_left; intro r _; exact dval_false σ r

theorem dualMap_sem (Q : CType → List ℝ → Prop) (σ : Nat → ℝ) :
    ∀ (K : List Cone) (y : List SRow) (ym : List (SRow × Bool)) (K' : List Cone),
    (∀ co ∈ K, co.type ∈ [CType.zero, .pos, .soc, .exp]) → y.length = totalLen K →
    dualMap y K = .ok (ym, K') →
    ym.length = totalLen K' ∧
    (FeasBlocks (conP Q) K' (ym.map (dval σ)) ↔ FeasBlocks (dualP Q) K (y.map (affVal σ))) := by
  intro K
  induction K with
  | nil =>
    intro y ym K' _ _ h
    simp only [dualMap, pure, Except.pure, Except.ok.injEq, Prod.mk.injEq] at h
    obtain ⟨rfl, rfl⟩ := h
    simp
  | cons co K ih =>
    intro y ym K' hK hlen h
    rw [totalLen_cons] at hlen
    simp only [dualMap] at h
    cases hrec : dualMap (y.drop co.len) K with
    | error e => rw [hrec] at h; cases h
    | ok pr =>
      obtain ⟨rest, K''⟩ := pr
      rw [hrec] at h
      simp only [bind, Except.bind] at h
      obtain ⟨ihl, ihf⟩ := ih (y.drop co.len) rest K'' (fun c hc => hK c (List.mem_cons_of_mem _ hc))
        (by rw [List.length_drop]; omega) hrec
      have hblk : (y.take co.len).length = co.len := by rw [List.length_take]; omega
      have hty := hK co (List.mem_cons_self ..)
      obtain ⟨ty, len⟩ := co
      simp only [List.mem_cons, List.not_mem_nil, or_false] at hty
      simp only at hblk h hlen ihl ihf
      rw [feasBlocks_cons, ← List.map_take, ← List.map_drop]
      simp only []
      rcases hty with rfl | rfl | rfl | rfl
      · -- zero
        simp only [pure, Except.pure, Except.ok.injEq, Prod.mk.injEq] at h
        obtain ⟨rfl, rfl⟩ := h
        refine ⟨ihl, ?_⟩
        rw [ihf]
        simp [dualP]
      · -- pos
        simp only [pure, Except.pure, Except.ok.injEq, Prod.mk.injEq] at h
        obtain ⟨rfl, rfl⟩ := h
        refine ⟨by rw [List.length_append, List.length_map, hblk, ihl, totalLen_cons], ?_⟩
        rw [feasBlocks_cons, List.map_append, map_dval_false]
        have hl : ((y.take len).map (affVal σ)).length = len := by rw [List.length_map, hblk]
        simp only []
        rw [List.take_left' hl, List.drop_left' hl, ihf]
        exact Iff.rfl
      · -- soc
        simp only [pure, Except.pure, Except.ok.injEq, Prod.mk.injEq] at h
        obtain ⟨rfl, rfl⟩ := h
        refine ⟨by rw [List.length_append, List.length_map, hblk, ihl, totalLen_cons], ?_⟩
        rw [feasBlocks_cons, List.map_append, map_dval_false]
        have hl : ((y.take len).map (affVal σ)).length = len := by rw [List.length_map, hblk]
        simp only []
        rw [List.take_left' hl, List.drop_left' hl, ihf]
        exact Iff.rfl
      · -- exp
        rcases hb : y.take len with _ | ⟨y0, _ | ⟨y1, _ | ⟨y2, _ | ⟨y3, r⟩⟩⟩⟩
        · rw [hb] at h; cases h
        · rw [hb] at h; cases h
        · rw [hb] at h; cases h
        · rw [hb] at h hblk
          simp only [pure, Except.pure, Except.ok.injEq, Prod.mk.injEq] at h
          obtain ⟨rfl, rfl⟩ := h
          have hl3 : len = 3 := by simpa using hblk.symm
          subst hl3
          refine ⟨by simp [ihl]; omega, ?_⟩
          rw [feasBlocks_cons]
          simp only [List.map_append, List.map_cons, List.map_nil, dval_false, dval_true, affVal_negRow]
          have e1 : List.take 3 ([-affVal σ y2, Real.exp 1 * affVal σ y1, -affVal σ y0] ++ rest.map (dval σ))
              = [-affVal σ y2, Real.exp 1 * affVal σ y1, -affVal σ y0] := rfl
          have e2 : List.drop 3 ([-affVal σ y2, Real.exp 1 * affVal σ y1, -affVal σ y0] ++ rest.map (dval σ))
              = rest.map (dval σ) := rfl
          rw [e1, e2, ihf]
          simp only [conP, dualP, realP, expR, dexpR, exp_dual_iff]
        · rw [hb] at h; cases h


theorem dual_rows_sem (Q : CType → List ℝ → Prop) (σ : Nat → ℝ) (dummy : Nat) (y : List SRow) (K : List Cone)
    (hK : ∀ co ∈ K, co.type ∈ [CType.zero, .pos, .soc, .exp]) (hlen : y.length = (K.map (·.len)).sum)
    (crows : List CRow) (K' : List Cone) (h : conRows dummy (.dual y K) = .ok (crows, K')) :
    crows.length = totalLen K' ∧
    (FeasBlocks (conP Q) K' (crows.map (crowVal σ)) ↔ FeasBlocks (dualP Q) K (y.map (affVal σ))) := by
  obtain ⟨ym, h1, h2⟩ := conRows_dual_ok dummy y K crows K' h
  obtain ⟨_, h4⟩ := dualRows_val σ dummy ym crows h2
  obtain ⟨h5, h6⟩ := dualMap_sem Q σ K y ym K' hK hlen h1
  rw [h4]
  refine ⟨?_, h6⟩
  rw [mapM_ok_length h2, h5]

/-! ### rows in the `'0'` blocks of a DualProductCone -/

/-- the rows of `y` that lie in the `'0'` blocks of `K` (the rows `DualProductCone.conic_form` never looks at) -/
def dualZeroRows : List SRow → List Cone → List SRow
  | _, [] => []
  | y, co :: K => (if co.type = .zero then y.take co.len else []) ++ dualZeroRows (y.drop co.len) K

theorem dualZeroRows_subset : ∀ (K : List Cone) (y : List SRow), ∀ r ∈ dualZeroRows y K, r ∈ y := by
  intro K
  induction K with
  | nil => intro y r hr; simp [dualZeroRows] at hr
  | cons co K ih =>
    intro y r hr
    simp only [dualZeroRows, List.mem_append] at hr
    rcases hr with hr | hr
    · split at hr
      · exact List.mem_of_mem_take hr
      · simp at hr
    · exact List.mem_of_mem_drop (ih _ r hr)

theorem rowAtoms_negRow (r : SRow) : rowAtoms (negRow r) = rowAtoms r := by
  unfold rowAtoms negRow
  simp only [List.filterMap_map]
  rfl

theorem dualMap_affine :
    ∀ (K : List Cone) (y : List SRow) (ym : List (SRow × Bool)) (K' : List Cone),
    (∀ co ∈ K, co.type ∈ [CType.zero, .pos, .soc, .exp]) →
    dualMap y K = .ok (ym, K') → (∀ p ∈ ym, rowAtoms p.1 = []) →
    (∀ r ∈ dualZeroRows y K, rowAtoms r = []) → ∀ r ∈ y.take (totalLen K), rowAtoms r = [] := by
  intro K
  induction K with
  | nil => intro y ym K' _ _ _ _ r hr; simp at hr
  | cons co K ih =>
    intro y ym K' hK h hym hz r hr
    simp only [dualMap] at h
    cases hrec : dualMap (y.drop co.len) K with
    | error e => rw [hrec] at h; cases h
    | ok pr =>
      obtain ⟨rest, K''⟩ := pr
      rw [hrec] at h
      simp only [bind, Except.bind] at h
      have hz2 : ∀ r ∈ dualZeroRows (y.drop co.len) K, rowAtoms r = [] := by
        intro r hr; apply hz; simp only [dualZeroRows, List.mem_append]; exact Or.inr hr
      have ih' := ih (y.drop co.len) rest K'' (fun c hc => hK c (List.mem_cons_of_mem _ hc)) hrec
      -- split r ∈ take (len + total) y
      rw [totalLen_cons, List.take_add, List.mem_append] at hr
      have hty := hK co (List.mem_cons_self ..)
      obtain ⟨ty, len⟩ := co
      simp only [List.mem_cons, List.not_mem_nil, or_false] at hty
      simp only at h hr hz ih' hz2
      rcases hty with rfl | rfl | rfl | rfl
      · simp only [pure, Except.pure, Except.ok.injEq, Prod.mk.injEq] at h
        obtain ⟨rfl, rfl⟩ := h
        rcases hr with hr | hr
        · apply hz; simp only [dualZeroRows, if_true, List.mem_append]; exact Or.inl hr
        · exact ih' hym hz2 r hr
      · simp only [pure, Except.pure, Except.ok.injEq, Prod.mk.injEq] at h
        obtain ⟨rfl, rfl⟩ := h
        rcases hr with hr | hr
        · exact hym (r, false) (List.mem_append_left _ (List.mem_map.2 ⟨r, hr, rfl⟩))
        · exact ih' (fun p hp => hym p (List.mem_append_right _ hp)) hz2 r hr
      · simp only [pure, Except.pure, Except.ok.injEq, Prod.mk.injEq] at h
        obtain ⟨rfl, rfl⟩ := h
        rcases hr with hr | hr
        · exact hym (r, false) (List.mem_append_left _ (List.mem_map.2 ⟨r, hr, rfl⟩))
        · exact ih' (fun p hp => hym p (List.mem_append_right _ hp)) hz2 r hr
      · rcases hb : y.take len with _ | ⟨y0, _ | ⟨y1, _ | ⟨y2, _ | ⟨y3, rr⟩⟩⟩⟩
        · rw [hb] at h; cases h
        · rw [hb] at h; cases h
        · rw [hb] at h; cases h
        · rw [hb] at h hr
          simp only [pure, Except.pure, Except.ok.injEq, Prod.mk.injEq] at h
          obtain ⟨rfl, rfl⟩ := h
          rcases hr with hr | hr
          · simp only [List.mem_cons, List.not_mem_nil, or_false] at hr
            rcases hr with rfl | rfl | rfl
            · have := hym (negRow r, false) (by simp)
              rwa [rowAtoms_negRow] at this
            · exact hym (r, true) (by simp)
            · have := hym (negRow r, false) (by simp)
              rwa [rowAtoms_negRow] at this
          · exact ih' (fun p hp => hym p (List.mem_append_right _ hp)) hz2 r hr
        · rw [hb] at h; cases h


/-- a successfully compiled `DualProductCone` has affine rows everywhere except possibly in its `'0'` blocks -/
theorem dual_affine_of_zero (dummy : Nat) (y : List SRow) (K : List Cone)
    (hK : ∀ co ∈ K, co.type ∈ [CType.zero, .pos, .soc, .exp]) (hlen : y.length = (K.map (·.len)).sum)
    (crows : List CRow) (K' : List Cone) (h : conRows dummy (.dual y K) = .ok (crows, K'))
    (hz : ∀ r ∈ dualZeroRows y K, rowAtoms r = []) : ∀ r ∈ y, rowAtoms r = [] := by
  obtain ⟨ym, h1, h2⟩ := conRows_dual_ok dummy y K crows K' h
  obtain ⟨h3, _⟩ := dualRows_val (fun _ => 0) dummy ym crows h2
  have := dualMap_affine K y ym K' hK h1 h3 hz
  rwa [List.take_of_length_le (by rw [hlen]; exact le_refl _)] at this


/-! ### second-order cone self-duality -/

theorem dot_neg_self (z : List ℝ) : dot (z.map (- ·)) z = - (z.map (· ^ 2)).sum := by
  induction z with
  | nil => simp
  | cons a z ih => simp only [List.map_cons, dot_cons_cons, ih, List.sum_cons]; ring

theorem sumsq_neg (z : List ℝ) : ((z.map (- ·)).map (· ^ 2)).sum = (z.map (· ^ 2)).sum := by
  induction z with
  | nil => simp
  | cons a z ih => simp only [List.map_cons, List.sum_cons, ih]; ring

theorem dot_zeros (n : Nat) (z : List ℝ) : dot (List.replicate n (0 : ℝ)) z = 0 := by
  induction n generalizing z with
  | zero => simp
  | succ n ih =>
    cases z with
    | nil => simp
    | cons b z => simp [List.replicate_succ, ih]

theorem soc_self_dual' (y : List ℝ) :
    socR y ↔ ∀ s : List ℝ, s.length = y.length → socR s → 0 ≤ dot s y := by
  constructor
  · intro hy s _ hs
    exact soc_pairing s y hs hy
  · intro h
    cases y with
    | nil => trivial
    | cons u z =>
      have hN := sumsq_nonneg z
      have h1 := h (1 :: List.replicate z.length 0) (by simp) (by
        refine ⟨zero_le_one, ?_⟩
        have : ((List.replicate z.length (0 : ℝ)).map (· ^ 2)).sum = 0 := by
          apply List.sum_eq_zero
          intro x hx
          simp only [List.mem_map, List.mem_replicate] at hx
          obtain ⟨a, ⟨_, rfl⟩, rfl⟩ := hx
          norm_num
        rw [this]; norm_num)
      rw [dot_cons_cons, dot_zeros] at h1
      have hu : 0 ≤ u := by linarith
      have h2 := h (Real.sqrt ((z.map (· ^ 2)).sum) :: z.map (- ·)) (by simp) (by
        refine ⟨Real.sqrt_nonneg _, ?_⟩
        rw [sumsq_neg, Real.sq_sqrt hN])
      rw [dot_cons_cons, dot_neg_self] at h2
      refine ⟨hu, ?_⟩
      have hs := Real.sqrt_nonneg ((z.map (· ^ 2)).sum)
      have hsq := Real.sq_sqrt hN
      set N := (z.map (· ^ 2)).sum
      set r := Real.sqrt N
      rcases eq_or_lt_of_le hs with h0 | hpos
      · rw [← h0] at hsq
        have : N = 0 := by rw [← hsq]; norm_num
        rw [this]; positivity
      · have : r ≤ u := by
          by_contra hc
          push Not at hc
          nlinarith
        nlinarith

end Sageopt.Compile
