/-
A concrete small instance (s_h, h, L) over `Rat` with a fractional exponent, used by the non-vacuity
examples of `Props/C16.lean`:   h = 2·x^(1/2) + 3,   s_h = s₀ + s₁·x^(1/2),   L ∋ 1, x^(1/2), x.
-/
import SageoptModel.Lemmas.SymCorrChar

namespace Sageopt.SymCorr
open Sageopt.Sig

def scExH : SigT Rat := ⟨1, [([1/2], 2), ([0], 3)]⟩
def scExSh : List Exp := [[0], [1/2]]
def scExL : List Exp := [[0], [1/2], [1]]
def scExShh : List Exp := [[0], [1/2], [1]]
/-- the array the code returns on this instance -/
def scExCm : List (List Rat) := [[3, 2, 0], [0, 3, 2]]

theorem sc_onGrid_single (q : Rat) (k : Int) (h : q * 10000000 = k) : OnGrid [q] := by
  intro p hp
  rw [List.mem_singleton] at hp
  rw [hp]; exact sc_round7_of_scaled q k h

theorem sc_ex_zero : OnGrid [(0 : Rat)] ∧ [(0 : Rat)].length = 1 :=
  ⟨sc_onGrid_single 0 0 (by norm_num), rfl⟩
theorem sc_ex_half : OnGrid [(1/2 : Rat)] ∧ [(1/2 : Rat)].length = 1 :=
  ⟨sc_onGrid_single (1/2) 5000000 (by norm_num), rfl⟩
theorem sc_ex_one : OnGrid [(1 : Rat)] ∧ [(1 : Rat)].length = 1 :=
  ⟨sc_onGrid_single 1 10000000 (by norm_num), rfl⟩

theorem sc_exH_wf : Wf scExH := by
  refine ⟨?_, ?_, ?_⟩
  · intro t ht
    simp only [scExH, List.mem_cons, List.not_mem_nil, or_false] at ht
    rcases ht with rfl | rfl <;> rfl
  · intro t ht
    simp only [scExH, List.mem_cons, List.not_mem_nil, or_false] at ht
    rcases ht with rfl | rfl
    · exact sc_ex_half.1
    · exact sc_ex_zero.1
  · simp [scExH, keys]

theorem sc_exSh_rows : ∀ r ∈ scExSh, OnGrid r ∧ r.length = 1 := by
  intro r hr
  simp only [scExSh, List.mem_cons, List.not_mem_nil, or_false] at hr
  rcases hr with rfl | rfl
  · exact sc_ex_zero
  · exact sc_ex_half

theorem sc_exL_rows : ∀ r ∈ scExL, OnGrid r ∧ r.length = 1 := by
  intro r hr
  simp only [scExL, List.mem_cons, List.not_mem_nil, or_false] at hr
  rcases hr with rfl | rfl | rfl
  · exact sc_ex_zero
  · exact sc_ex_half
  · exact sc_ex_one

theorem sc_exL_nodup : scExL.Nodup := by
  simp [scExL]

theorem sc_ex_contained : ∀ a ∈ scExSh, ∀ t ∈ scExH.terms, t.2 ≠ 0 → addExp t.1 a ∈ scExL := by
  intro a ha t ht _
  simp only [scExSh, List.mem_cons, List.not_mem_nil, or_false] at ha
  simp only [scExH, List.mem_cons, List.not_mem_nil, or_false] at ht
  rcases ha with rfl | rfl <;> rcases ht with rfl | rfl <;> (simp [addExp, scExL]; try norm_num)

theorem sc_exH_supp : ∀ t ∈ scExH.terms, t.2 ≠ 0 → t.1 ∈ scExL := by
  intro t ht _
  simp only [scExH, List.mem_cons, List.not_mem_nil, or_false] at ht
  rcases ht with rfl | rfl <;> simp [scExL]

/-- the model really returns `scExCm` on the instance -/
theorem sc_ex_mra : momentReductionArray scTol 1 scExSh scExShh scExH scExL = .ok scExCm := by
  rw [sc_mra_ok_eq 1 scExSh scExShh scExH sc_exH_wf rfl scExL sc_exSh_rows sc_exL_rows sc_exL_nodup
    (fun r hr => hr)]
  simp [scExSh, scExL, scExH, scExCm, scShift, addExp, coeff]
  norm_num

/-- the trivial character -/
theorem sc_isChar_one (n : Nat) : IsChar n (fun _ => (1 : Rat)) := ⟨rfl, fun _ _ _ _ => by simp⟩

end Sageopt.SymCorr
