/-
C11 helper lemmas (3): histories — `pick`/`writeBack`, one `step` keeps the pool, shape of `run`.
-/
import SageoptModel.Lemmas.RecompileDummy

namespace Sageopt.Compile
open Sageopt Sageopt.Solvers

theorem rc_pick_cons (cons : List Con) (i : Nat) (is : List Nat) (hi : i < cons.length) :
    pick cons (i :: is) = cons[i] :: pick cons is := by
  unfold pick
  rw [List.filterMap_cons, List.getElem?_eq_getElem hi]

theorem rc_writeBack_pick (cons : List Con) (idxs : List Nat) (h : ∀ i ∈ idxs, i < cons.length) :
    writeBack cons idxs (pick cons idxs) = cons := by
  induction idxs with
  | nil => rfl
  | cons i is ih =>
    have hi : i < cons.length := h i (by simp)
    rw [rc_pick_cons cons i is hi]
    unfold writeBack at ih ⊢
    rw [List.zip_cons_cons, List.foldl_cons]
    simp only [List.set_getElem_self]
    exact ih (fun j hj => h j (List.mem_cons_of_mem _ hj))

theorem rc_compileStep_ok (cons : List Con) (d : Nat) (rows : List CRow) (K : List Cone)
    (post : List Con) :
    compileStep cons d = .ok (rows, K, post) ↔ compileBlocks cons d = .ok (rows, K) ∧ post = cons := by
  unfold compileStep
  rw [rc_bind_ok]
  constructor
  · rintro ⟨⟨r, k⟩, hb, h⟩
    simp only [rc_pure_ok] at h
    obtain ⟨rfl, h2⟩ := Prod.mk.inj h
    obtain ⟨rfl, rfl⟩ := Prod.mk.inj h2
    exact ⟨hb, rfl⟩
  · rintro ⟨hb, rfl⟩
    exact ⟨(rows, K), hb, by simp only [rc_pure_ok]⟩

theorem rc_compileStep_error (cons : List Con) (d : Nat) (m : String) :
    compileStep cons d = .error m ↔ compileBlocks cons d = .error m := by
  unfold compileStep
  cases compileBlocks cons d <;> simp [bind, Except.bind, pure, Except.pure]

/-- one step never changes the pool (valid indices) -/
theorem rc_step_cons (w : World) (op : Op)
    (hv : match op with
      | .compile idxs => (∀ i ∈ idxs, i < w.cons.length) ∧ idxs.Nodup
      | .unrelated _ => True) :
    (step w op).1.cons = w.cons := by
  cases op with
  | unrelated k => rfl
  | compile idxs =>
    unfold step
    simp only
    cases hc : compileStep (pick w.cons idxs) (w.counter - 1) with
    | error m => rfl
    | ok p =>
      obtain ⟨rows, K, post⟩ := p
      obtain ⟨_, rfl⟩ := (rc_compileStep_ok _ _ _ _ _).1 hc
      exact rc_writeBack_pick w.cons idxs hv.1

theorem rc_run_cons (w : World) (op : Op) (ops : List Op) :
    run w (op :: ops) = ((run (step w op).1 ops).1, (step w op).2 :: (run (step w op).1 ops).2) := rfl

/-- the output of a compile step, in terms of `compileBlocks` -/
theorem rc_step_out (w : World) (idxs : List Nat) :
    (step w (.compile idxs)).2 = some (compileBlocks (pick w.cons idxs) (w.counter - 1)) := by
  unfold step
  simp only
  cases hc : compileStep (pick w.cons idxs) (w.counter - 1) with
  | error m => rw [(rc_compileStep_error _ _ _).1 hc]
  | ok p =>
    obtain ⟨rows, K, post⟩ := p
    rw [((rc_compileStep_ok _ _ _ _ _).1 hc).1]

/-- failure does not depend on the dummy either -/
theorem rc_compileBlocks_error (cons : List Con) (d d' : Nat) (m : String)
    (h : compileBlocks cons d = .error m) : ∃ m', compileBlocks cons d' = .error m' := by
  cases h' : compileBlocks cons d' with
  | error m' => exact ⟨m', rfl⟩
  | ok p =>
    obtain ⟨rows, K⟩ := p
    obtain ⟨rows', h'', _⟩ := rc_compileBlocks cons d' d rows K h'
    rw [h] at h''
    cases h''

/-- two dummies: both compilations succeed (same cones, rows equal under every assignment) or both
    fail -/
theorem rc_out_cases (cons : List Con) (d d' : Nat) :
    (∃ rows rows' K, compileBlocks cons d = .ok (rows, K) ∧ compileBlocks cons d' = .ok (rows', K) ∧
        ∀ σ : Nat → ℝ, rows.map (crowVal σ) = rows'.map (crowVal σ)) ∨
    (∃ m m', compileBlocks cons d = .error m ∧ compileBlocks cons d' = .error m') := by
  cases h : compileBlocks cons d with
  | error m =>
    obtain ⟨m', hm'⟩ := rc_compileBlocks_error cons d d' m h
    exact .inr ⟨m, m', rfl, hm'⟩
  | ok p =>
    obtain ⟨rows, K⟩ := p
    obtain ⟨rows', h', hR⟩ := rc_compileBlocks cons d d' rows K h
    exact .inl ⟨rows, rows', K, rfl, h', fun σ => (rc_forall₂_map hR σ).symm⟩

end Sageopt.Compile
