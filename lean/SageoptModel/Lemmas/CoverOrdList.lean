/-
List-level facts behind the ordinary default covers of `defaultEch` (`Model/Sage.lean`): where the guard of the sign-pattern
simplification holds there IS a zero row and `findIdx?` finds it; a cover with exactly one `True` has exactly one index.
Helper lemmas for `Props/C19Ordinary.lean`.
-/
import SageoptModel.Model.Sage
import SageoptModel.Lemmas.CoverSimpList
import Mathlib.Algebra.Order.Field.Basic
import Mathlib.Algebra.Order.Field.Rat
import Mathlib.Tactic.Linarith

namespace Sageopt.Analysis
open Sageopt.Sage

/-- the running minimum is the start value or an element of the list -/
theorem co_foldl_min_mem : ∀ (l : List Rat) (a : Rat),
    l.foldl (fun acc q => if q < acc then q else acc) a = a ∨
      l.foldl (fun acc q => if q < acc then q else acc) a ∈ l
  | [], a => Or.inl rfl
  | x :: xs, a => by
    simp only [List.foldl_cons]
    rcases co_foldl_min_mem xs (if x < a then x else a) with h | h
    · rw [h]
      split_ifs
      · right; exact List.mem_cons_self
      · left; rfl
    · right; exact List.mem_cons_of_mem _ h

theorem co_foldl_add_nonneg : ∀ (r : List Rat), (∀ q ∈ r, 0 ≤ q) → 0 ≤ r.foldl (· + ·) 0
  | [], _ => by simp
  | x :: xs, h => by
    simp only [List.foldl_cons, zero_add]
    rw [cs_foldl_add]
    have h1 := h x List.mem_cons_self
    have h2 := co_foldl_add_nonneg xs (fun q hq => h q (List.mem_cons_of_mem _ hq))
    linarith

/-- a row of nonnegative entries whose sum is zero is the zero row -/
theorem co_sum_zero_all_zero : ∀ (r : List Rat), (∀ q ∈ r, 0 ≤ q) → r.foldl (· + ·) 0 = 0 → ∀ q ∈ r, q = 0
  | [], _, _ => by simp
  | x :: xs, h, hs => by
    simp only [List.foldl_cons, zero_add] at hs
    rw [cs_foldl_add] at hs
    have h1 := h x List.mem_cons_self
    have h2 := co_foldl_add_nonneg xs (fun q hq => h q (List.mem_cons_of_mem _ hq))
    have hx : x = 0 := by linarith
    have hxs : xs.foldl (· + ·) 0 = 0 := by linarith
    intro q hq
    rcases List.mem_cons.mp hq with rfl | hq'
    · exact hx
    · exact co_sum_zero_all_zero xs (fun q hq => h q (List.mem_cons_of_mem _ hq)) hxs q hq'

/-- `findIdx?` finds a zero when there is one -/
theorem co_findIdx : ∀ (l : List Rat), (0 : Rat) ∈ l →
    ∃ k, l.findIdx? (· == 0) = some k ∧ k < l.length ∧ l.getD k 1 = 0
  | [], h => by simp at h
  | x :: xs, h => by
    by_cases hx : x = 0
    · exact ⟨0, by simp [List.findIdx?_cons, hx], by simp, by simp [hx]⟩
    · have hmem : (0 : Rat) ∈ xs := by
        rcases List.mem_cons.mp h with h' | h'
        · exact absurd h'.symm hx
        · exact h'
      obtain ⟨k, hk1, hk2, hk3⟩ := co_findIdx xs hmem
      refine ⟨k + 1, ?_, by simp; omega, by simpa using hk3⟩
      simp [List.findIdx?_cons, hx, hk1]

/-- no `True` at all -/
theorem co_none : ∀ (cov : List Bool), countTrueB cov = 0 → ∀ j, cov.getD j false = false
  | [], _, j => by simp
  | b :: bs, h, j => by
    cases b
    · have h' : countTrueB bs = 0 := by simpa [countTrueB] using h
      cases j with
      | zero => simp
      | succ j => simpa using co_none bs h' j
    · simp [countTrueB] at h

/-- exactly one `True`: exactly one index -/
theorem co_single : ∀ (cov : List Bool), countTrueB cov = 1 →
    ∃ j, j < cov.length ∧ cov.getD j false = true ∧ ∀ j', cov.getD j' false = true → j' = j
  | [], h => by simp [countTrueB] at h
  | b :: bs, h => by
    cases b
    · have h' : countTrueB bs = 1 := by simpa [countTrueB] using h
      obtain ⟨j, hj1, hj2, hj3⟩ := co_single bs h'
      refine ⟨j + 1, by simp; omega, by simpa using hj2, ?_⟩
      intro j' hj'
      cases j' with
      | zero => simp at hj'
      | succ j' =>
        have : bs.getD j' false = true := by simpa using hj'
        rw [hj3 j' this]
    · have h' : countTrueB bs = 0 := by simpa [countTrueB] using h
      refine ⟨0, by simp, by simp, ?_⟩
      intro j' hj'
      cases j' with
      | zero => rfl
      | succ j' =>
        have hf := co_none bs h' j'
        have ht : bs.getD j' false = true := by simpa using hj'
        rw [hf] at ht
        exact absurd ht (by decide)

end Sageopt.Analysis
