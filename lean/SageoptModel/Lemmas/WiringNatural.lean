/-
Wirings commute with evaluation (`applyLin` vs `applyNum`) and compose numerically.
Helper lemmas for `Props/C08.lean`.
-/
import SageoptModel.Model.Wiring
import SageoptModel.Lemmas.LinValue

namespace Sageopt.Wiring
open Sageopt Sageopt.Lin

/-! ### naturality -/

theorem value_add' (σ : Nat → Rat) (x y : Lin) :
    Lin.value σ (Lin.add x y) = Lin.value σ x + Lin.value σ y := value_add σ x y

theorem value_getD (σ : Nat → Rat) (ins : List Lin) (i : Nat) :
    Lin.value σ (ins.getD i (Lin.const 0)) = (ins.map (Lin.value σ)).getD i 0 := by
  rw [List.getD_eq_getElem?_getD, List.getD_eq_getElem?_getD, List.getElem?_map]
  cases ins[i]? with
  | none => simp [value_const]
  | some x => simp

theorem value_rowfold (σ : Nat → Rat) (ins : List Lin) (row : List (Nat × Rat)) (init : Lin) :
    Lin.value σ (row.foldl
        (fun acc p => Lin.add acc (Lin.scale p.2 (ins.getD p.1 (Lin.const 0)))) init)
      = row.foldl (fun acc p => acc + p.2 * (ins.map (Lin.value σ)).getD p.1 0)
          (Lin.value σ init) := by
  induction row generalizing init with
  | nil => rfl
  | cons p row ih =>
    rw [List.foldl_cons, List.foldl_cons, ih, value_add', value_scale, value_getD]

theorem applyLin_value (w : Wire) (ins : List Lin) (σ : Nat → Rat) :
    (applyLin w ins).map (Lin.value σ) = applyNum w (ins.map (Lin.value σ)) := by
  unfold applyLin applyNum
  rw [List.map_map]
  apply List.map_congr_left
  intro ro _
  obtain ⟨row, o⟩ := ro
  simp only [Function.comp]
  rw [value_rowfold, value_const]

/-! ### composition -/

theorem lsum_append (σ : Nat → Rat) (xs ys : List (Nat × Rat)) :
    lsum σ (xs ++ ys) = lsum σ xs + lsum σ ys := by
  simp [lsum]

/-- one output cell of `applyNum`, as offset plus `lsum` -/
theorem rowNum_eq (xs : List Rat) (row : List (Nat × Rat)) (o : Rat) :
    row.foldl (fun acc p => acc + p.2 * xs.getD p.1 0) o
      = o + lsum (fun i => xs.getD i 0) row :=
  foldl_value (fun i => xs.getD i 0) row o

theorem applyNum_eq (w : Wire) (xs : List Rat) :
    applyNum w xs
      = (w.rows.zip w.off).map fun ro => ro.2 + lsum (fun i => xs.getD i 0) ro.1 := by
  unfold applyNum
  apply List.map_congr_left
  intro ro _
  obtain ⟨row, o⟩ := ro
  exact rowNum_eq xs row o

theorem getD_zip_map (f : List (Nat × Rat) × Rat → Rat) (hf : f ([], 0) = 0)
    (rows : List (List (Nat × Rat))) (off : List Rat) (hlen : rows.length = off.length) (i : Nat) :
    ((rows.zip off).map f).getD i 0 = f (rows.getD i [], off.getD i 0) := by
  induction rows generalizing off i with
  | nil =>
    cases off with
    | nil => simp [hf]
    | cons o off => simp at hlen
  | cons r rows ih =>
    cases off with
    | nil => simp at hlen
    | cons o off =>
      cases i with
      | zero => simp
      | succ i =>
        have h' : rows.length = off.length := by simpa using hlen
        have := ih off h' i
        simpa using this

theorem applyNum_getD (w : Wire) (hlen : w.rows.length = w.off.length) (xs : List Rat) (i : Nat) :
    (applyNum w xs).getD i 0
      = w.off.getD i 0 + lsum (fun k => xs.getD k 0) (w.rows.getD i []) := by
  rw [applyNum_eq]
  exact getD_zip_map (fun ro => ro.2 + lsum (fun i => xs.getD i 0) ro.1) (by simp)
    w.rows w.off hlen i

/-- the key algebraic identity of composition, for one output row of `w2` -/
theorem compose_row (σ offσ : Nat → Rat) (R : Nat → List (Nat × Rat)) (row : List (Nat × Rat))
    (o : Rat) :
    (o + lsum offσ row)
        + lsum σ (row.flatMap fun p => (R p.1).map fun q => (q.1, p.2 * q.2))
      = o + lsum (fun i => offσ i + lsum σ (R i)) row := by
  induction row with
  | nil => simp
  | cons p row ih =>
    rw [List.flatMap_cons, lsum_append, lsum_map_scale, lsum_cons, lsum_cons]
    linarith [ih]

theorem applyNum_compose (w2 w1 : Wire) (hlen : w1.rows.length = w1.off.length) (xs : List Rat) :
    applyNum (compose w2 w1) xs = applyNum w2 (applyNum w1 xs) := by
  rw [applyNum_eq (compose w2 w1), applyNum_eq w2]
  unfold compose
  simp only
  rw [List.zip_map', List.map_map]
  apply List.map_congr_left
  intro ro _
  obtain ⟨row, o⟩ := ro
  simp only [Function.comp]
  rw [rowNum_eq]
  have h := compose_row (fun i => xs.getD i 0) (fun i => w1.off.getD i 0)
    (fun i => w1.rows.getD i []) row o
  rw [h]
  congr 1
  congr 1
  funext i
  exact (applyNum_getD w1 hlen xs i).symm

end Sageopt.Wiring
