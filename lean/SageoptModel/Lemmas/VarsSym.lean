/-
Helper lemmas for C20: the symmetric index layout `symId` (closed form via row starts and triangular numbers).
Core Lean only.
-/
import SageoptModel.Model.Vars

namespace Sageopt.Vars

/-- number of indices allocated before row `a` of a symmetric `n × n` Variable -/
def rowStart (n : Nat) : Nat → Nat
  | 0 => 0
  | a + 1 => rowStart n a + (n - a)

theorem foldl_range_eq_rowStart (n a : Nat) :
    (List.range a).foldl (fun acc r => acc + (n - r)) 0 = rowStart n a := by
  induction a with
  | zero => rfl
  | succ a ih => simp [List.range_succ, List.foldl_append, ih, rowStart]

theorem symId_eq (n i j : Nat) :
    symId n i j = rowStart n (min i j) + (max i j - min i j) := by
  simp [symId, foldl_range_eq_rowStart]

/-- triangular numbers -/
def tri : Nat → Nat
  | 0 => 0
  | m + 1 => tri m + (m + 1)

theorem two_tri (m : Nat) : 2 * tri m = m * (m + 1) := by
  induction m with
  | zero => rfl
  | succ m ih =>
    have h1 : (m + 1) * (m + 1 + 1) = m * (m + 1) + 2 * (m + 1) := by
      rw [Nat.mul_comm (m + 1) (m + 1 + 1), Nat.add_mul (m) 2 (m + 1)]
    simp only [tri]
    omega

theorem tri_eq (m : Nat) : tri m = m * (m + 1) / 2 := by
  have := two_tri m
  omega

theorem le_tri (m : Nat) : m ≤ tri m := by
  cases m with
  | zero => exact Nat.le_refl _
  | succ m => simp only [tri]; omega

theorem rowStart_add_tri (n a : Nat) (h : a ≤ n) : rowStart n a + tri (n - a) = tri n := by
  induction a with
  | zero => simp [rowStart]
  | succ a ih =>
    have h1 : n - a = (n - (a + 1)) + 1 := by omega
    have h2 := ih (by omega)
    rw [h1] at h2
    simp only [tri] at h2
    simp only [rowStart]
    omega

theorem rowStart_mono (n : Nat) {a a' : Nat} (h : a ≤ a') : rowStart n a ≤ rowStart n a' := by
  induction a' with
  | zero =>
    have : a = 0 := by omega
    subst this; exact Nat.le_refl _
  | succ b ih =>
    by_cases hb : a = b + 1
    · subst hb; exact Nat.le_refl _
    · have := ih (by omega)
      simp only [rowStart]; omega

/-- the index of `(a, b)` with `a ≤ b < n` lies strictly below the start of row `a + 1` -/
theorem rowStart_add_lt_succ (n a b : Nat) (hab : a ≤ b) (hb : b < n) :
    rowStart n a + (b - a) < rowStart n (a + 1) := by
  simp only [rowStart]; omega

theorem rowStart_le_tri (n a : Nat) (h : a ≤ n) : rowStart n a ≤ tri n := by
  have := rowStart_add_tri n a h
  omega

/-- injectivity on ordered pairs -/
theorem rowStart_pair_inj (n a b a' b' : Nat) (hab : a ≤ b) (hb : b < n) (hab' : a' ≤ b') (hb' : b' < n)
    (h : rowStart n a + (b - a) = rowStart n a' + (b' - a')) : a = a' ∧ b = b' := by
  have key : a = a' := by
    rcases Nat.lt_trichotomy a a' with hlt | heq | hgt
    · have h1 := rowStart_add_lt_succ n a b hab hb
      have h2 := rowStart_mono n (show a + 1 ≤ a' from hlt)
      omega
    · exact heq
    · have h1 := rowStart_add_lt_succ n a' b' hab' hb'
      have h2 := rowStart_mono n (show a' + 1 ≤ a from hgt)
      omega
  subst key
  exact ⟨rfl, by omega⟩

theorem symId_symm' (n i j : Nat) : symId n i j = symId n j i := by
  simp only [symId_eq, Nat.min_comm i j, Nat.max_comm i j]

theorem symId_lt' (n i j : Nat) (hi : i < n) (hj : j < n) : symId n i j < n * (n + 1) / 2 := by
  rw [symId_eq, ← tri_eq]
  have hab : min i j ≤ max i j := by omega
  have hb : max i j < n := by omega
  have h1 := rowStart_add_lt_succ n _ _ hab hb
  have h2 := rowStart_le_tri n (min i j + 1) (by omega)
  omega

theorem symId_inj' (n i j i' j' : Nat) (hi : i < n) (hj : j < n) (hi' : i' < n) (hj' : j' < n)
    (h : symId n i j = symId n i' j') : (i = i' ∧ j = j') ∨ (i = j' ∧ j = i') := by
  rw [symId_eq, symId_eq] at h
  have := rowStart_pair_inj n _ _ _ _ (by omega) (by omega) (by omega) (by omega) h
  omega

end Sageopt.Vars
