/-
C02 helper lemmas, part 6: the explicit extension of an assignment of the user's variables to the
auxiliary Variables `μ_i`, `epi_i` of the dual SAGE cone, and the proof that it is a moment assignment.
-/
import SageoptModel.Lemmas.SageDualFeas

namespace Sageopt.Sage
open Sageopt Sageopt.Compile Sageopt.Solvers Sageopt.Analysis

noncomputable section

/-- the values given to the auxiliary ids: `μ_i[k] ↦ v_i·x̃_k`, `epi_i[k] ↦ v_i·(α_i − α_{cov k})·x` -/
def sd_assoc (inp : DualIn) (σ₀ : Nat → ℝ) (x xt : List ℝ) : List (Nat × ℝ) :=
  inp.ids.flatMap fun p =>
    (p.mu.zipIdx.map fun (idk : Nat × Nat) =>
      (idk.1, argVal σ₀ (inp.v.getD p.i (constE 0)) * xt.getD idk.2 0)) ++
    (p.epi.zipIdx.map fun (idk : Nat × Nat) =>
      (idk.1, argVal σ₀ (inp.v.getD p.i (constE 0)) *
        (rdot (inp.alpha.getD p.i []) x
          - rdot (inp.alpha.getD ((trueIdx (coverOf inp.ech p.i)).getD idk.2 0) []) x)))

/-- override `σ₀` on the keys of an association list -/
def sd_ext (assoc : List (Nat × ℝ)) (σ₀ : Nat → ℝ) (id : Nat) : ℝ :=
  match assoc.find? (·.1 == id) with
  | some e => e.2
  | none => σ₀ id

theorem sd_ext_not_mem (assoc : List (Nat × ℝ)) (σ₀ : Nat → ℝ) (id : Nat) (h : id ∉ assoc.map (·.1)) :
    sd_ext assoc σ₀ id = σ₀ id := by
  unfold sd_ext
  have : assoc.find? (·.1 == id) = none := by
    rw [List.find?_eq_none]
    intro e he heq
    apply h
    rw [List.mem_map]
    exact ⟨e, he, by simpa using heq⟩
  rw [this]

theorem sd_ext_mem (assoc : List (Nat × ℝ)) (σ₀ : Nat → ℝ) (hnd : (assoc.map (·.1)).Nodup) (id : Nat) (val : ℝ)
    (h : (id, val) ∈ assoc) : sd_ext assoc σ₀ id = val := by
  induction assoc with
  | nil => simp at h
  | cons a l ih =>
    rw [List.map_cons, List.nodup_cons] at hnd
    rcases List.mem_cons.1 h with h | h
    · subst h
      simp [sd_ext]
    · have hne : a.1 ≠ id := by
        intro heq
        apply hnd.1
        rw [List.mem_map]
        exact ⟨(id, val), h, heq.symm⟩
      have := ih hnd.2 h
      unfold sd_ext at this ⊢
      rw [List.find?_cons_of_neg (by simpa using hne)]
      exact this

theorem sd_assoc_keys (inp : DualIn) (σ₀ : Nat → ℝ) (x xt : List ℝ) :
    (sd_assoc inp σ₀ x xt).map (·.1) = inp.ids.flatMap fun p => p.mu ++ p.epi := by
  unfold sd_assoc
  rw [List.map_flatMap]
  apply List.flatMap_congr
  intro p _
  rw [List.map_append, List.map_map, List.map_map]
  congr 1
  · exact List.zipIdx_map_fst 0 p.mu
  · exact List.zipIdx_map_fst 0 p.epi

theorem sd_mem_zipIdx_getD (l : List Nat) (k : Nat) (hk : k < l.length) : (l.getD k 0, k) ∈ l.zipIdx := by
  rw [List.mk_mem_zipIdx_iff_getElem?]
  simp [List.getD, hk]

theorem sd_assoc_mu (inp : DualIn) (σ₀ : Nat → ℝ) (x xt : List ℝ) (p : DIds) (hp : p ∈ inp.ids) (k : Nat)
    (hk : k < p.mu.length) :
    (p.mu.getD k 0, argVal σ₀ (inp.v.getD p.i (constE 0)) * xt.getD k 0) ∈ sd_assoc inp σ₀ x xt := by
  unfold sd_assoc
  rw [List.mem_flatMap]
  refine ⟨p, hp, List.mem_append_left _ ?_⟩
  rw [List.mem_map]
  exact ⟨(p.mu.getD k 0, k), sd_mem_zipIdx_getD _ k hk, rfl⟩

theorem sd_assoc_epi (inp : DualIn) (σ₀ : Nat → ℝ) (x xt : List ℝ) (p : DIds) (hp : p ∈ inp.ids) (k : Nat)
    (hk : k < p.epi.length) :
    (p.epi.getD k 0, argVal σ₀ (inp.v.getD p.i (constE 0)) *
        (rdot (inp.alpha.getD p.i []) x
          - rdot (inp.alpha.getD ((trueIdx (coverOf inp.ech p.i)).getD k 0) []) x)) ∈ sd_assoc inp σ₀ x xt := by
  unfold sd_assoc
  rw [List.mem_flatMap]
  refine ⟨p, hp, List.mem_append_right _ ?_⟩
  rw [List.mem_map]
  exact ⟨(p.epi.getD k 0, k), sd_mem_zipIdx_getD _ k hk, rfl⟩

theorem sd_argVal_congr (σ σ₀ : Nat → ℝ) (e : AffArg) (h : ∀ id ∈ e.co.map (·.1), σ id = σ₀ id) :
    argVal σ e = argVal σ₀ e := by
  unfold argVal
  congr 2
  apply List.map_congr_left
  intro c hc
  rw [h c.1 (List.mem_map.2 ⟨c, hc, rfl⟩)]

/-- the extension is a moment assignment -/
theorem sd_ext_moment (inp : DualIn)
    (hvlen : inp.v.length = inp.alpha.length)
    (hpi : ∀ p ∈ inp.ids, p.i < inp.alpha.length)
    (hnd : (inp.ids.flatMap fun p => p.mu ++ p.epi).Nodup)
    (hfresh : ∀ id ∈ (inp.ids.flatMap fun p => p.mu ++ p.epi), ∀ vj ∈ inp.v, id ∉ vj.co.map (·.1))
    (x xt : List ℝ) (t : ℝ) (σ₀ : Nat → ℝ)
    (hv : ∀ j, j < inp.alpha.length →
      argVal σ₀ (inp.v.getD j (constE 0)) = t * Real.exp (rdot (inp.alpha.getD j []) x)) :
    sd_Moment inp x xt t (sd_ext (sd_assoc inp σ₀ x xt) σ₀) := by
  have hnd' : ((sd_assoc inp σ₀ x xt).map (·.1)).Nodup := by rw [sd_assoc_keys]; exact hnd
  refine ⟨fun j hj => ?_, fun p hp k hk => ?_, fun p hp k hk => ?_⟩
  · rw [← hv j hj]
    apply sd_argVal_congr
    intro id hid
    apply sd_ext_not_mem
    rw [sd_assoc_keys]
    intro hmem
    exact hfresh id hmem _ (sd_getD_mem inp.v j _ (by omega)) hid
  · rw [sd_ext_mem _ σ₀ hnd' _ _ (sd_assoc_mu inp σ₀ x xt p hp k hk), hv p.i (hpi p hp)]
  · rw [sd_ext_mem _ σ₀ hnd' _ _ (sd_assoc_epi inp σ₀ x xt p hp k hk), hv p.i (hpi p hp)]

/-- linear functionals of two pointwise-equal vectors agree -/
theorem sd_zipWith_sum_congr {α β : Type} (l : List ℝ) (u : List α) (w : List β) (f : α → ℝ) (g : β → ℝ)
    (h : u.map f = w.map g) :
    (List.zipWith (fun c a => c * f a) l u).sum = (List.zipWith (fun c b => c * g b) l w).sum := by
  have e1 : List.zipWith (fun c a => c * f a) l u = List.zipWith (· * ·) l (u.map f) := by
    rw [List.zipWith_map_right]
  have e2 : List.zipWith (fun c b => c * g b) l w = List.zipWith (· * ·) l (w.map g) := by
    rw [List.zipWith_map_right]
  rw [e1, e2, h]

end

end Sageopt.Sage
