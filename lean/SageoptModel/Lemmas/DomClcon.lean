/-
C15 helper lemmas, part 4: the log-space constraints generated from a standard form describe `g ≥ 0` / `g = 0`.
-/
import SageoptModel.Lemmas.DomStd
import Mathlib.Tactic.FieldSimp
import Mathlib.Tactic.IntervalCases

namespace Sageopt.Domain
open Sageopt Sageopt.Sig Sageopt.Sig.Hom Sageopt.Relax Sageopt.Poly Sageopt.Sage Sageopt.RelaxSig

/-! ### the terms other than the constant one -/

theorem dm_filter_zipIdx_lt (ts : List (Exp × Rat)) (s j : Nat) (hj : j < s) :
    ((ts.zipIdx s).filter fun p => p.2 != j).map (·.1) = ts := by
  induction ts generalizing s with
  | nil => rfl
  | cons t ts ih =>
    rw [List.zipIdx_cons, List.filter_cons]
    have : ((t, s).2 != j) = true := by
      simp only [bne_iff_ne, ne_eq]; omega
    rw [if_pos this, List.map_cons, ih (s + 1) (by omega)]

theorem dm_others_aux (ts : List (Exp × Rat)) (k s : Nat) :
    ((ts.zipIdx s).filter fun p => p.2 != s + k).map (·.1) = ts.eraseIdx k := by
  induction ts generalizing k s with
  | nil => rfl
  | cons t ts ih =>
    rw [List.zipIdx_cons, List.filter_cons]
    cases k with
    | zero =>
      have : ((t, s).2 != s + 0) = false := by simp
      rw [if_neg (by rw [this]; simp), List.eraseIdx_cons_zero]
      exact dm_filter_zipIdx_lt ts (s + 1) (s + 0) (by omega)
    | succ k =>
      have : ((t, s).2 != s + (k + 1)) = true := by
        simp only [bne_iff_ne, ne_eq]; omega
      rw [if_pos this, List.map_cons, List.eraseIdx_cons_succ]
      have e : s + (k + 1) = (s + 1) + k := by omega
      rw [e, ih k (s + 1)]

theorem dm_others_eq (ts : List (Exp × Rat)) (k : Nat) :
    (ts.zipIdx.filter fun p => p.2 != k).map (·.1) = ts.eraseIdx k := by
  have := dm_others_aux ts k 0
  simpa using this

theorem dm_sigR_split (ts : List (Exp × Rat)) (k : Nat) (hk : k < ts.length) (y : List ℝ) :
    sigR ts y = (ts[k].2 : ℝ) * Real.exp (rdot ts[k].1 y) + sigR (ts.eraseIdx k) y := by
  induction ts generalizing k with
  | nil => simp at hk
  | cons t ts ih =>
    cases k with
    | zero => simp [pa_sigR_cons]
    | succ k =>
      rw [List.eraseIdx_cons_succ, pa_sigR_cons, pa_sigR_cons, ih k (by simpa using hk)]
      simp only [List.getElem_cons_succ]
      ring

theorem dm_lse_sum (os : List (Exp × Rat)) (y : List ℝ) :
    (List.zipWith (fun (q : Rat) (a : Exp) => (q : ℝ) * Real.exp (rdot a y)) (os.map fun t => -t.2)
      (os.map (·.1))).sum = - sigR os y := by
  induction os with
  | nil => simp [pa_sigR_nil]
  | cons t os ih =>
    rw [List.map_cons, List.map_cons, List.zipWith_cons_cons, List.sum_cons, ih, pa_sigR_cons]
    push_cast
    ring

/-! ### real arithmetic -/

theorem dm_absR_cast_neg {q : Rat} (h : q < 0) : ((absR q : Rat) : ℝ) = -(q : ℝ) := by
  unfold absR
  rw [if_pos h]
  push_cast
  rfl

theorem dm_lin_iff (c d e : ℝ) (hc : 0 < c) (hd : d < 0) :
    e ≤ Real.log (c / (-d)) ↔ 0 ≤ c + d * Real.exp e := by
  have hd' : 0 < -d := neg_pos.2 hd
  rw [Real.le_log_iff_exp_le (div_pos hc hd'), le_div_iff₀ hd']
  constructor <;> intro h <;> linarith

theorem dm_eq_iff (c d e : ℝ) (hc : 0 < c) (hd : d < 0) :
    e = Real.log (c / (-d)) ↔ c + d * Real.exp e = 0 := by
  have hd' : 0 < -d := neg_pos.2 hd
  constructor
  · intro h
    rw [h, Real.exp_log (div_pos hc hd')]
    have hdne : d ≠ 0 := hd.ne
    have : d * (c / -d) = -c := by field_simp
    linarith
  · intro h
    have : Real.exp e = c / (-d) := by
      rw [eq_div_iff hd'.ne']
      linarith
    rw [← this, Real.log_exp]

/-! ### the generated constraints -/

theorem dm_constLoc_spec {g : SigQ} {k : Nat} (h : constLoc g = some k) :
    ∃ hk : k < g.terms.length, (g.terms[k].1).all (· == 0) = true := by
  unfold constLoc at h
  obtain ⟨hk, hp, _⟩ := List.findIdx?_eq_some_iff_getElem.1 h
  exact ⟨hk, hp⟩

theorem dm_clconGt_iff (g : SigQ) (hg : StdGt g) (y : List ℝ) :
    (∀ c ∈ clconGt g, LogCon.holds y c) ↔ 0 ≤ sigR g.terms y := by
  obtain ⟨_, k, hk, hpos, hneg⟩ := hg
  obtain ⟨hkl, hz⟩ := dm_constLoc_spec hk
  have hsplit := dm_sigR_split g.terms k hkl y
  rw [dm_rdot_allzero _ hz, Real.exp_zero, mul_one] at hsplit
  rw [dm_getD_lt _ _ hkl] at hpos
  have hposR : (0 : ℝ) < (g.terms[k].2 : ℝ) := by exact_mod_cast hpos
  unfold clconGt
  rw [hk]
  simp only [dm_others_eq, dm_getD_lt _ _ hkl]
  by_cases h3 : g.terms.length > 2
  · rw [if_pos h3]
    simp only [List.mem_singleton, forall_eq, LogCon.holds]
    rw [dm_lse_sum, hsplit]
    constructor <;> intro h <;> linarith
  · rw [if_neg h3]
    by_cases h2 : g.terms.length = 2
    · have h2' : (g.terms.length == 2) = true := by simp [h2]
      rw [if_pos h2']
      have hol : (g.terms.eraseIdx k).length = 1 := by
        rw [List.length_eraseIdx, if_pos hkl, h2]
      obtain ⟨t, ht⟩ := List.length_eq_one_iff.1 hol
      have htm : t ∈ g.terms.eraseIdx k := by rw [ht]; simp
      obtain ⟨j, hj, hjk, hjt⟩ := List.mem_eraseIdx_iff_getElem.1 htm
      have htneg : t.2 < 0 := by
        have := hneg j hj hjk
        rw [dm_getD_lt _ _ hj, hjt] at this
        exact this
      have htnegR : (t.2 : ℝ) < 0 := by exact_mod_cast htneg
      rw [ht] at hsplit ⊢
      simp only [List.mem_singleton, forall_eq, LogCon.holds]
      rw [dm_absR_cast_neg htneg, dm_lin_iff _ _ _ hposR htnegR, hsplit, pa_sigR_cons, pa_sigR_nil, add_zero]
    · have h2' : ¬ (g.terms.length == 2) = true := by simp [h2]
      rw [if_neg h2']
      have hol : (g.terms.eraseIdx k).length = 0 := by
        rw [List.length_eraseIdx, if_pos hkl]
        omega
      rw [List.length_eq_zero_iff.1 hol, pa_sigR_nil, add_zero] at hsplit
      rw [hsplit]
      constructor
      · intro _; exact hposR.le
      · intro _ c hc; simp at hc

theorem dm_clconEq_iff (g : SigQ) (hg : StdEq g) (y : List ℝ) :
    (∀ c ∈ clconEq g, LogCon.holds y c) ↔ sigR g.terms y = 0 := by
  obtain ⟨_, h2, k, hk, hpos, hneg⟩ := hg
  obtain ⟨hkl, hz⟩ := dm_constLoc_spec hk
  have hz0 : rdot (g.terms.getD k ([], 0)).1 y = 0 := by
    rw [dm_getD_lt _ _ hkl]; exact dm_rdot_allzero _ hz y
  clear hz
  unfold clconEq
  rw [hk]
  simp only [h2]
  obtain ⟨a, b, hab⟩ := List.length_eq_two.1 h2
  rw [hab] at hpos hneg hz0 ⊢
  rw [h2] at hkl
  simp only [List.mem_singleton, forall_eq, LogCon.holds]
  interval_cases k
  · simp only [List.getD_cons_zero, List.getD_cons_succ, Nat.sub_zero] at hpos hneg hz0 ⊢
    have hposR : (0 : ℝ) < (a.2 : ℝ) := by exact_mod_cast hpos
    have hnegR : (b.2 : ℝ) < 0 := by exact_mod_cast hneg
    rw [dm_absR_cast_neg hneg, dm_eq_iff _ _ _ hposR hnegR, pa_sigR_cons, pa_sigR_cons, pa_sigR_nil, hz0,
      Real.exp_zero]
    constructor <;> intro h <;> linarith
  · simp only [List.getD_cons_zero, List.getD_cons_succ, Nat.sub_self] at hpos hneg hz0 ⊢
    have hposR : (0 : ℝ) < (b.2 : ℝ) := by exact_mod_cast hpos
    have hnegR : (a.2 : ℝ) < 0 := by exact_mod_cast hneg
    rw [dm_absR_cast_neg hneg, dm_eq_iff _ _ _ hposR hnegR, pa_sigR_cons, pa_sigR_cons, pa_sigR_nil, hz0,
      Real.exp_zero]
    constructor <;> intro h <;> linarith

/-- a kept equation that is not in standard form makes `clconEq` raise -/
theorem dm_clconEq_raises (g : SigQ) (h : g.terms.length ≤ 1) : ∃ m, clconEq g = [.raises m] := by
  unfold clconEq
  split
  · exact ⟨_, rfl⟩
  · split
    · rename_i h2
      omega
    · exact ⟨_, rfl⟩

end Sageopt.Domain
