/-
Lemmas for the MOSEK primal form (C10, T4).
-/
import SageoptModel.Lemmas.SolversSep

namespace Sageopt.Solvers
open Sageopt

variable {R : Type}

/-! ### more structure of `sepPlan` -/

theorem sepPlan_totalLen (allowed : CType → Bool) (n : Nat) (K : List Cone) (next : Nat) :
    totalLen (sepPlan allowed n K next).2.1 = totalLen K := by
  induction K generalizing next with
  | nil => rfl
  | cons co K ih =>
    cases h : allowed co.type
    · rw [sepPlan_cons_sep _ _ _ _ _ h]; simp [ih]
    · rw [sepPlan_cons_allowed _ _ _ _ _ h]; simp [ih]

theorem sepPlan_slacks_spec (allowed : CType → Bool) (n : Nat) (K : List Cone) (next : Nat) :
    ∀ sc ∈ (sepPlan allowed n K next).2.2,
      sc.cols.length = sc.len ∧ ∃ co ∈ K, co.type = sc.type ∧ co.len = sc.len := by
  induction K generalizing next with
  | nil => intro sc hsc; simp [sepPlan] at hsc
  | cons co K ih =>
    cases h : allowed co.type
    · rw [sepPlan_cons_sep _ _ _ _ _ h]
      intro sc hsc
      simp only [List.mem_cons] at hsc
      rcases hsc with rfl | hsc
      · exact ⟨by simp, co, by simp, rfl, rfl⟩
      · obtain ⟨h1, c, hc, h2⟩ := ih _ sc hsc
        exact ⟨h1, c, by simp [hc], h2⟩
    · rw [sepPlan_cons_allowed _ _ _ _ _ h]
      intro sc hsc
      obtain ⟨h1, c, hc, h2⟩ := ih _ sc hsc
      exact ⟨h1, c, by simp [hc], h2⟩

/-! ### the MOSEK cone list -/

/-- the cone MOSEK is given for a separated cone -/
def primalConeOf (co : SlackCone) : Option (MosekConeKind × List Nat) :=
  match co.type with
  | .soc => some (MosekConeKind.quad, co.cols)
  | .exp => some (MosekConeKind.pexp, [co.cols.getD 1 0, co.cols.getD 2 0, co.cols.getD 0 0])
  | _ => none

theorem mosekPrimalTask_eq (d : MosekPrimalData R) :
    mosekPrimalTask d = (d.sepK.mapM primalConeOf).map fun cones =>
      { nvars := d.c.length
        varBounds := List.replicate d.c.length .fr
        cones := cones
        ncons := d.A.length
        aij := d.A
        conBounds := (List.replicate d.nIneq BoundKey.up ++ List.replicate d.nEq BoundKey.fx).zip d.b
        obj := d.c
        maximize := false } := rfl

theorem primal_cones_iff [Zero R] (P : CType → List R → Prop) (PM : MosekConeKind → List R → Prop)
    (hquad : ∀ v, PM .quad v ↔ P .soc v)
    (hpexp : ∀ x1 x2 x3, PM .pexp [x1, x2, x3] ↔ P .exp [x3, x1, x2])
    (z : Vec R) (sl : List SlackCone) (cones : List (MosekConeKind × List Nat))
    (h3 : ∀ sc ∈ sl, sc.type = .exp → sc.cols.length = 3)
    (hm : sl.mapM primalConeOf = some cones) :
    (∀ c ∈ cones, PM c.1 (c.2.map fun k => z.getD k 0)) ↔
      ∀ sc ∈ sl, P sc.type (sc.cols.map fun k => z.getD k 0) := by
  induction sl generalizing cones with
  | nil =>
    simp at hm
    subst hm
    simp
  | cons sc sl ih =>
    simp only [List.mapM_cons] at hm
    simp [Option.bind_eq_some_iff] at hm
    obtain ⟨bk, bc, hb, bs, hbs, rfl⟩ := hm
    have ih' := ih bs (fun s hs => h3 s (by simp [hs])) hbs
    simp only [List.forall_mem_cons, ih']
    have h3' := h3 sc (by simp)
    obtain ⟨ty, len, cols⟩ := sc
    simp only [primalConeOf] at hb
    cases ty <;> simp at hb
    · obtain ⟨rfl, rfl⟩ := hb
      simp [hquad]
    · simp at h3'
      match cols, h3', hb with
      | [c0, c1, c2], _, hb =>
        obtain ⟨rfl, rfl⟩ := hb
        simp [hpexp]

/-! ### constraint bounds -/

section
variable [CommRing R]

theorem slack_select (m : List Bool) (A : Mat R) (b x : Vec R) :
    slack (selectBy m A) (selectBy m b) x = selectBy m (slack A b x) := by
  simp [slack, addVec, mulVec, selectBy_zipWith, selectBy_map]

end

section
variable [CommRing R] [LinearOrder R] [IsStrictOrderedRing R]

omit [IsStrictOrderedRing R] in
theorem conBlock_iff (key : BoundKey) (Q : R → Prop)
    (hQ : ∀ d bi : R, ((key = .up → -d ≤ bi) ∧ (key = .fx → -d = bi) ∧ (key = .lo → bi ≤ -d))
      ↔ Q (d + bi))
    (A : Mat R) (b z : Vec R) :
    (∀ p ∈ ((List.replicate A.length key).zip b).zip (mulVec (negMat A) z),
      (p.1.1 = .up → p.2 ≤ p.1.2) ∧ (p.1.1 = .fx → p.2 = p.1.2) ∧ (p.1.1 = .lo → p.1.2 ≤ p.2)) ↔
    ∀ a ∈ slack A b z, Q a := by
  induction A generalizing b with
  | nil => simp [slack, mulVec, addVec, negMat]
  | cons r A ih => cases b with
    | nil => simp [slack, mulVec, addVec, negMat]
    | cons bi b =>
      have ih' := ih b
      simp only [slack, mulVec, addVec, negMat] at ih' ⊢
      simp only [List.length_cons, List.replicate_succ, List.zip_cons_cons, List.map_cons,
        List.zipWith_cons_cons, List.forall_mem_cons, ih', dot_neg_left, hQ]

/-- `-A₊ z ≤ b₊`, `-A₀ z = b₀`  ⇔  `A₊ z + b₊ ≥ 0`, `A₀ z + b₀ = 0` -/
theorem conBounds_iff (Ap A0 : Mat R) (bp b0 z : Vec R) (hp : Ap.length = bp.length) :
    (∀ p ∈ ((List.replicate Ap.length BoundKey.up ++ List.replicate A0.length BoundKey.fx).zip
          (bp ++ b0)).zip (mulVec (negMat (Ap ++ A0)) z),
      (p.1.1 = .up → p.2 ≤ p.1.2) ∧ (p.1.1 = .fx → p.2 = p.1.2) ∧ (p.1.1 = .lo → p.1.2 ≤ p.2)) ↔
    (∀ a ∈ slack Ap bp z, 0 ≤ a) ∧ (∀ a ∈ slack A0 b0 z, a = 0) := by
  have hneg : negMat (Ap ++ A0) = negMat Ap ++ negMat A0 := by simp [negMat]
  rw [hneg, mulVec_append, List.zip_append (by simp [hp]), List.zip_append (by simp [hp]),
    List.forall_mem_append]
  rw [conBlock_iff .up (0 ≤ ·) (by
        intro d bi
        simp only [true_imp_iff, reduceCtorEq, false_imp_iff, and_true]
        constructor <;> intro h <;> linarith),
    conBlock_iff .fx (· = 0) (by
        intro d bi
        simp only [true_imp_iff, reduceCtorEq, false_imp_iff, and_true, true_and]
        constructor <;> intro h <;> linarith)]

omit [IsStrictOrderedRing R] in
/-- a system over {0,+} -/
theorem feasBlocks_lin (S : ConeSem R) (K : List Cone) (s : List R)
    (hK : ∀ co ∈ K, co.type = .zero ∨ co.type = .pos) (h : s.length = totalLen K) :
    FeasBlocks S.P K s ↔
      (∀ a ∈ selectBy (selector K .pos) s, 0 ≤ a) ∧ (∀ a ∈ selectBy (selector K .zero) s, a = 0) := by
  have hall : K.all (fun co => ecosAllowed co.type) = true := by
    rw [List.all_eq_true]
    intro co hco
    rcases hK co hco with h | h <;> simp [h, ecosAllowed]
  rw [feasBlocks_four S K s hall h]
  have h1 : FeasBlocks S.P (K.filter (·.type == .soc)) (selectBy (selector K .soc) s) :=
    feasBlocks_of_nil_filter _ _ _ _ (fun co hco => by rcases hK co hco with h | h <;> simp [h])
  have h2 : FeasBlocks S.P (K.filter (·.type == .exp)) (selectBy (selector K .exp) s) :=
    feasBlocks_of_nil_filter _ _ _ _ (fun co hco => by rcases hK co hco with h | h <;> simp [h])
  tauto

/-- the MOSEK primal task, read with MOSEK's conventions, is the separated system -/
theorem mosek_primal_task_feas (S : ConeSem R) (PM : MosekConeKind → List R → Prop)
    (hquad : ∀ v, PM .quad v ↔ S.P .soc v)
    (hpexp : ∀ x1 x2 x3, PM .pexp [x1, x2, x3] ↔ S.P .exp [x3, x1, x2])
    (n : Nat) (c : Vec R) (A : Mat R) (b : Vec R) (K : List Cone)
    (hwf : WFSys n A b K) (hc : c.length = n)
    (t : MosekTask R) (ht : mosekPrimalTask (mosekPrimalApply n c A b K) = some t) (z : Vec R) :
    TaskFeas PM t z ↔
      (z.length = n + ((separate n A b K (fun t => t == .zero || t == .pos)).slacks.map (·.len)).sum ∧
       FeasBlocks S.P (separate n A b K (fun t => t == .zero || t == .pos)).K
         (slack (separate n A b K (fun t => t == .zero || t == .pos)).A
           (separate n A b K (fun t => t == .zero || t == .pos)).b z) ∧
       ∀ sc ∈ (separate n A b K (fun t => t == .zero || t == .pos)).slacks,
         S.P sc.type (sc.cols.map fun k => z.getD k 0)) := by
  rw [mosekPrimalTask_eq] at ht
  obtain ⟨cones, hm, rfl⟩ := Option.map_eq_some_iff.mp ht
  generalize hs : separate n A b K (fun t => t == .zero || t == .pos) = s at *
  have hsK : ∀ co ∈ s.K, co.type = .zero ∨ co.type = .pos := by
    intro co hco
    rw [← hs, separate_K] at hco
    rcases sepPlan_K_types _ n K 0 co hco with h | h
    · exact Or.inl h
    · simpa [sepAllowed] using h
  have hsb : s.b = b := by rw [← hs, separate_b]
  have hsA : s.A.length = totalLen K := by
    rw [← hs, separate_A n A b K _ hwf.rows]
    simp [sepPlan_rows_length, hwf.rows]; rfl
  have hsT : totalLen s.K = totalLen K := by rw [← hs, separate_K, sepPlan_totalLen]
  have hsl : (slack s.A s.b z).length = totalLen s.K := by
    rw [length_slack, hsA, hsb, hwf.rhs, hsT]; simp [totalLen]
  have h3 : ∀ sc ∈ s.slacks, sc.type = .exp → sc.cols.length = 3 := by
    intro sc hsc hty
    rw [← hs, separate_slacks] at hsc
    obtain ⟨h1, co, hco, h2, h4⟩ := sepPlan_slacks_spec _ n K 0 sc hsc
    rw [h1, ← h4]
    exact hwf.exp3 co hco (by rw [h2, hty])
  have hd : mosekPrimalApply n c A b K =
    { A := negMat (selectBy (selector s.K .pos) s.A ++ selectBy (selector s.K .zero) s.A)
      b := selectBy (selector s.K .pos) s.b ++ selectBy (selector s.K .zero) s.b
      nIneq := (selectBy (selector s.K .pos) s.A).length
      nEq := (selectBy (selector s.K .zero) s.A).length
      sepK := s.slacks
      c := c ++ List.replicate ((s.slacks.map (·.len)).sum) 0
      n := n } := by rw [← hs]; rfl
  rw [hd] at hm ⊢
  simp only [TaskFeas]
  have hcones := primal_cones_iff S.P PM hquad hpexp z s.slacks cones h3 hm
  have hlenA : (selectBy (selector s.K .pos) s.A).length = (selectBy (selector s.K .pos) s.b).length := by
    rw [length_selectBy _ _ (by rw [length_selector, hsA, hsT]),
      length_selectBy _ _ (by rw [length_selector, hsb, hwf.rhs, hsT]; rfl)]
  rw [hcones, conBounds_iff _ _ _ _ _ hlenA, slack_select, slack_select,
    feasBlocks_lin S s.K _ hsK hsl]
  have hvb : ∀ p ∈ (List.replicate (c ++ List.replicate ((s.slacks.map (·.len)).sum) (0:R)).length
      BoundKey.fr).zip z, (p.1 = .lo → 0 ≤ p.2) ∧ (p.1 = .fx → p.2 = 0) ∧ (p.1 = .up → p.2 ≤ 0) := by
    intro p hp
    have := (List.of_mem_zip hp).1
    rw [List.mem_replicate] at this
    simp [this.2]
  simp only [List.length_append, List.length_replicate, hc]
  simp only [List.length_append, List.length_replicate, hc] at hvb
  tauto

end

end Sageopt.Solvers
