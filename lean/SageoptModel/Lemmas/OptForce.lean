/-
C19 helper lemmas, primal cone: `sum_age_force_equality` only changes the `_age_vectors_sum_to_c` rows; the
forced-equality system is contained in the inequality system.
-/
import SageoptModel.Lemmas.OptPrimalRows

namespace Sageopt.Sage
open Sageopt Sageopt.Compile Sageopt.Solvers Sageopt.Analysis

def opt_withForce (inp : PrimalIn) (b : Bool) : PrimalIn :=
  { inp with settings := { inp.settings with sumAgeForceEquality := b } }

theorem opt_pPerI_withForce (inp : PrimalIn) (b : Bool) : opt_pPerI (opt_withForce inp b) = opt_pPerI inp := rfl

theorem opt_sumRows_withForce (inp : PrimalIn) (b : Bool) :
    opt_sumRows (opt_withForce inp b) = sumToC inp.alpha.length inp.c (opt_ages inp) b inp.dummy inp.ech := rfl

/-- a successful run with either value of the flag: the same blocks, followed by the respective sum rows -/
theorem opt_primalRows_force (inp : PrimalIn) (b : Bool) (rows : List CRow) (K : List Cone)
    (h : primalRows (opt_withForce inp b) = .ok (rows, K)) :
    ((inp.ids.filter fun p => !p.nu.isEmpty).isEmpty = true ∧
      rows = inp.c.map (nonnegRow · inp.dummy) ∧ K = [⟨.pos, inp.c.length⟩]) ∨
    (¬ (inp.ids.filter fun p => !p.nu.isEmpty).isEmpty = true ∧
      ∃ perI, inp.ids.mapM (opt_pPerI inp) = .ok perI ∧
        rows = perI.flatMap (·.1) ++ (sumToC inp.alpha.length inp.c (opt_ages inp) b inp.dummy inp.ech).1 ∧
        K = perI.flatMap (·.2) ++ (sumToC inp.alpha.length inp.c (opt_ages inp) b inp.dummy inp.ech).2) := by
  by_cases h0 : (inp.ids.filter fun p => !p.nu.isEmpty).isEmpty = true
  · exact Or.inl ⟨h0, opt_primalRows_small (opt_withForce inp b) h0 rows K h⟩
  · obtain ⟨perI, h1, h2, h3⟩ := opt_primalRows_big (opt_withForce inp b) h0 rows K h
    exact Or.inr ⟨h0, perI, h1, h2, h3⟩

/-- splitting a successful run (flag `b`) into the blocks and the sum rows -/
theorem opt_feas_split (Q : CType → List ℝ → Prop) (inp : PrimalIn)
    (hdom : ∀ X, inp.X = some X → domWf inp.n X ∧ ∀ p ∈ inp.ids, p.nu ≠ [] → p.eta.length = X.b.length)
    (perI : List (List CRow × List Cone)) (hper : inp.ids.mapM (opt_pPerI inp) = .ok perI)
    (rs : List CRow) (ks : List Cone) (σ : Nat → ℝ) :
    FeasRows Q σ (perI.flatMap (·.1) ++ rs) (perI.flatMap (·.2) ++ ks) ↔
      (∀ q ∈ perI, FeasBlocks (conP Q) q.2 (q.1.map (crowVal σ))) ∧ FeasBlocks (conP Q) ks (rs.map (crowVal σ)) := by
  have hper' := (mapM_ok_iff _ _ _).1 hper
  have hall : ∀ q ∈ perI, q.1.length = totalLen q.2 :=
    forall₂_forall_right hper' (fun p hp q hq => opt_pPerI_length inp hdom p hp q hq)
  have hlen : (perI.flatMap (·.1)).length = totalLen (perI.flatMap (·.2)) := by
    clear hper hper'
    induction perI with
    | nil => rfl
    | cons q l ih =>
      rw [List.flatMap_cons, List.flatMap_cons, List.length_append, totalLen_append,
        hall q (List.mem_cons_self ..), ih (fun q' hq' => hall q' (List.mem_cons_of_mem _ hq'))]
  unfold FeasRows
  rw [List.map_append, feasBlocks_append _ _ _ _ _ (by rw [List.length_map, hlen]),
    feasBlocks_flatMap _ _ _ hall]

/-- equality is stronger -/
theorem opt_ineq_of_force_eq (Q : CType → List ℝ → Prop) (inp : PrimalIn)
    (hdom : ∀ X, inp.X = some X → domWf inp.n X ∧ ∀ p ∈ inp.ids, p.nu ≠ [] → p.eta.length = X.b.length)
    (rowsT : List CRow) (KT : List Cone) (hT : primalRows (opt_withForce inp true) = .ok (rowsT, KT))
    (rowsF : List CRow) (KF : List Cone) (hF : primalRows (opt_withForce inp false) = .ok (rowsF, KF))
    (σ : Nat → ℝ) (hσ : FeasRows Q σ rowsT KT) : FeasRows Q σ rowsF KF := by
  rcases opt_primalRows_force inp true rowsT KT hT with ⟨h0, rfl, rfl⟩ | ⟨h0, perI, hper, rfl, rfl⟩
  · rcases opt_primalRows_force inp false rowsF KF hF with ⟨_, rfl, rfl⟩ | ⟨h0', _⟩
    · exact hσ
    · exact absurd h0 h0'
  · rcases opt_primalRows_force inp false rowsF KF hF with ⟨h0', _⟩ | ⟨_, perI', hper', rfl, rfl⟩
    · exact absurd h0' h0
    · have : perI' = perI := by rw [hper] at hper'; cases hper'; rfl
      subst this
      rw [opt_feas_split Q inp hdom perI' hper] at hσ ⊢
      refine ⟨hσ.1, ?_⟩
      have h2 := hσ.2
      rw [opt_sumToC_true_feas] at h2
      rw [opt_sumToC_false_feas]
      intro j hj
      have := h2 j hj
      split at this
      · exact this.ge
      · exact this

end Sageopt.Sage
