/-
Calculus methods, signomial side: `evalWith` is `eval`, the symbolic partial derivative of a
signomial (`partialSig`), the `grad_val` / `hess_val` formulas, `shift_coordinates` and the shape of
`hess`.
-/
import SageoptModel.Lemmas.SigOps
import SageoptModel.Lemmas.SigEq
import SageoptModel.Model.SigCalc

namespace Sageopt.Sig

theorem evalWith_eq_eval' (χ : Exp → Rat) (f : SigT Rat) : evalWith χ f = eval χ f.terms := by
  unfold evalWith eval
  rw [List.sum_eq_foldl]

theorem foldl_add_eq_sum (l : List Rat) : l.foldl (· + ·) 0 = l.sum := by
  rw [List.sum_eq_foldl]

/-! ### the zero signomial produced by the `_partial` methods -/

theorem zeroSig_eq_const (n : Nat) : (mk n [(zeroExp n, (0 : Rat))]) = const n 0 := rfl

theorem zeroSig_terms (n : Nat) : (mk n [(zeroExp n, (0 : Rat))]).terms = [(zeroExp n, 0)] := by
  rw [zeroSig_eq_const, const_terms]

theorem zeroSig_coeff (n : Nat) (a : Exp) : coeff (mk n [(zeroExp n, (0 : Rat))]).terms a = 0 := by
  rw [zeroSig_terms, coeff_cons]
  simp

theorem zeroSig_wf (n : Nat) : Wf (mk n [(zeroExp n, (0 : Rat))]) := by
  rw [zeroSig_eq_const]; exact const_wf _ _

/-! ### `partialSig` -/

/-- the term list `Signomial._partial` hands to the constructor -/
def pSigTerms (ts : List (Exp × Rat)) (i : Nat) : List (Exp × Rat) :=
  ts.filterMap fun t =>
    let c := t.2 * t.1.getD i 0
    if c == 0 then none else some (t.1, c)

theorem partialSig_def (f : SigT Rat) (i : Nat) :
    partialSig f i =
      if (pSigTerms f.terms i).isEmpty then mk f.n [(zeroExp f.n, 0)] else mk f.n (pSigTerms f.terms i) := rfl

theorem pSigTerms_nil (i : Nat) : pSigTerms [] i = [] := rfl

theorem pSigTerms_cons (t : Exp × Rat) (ts : List (Exp × Rat)) (i : Nat) :
    pSigTerms (t :: ts) i =
      if t.2 * t.1.getD i 0 = 0 then pSigTerms ts i else (t.1, t.2 * t.1.getD i 0) :: pSigTerms ts i := by
  unfold pSigTerms
  rw [List.filterMap_cons]
  by_cases h : t.2 * t.1.getD i 0 = 0
  · simp only [beq_iff_eq, h, if_true]
  · simp only [beq_iff_eq, h, if_false]

theorem pSigTerms_coeff (ts : List (Exp × Rat)) (i : Nat) (a : Exp) :
    coeff (pSigTerms ts i) a = a.getD i 0 * coeff ts a := by
  induction ts with
  | nil => simp [pSigTerms_nil]
  | cons t ts ih =>
    rw [pSigTerms_cons, coeff_cons]
    by_cases h : t.2 * t.1.getD i 0 = 0
    · rw [if_pos h, ih]
      by_cases e : t.1 = a
      · rw [if_pos e]
        rw [e] at h
        rw [mul_add, mul_comm (a.getD i 0) t.2, h, zero_add]
      · rw [if_neg e, zero_add]
    · rw [if_neg h, coeff_cons, ih]
      by_cases e : t.1 = a
      · simp only [if_pos e]
        rw [e]; ring
      · simp only [if_neg e]
        ring

theorem pSigTerms_eval (χ : Exp → Rat) (ts : List (Exp × Rat)) (i : Nat) :
    eval χ (pSigTerms ts i) = (ts.map fun t => t.1.getD i 0 * (t.2 * χ t.1)).sum := by
  induction ts with
  | nil => simp [pSigTerms_nil]
  | cons t ts ih =>
    rw [pSigTerms_cons, List.map_cons, List.sum_cons]
    by_cases h : t.2 * t.1.getD i 0 = 0
    · rw [if_pos h, ih]
      have : t.1.getD i 0 * (t.2 * χ t.1) = (t.2 * t.1.getD i 0) * χ t.1 := by ring
      rw [this, h]; ring
    · rw [if_neg h, eval_cons, ih]
      ring

theorem pSigTerms_mem {ts : List (Exp × Rat)} {i : Nat} {t : Exp × Rat} (h : t ∈ pSigTerms ts i) :
    ∃ u ∈ ts, t.1 = u.1 ∧ t.2 = u.2 * u.1.getD i 0 := by
  induction ts with
  | nil => simp [pSigTerms_nil] at h
  | cons u us ih =>
    rw [pSigTerms_cons] at h
    by_cases hc : u.2 * u.1.getD i 0 = 0
    · rw [if_pos hc] at h
      obtain ⟨v, hv, e⟩ := ih h
      exact ⟨v, List.mem_cons_of_mem _ hv, e⟩
    · rw [if_neg hc] at h
      rcases List.mem_cons.1 h with rfl | h
      · exact ⟨u, by simp, rfl, rfl⟩
      · obtain ⟨v, hv, e⟩ := ih h
        exact ⟨v, List.mem_cons_of_mem _ hv, e⟩

theorem pSigTerms_keys_sublist (ts : List (Exp × Rat)) (i : Nat) :
    (keys (pSigTerms ts i)).Sublist (keys ts) := by
  induction ts with
  | nil => simp [pSigTerms_nil, keys]
  | cons u us ih =>
    rw [pSigTerms_cons]
    by_cases hc : u.2 * u.1.getD i 0 = 0
    · rw [if_pos hc]
      exact List.Sublist.cons _ ih
    · rw [if_neg hc]
      exact List.Sublist.cons_cons _ ih

theorem pSigTerms_grid {ts : List (Exp × Rat)} (hg : ∀ t ∈ ts, OnGrid t.1) (i : Nat) :
    ∀ t ∈ pSigTerms ts i, OnGrid t.1 := by
  intro t ht
  obtain ⟨u, hu, e, _⟩ := pSigTerms_mem ht
  rw [e]; exact hg u hu

/-- the representation of the derivative: the filtered list itself, or the single zero term -/
theorem partialSig_terms (f : SigT Rat) (hf : Wf f) (i : Nat) :
    (partialSig f i).terms =
      if (pSigTerms f.terms i).isEmpty then [(zeroExp f.n, 0)] else pSigTerms f.terms i := by
  rw [partialSig_def]
  by_cases h : (pSigTerms f.terms i).isEmpty = true
  · rw [if_pos h, if_pos h, zeroSig_terms]
  · rw [if_neg h, if_neg h]
    exact mk_terms_of_wf (pSigTerms_grid hf.grid i)
      (List.Nodup.sublist (pSigTerms_keys_sublist _ _) hf.nodup)

theorem partialSig_n (f : SigT Rat) (i : Nat) : (partialSig f i).n = f.n := by
  rw [partialSig_def]
  split <;> rfl

theorem partialSig_coeff_terms (f : SigT Rat) (hf : Wf f) (i : Nat) (a : Exp) :
    coeff (partialSig f i).terms a = coeff (pSigTerms f.terms i) a := by
  rw [partialSig_terms f hf]
  by_cases h : (pSigTerms f.terms i).isEmpty = true
  · rw [if_pos h, List.isEmpty_iff.1 h, coeff_cons]
    simp
  · rw [if_neg h]

theorem partialSig_coeff' (f : SigT Rat) (hf : Wf f) (i : Nat) (a : Exp) :
    coeff (partialSig f i).terms a = a.getD i 0 * coeff f.terms a := by
  rw [partialSig_coeff_terms f hf, pSigTerms_coeff]

theorem partialSig_wf' (f : SigT Rat) (hf : Wf f) (i : Nat) : Wf (partialSig f i) := by
  rw [partialSig_def]
  by_cases h : (pSigTerms f.terms i).isEmpty = true
  · rw [if_pos h]; exact zeroSig_wf _
  · rw [if_neg h]
    apply mk_wf'
    intro t ht
    obtain ⟨u, hu, e, _⟩ := pSigTerms_mem ht
    rw [e]; exact hf.width u hu

theorem partialSig_eval (χ : Exp → Rat) (f : SigT Rat) (hf : Wf f) (i : Nat) :
    eval χ (partialSig f i).terms = (f.terms.map fun t => t.1.getD i 0 * (t.2 * χ t.1)).sum := by
  rw [eval_congr_coeff χ (partialSig_coeff_terms f hf i), pSigTerms_eval]

/-! ### `grad_val`, `hess_val` -/

theorem getD_map_range {α : Type} (n : Nat) (F : Nat → α) (d : α) (i : Nat) (hi : i < n) :
    ((List.range n).map F).getD i d = F i := by
  rw [List.getD_eq_getElem?_getD, List.getElem?_map, List.getElem?_range hi]
  rfl

theorem gradValSig_getD (χ : Exp → Rat) (f : SigT Rat) (i : Nat) (hi : i < f.n) :
    (gradValSig χ f).getD i 0 = (f.terms.map fun t => t.1.getD i 0 * (t.2 * χ t.1)).sum := by
  unfold gradValSig
  rw [getD_map_range _ _ _ _ hi, foldl_add_eq_sum]

theorem hessValSig_getD (χ : Exp → Rat) (f : SigT Rat) (i k : Nat) (hi : i < f.n) (hk : k < f.n) :
    ((hessValSig χ f).getD i []).getD k 0 =
      (f.terms.map fun t => t.1.getD i 0 * (t.1.getD k 0 * (t.2 * χ t.1))).sum := by
  unfold hessValSig
  rw [getD_map_range _ _ _ _ hi, getD_map_range _ _ _ _ hk, foldl_add_eq_sum]

theorem gradValSig_eq' (χ : Exp → Rat) (f : SigT Rat) (hf : Wf f) (i : Nat) (hi : i < f.n) :
    (gradValSig χ f).getD i 0 = evalWith χ (partialSig f i) := by
  rw [gradValSig_getD χ f i hi, evalWith_eq_eval', partialSig_eval χ f hf]

theorem hessValSig_eq' (χ : Exp → Rat) (f : SigT Rat) (hf : Wf f) (i k : Nat) (hi : i < f.n) (hk : k < f.n) :
    ((hessValSig χ f).getD i []).getD k 0 = evalWith χ (partialSig (partialSig f i) k) := by
  rw [hessValSig_getD χ f i k hi hk, evalWith_eq_eval', partialSig_eval χ _ (partialSig_wf' f hf i)]
  -- the inner sum is the evaluation of `partialSig f i` against `a ↦ a_k · χ a`
  have h1 : ((partialSig f i).terms.map fun t => t.1.getD k 0 * (t.2 * χ t.1)).sum =
      eval (fun a => a.getD k 0 * χ a) (partialSig f i).terms := by
    unfold eval
    congr 1
    apply List.map_congr_left
    intro t _
    ring
  rw [h1, partialSig_eval _ f hf]
  congr 1
  apply List.map_congr_left
  intro t _
  ring

theorem hessValSig_symm' (χ : Exp → Rat) (f : SigT Rat) (i k : Nat) (hi : i < f.n) (hk : k < f.n) :
    ((hessValSig χ f).getD i []).getD k 0 = ((hessValSig χ f).getD k []).getD i 0 := by
  rw [hessValSig_getD χ f i k hi hk, hessValSig_getD χ f k i hk hi]
  congr 1
  apply List.map_congr_left
  intro t _
  ring

/-! ### `shift_coordinates` -/

theorem shiftBy_eval' (χ χ' w : Exp → Rat) (hw : ∀ a, χ' a = χ a * w a) (f : SigT Rat) (hf : Wf f) :
    evalWith χ (shiftBy w f) = evalWith χ' f := by
  rw [evalWith_eq_eval', evalWith_eq_eval']
  unfold shiftBy
  rw [mk_eval', rounded_of_grid]
  · unfold eval
    rw [List.map_map]
    congr 1
    apply List.map_congr_left
    intro t _
    simp only [Function.comp_apply, hw]
    ring
  · intro t ht
    obtain ⟨u, hu, rfl⟩ := List.mem_map.1 ht
    exact hf.grid u hu

/-! ### `hess` -/

theorem hess_entry' (poly : Bool) (f : SigT Rat) (i j : Nat) (hi : i < f.n) (hj : j < f.n) :
    ((hess poly f).getD i []).getD j (mk 0 []) =
      (if j ≤ i then partialOf poly (partialOf poly f i) j else partialOf poly (partialOf poly f j) i) := by
  unfold hess
  rw [getD_map_range _ _ _ _ hi, getD_map_range _ _ _ _ hj]

end Sageopt.Sig
