/-
C01 helper lemmas, aligned AGE vectors: entries of `ageVector`, their values, the signomial of an
aligned AGE vector as own term plus the sum over the cover.
-/
import SageoptModel.Lemmas.SagePrimalRows

namespace Sageopt.Sage
open Sageopt Sageopt.Compile Sageopt.Solvers Sageopt.Analysis
open Finset

theorem sp_age_getD (m : Nat) (c : List AffE) (e : Ech) (p : PIds) (j : Nat) (hj : j < m) :
    (ageVector m c e p).getD j (constE 0) =
      if j == p.i then
        if e.N.contains p.i then c.getD p.i (constE 0) else varE (p.cvar.getLastD 0)
      else match (trueIdx (coverOf e p.i)).idxOf? j with
        | some k => varE (p.cvar.getD k 0)
        | none => constE 0 := by
  unfold ageVector
  simp only []
  rw [sp_getD_map_range _ _ _ _ hj]
  rfl

theorem sp_age_length (m : Nat) (c : List AffE) (e : Ech) (p : PIds) : (ageVector m c e p).length = m := by
  simp [ageVector]

/-- every entry of an aligned AGE vector has unit coefficients (own entry of an index in `N`: constant) -/
theorem sp_age_unit (m : Nat) (c : List AffE) (e : Ech) (p : PIds)
    (hN : e.N.contains p.i = true → (c.getD p.i (constE 0)).co = []) (j : Nat) (hj : j < m) :
    sp_UnitCo ((ageVector m c e p).getD j (constE 0)) := by
  rw [sp_age_getD m c e p j hj]
  split
  · split
    · rename_i h; exact sp_unitCo_of_nil _ (hN h)
    · exact sp_unitCo_varE _
  · split
    · exact sp_unitCo_varE _
    · exact sp_unitCo_of_nil _ rfl

theorem sp_ageVal_cov (σ : Nat → ℝ) (m : Nat) (c : List AffE) (e : Ech) (p : PIds)
    (hlt : ∀ j ∈ trueIdx (coverOf e p.i), j < m) (hni : p.i ∉ trueIdx (coverOf e p.i))
    (k : Nat) (hk : k < (trueIdx (coverOf e p.i)).length) :
    ageVal σ m c e p ((trueIdx (coverOf e p.i)).getD k 0) = σ (p.cvar.getD k 0) := by
  have hmem := sp_getD_mem (trueIdx (coverOf e p.i)) k 0 hk
  unfold ageVal
  rw [sp_age_getD m c e p _ (hlt _ hmem)]
  have hne : ((trueIdx (coverOf e p.i)).getD k 0 == p.i) = false := by
    rw [beq_eq_false_iff_ne]
    intro heq
    rw [heq] at hmem
    exact hni hmem
  rw [hne, sp_idxOf?_getD _ (sp_trueIdx_nodup _) k hk]
  simp only [Bool.false_eq_true, if_false]
  exact sp_argVal_varE σ _

theorem sp_ageVal_other (σ : Nat → ℝ) (m : Nat) (c : List AffE) (e : Ech) (p : PIds)
    (j : Nat) (hj : j < m) (hne : j ≠ p.i) (hnc : j ∉ trueIdx (coverOf e p.i)) :
    ageVal σ m c e p j = 0 := by
  unfold ageVal
  rw [sp_age_getD m c e p j hj]
  have hne' : (j == p.i) = false := by rw [beq_eq_false_iff_ne]; exact hne
  rw [hne', sp_idxOf?_none _ _ hnc]
  simp only [Bool.false_eq_true, if_false]
  rw [sp_argVal_constE]; simp

/-! ### signomials with coefficient lists given by a function on `range m` -/

theorem sp_sigVal_range (alpha : List (List Rat)) (f : ℕ → ℝ) (x : List ℝ) :
    sigVal alpha ((List.range alpha.length).map f) x
      = ∑ j ∈ range alpha.length, f j * Real.exp (rdot (alpha.getD j []) x) := by
  unfold sigVal
  rw [← sp_sum_map_range]
  congr 1
  apply List.ext_getElem
  · simp
  · intro j h1 h2
    simp only [List.length_zipWith, List.length_map, List.length_range, Nat.min_self] at h1
    simp [List.getD_eq_getElem?_getD, h1]

/-- the signomial of the aligned AGE vector of `p` -/
theorem sp_sig_age (σ : Nat → ℝ) (m : Nat) (c : List AffE) (e : Ech) (p : PIds) (E : ℕ → ℝ)
    (hi : p.i < m) (hlt : ∀ j ∈ trueIdx (coverOf e p.i), j < m) (hni : p.i ∉ trueIdx (coverOf e p.i)) :
    ∑ j ∈ range m, ageVal σ m c e p j * E j
      = ageVal σ m c e p p.i * E p.i
        + ∑ k ∈ range (trueIdx (coverOf e p.i)).length,
            σ (p.cvar.getD k 0) * E ((trueIdx (coverOf e p.i)).getD k 0) := by
  set cov := trueIdx (coverOf e p.i) with hcov
  have hsub : insert p.i cov.toFinset ⊆ range m := by
    intro j hj
    rw [Finset.mem_insert, List.mem_toFinset] at hj
    rw [Finset.mem_range]
    rcases hj with rfl | hj
    · exact hi
    · exact hlt j hj
  rw [← Finset.sum_subset hsub]
  · rw [Finset.sum_insert (by rw [List.mem_toFinset]; exact hni),
      List.sum_toFinset _ (sp_trueIdx_nodup _), sp_sum_map_eq_range cov _ 0]
    congr 1
    apply Finset.sum_congr rfl
    intro k hk
    rw [Finset.mem_range] at hk
    rw [sp_ageVal_cov σ m c e p hlt hni k hk]
  · intro j hj hnj
    rw [Finset.mem_insert, List.mem_toFinset, not_or] at hnj
    rw [sp_ageVal_other σ m c e p j (Finset.mem_range.1 hj) hnj.1 hnj.2, zero_mul]

end Sageopt.Sage
