/-
C02 helper lemmas, part 1: the cones over ℝ with tags {0,+,S,e} are closed under multiplication by a
nonnegative scalar (blockwise too).  Used for the perspective rows `A μ_i + v_i b ∈ K`.
-/
import SageoptModel.Lemmas.SageSem
import SageoptModel.Lemmas.SolversBasic
import Mathlib.Tactic.Positivity
import Mathlib.Tactic.Ring
import Mathlib.Tactic.Linarith

namespace Sageopt.Sage
open Sageopt Sageopt.Compile Sageopt.Solvers Sageopt.Analysis

theorem sd_inExpCone_scale (x y z a : ℝ) (ha : 0 ≤ a) (h : InExpCone x y z) :
    InExpCone (a * x) (a * y) (a * z) := by
  rcases eq_or_lt_of_le ha with h0 | hpos
  · subst h0; right; simp
  · rcases h with ⟨hz, hy⟩ | ⟨hz, hx, hy⟩
    · left
      refine ⟨mul_pos hpos hz, ?_⟩
      have e : a * x / (a * z) = x / z := by
        rw [mul_div_mul_left _ _ hpos.ne']
      rw [e, mul_assoc]
      exact mul_le_mul_of_nonneg_left hy ha
    · right
      subst hz
      refine ⟨by simp, ?_, mul_nonneg ha hy⟩
      exact mul_nonpos_of_nonneg_of_nonpos ha hx

theorem sd_sumsq_scale (x : List ℝ) (a : ℝ) :
    ((x.map (a * ·)).map (· ^ 2)).sum = a ^ 2 * (x.map (· ^ 2)).sum := by
  induction x with
  | nil => simp
  | cons b x ih =>
    simp only [List.map_cons, List.sum_cons, ih]; ring

theorem sd_socR_scale (v : List ℝ) (a : ℝ) (ha : 0 ≤ a) (h : socR v) : socR (v.map (a * ·)) := by
  cases v with
  | nil => trivial
  | cons t x =>
    obtain ⟨h1, h2⟩ := h
    refine ⟨mul_nonneg ha h1, ?_⟩
    rw [sd_sumsq_scale, mul_pow]
    exact mul_le_mul_of_nonneg_left h2 (by positivity)

theorem sd_expR_scale (v : List ℝ) (a : ℝ) (ha : 0 ≤ a) (h : expR v) : expR (v.map (a * ·)) := by
  match v, h with
  | [x, y, z], h => exact sd_inExpCone_scale x y z a ha h

theorem sd_realP_scale (ty : CType) (hty : ty ∈ [CType.zero, .pos, .soc, .exp]) (v : List ℝ) (a : ℝ)
    (ha : 0 ≤ a) (h : realP ty v) : realP ty (v.map (a * ·)) := by
  simp only [List.mem_cons, List.not_mem_nil, or_false] at hty
  rcases hty with rfl | rfl | rfl | rfl
  · intro b hb
    rw [List.mem_map] at hb
    obtain ⟨c, hc, rfl⟩ := hb
    rw [h c hc, mul_zero]
  · intro b hb
    rw [List.mem_map] at hb
    obtain ⟨c, hc, rfl⟩ := hb
    exact mul_nonneg ha (h c hc)
  · exact sd_socR_scale v a ha h
  · exact sd_expR_scale v a ha h

theorem sd_conP_eq_realP (Q : CType → List ℝ → Prop) (ty : CType)
    (hty : ty ∈ [CType.zero, .pos, .soc, .exp]) (v : List ℝ) : conP Q ty v = realP ty v := by
  simp only [List.mem_cons, List.not_mem_nil, or_false] at hty
  rcases hty with rfl | rfl | rfl | rfl <;> rfl

theorem sd_conP_scale (Q : CType → List ℝ → Prop) (ty : CType)
    (hty : ty ∈ [CType.zero, .pos, .soc, .exp]) (v : List ℝ) (a : ℝ) (ha : 0 ≤ a) (h : conP Q ty v) :
    conP Q ty (v.map (a * ·)) := by
  rw [sd_conP_eq_realP Q ty hty] at h ⊢
  exact sd_realP_scale ty hty v a ha h

/-- blockwise: a product of cones with tags {0,+,S,e} is closed under nonnegative scaling -/
theorem sd_feasBlocks_scale (Q : CType → List ℝ → Prop) (K : List Cone)
    (hK : ∀ co ∈ K, co.type ∈ [CType.zero, .pos, .soc, .exp]) (s : List ℝ) (a : ℝ) (ha : 0 ≤ a)
    (h : FeasBlocks (conP Q) K s) : FeasBlocks (conP Q) K (s.map (a * ·)) := by
  induction K generalizing s with
  | nil => trivial
  | cons co K ih =>
    rw [feasBlocks_cons] at h ⊢
    rw [← List.map_take, ← List.map_drop]
    exact ⟨sd_conP_scale Q co.type (hK co (List.mem_cons_self ..)) _ a ha h.1,
      ih (fun c hc => hK c (List.mem_cons_of_mem _ hc)) _ h.2⟩

end Sageopt.Sage
