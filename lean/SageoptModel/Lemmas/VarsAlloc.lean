/-
Helper lemmas for C20: what `create` returns, and the per-history invariant of `runH`
(generations never decrease; within the current generation the counter only grows).
Core Lean only.
-/
import SageoptModel.Lemmas.VarsSym

namespace Sageopt.Vars

theorem length_flatMap_map_range {α : Type} (L : List Nat) (n : Nat) (f : Nat → Nat → α) :
    (L.flatMap fun i => (List.range n).map fun j => f i j).length = L.length * n := by
  induction L with
  | nil => simp
  | cons x xs ih =>
    simp only [List.flatMap_cons, List.length_append, List.length_map, List.length_range, ih,
      List.length_cons, Nat.succ_mul]
    omega

theorem symIds_length (base n : Nat) : (symIds base n).length = n * n := by
  have := length_flatMap_map_range (List.range n) n (fun i j => base + symId n i j)
  simpa [symIds] using this

theorem mem_symIds {base n id : Nat} (h : id ∈ symIds base n) :
    ∃ i j, i < n ∧ j < n ∧ id = base + symId n i j := by
  simp only [symIds, List.mem_flatMap, List.mem_map, List.mem_range] at h
  obtain ⟨i, hi, j, hj, rfl⟩ := h
  exact ⟨i, j, hi, hj, rfl⟩

theorem mem_symIds_bounds {base n id : Nat} (h : id ∈ symIds base n) :
    base ≤ id ∧ id < base + n * (n + 1) / 2 := by
  obtain ⟨i, j, hi, hj, rfl⟩ := mem_symIds h
  have := symId_lt' n i j hi hj
  omega

theorem size_pair (n m : Nat) : size [n, m] = n * m := by
  simp [size]

theorem nodup_range_map_add (k c : Nat) : ((List.range k).map (· + c)).Nodup := by
  unfold List.Nodup
  rw [List.pairwise_map]
  refine List.Pairwise.imp ?_ (List.nodup_range (n := k))
  intro x y hxy
  omega

/-- the allocator after resolving the name: same counter and generation -/
def afterName (a : Alloc) : Option String → Alloc
  | some _ => a
  | none => { a with unnamed := a.unnamed + 1 }

theorem afterName_counter (a : Alloc) (nm : Option String) : (afterName a nm).counter = a.counter := by
  cases nm <;> rfl

theorem afterName_gen (a : Alloc) (nm : Option String) : (afterName a nm).gen = a.gen := by
  cases nm <;> rfl

/-- case analysis of a successful `create` -/
theorem create_some {a a' : Alloc} {shape : List Nat} {name : Option String} {sym : Bool} {v : VarObj}
    (h : create a shape name sym = some (a', v)) :
    size shape ≠ 0 ∧ v.proper = true ∧ v.gen = a.gen ∧ a'.gen = a.gen ∧ v.shape = shape ∧
    ((sym = false ∧ a'.counter = a.counter + size shape ∧
        v.ids = (List.range (size shape)).map (· + a.counter)) ∨
     (sym = true ∧ ∃ n, shape = [n, n] ∧ a'.counter = a.counter + n * (n + 1) / 2 ∧
        v.ids = symIds a.counter n)) := by
  unfold create at h
  cases name with
  | some s =>
    simp only at h
    split at h
    · exact absurd h (by simp)
    · rename_i hs
      split at h
      · rename_i hsym
        split at h
        · rename_i n n'
          split at h
          · rename_i hn
            subst hn
            simp only [Option.some.injEq, Prod.mk.injEq] at h
            obtain ⟨rfl, rfl⟩ := h
            exact ⟨hs, rfl, rfl, rfl, rfl, Or.inr ⟨hsym, n, rfl, rfl, rfl⟩⟩
          · exact absurd h (by simp)
        · exact absurd h (by simp)
      · rename_i hsym
        simp only [Option.some.injEq, Prod.mk.injEq] at h
        obtain ⟨rfl, rfl⟩ := h
        exact ⟨hs, rfl, rfl, rfl, rfl, Or.inl ⟨by simpa using hsym, rfl, rfl⟩⟩
  | none =>
    simp only at h
    split at h
    · exact absurd h (by simp)
    · rename_i hs
      split at h
      · rename_i hsym
        split at h
        · rename_i n n'
          split at h
          · rename_i hn
            subst hn
            simp only [Option.some.injEq, Prod.mk.injEq] at h
            obtain ⟨rfl, rfl⟩ := h
            exact ⟨hs, rfl, rfl, rfl, rfl, Or.inr ⟨hsym, n, rfl, rfl, rfl⟩⟩
          · exact absurd h (by simp)
        · exact absurd h (by simp)
      · rename_i hsym
        simp only [Option.some.injEq, Prod.mk.injEq] at h
        obtain ⟨rfl, rfl⟩ := h
        exact ⟨hs, rfl, rfl, rfl, rfl, Or.inl ⟨by simpa using hsym, rfl, rfl⟩⟩

theorem create_spec' (a a' : Alloc) (shape : List Nat) (name : Option String) (sym : Bool) (v : VarObj)
    (h : create a shape name sym = some (a', v)) :
    v.proper = true ∧ v.gen = a.gen ∧ a'.gen = a.gen ∧ a.counter ≤ a'.counter ∧ v.shape = shape ∧
    v.ids.length = size shape ∧
    (∀ id ∈ v.ids, a.counter ≤ id ∧ id < a'.counter) ∧
    (sym = false → v.ids.Nodup) := by
  obtain ⟨_, hp, hg, hg', hsh, hc⟩ := create_some h
  rcases hc with ⟨hsym, hcnt, hids⟩ | ⟨hsym, n, rfl, hcnt, hids⟩
  · refine ⟨hp, hg, hg', by omega, hsh, ?_, ?_, ?_⟩
    · simp [hids]
    · intro id hid
      rw [hids] at hid
      simp only [List.mem_map, List.mem_range] at hid
      obtain ⟨x, hx, rfl⟩ := hid
      omega
    · intro _
      rw [hids]; exact nodup_range_map_add _ _
  · refine ⟨hp, hg, hg', by omega, hsh, ?_, ?_, ?_⟩
    · rw [hids, symIds_length, size_pair]
    · intro id hid
      rw [hids] at hid
      have := mem_symIds_bounds hid
      omega
    · intro hf; rw [hsym] at hf; exact absurd hf (by decide)

end Sageopt.Vars
