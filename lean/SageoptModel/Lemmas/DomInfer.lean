/-
C15 helper lemmas, part 5: `inferSig` / `inferPoly` taken apart, and the chain
kept constraint → normalised standard form → generated log-space constraints.
-/
import SageoptModel.Lemmas.DomClcon
import SageoptModel.Lemmas.PolyBChar

namespace Sageopt.Domain
open Sageopt Sageopt.Sig Sageopt.Sig.Hom Sageopt.Relax Sageopt.Poly Sageopt.Sage Sageopt.RelaxSig

theorem dm_mem_keptOf (l : List Sel) (g' : SigQ) : g' ∈ keptOf l ↔ Sel.keep g' ∈ l := by
  induction l with
  | nil => simp [keptOf]
  | cons s l ih =>
    cases s with
    | skip => simp [keptOf, ih]
    | keep g => simp [keptOf, ih]
    | raises m => simp [keptOf, ih]

theorem dm_mem_keptOf_map (l : List SigQ) (f : SigQ → Sel) (g' : SigQ) :
    g' ∈ keptOf (l.map f) ↔ ∃ g ∈ l, f g = .keep g' := by
  rw [dm_mem_keptOf, List.mem_map]

theorem dm_no_raise (cons : List LogCon)
    (h : ∀ m, cons.find? (fun c => match c with | .raises _ => true | _ => false) = some (.raises m) → False) :
    ∀ c ∈ cons, ∀ m, c ≠ .raises m := by
  intro c hc m e
  subst e
  cases hf : cons.find? (fun c => match c with | .raises _ => true | _ => false) with
  | none =>
    have := List.find?_eq_none.1 hf _ hc
    simp at this
  | some c' =>
    have hp := List.find?_some hf
    cases c' with
    | raises m' => exact h m' hf
    | lse _ _ _ => simp at hp
    | lin _ _ _ => simp at hp
    | eq _ _ _ => simp at hp

theorem dm_inferSig_ok (gts eqs : List SigQ) (r : Inferred) (h : inferSig gts eqs = .ok (some r)) :
    r.gts = keptOf (gts.map posyIneq) ∧ r.eqs = keptOf (eqs.map monoEq) ∧
    r.cons = r.gts.flatMap clconGt ++ r.eqs.flatMap clconEq ∧ ∀ c ∈ r.cons, ∀ m, c ≠ .raises m := by
  unfold inferSig at h
  simp only [] at h
  split at h
  · cases h
  · cases h
  · split at h
    · cases h
    · rename_i hno
      split at h
      · cases h
      · injection h with h
        injection h with h
        subst h
        exact ⟨rfl, rfl, rfl, dm_no_raise _ hno⟩

theorem dm_inferPoly_ok (gts eqs : List SigQ) (r : Inferred) (h : inferPoly gts eqs = .ok (some r)) :
    r.gts = keptOf (gts.map gpPolyIneq) ∧ r.eqs = keptOf (eqs.map gpPolyEq) ∧
    r.logGts = keptOf (r.gts.map posyIneq) ∧ r.logEqs = keptOf (r.eqs.map monoEq) ∧
    r.cons = r.logGts.flatMap clconGt ++ r.logEqs.flatMap clconEq ∧ ∀ c ∈ r.cons, ∀ m, c ≠ .raises m := by
  unfold inferPoly at h
  simp only [] at h
  split at h
  · cases h
  · cases h
  · split at h
    · cases h
    · cases h
    · split at h
      · cases h
      · rename_i hno
        split at h
        · cases h
        · injection h with h
          injection h with h
          subst h
          exact ⟨rfl, rfl, rfl, rfl, rfl, dm_no_raise _ hno⟩

/-- the generated constraints of standard forms hold iff the standard forms do -/
theorem dm_cons_iff (kg ke : List SigQ) (hkg : ∀ g ∈ kg, StdGt g) (hke : ∀ g ∈ ke, StdEq g) (y : List ℝ) :
    (∀ c ∈ kg.flatMap clconGt ++ ke.flatMap clconEq, LogCon.holds y c) ↔
      ((∀ g ∈ kg, 0 ≤ sigR g.terms y) ∧ (∀ g ∈ ke, sigR g.terms y = 0)) := by
  constructor
  · intro h
    constructor
    · intro g hg
      apply (dm_clconGt_iff g (hkg g hg) y).1
      intro c hc
      exact h c (List.mem_append_left _ (List.mem_flatMap.2 ⟨g, hg, hc⟩))
    · intro g hg
      apply (dm_clconEq_iff g (hke g hg) y).1
      intro c hc
      exact h c (List.mem_append_right _ (List.mem_flatMap.2 ⟨g, hg, hc⟩))
  · rintro ⟨h1, h2⟩ c hc
    rcases List.mem_append.1 hc with hc | hc
    · obtain ⟨g, hg, hc⟩ := List.mem_flatMap.1 hc
      exact (dm_clconGt_iff g (hkg g hg) y).2 (h1 g hg) c hc
    · obtain ⟨g, hg, hc⟩ := List.mem_flatMap.1 hc
      exact (dm_clconEq_iff g (hke g hg) y).2 (h2 g hg) c hc

/-! ### normalisation keeps the set -/

theorem dm_posyIneq_keep_iff (g g' : SigQ) (hg : Wf g) (h : posyIneq g = .keep g') (y : List ℝ) :
    0 ≤ sigR g.terms y ↔ 0 ≤ sigR g'.terms y := by
  obtain ⟨p, hp, rfl⟩ := dm_posyIneq_keep g g' h
  obtain ⟨hpm, _, _⟩ := dm_posTerms_single hp
  rw [dm_sigR_normalised g hg p.1 (hg.grid p hpm) (hg.width p hpm) y]
  exact (mul_nonneg_iff_of_pos_right (Real.exp_pos _)).symm

theorem dm_monoEq_keep_iff (g g' : SigQ) (hg : Wf g) (h : monoEq g = .keep g') (y : List ℝ) :
    sigR g.terms y = 0 ↔ sigR g'.terms y = 0 := by
  obtain ⟨_, p, hp, rfl⟩ := dm_monoEq_keep g g' h
  obtain ⟨hpm, _, _⟩ := dm_posTerms_single hp
  rw [dm_sigR_normalised g hg p.1 (hg.grid p hpm) (hg.width p hpm) y, mul_eq_zero]
  constructor
  · intro h0; exact Or.inl h0
  · rintro (h0 | h0)
    · exact h0
    · exact absurd h0 (Real.exp_pos _).ne'

theorem dm_sig_neg_of_raise (g : SigQ) (h : posyIneq g = .raises "RuntimeError: infeasible signomial inequality")
    (y : List ℝ) : sigR g.terms y < 0 := by
  obtain ⟨hpos, hneg⟩ := dm_posyIneq_raise g h
  unfold posTerms at hpos
  unfold negTerms at hneg
  have hle : ∀ t ∈ g.terms, t.2 ≤ 0 := by
    intro t ht
    by_contra hc
    have : t ∈ g.terms.filter fun t => decide (0 < t.2) :=
      List.mem_filter.2 ⟨ht, by simpa using lt_of_not_ge hc⟩
    rw [hpos] at this
    simp at this
  obtain ⟨u, hu⟩ := List.exists_mem_of_ne_nil _ hneg
  obtain ⟨hu1, hu2⟩ := List.mem_filter.1 hu
  have hu2 : u.2 < 0 := by simpa using hu2
  generalize g.terms = ts at hle hu1
  induction ts with
  | nil => simp at hu1
  | cons t ts ih =>
    rw [pa_sigR_cons]
    have ht : ((t.2 : Rat) : ℝ) ≤ 0 := by exact_mod_cast hle t (by simp)
    have hrest : sigR ts y ≤ 0 := by
      clear ih hu1
      induction ts with
      | nil => simp [pa_sigR_nil]
      | cons s ts ih2 =>
        rw [pa_sigR_cons]
        have hs : ((s.2 : Rat) : ℝ) ≤ 0 := by exact_mod_cast hle s (by simp)
        have := ih2 (fun v hv => hle v (by
          rcases List.mem_cons.1 hv with rfl | hv
          · simp
          · simp [hv]))
        nlinarith [Real.exp_pos (rdot s.1 y)]
    rcases List.mem_cons.1 hu1 with rfl | hu1
    · have hu3 : ((u.2 : Rat) : ℝ) < 0 := by exact_mod_cast hu2
      nlinarith [Real.exp_pos (rdot u.1 y)]
    · have := ih (fun v hv => hle v (by simp [hv])) hu1
      nlinarith [Real.exp_pos (rdot t.1 y)]

/-! ### polynomials with even exponents -/

theorem dm_even_poly_logabs (ts : List (Exp × Rat)) (x : List ℝ) (hx : NoZero x)
    (hw : ∀ t ∈ ts, t.1.length = x.length ∧ isPolyExp t.1 = true ∧ isEvenExp t.1 = true) :
    polyR ts x = sigR ts (logAbs x) := by
  induction ts with
  | nil => simp [pa_sigR_nil]
  | cons t ts ih =>
    obtain ⟨h1, h2, h3⟩ := hw t (by simp)
    rw [pa_polyR_cons, pa_sigR_cons, pa_mono_even t.1 x hx h1 h2 h3,
      ih (fun u hu => hw u (List.mem_cons_of_mem _ hu))]

theorem dm_allEven_mem {g : SigQ} (h : allEven g = true) : ∀ t ∈ g.terms, isEvenExp t.1 = true := by
  unfold allEven at h
  exact List.all_eq_true.1 h

theorem dm_even_poly (g : SigQ) (hg : PolyWfQ g) (he : allEven g = true) (x : List ℝ) (hx : NoZero x)
    (hl : x.length = g.n) : polyR g.terms x = sigR g.terms (logAbs x) :=
  dm_even_poly_logabs g.terms x hx fun t ht =>
    ⟨by rw [(hg t ht).1, hl], (hg t ht).2, dm_allEven_mem he t ht⟩

theorem dm_polyWf_wf (g : SigQ) (hg : PolyWfQ g) (hnd : (keys g.terms).Nodup) : Wf g :=
  ⟨fun t ht => (hg t ht).1, fun t ht => pb_isPolyExp_onGrid (hg t ht).2, hnd⟩

/-! ### the polynomial selectors -/

theorem dm_gpPolyIneq_keep (g g0 : SigQ) (h : gpPolyIneq g = .keep g0) :
    g0 = g ∧ (∃ p, posTerms g = [p]) ∧ allEven g = true := by
  unfold gpPolyIneq at h
  simp only [] at h
  split at h
  · rename_i hc
    injection h with h
    simp only [Bool.and_eq_true, beq_iff_eq] at hc
    exact ⟨h.symm, List.length_eq_one_iff.1 hc.1, hc.2⟩
  · split at h
    · split at h <;> cases h
    · cases h

theorem dm_gpPolyEq_keep (g g0 : SigQ) (h : gpPolyEq g = .keep g0) :
    g0 = g ∧ (∃ p, posTerms g = [p]) ∧ allEven g = true ∧ nonzeroCount g = 2 := by
  unfold gpPolyEq at h
  split at h
  · rename_i hc
    injection h with h
    simp only [Bool.and_eq_true, beq_iff_eq] at hc
    exact ⟨h.symm, List.length_eq_one_iff.1 hc.2, hc.1.1, hc.1.2⟩
  · cases h

theorem dm_posyIneq_of_single (g : SigQ) (p : Exp × Rat) (hp : posTerms g = [p]) :
    posyIneq g = .keep (mulQ g (monomial g.n (negExp p.1))) := by
  unfold posyIneq
  simp [hp]

theorem dm_monoEq_of_single (g : SigQ) (p : Exp × Rat) (hp : posTerms g = [p]) (h2 : nonzeroCount g = 2) :
    monoEq g = .keep (mulQ g (monomial g.n (negExp p.1))) := by
  unfold monoEq
  simp [hp, h2]

end Sageopt.Domain
