/-
Real-valued assignments of the scalar variables (what a solver returns) for the relaxation builders of
`Model/Relax.lean`: `rr_value σ : Lin → ℝ` is an additive map in the sense of `Lemmas/SigMapHom.lean`, so the
coefficient calculus of `Lemmas/RelaxSigBuild.lean` (stated there for `Lin.value σ : Lin → ℚ` followed by the
cast) replays with codomain `ℝ`.  Key lemma `rr_S_coeff`: under every REAL assignment the coefficient function
of the modulated Lagrangian `s = L·t` is that of `f'·t − γ·t`; `rr_S_eval` is the evaluated form.
-/
import SageoptModel.Lemmas.RelaxSigBuild

namespace Sageopt.RelaxSig
open Sageopt Sageopt.Sig Sageopt.Sig.Hom Sageopt.Relax Sageopt.Sage

noncomputable section

/-- the variable part of the value: `Σ cᵢ·σ(i)` -/
def rr_lsum (σ : Nat → ℝ) (co : List (Nat × Rat)) : ℝ := (co.map fun p => ((p.2 : Rat) : ℝ) * σ p.1).sum

/-- value of an affine form under a real assignment of the scalar variables -/
def rr_value (σ : Nat → ℝ) (l : Lin) : ℝ := rr_lsum σ l.co + ((l.off : Rat) : ℝ)

@[simp] theorem rr_lsum_nil (σ : Nat → ℝ) : rr_lsum σ [] = 0 := rfl

@[simp] theorem rr_lsum_cons (σ : Nat → ℝ) (p : Nat × Rat) (co : List (Nat × Rat)) :
    rr_lsum σ (p :: co) = ((p.2 : Rat) : ℝ) * σ p.1 + rr_lsum σ co := by
  simp [rr_lsum]

theorem rr_lsum_merge (σ : Nat → ℝ) (xs ys : List (Nat × Rat)) :
    rr_lsum σ (Lin.merge xs ys) = rr_lsum σ xs + rr_lsum σ ys := by
  induction xs, ys using Lin.merge.induct with
  | case1 ys => simp [Lin.merge]
  | case2 xs h =>
    cases xs with
    | nil => exact absurd rfl h
    | cons x xs => simp [Lin.merge]
  | case3 i a xs j b ys hij ih =>
    rw [Lin.merge, if_pos hij, rr_lsum_cons, ih]
    simp only [rr_lsum_cons]
    ring
  | case4 i a xs j b ys hij hji ih =>
    rw [Lin.merge, if_neg hij, if_pos hji, rr_lsum_cons, ih]
    simp only [rr_lsum_cons]
    ring
  | case5 i a xs j b ys hij hji hab ih =>
    rw [Lin.merge, if_neg hij, if_neg hji, if_pos hab, ih]
    have e : i = j := Nat.le_antisymm (Nat.not_lt.1 hji) (Nat.not_lt.1 hij)
    subst e
    simp only [rr_lsum_cons]
    have hab' : ((a : Rat) : ℝ) + ((b : Rat) : ℝ) = 0 := by
      have := congrArg (fun q : Rat => (q : ℝ)) hab
      simpa using this
    have : ((a : Rat) : ℝ) * σ i + ((b : Rat) : ℝ) * σ i = 0 := by rw [← add_mul, hab', zero_mul]
    linarith
  | case6 i a xs j b ys hij hji hab ih =>
    rw [Lin.merge, if_neg hij, if_neg hji, if_neg hab, rr_lsum_cons, ih]
    have e : i = j := Nat.le_antisymm (Nat.not_lt.1 hji) (Nat.not_lt.1 hij)
    subst e
    simp only [rr_lsum_cons]
    push_cast
    ring

theorem rr_lsum_map_scale (σ : Nat → ℝ) (q : Rat) (co : List (Nat × Rat)) :
    rr_lsum σ (co.map fun p => (p.1, q * p.2)) = (q : ℝ) * rr_lsum σ co := by
  induction co with
  | nil => simp
  | cons p co ih =>
    rw [List.map_cons, rr_lsum_cons, rr_lsum_cons, ih]
    push_cast
    ring

/-! ### the operations -/

theorem rr_value_const (σ : Nat → ℝ) (q : Rat) : rr_value σ (Lin.const q) = (q : ℝ) := by
  simp [rr_value, Lin.const]

theorem rr_value_zero (σ : Nat → ℝ) : rr_value σ (0 : Lin) = 0 := by
  show rr_value σ (Lin.const 0) = 0
  rw [rr_value_const]
  simp

theorem rr_value_var (σ : Nat → ℝ) (i : Nat) : rr_value σ (Lin.var i) = σ i := by
  simp [rr_value, Lin.var]

theorem rr_value_add (σ : Nat → ℝ) (x y : Lin) : rr_value σ (x + y) = rr_value σ x + rr_value σ y := by
  rw [Lin.add_def]
  unfold rr_value
  simp only []
  rw [rr_lsum_merge]
  push_cast
  ring

/-- the model's `Lin.add`, spelled without the `+` notation -/
theorem rr_value_add' (σ : Nat → ℝ) (x y : Lin) :
    rr_value σ (Lin.add x y) = rr_value σ x + rr_value σ y := rr_value_add σ x y

theorem rr_value_scale (σ : Nat → ℝ) (q : Rat) (x : Lin) :
    rr_value σ (Lin.scale q x) = (q : ℝ) * rr_value σ x := by
  unfold Lin.scale
  by_cases hq : q = 0
  · rw [if_pos hq, hq]
    simp [rr_value]
  · rw [if_neg hq]
    unfold rr_value
    simp only []
    rw [rr_lsum_map_scale]
    push_cast
    ring

theorem rr_value_of_isConstant (σ : Nat → ℝ) (x : Lin) (h : x.isConstant = true) :
    rr_value σ x = (x.off : ℝ) := by
  have : x.co = [] := List.isEmpty_iff.1 h
  unfold rr_value
  rw [this]
  simp

/-- a product with a constant right factor means what it says (whatever the poison flags) -/
theorem rr_value_mul_of_right_const (σ : Nat → ℝ) (x y : Lin) (hy : y.isConstant = true) :
    rr_value σ (x * y) = rr_value σ x * rr_value σ y := by
  have h1 : rr_value σ (x * y) = rr_value σ (Lin.scale y.off x) := by
    rw [Lin.mul_def]
    unfold Lin.mul
    rw [if_pos hy]
    rfl
  rw [h1, rr_value_scale, rr_value_of_isConstant σ y hy]
  ring

theorem rr_value_mul_of_left_const (σ : Nat → ℝ) (x y : Lin) (hx : x.isConstant = true) :
    rr_value σ (x * y) = rr_value σ x * rr_value σ y := by
  by_cases hy : y.isConstant = true
  · exact rr_value_mul_of_right_const σ x y hy
  · have h1 : rr_value σ (x * y) = rr_value σ (Lin.scale x.off y) := by
      rw [Lin.mul_def]
      unfold Lin.mul
      rw [if_neg hy, if_pos hx]
      rfl
    rw [h1, rr_value_scale, rr_value_of_isConstant σ x hx]

/-- multiplication by a constant on the left, in the form `Lin.mul (Lin.const q) x` -/
theorem rr_value_mul_const_left (σ : Nat → ℝ) (q : Rat) (x : Lin) :
    rr_value σ (Lin.mul (Lin.const q) x) = (q : ℝ) * rr_value σ x := by
  have h := rr_value_mul_of_left_const σ (Lin.const q) x rfl
  rw [rr_value_const] at h
  exact h

theorem rr_isZero_value (σ : Nat → ℝ) : ∀ c, Lin.isZero c = true → rr_value σ c = 0 := by
  intro c h
  obtain ⟨_, h2, h3⟩ := (Lin.isZero_iff c).1 h
  unfold rr_value
  rw [h2, h3]
  simp

theorem rr_value_isAddHom (σ : Nat → ℝ) : IsAddHom (rr_value σ) :=
  ⟨rr_value_zero σ, rr_value_add σ⟩

/-- on assignments that are casts of rational ones the real value is the cast of the rational value -/
theorem rr_value_cast (σ : Nat → Rat) (l : Lin) :
    rr_value (fun i => ((σ i : Rat) : ℝ)) l = ((Lin.value σ l : Rat) : ℝ) := by
  rw [Lin.value_eq]
  unfold rr_value
  push_cast
  rw [add_comm]
  congr 1
  generalize l.co = co
  induction co with
  | nil => simp
  | cons p co ih =>
    rw [rr_lsum_cons, Lin.lsum_cons, ih]
    push_cast
    ring

/-! ### the builders' intermediate objects under a real assignment -/

theorem rr_mapT_embed (σ : Nat → ℝ) (f : SigQ) :
    mapT (rr_value σ) (embed f).terms = mapT rs_cast f.terms := by
  unfold embed mapT
  simp only [List.map_map]
  apply List.map_congr_left
  intro t _
  simp [rr_value_const, rs_cast]

theorem rr_value_gamma (σ : Nat → ℝ) (g : Nat) : rr_value σ (Lin.scale (-1) (Lin.var g)) = - σ g := by
  rw [rr_value_scale, rr_value_var]
  simp

/-- the sum of two symbolic signomials under a real assignment (generic form of `C13.map_add`) -/
theorem rr_map_add (σ : Nat → ℝ) (f g h : SigT Lin) (hf : Wf f) (hg : Wf g)
    (hadd : add Lin.isZero f g = .ok h) (a : Exp) :
    coeff (mapT (rr_value σ) h.terms) a =
      coeff (mapT (rr_value σ) f.terms) a + coeff (mapT (rr_value σ) g.terms) a := by
  unfold add at hadd
  split at hadd
  · exact absurd hadd (by simp)
  · rename_i hn
    have hn : f.n = g.n := not_not.1 hn
    simp only [Res.ok.injEq] at hadd
    subst hadd
    have hfs : ∀ x ∈ [f, g], Wf x ∧ x.n = f.n := by
      intro x hx
      simp only [List.mem_cons, List.not_mem_nil, or_false] at hx
      rcases hx with rfl | rfl
      · exact ⟨hf, rfl⟩
      · exact ⟨hg, hn.symm⟩
    have hs : Wf (sumList f.n [f, g]) := Gen.sumList_wf f.n [f, g] hfs
    rw [coeff_mapT_withoutZeros (rr_value_isAddHom σ) Lin.isZero (rr_isZero_value σ) _ hs a,
      coeff_mapT_sumList (rr_value_isAddHom σ) f.n [f, g] (fun x hx => (hfs x hx).1) a]
    simp

/-- the Lagrangian `L = f' − γ` under a real assignment -/
theorem rr_L_spec (f : SigQ) (hf : Wf f) (g : Nat) (σ : Nat → ℝ) (a : Exp) :
    coeff (mapT (rr_value σ) (rsL f g).terms) a =
      coeff (mapT rs_cast (rsF f).terms) a - σ g * coeff [(zeroExp f.n, (1 : ℝ))] a := by
  have h := rr_map_add σ _ _ _ (rs_embed_wf _ (rs_F_wf f hf)) (Gen.const_wf _ _) (rs_L_add f g) a
  rw [h, rr_mapT_embed, Gen.const_terms, mapT_cons, mapT_nil, rr_value_gamma, rs_F_n, coeff_cons, coeff_cons]
  by_cases hz : zeroExp f.n = a
  · simp [hz, coeff]
    ring
  · simp [hz, coeff]

/-- KEY: under every real assignment the coefficient function of `s` is that of `f'·t − γ·t` -/
theorem rr_S_coeff (f : SigQ) (hf : Wf f) (ell : Nat) (ms : Option (List Exp))
    (hms : ∀ s, ms = some s → ∀ r ∈ s, r.length = f.n) (g : Nat) (σ : Nat → ℝ) (a : Exp) :
    coeff (mapT (rr_value σ) (rsS f ell ms g).terms) a =
      coeff (prodTerms (mapT rs_cast (rsF f).terms) (mapT rs_cast (rsT f ell ms g).terms)) a -
        σ g * coeff (mapT rs_cast (rsT f ell ms g).terms) a := by
  have hL := rs_L_wf f hf g
  have hT := rs_T_wf f hf ell ms hms g
  have hE := rs_embed_wf _ hT
  have hn : (rsL f g).n = (embed (rsT f ell ms g)).n := by
    rw [rs_L_n]
    exact (rs_T_n f hf ell ms hms g).symm
  have hm : ∀ t1 ∈ (rsL f g).terms, ∀ t2 ∈ (embed (rsT f ell ms g)).terms,
      rr_value σ (t1.2 * t2.2) = rr_value σ t1.2 * rr_value σ t2.2 := by
    intro t1 _ t2 h2
    obtain ⟨u, _, rfl⟩ := List.mem_map.1 h2
    exact rr_value_mul_of_right_const σ _ _ rfl
  rw [rs_S_eq f hf ell ms hms g,
    coeff_mapT_withoutZeros (rr_value_isAddHom σ) Lin.isZero (rr_isZero_value σ) _
      (Gen.product_wf _ _ hL hE hn) a,
    coeff_mapT_product (rr_value_isAddHom σ) _ _ hL.grid hE.grid hm a, rr_mapT_embed,
    rs_coeff_prodTerms_lin (σ g) _ (fun b => rr_L_spec f hf g σ b) a,
    rs_coeff_prodTerms_const f.n 1 _ (fun u hu => by
      obtain ⟨t, ht, rfl⟩ := (mem_mapT rs_cast).1 hu
      show t.1.length = f.n
      rw [hT.width t ht, rs_T_n f hf ell ms hms g]) a]
  ring

/-- the evaluated form: `s(σ)(x) = (f'(x) − γ)·t(x)` at every real point -/
theorem rr_S_eval (f : SigQ) (hf : Wf f) (ell : Nat) (ms : Option (List Exp))
    (hms : ∀ s, ms = some s → ∀ r ∈ s, r.length = f.n) (g : Nat) (σ : Nat → ℝ) (x : List ℝ) :
    eval (rs_chi x) (mapT (rr_value σ) (rsS f ell ms g).terms) =
      (eval (rs_chi x) (mapT rs_cast (rsF f).terms) - σ g) *
        eval (rs_chi x) (mapT rs_cast (rsT f ell ms g).terms) := by
  have hF := rs_F_wf f hf
  have hT := rs_T_wf f hf ell ms hms g
  have hTn := rs_T_n f hf ell ms hms g
  rw [rs_eval_lin (rs_chi x) (σ g) (rr_S_coeff f hf ell ms hms g σ),
    eval_prodTerms (rs_chi x) f.n (rs_chi_isChar f.n x) _ _
      (fun u hu => by
        obtain ⟨t, ht, rfl⟩ := (mem_mapT rs_cast).1 hu
        show t.1.length = f.n
        rw [hF.width t ht, rs_F_n])
      (fun u hu => by
        obtain ⟨t, ht, rfl⟩ := (mem_mapT rs_cast).1 hu
        show t.1.length = f.n
        rw [hT.width t ht, hTn])]
  ring

/-! ### list-level glue: the zipped coefficient list and the `sigVal` form of `Lemmas/SageSem.lean` -/

/-- `keys ts` zipped with the mapped coefficients is `mapT` -/
theorem rr_zip_keys {C D : Type} (φ : C → D) (ts : List (Exp × C)) :
    (keys ts).zip ((ts.map (·.2)).map φ) = mapT φ ts := by
  induction ts with
  | nil => rfl
  | cons t ts ih =>
    simp only [keys, List.map_cons, List.zip_cons_cons, mapT] at ih ⊢
    rw [ih]

theorem rr_sigVal_zip (alpha : List (List Rat)) (cs : List ℝ) (x : List ℝ) :
    sigVal alpha cs x = ((alpha.zip cs).map fun t => t.2 * Real.exp (rdot t.1 x)).sum := by
  unfold sigVal
  induction cs generalizing alpha with
  | nil => simp
  | cons v cs ih =>
    cases alpha with
    | nil => simp
    | cons r alpha => simp [ih]

/-- the `sigVal` of `Lemmas/SageSem.lean` on tabulated coefficients `j ↦ F (c_j)` is the sum over the zipped list -/
theorem rr_sigVal_range {A : Type} (d : A) (F : A → ℝ) (alpha : List (List Rat)) (c : List A)
    (hlen : alpha.length = c.length) (x : List ℝ) :
    sigVal alpha ((List.range alpha.length).map fun j => F (c.getD j d)) x =
      ((alpha.zip (c.map F)).map fun t => t.2 * Real.exp (rdot t.1 x)).sum := by
  have hr : ((List.range alpha.length).map fun j => F (c.getD j d)) = c.map F := by
    rw [hlen]
    apply List.ext_getElem
    · simp
    · intro i h1 h2
      simp only [List.length_map, List.length_range] at h1
      simp [List.getD_eq_getElem?_getD, List.getElem?_eq_getElem h1]
  rw [hr]
  exact rr_sigVal_zip alpha (c.map F) x

end

end Sageopt.RelaxSig
