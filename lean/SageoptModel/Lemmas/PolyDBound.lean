/-
Helper lemmas for C05 part D (the constrained polynomial bound over all orthants, `Props/C05Constrained.lean`):
the terms of a multiplier `varSig n am ids` (also when fewer ids than rows are supplied), values of products of
members of a constraint list at a feasible point, and the real-number step `identity + signs ⟹ γ ≤ f(x)`.
The list facts `lr_prod_nonneg`, `lr_prod_zero`, `lr_sum_nonneg`, `lr_sum_zero` of `Lemmas/LagrReal.lean` are reused.
-/
import SageoptModel.Model.Poly
import SageoptModel.Lemmas.PolySem
import SageoptModel.Lemmas.PolyBChar
import SageoptModel.Lemmas.LagrBasic
import SageoptModel.Lemmas.LagrReal

namespace Sageopt.Poly
open Sageopt Sageopt.Sig Sageopt.Relax Sageopt.Sage

/-! ### the terms of a multiplier -/

/-- the rows of `am.zip cs` are a prefix of `am`, hence distinct when `am` is -/
theorem pd_keys_zip_nodup {C : Type} (am : List Exp) (cs : List C) (hnd : am.Nodup) : (keys (am.zip cs)).Nodup := by
  induction am generalizing cs with
  | nil => simp [keys]
  | cons a am ih =>
    cases cs with
    | nil => simp [keys]
    | cons c cs =>
      rw [List.nodup_cons] at hnd
      have e : keys ((a :: am).zip (c :: cs)) = a :: keys (am.zip cs) := rfl
      rw [e, List.nodup_cons]
      refine ⟨?_, ih cs hnd.2⟩
      intro hmem
      obtain ⟨t, ht, hta⟩ := List.mem_map.1 hmem
      exact hnd.1 (hta ▸ (List.of_mem_zip ht).1)

/-- the multiplier over distinct polynomial rows has exactly the terms `(a_k, x_{ids_k})` (no rounding, no merging),
    whatever the number of ids -/
theorem pd_varSig_terms (n : Nat) (am : List Exp) (hrows : ∀ a ∈ am, a.length = n ∧ isPolyExp a = true)
    (hnd : am.Nodup) (ids : List Nat) : (varSig n am ids).terms = am.zip (ids.map Lin.var) := by
  unfold varSig
  apply Gen.mk_terms_of_wf
  · intro t ht
    exact pb_isPolyExp_onGrid (hrows _ (List.of_mem_zip ht).1).2
  · exact pd_keys_zip_nodup am _ hnd

/-- a scalar variable is not a poisoned coefficient -/
theorem pd_var_bad (i : Nat) : (Lin.var i).bad = false := rfl

/-- every term of a multiplier is a row of `am` with a (non-poisoned) scalar variable as coefficient -/
theorem pd_varSig_mem (n : Nat) (am : List Exp) (hrows : ∀ a ∈ am, a.length = n ∧ isPolyExp a = true)
    (hnd : am.Nodup) (ids : List Nat) :
    ∀ t ∈ (varSig n am ids).terms, t.1 ∈ am ∧ ∃ i ∈ ids, t.2 = Lin.var i := by
  intro t ht
  rw [pd_varSig_terms n am hrows hnd ids] at ht
  obtain ⟨h1, h2⟩ := List.of_mem_zip ht
  obtain ⟨i, hi, hti⟩ := List.mem_map.1 h2
  exact ⟨h1, i, hi, hti.symm⟩

noncomputable section

/-! ### products of constraint values at a feasible point -/

/-- a product of members of a list of polynomials that are all nonnegative at `x` is nonnegative at `x` -/
theorem pd_comb_nonneg (cons comb : List SigQ) (x : List ℝ) (hmem : ∀ g ∈ comb, g ∈ cons)
    (h : ∀ g ∈ cons, 0 ≤ polyR g.terms x) : 0 ≤ (comb.map fun g => polyR g.terms x).prod := by
  apply lr_prod_nonneg
  intro v hv
  obtain ⟨g, hg, rfl⟩ := List.mem_map.1 hv
  exact h g (hmem g hg)

/-- a NONEMPTY product of members of a list of polynomials that all vanish at `x` vanishes at `x` -/
theorem pd_comb_zero (cons comb : List SigQ) (x : List ℝ) (hne : comb ≠ []) (hmem : ∀ g ∈ comb, g ∈ cons)
    (h : ∀ g ∈ cons, polyR g.terms x = 0) : (comb.map fun g => polyR g.terms x).prod = 0 := by
  apply lr_prod_zero _ (by simpa using hne)
  intro v hv
  obtain ⟨g, hg, rfl⟩ := List.mem_map.1 hv
  exact h g (hmem g hg)

/-! ### the real-number step -/

/-- `L = f − γ − Σ_A s·g − Σ_B z·h`, `L ≥ 0`, `s, g ≥ 0` on `A`, `h = 0` on `B` give `γ ≤ f` -/
theorem pd_bound_of_identity {ι κ : Type} (A : List ι) (B : List κ) (SA GA : ι → ℝ) (SB GB : κ → ℝ) (L fv γ : ℝ)
    (hid : L = fv - γ - (A.map fun i => SA i * GA i).sum - (B.map fun i => SB i * GB i).sum)
    (hL : 0 ≤ L) (hA : ∀ i ∈ A, 0 ≤ SA i ∧ 0 ≤ GA i) (hB : ∀ i ∈ B, GB i = 0) : γ ≤ fv := by
  have h1 : 0 ≤ (A.map fun i => SA i * GA i).sum :=
    lr_sum_nonneg _ _ (fun i hi => mul_nonneg (hA i hi).1 (hA i hi).2)
  have h2 : (B.map fun i => SB i * GB i).sum = 0 :=
    lr_sum_zero _ _ (fun i hi => by rw [hB i hi, mul_zero])
  rw [h2] at hid
  linarith

end

end Sageopt.Poly
