/-
C19 helper lemmas, primal cone: the pieces of one per-index block of `primalRows` (relative entropy,
balance rows, dual-cone rows of `eta`), their lengths, and the rows of `_age_vectors_sum_to_c`.
-/
import SageoptModel.Lemmas.OptPrimalShape
import SageoptModel.Lemmas.CompileBlocks
import SageoptModel.Lemmas.CompileRows

namespace Sageopt.Sage
open Sageopt Sageopt.Compile Sageopt.Solvers Sageopt.Analysis

/-! ### the pieces of one block -/

def opt_selfE (inp : PrimalIn) (p : PIds) : AffE :=
  (ageVector inp.alpha.length inp.c inp.ech p).getD p.i (constE 0)

def opt_relY (inp : PrimalIn) (p : PIds) : List AffE :=
  (trueIdx (coverOf inp.ech p.i)).map fun j => (ageVector inp.alpha.length inp.c inp.ech p).getD j (constE 0)

def opt_relZ (inp : PrimalIn) (p : PIds) : AffE :=
  match inp.X with
  | none => negE (opt_selfE inp p)
  | some X =>
    ⟨(negE (opt_selfE inp p)).co ++ ((p.eta.zip X.b).filterMap fun (id, q) => if q == 0 then none else some (id, q)),
      (negE (opt_selfE inp p)).off⟩

/-- the `sum_relent` rows of the block -/
def opt_rel (inp : PrimalIn) (p : PIds) : List CRow × List Cone :=
  sumRelent (nuExprs inp.settings p) (opt_relY inp p) (opt_relZ inp p) p.epi

/-- the balance rows of the block -/
def opt_bal (inp : PrimalIn) (p : PIds) : List CRow × List Cone :=
  match inp.X with
  | none =>
    if inp.settings.kernelBasis then ([], [])
    else
      (matvecRows (transposeQ inp.n ((trueIdx (coverOf inp.ech p.i)).map fun j =>
          subRow (inp.alpha.getD j []) (inp.alpha.getD p.i []))) p.nu, [⟨.zero, inp.n⟩])
  | some X =>
    ((List.range X.N).map fun t =>
      (⟨(((transposeQ X.N ((trueIdx (coverOf inp.ech p.i)).map fun j =>
            subRow ((inp.alpha.map (padTo X.N)).getD j []) ((inp.alpha.map (padTo X.N)).getD p.i []))).getD t []).zip
            p.nu).map (fun (q, id) => (id, q)) ++
          ((((transposeQ X.N X.A).map fun r => r.map (- ·)).getD t []).zip p.eta).map (fun (q, id) => (id, q)),
        0, false⟩ : CRow), [⟨.zero, X.N⟩])

/-- the rows `eta ∈ K*` -/
def opt_etaCon (p : PIds) (X : Dom) : Con := .dual (p.eta.map fun id => ⟨[(.var id, 1)], 0⟩) X.K

theorem opt_pPerI_nil (inp : PrimalIn) (p : PIds) (hnu : p.nu = []) :
    opt_pPerI inp p = .ok ([nonnegRow (opt_selfE inp p) inp.dummy], [(⟨.pos, 1⟩ : Cone)]) := by
  unfold opt_pPerI
  simp only [hnu, List.isEmpty_nil, if_true]
  rfl

theorem opt_pPerI_cons (inp : PrimalIn) (p : PIds) (hnu : p.nu ≠ []) (q : List CRow × List Cone)
    (h : opt_pPerI inp p = .ok q) :
    ∃ r3 k3,
      (match inp.X with
        | none => r3 = [] ∧ k3 = []
        | some X => conRows inp.dummy (opt_etaCon p X) = .ok (r3, k3)) ∧
      q = ((opt_rel inp p).1 ++ (opt_bal inp p).1 ++ r3, (opt_rel inp p).2 ++ (opt_bal inp p).2 ++ k3) := by
  have hne : p.nu.isEmpty = false := by
    cases hh : p.nu with
    | nil => exact absurd hh hnu
    | cons a l => rfl
  unfold opt_pPerI at h
  simp only [hne, Bool.false_eq_true, if_false] at h
  unfold opt_rel opt_bal opt_relZ opt_relY opt_selfE
  cases hX : inp.X with
  | none =>
    rw [hX] at h
    simp only at h ⊢
    refine ⟨[], [], ⟨rfl, rfl⟩, ?_⟩
    by_cases hk : inp.settings.kernelBasis = true
    · simp only [hk, if_true, pure, Except.pure, Except.ok.injEq] at h ⊢
      rw [← h]; simp
    · simp only [hk, Bool.false_eq_true, if_false, pure, Except.pure, Except.ok.injEq] at h ⊢
      rw [← h]; simp
  | some X =>
    rw [hX] at h
    simp only at h ⊢
    cases hc : conRows inp.dummy (Con.dual (p.eta.map fun id => ⟨[(.var id, 1)], 0⟩) X.K) with
    | error e => rw [hc] at h; cases h
    | ok rk =>
      obtain ⟨r3, k3⟩ := rk
      rw [hc] at h
      simp only [bind, Except.bind, pure, Except.pure, Except.ok.injEq] at h
      exact ⟨r3, k3, hc, h.symm⟩

/-! ### lengths -/

theorem opt_sumRelent_length (x y : List AffE) (z : AffE) (epi : List Nat) :
    (sumRelent x y z epi).1.length = totalLen (sumRelent x y z epi).2 := by
  unfold sumRelent
  simp only [List.length_cons, totalLen_cons]
  have h1 : ∀ ks : List Nat, (ks.flatMap fun k =>
      [ (⟨[(epi.getD k 0, -1)], 0, false⟩ : CRow),
        ⟨(y.getD k (constE 0)).co, (y.getD k (constE 0)).off, true⟩,
        ⟨(x.getD k (constE 0)).co, (x.getD k (constE 0)).off, false⟩ ]).length = 3 * ks.length := by
    intro ks
    induction ks with
    | nil => rfl
    | cons k ks ih => rw [List.flatMap_cons, List.length_append, ih]; simp; omega
  have h2 : ∀ n : Nat, totalLen (List.replicate n (⟨.exp, 3⟩ : Cone)) = 3 * n := by
    intro n
    induction n with
    | zero => rfl
    | succ n ih => rw [List.replicate_succ, totalLen_cons, ih]; show 3 + 3 * n = 3 * (n+1); omega
  rw [h1, h2, List.length_range]; omega

theorem opt_rel_length (inp : PrimalIn) (p : PIds) : (opt_rel inp p).1.length = totalLen (opt_rel inp p).2 :=
  opt_sumRelent_length _ _ _ _

theorem opt_bal_length (inp : PrimalIn) (p : PIds) : (opt_bal inp p).1.length = totalLen (opt_bal inp p).2 := by
  unfold opt_bal
  cases inp.X with
  | none =>
    simp only
    split
    · rfl
    · simp [matvecRows, transposeQ, totalLen]
  | some X => simp [totalLen]

/-- every block has as many rows as its cones ask for -/
theorem opt_pPerI_length (inp : PrimalIn)
    (hdom : ∀ X, inp.X = some X → domWf inp.n X ∧ ∀ p ∈ inp.ids, p.nu ≠ [] → p.eta.length = X.b.length)
    (p : PIds) (hp : p ∈ inp.ids) (q : List CRow × List Cone) (h : opt_pPerI inp p = .ok q) :
    q.1.length = totalLen q.2 := by
  by_cases hnu : p.nu = []
  · rw [opt_pPerI_nil inp p hnu] at h
    cases h
    rfl
  · obtain ⟨r3, k3, h3, rfl⟩ := opt_pPerI_cons inp p hnu q h
    have hl3 : r3.length = totalLen k3 := by
      cases hX : inp.X with
      | none =>
        rw [hX] at h3
        obtain ⟨rfl, rfl⟩ := h3
        rfl
      | some X =>
        rw [hX] at h3
        obtain ⟨⟨_, _, _, hbK, hKty, _⟩, heta⟩ := hdom X hX
        exact (dual_rows_sem (fun _ _ => True) (fun _ => 0) inp.dummy _ X.K hKty
          (by rw [List.length_map, heta p hp hnu, hbK]) r3 k3 h3).1
    simp only [List.length_append, totalLen_append, opt_rel_length, opt_bal_length, hl3]

/-! ### `_age_vectors_sum_to_c` -/

/-- row `j` of `columns_sum_leq_vec` -/
def opt_sumRow (c : List AffE) (ages : List (List AffE)) (dummy : Nat) (j : Nat) : CRow :=
  let svs := ages.flatMap fun a => (a.getD j (constE 0)).co.map (·.1)
  let offs := (ages.map fun a => (a.getD j (constE 0)).off).foldl (· + ·) 0
  let cj := c.getD j (constE 0)
  let ents := svs.map (fun id => (id, (-1 : Rat))) ++ cj.co
  ⟨if ents.isEmpty then [(dummy, 0)] else ents, cj.off - offs, false⟩

theorem opt_sumToC_true (m : Nat) (c : List AffE) (ages : List (List AffE)) (dummy : Nat) (e : Ech) :
    sumToC m c ages true dummy e =
      ((((List.range m).filter (reachedB e)) ++ ((List.range m).filter fun j => !reachedB e j)).map
          (opt_sumRow c ages dummy),
        [⟨.zero, ((List.range m).filter (reachedB e)).length⟩] ++
          if ((List.range m).filter fun j => !reachedB e j).isEmpty then []
          else [⟨.pos, ((List.range m).filter fun j => !reachedB e j).length⟩]) := rfl

theorem opt_sumToC_false (m : Nat) (c : List AffE) (ages : List (List AffE)) (dummy : Nat) (e : Ech) :
    sumToC m c ages false dummy e = ((List.range m).map (opt_sumRow c ages dummy), [⟨.pos, m⟩]) := rfl

theorem opt_sumToC_true_feas (Q : CType → List ℝ → Prop) (m : Nat) (c : List AffE) (ages : List (List AffE))
    (dummy : Nat) (e : Ech) (f : CRow → ℝ) :
    FeasBlocks (conP Q) (sumToC m c ages true dummy e).2 ((sumToC m c ages true dummy e).1.map f) ↔
      ∀ j, j < m → if reachedB e j then f (opt_sumRow c ages dummy j) = 0 else 0 ≤ f (opt_sumRow c ages dummy j) := by
  rw [opt_sumToC_true]
  simp only [List.map_append]
  rw [feasBlocks_append _ _ _ _ _ (by simp [totalLen]), feasBlocks_single _ _ _ _ (by simp)]
  have h2 : FeasBlocks (conP Q)
      (if ((List.range m).filter fun j => !reachedB e j).isEmpty then []
        else [(⟨.pos, ((List.range m).filter fun j => !reachedB e j).length⟩ : Cone)])
      ((((List.range m).filter fun j => !reachedB e j).map (opt_sumRow c ages dummy)).map f) ↔
      ∀ j ∈ (List.range m).filter fun j => !reachedB e j, 0 ≤ f (opt_sumRow c ages dummy j) := by
    split
    · rename_i hemp
      have : ((List.range m).filter fun j => !reachedB e j) = [] := by simpa using hemp
      rw [this]; simp
    · rw [feasBlocks_single _ _ _ _ (by simp)]
      show (∀ a ∈ _, 0 ≤ a) ↔ _
      simp only [List.map_map, List.mem_map, forall_exists_index, and_imp, forall_apply_eq_imp_iff₂, Function.comp]
  have h1 : conP Q .zero ((((List.range m).filter (reachedB e)).map (opt_sumRow c ages dummy)).map f) ↔
      ∀ j ∈ (List.range m).filter (reachedB e), f (opt_sumRow c ages dummy j) = 0 := by
    show (∀ a ∈ _, a = 0) ↔ _
    simp only [List.map_map, List.mem_map, forall_exists_index, and_imp, forall_apply_eq_imp_iff₂, Function.comp]
  rw [h1, h2]
  simp only [List.mem_filter, List.mem_range, and_imp]
  constructor
  · rintro ⟨h1, h3⟩ j hj
    by_cases hr : reachedB e j = true
    · rw [if_pos hr]; exact h1 j hj hr
    · rw [if_neg hr]; exact h3 j hj (by simpa using hr)
  · intro hh
    refine ⟨fun j hj hr => ?_, fun j hj hr => ?_⟩
    · have := hh j hj; rw [if_pos hr] at this; exact this
    · have := hh j hj
      have hr' : ¬ reachedB e j = true := by simpa using hr
      rw [if_neg hr'] at this; exact this

theorem opt_sumToC_false_feas (Q : CType → List ℝ → Prop) (m : Nat) (c : List AffE) (ages : List (List AffE))
    (dummy : Nat) (e : Ech) (f : CRow → ℝ) :
    FeasBlocks (conP Q) (sumToC m c ages false dummy e).2 ((sumToC m c ages false dummy e).1.map f) ↔
      ∀ j, j < m → 0 ≤ f (opt_sumRow c ages dummy j) := by
  rw [opt_sumToC_false]
  simp only
  rw [feasBlocks_single _ _ _ _ (by simp)]
  show (∀ a ∈ _, 0 ≤ a) ↔ _
  simp only [List.map_map, List.mem_map, forall_exists_index, and_imp, forall_apply_eq_imp_iff₂, Function.comp,
    List.mem_range]

end Sageopt.Sage
