/-
C19 helper lemmas, dual cone: a semantic characterisation (iff) of the rows of `dualRows`, for both the
compact and the epigraph form, at an ARBITRARY assignment `σ`.
-/
import SageoptModel.Lemmas.SageDualFeas
import SageoptModel.Lemmas.SageDualExt
import SageoptModel.Lemmas.OptCone

namespace Sageopt.Sage
open Sageopt Sageopt.Compile Sageopt.Solvers Sageopt.Analysis

/-! ### generic list / block facts -/

theorem opt_feasBlocks_exp3_iff {α : Type} (Q : CType → List ℝ → Prop) (l : List α) (fx fy fz : α → ℝ) :
    FeasBlocks (conP Q) (List.replicate l.length ⟨.exp, 3⟩) (l.flatMap fun a => [fx a, fy a, fz a]) ↔
      ∀ a ∈ l, InExpCone (fx a) (fy a) (fz a) := by
  induction l with
  | nil => simp
  | cons a l ih =>
    rw [List.length_cons, List.replicate_succ, feasBlocks_cons, List.flatMap_cons, List.forall_mem_cons]
    have take3 : ∀ (a b c : ℝ) (l : List ℝ), List.take 3 ([a, b, c] ++ l) = [a, b, c] := fun _ _ _ _ => rfl
    have drop3 : ∀ (a b c : ℝ) (l : List ℝ), List.drop 3 ([a, b, c] ++ l) = l := fun _ _ _ _ => rfl
    show conP Q CType.exp (List.take 3 _) ∧ FeasBlocks (conP Q) _ (List.drop 3 _) ↔ _
    rw [take3, drop3, ih]
    exact Iff.rfl

theorem opt_forall₂_eq_map {ε α β : Type} (f : α → Except ε β) (g : α → β) (l : List α) (out : List β)
    (h : List.Forall₂ (fun x y => f x = .ok y) l out) (hg : ∀ x ∈ l, ∀ y, f x = .ok y → y = g x) :
    out = l.map g := by
  induction h with
  | nil => rfl
  | @cons x y l out h1 _ ih =>
    rw [List.map_cons, hg x (List.mem_cons_self ..) y h1, ih (fun z hz => hg z (List.mem_cons_of_mem _ hz))]

theorem opt_crowVal_congr (σ σ' : Nat → ℝ) (r : CRow) (h : ∀ e ∈ r.entries, σ' e.1 = σ e.1) :
    crowVal σ' r = crowVal σ r := by
  unfold crowVal
  congr 3
  apply List.map_congr_left
  intro e he
  rw [h e he]

/-! ### semantic content of the relative-entropy rows -/

/-- the value `(α_i − α_j)·μ_i` -/
noncomputable def opt_lin (inp : DualIn) (σ : Nat → ℝ) (p : DIds) (j : Nat) : ℝ :=
  rdot (subRow (inp.alpha.getD p.i []) (inp.alpha.getD j [])) ((p.mu.take inp.n).map σ)

/-- epigraph form: `(−epi_k, v_j, v_i) ∈ K_exp` and `epi_k ≤ (α_i − α_j)·μ_i` -/
def opt_RelE (inp : DualIn) (σ : Nat → ℝ) (p : DIds) : Prop :=
  ∀ jk ∈ (trueIdx (coverOf inp.ech p.i)).zipIdx,
    InExpCone (-(σ (p.epi.getD jk.2 0))) (argVal σ (inp.v.getD jk.1 (constE 0)))
      (argVal σ (inp.v.getD p.i (constE 0))) ∧
    0 ≤ opt_lin inp σ p jk.1 - σ (p.epi.getD jk.2 0)

/-- compact form: `(−(α_i − α_j)·μ_i, v_j, v_i) ∈ K_exp` -/
def opt_RelC (inp : DualIn) (σ : Nat → ℝ) (p : DIds) : Prop :=
  ∀ jk ∈ (trueIdx (coverOf inp.ech p.i)).zipIdx,
    InExpCone (-(opt_lin inp σ p jk.1)) (argVal σ (inp.v.getD jk.1 (constE 0)))
      (argVal σ (inp.v.getD p.i (constE 0)))

theorem opt_crowVal_compactRow (σ : Nat → ℝ) (row : List Rat) (muN : List Nat) :
    crowVal σ ⟨((row.zip muN).filterMap fun (q, id) => if q == 0 then none else some (id, q)).map
        (fun e => (e.1, -e.2)), 0, false⟩ = -(rdot row (muN.map σ)) := by
  unfold crowVal
  simp only [Bool.false_eq_true, if_false, one_mul, Rat.cast_zero, add_zero]
  rw [sd_zip_filter_sum]

theorem opt_crowVal_linRow (σ : Nat → ℝ) (row : List Rat) (muN : List Nat) (e : Nat) :
    crowVal σ ⟨(row.zip muN).map (fun (q, id) => (id, q)) ++ [(e, -1)], 0, false⟩
      = rdot row (muN.map σ) - σ e := by
  unfold crowVal
  simp only [Bool.false_eq_true, if_false, one_mul, Rat.cast_zero, add_zero, List.map_append, List.sum_append]
  rw [sd_zip_sum]
  simp
  ring

theorem opt_relRows_sem (Q : CType → List ℝ → Prop) (inp : DualIn) (p : DIds) (σ : Nat → ℝ)
    (r1 : List CRow) (k1 : List Cone) (h : sd_relRows inp p = .ok (r1, k1)) :
    r1.length = totalLen k1 ∧
    (FeasBlocks (conP Q) k1 (r1.map (crowVal σ)) ↔
      if inp.settings.compactDual then opt_RelC inp σ p else opt_RelE inp σ p) := by
  cases hc : inp.settings.compactDual with
  | true =>
    obtain ⟨blocks, hb, rfl, rfl⟩ := sd_relRows_compact inp p hc r1 k1 h
    rw [mapM_ok_iff] at hb
    have hmap := opt_forall₂_eq_map _ (fun jk : Nat × Nat =>
      [ (⟨(((subRow (inp.alpha.getD p.i []) (inp.alpha.getD jk.1 [])).zip (p.mu.take inp.n)).filterMap
              fun (q, id) => if q == 0 then none else some (id, q)).map (fun e => (e.1, -e.2)), 0, false⟩ : CRow),
          ⟨(inp.v.getD jk.1 (constE 0)).co, (inp.v.getD jk.1 (constE 0)).off, false⟩,
          ⟨(inp.v.getD p.i (constE 0)).co, (inp.v.getD p.i (constE 0)).off, false⟩ ]) _ blocks hb (by
        rintro ⟨j, k⟩ hjk b hb'
        exact sd_compactBlock_ok inp p j k hjk b hb')
    subst hmap
    rw [← List.flatMap_def]
    refine ⟨?_, ?_⟩
    · rw [sd_length_flatMap3 _ _ (by intro _ _; rfl), sd_totalLen_replicate_exp, List.length_zipIdx]
    · rw [List.map_flatMap]
      simp only [List.map_cons, List.map_nil, if_true]
      have := opt_feasBlocks_exp3_iff Q (trueIdx (coverOf inp.ech p.i)).zipIdx
        (fun jk => crowVal σ ⟨(((subRow (inp.alpha.getD p.i []) (inp.alpha.getD jk.1 [])).zip (p.mu.take inp.n)).filterMap
              fun (q, id) => if q == 0 then none else some (id, q)).map (fun e => (e.1, -e.2)), 0, false⟩)
        (fun jk => crowVal σ ⟨(inp.v.getD jk.1 (constE 0)).co, (inp.v.getD jk.1 (constE 0)).off, false⟩)
        (fun jk => crowVal σ ⟨(inp.v.getD p.i (constE 0)).co, (inp.v.getD p.i (constE 0)).off, false⟩)
      rw [List.length_zipIdx] at this
      rw [this]
      unfold opt_RelC opt_lin
      apply forall_congr'; intro jk
      apply imp_congr_right; intro _
      rw [opt_crowVal_compactRow, sd_crowVal_aff, sd_crowVal_aff]
  | false =>
    obtain ⟨rfl, rfl⟩ := sd_relRows_epi inp p hc r1 k1 h
    have hlenB : (sd_epiBlocks inp p).length = 3 * (trueIdx (coverOf inp.ech p.i)).length := by
      unfold sd_epiBlocks
      rw [sd_length_flatMap3 _ _ (by rintro ⟨j, k⟩ _; rfl), List.length_zipIdx]
    have hlenL : (sd_epiLin inp p).length = (trueIdx (coverOf inp.ech p.i)).length := by
      unfold sd_epiLin
      rw [List.length_map, List.length_zipIdx]
    have htl : totalLen (List.replicate (trueIdx (coverOf inp.ech p.i)).length (⟨.exp, 3⟩ : Cone))
        = 3 * (trueIdx (coverOf inp.ech p.i)).length := by
      rw [sd_totalLen_replicate_exp]
    refine ⟨?_, ?_⟩
    · rw [List.length_append, totalLen_append, hlenB, hlenL, htl]; simp
    · rw [List.map_append, feasBlocks_append _ _ _ _ _ (by rw [List.length_map, hlenB, htl]),
        feasBlocks_single _ _ _ _ (by rw [List.length_map, hlenL])]
      simp only [Bool.false_eq_true, if_false]
      have h1 : FeasBlocks (conP Q) (List.replicate (trueIdx (coverOf inp.ech p.i)).length (⟨.exp, 3⟩ : Cone))
          ((sd_epiBlocks inp p).map (crowVal σ)) ↔
          ∀ jk ∈ (trueIdx (coverOf inp.ech p.i)).zipIdx,
            InExpCone (-(σ (p.epi.getD jk.2 0))) (argVal σ (inp.v.getD jk.1 (constE 0)))
              (argVal σ (inp.v.getD p.i (constE 0))) := by
        unfold sd_epiBlocks
        rw [List.map_flatMap]
        simp only [List.map_cons, List.map_nil]
        have := opt_feasBlocks_exp3_iff Q (trueIdx (coverOf inp.ech p.i)).zipIdx
          (fun jk => crowVal σ ⟨[(p.epi.getD jk.2 0, -1)], 0, false⟩)
          (fun jk => crowVal σ ⟨(inp.v.getD jk.1 (constE 0)).co, (inp.v.getD jk.1 (constE 0)).off, false⟩)
          (fun jk => crowVal σ ⟨(inp.v.getD p.i (constE 0)).co, (inp.v.getD p.i (constE 0)).off, false⟩)
        rw [List.length_zipIdx] at this
        rw [this]
        apply forall_congr'; intro jk
        apply imp_congr_right; intro _
        rw [sd_crowVal_epiRow, sd_crowVal_aff, sd_crowVal_aff]
      have h2 : conP Q .pos ((sd_epiLin inp p).map (crowVal σ)) ↔
          ∀ jk ∈ (trueIdx (coverOf inp.ech p.i)).zipIdx, 0 ≤ opt_lin inp σ p jk.1 - σ (p.epi.getD jk.2 0) := by
        show (∀ a ∈ _, 0 ≤ a) ↔ _
        unfold sd_epiLin
        rw [List.map_map]
        simp only [List.mem_map, forall_exists_index, and_imp, forall_apply_eq_imp_iff₂, Function.comp]
        apply forall_congr'; intro jk
        apply imp_congr_right; intro _
        rw [opt_crowVal_linRow]
        rfl
      rw [h1, h2]
      unfold opt_RelE
      constructor
      · rintro ⟨ha, hb⟩ jk hjk
        exact ⟨ha jk hjk, hb jk hjk⟩
      · intro hab
        exact ⟨fun jk hjk => (hab jk hjk).1, fun jk hjk => (hab jk hjk).2⟩

/-! ### one index, the whole system -/

/-- semantic content of all rows of index `p.i` -/
def opt_PerSem (Q : CType → List ℝ → Prop) (inp : DualIn) (σ : Nat → ℝ) (p : DIds) : Prop :=
  trueIdx (coverOf inp.ech p.i) ≠ [] →
    (if inp.settings.compactDual then opt_RelC inp σ p else opt_RelE inp σ p) ∧
    ∀ X, inp.X = some X → FeasBlocks (conP Q) X.K ((sd_domRows inp p X).map (crowVal σ))

theorem opt_perI_sem (Q : CType → List ℝ → Prop) (inp : DualIn)
    (hdom : ∀ X, inp.X = some X → domWf inp.n X) (p : DIds) (σ : Nat → ℝ)
    (q : List CRow × List Cone) (h : sd_perI inp p = .ok q) :
    q.1.length = totalLen q.2 ∧
    (FeasBlocks (conP Q) q.2 (q.1.map (crowVal σ)) ↔ opt_PerSem Q inp σ p) := by
  unfold opt_PerSem
  by_cases hc : trueIdx (coverOf inp.ech p.i) = []
  · rw [sd_perI_empty inp p hc] at h
    cases h
    exact ⟨rfl, by simp [hc]⟩
  · obtain ⟨r1, k1, hr, hq⟩ := sd_perI_nonempty inp p hc q h
    obtain ⟨h1, h2⟩ := opt_relRows_sem Q inp p σ r1 k1 hr
    cases hX : inp.X with
    | none =>
      rw [hX] at hq
      subst hq
      refine ⟨h1, ?_⟩
      show FeasBlocks (conP Q) k1 (r1.map (crowVal σ)) ↔ _
      rw [h2]
      constructor
      · intro hrel _
        exact ⟨hrel, fun X hX' => by cases hX'⟩
      · intro hh
        exact (hh hc).1
    | some X =>
      rw [hX] at hq
      subst hq
      obtain ⟨_, hAb, _, hbK, _, _⟩ := hdom X hX
      have hlenD : (sd_domRows inp p X).length = totalLen X.K := by
        unfold sd_domRows totalLen
        rw [List.length_map, List.length_zip, hAb, Nat.min_self, hbK]
      refine ⟨?_, ?_⟩
      · show (r1 ++ sd_domRows inp p X).length = totalLen (k1 ++ X.K)
        rw [List.length_append, totalLen_append, h1, hlenD]
      · show FeasBlocks (conP Q) (k1 ++ X.K) ((r1 ++ sd_domRows inp p X).map (crowVal σ)) ↔ _
        rw [List.map_append, feasBlocks_append _ _ _ _ _ (by rw [List.length_map, h1]), h2]
        constructor
        · rintro ⟨hrel, hd⟩ _
          refine ⟨hrel, fun X' hX' => ?_⟩
          cases hX'
          exact hd
        · intro hh
          exact ⟨(hh hc).1, (hh hc).2 X rfl⟩

/-- semantic content of the compiled dual SAGE constraint -/
def opt_DualSem (Q : CType → List ℝ → Prop) (inp : DualIn) (σ : Nat → ℝ) : Prop :=
  if inp.alpha.length ≤ 1 then ∀ vj ∈ inp.v, 0 ≤ argVal σ vj
  else (∀ i ∈ sd_nontriv inp, 0 ≤ argVal σ (inp.v.getD i (constE 0))) ∧ ∀ p ∈ inp.ids, opt_PerSem Q inp σ p

theorem opt_dualRows_sem (Q : CType → List ℝ → Prop) (inp : DualIn)
    (hdom : ∀ X, inp.X = some X → domWf inp.n X)
    (rows : List CRow) (K : List Cone) (h : dualRows inp = .ok (rows, K)) (σ : Nat → ℝ) :
    FeasRows Q σ rows K ↔ opt_DualSem Q inp σ := by
  unfold FeasRows opt_DualSem
  by_cases hm : inp.alpha.length ≤ 1
  · obtain ⟨rfl, rfl⟩ := sd_dualRows_small inp hm rows K h
    rw [if_pos hm, feasBlocks_single _ _ _ _ (by simp), List.map_map]
    show (∀ a ∈ _, 0 ≤ a) ↔ _
    simp only [List.mem_map, forall_exists_index, and_imp, forall_apply_eq_imp_iff₂, Function.comp,
      sd_crowVal_nonnegRow]
  · obtain ⟨perI, hper, rfl, rfl⟩ := sd_dualRows_big inp hm rows K h
    rw [mapM_ok_iff] at hper
    have hall : ∀ q ∈ perI, q.1.length = totalLen q.2 :=
      forall₂_forall_right hper (fun p _ q hq => (opt_perI_sem Q inp hdom p σ q hq).1)
    rw [if_neg hm, List.map_append, feasBlocks_append _ _ _ _ _ (by simp [totalLen]),
      feasBlocks_single _ _ _ _ (by simp), feasBlocks_flatMap _ _ _ hall, List.map_map]
    apply and_congr
    · show (∀ a ∈ _, 0 ≤ a) ↔ _
      simp only [List.mem_map, forall_exists_index, and_imp, forall_apply_eq_imp_iff₂, Function.comp,
        sd_crowVal_nonnegRow]
    · exact forall₂_forall_iff hper (fun p _ q hq => (opt_perI_sem Q inp hdom p σ q hq).2)

end Sageopt.Sage
