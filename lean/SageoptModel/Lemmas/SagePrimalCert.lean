/-
C01 helper lemmas: from the rows of one AGE block to the certificate in `Finset.range` form and from
there to nonnegativity of the signomial of the aligned AGE vector (`sp_cert_sig`); pairing of the
domain's slack with `eta`; the kernel-basis balance.
-/
import SageoptModel.Lemmas.SagePrimalBlocks
import SageoptModel.Lemmas.SagePrimalAge

namespace Sageopt.Sage
open Sageopt Sageopt.Compile Sageopt.Solvers Sageopt.Analysis
open Finset

/-! ### small list facts -/

theorem sp_rdot_take (a : List Rat) (x : List ℝ) (n : Nat) (h : a.length ≤ n) :
    rdot a (x.take n) = rdot a x := by
  unfold rdot
  induction a generalizing x n with
  | nil => simp
  | cons q a ih =>
    cases n with
    | zero => simp at h
    | succ n =>
      cases x with
      | nil => simp
      | cons b x =>
        simp only [List.take_succ_cons, List.zipWith_cons_cons, List.sum_cons]
        rw [ih x n (by simpa using h)]

theorem sp_padTo_getD (N : Nat) (r : List Rat) (t : Nat) : (padTo N r).getD t 0 = r.getD t 0 := by
  unfold padTo
  by_cases ht : t < r.length
  · simp [List.getD_eq_getElem?_getD, List.getElem?_append_left ht]
  · rw [sp_getD_ge r t 0 (not_lt.1 ht)]
    simp only [List.getD_eq_getElem?_getD]
    rw [List.getElem?_append_right (not_lt.1 ht)]
    cases h : (List.replicate (N - r.length) (0 : Rat))[t - r.length]? with
    | none => rfl
    | some v =>
      have := List.mem_of_getElem? h
      rw [List.mem_replicate] at this
      simp [this.2]

theorem sp_padTo_length (N : Nat) (r : List Rat) (h : r.length ≤ N) : (padTo N r).length = N := by
  unfold padTo; simp; omega

theorem sp_subRow_getD (a b : List Rat) (h : a.length = b.length) (t : Nat) :
    (subRow a b).getD t 0 = a.getD t 0 - b.getD t 0 := by
  unfold subRow
  by_cases ht : t < a.length
  · have ht' : t < b.length := h ▸ ht
    simp [List.getD_eq_getElem?_getD, ht, ht']
  · have ht' : ¬ t < b.length := h ▸ ht
    rw [sp_getD_ge _ _ _ (by simp; omega), sp_getD_ge _ _ _ (not_lt.1 ht), sp_getD_ge _ _ _ (not_lt.1 ht')]
    simp

theorem sp_alpha_getD_length (alpha : List (List Rat)) (n : Nat) (hw : ∀ r ∈ alpha, r.length = n) (j : Nat)
    (hj : j < alpha.length) : (alpha.getD j []).length = n :=
  hw _ (sp_getD_mem alpha j [] hj)

theorem sp_dot_eq (u v : List ℝ) : dot u v = ∑ s ∈ range v.length, u.getD s 0 * v.getD s 0 := by
  unfold dot
  induction v generalizing u with
  | nil => simp
  | cons b v ih =>
    cases u with
    | nil => simp
    | cons a u =>
      rw [List.length_cons, Finset.sum_range_succ', List.zipWith_cons_cons, List.sum_cons, ih]
      simp [add_comm]

theorem sp_zipIdx_sum_cast (l : List Nat) (f : Nat → Nat → Rat) (i0 : Nat) :
    ((((l.zipIdx i0).map fun (p : Nat × Nat) => f p.1 p.2).sum : Rat) : ℝ)
      = ∑ k ∈ range l.length, ((f (l.getD k 0) (i0 + k) : Rat) : ℝ) := by
  induction l generalizing i0 with
  | nil => simp
  | cons a l ih =>
    rw [List.length_cons, Finset.sum_range_succ', List.zipIdx_cons, List.map_cons, List.sum_cons]
    rw [Rat.cast_add, ih (i0 + 1)]
    simp only [List.getD_cons_succ, List.getD_cons_zero, Nat.add_zero]
    rw [add_comm]
    congr 1
    apply Finset.sum_congr rfl
    intro k _
    rw [show i0 + 1 + k = i0 + (k + 1) by omega]

/-! ### pairing of the domain with `eta` -/

theorem sp_pairing (Q : CType → List ℝ → Prop) (K : List Cone)
    (hK : ∀ co ∈ K, co.type ∈ [CType.zero, .pos, .soc, .exp]) (s y : List ℝ)
    (hs : FeasBlocks (conP Q) K s) (hy : FeasBlocks (dualP Q) K y) (hl : s.length = totalLen K) :
    0 ≤ dot s y := by
  induction K generalizing s y with
  | nil =>
    have : s = [] := by simpa using hl
    simp [this]
  | cons co K ih =>
    rw [totalLen_cons] at hl
    rw [feasBlocks_cons] at hs hy
    rw [dot_take_drop co.len]
    have h2 := ih (fun c hc => hK c (List.mem_cons_of_mem _ hc)) (s.drop co.len) (y.drop co.len) hs.2 hy.2
      (by rw [List.length_drop]; omega)
    have hty := hK co (List.mem_cons_self ..)
    have h1 : 0 ≤ dot (s.take co.len) (y.take co.len) := by
      obtain ⟨ty, len⟩ := co
      simp only [List.mem_cons, List.not_mem_nil, or_false] at hty
      rcases hty with rfl | rfl | rfl | rfl
      · exact le_of_eq (zero_pairing _ _ hs.1).symm
      · exact pos_pairing _ _ hs.1 hy.1
      · exact soc_pairing _ _ hs.1 hy.1
      · exact exp_pairing _ _ hs.1 hy.1
    linarith

/-! ### from a certificate in range form to the signomial of the aligned AGE vector -/

theorem sp_cert_sig (σ : Nat → ℝ) (alpha : List (List Rat)) (c : List AffE) (e : Ech) (p : PIds)
    (hi : p.i < alpha.length) (hlt : ∀ j ∈ trueIdx (coverOf e p.i), j < alpha.length)
    (hni : p.i ∉ trueIdx (coverOf e p.i))
    (N r : ℕ) (A : ℕ → ℕ → ℝ) (b η ν : ℕ → ℝ) (epi : List Nat) (xt : List ℝ) (hxt : xt.length = N)
    (hpair : 0 ≤ ∑ s ∈ range r, η s * (∑ t ∈ range N, A s t * xt.getD t 0 + b s))
    (hrows : ∀ k, k < (trueIdx (coverOf e p.i)).length →
      InExpCone (-(σ (epi.getD k 0))) (Real.exp 1 * σ (p.cvar.getD k 0)) (ν k))
    (hlin : 0 ≤ ageVal σ alpha.length c e p p.i - ∑ s ∈ range r, η s * b s
      - ∑ k ∈ range (trueIdx (coverOf e p.i)).length, σ (epi.getD k 0))
    (hbal : ∀ t, t < N → ∑ k ∈ range (trueIdx (coverOf e p.i)).length,
        ν k * ((((alpha.getD ((trueIdx (coverOf e p.i)).getD k 0) []).getD t 0 : Rat) : ℝ)
          - (((alpha.getD p.i []).getD t 0 : Rat) : ℝ)) = ∑ s ∈ range r, A s t * η s) :
    0 ≤ ∑ j ∈ range alpha.length, ageVal σ alpha.length c e p j * Real.exp (rdot (alpha.getD j []) xt) := by
  rw [sp_sig_age σ alpha.length c e p (fun j => Real.exp (rdot (alpha.getD j []) xt)) hi hlt hni]
  have := sp_age_sound N r (trueIdx (coverOf e p.i)).length
    (fun t => (((alpha.getD p.i []).getD t 0 : Rat) : ℝ))
    (fun k t => (((alpha.getD ((trueIdx (coverOf e p.i)).getD k 0) []).getD t 0 : Rat) : ℝ))
    A b (ageVal σ alpha.length c e p p.i) (fun k => σ (p.cvar.getD k 0)) ν (fun k => σ (epi.getD k 0)) η
    (fun t => xt.getD t 0) hpair hrows hlin hbal
  simp only [sp_rdot_eq, hxt]
  exact this

/-! ### values of `nuExprs` -/

theorem sp_nu_plain (σ : Nat → ℝ) (s : Settings) (p : PIds) (h : (s.kernelBasis && !p.basis.isEmpty) = false) :
    (nuExprs s p).length = p.nu.length ∧
    ∀ k, k < p.nu.length → argVal σ ((nuExprs s p).getD k (constE 0)) = σ (p.nu.getD k 0) := by
  unfold nuExprs
  rw [h]
  simp only [Bool.false_eq_true, if_false, List.length_map, true_and]
  intro k hk
  rw [sp_getD_map varE p.nu k 0 _ hk, sp_argVal_varE]

theorem sp_nu_kernel (σ : Nat → ℝ) (s : Settings) (p : PIds) (h : (s.kernelBasis && !p.basis.isEmpty) = true) :
    (nuExprs s p).length = p.basis.length ∧
    ∀ k, k < p.basis.length → argVal σ ((nuExprs s p).getD k (constE 0))
      = ∑ l ∈ range p.nu.length, (((p.basis.getD k []).getD l 0 : Rat) : ℝ) * σ (p.nu.getD l 0) := by
  unfold nuExprs
  rw [h]
  simp only [if_true, List.length_map, true_and]
  intro k hk
  rw [sp_getD_map _ p.basis k [] _ hk]
  have := sp_zip_sum_filter σ (p.basis.getD k []) p.nu
  unfold argVal
  simp only []
  rw [← this]
  simp

/-- the kernel-basis balance: `nu = B · pre_nu` with the columns of `B` in the kernel -/
theorem sp_kernel_balance (K L : ℕ) (B : ℕ → ℕ → ℝ) (pre d : ℕ → ℝ)
    (hker : ∀ l, l < L → ∑ k ∈ range K, d k * B k l = 0) :
    ∑ k ∈ range K, (∑ l ∈ range L, B k l * pre l) * d k = 0 := by
  simp_rw [Finset.sum_mul]
  rw [Finset.sum_comm]
  apply Finset.sum_eq_zero
  intro l hl
  have := hker l (Finset.mem_range.1 hl)
  have h2 : ∑ k ∈ range K, B k l * pre l * d k = pre l * ∑ k ∈ range K, d k * B k l := by
    rw [Finset.mul_sum]; apply Finset.sum_congr rfl; intro k _; ring
  rw [h2, this, mul_zero]

end Sageopt.Sage
