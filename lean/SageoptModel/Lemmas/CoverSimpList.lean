/-
C19 (part E), list half: what `simplifyCover` computes entry by entry, `dotQ` of nonnegative rows, and the facts about the
rows of a nonnegative exponent matrix with pairwise distinct rows that the lossless-reduction theorem needs.
-/
import SageoptModel.Model.Sage
import Mathlib.Data.Real.Basic
import Mathlib.Tactic.Ring
import Mathlib.Tactic.Linarith

namespace Sageopt.Analysis
open Sageopt Sageopt.Sage

theorem cs_zipIdx_map_getD (f : Bool × Nat → Bool) (cov : List Bool) (j : Nat) :
    (cov.zipIdx.map f).getD j false = (cov[j]?.map fun b => f (b, j)).getD false := by
  rw [List.getD_eq_getElem?_getD, List.getElem?_map, List.getElem?_zipIdx]
  cases cov[j]? <;> simp

/-- entry `j` of the simplified cover -/
theorem cs_simplifyCover_getD (alpha : List (List Rat)) (zeroLoc i : Nat) (cov : List Bool) (j : Nat) :
    (simplifyCover alpha zeroLoc i cov).getD j false =
      (cov.getD j false && !(j != zeroLoc && dotQ (alpha.getD i []) (alpha.getD j []) == 0)) := by
  unfold simplifyCover
  rw [cs_zipIdx_map_getD, List.getD_eq_getElem?_getD (l := cov)]
  cases h : cov[j]? with
  | none => rfl
  | some b =>
    simp only [Option.map_some, Option.getD_some]
    generalize dotQ (alpha.getD i []) (alpha.getD j []) = d
    cases b <;> cases (j != zeroLoc) <;> cases (d == 0) <;> rfl

theorem cs_foldl_add (l : List Rat) (a : Rat) : l.foldl (· + ·) a = a + l.foldl (· + ·) 0 := by
  induction l generalizing a with
  | nil => simp
  | cons x l ih =>
    simp only [List.foldl_cons]
    rw [ih (a + x), ih (0 + x)]
    ring

theorem cs_dotQ_nil_left (b : List Rat) : dotQ [] b = 0 := by
  simp [dotQ]

theorem cs_dotQ_nil_right (a : List Rat) : dotQ a [] = 0 := by
  simp [dotQ]

theorem cs_dotQ_cons (x y : Rat) (a b : List Rat) : dotQ (x :: a) (y :: b) = x * y + dotQ a b := by
  unfold dotQ
  simp only [List.zipWith_cons_cons, List.foldl_cons]
  rw [cs_foldl_add]
  ring

theorem cs_dotQ_nonneg (a b : List Rat) (ha : ∀ q ∈ a, 0 ≤ q) (hb : ∀ q ∈ b, 0 ≤ q) : 0 ≤ dotQ a b := by
  induction a generalizing b with
  | nil => rw [cs_dotQ_nil_left]
  | cons x a ih =>
    cases b with
    | nil => rw [cs_dotQ_nil_right]
    | cons y b =>
      rw [cs_dotQ_cons]
      have h1 : 0 ≤ x := ha x (List.mem_cons_self)
      have h2 : 0 ≤ y := hb y (List.mem_cons_self)
      have h3 := ih b (fun q hq => ha q (List.mem_cons_of_mem _ hq)) (fun q hq => hb q (List.mem_cons_of_mem _ hq))
      have := mul_nonneg h1 h2
      linarith

/-- a vanishing `dotQ` of two nonnegative rows: every product of corresponding entries vanishes -/
theorem cs_dotQ_eq_zero (a b : List Rat) (ha : ∀ q ∈ a, 0 ≤ q) (hb : ∀ q ∈ b, 0 ≤ q) (h : dotQ a b = 0) (k : Nat) :
    a.getD k 0 * b.getD k 0 = 0 := by
  induction a generalizing b k with
  | nil => simp
  | cons x a ih =>
    cases b with
    | nil => simp
    | cons y b =>
      rw [cs_dotQ_cons] at h
      have h1 : 0 ≤ x := ha x (List.mem_cons_self)
      have h2 : 0 ≤ y := hb y (List.mem_cons_self)
      have ha' : ∀ q ∈ a, 0 ≤ q := fun q hq => ha q (List.mem_cons_of_mem _ hq)
      have hb' : ∀ q ∈ b, 0 ≤ q := fun q hq => hb q (List.mem_cons_of_mem _ hq)
      have h3 := cs_dotQ_nonneg a b ha' hb'
      have h4 := mul_nonneg h1 h2
      cases k with
      | zero =>
        simp only [List.getD_cons_zero]
        linarith
      | succ k =>
        simp only [List.getD_cons_succ]
        exact ih b ha' hb' (by linarith) k

theorem cs_getD_nonneg (r : List Rat) (h : ∀ q ∈ r, 0 ≤ q) (k : Nat) : 0 ≤ r.getD k 0 := by
  rw [List.getD_eq_getElem?_getD]
  cases hk : r[k]? with
  | none => simp
  | some q =>
    simp only [Option.getD_some]
    exact h q (List.mem_of_getElem? hk)

/-- a row of `alpha` (or the default `[]`) has nonnegative entries -/
theorem cs_row_nonneg (alpha : List (List Rat)) (hnn : ∀ r ∈ alpha, ∀ q ∈ r, 0 ≤ q) (l : Nat) :
    ∀ q ∈ alpha.getD l [], 0 ≤ q := by
  rw [List.getD_eq_getElem?_getD]
  cases hl : alpha[l]? with
  | none => simp
  | some r =>
    simp only [Option.getD_some]
    exact hnn r (List.mem_of_getElem? hl)

/-- a nonnegative row of length `n` that is not the zero row has a positive entry at a position `< n` -/
theorem cs_pos_entry (r z : List Rat) (n : Nat) (hr : r.length = n) (hzl : z.length = n) (hz : ∀ q ∈ z, q = 0)
    (hnn : ∀ q ∈ r, 0 ≤ q) (hne : r ≠ z) : ∃ k, k < n ∧ 0 < r.getD k 0 := by
  by_contra hcon
  apply hne
  have hz' : z = List.replicate n 0 := List.eq_replicate_iff.mpr ⟨hzl, hz⟩
  rw [hz']
  refine List.eq_replicate_iff.mpr ⟨hr, ?_⟩
  intro q hq
  obtain ⟨k, hk, hkq⟩ := List.getElem_of_mem hq
  by_contra hq0
  apply hcon
  refine ⟨k, hr ▸ hk, ?_⟩
  rw [List.getD_eq_getElem?_getD, List.getElem?_eq_getElem hk, Option.getD_some, hkq]
  exact lt_of_le_of_ne (hnn q hq) (Ne.symm hq0)

end Sageopt.Analysis
