/-
C05 helper lemmas, part 3: evaluation of polynomials at a REAL point through the model operations.
The character `a ↦ x^a` is multiplicative on polynomial rows (nonnegative integer exponents) only, so
the product / power calculus of `Lemmas/RelaxSigCalc.lean` is redone under the polynomial invariant
`Sig.PolyWf` of `Lemmas/SigCalcComp.lean`.  Then: the even modulator `stdMultiplier f` and its powers.
-/
import SageoptModel.Lemmas.PolyAMono
import SageoptModel.Lemmas.SigCalcComp
import SageoptModel.Lemmas.RelaxSigCalc

namespace Sageopt.Poly
open Sageopt Sageopt.Sig Sageopt.Sig.Hom Sageopt.Relax Sageopt.Sage Sageopt.RelaxSig

noncomputable section

/-- the character `a ↦ x^a` -/
def pa_chi (x : List ℝ) : Exp → ℝ := fun a => monoR a x

theorem pa_polyR_eq_eval (ts : List (Exp × Rat)) (x : List ℝ) :
    polyR ts x = eval (pa_chi x) (mapT rs_cast ts) := by
  simp [polyR, eval, mapT, List.map_map, Function.comp_def, rs_cast, pa_chi]

/-! ### multiplicativity on polynomial rows -/

theorem pa_monoR_zero (n : Nat) (x : List ℝ) : monoR (zeroExp n) x = 1 := by
  induction n generalizing x with
  | zero => simp [zeroExp, pa_monoR_nil_left]
  | succ n ih =>
    cases x with
    | nil => exact pa_monoR_nil_right _
    | cons t x =>
      have := ih x
      unfold zeroExp at this ⊢
      rw [List.replicate_succ, pa_monoR_cons, this]
      simp

theorem pa_monoR_add (a b : Exp) (x : List ℝ) (h : a.length = b.length)
    (ha : isPolyExp a = true) (hb : isPolyExp b = true) :
    monoR (addExp a b) x = monoR a x * monoR b x := by
  rw [isPolyExp_iff] at ha hb
  induction a generalizing b x with
  | nil =>
    cases b with
    | nil => simp [addExp, pa_monoR_nil_left]
    | cons q b => simp at h
  | cons p a ih =>
    cases b with
    | nil => simp at h
    | cons q b =>
      cases x with
      | nil => simp [pa_monoR_nil_right]
      | cons t x =>
        have h' := ih b x (by simpa using h) (fun r hr => ha r (by simp [hr]))
          (fun r hr => hb r (by simp [hr]))
        unfold addExp at h' ⊢
        rw [List.zipWith_cons_cons, pa_monoR_cons, pa_monoR_cons, pa_monoR_cons, h',
          toNat_add_of_isNatQ (ha p (by simp)) (hb q (by simp)), pow_add]
        ring

theorem pa_eval_map_mul (x : List ℝ) (n : Nat) (ts : List (Exp × ℝ))
    (hw : ∀ t ∈ ts, t.1.length = n) (hp : ∀ t ∈ ts, isPolyExp t.1 = true)
    (t2 : Exp × ℝ) (h2 : t2.1.length = n) (h2p : isPolyExp t2.1 = true) :
    eval (pa_chi x) (ts.map fun t1 => (addExp t1.1 t2.1, t1.2 * t2.2)) =
      eval (pa_chi x) ts * (t2.2 * pa_chi x t2.1) := by
  induction ts with
  | nil => simp
  | cons t ts ih =>
    rw [List.map_cons, eval_cons, eval_cons,
      ih (fun t ht => hw t (List.mem_cons_of_mem _ ht)) (fun t ht => hp t (List.mem_cons_of_mem _ ht))]
    simp only [pa_chi]
    rw [pa_monoR_add _ _ x (by rw [hw t (by simp), h2]) (hp t (by simp)) h2p]
    ring

theorem pa_eval_prodTerms (x : List ℝ) (n : Nat) (ts us : List (Exp × ℝ))
    (hw : ∀ t ∈ ts, t.1.length = n) (hp : ∀ t ∈ ts, isPolyExp t.1 = true)
    (hu : ∀ t ∈ us, t.1.length = n) (hup : ∀ t ∈ us, isPolyExp t.1 = true) :
    eval (pa_chi x) (prodTerms ts us) = eval (pa_chi x) ts * eval (pa_chi x) us := by
  unfold prodTerms
  induction us with
  | nil => simp
  | cons u us ih =>
    rw [List.flatMap_cons, eval_append, eval_cons,
      ih (fun t ht => hu t (List.mem_cons_of_mem _ ht)) (fun t ht => hup t (List.mem_cons_of_mem _ ht)),
      pa_eval_map_mul x n ts hw hp u (hu u (by simp)) (hup u (by simp))]
    ring

/-! ### real evaluation through the model operations -/

theorem pa_eval_withoutZeros (x : List ℝ) (f : SigT Rat) (hf : Wf f) :
    eval (pa_chi x) (mapT rs_cast (withoutZeros isZeroQ f).terms) =
      eval (pa_chi x) (mapT rs_cast f.terms) :=
  eval_congr_coeff _ (coeff_mapT_withoutZeros rs_cast_isAddHom isZeroQ rs_cast_isZeroQ f hf)

theorem pa_eval_product (x : List ℝ) (n : Nat) {f g : SigT Rat} (hf : Sig.PolyWf n f)
    (hg : Sig.PolyWf n g) :
    eval (pa_chi x) (mapT rs_cast (product f g).terms) =
      eval (pa_chi x) (mapT rs_cast f.terms) * eval (pa_chi x) (mapT rs_cast g.terms) := by
  rw [eval_congr_coeff _ (coeff_mapT_product rs_cast_isAddHom f g hf.wf.grid hg.wf.grid
    (fun _ _ _ _ => rs_cast_mul _ _))]
  apply pa_eval_prodTerms x n
  · intro u hu
    obtain ⟨t, ht, rfl⟩ := (mem_mapT rs_cast).1 hu
    exact hf.width t ht
  · intro u hu
    obtain ⟨t, ht, rfl⟩ := (mem_mapT rs_cast).1 hu
    exact hf.polyRow t ht
  · intro u hu
    obtain ⟨t, ht, rfl⟩ := (mem_mapT rs_cast).1 hu
    exact hg.width t ht
  · intro u hu
    obtain ⟨t, ht, rfl⟩ := (mem_mapT rs_cast).1 hu
    exact hg.polyRow t ht

theorem pa_powLoop (x : List ℝ) (n : Nat) {f : SigT Rat} (hf : Sig.PolyWf n f) (k : Nat)
    (s : SigT Rat) (hs : Sig.PolyWf n s) :
    eval (pa_chi x) (mapT rs_cast
        ((List.range k).foldl (fun s _ => withoutZeros isZeroQ (product s f)) s).terms) =
      eval (pa_chi x) (mapT rs_cast s.terms) * (eval (pa_chi x) (mapT rs_cast f.terms)) ^ k := by
  induction k generalizing s with
  | zero => simp
  | succ k ih =>
    rw [List.range_succ_eq_map, List.foldl_cons, List.foldl_map]
    have hp : Sig.PolyWf n (product s f) := product_polyWf hs hf
    rw [ih _ (withoutZeros_polyWf hp), pa_eval_withoutZeros x _ hp.wf, pa_eval_product x n hs hf]
    ring

theorem pa_powNat (x : List ℝ) (n : Nat) {f : SigT Rat} (hf : Sig.PolyWf n f) (k : Nat) :
    eval (pa_chi x) (mapT rs_cast (powNat isZeroQ f k).terms) =
      (eval (pa_chi x) (mapT rs_cast f.terms)) ^ k := by
  cases k with
  | zero =>
    unfold powNat
    rw [const_terms, mapT_cons, mapT_nil, eval_cons]
    show rs_cast 1 * monoR (zeroExp f.n) x + _ = _
    rw [pa_monoR_zero]
    simp [rs_cast, eval]
  | succ k =>
    unfold powNat
    simp only []
    rw [mk_id' f hf.wf, pa_powLoop x n hf k f hf]
    ring

theorem pa_polyR_powNat (x : List ℝ) (n : Nat) {f : SigT Rat} (hf : Sig.PolyWf n f) (k : Nat) :
    polyR (powNat isZeroQ f k).terms x = (polyR f.terms x) ^ k := by
  rw [pa_polyR_eq_eval, pa_polyR_eq_eval, pa_powNat x n hf k]

theorem pa_eval_mk (x : List ℝ) (n : Nat) (ts : List (Exp × Rat)) :
    eval (pa_chi x) (mapT rs_cast (mk n ts).terms) = eval (pa_chi x) (rounded (mapT rs_cast ts)) := by
  rw [eval_congr_coeff _ (coeff_mapT_mk rs_cast_isAddHom n ts), mk_eval']

/-! ### the even modulator -/

/-- the term list handed to the constructor by `stdMultiplier` -/
def pa_evens (f : SigQ) : List (Exp × Rat) :=
  (f.terms.filter fun t => isEvenExp t.1).map fun t => (t.1, (1 : Rat))

theorem pa_std_eq (f : SigQ) : stdMultiplier f = mk f.n (pa_evens f) := rfl

theorem pa_evens_spec (f : SigQ) (hf : PolyWfQ f) :
    ∀ u ∈ pa_evens f, u.1.length = f.n ∧ isPolyExp u.1 = true ∧ isEvenExp u.1 = true ∧ u.2 = 1 := by
  intro u hu
  obtain ⟨t, ht, rfl⟩ := List.mem_map.1 hu
  obtain ⟨ht1, ht2⟩ := List.mem_filter.1 ht
  exact ⟨(hf t ht1).1, (hf t ht1).2, ht2, rfl⟩

theorem pa_std_polyWf (f : SigQ) (hf : PolyWfQ f) : Sig.PolyWf f.n (stdMultiplier f) := by
  rw [pa_std_eq]
  exact ⟨mk_wf' f.n _ (fun u hu => (pa_evens_spec f hf u hu).1), rfl,
    mk_polyOk f.n _ (fun u hu => (pa_evens_spec f hf u hu).2.1)⟩

/-- the value of the modulator: the sum of the even monomials of `f` -/
theorem pa_std_polyR (f : SigQ) (hf : PolyWfQ f) (x : List ℝ) :
    polyR (stdMultiplier f).terms x = polyR (pa_evens f) x := by
  rw [pa_polyR_eq_eval, pa_polyR_eq_eval, pa_std_eq, pa_eval_mk, rounded_of_grid]
  intro u hu
  obtain ⟨t, ht, rfl⟩ := (mem_mapT rs_cast).1 hu
  exact isPolyExp_onGrid (pa_evens_spec f hf t ht).2.1

theorem pa_evens_nonneg (f : SigQ) (hf : PolyWfQ f) (x : List ℝ) : 0 ≤ polyR (pa_evens f) x := by
  unfold polyR
  apply List.sum_nonneg
  intro y hy
  obtain ⟨u, hu, rfl⟩ := List.mem_map.1 hy
  obtain ⟨_, _, he, h1⟩ := pa_evens_spec f hf u hu
  rw [h1]
  simpa using pa_mono_even_nonneg u.1 x he

theorem pa_sum_pos_of_mem (l : List ℝ) (h0 : ∀ y ∈ l, 0 ≤ y) (y : ℝ) (hy : y ∈ l) (hpos : 0 < y) :
    0 < l.sum := by
  induction l with
  | nil => simp at hy
  | cons z l ih =>
    rw [List.sum_cons]
    rcases List.mem_cons.1 hy with rfl | hy'
    · exact add_pos_of_pos_of_nonneg hpos (List.sum_nonneg fun w hw => h0 w (List.mem_cons_of_mem _ hw))
    · exact add_pos_of_nonneg_of_pos (h0 z (by simp))
        (ih (fun w hw => h0 w (List.mem_cons_of_mem _ hw)) hy')

theorem pa_evens_pos (f : SigQ) (hf : PolyWfQ f) (hev : ∃ t ∈ f.terms, isEvenExp t.1 = true)
    (x : List ℝ) (hx : NoZero x) (hl : x.length = f.n) : 0 < polyR (pa_evens f) x := by
  obtain ⟨t, ht, hte⟩ := hev
  have hmem : (t.1, (1 : Rat)) ∈ pa_evens f :=
    List.mem_map.2 ⟨t, List.mem_filter.2 ⟨ht, hte⟩, rfl⟩
  unfold polyR
  apply pa_sum_pos_of_mem _ _ (((1 : Rat) : ℝ) * monoR t.1 x) (List.mem_map.2 ⟨_, hmem, rfl⟩)
  · rw [pa_mono_even t.1 x hx (by rw [(hf t ht).1, hl]) (hf t ht).2 hte]
    simpa using Real.exp_pos _
  · intro y hy
    obtain ⟨u, hu, rfl⟩ := List.mem_map.1 hy
    obtain ⟨_, _, he, h1⟩ := pa_evens_spec f hf u hu
    rw [h1]
    simpa using pa_mono_even_nonneg u.1 x he

end

end Sageopt.Poly
