/-
Characters that are multiplicative on *grid* rows only.  `IsChar n χ` (Lemmas/SigSem.lean) asks for
multiplicativity on all rational rows of width `n`; every row the model ever forms is on the
`10⁻⁷ℤ` grid, so multiplicativity on grid rows is all the product theorems use.  The product
lemmas of `Lemmas/SigOps.lean` are re-proved here under this weaker hypothesis, both for the numeric
model and in homomorphism form (`Lemmas/SigMapHom.lean`).
-/
import SageoptModel.Lemmas.SigMapHom
import SageoptModel.Lemmas.SigEq
import Mathlib.Data.Rat.Floor

namespace Sageopt.Sig

/-- `χ` is multiplicative on grid rows of width `n` -/
structure IsGridChar (n : Nat) (χ : Exp → Rat) : Prop where
  zero : χ (zeroExp n) = 1
  add : ∀ a b : Exp, a.length = n → b.length = n → OnGrid a → OnGrid b → χ (addExp a b) = χ a * χ b

theorem IsChar.isGridChar {n : Nat} {χ : Exp → Rat} (h : IsChar n χ) : IsGridChar n χ :=
  ⟨h.zero, fun a b ha hb _ _ => h.add a b ha hb⟩

/-- a non-trivial character on the grid: `a ↦ 2 ^ (10⁷·a₁)`, an integer power on grid rows
    (so `IsGridChar`, unlike `IsChar` at `Rat`, has non-constant instances) -/
def pow2Char (a : Exp) : Rat := (2 : Rat) ^ ⌊a.headD 0 * (10 ^ decimals : Nat)⌋

theorem pow2Char_isGridChar (n : Nat) : IsGridChar n pow2Char := by
  refine ⟨?_, ?_⟩
  · cases n with
    | zero => simp [pow2Char, zeroExp]
    | succ n => simp [pow2Char, zeroExp, List.replicate_succ]
  · intro a b ha hb hga hgb
    cases a with
    | nil =>
      cases b with
      | nil => simp [pow2Char, addExp]
      | cons y ys => rw [← hb] at ha; simp at ha
    | cons x xs =>
      cases b with
      | nil => rw [← hb] at ha; simp at ha
      | cons y ys =>
        obtain ⟨z, hz⟩ := (round7_fix_iff x).1 (hga x (by simp))
        have hx : x * (10 ^ decimals : Nat) = (z : Rat) := by
          rw [hz, div_mul_cancel₀ _ scale_ne_zero]
        simp only [pow2Char, addExp, List.zipWith_cons_cons, List.headD_cons]
        rw [add_mul, hx, Int.floor_intCast_add, Int.floor_intCast, zpow_add₀ (by norm_num)]

theorem pow2Char_ne_one : pow2Char [1 / 10000000, 0] = 2 := by
  simp [pow2Char, decimals]

theorem eval_map_mul_grid (χ : Exp → Rat) (n : Nat) (hχ : IsGridChar n χ) (ts : List (Exp × Rat))
    (hw : ∀ t ∈ ts, t.1.length = n) (hg : ∀ t ∈ ts, OnGrid t.1) (t2 : Exp × Rat)
    (h2 : t2.1.length = n) (h2g : OnGrid t2.1) :
    eval χ (ts.map fun t1 => (addExp t1.1 t2.1, t1.2 * t2.2)) = eval χ ts * (t2.2 * χ t2.1) := by
  induction ts with
  | nil => simp
  | cons t ts ih =>
    rw [List.map_cons, eval_cons, eval_cons,
      ih (fun t ht => hw t (List.mem_cons_of_mem _ ht)) (fun t ht => hg t (List.mem_cons_of_mem _ ht)),
      hχ.add _ _ (hw t (by simp)) h2 (hg t (by simp)) h2g]
    ring

theorem eval_prodTerms_grid (χ : Exp → Rat) (n : Nat) (hχ : IsGridChar n χ) (ts us : List (Exp × Rat))
    (hw : ∀ t ∈ ts, t.1.length = n) (hg : ∀ t ∈ ts, OnGrid t.1)
    (hu : ∀ t ∈ us, t.1.length = n) (hug : ∀ t ∈ us, OnGrid t.1) :
    eval χ (prodTerms ts us) = eval χ ts * eval χ us := by
  unfold prodTerms
  induction us with
  | nil => simp
  | cons u us ih =>
    rw [List.flatMap_cons, eval_append, eval_cons,
      ih (fun t ht => hu t (List.mem_cons_of_mem _ ht)) (fun t ht => hug t (List.mem_cons_of_mem _ ht)),
      eval_map_mul_grid χ n hχ ts hw hg u (hu u (by simp)) (hug u (by simp))]
    ring

theorem product_eval_grid (n : Nat) (χ : Exp → Rat) (hχ : IsGridChar n χ) (f g : SigT Rat)
    (hf : Wf f) (hg : Wf g) (hfn : f.n = n) (hgn : g.n = n) :
    eval χ (product f g).terms = eval χ f.terms * eval χ g.terms := by
  rw [product_terms f g hf.grid hg.grid, consolidate_eval]
  apply eval_prodTerms_grid χ n hχ
  · intro t ht; rw [hf.width t ht, hfn]
  · exact hf.grid
  · intro t ht; rw [hg.width t ht, hgn]
  · exact hg.grid

/-- `C12.mul_hom` (numeric model) for a character that is multiplicative on grid rows only -/
theorem mul_hom_grid (n : Nat) (χ : Exp → Rat) (hχ : IsGridChar n χ) (f g h : SigT Rat)
    (hf : Wf f) (hg : Wf g) (hfn : f.n = n) (hmul : mul isZeroQ f g = .ok h) :
    Wf h ∧ eval χ h.terms = eval χ f.terms * eval χ g.terms := by
  unfold mul at hmul
  split at hmul
  · exact absurd hmul (by simp)
  · rename_i hn
    have hn : f.n = g.n := not_not.1 hn
    simp only [Res.ok.injEq] at hmul
    subst hmul
    have hp : Wf (product f g) := product_wf f g hf hg hn
    refine ⟨withoutZeros_wf' isZeroQ _ hp, ?_⟩
    rw [withoutZeros_eval isZeroQ isZeroQ_iff _ hp.grid,
      product_eval_grid n χ hχ f g hf hg hfn (hn ▸ hfn)]

namespace Hom

variable {C : Type} [Add C] [Zero C] [Mul C] {φ : C → Rat}

theorem eval_mapT_product_grid (hφ : IsAddHom φ) (n : Nat) (χ : Exp → Rat) (hχ : IsGridChar n χ)
    (f g : SigT C) (hf : Wf f) (hg : Wf g) (hfn : f.n = n) (hgn : g.n = n)
    (hm : ∀ t1 ∈ f.terms, ∀ t2 ∈ g.terms, φ (t1.2 * t2.2) = φ t1.2 * φ t2.2) :
    eval χ (mapT φ (product f g).terms) = eval χ (mapT φ f.terms) * eval χ (mapT φ g.terms) := by
  rw [eval_congr_coeff χ (coeff_mapT_product hφ f g hf.grid hg.grid hm)]
  apply eval_prodTerms_grid χ n hχ
  · intro u hu
    obtain ⟨t, ht, rfl⟩ := (mem_mapT φ).1 hu
    show t.1.length = n
    rw [hf.width t ht, hfn]
  · intro u hu
    obtain ⟨t, ht, rfl⟩ := (mem_mapT φ).1 hu
    exact hf.grid t ht
  · intro u hu
    obtain ⟨t, ht, rfl⟩ := (mem_mapT φ).1 hu
    show t.1.length = n
    rw [hg.width t ht, hgn]
  · intro u hu
    obtain ⟨t, ht, rfl⟩ := (mem_mapT φ).1 hu
    exact hg.grid t ht

end Hom

end Sageopt.Sig
