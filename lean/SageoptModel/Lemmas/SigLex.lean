/-
`lexLt` is a strict total order on exponent rows; `sortedKeys` returns a duplicate-free list with
the same members as its input.
-/
import SageoptModel.Lemmas.SigSem
import Mathlib.Algebra.Order.Field.Rat
import Mathlib.Tactic.Linarith
import Mathlib.Data.List.Basic

namespace Sageopt.Sig

theorem lexLt_irrefl (a : Exp) : lexLt a a = false := by
  induction a with
  | nil => rfl
  | cons x xs ih => simp [lexLt, ih]

theorem lexLt_trans {a b c : Exp} (hab : lexLt a b = true) (hbc : lexLt b c = true) :
    lexLt a c = true := by
  induction a generalizing b c with
  | nil =>
    cases b with
    | nil => simp [lexLt] at hab
    | cons y ys =>
      cases c with
      | nil => simp [lexLt] at hbc
      | cons z zs => rfl
  | cons x xs ih =>
    cases b with
    | nil => simp [lexLt] at hab
    | cons y ys =>
      cases c with
      | nil => simp [lexLt] at hbc
      | cons z zs =>
        simp only [lexLt] at hab hbc ⊢
        split at hab
        · rename_i hxy
          split at hbc
          · rename_i hyz
            rw [if_pos (lt_trans hxy hyz)]
          · split at hbc
            · exact absurd hbc (by simp)
            · rename_i h1 h2
              have : y = z := le_antisymm (not_lt.1 h2) (not_lt.1 h1)
              rw [if_pos (this ▸ hxy)]
        · split at hab
          · exact absurd hab (by simp)
          · rename_i h1 h2
            have hxy : x = y := le_antisymm (not_lt.1 h2) (not_lt.1 h1)
            subst hxy
            split at hbc
            · rename_i hyz; rw [if_pos hyz]
            · split at hbc
              · exact absurd hbc (by simp)
              · rename_i h3 h4
                rw [if_neg h3, if_neg h4]
                exact ih hab hbc

theorem lexLt_total {a b : Exp} (hab : lexLt a b = false) (hne : a ≠ b) : lexLt b a = true := by
  induction a generalizing b with
  | nil =>
    cases b with
    | nil => exact absurd rfl hne
    | cons y ys => simp [lexLt] at hab
  | cons x xs ih =>
    cases b with
    | nil => rfl
    | cons y ys =>
      simp only [lexLt] at hab ⊢
      split at hab
      · exact absurd hab (by simp)
      · rename_i h1
        split at hab
        · rename_i h2; rw [if_pos h2]
        · rename_i h2
          have hxy : x = y := le_antisymm (not_lt.1 h2) (not_lt.1 h1)
          subst hxy
          rw [if_neg h1, if_neg h1]
          exact ih hab (fun h => hne (by rw [h]))

/-- strictly sorted w.r.t. `lexLt` -/
def LexSorted (l : List Exp) : Prop := l.Pairwise fun x y => lexLt x y = true

theorem LexSorted.nodup {l : List Exp} (h : LexSorted l) : l.Nodup := by
  refine List.Pairwise.imp ?_ h
  intro a b hab hEq
  subst hEq
  rw [lexLt_irrefl] at hab
  exact absurd hab (by simp)

theorem mem_insertSorted (a x : Exp) (l : List Exp) : x ∈ insertSorted a l ↔ x = a ∨ x ∈ l := by
  induction l with
  | nil => simp [insertSorted]
  | cons b bs ih =>
    unfold insertSorted
    split
    · simp
    · split
      · rename_i _ hab
        subst hab
        simp
      · simp only [List.mem_cons, ih]
        tauto

theorem LexSorted.insertSorted (a : Exp) {l : List Exp} (h : LexSorted l) :
    LexSorted (insertSorted a l) := by
  induction l with
  | nil => simp [Sig.insertSorted, LexSorted]
  | cons b bs ih =>
    unfold Sig.insertSorted
    have hb := (List.pairwise_cons.1 h)
    split
    · rename_i hab
      refine List.pairwise_cons.2 ⟨?_, h⟩
      intro y hy
      rcases List.mem_cons.1 hy with rfl | hy
      · exact hab
      · exact lexLt_trans hab (hb.1 y hy)
    · rename_i hab
      split
      · exact h
      · rename_i hne
        refine List.pairwise_cons.2 ⟨?_, ih hb.2⟩
        intro y hy
        rcases (mem_insertSorted a y bs).1 hy with rfl | hy
        · exact lexLt_total (by simpa using hab) (fun h => hne h)
        · exact hb.1 y hy

theorem sortedKeys_aux (ks acc : List Exp) (hacc : LexSorted acc) :
    LexSorted (ks.foldl (fun acc k => insertSorted k acc) acc) ∧
    ∀ x, x ∈ ks.foldl (fun acc k => insertSorted k acc) acc ↔ x ∈ acc ∨ x ∈ ks := by
  induction ks generalizing acc with
  | nil => simp [hacc]
  | cons k ks ih =>
    simp only [List.foldl_cons]
    obtain ⟨h1, h2⟩ := ih (insertSorted k acc) (hacc.insertSorted k)
    refine ⟨h1, fun x => ?_⟩
    rw [h2, mem_insertSorted, List.mem_cons]
    tauto

theorem sortedKeys_nodup (ks : List Exp) : (sortedKeys ks).Nodup :=
  ((sortedKeys_aux ks [] List.Pairwise.nil).1).nodup

theorem mem_sortedKeys (ks : List Exp) (x : Exp) : x ∈ sortedKeys ks ↔ x ∈ ks := by
  have := (sortedKeys_aux ks [] List.Pairwise.nil).2 x
  simpa [sortedKeys] using this

theorem hasDupKeys_eq_false_iff (ks : List Exp) : hasDupKeys ks = false ↔ ks.Nodup := by
  induction ks with
  | nil => simp [hasDupKeys]
  | cons k ks ih =>
    simp only [hasDupKeys, Bool.or_eq_false_iff, ih, List.nodup_cons]
    simp

end Sageopt.Sig
