/-
`query_coeff`, `__eq__` and division by a monomial (numeric instance).
-/
import SageoptModel.Lemmas.SigOps
import SageoptModel.Lemmas.SigNum

namespace Sageopt.Sig

theorem isZeroQ_iff (c : Rat) : isZeroQ c = true ↔ c = 0 := by
  simp [isZeroQ]

theorem absQ_eq_abs (q : Rat) : absQ q = |q| := by
  unfold absQ
  split
  · rename_i h; rw [abs_of_neg h]
  · rename_i h; rw [abs_of_nonneg (not_lt.1 h)]

theorem queryCoeff_eq' (f : SigT Rat) (hnd : (keys f.terms).Nodup) (a : Exp) :
    queryCoeff f a = coeff f.terms (roundExp a) :=
  lookupC_eq_coeff hnd _

/-- one direction of the comparison in `__eq__` -/
def eqHalf (tol : Rat) (f g : SigT Rat) : Bool :=
  f.terms.all fun t => absQ (t.2 - queryCoeff g t.1) ≤ tol

theorem eqCode_eq (tol : Rat) (f g : SigT Rat) : eqCode tol f g = (eqHalf tol f g && eqHalf tol g f) := rfl

theorem eqHalf_iff (tol : Rat) (f g : SigT Rat) (hf : Wf f) (hg : Wf g) :
    eqHalf tol f g = true ↔ ∀ a ∈ keys f.terms, |coeff f.terms a - coeff g.terms a| ≤ tol := by
  unfold eqHalf
  rw [List.all_eq_true]
  have key : ∀ t ∈ f.terms, absQ (t.2 - queryCoeff g t.1) = |coeff f.terms t.1 - coeff g.terms t.1| := by
    intro t ht
    rw [absQ_eq_abs, queryCoeff_eq' g hg.nodup, roundExp_of_onGrid (hf.grid t ht),
      coeff_of_nodup_mem hf.nodup (a := t.1) (c := t.2) ht]
  constructor
  · intro h a ha
    obtain ⟨t, ht, rfl⟩ := List.mem_map.1 ha
    have := h t ht
    rw [decide_eq_true_iff, key t ht] at this
    exact this
  · intro h t ht
    rw [decide_eq_true_iff, key t ht]
    exact h t.1 (List.mem_map.2 ⟨t, ht, rfl⟩)

theorem eqCode_iff (tol : Rat) (htol : 0 ≤ tol) (f g : SigT Rat) (hf : Wf f) (hg : Wf g) :
    eqCode tol f g = true ↔ ∀ a : Exp, |coeff f.terms a - coeff g.terms a| ≤ tol := by
  rw [eqCode_eq, Bool.and_eq_true, eqHalf_iff tol f g hf hg, eqHalf_iff tol g f hg hf]
  constructor
  · rintro ⟨h1, h2⟩ a
    by_cases ha : a ∈ keys f.terms
    · exact h1 a ha
    · by_cases hb : a ∈ keys g.terms
      · rw [abs_sub_comm]; exact h2 a hb
      · rw [coeff_eq_zero_of_not_mem ha, coeff_eq_zero_of_not_mem hb]
        simpa using htol
  · intro h
    exact ⟨fun a _ => h a, fun a _ => by rw [abs_sub_comm]; exact h a⟩

end Sageopt.Sig
