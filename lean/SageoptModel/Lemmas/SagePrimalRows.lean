/-
C01 helper lemmas, row semantics: `sum_relent`, the trivial `0 ≤ age_i` row, the balance rows
(`matvecRows`, and the conditional `matvec_plus_matvec` rows), `_age_vectors_sum_to_c`.
-/
import SageoptModel.Lemmas.SagePrimalBasic
import SageoptModel.Lemmas.CompileBlocks

namespace Sageopt.Sage
open Sageopt Sageopt.Compile Sageopt.Solvers Sageopt.Analysis
open Finset

theorem sp_crowVal_arg_false (σ : Nat → ℝ) (x : AffE) : crowVal σ ⟨x.co, x.off, false⟩ = argVal σ x := by
  rw [crowVal_false]; rfl

theorem sp_crowVal_arg_true (σ : Nat → ℝ) (x : AffE) :
    crowVal σ ⟨x.co, x.off, true⟩ = Real.exp 1 * argVal σ x := by
  rw [crowVal_true]; rfl

theorem sp_argVal_varE (σ : Nat → ℝ) (id : Nat) : argVal σ (varE id) = σ id := by
  simp [argVal, varE]

theorem sp_argVal_constE (σ : Nat → ℝ) (q : Rat) : argVal σ (constE q) = (q : ℝ) := by
  simp [argVal, constE]

theorem sp_argVal_negE (σ : Nat → ℝ) (x : AffE) : argVal σ (negE x) = - argVal σ x := by
  simp only [argVal, negE, sum_negated]
  push_cast; ring

theorem sp_sum_epi (σ : Nat → ℝ) (epi : List Nat) :
    ((epi.map fun id => (id, (-1 : Rat))).map fun e => ((e.2 : Rat) : ℝ) * σ e.1).sum = - (epi.map σ).sum := by
  induction epi with
  | nil => simp
  | cons a l ih =>
    simp only [List.map_cons, List.sum_cons, ih]
    push_cast; ring

/-! ### `sum_relent` -/

theorem sp_relent_blocks (Q : CType → List ℝ → Prop) (σ : Nat → ℝ) (x y : List AffE) (epi : List Nat)
    (ks : List Nat) :
    FeasBlocks (conP Q) (List.replicate ks.length ⟨.exp, 3⟩)
      ((ks.flatMap fun k =>
        [ (⟨[(epi.getD k 0, -1)], 0, false⟩ : CRow),
          ⟨(y.getD k (constE 0)).co, (y.getD k (constE 0)).off, true⟩,
          ⟨(x.getD k (constE 0)).co, (x.getD k (constE 0)).off, false⟩ ]).map (crowVal σ)) ↔
      ∀ k ∈ ks, InExpCone (-(σ (epi.getD k 0))) (Real.exp 1 * argVal σ (y.getD k (constE 0)))
        (argVal σ (x.getD k (constE 0))) := by
  induction ks with
  | nil => simp
  | cons k ks ih =>
    rw [List.length_cons, List.replicate_succ, List.flatMap_cons, List.map_append, feasBlocks_cons]
    simp only [List.map_cons, List.map_nil]
    have take3 : ∀ (a b c : ℝ) (l : List ℝ), List.take 3 ([a, b, c] ++ l) = [a, b, c] := fun _ _ _ _ => rfl
    have drop3 : ∀ (a b c : ℝ) (l : List ℝ), List.drop 3 ([a, b, c] ++ l) = l := fun _ _ _ _ => rfl
    show conP Q CType.exp (List.take 3 _) ∧ FeasBlocks (conP Q) _ (List.drop 3 _) ↔ _
    rw [take3, drop3]
    rw [ih, List.forall_mem_cons, sp_crowVal_arg_false, sp_crowVal_arg_true, crowVal_false]
    simp only [conP, realP, expR, List.map_cons, List.map_nil, List.sum_cons, List.sum_nil]
    have : ((-1 : Rat) : ℝ) * σ (epi.getD k 0) + 0 + ((0 : Rat) : ℝ) = -(σ (epi.getD k 0)) := by
      push_cast; ring
    rw [this]

theorem sp_sumRelent_iff (Q : CType → List ℝ → Prop) (σ : Nat → ℝ) (x y : List AffE) (z : AffE) (epi : List Nat) :
    FeasBlocks (conP Q) (sumRelent x y z epi).2 ((sumRelent x y z epi).1.map (crowVal σ)) ↔
      (0 ≤ -(argVal σ z) - (epi.map σ).sum) ∧
      ∀ k, k < x.length →
        InExpCone (-(σ (epi.getD k 0))) (Real.exp 1 * argVal σ (y.getD k (constE 0))) (argVal σ (x.getD k (constE 0))) := by
  unfold sumRelent
  simp only [List.map_cons]
  rw [feasBlocks_cons]
  have hl := sp_relent_blocks Q σ x y epi (List.range x.length)
  rw [List.length_range] at hl
  simp only [List.take_succ_cons, List.take_zero, List.drop_succ_cons, List.drop_zero]
  rw [hl]
  simp only [conP, realP, List.mem_singleton, forall_eq, List.mem_range]
  rw [crowVal_false, List.map_append, List.sum_append, sum_negated, sp_sum_epi]
  have : -(z.co.map fun p => ((p.2 : Rat) : ℝ) * σ p.1).sum + -(epi.map σ).sum + ((-z.off : Rat) : ℝ)
      = -(argVal σ z) - (epi.map σ).sum := by
    unfold argVal; push_cast; ring
  rw [this]

theorem sp_sumRelent_length (x y : List AffE) (z : AffE) (epi : List Nat) :
    (sumRelent x y z epi).1.length = totalLen (sumRelent x y z epi).2 := by
  unfold sumRelent
  simp only [List.length_cons, totalLen_cons]
  have h1 : ∀ ks : List Nat, (ks.flatMap fun k =>
      [ (⟨[(epi.getD k 0, -1)], 0, false⟩ : CRow),
        ⟨(y.getD k (constE 0)).co, (y.getD k (constE 0)).off, true⟩,
        ⟨(x.getD k (constE 0)).co, (x.getD k (constE 0)).off, false⟩ ]).length = 3 * ks.length := by
    intro ks
    induction ks with
    | nil => rfl
    | cons k ks ih => rw [List.flatMap_cons, List.length_append, ih]; simp; omega
  have h2 : ∀ n : Nat, totalLen (List.replicate n (⟨.exp, 3⟩ : Cone)) = 3 * n := by
    intro n
    induction n with
    | zero => rfl
    | succ n ih => rw [List.replicate_succ, totalLen_cons, ih]; show 3 + 3 * n = 3 * (n+1); omega
  rw [h1, h2, List.length_range]; omega

/-! ### `0 ≤ age_i` -/

theorem sp_nonnegRow_val (σ : Nat → ℝ) (x : AffE) (dummy : Nat) : crowVal σ (nonnegRow x dummy) = argVal σ x := by
  unfold nonnegRow
  split
  · rename_i h
    have : x.co = [] := by simpa using h
    rw [crowVal_false]; simp [argVal, this]
  · exact sp_crowVal_arg_false σ x

/-! ### blocks consisting of one linear cone -/

theorem sp_feas_zero (Q : CType → List ℝ → Prop) (n : Nat) (f : ℕ → ℝ) :
    FeasBlocks (conP Q) [⟨.zero, n⟩] ((List.range n).map f) ↔ ∀ t, t < n → f t = 0 := by
  rw [feasBlocks_single _ _ _ _ (by simp)]
  simp only [conP, realP, List.mem_map, List.mem_range, forall_exists_index, and_imp,
    forall_apply_eq_imp_iff₂]

theorem sp_feas_pos (Q : CType → List ℝ → Prop) (n : Nat) (f : ℕ → ℝ) :
    FeasBlocks (conP Q) [⟨.pos, n⟩] ((List.range n).map f) ↔ ∀ t, t < n → 0 ≤ f t := by
  rw [feasBlocks_single _ _ _ _ (by simp)]
  simp only [conP, realP, List.mem_map, List.mem_range, forall_exists_index, and_imp,
    forall_apply_eq_imp_iff₂]

/-! ### balance rows -/

theorem sp_getD_getD_map (rowsQ : List (List Rat)) (t k : Nat) :
    (rowsQ.map fun r => r.getD t 0).getD k 0 = (rowsQ.getD k []).getD t 0 := by
  by_cases hk : k < rowsQ.length
  · simp [List.getD_eq_getElem?_getD, hk]
  · simp [List.getD_eq_getElem?_getD, not_lt.1 hk]

theorem sp_transposeQ_getD (n : Nat) (rowsQ : List (List Rat)) (t : Nat) (ht : t < n) :
    (transposeQ n rowsQ).getD t [] = rowsQ.map fun r => r.getD t 0 := by
  unfold transposeQ
  rw [sp_getD_map_range _ _ _ _ ht]

theorem sp_matvec_feas (Q : CType → List ℝ → Prop) (σ : Nat → ℝ) (n : Nat) (rowsQ : List (List Rat))
    (ids : List Nat) :
    FeasBlocks (conP Q) [⟨.zero, n⟩] ((matvecRows (transposeQ n rowsQ) ids).map (crowVal σ)) ↔
      ∀ t, t < n → ∑ k ∈ range ids.length, (((rowsQ.getD k []).getD t 0 : Rat) : ℝ) * σ (ids.getD k 0) = 0 := by
  unfold matvecRows transposeQ
  rw [List.map_map, List.map_map, sp_feas_zero]
  apply forall_congr'; intro t
  apply imp_congr_right; intro _
  simp only [Function.comp]
  rw [crowVal_false]
  have := sp_zip_sum σ (rowsQ.map fun r => r.getD t 0) ids
  simp only [sp_getD_getD_map] at this
  rw [← this]
  simp

theorem sp_matvec_length (n : Nat) (rowsQ : List (List Rat)) (ids : List Nat) :
    (matvecRows (transposeQ n rowsQ) ids).length = n := by
  simp [matvecRows, transposeQ]

/-- the rows of `matvec_plus_matvec(mat1, nu, mat2, eta)` -/
theorem sp_eq_feas (Q : CType → List ℝ → Prop) (σ : Nat → ℝ) (N : Nat) (rowsQ A : List (List Rat))
    (nu eta : List Nat) :
    FeasBlocks (conP Q) [⟨.zero, N⟩]
      (((List.range N).map fun t =>
        (⟨(((transposeQ N rowsQ).getD t []).zip nu).map (fun (q, id) => (id, q)) ++
          ((((transposeQ N A).map fun r => r.map (- ·)).getD t []).zip eta).map (fun (q, id) => (id, q)),
          0, false⟩ : CRow)).map (crowVal σ)) ↔
      ∀ t, t < N →
        ∑ k ∈ range nu.length, (((rowsQ.getD k []).getD t 0 : Rat) : ℝ) * σ (nu.getD k 0) =
        ∑ s ∈ range eta.length, (((A.getD s []).getD t 0 : Rat) : ℝ) * σ (eta.getD s 0) := by
  rw [List.map_map, sp_feas_zero]
  apply forall_congr'; intro t
  apply imp_congr_right; intro ht
  simp only [Function.comp]
  rw [crowVal_false, List.map_append, List.sum_append, sp_transposeQ_getD N rowsQ t ht]
  have h2 : ((transposeQ N A).map fun r => r.map (- ·)).getD t [] = (A.map fun r => r.getD t 0).map (- ·) := by
    unfold transposeQ
    rw [List.map_map, sp_getD_map_range _ _ _ _ ht]
    rfl
  rw [h2]
  have e1 := sp_zip_sum σ (rowsQ.map fun r => r.getD t 0) nu
  have e2 := sp_zip_sum σ ((A.map fun r => r.getD t 0).map (- ·)) eta
  simp only [sp_getD_getD_map] at e1
  have e3 : ∀ s, (((A.map fun r => r.getD t 0).map (- ·)).getD s 0 : Rat) = - (A.getD s []).getD t 0 := by
    intro s
    rw [← sp_getD_getD_map]
    by_cases hs : s < (A.map fun r => r.getD t 0).length
    · rw [sp_getD_map _ _ _ 0 _ hs]
    · rw [sp_getD_ge _ _ _ (by simpa using hs), sp_getD_ge _ _ _ (by simpa using hs)]; simp
  simp only [e3] at e2
  have e1' : ((((rowsQ.map fun r => r.getD t 0).zip nu).map fun (q, id) => (id, q)).map
      fun e => ((e.2 : Rat) : ℝ) * σ e.1).sum = _ := e1
  have e2' : (((((A.map fun r => r.getD t 0).map (- ·)).zip eta).map fun (q, id) => (id, q)).map
      fun e => ((e.2 : Rat) : ℝ) * σ e.1).sum = _ := e2
  rw [e1', e2']
  have : ∑ s ∈ range eta.length, (((-(A.getD s []).getD t 0 : Rat)) : ℝ) * σ (eta.getD s 0)
      = - ∑ s ∈ range eta.length, (((A.getD s []).getD t 0 : Rat) : ℝ) * σ (eta.getD s 0) := by
    rw [← Finset.sum_neg_distrib]
    apply Finset.sum_congr rfl; intro s _; push_cast; ring
  rw [this]
  constructor
  · intro h; push_cast at h; linarith
  · intro h; push_cast; linarith

/-! ### `_age_vectors_sum_to_c` -/

/-- every coefficient is `1` (true of all entries of aligned AGE vectors) -/
def sp_UnitCo (a : AffE) : Prop := ∀ q ∈ a.co, q.2 = 1

theorem sp_unitCo_varE (id : Nat) : sp_UnitCo (varE id) := by
  intro q hq; simp [varE] at hq; rw [hq]

theorem sp_unitCo_of_nil (a : AffE) (h : a.co = []) : sp_UnitCo a := by
  intro q hq; rw [h] at hq; cases hq

theorem sp_argVal_unit (σ : Nat → ℝ) (a : AffE) (h : sp_UnitCo a) :
    argVal σ a = ((a.co.map (·.1)).map σ).sum + (a.off : ℝ) := by
  unfold argVal
  congr 1
  rw [List.map_map]
  congr 1
  apply List.map_congr_left
  intro q hq
  simp [h q hq]

theorem sp_sumToC_aux (σ : Nat → ℝ) (j : Nat) (ages : List (List AffE))
    (hu : ∀ a ∈ ages, sp_UnitCo (a.getD j (constE 0))) :
    (((ages.flatMap fun a => (a.getD j (constE 0)).co.map (·.1)).map fun id => (id, (-1 : Rat))).map
        fun e => ((e.2 : Rat) : ℝ) * σ e.1).sum
      - ((((ages.map fun a => (a.getD j (constE 0)).off).foldl (· + ·) 0 : Rat)) : ℝ)
      = - (ages.map fun a => argVal σ (a.getD j (constE 0))).sum := by
  rw [sp_sum_epi, foldl_add_cast]
  induction ages with
  | nil => simp
  | cons a ages ih =>
    have ih' := ih (fun b hb => hu b (List.mem_cons_of_mem _ hb))
    simp only [List.flatMap_cons, List.map_append, List.sum_append, List.map_cons, List.sum_cons]
    rw [sp_argVal_unit σ _ (hu a (List.mem_cons_self ..))]
    linarith

/-- the row of index `j` of `_age_vectors_sum_to_c` -/
def sp_sumRow (c : List AffE) (ages : List (List AffE)) (dummy : Nat) (j : Nat) : CRow :=
  ⟨if (((ages.flatMap fun a => (a.getD j (constE 0)).co.map (·.1)).map fun id => (id, (-1 : Rat))) ++
        (c.getD j (constE 0)).co).isEmpty then [(dummy, 0)]
      else ((ages.flatMap fun a => (a.getD j (constE 0)).co.map (·.1)).map fun id => (id, (-1 : Rat))) ++
        (c.getD j (constE 0)).co,
    (c.getD j (constE 0)).off - (ages.map fun a => (a.getD j (constE 0)).off).foldl (· + ·) 0, false⟩

theorem sp_sumToC_eq (m : Nat) (c : List AffE) (ages : List (List AffE)) (forceEq : Bool) (dummy : Nat) (e : Ech) :
    sumToC m c ages forceEq dummy e =
      if forceEq then
        ((((List.range m).filter (reachedB e)) ++ ((List.range m).filter fun j => !reachedB e j)).map
            (sp_sumRow c ages dummy),
          [⟨.zero, ((List.range m).filter (reachedB e)).length⟩] ++
            if ((List.range m).filter fun j => !reachedB e j).isEmpty then []
            else [⟨.pos, ((List.range m).filter fun j => !reachedB e j).length⟩])
      else ((List.range m).map (sp_sumRow c ages dummy), [⟨.pos, m⟩]) := rfl

theorem sp_sumRow_val (σ : Nat → ℝ) (c : List AffE) (ages : List (List AffE)) (dummy : Nat) (j : Nat)
    (hu : ∀ a ∈ ages, sp_UnitCo (a.getD j (constE 0))) :
    crowVal σ (sp_sumRow c ages dummy j)
      = cVal σ c j - (ages.map fun a => argVal σ (a.getD j (constE 0))).sum := by
  unfold sp_sumRow
  have haux := sp_sumToC_aux σ j ages hu
  rw [crowVal_false]
  split
  · rename_i hemp
    have hnil : ((ages.flatMap fun a => (a.getD j (constE 0)).co.map (·.1)).map fun id => (id, (-1 : Rat))) ++
          (c.getD j (constE 0)).co = [] := by simpa using hemp
    have h1 := List.append_eq_nil_iff.1 hnil
    rw [h1.1] at haux
    unfold cVal
    rw [show argVal σ (c.getD j (constE 0)) = ((c.getD j (constE 0)).co.map fun p => ((p.2 : Rat) : ℝ) * σ p.1).sum
      + (((c.getD j (constE 0)).off : Rat) : ℝ) from rfl, h1.2]
    simp only [List.map_nil, List.sum_nil, List.map_cons, List.sum_cons] at haux ⊢
    push_cast
    linarith
  · rw [List.map_append, List.sum_append]
    unfold cVal
    rw [show argVal σ (c.getD j (constE 0)) = ((c.getD j (constE 0)).co.map fun p => ((p.2 : Rat) : ℝ) * σ p.1).sum
      + (((c.getD j (constE 0)).off : Rat) : ℝ) from rfl]
    push_cast
    linarith

/-- one linear cone over the image of an arbitrary index list -/
theorem sp_feas_zero_list (Q : CType → List ℝ → Prop) (l : List ℕ) (f : ℕ → ℝ) :
    FeasBlocks (conP Q) [⟨.zero, l.length⟩] (l.map f) ↔ ∀ t ∈ l, f t = 0 := by
  rw [feasBlocks_single _ _ _ _ (by simp)]
  simp only [conP, realP, List.mem_map, forall_exists_index, and_imp, forall_apply_eq_imp_iff₂]

theorem sp_feas_pos_list (Q : CType → List ℝ → Prop) (l : List ℕ) (f : ℕ → ℝ) :
    FeasBlocks (conP Q) [⟨.pos, l.length⟩] (l.map f) ↔ ∀ t ∈ l, 0 ≤ f t := by
  rw [feasBlocks_single _ _ _ _ (by simp)]
  simp only [conP, realP, List.mem_map, forall_exists_index, and_imp, forall_apply_eq_imp_iff₂]

/-- the optional trailing `+` cone of the force-equality layout -/
theorem sp_feas_pos_opt (Q : CType → List ℝ → Prop) (l : List ℕ) (f : ℕ → ℝ) :
    FeasBlocks (conP Q) (if l.isEmpty then [] else [⟨.pos, l.length⟩]) (l.map f) ↔ ∀ t ∈ l, 0 ≤ f t := by
  cases l with
  | nil => simp
  | cons a l =>
    rw [show (a :: l).isEmpty = false from rfl]
    simp only [Bool.false_eq_true, if_false]
    exact sp_feas_pos_list Q (a :: l) f

/-- `_age_vectors_sum_to_c`: `Σ_i age_i ≤ c`, with equality at the reached indices under
    `sum_age_force_equality` -/
theorem sp_sumToC_feas (Q : CType → List ℝ → Prop) (σ : Nat → ℝ) (m : Nat) (c : List AffE) (ages : List (List AffE))
    (forceEq : Bool) (dummy : Nat) (e : Ech)
    (hu : ∀ a ∈ ages, ∀ j, j < m → sp_UnitCo (a.getD j (constE 0))) :
    FeasBlocks (conP Q) (sumToC m c ages forceEq dummy e).2 ((sumToC m c ages forceEq dummy e).1.map (crowVal σ)) ↔
      ∀ j, j < m →
        if (forceEq && reachedB e j) = true then (ages.map fun a => argVal σ (a.getD j (constE 0))).sum = cVal σ c j
        else (ages.map fun a => argVal σ (a.getD j (constE 0))).sum ≤ cVal σ c j := by
  rw [sp_sumToC_eq]
  have hval : ∀ j, j < m → (crowVal σ ∘ sp_sumRow c ages dummy) j
      = cVal σ c j - (ages.map fun a => argVal σ (a.getD j (constE 0))).sum :=
    fun j hj => sp_sumRow_val σ c ages dummy j (fun a ha => hu a ha j hj)
  cases forceEq with
  | true =>
    simp only [if_true, Bool.true_and]
    simp only [List.map_append, List.map_map]
    rw [feasBlocks_append _ _ _ _ _ (by simp), sp_feas_zero_list, sp_feas_pos_opt]
    simp only [List.mem_filter, List.mem_range, Bool.not_eq_true', and_imp]
    constructor
    · rintro ⟨h0, h1⟩ j hj
      cases hr : reachedB e j with
      | true =>
        simp only [if_true]
        have := h0 j hj hr
        rw [hval j hj] at this
        linarith
      | false =>
        simp only [Bool.false_eq_true, if_false]
        have := h1 j hj hr
        rw [hval j hj] at this
        linarith
    · intro h
      refine ⟨fun j hj hr => ?_, fun j hj hr => ?_⟩
      · have := h j hj
        rw [hr] at this
        simp only [if_true] at this
        rw [hval j hj]; linarith
      · have := h j hj
        rw [hr] at this
        simp only [Bool.false_eq_true, if_false] at this
        rw [hval j hj]; linarith
  | false =>
    simp only [Bool.false_eq_true, if_false, Bool.false_and]
    rw [List.map_map, sp_feas_pos]
    apply forall_congr'; intro j
    apply imp_congr_right; intro hj
    rw [hval j hj]
    constructor
    · intro h; linarith
    · intro h; linarith

/-- what the soundness proof needs: the AGE vectors sum to at most `c` whatever the setting -/
theorem sp_sumToC_le (Q : CType → List ℝ → Prop) (σ : Nat → ℝ) (m : Nat) (c : List AffE) (ages : List (List AffE))
    (forceEq : Bool) (dummy : Nat) (e : Ech)
    (hu : ∀ a ∈ ages, ∀ j, j < m → sp_UnitCo (a.getD j (constE 0)))
    (h : FeasBlocks (conP Q) (sumToC m c ages forceEq dummy e).2 ((sumToC m c ages forceEq dummy e).1.map (crowVal σ)))
    (j : Nat) (hj : j < m) :
    (ages.map fun a => argVal σ (a.getD j (constE 0))).sum ≤ cVal σ c j := by
  have := (sp_sumToC_feas Q σ m c ages forceEq dummy e hu).1 h j hj
  split at this
  · exact le_of_eq this
  · exact this

/-- the two filters of the force-equality layout partition `range m` -/
theorem sp_filter_length_add (m : Nat) (p : Nat → Bool) :
    ((List.range m).filter p).length + ((List.range m).filter fun j => !p j).length = m := by
  have h := List.length_eq_length_filter_add (l := List.range m) p
  rw [List.length_range] at h
  omega

theorem sp_sumToC_length (m : Nat) (c : List AffE) (ages : List (List AffE)) (forceEq : Bool) (dummy : Nat) (e : Ech) :
    (sumToC m c ages forceEq dummy e).1.length = totalLen (sumToC m c ages forceEq dummy e).2 := by
  rw [sp_sumToC_eq]
  cases forceEq with
  | false => simp
  | true =>
    simp only [if_true, List.length_map, List.length_append, totalLen_append, totalLen_cons, totalLen_nil]
    cases hr : ((List.range m).filter fun j => !reachedB e j) with
    | nil => simp
    | cons a l => simp

end Sageopt.Sage
