/-
C19 helper lemmas: the exact rational Gaussian elimination `rankQ` of `Model/SageKernel.lean`.
Part A: the fold step, the case analysis of `elimCol`, the bound `rank ≤ #rows`, and strictness when an
empty row is present.
-/
import SageoptModel.Model.SageKernel
import Mathlib.Data.Real.Basic
import Mathlib.Tactic.Linarith
import Mathlib.Tactic.Ring

namespace Sageopt.Sage
open Sageopt Sageopt.Sage

/-- the fold step of `rankQ` -/
def opt_step (acc : List (List Rat) × Nat) (j : Nat) : List (List Rat) × Nat :=
  let (rest, found) := elimCol acc.1 j
  (rest, if found then acc.2 + 1 else acc.2)

theorem opt_rankQ_eq (n : Nat) (rows : List (List Rat)) :
    rankQ n rows = ((List.range n).foldl opt_step (rows, 0)).2 := rfl

/-- the row update of `elimCol` -/
def opt_g (p : List Rat) (j : Nat) (r : List Rat) : List Rat :=
  (r.zip p).map fun (a, b) => a - (r.getD j 0 / p.getD j 0) * b

theorem opt_elimCol_cases (rows : List (List Rat)) (j : Nat) :
    (elimCol rows j = (rows, false)) ∨
    (∃ p, p ∈ rows ∧ p.getD j 0 ≠ 0 ∧
      elimCol rows j = ((rows.filter (fun r => r != p)).map (opt_g p j), true)) := by
  unfold elimCol
  cases hf : rows.find? (fun r => r.getD j 0 != 0) with
  | none => left; rfl
  | some p =>
    right
    refine ⟨p, List.mem_of_find?_eq_some hf, ?_, rfl⟩
    have := List.find?_some hf
    simpa using this

theorem opt_step_cases (rows : List (List Rat)) (c j : Nat) :
    (opt_step (rows, c) j = (rows, c)) ∨
    (∃ p, p ∈ rows ∧ p.getD j 0 ≠ 0 ∧
      opt_step (rows, c) j = ((rows.filter (fun r => r != p)).map (opt_g p j), c + 1)) := by
  rcases opt_elimCol_cases rows j with h | ⟨p, hp, hpj, h⟩
  · left; simp [opt_step, h]
  · right; exact ⟨p, hp, hpj, by simp [opt_step, h]⟩

theorem opt_filter_length_lt (rows : List (List Rat)) (p : List Rat) (hp : p ∈ rows) :
    (rows.filter (fun r => r != p)).length + 1 ≤ rows.length := by
  have : (rows.filter (fun r => r != p)).length < rows.length := by
    rw [List.length_filter_lt_length_iff_exists]
    exact ⟨p, hp, by simp⟩
  omega

theorem opt_fold_bound (cols : List Nat) (rows : List (List Rat)) (c : Nat) :
    (cols.foldl opt_step (rows, c)).2 ≤ c + rows.length := by
  induction cols generalizing rows c with
  | nil => simp
  | cons j cols ih =>
    rw [List.foldl_cons]
    rcases opt_step_cases rows c j with h | ⟨p, hp, hpj, h⟩
    · rw [h]; exact ih rows c
    · rw [h]
      have := ih ((rows.filter (fun r => r != p)).map (opt_g p j)) (c + 1)
      have h2 := opt_filter_length_lt rows p hp
      simp only [List.length_map] at this
      omega

theorem opt_fold_empty_lt (cols : List Nat) (rows : List (List Rat)) (c : Nat) (he : [] ∈ rows) :
    (cols.foldl opt_step (rows, c)).2 < c + rows.length := by
  induction cols generalizing rows c with
  | nil =>
    have : 0 < rows.length := List.length_pos_of_mem he
    simp; exact this
  | cons j cols ih =>
    rw [List.foldl_cons]
    rcases opt_step_cases rows c j with h | ⟨p, hp, hpj, h⟩
    · rw [h]; exact ih rows c he
    · rw [h]
      have hne : p ≠ [] := by
        intro h0; apply hpj; simp [h0]
      have he' : [] ∈ (rows.filter (fun r => r != p)).map (opt_g p j) := by
        rw [List.mem_map]
        refine ⟨[], ?_, by simp [opt_g]⟩
        rw [List.mem_filter]
        exact ⟨he, by simpa using fun h => hne h⟩
      have := ih _ (c + 1) he'
      have h2 := opt_filter_length_lt rows p hp
      simp only [List.length_map] at this
      omega

theorem opt_rankQ_le (n : Nat) (rows : List (List Rat)) : rankQ n rows ≤ rows.length := by
  have := opt_fold_bound (List.range n) rows 0
  rw [opt_rankQ_eq]; omega

theorem opt_rankQ_empty_lt (n : Nat) (rows : List (List Rat)) (he : [] ∈ rows) :
    rankQ n rows < rows.length := by
  have := opt_fold_empty_lt (List.range n) rows 0 he
  rw [opt_rankQ_eq]; omega

end Sageopt.Sage
