/-
C19 helper lemmas, part B: full rank of `rankQ` implies linear independence of the rows over ℝ.
-/
import SageoptModel.Lemmas.OptRank
import Mathlib.Data.Rat.Cast.Order
import Mathlib.Tactic.FieldSimp
import Mathlib.Algebra.BigOperators.Group.List.Basic

namespace Sageopt.Sage
open Sageopt Sageopt.Sage

/-- column `t` of the real linear combination `Σ_k ν_k · rows_k` -/
def opt_comb (rows : List (List Rat)) (ν : List ℝ) (t : Nat) : ℝ :=
  (List.zipWith (fun (r : List Rat) (v : ℝ) => ((r.getD t 0 : Rat) : ℝ) * v) rows ν).sum

@[simp] theorem opt_comb_nil_left (ν : List ℝ) (t : Nat) : opt_comb [] ν t = 0 := by
  simp [opt_comb]

@[simp] theorem opt_comb_nil_right (rows : List (List Rat)) (t : Nat) : opt_comb rows [] t = 0 := by
  simp [opt_comb]

@[simp] theorem opt_comb_cons (r : List Rat) (l : List (List Rat)) (v : ℝ) (w : List ℝ) (t : Nat) :
    opt_comb (r :: l) (v :: w) t = ((r.getD t 0 : Rat) : ℝ) * v + opt_comb l w t := by
  simp [opt_comb]

theorem opt_comb_append (l1 l2 : List (List Rat)) (w1 w2 : List ℝ) (t : Nat)
    (h : l1.length = w1.length) :
    opt_comb (l1 ++ l2) (w1 ++ w2) t = opt_comb l1 w1 t + opt_comb l2 w2 t := by
  unfold opt_comb
  rw [List.zipWith_append h, List.sum_append]

theorem opt_comb_zero (l : List (List Rat)) (w : List ℝ) (t : Nat) (h : ∀ v ∈ w, v = 0) :
    opt_comb l w t = 0 := by
  induction l generalizing w with
  | nil => simp
  | cons r l ih =>
    cases w with
    | nil => simp
    | cons v w =>
      rw [opt_comb_cons, ih w (fun x hx => h x (List.mem_cons_of_mem _ hx)),
        h v List.mem_cons_self]
      simp

theorem opt_g_length (p : List Rat) (j : Nat) (r : List Rat) (n : Nat)
    (hr : r.length = n) (hp : p.length = n) : (opt_g p j r).length = n := by
  simp [opt_g, hr, hp]

theorem opt_g_getD (p : List Rat) (j : Nat) (r : List Rat) (n t : Nat)
    (hr : r.length = n) (hp : p.length = n) (ht : t < n) :
    (opt_g p j r).getD t 0 = r.getD t 0 - (r.getD j 0 / p.getD j 0) * p.getD t 0 := by
  have h1 : t < r.length := by omega
  have h2 : t < p.length := by omega
  simp only [List.getD_eq_getElem?_getD]
  simp [opt_g, h1, h2]

theorem opt_comb_map_g (p : List Rat) (j n t : Nat) (l : List (List Rat)) (w : List ℝ)
    (hl : ∀ r ∈ l, r.length = n) (hp : p.length = n) (ht : t < n) :
    opt_comb (l.map (opt_g p j)) w t =
      opt_comb l w t - (((p.getD t 0 : Rat) : ℝ) / ((p.getD j 0 : Rat) : ℝ)) * opt_comb l w j := by
  induction l generalizing w with
  | nil => simp
  | cons r l ih =>
    cases w with
    | nil => simp
    | cons v w =>
      rw [List.map_cons, opt_comb_cons, opt_comb_cons, opt_comb_cons,
        ih w (fun x hx => hl x (List.mem_cons_of_mem _ hx)),
        opt_g_getD p j r n t (hl r List.mem_cons_self) hp ht]
      push_cast
      ring

theorem opt_split3 (ν : List ℝ) (k m : Nat) (h : ν.length = k + 1 + m) :
    ∃ ν1 a ν2, ν = ν1 ++ a :: ν2 ∧ ν1.length = k ∧ ν2.length = m := by
  have h0 : ν = ν.take k ++ ν.drop k := (List.take_append_drop k ν).symm
  have h1 : (ν.drop k).length = 1 + m := by rw [List.length_drop]; omega
  cases hd : ν.drop k with
  | nil => rw [hd] at h1; simp at h1; omega
  | cons a ν2 =>
    refine ⟨ν.take k, a, ν2, ?_, ?_, ?_⟩
    · rw [← hd]; exact h0
    · rw [List.length_take]; omega
    · rw [hd] at h1; simp at h1; omega

theorem opt_fold_indep (n : Nat) (cols : List Nat) (rows : List (List Rat)) (c : Nat)
    (hw : ∀ r ∈ rows, r.length = n) (hc : ∀ t ∈ cols, t < n)
    (h : (cols.foldl opt_step (rows, c)).2 = c + rows.length)
    (ν : List ℝ) (hν : ν.length = rows.length) (hbal : ∀ t ∈ cols, opt_comb rows ν t = 0) :
    ∀ v ∈ ν, v = 0 := by
  induction cols generalizing rows c ν with
  | nil =>
    simp at h
    have : ν = [] := by
      apply List.eq_nil_of_length_eq_zero; rw [hν, h]; rfl
    rw [this]; simp
  | cons j cols ih =>
    rw [List.foldl_cons] at h
    have hc' : ∀ t ∈ cols, t < n := fun t ht => hc t (List.mem_cons_of_mem _ ht)
    rcases opt_step_cases rows c j with hs | ⟨p, hp, hpj, hs⟩
    · rw [hs] at h
      exact ih rows c hw hc' h ν hν (fun t ht => hbal t (List.mem_cons_of_mem _ ht))
    · rw [hs] at h
      obtain ⟨l1, l2, rfl⟩ := List.append_of_mem hp
      have hpn : p.length = n := hw p hp
      have hb := opt_fold_bound cols (((l1 ++ p :: l2).filter (fun r => r != p)).map (opt_g p j)) (c + 1)
      rw [h] at hb
      have hfil : (l1 ++ p :: l2).filter (fun r => r != p)
          = l1.filter (fun r => r != p) ++ l2.filter (fun r => r != p) := by
        simp [List.filter_append]
      rw [hfil] at hb h hs
      simp only [List.length_map, List.length_append, List.length_cons] at hb
      have hf1 := List.length_filter_le (fun r => r != p) l1
      have hf2 := List.length_filter_le (fun r => r != p) l2
      have e1 : l1.filter (fun r => r != p) = l1 := by
        rw [List.filter_eq_self, ← List.length_filter_eq_length_iff]; omega
      have e2 : l2.filter (fun r => r != p) = l2 := by
        rw [List.filter_eq_self, ← List.length_filter_eq_length_iff]; omega
      rw [e1, e2] at h
      have hνl : ν.length = l1.length + 1 + l2.length := by
        rw [hν]; simp; omega
      obtain ⟨ν1, a, ν2, rfl, hν1, hν2⟩ := opt_split3 ν l1.length l2.length hνl
      have hw1 : ∀ r ∈ l1, r.length = n := fun r hr => hw r (by simp [hr])
      have hw2 : ∀ r ∈ l2, r.length = n := fun r hr => hw r (by simp [hr])
      have hw12 : ∀ r ∈ l1 ++ l2, r.length = n := by
        intro r hr
        rcases List.mem_append.1 hr with hr | hr
        · exact hw1 r hr
        · exact hw2 r hr
      have hpj' : ((p.getD j 0 : Rat) : ℝ) ≠ 0 := by exact_mod_cast hpj
      -- the equations, split
      have hsplit : ∀ t, opt_comb (l1 ++ p :: l2) (ν1 ++ a :: ν2) t
          = opt_comb (l1 ++ l2) (ν1 ++ ν2) t + ((p.getD t 0 : Rat) : ℝ) * a := by
        intro t
        rw [opt_comb_append _ _ _ _ _ hν1.symm, opt_comb_append _ _ _ _ _ hν1.symm, opt_comb_cons]
        ring
      have hj := hbal j List.mem_cons_self
      rw [hsplit] at hj
      have hz : ∀ v ∈ ν1 ++ ν2, v = 0 := by
        apply ih ((l1 ++ l2).map (opt_g p j)) (c + 1)
        · intro r hr
          rw [List.mem_map] at hr
          obtain ⟨r0, hr0, rfl⟩ := hr
          exact opt_g_length p j r0 n (hw12 r0 hr0) hpn
        · exact hc'
        · rw [h]; simp; omega
        · simp [hν1, hν2]
        · intro t ht
          have htn := hc' t ht
          have hbt := hbal t (List.mem_cons_of_mem _ ht)
          rw [hsplit] at hbt
          rw [opt_comb_map_g p j n t _ _ hw12 hpn htn]
          have e3 : opt_comb (l1 ++ l2) (ν1 ++ ν2) t = -(((p.getD t 0 : Rat) : ℝ) * a) := by linarith
          have e4 : opt_comb (l1 ++ l2) (ν1 ++ ν2) j = -(((p.getD j 0 : Rat) : ℝ) * a) := by linarith
          rw [e3, e4]
          field_simp
          ring
      have hS : opt_comb (l1 ++ l2) (ν1 ++ ν2) j = 0 := opt_comb_zero _ _ _ hz
      rw [hS] at hj
      have ha : a = 0 := by
        have : ((p.getD j 0 : Rat) : ℝ) * a = 0 := by linarith
        rcases mul_eq_zero.1 this with h0 | h0
        · exact absurd h0 hpj'
        · exact h0
      intro v hv
      rcases List.mem_append.1 hv with hv | hv
      · exact hz v (List.mem_append_left _ hv)
      · rcases List.mem_cons.1 hv with hv | hv
        · rw [hv, ha]
        · exact hz v (List.mem_append_right _ hv)

theorem opt_rankQ_indep (n : Nat) (rows : List (List Rat)) (hw : ∀ r ∈ rows, r.length = n)
    (h : rankQ n rows = rows.length) (ν : List ℝ) (hν : ν.length = rows.length)
    (hbal : ∀ t, t < n → opt_comb rows ν t = 0) : ∀ v ∈ ν, v = 0 := by
  apply opt_fold_indep n (List.range n) rows 0 hw (fun t ht => List.mem_range.1 ht)
    (by rw [← opt_rankQ_eq, h]; simp) ν hν
  intro t ht
  exact hbal t (List.mem_range.1 ht)

end Sageopt.Sage
