/-
C01 helper lemmas, analysis: soundness of one (ordinary or conditional) AGE certificate with all
index sets written as `Finset.range`s over ℕ (the form the list-level rows of `primalRows` produce).
The ordinary case is `r = 0`.
-/
import SageoptModel.Lemmas.SagePrimalBasic
import SageoptModel.Lemmas.ExpCone

namespace Sageopt.Sage
open Sageopt Sageopt.Compile Sageopt.Solvers Sageopt.Analysis
open Finset

/-- one AGE certificate (cover indexed by `k < K`, own index separate), domain `{x : A x + b ∈ K_X}`
    entering only through the pairing `0 ≤ η · (A x + b)` -/
theorem sp_age_sound (N r K : ℕ) (ai : ℕ → ℝ) (a : ℕ → ℕ → ℝ) (A : ℕ → ℕ → ℝ) (b : ℕ → ℝ)
    (ci : ℝ) (cc ν epi η : ℕ → ℝ) (x : ℕ → ℝ)
    (hpair : 0 ≤ ∑ s ∈ range r, η s * (∑ t ∈ range N, A s t * x t + b s))
    (hrows : ∀ k, k < K → InExpCone (-(epi k)) (Real.exp 1 * cc k) (ν k))
    (hlin : 0 ≤ ci - ∑ s ∈ range r, η s * b s - ∑ k ∈ range K, epi k)
    (hbal : ∀ t, t < N → ∑ k ∈ range K, ν k * (a k t - ai t) = ∑ s ∈ range r, A s t * η s) :
    0 ≤ ci * Real.exp (∑ t ∈ range N, ai t * x t)
        + ∑ k ∈ range K, cc k * Real.exp (∑ t ∈ range N, a k t * x t) := by
  set di := ∑ t ∈ range N, ai t * x t with hdi
  set d : ℕ → ℝ := fun k => ∑ t ∈ range N, a k t * x t with hd
  have hj : ∀ k ∈ range K, ν k * (d k - di) - epi k ≤ cc k * Real.exp (d k - di) :=
    fun k hk => expcone_row _ _ _ _ (hrows k (Finset.mem_range.1 hk))
  have hsum := Finset.sum_le_sum hj
  have hb : ∑ k ∈ range K, ν k * (d k - di) = ∑ s ∈ range r, η s * ∑ t ∈ range N, A s t * x t := by
    have h1 : ∀ k ∈ range K, ν k * (d k - di) = ∑ t ∈ range N, (ν k * (a k t - ai t)) * x t := by
      intro k _
      rw [hd, hdi]; simp only []
      rw [← Finset.sum_sub_distrib, Finset.mul_sum]
      apply Finset.sum_congr rfl; intro t _; ring
    rw [Finset.sum_congr rfl h1, Finset.sum_comm]
    have h2 : ∀ t ∈ range N, ∑ k ∈ range K, ν k * (a k t - ai t) * x t
        = (∑ s ∈ range r, A s t * η s) * x t := by
      intro t ht; rw [← Finset.sum_mul, hbal t (Finset.mem_range.1 ht)]
    rw [Finset.sum_congr rfl h2]
    simp_rw [Finset.sum_mul, Finset.mul_sum]
    rw [Finset.sum_comm]
    apply Finset.sum_congr rfl; intro s _
    apply Finset.sum_congr rfl; intro t _; ring
  have hK' : -(∑ s ∈ range r, η s * b s) ≤ ∑ s ∈ range r, η s * ∑ t ∈ range N, A s t * x t := by
    have : ∑ s ∈ range r, η s * (∑ t ∈ range N, A s t * x t + b s)
        = ∑ s ∈ range r, η s * (∑ t ∈ range N, A s t * x t) + ∑ s ∈ range r, η s * b s := by
      rw [← Finset.sum_add_distrib]; apply Finset.sum_congr rfl; intro s _; ring
    linarith
  rw [Finset.sum_sub_distrib, hb] at hsum
  have hE : 0 < Real.exp di := Real.exp_pos _
  have h1 : 0 ≤ ci + ∑ k ∈ range K, cc k * Real.exp (d k - di) := by linarith
  have h2 : ci * Real.exp di + ∑ k ∈ range K, cc k * Real.exp (d k)
      = Real.exp di * (ci + ∑ k ∈ range K, cc k * Real.exp (d k - di)) := by
    rw [mul_add, Finset.mul_sum]; congr 1
    · ring
    · apply Finset.sum_congr rfl; intro k _
      rw [Real.exp_sub]; field_simp
  rw [h2]; exact mul_nonneg hE.le h1

/-- exp-cone rows force the `y` entry to be nonnegative -/
theorem sp_expcone_c_nonneg (u c ν : ℝ) (h : InExpCone u (Real.exp 1 * c) ν) : 0 ≤ c := by
  have h1 := expcone_y_nonneg _ _ _ h
  have he : 0 < Real.exp 1 := Real.exp_pos 1
  by_contra hneg
  have : Real.exp 1 * c < 0 := mul_neg_of_pos_of_neg he (not_le.mp hneg)
  linarith

end Sageopt.Sage
