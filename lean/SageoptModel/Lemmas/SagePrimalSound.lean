/-
C01 helper lemmas: soundness of each kind of block of `primalRows` (trivial, ordinary, ordinary with
kernel basis, conditional).
-/
import SageoptModel.Lemmas.SagePrimalCert

namespace Sageopt.Sage
open Sageopt Sageopt.Compile Sageopt.Solvers Sageopt.Analysis
open Finset

/-- index facts about one `p` -/
structure sp_PWf (inp : PrimalIn) (p : PIds) : Prop where
  hi : p.i < inp.alpha.length
  hlt : ∀ j ∈ trueIdx (coverOf inp.ech p.i), j < inp.alpha.length
  hni : p.i ∉ trueIdx (coverOf inp.ech p.i)

theorem sp_pwf_of_wf (inp : PrimalIn) (hwf : WfPrimal inp) (p : PIds) (hp : p ∈ inp.ids) : sp_PWf inp p := by
  obtain ⟨h1, h2, h3⟩ := hwf.cover p hp
  exact ⟨h2, fun j hj => h1 ▸ sp_trueIdx_lt _ j hj, h3⟩

/-- the relative-entropy rows of the block of `p`, in terms of the values of the block's variables -/
theorem sp_relent_unpack (Q : CType → List ℝ → Prop) (σ : Nat → ℝ) (inp : PrimalIn) (p : PIds) (hpw : sp_PWf inp p)
    (z : AffE) (he : p.epi.length = (trueIdx (coverOf inp.ech p.i)).length)
    (hx : (nuExprs inp.settings p).length = (trueIdx (coverOf inp.ech p.i)).length)
    (hf : FeasBlocks (conP Q)
      (sumRelent (nuExprs inp.settings p)
        ((trueIdx (coverOf inp.ech p.i)).map fun j => (ageVector inp.alpha.length inp.c inp.ech p).getD j (constE 0))
        z p.epi).2
      ((sumRelent (nuExprs inp.settings p)
        ((trueIdx (coverOf inp.ech p.i)).map fun j => (ageVector inp.alpha.length inp.c inp.ech p).getD j (constE 0))
        z p.epi).1.map (crowVal σ))) :
    (0 ≤ -(argVal σ z) - ∑ k ∈ range (trueIdx (coverOf inp.ech p.i)).length, σ (p.epi.getD k 0)) ∧
    ∀ k, k < (trueIdx (coverOf inp.ech p.i)).length →
      InExpCone (-(σ (p.epi.getD k 0))) (Real.exp 1 * σ (p.cvar.getD k 0))
        (argVal σ ((nuExprs inp.settings p).getD k (constE 0))) := by
  rw [sp_sumRelent_iff] at hf
  obtain ⟨h1, h2⟩ := hf
  refine ⟨?_, ?_⟩
  · rw [sp_sum_map_eq_range p.epi σ 0, he] at h1
    exact h1
  · intro k hk
    have := h2 k (by rw [hx]; exact hk)
    rw [sp_getD_map _ _ k 0 _ hk] at this
    have hv := sp_ageVal_cov σ inp.alpha.length inp.c inp.ech p hpw.hlt hpw.hni k hk
    unfold ageVal at hv
    rw [hv] at this
    exact this

/-- entries off the own index are nonnegative -/
theorem sp_age_nonneg (σ : Nat → ℝ) (inp : PrimalIn) (p : PIds) (hpw : sp_PWf inp p) (u ν : ℕ → ℝ)
    (hrows : ∀ k, k < (trueIdx (coverOf inp.ech p.i)).length →
      InExpCone (u k) (Real.exp 1 * σ (p.cvar.getD k 0)) (ν k)) :
    ∀ j, j < inp.alpha.length → j ≠ p.i → 0 ≤ ageVal σ inp.alpha.length inp.c inp.ech p j := by
  intro j hj hne
  by_cases hc : j ∈ trueIdx (coverOf inp.ech p.i)
  · obtain ⟨k, hk, hkj⟩ := List.getElem_of_mem hc
    have hg : (trueIdx (coverOf inp.ech p.i)).getD k 0 = j := by
      simp [List.getD_eq_getElem?_getD, hk, hkj]
    rw [← hg, sp_ageVal_cov σ inp.alpha.length inp.c inp.ech p hpw.hlt hpw.hni k hk]
    exact sp_expcone_c_nonneg _ _ _ (hrows k hk)
  · rw [sp_ageVal_other σ inp.alpha.length inp.c inp.ech p j hj hne hc]

/-- value of the own entry -/
theorem sp_ageVal_self (σ : Nat → ℝ) (inp : PrimalIn) (p : PIds) :
    argVal σ ((ageVector inp.alpha.length inp.c inp.ech p).getD p.i (constE 0))
      = ageVal σ inp.alpha.length inp.c inp.ech p p.i := rfl

/-! ### the trivial block -/

theorem sp_triv_sound (Q : CType → List ℝ → Prop) (σ : Nat → ℝ) (inp : PrimalIn) (p : PIds) (hpw : sp_PWf inp p)
    (hcov : trueIdx (coverOf inp.ech p.i) = [])
    (hf : FeasBlocks (conP Q) [(⟨.pos, 1⟩ : Cone)]
      ([nonnegRow ((ageVector inp.alpha.length inp.c inp.ech p).getD p.i (constE 0)) inp.dummy].map (crowVal σ))) :
    (∀ j, j < inp.alpha.length → j ≠ p.i → 0 ≤ ageVal σ inp.alpha.length inp.c inp.ech p j) ∧
    ∀ x : List ℝ, 0 ≤ ∑ j ∈ range inp.alpha.length,
      ageVal σ inp.alpha.length inp.c inp.ech p j * Real.exp (rdot (inp.alpha.getD j []) x) := by
  rw [feasBlocks_single _ _ _ _ (by simp)] at hf
  simp only [conP, realP, List.map_cons, List.map_nil, List.mem_singleton, forall_eq] at hf
  rw [sp_nonnegRow_val, sp_ageVal_self] at hf
  refine ⟨?_, ?_⟩
  · intro j hj hne
    rw [sp_ageVal_other σ inp.alpha.length inp.c inp.ech p j hj hne (by rw [hcov]; simp)]
  · intro x
    rw [sp_sig_age σ inp.alpha.length inp.c inp.ech p _ hpw.hi hpw.hlt hpw.hni, hcov]
    simp only [List.length_nil, Finset.range_zero, Finset.sum_empty, add_zero]
    exact mul_nonneg hf (Real.exp_pos _).le

/-! ### ordinary blocks -/

/-- an ordinary certificate with the balance in abstract form -/
theorem sp_ord_cert (σ : Nat → ℝ) (inp : PrimalIn) (p : PIds) (hpw : sp_PWf inp p) (ν : ℕ → ℝ)
    (hlin : 0 ≤ ageVal σ inp.alpha.length inp.c inp.ech p p.i
      - ∑ k ∈ range (trueIdx (coverOf inp.ech p.i)).length, σ (p.epi.getD k 0))
    (hrows : ∀ k, k < (trueIdx (coverOf inp.ech p.i)).length →
      InExpCone (-(σ (p.epi.getD k 0))) (Real.exp 1 * σ (p.cvar.getD k 0)) (ν k))
    (hbal : ∀ t, t < inp.n → ∑ k ∈ range (trueIdx (coverOf inp.ech p.i)).length,
        ν k * ((((inp.alpha.getD ((trueIdx (coverOf inp.ech p.i)).getD k 0) []).getD t 0 : Rat) : ℝ)
          - (((inp.alpha.getD p.i []).getD t 0 : Rat) : ℝ)) = 0)
    (x : List ℝ) (hx : x.length = inp.n) :
    0 ≤ ∑ j ∈ range inp.alpha.length,
      ageVal σ inp.alpha.length inp.c inp.ech p j * Real.exp (rdot (inp.alpha.getD j []) x) := by
  apply sp_cert_sig σ inp.alpha inp.c inp.ech p hpw.hi hpw.hlt hpw.hni inp.n 0 (fun _ _ => 0) (fun _ => 0)
    (fun _ => 0) ν p.epi x hx
  · simp
  · exact hrows
  · simpa using hlin
  · intro t ht; rw [hbal t ht]; simp

theorem sp_ord_sound (Q : CType → List ℝ → Prop) (σ : Nat → ℝ) (inp : PrimalIn)
    (hwidth : ∀ r ∈ inp.alpha, r.length = inp.n) (p : PIds) (hpw : sp_PWf inp p)
    (hplain : (inp.settings.kernelBasis && !p.basis.isEmpty) = false)
    (hx : (nuExprs inp.settings p).length = (trueIdx (coverOf inp.ech p.i)).length)
    (he : p.epi.length = (trueIdx (coverOf inp.ech p.i)).length)
    (hf : FeasBlocks (conP Q)
      ((sumRelent (nuExprs inp.settings p)
        ((trueIdx (coverOf inp.ech p.i)).map fun j => (ageVector inp.alpha.length inp.c inp.ech p).getD j (constE 0))
        (negE ((ageVector inp.alpha.length inp.c inp.ech p).getD p.i (constE 0))) p.epi).2 ++ [⟨.zero, inp.n⟩])
      (((sumRelent (nuExprs inp.settings p)
        ((trueIdx (coverOf inp.ech p.i)).map fun j => (ageVector inp.alpha.length inp.c inp.ech p).getD j (constE 0))
        (negE ((ageVector inp.alpha.length inp.c inp.ech p).getD p.i (constE 0))) p.epi).1 ++
        matvecRows (transposeQ inp.n ((trueIdx (coverOf inp.ech p.i)).map fun j =>
          subRow (inp.alpha.getD j []) (inp.alpha.getD p.i []))) p.nu).map (crowVal σ))) :
    (∀ j, j < inp.alpha.length → j ≠ p.i → 0 ≤ ageVal σ inp.alpha.length inp.c inp.ech p j) ∧
    ∀ x : List ℝ, x.length = inp.n → 0 ≤ ∑ j ∈ range inp.alpha.length,
      ageVal σ inp.alpha.length inp.c inp.ech p j * Real.exp (rdot (inp.alpha.getD j []) x) := by
  rw [List.map_append, feasBlocks_append _ _ _ _ _ (by rw [List.length_map]; exact sp_sumRelent_length ..)] at hf
  obtain ⟨hf1, hf2⟩ := hf
  obtain ⟨hlin, hrows⟩ := sp_relent_unpack Q σ inp p hpw _ he hx hf1
  rw [sp_argVal_negE, neg_neg, sp_ageVal_self] at hlin
  rw [sp_matvec_feas] at hf2
  obtain ⟨hnl, hnv⟩ := sp_nu_plain σ inp.settings p hplain
  have hK : p.nu.length = (trueIdx (coverOf inp.ech p.i)).length := by rw [← hnl]; exact hx
  refine ⟨sp_age_nonneg σ inp p hpw _ _ hrows, fun x hxl =>
    sp_ord_cert σ inp p hpw (fun k => argVal σ ((nuExprs inp.settings p).getD k (constE 0))) hlin hrows ?_ x hxl⟩
  intro t ht
  have h2 := hf2 t ht
  rw [hK] at h2
  rw [← h2]
  apply Finset.sum_congr rfl
  intro k hk
  rw [Finset.mem_range] at hk
  have hck := hpw.hlt _ (sp_getD_mem (trueIdx (coverOf inp.ech p.i)) k 0 hk)
  rw [hnv k (by rw [hK]; exact hk), sp_getD_map _ (trueIdx (coverOf inp.ech p.i)) k 0 [] hk,
    sp_subRow_getD _ _ (by rw [sp_alpha_getD_length inp.alpha inp.n hwidth _ hck,
      sp_alpha_getD_length inp.alpha inp.n hwidth _ hpw.hi]) t]
  push_cast; ring

/-- `KernelOk` for one `p`, over ℝ and in range form -/
theorem sp_kernel_cast (inp : PrimalIn) (p : PIds) (t l : Nat)
    (h : ((trueIdx (coverOf inp.ech p.i)).zipIdx.map fun (j, k) =>
        ((inp.alpha.getD j []).getD t 0 - (inp.alpha.getD p.i []).getD t 0) * ((p.basis.getD k []).getD l 0)).sum = 0) :
    ∑ k ∈ range (trueIdx (coverOf inp.ech p.i)).length,
      ((((inp.alpha.getD ((trueIdx (coverOf inp.ech p.i)).getD k 0) []).getD t 0 : Rat) : ℝ)
        - (((inp.alpha.getD p.i []).getD t 0 : Rat) : ℝ)) * (((p.basis.getD k []).getD l 0 : Rat) : ℝ) = 0 := by
  have h2 := sp_zipIdx_sum_cast (trueIdx (coverOf inp.ech p.i))
    (fun j k => ((inp.alpha.getD j []).getD t 0 - (inp.alpha.getD p.i []).getD t 0) * ((p.basis.getD k []).getD l 0)) 0
  have h3 : (((trueIdx (coverOf inp.ech p.i)).zipIdx 0).map fun (q : Nat × Nat) =>
      ((inp.alpha.getD q.1 []).getD t 0 - (inp.alpha.getD p.i []).getD t 0) * ((p.basis.getD q.2 []).getD l 0)).sum = 0 := h
  rw [h3] at h2
  simp only [Nat.zero_add, Rat.cast_zero] at h2
  rw [h2]
  apply Finset.sum_congr rfl
  intro k _
  push_cast; ring

theorem sp_ordK_sound (Q : CType → List ℝ → Prop) (σ : Nat → ℝ) (inp : PrimalIn) (p : PIds) (hpw : sp_PWf inp p)
    (hkb : (inp.settings.kernelBasis && !p.basis.isEmpty) = true)
    (hker : ∀ t, t < inp.n → ∀ l, l < p.nu.length →
      ((trueIdx (coverOf inp.ech p.i)).zipIdx.map fun (j, k) =>
        ((inp.alpha.getD j []).getD t 0 - (inp.alpha.getD p.i []).getD t 0) * ((p.basis.getD k []).getD l 0)).sum = 0)
    (hx : (nuExprs inp.settings p).length = (trueIdx (coverOf inp.ech p.i)).length)
    (he : p.epi.length = (trueIdx (coverOf inp.ech p.i)).length)
    (hf : FeasBlocks (conP Q)
      (sumRelent (nuExprs inp.settings p)
        ((trueIdx (coverOf inp.ech p.i)).map fun j => (ageVector inp.alpha.length inp.c inp.ech p).getD j (constE 0))
        (negE ((ageVector inp.alpha.length inp.c inp.ech p).getD p.i (constE 0))) p.epi).2
      ((sumRelent (nuExprs inp.settings p)
        ((trueIdx (coverOf inp.ech p.i)).map fun j => (ageVector inp.alpha.length inp.c inp.ech p).getD j (constE 0))
        (negE ((ageVector inp.alpha.length inp.c inp.ech p).getD p.i (constE 0))) p.epi).1.map (crowVal σ))) :
    (∀ j, j < inp.alpha.length → j ≠ p.i → 0 ≤ ageVal σ inp.alpha.length inp.c inp.ech p j) ∧
    ∀ x : List ℝ, x.length = inp.n → 0 ≤ ∑ j ∈ range inp.alpha.length,
      ageVal σ inp.alpha.length inp.c inp.ech p j * Real.exp (rdot (inp.alpha.getD j []) x) := by
  obtain ⟨hlin, hrows⟩ := sp_relent_unpack Q σ inp p hpw _ he hx hf
  rw [sp_argVal_negE, neg_neg, sp_ageVal_self] at hlin
  obtain ⟨hnl, hnv⟩ := sp_nu_kernel σ inp.settings p hkb
  have hK : p.basis.length = (trueIdx (coverOf inp.ech p.i)).length := by rw [← hnl]; exact hx
  refine ⟨sp_age_nonneg σ inp p hpw _ _ hrows, fun x hxl =>
    sp_ord_cert σ inp p hpw (fun k => argVal σ ((nuExprs inp.settings p).getD k (constE 0))) hlin hrows ?_ x hxl⟩
  intro t ht
  have hb := sp_kernel_balance (trueIdx (coverOf inp.ech p.i)).length p.nu.length
    (fun k l => (((p.basis.getD k []).getD l 0 : Rat) : ℝ)) (fun l => σ (p.nu.getD l 0))
    (fun k => (((inp.alpha.getD ((trueIdx (coverOf inp.ech p.i)).getD k 0) []).getD t 0 : Rat) : ℝ)
        - (((inp.alpha.getD p.i []).getD t 0 : Rat) : ℝ))
    (fun l hl => sp_kernel_cast inp p t l (hker t ht l hl))
  rw [← hb]
  apply Finset.sum_congr rfl
  intro k hk
  rw [Finset.mem_range] at hk
  rw [hnv k (by rw [hK]; exact hk)]

end Sageopt.Sage
