/-
Rounding / grid facts needed by the C16 proofs (self-contained; names prefixed `sc_`).
-/
import SageoptModel.Lemmas.SigSem
import SageoptModel.Model.SymCorr
import Mathlib.Algebra.Order.Field.Rat
import Mathlib.Tactic.Linarith
import Mathlib.Tactic.Ring
import Mathlib.Tactic.FieldSimp
import Mathlib.Tactic.NormNum

namespace Sageopt.Sig

/-- the grid denominator `10^7` as a rational -/
def scD : Rat := ((10 ^ decimals : Nat) : Rat)

theorem sc_D_pos : (0 : Rat) < scD := by
  unfold scD decimals; norm_num

theorem sc_D_ne : scD ≠ 0 := ne_of_gt sc_D_pos

theorem sc_D_val : scD = 10000000 := by
  unfold scD decimals; norm_num

theorem sc_round7_def (q : Rat) : round7 q = (roundHalfEven (q * scD) : Rat) / scD := rfl

theorem sc_roundHalfEven_int (k : Int) : roundHalfEven (k : Rat) = k := by
  unfold roundHalfEven
  simp only [Rat.floor_intCast]
  have : ((k : Rat) - ((k : Int) : Rat)) = 0 := sub_self _
  rw [this]
  norm_num

/-- a fixed point of `round7` is an integer multiple of `10^-7` -/
theorem sc_grid_int {q : Rat} (h : round7 q = q) : ∃ k : Int, q = (k : Rat) / scD :=
  ⟨roundHalfEven (q * scD), by rw [← sc_round7_def]; exact h.symm⟩

theorem sc_round7_int (k : Int) : round7 ((k : Rat) / scD) = (k : Rat) / scD := by
  rw [sc_round7_def, div_mul_cancel₀ _ sc_D_ne, sc_roundHalfEven_int]

theorem sc_round7_idem (q : Rat) : round7 (round7 q) = round7 q := by
  rw [sc_round7_def q]; exact sc_round7_int _

/-- the grid is closed under addition -/
theorem sc_round7_add_grid {a b : Rat} (ha : round7 a = a) (hb : round7 b = b) :
    round7 (a + b) = a + b := by
  obtain ⟨k, rfl⟩ := sc_grid_int ha
  obtain ⟨l, rfl⟩ := sc_grid_int hb
  have : (k : Rat) / scD + (l : Rat) / scD = ((k + l : Int) : Rat) / scD := by
    push_cast; ring
  rw [this]; exact sc_round7_int _

theorem sc_absQ_eq_abs (q : Rat) : absQ q = |q| := by
  unfold absQ
  split
  · rename_i h; rw [abs_of_neg h]
  · rename_i h; rw [abs_of_nonneg (not_lt.mp h)]

/-- two grid values closer than `10^-8` are equal -/
theorem sc_grid_close_eq {a b : Rat} (ha : round7 a = a) (hb : round7 b = b)
    (h : absQ (b - a) < 1 / ((10 ^ (decimals + 1) : Nat) : Rat)) : a = b := by
  obtain ⟨k, rfl⟩ := sc_grid_int ha
  obtain ⟨l, rfl⟩ := sc_grid_int hb
  rw [sc_absQ_eq_abs] at h
  have hD : scD = 10000000 := sc_D_val
  have hT : ((10 ^ (decimals + 1) : Nat) : Rat) = 100000000 := by unfold decimals; norm_num
  rw [hT, hD] at h
  rw [hD]
  have hkl : k = l := by
    rw [abs_lt] at h
    obtain ⟨h1, h2⟩ := h
    have h3 : (l : Rat) - k < 1 := by linarith
    have h4 : (-1 : Rat) < (l : Rat) - k := by linarith
    have h5 : l - k < 1 := by exact_mod_cast h3
    have h6 : -1 < l - k := by exact_mod_cast h4
    omega
  rw [hkl]

theorem sc_roundExp_grid {r : Exp} (h : OnGrid r) : roundExp r = r := by
  unfold roundExp
  induction r with
  | nil => rfl
  | cons a as ih =>
    simp only [List.map_cons]
    rw [h a (by simp), ih (fun q hq => h q (by simp [hq]))]

theorem sc_addExp_grid {a b : Exp} (ha : OnGrid a) (hb : OnGrid b) : OnGrid (addExp a b) := by
  unfold addExp
  induction a generalizing b with
  | nil => intro q hq; simp at hq
  | cons x xs ih =>
    cases b with
    | nil => intro q hq; simp at hq
    | cons y ys =>
      intro q hq
      simp only [List.zipWith_cons_cons, List.mem_cons] at hq
      rcases hq with rfl | hq
      · exact sc_round7_add_grid (ha x (by simp)) (hb y (by simp))
      · exact ih (fun q hq => ha q (by simp [hq])) (fun q hq => hb q (by simp [hq])) q hq

theorem sc_addExp_length {a b : Exp} {n : Nat} (ha : a.length = n) (hb : b.length = n) :
    (addExp a b).length = n := by
  unfold addExp; simp [ha, hb]

/-- adding the same row to rows of the same width is injective -/
theorem sc_addExp_right_inj {a b c : Exp} (hab : a.length = b.length) (hac : a.length ≤ c.length)
    (h : addExp a c = addExp b c) : a = b := by
  unfold addExp at h
  induction a generalizing b c with
  | nil => cases b with
    | nil => rfl
    | cons _ _ => simp at hab
  | cons x xs ih =>
    cases b with
    | nil => simp at hab
    | cons y ys =>
      cases c with
      | nil => simp at hac
      | cons z zs =>
        simp only [List.zipWith_cons_cons, List.cons.injEq] at h
        simp only [List.length_cons, Nat.add_right_cancel_iff] at hab
        simp only [List.length_cons, Nat.add_le_add_iff_right] at hac
        have h1 : x = y := add_right_cancel h.1
        rw [h1, ih hab hac h.2]

/-- handy for concrete rows: `q` is on the grid as soon as `q * 10^7` is an integer -/
theorem sc_round7_of_scaled (q : Rat) (k : Int) (h : q * 10000000 = k) : round7 q = q := by
  have : q = (k : Rat) / scD := by
    rw [sc_D_val, ← h]; ring
  rw [this]; exact sc_round7_int k

theorem sc_round7_intCast (k : Int) : round7 (k : Rat) = k :=
  sc_round7_of_scaled _ (k * 10000000) (by push_cast; ring)

theorem sc_onGrid_of_scaled (r : Exp) (h : ∀ q ∈ r, ∃ k : Int, q * 10000000 = k) : OnGrid r := by
  intro q hq
  obtain ⟨k, hk⟩ := h q hq
  exact sc_round7_of_scaled q k hk

end Sageopt.Sig
