/-
C19 (part E), semantic half: dropping from the cover of `i` the indices whose exponent vector has a support disjoint from
that of `α_i` (nonnegative exponents) does not change the set of ordinary AGE certificates.
One index (`cs_drop_lossless`, `cs_drop_conv`), then a finite set of indices (`cs_drop_set`).
-/
import SageoptModel.Lemmas.AgeCert

namespace Sageopt.Analysis
open scoped BigOperators

variable {ι : Type} {n : ℕ}

/-- the third coordinate of a point of the exponential cone is nonnegative -/
theorem cs_expcone_z_nonneg (x y z : ℝ) (h : InExpCone x y z) : 0 ≤ z := by
  rcases h with ⟨hz, _⟩ | ⟨hz, _, _⟩
  · exact hz.le
  · exact hz.ge

/-- `(x, y, 0) ∈ K_exp` forces `x ≤ 0` -/
theorem cs_expcone_z_zero (x y : ℝ) (h : InExpCone x y 0) : x ≤ 0 := by
  rcases h with ⟨hz, _⟩ | ⟨_, hx, _⟩
  · exact absurd hz (lt_irrefl 0)
  · exact hx

/-- nonnegative exponents, `α_i ⟂ α_j`, `α_j ≠ 0`: every certificate for `i` has `ν_j = 0` -/
theorem cs_nu_zero (α : ι → Fin n → ℝ) (hα : ∀ l k, 0 ≤ α l k) (i j : ι) (S : Finset ι) (hj : j ∈ S)
    (hdot : ∑ k, α i k * α j k = 0) (hnz : ∃ k, 0 < α j k) (ν : ι → ℝ) (hν : ∀ l ∈ S, 0 ≤ ν l)
    (hbal : ∀ k : Fin n, ∑ l ∈ S, ν l * (α l k - α i k) = 0) : ν j = 0 := by
  obtain ⟨k, hk⟩ := hnz
  have hik : α i k = 0 := by
    have h1 : ∀ k' ∈ (Finset.univ : Finset (Fin n)), 0 ≤ α i k' * α j k' :=
      fun k' _ => mul_nonneg (hα i k') (hα j k')
    have h2 := (Finset.sum_eq_zero_iff_of_nonneg h1).mp hdot k (Finset.mem_univ k)
    rcases mul_eq_zero.mp h2 with h | h
    · exact h
    · exact absurd h hk.ne'
  have hb := hbal k
  have h1 : ∀ l ∈ S, 0 ≤ ν l * (α l k - α i k) := by
    intro l hl
    rw [hik, sub_zero]
    exact mul_nonneg (hν l hl) (hα l k)
  have h2 := (Finset.sum_eq_zero_iff_of_nonneg h1).mp hb j hj
  rw [hik, sub_zero] at h2
  rcases mul_eq_zero.mp h2 with h | h
  · exact h
  · exact absurd h hk.ne'

theorem cs_drop_lossless [DecidableEq ι] (α : ι → Fin n → ℝ) (hα : ∀ l k, 0 ≤ α l k) (i j : ι) (S : Finset ι)
    (hj : j ∈ S) (hdot : ∑ k, α i k * α j k = 0) (hnz : ∃ k, 0 < α j k) (c : ι → ℝ) (h : OrdAgeCert α i S c) :
    OrdAgeCert α i (S.erase j) c := by
  obtain ⟨ν, epi, hrows, hlin, hbal⟩ := h
  have hνnn : ∀ l ∈ S, 0 ≤ ν l := fun l hl => cs_expcone_z_nonneg _ _ _ (hrows l hl)
  have hνj : ν j = 0 := cs_nu_zero α hα i j S hj hdot hnz ν hνnn hbal
  have hepi : 0 ≤ epi j := by
    have hrow := hrows j hj
    rw [hνj] at hrow
    have := cs_expcone_z_zero _ _ hrow
    linarith
  refine ⟨ν, epi, fun l hl => hrows l (Finset.mem_of_mem_erase hl), ?_, ?_⟩
  · have := Finset.add_sum_erase S epi hj
    linarith
  · intro k
    have h1 := Finset.add_sum_erase S (fun l => ν l * (α l k - α i k)) hj
    have hb := hbal k
    simp only [hνj, zero_mul, zero_add] at h1
    rw [h1]
    exact hb

theorem cs_drop_conv [DecidableEq ι] (α : ι → Fin n → ℝ) (i j : ι) (S : Finset ι) (hj : j ∈ S) (c : ι → ℝ)
    (hc : 0 ≤ c j) (h : OrdAgeCert α i (S.erase j) c) : OrdAgeCert α i S c := by
  obtain ⟨ν, epi, hrows, hlin, hbal⟩ := h
  have hepi : ∑ l ∈ S.erase j, Function.update epi j 0 l = ∑ l ∈ S.erase j, epi l :=
    Finset.sum_congr rfl fun l hl => Function.update_of_ne (Finset.ne_of_mem_erase hl) _ _
  refine ⟨Function.update ν j 0, Function.update epi j 0, ?_, ?_, ?_⟩
  · intro l hl
    by_cases hlj : l = j
    · subst hlj
      rw [Function.update_self, Function.update_self]
      right
      exact ⟨rfl, by simp, mul_nonneg (Real.exp_pos 1).le hc⟩
    · rw [Function.update_of_ne hlj, Function.update_of_ne hlj]
      exact hrows l (Finset.mem_erase.mpr ⟨hlj, hl⟩)
  · rw [← Finset.add_sum_erase S _ hj, Function.update_self, zero_add, hepi]
    exact hlin
  · intro k
    rw [← Finset.add_sum_erase S _ hj, Function.update_self, zero_mul, zero_add]
    have hν : ∑ l ∈ S.erase j, Function.update ν j 0 l * (α l k - α i k)
        = ∑ l ∈ S.erase j, ν l * (α l k - α i k) :=
      Finset.sum_congr rfl fun l hl => by rw [Function.update_of_ne (Finset.ne_of_mem_erase hl)]
    rw [hν]
    exact hbal k

/-- a whole set `D` of droppable indices at once -/
theorem cs_drop_set [DecidableEq ι] (α : ι → Fin n → ℝ) (hα : ∀ l k, 0 ≤ α l k) (i : ι) (c : ι → ℝ) (S D : Finset ι)
    (hD : D ⊆ S) (hdrop : ∀ j ∈ D, ∑ k, α i k * α j k = 0 ∧ (∃ k, 0 < α j k) ∧ 0 ≤ c j) :
    OrdAgeCert α i S c ↔ OrdAgeCert α i (S \ D) c := by
  induction D using Finset.induction_on with
  | empty => rw [Finset.sdiff_empty]
  | insert a D' ha ih =>
    have hD' : D' ⊆ S := fun x hx => hD (Finset.mem_insert_of_mem hx)
    have hdrop' : ∀ j ∈ D', ∑ k, α i k * α j k = 0 ∧ (∃ k, 0 < α j k) ∧ 0 ≤ c j :=
      fun j hj => hdrop j (Finset.mem_insert_of_mem hj)
    have haS : a ∈ S \ D' := Finset.mem_sdiff.mpr ⟨hD (Finset.mem_insert_self a D'), ha⟩
    obtain ⟨h1, h2, h3⟩ := hdrop a (Finset.mem_insert_self a D')
    rw [ih hD' hdrop', Finset.sdiff_insert]
    exact ⟨cs_drop_lossless α hα i a _ haS h1 h2 c, cs_drop_conv α i a _ haS c h3⟩

end Sageopt.Analysis
