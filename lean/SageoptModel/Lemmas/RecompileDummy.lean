/-
C11 helper lemmas (2): the dummy column only carries zero entries — `rowEntries`, `argEntries`,
`linRows`, `epiRows`, `conRows` and `compileBlocks` for two dummies succeed together, give the same
cones, and rows with the same value under every assignment.
-/
import SageoptModel.Lemmas.RecompileBasic

namespace Sageopt.Compile
open Sageopt Sageopt.Solvers

theorem rc_rowEntries (r : SRow) (d d' : Nat) (s : Rat) (es : List (Nat × Rat))
    (h : rowEntries r d s = .ok es) :
    ∃ es', rowEntries r d' s = .ok es' ∧ rc_ERel es es' := by
  unfold rowEntries at h ⊢
  by_cases he : r.terms.isEmpty = true
  · rw [if_pos he] at h ⊢
    rw [rc_pure_ok] at h
    subst h
    exact ⟨[(d', 0)], by rw [rc_pure_ok], rc_ERel_zero d d'⟩
  · rw [if_neg he] at h ⊢
    exact ⟨es, h, rc_ERel_refl es⟩

theorem rc_argEntries (x : AffArg) (d d' : Nat) (s : Rat) :
    rc_ERel (argEntries x d s) (argEntries x d' s) := by
  unfold argEntries
  by_cases he : x.co.isEmpty = true
  · rw [if_pos he, if_pos he]; exact rc_ERel_zero d d'
  · rw [if_neg he, if_neg he]; exact rc_ERel_refl _

theorem rc_crowOfEntries (r : SRow) (d d' : Nat) (s c : Rat) (b : Bool) (a : CRow)
    (h : (do pure (⟨← rowEntries r d s, c, b⟩ : CRow) : M CRow) = .ok a) :
    ∃ a', (do pure (⟨← rowEntries r d' s, c, b⟩ : CRow) : M CRow) = .ok a' ∧ rc_CRel a a' := by
  rw [rc_bind_ok] at h
  obtain ⟨es, hes, h⟩ := h
  rw [rc_pure_ok] at h
  subst h
  obtain ⟨es', hes', hR⟩ := rc_rowEntries r d d' s es hes
  refine ⟨⟨es', c, b⟩, ?_, rc_CRel_of_ERel hR c b⟩
  rw [rc_bind_ok]
  exact ⟨es', hes', by rw [rc_pure_ok]⟩

theorem rc_linRows (rows : List SRow) (d d' : Nat) (s : Rat) (rs : List CRow)
    (h : linRows rows d s = .ok rs) :
    ∃ rs', linRows rows d' s = .ok rs' ∧ List.Forall₂ rc_CRel rs rs' := by
  unfold linRows at h ⊢
  exact rc_mapM_rel rc_CRel _ _ rows rs h
    (fun r _ a ha => rc_crowOfEntries r d d' s (s * r.off) false a ha)

theorem rc_epiRows (a : NlAtom) (d d' : Nat) (rs : List CRow) (k : Cone)
    (h : epiRows a d = .ok (rs, k)) :
    ∃ rs', epiRows a d' = .ok (rs', k) ∧ List.Forall₂ rc_CRel rs rs' := by
  obtain ⟨kind, args, epi⟩ := a
  unfold epiRows at h ⊢
  simp only at h ⊢
  split at h
  · rw [rc_pure_ok] at h; obtain ⟨rfl, rfl⟩ := Prod.mk.inj h
    exact ⟨_, by rw [rc_pure_ok], rc_forall₂_CRel_refl _⟩
  · rw [rc_pure_ok] at h; obtain ⟨rfl, rfl⟩ := Prod.mk.inj h
    exact ⟨_, by rw [rc_pure_ok], rc_forall₂_CRel_refl _⟩
  · rw [rc_pure_ok] at h; obtain ⟨rfl, rfl⟩ := Prod.mk.inj h
    refine ⟨_, by rw [rc_pure_ok], ?_⟩
    exact .cons (rc_CRel_of_ERel (rc_argEntries _ d d' 1) _ _)
      (.cons (rc_CRel_refl _) (.cons (rc_CRel_of_ERel (rc_ERel_zero d d') _ _) .nil))
  · rw [rc_pure_ok] at h; obtain ⟨rfl, rfl⟩ := Prod.mk.inj h
    refine ⟨_, by rw [rc_pure_ok], ?_⟩
    exact .cons (rc_CRel_refl _) (.cons (rc_CRel_of_ERel (rc_argEntries _ d d' 1) _ _)
      (.cons (rc_CRel_of_ERel (rc_argEntries _ d d' 1) _ _) .nil))
  · rw [rc_pure_ok] at h; obtain ⟨rfl, rfl⟩ := Prod.mk.inj h
    refine ⟨_, by rw [rc_pure_ok], ?_⟩
    refine .cons (rc_CRel_refl _) ?_
    rw [List.forall₂_map_left_iff, List.forall₂_map_right_iff]
    exact List.forall₂_same.2 fun x _ => rc_CRel_of_ERel (rc_argEntries x d d' 1) _ _
  · rw [rc_throw_ok] at h; exact h.elim

theorem rc_epiBlock (a : NlAtom) (d d' : Nat) (p : List CRow × List Cone)
    (h : (do let (r, k) ← epiRows a d; pure (r, [k]) : M (List CRow × List Cone)) = .ok p) :
    ∃ p', (do let (r, k) ← epiRows a d'; pure (r, [k]) : M (List CRow × List Cone)) = .ok p' ∧
      rc_BRel p p' := by
  rw [rc_bind_ok] at h
  obtain ⟨⟨r, k⟩, hrk, h⟩ := h
  simp only [rc_pure_ok] at h
  subst h
  obtain ⟨r', hr', hR⟩ := rc_epiRows a d d' r k hrk
  refine ⟨(r', [k]), ?_, hR, rfl⟩
  rw [rc_bind_ok]
  exact ⟨(r', k), hr', by simp only [rc_pure_ok]⟩

theorem rc_conRows (c : Con) (d d' : Nat) (p : List CRow × List Cone)
    (h : conRows d c = .ok p) : ∃ p', conRows d' c = .ok p' ∧ rc_BRel p p' := by
  cases c with
  | elem isEq rows =>
    unfold conRows at h ⊢
    rw [rc_bind_ok] at h
    obtain ⟨rs, hrs, h⟩ := h
    rw [rc_pure_ok] at h
    subst h
    obtain ⟨rs', hrs', hR⟩ := rc_linRows rows d d' (-1) rs hrs
    refine ⟨(rs', _), ?_, hR, rfl⟩
    rw [rc_bind_ok]
    exact ⟨rs', hrs', by rw [rc_pure_ok]⟩
  | primal y K =>
    unfold conRows at h ⊢
    rw [rc_bind_ok] at h
    obtain ⟨rs, hrs, h⟩ := h
    rw [rc_pure_ok] at h
    subst h
    obtain ⟨rs', hrs', hR⟩ := rc_linRows y d d' 1 rs hrs
    refine ⟨(rs', _), ?_, hR, rfl⟩
    rw [rc_bind_ok]
    exact ⟨rs', hrs', by rw [rc_pure_ok]⟩
  | pow w z =>
    unfold conRows at h ⊢
    rw [rc_bind_ok] at h
    obtain ⟨rs, hrs, h⟩ := h
    rw [rc_pure_ok] at h
    subst h
    obtain ⟨rs', hrs', hR⟩ := rc_linRows (w ++ z) d d' 1 rs hrs
    refine ⟨(rs', _), ?_, hR, rfl⟩
    rw [rc_bind_ok]
    exact ⟨rs', hrs', by rw [rc_pure_ok]⟩
  | psd arg =>
    unfold conRows at h ⊢
    simp only at h ⊢
    rw [rc_bind_ok] at h
    obtain ⟨rs, hrs, h⟩ := h
    rw [rc_pure_ok] at h
    subst h
    obtain ⟨rs', hrs', hR⟩ := rc_linRows (triuEntries arg) (d + 1) (d' + 1) 1 rs hrs
    refine ⟨(rs', _), ?_, hR, rfl⟩
    rw [rc_bind_ok]
    exact ⟨rs', hrs', by rw [rc_pure_ok]⟩
  | dual y K =>
    unfold conRows at h ⊢
    simp only at h ⊢
    rw [rc_bind_ok] at h
    obtain ⟨⟨ym, K'⟩, hym, h⟩ := h
    simp only at h
    by_cases he : ym.isEmpty = true
    · rw [if_pos he, rc_pure_ok] at h
      subst h
      refine ⟨([], K'), ?_, .nil, rfl⟩
      rw [rc_bind_ok]
      exact ⟨(ym, K'), hym, by simp only [if_pos he, rc_pure_ok]⟩
    · rw [if_neg he, rc_bind_ok] at h
      obtain ⟨rs, hrs, h⟩ := h
      rw [rc_pure_ok] at h
      subst h
      obtain ⟨rs', hrs', hR⟩ := rc_mapM_rel rc_CRel _ _ ym rs hrs
        (fun q _ a ha => rc_crowOfEntries q.1 d d' 1 q.1.off q.2 a ha)
      refine ⟨(rs', K'), ?_, hR, rfl⟩
      rw [rc_bind_ok]
      refine ⟨(ym, K'), hym, ?_⟩
      simp only [if_neg he]
      rw [rc_bind_ok]
      exact ⟨rs', hrs', by rw [rc_pure_ok]⟩

theorem rc_isEmpty_eq {rs rs' : List CRow} (h : List.Forall₂ rc_CRel rs rs') :
    rs'.isEmpty = rs.isEmpty := by
  cases h <;> rfl

theorem rc_compileBlocks (cons : List Con) (d d' : Nat) (rows : List CRow) (K : List Cone)
    (h : compileBlocks cons d = .ok (rows, K)) :
    ∃ rows', compileBlocks cons d' = .ok (rows', K) ∧ List.Forall₂ rc_CRel rows rows' := by
  unfold compileBlocks at h ⊢
  simp only at h ⊢
  rw [rc_bind_ok] at h
  obtain ⟨e1, he1, h⟩ := h
  rw [rc_bind_ok] at h
  obtain ⟨e2, he2, h⟩ := h
  rw [rc_bind_ok] at h
  obtain ⟨e3, he3, h⟩ := h
  obtain ⟨e1', he1', hR1⟩ := rc_mapM_rel rc_BRel _ _ _ e1 he1 (fun c _ p hp => rc_conRows c d d' p hp)
  obtain ⟨e2', he2', hR2⟩ := rc_mapM_rel rc_BRel _ _ _ e2 he2 (fun a _ p hp => rc_epiBlock a d d' p hp)
  obtain ⟨e3', he3', hR3⟩ := rc_mapM_rel rc_BRel _ _ _ e3 he3 (fun c _ p hp => rc_conRows c d d' p hp)
  have hR := rc_forall₂_flatMap (List.rel_append (List.rel_append hR1 hR2) hR3)
  rw [rc_pure_ok] at h
  obtain ⟨rfl, rfl⟩ := Prod.mk.inj h
  refine ⟨_, ?_, hR.1⟩
  rw [rc_bind_ok]; refine ⟨e1', he1', ?_⟩
  rw [rc_bind_ok]; refine ⟨e2', he2', ?_⟩
  rw [rc_bind_ok]; refine ⟨e3', he3', ?_⟩
  rw [rc_pure_ok, hR.2]

end Sageopt.Compile
