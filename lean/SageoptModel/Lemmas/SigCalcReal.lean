/-
Real analysis for the signomial calculus: the real evaluation of a rational-coefficient signomial and
the fact that `partialSig` is its partial derivative.
-/
import SageoptModel.Lemmas.SigCalcSig
import Mathlib.Analysis.SpecialFunctions.ExpDeriv
import Mathlib.Analysis.Calculus.Deriv.Add
import Mathlib.Analysis.Calculus.Deriv.Mul

namespace Sageopt.Sig

/-- the exponent `a · x` (coordinates of `x` beyond the width of `a` unused), from offset `k` -/
noncomputable def linRFrom (k : Nat) (a : Exp) (x : Nat → ℝ) : ℝ :=
  ((a.zipIdx k).map fun p => (p.1 : ℝ) * x p.2).sum

noncomputable def linR (a : Exp) (x : Nat → ℝ) : ℝ := (a.zipIdx.map fun p => (p.1 : ℝ) * x p.2).sum

noncomputable def termsR (ts : List (Exp × Rat)) (x : Nat → ℝ) : ℝ :=
  (ts.map fun t => (t.2 : ℝ) * Real.exp (linR t.1 x)).sum

theorem linR_eq (a : Exp) (x : Nat → ℝ) : linR a x = linRFrom 0 a x := rfl

theorem linRFrom_nil (k : Nat) (x : Nat → ℝ) : linRFrom k [] x = 0 := by
  simp [linRFrom]

theorem linRFrom_cons (k : Nat) (a0 : Rat) (as : Exp) (x : Nat → ℝ) :
    linRFrom k (a0 :: as) x = (a0 : ℝ) * x k + linRFrom (k + 1) as x := by
  simp [linRFrom, List.zipIdx_cons]

/-- as a function of the `i`-th coordinate the exponent is affine with slope `a_i` -/
theorem linRFrom_update (a : Exp) (k i : Nat) (x : Nat → ℝ) (s : ℝ) :
    linRFrom k a (Function.update x i s) =
      (if k ≤ i then ((a.getD (i - k) 0 : Rat) : ℝ) else 0) * (s - x i) + linRFrom k a x := by
  induction a generalizing k with
  | nil =>
    rw [linRFrom_nil, linRFrom_nil]
    simp
  | cons a0 as ih =>
    rw [linRFrom_cons, linRFrom_cons, ih (k + 1)]
    rcases Nat.lt_trichotomy k i with h | h | h
    · have h1 : k + 1 ≤ i := h
      have h2 : k ≤ i := Nat.le_of_lt h
      have h3 : i - k = (i - (k + 1)) + 1 := by omega
      rw [if_pos h1, if_pos h2, h3, List.getD_cons_succ, Function.update_of_ne (Nat.ne_of_lt h)]
      ring
    · subst h
      have h1 : ¬ (k + 1 ≤ k) := by omega
      rw [if_neg h1, if_pos (le_refl k), Nat.sub_self, List.getD_cons_zero, Function.update_self]
      ring
    · have h1 : ¬ (k + 1 ≤ i) := by omega
      have h2 : ¬ (k ≤ i) := by omega
      rw [if_neg h1, if_neg h2, Function.update_of_ne (Nat.ne_of_gt h)]
      ring

theorem linR_update (a : Exp) (i : Nat) (x : Nat → ℝ) (s : ℝ) :
    linR a (Function.update x i s) = ((a.getD i 0 : Rat) : ℝ) * (s - x i) + linR a x := by
  rw [linR_eq, linR_eq, linRFrom_update a 0 i x s, if_pos (Nat.zero_le i), Nat.sub_zero]

theorem linR_hasDerivAt (a : Exp) (i : Nat) (x : Nat → ℝ) :
    HasDerivAt (fun s : ℝ => linR a (Function.update x i s)) ((a.getD i 0 : Rat) : ℝ) (x i) := by
  have h : (fun s : ℝ => linR a (Function.update x i s)) =
      fun s => ((a.getD i 0 : Rat) : ℝ) * (s - x i) + linR a x := by
    funext s
    exact linR_update a i x s
  rw [h]
  have h1 : HasDerivAt (fun s : ℝ => s - x i) 1 (x i) := (hasDerivAt_id (x i)).sub_const (x i)
  have h2 := (h1.const_mul ((a.getD i 0 : Rat) : ℝ)).add_const (linR a x)
  rw [mul_one] at h2
  exact h2

theorem term_hasDerivAt (c : Rat) (a : Exp) (i : Nat) (x : Nat → ℝ) :
    HasDerivAt (fun s : ℝ => (c : ℝ) * Real.exp (linR a (Function.update x i s)))
      ((c : ℝ) * (Real.exp (linR a x) * ((a.getD i 0 : Rat) : ℝ))) (x i) := by
  have h1 := (linR_hasDerivAt a i x).exp
  rw [Function.update_eq_self] at h1
  exact h1.const_mul (c : ℝ)

theorem termsR_nil (x : Nat → ℝ) : termsR [] x = 0 := by simp [termsR]

theorem termsR_cons (t : Exp × Rat) (ts : List (Exp × Rat)) (x : Nat → ℝ) :
    termsR (t :: ts) x = (t.2 : ℝ) * Real.exp (linR t.1 x) + termsR ts x := by
  simp [termsR]

theorem termsR_hasDerivAt (ts : List (Exp × Rat)) (i : Nat) (x : Nat → ℝ) :
    HasDerivAt (fun s : ℝ => termsR ts (Function.update x i s))
      ((ts.map fun t => (t.2 : ℝ) * (Real.exp (linR t.1 x) * ((t.1.getD i 0 : Rat) : ℝ))).sum) (x i) := by
  induction ts with
  | nil =>
    simp only [termsR_nil, List.map_nil, List.sum_nil]
    exact hasDerivAt_const (x i) (0 : ℝ)
  | cons t ts ih =>
    simp only [termsR_cons, List.map_cons, List.sum_cons]
    exact (term_hasDerivAt t.2 t.1 i x).add ih

theorem termsR_pSigTerms (ts : List (Exp × Rat)) (i : Nat) (x : Nat → ℝ) :
    termsR (pSigTerms ts i) x =
      (ts.map fun t => (t.2 : ℝ) * (Real.exp (linR t.1 x) * ((t.1.getD i 0 : Rat) : ℝ))).sum := by
  induction ts with
  | nil => simp [pSigTerms_nil, termsR_nil]
  | cons t ts ih =>
    rw [pSigTerms_cons, List.map_cons, List.sum_cons]
    by_cases h : t.2 * t.1.getD i 0 = 0
    · rw [if_pos h, ih]
      have h' : (t.2 : ℝ) * ((t.1.getD i 0 : Rat) : ℝ) = 0 := by
        rw [← Rat.cast_mul, h, Rat.cast_zero]
      have : (t.2 : ℝ) * (Real.exp (linR t.1 x) * ((t.1.getD i 0 : Rat) : ℝ)) =
          ((t.2 : ℝ) * ((t.1.getD i 0 : Rat) : ℝ)) * Real.exp (linR t.1 x) := by ring
      rw [this, h']
      ring
    · rw [if_neg h, termsR_cons, ih]
      simp only [Rat.cast_mul]
      ring

theorem termsR_partialSig (f : SigT Rat) (hf : Wf f) (i : Nat) (x : Nat → ℝ) :
    termsR (partialSig f i).terms x =
      (f.terms.map fun t => (t.2 : ℝ) * (Real.exp (linR t.1 x) * ((t.1.getD i 0 : Rat) : ℝ))).sum := by
  rw [← termsR_pSigTerms, partialSig_terms f hf]
  by_cases h : (pSigTerms f.terms i).isEmpty = true
  · rw [if_pos h, List.isEmpty_iff.1 h, termsR_cons, termsR_nil]
    simp
  · rw [if_neg h]

theorem sig_hasDerivAt' (f : SigT Rat) (hf : Wf f) (i : Nat) (x : Nat → ℝ) :
    HasDerivAt (fun s : ℝ => termsR f.terms (Function.update x i s)) (termsR (partialSig f i).terms x) (x i) := by
  rw [termsR_partialSig f hf]
  exact termsR_hasDerivAt f.terms i x

end Sageopt.Sig
