/-
C19 helper lemmas, dual cone: the compact and the epigraph form of `dualRows` describe the same set of
`(v, μ)`; the epigraph variables are determined as `epi_ik = (α_i − α_{cov k})·μ_i`.
-/
import SageoptModel.Lemmas.OptDualSem

namespace Sageopt.Sage
open Sageopt Sageopt.Compile Sageopt.Solvers Sageopt.Analysis

def opt_withCompact (inp : DualIn) (b : Bool) : DualIn :=
  { inp with settings := { inp.settings with compactDual := b } }

/-- the semantic content of the epigraph form, spelled out over `inp` -/
theorem opt_dualSem_epi (Q : CType → List ℝ → Prop) (inp : DualIn) (σ : Nat → ℝ) :
    opt_DualSem Q (opt_withCompact inp false) σ ↔
      (if inp.alpha.length ≤ 1 then ∀ vj ∈ inp.v, 0 ≤ argVal σ vj
       else (∀ i ∈ sd_nontriv inp, 0 ≤ argVal σ (inp.v.getD i (constE 0))) ∧
         ∀ p ∈ inp.ids, trueIdx (coverOf inp.ech p.i) ≠ [] →
           opt_RelE inp σ p ∧
           ∀ X, inp.X = some X → FeasBlocks (conP Q) X.K ((sd_domRows inp p X).map (crowVal σ))) := Iff.rfl

/-- the semantic content of the compact form, spelled out over `inp` -/
theorem opt_dualSem_compact (Q : CType → List ℝ → Prop) (inp : DualIn) (σ : Nat → ℝ) :
    opt_DualSem Q (opt_withCompact inp true) σ ↔
      (if inp.alpha.length ≤ 1 then ∀ vj ∈ inp.v, 0 ≤ argVal σ vj
       else (∀ i ∈ sd_nontriv inp, 0 ≤ argVal σ (inp.v.getD i (constE 0))) ∧
         ∀ p ∈ inp.ids, trueIdx (coverOf inp.ech p.i) ≠ [] →
           opt_RelC inp σ p ∧
           ∀ X, inp.X = some X → FeasBlocks (conP Q) X.K ((sd_domRows inp p X).map (crowVal σ))) := Iff.rfl

theorem opt_relC_of_relE (inp : DualIn) (σ : Nat → ℝ) (p : DIds) (h : opt_RelE inp σ p) : opt_RelC inp σ p := by
  intro jk hjk
  obtain ⟨h1, h2⟩ := h jk hjk
  exact opt_expcone_mono_first _ _ _ _ h1 (by linarith)

/-- epigraph ⇒ compact, semantically (same assignment) -/
theorem opt_dualSem_compact_of_epi (Q : CType → List ℝ → Prop) (inp : DualIn) (σ : Nat → ℝ)
    (h : opt_DualSem Q (opt_withCompact inp false) σ) : opt_DualSem Q (opt_withCompact inp true) σ := by
  rw [opt_dualSem_epi] at h
  rw [opt_dualSem_compact]
  by_cases hm : inp.alpha.length ≤ 1
  · rw [if_pos hm] at h ⊢; exact h
  · rw [if_neg hm] at h ⊢
    exact ⟨h.1, fun p hp hc => ⟨opt_relC_of_relE inp σ p (h.2 p hp hc).1, (h.2 p hp hc).2⟩⟩

/-! ### the extension to the epigraph variables -/

/-- values given to the epigraph ids: `epi_i[k] ↦ (α_i − α_{cov k})·μ_i` -/
noncomputable def opt_epiAssoc (inp : DualIn) (σ : Nat → ℝ) : List (Nat × ℝ) :=
  inp.ids.flatMap fun p =>
    p.epi.zipIdx.map fun (idk : Nat × Nat) =>
      (idk.1, opt_lin inp σ p ((trueIdx (coverOf inp.ech p.i)).getD idk.2 0))

theorem opt_epiAssoc_keys (inp : DualIn) (σ : Nat → ℝ) :
    (opt_epiAssoc inp σ).map (·.1) = inp.ids.flatMap (·.epi) := by
  unfold opt_epiAssoc
  rw [List.map_flatMap]
  apply List.flatMap_congr
  intro p _
  rw [List.map_map]
  exact List.zipIdx_map_fst 0 p.epi

theorem opt_epiAssoc_mem (inp : DualIn) (σ : Nat → ℝ) (p : DIds) (hp : p ∈ inp.ids) (k : Nat)
    (hk : k < p.epi.length) :
    (p.epi.getD k 0, opt_lin inp σ p ((trueIdx (coverOf inp.ech p.i)).getD k 0)) ∈ opt_epiAssoc inp σ := by
  unfold opt_epiAssoc
  rw [List.mem_flatMap]
  refine ⟨p, hp, ?_⟩
  rw [List.mem_map]
  exact ⟨(p.epi.getD k 0, k), sd_mem_zipIdx_getD _ k hk, rfl⟩

theorem opt_flatMap_sublist {α β : Type} (l : List α) (f g : α → List β) (h : ∀ a ∈ l, (f a).Sublist (g a)) :
    (l.flatMap f).Sublist (l.flatMap g) := by
  induction l with
  | nil => simp
  | cons a l ih =>
    rw [List.flatMap_cons, List.flatMap_cons]
    exact List.Sublist.append (h a (List.mem_cons_self ..)) (ih (fun b hb => h b (List.mem_cons_of_mem _ hb)))

/-- in a duplicate-free `flatMap (f ++ g)` no `f`-entry is a `g`-entry (of the same or another element) -/
theorem opt_nodup_flatMap_append_disjoint {α β : Type} (l : List α) (f g : α → List β)
    (h : (l.flatMap fun p => f p ++ g p).Nodup) :
    ∀ p ∈ l, ∀ p' ∈ l, ∀ a ∈ f p, a ∉ g p' := by
  induction l with
  | nil => intro p hp; cases hp
  | cons x l ih =>
    rw [List.flatMap_cons, List.nodup_append] at h
    obtain ⟨h1, h2, h3⟩ := h
    intro p hp p' hp' a ha ha'
    rcases List.mem_cons.1 hp with hpx | hpl
    · rcases List.mem_cons.1 hp' with hpx' | hpl'
      · subst hpx; subst hpx'
        rw [List.nodup_append] at h1
        exact h1.2.2 a ha a ha' rfl
      · subst hpx
        exact h3 a (List.mem_append_left _ ha) a
          (List.mem_flatMap.2 ⟨p', hpl', List.mem_append_right _ ha'⟩) rfl
    · rcases List.mem_cons.1 hp' with hpx' | hpl'
      · subst hpx'
        exact h3 a (List.mem_append_right _ ha') a
          (List.mem_flatMap.2 ⟨p, hpl, List.mem_append_left _ ha⟩) rfl
      · exact ih h2 p hpl p' hpl' a ha ha'

/-- compact ⇒ epigraph, semantically: the extension `epi_ik := (α_i − α_{cov k})·μ_i` -/
theorem opt_dualSem_epi_of_compact (Q : CType → List ℝ → Prop) (inp : DualIn)
    (hvlen : inp.v.length = inp.alpha.length)
    (hcover : ∀ p ∈ inp.ids, (coverOf inp.ech p.i).length = inp.alpha.length ∧ p.i < inp.alpha.length)
    (hsize : ∀ p ∈ inp.ids, p.epi.length = (trueIdx (coverOf inp.ech p.i)).length)
    (hnd : (inp.ids.flatMap fun p => p.mu ++ p.epi).Nodup)
    (hfv : ∀ id ∈ (inp.ids.flatMap fun p => p.mu ++ p.epi), ∀ vj ∈ inp.v, id ∉ vj.co.map (·.1))
    (σ : Nat → ℝ) (h : opt_DualSem Q (opt_withCompact inp true) σ) :
    (∀ id, id ∉ inp.ids.flatMap (·.epi) → sd_ext (opt_epiAssoc inp σ) σ id = σ id) ∧
    opt_DualSem Q (opt_withCompact inp false) (sd_ext (opt_epiAssoc inp σ) σ) := by
  have hkeysnd : ((opt_epiAssoc inp σ).map (·.1)).Nodup := by
    rw [opt_epiAssoc_keys]
    exact List.Nodup.sublist
      (opt_flatMap_sublist inp.ids (·.epi) (fun p => p.mu ++ p.epi) (fun p _ => List.sublist_append_right _ _)) hnd
  have hoff : ∀ id, id ∉ inp.ids.flatMap (·.epi) → sd_ext (opt_epiAssoc inp σ) σ id = σ id := by
    intro id hid
    apply sd_ext_not_mem
    rw [opt_epiAssoc_keys]
    exact hid
  have hsub : ∀ id ∈ inp.ids.flatMap (·.epi), id ∈ inp.ids.flatMap fun p => p.mu ++ p.epi := by
    intro id hid
    obtain ⟨p, hp, hin⟩ := List.mem_flatMap.1 hid
    exact List.mem_flatMap.2 ⟨p, hp, List.mem_append_right _ hin⟩
  -- `v` is untouched
  have hv : ∀ i, argVal (sd_ext (opt_epiAssoc inp σ) σ) (inp.v.getD i (constE 0))
      = argVal σ (inp.v.getD i (constE 0)) := by
    intro i
    apply sd_argVal_congr
    intro id hid
    apply hoff
    intro hmem
    by_cases hi : i < inp.v.length
    · exact hfv id (hsub id hmem) _ (sd_getD_mem inp.v i _ hi) hid
    · have : inp.v.getD i (constE 0) = constE 0 := by
        simp [List.getD, List.getElem?_eq_none (show inp.v.length ≤ i by omega)]
      rw [this] at hid
      simp [constE] at hid
  have hv' : ∀ vj ∈ inp.v, argVal (sd_ext (opt_epiAssoc inp σ) σ) vj = argVal σ vj := by
    intro vj hvj
    apply sd_argVal_congr
    intro id hid
    apply hoff
    intro hmem
    exact hfv id (hsub id hmem) vj hvj hid
  -- `μ` is untouched
  have hmu : ∀ p ∈ inp.ids, ∀ id ∈ p.mu, sd_ext (opt_epiAssoc inp σ) σ id = σ id := by
    intro p hp id hid
    apply hoff
    intro hmem
    obtain ⟨p', hp', hin⟩ := List.mem_flatMap.1 hmem
    exact opt_nodup_flatMap_append_disjoint inp.ids (·.mu) (·.epi) hnd p hp p' hp' id hid hin
  have hlin : ∀ p ∈ inp.ids, ∀ j, opt_lin inp (sd_ext (opt_epiAssoc inp σ) σ) p j = opt_lin inp σ p j := by
    intro p hp j
    unfold opt_lin
    congr 1
    apply List.map_congr_left
    intro id hid
    exact hmu p hp id (List.mem_of_mem_take hid)
  -- the epigraph variables take the values of the linear forms
  have hepi : ∀ p ∈ inp.ids, ∀ jk ∈ (trueIdx (coverOf inp.ech p.i)).zipIdx,
      sd_ext (opt_epiAssoc inp σ) σ (p.epi.getD jk.2 0) = opt_lin inp σ p jk.1 := by
    rintro p hp ⟨j, k⟩ hjk
    obtain ⟨_, hk, hget⟩ := sd_fst_mem_of_mem_zipIdx _ j k 0 hjk
    have := sd_ext_mem _ σ hkeysnd _ _ (opt_epiAssoc_mem inp σ p hp k (by rw [hsize p hp]; exact hk))
    rw [this, hget]
  refine ⟨hoff, ?_⟩
  rw [opt_dualSem_compact] at h
  rw [opt_dualSem_epi]
  by_cases hm : inp.alpha.length ≤ 1
  · rw [if_pos hm] at h ⊢
    intro vj hvj
    rw [hv' vj hvj]
    exact h vj hvj
  · rw [if_neg hm] at h ⊢
    refine ⟨fun i hi => by rw [hv i]; exact h.1 i hi, fun p hp hc => ⟨?_, ?_⟩⟩
    · intro jk hjk
      rw [hepi p hp jk hjk, hv, hv, hlin p hp]
      exact ⟨(h.2 p hp hc).1 jk hjk, by simp⟩
    · intro X hX
      have : (sd_domRows inp p X).map (crowVal (sd_ext (opt_epiAssoc inp σ) σ))
          = (sd_domRows inp p X).map (crowVal σ) := by
        apply List.map_congr_left
        intro r hr
        apply opt_crowVal_congr
        intro e he
        unfold sd_domRows at hr
        rw [List.mem_map] at hr
        obtain ⟨⟨arow, br⟩, _, rfl⟩ := hr
        simp only at he
        rcases List.mem_append.1 he with he | he
        · rw [List.mem_map] at he
          obtain ⟨⟨q, id⟩, hz, rfl⟩ := he
          exact hmu p hp id (List.of_mem_zip hz).2
        · rw [List.mem_map] at he
          obtain ⟨pc, hpc, rfl⟩ := he
          apply hoff
          intro hmem
          have hpi : p.i < inp.v.length := by rw [hvlen]; exact (hcover p hp).2
          exact hfv pc.1 (hsub pc.1 hmem) _ (sd_getD_mem inp.v p.i _ hpi) (List.mem_map.2 ⟨pc, hpc, rfl⟩)
      rw [this]
      exact (h.2 p hp hc).2 X hX

end Sageopt.Sage
