/-
Helper lemmas for C20: parent links under unpickling (`relink` as a fold of `relinkStep`).  Core Lean only.
-/
import SageoptModel.Model.Vars

namespace Sageopt.Vars

/-- one scalar variable is claimed by object `k` -/
def claim (k : Nat) (l : List (Nat × Nat)) (id : Nat) : List (Nat × Nat) :=
  (id, k) :: l.filter (·.1 != id)

/-- one `__setstate__` call -/
def relinkStep (objs : List VarObj) (links : List (Nat × Nat)) (k : Nat) : List (Nat × Nat) :=
  match objs[k]? with
  | none => links
  | some o => if o.proper then o.ids.foldl (claim k) links else links

theorem relink_eq_foldl (objs : List VarObj) (order : List Nat) :
    relink objs order = order.foldl (relinkStep objs) [] := rfl

theorem parentOf_claim_same (k : Nat) (l : List (Nat × Nat)) (id : Nat) :
    parentOf (claim k l id) id = some k := by
  simp [parentOf, claim]

theorem find?_filter_ne (l : List (Nat × Nat)) {id id' : Nat} (h : id' ≠ id) :
    (l.filter (·.1 != id')).find? (·.1 == id) = l.find? (·.1 == id) := by
  induction l with
  | nil => rfl
  | cons x xs ih =>
    obtain ⟨a, b⟩ := x
    by_cases hx : a = id
    · subst hx
      have hne : a ≠ id' := fun e => h e.symm
      simp [hne]
    · by_cases hx' : a = id'
      · subst hx'
        simp [hx, ih]
      · simp [hx, hx', ih]

theorem parentOf_claim_ne (k : Nat) (l : List (Nat × Nat)) {id id' : Nat} (h : id' ≠ id) :
    parentOf (claim k l id') id = parentOf l id := by
  unfold parentOf claim
  rw [List.find?_cons]
  have h2 : (((id', k) : Nat × Nat).1 == id) = false := by simpa using h
  rw [h2]
  simp only
  rw [find?_filter_ne l h]

theorem foldl_claim_notin (k : Nat) (ids : List Nat) (id : Nat) (h : id ∉ ids) :
    ∀ l, parentOf (ids.foldl (claim k) l) id = parentOf l id := by
  induction ids with
  | nil => intro l; rfl
  | cons x xs ih =>
    intro l
    have hx : x ≠ id := fun e => h (by simp [e])
    have hxs : id ∉ xs := fun e => h (by simp [e])
    rw [List.foldl_cons, ih hxs, parentOf_claim_ne k l hx]

theorem foldl_claim_keep (k : Nat) (ids : List Nat) (id : Nat) :
    ∀ l, parentOf l id = some k → parentOf (ids.foldl (claim k) l) id = some k := by
  induction ids with
  | nil => intro l hl; exact hl
  | cons x xs ih =>
    intro l hl
    rw [List.foldl_cons]
    apply ih
    by_cases hx : x = id
    · subst hx; exact parentOf_claim_same k l x
    · rw [parentOf_claim_ne k l hx]; exact hl

theorem foldl_claim_mem (k : Nat) (ids : List Nat) (id : Nat) (h : id ∈ ids) :
    ∀ l, parentOf (ids.foldl (claim k) l) id = some k := by
  induction ids with
  | nil => exact absurd h (by simp)
  | cons x xs ih =>
    intro l
    rw [List.foldl_cons]
    by_cases hx : x = id
    · subst hx
      exact foldl_claim_keep k xs x _ (parentOf_claim_same k l x)
    · rcases List.mem_cons.mp h with e | hm
      · exact absurd e.symm hx
      · exact ih hm _

theorem relinkStep_establish (objs : List VarObj) (p : Nat) (o : VarObj) (hp : objs[p]? = some o)
    (hprop : o.proper = true) (id : Nat) (hid : id ∈ o.ids) (links : List (Nat × Nat)) :
    parentOf (relinkStep objs links p) id = some p := by
  unfold relinkStep
  rw [hp]
  simp only [hprop, if_true]
  exact foldl_claim_mem p o.ids id hid links

theorem relinkStep_keep (objs : List VarObj) (p : Nat) (id : Nat)
    (huniq : ∀ q o', objs[q]? = some o' → o'.proper = true → id ∈ o'.ids → q = p)
    (links : List (Nat × Nat)) (k : Nat) (h : parentOf links id = some p) :
    parentOf (relinkStep objs links k) id = some p := by
  unfold relinkStep
  cases hk : objs[k]? with
  | none => exact h
  | some o' =>
    simp only
    by_cases hpr : o'.proper = true
    · simp only [hpr, if_true]
      by_cases hm : id ∈ o'.ids
      · have : k = p := huniq k o' hk hpr hm
        subst this
        exact foldl_claim_mem k o'.ids id hm links
      · rw [foldl_claim_notin k o'.ids id hm links]; exact h
    · simp only [hpr]
      exact h

theorem foldl_relinkStep_keep (objs : List VarObj) (p : Nat) (id : Nat)
    (huniq : ∀ q o', objs[q]? = some o' → o'.proper = true → id ∈ o'.ids → q = p) (order : List Nat) :
    ∀ links, parentOf links id = some p → parentOf (order.foldl (relinkStep objs) links) id = some p := by
  induction order with
  | nil => intro links h; exact h
  | cons k ks ih =>
    intro links h
    rw [List.foldl_cons]
    exact ih _ (relinkStep_keep objs p id huniq links k h)

theorem foldl_relinkStep_establish (objs : List VarObj) (p : Nat) (o : VarObj) (hp : objs[p]? = some o)
    (hprop : o.proper = true) (id : Nat) (hid : id ∈ o.ids)
    (huniq : ∀ q o', objs[q]? = some o' → o'.proper = true → id ∈ o'.ids → q = p)
    (order : List Nat) (hmem : p ∈ order) :
    ∀ links, parentOf (order.foldl (relinkStep objs) links) id = some p := by
  induction order with
  | nil => exact absurd hmem (by simp)
  | cons k ks ih =>
    intro links
    rw [List.foldl_cons]
    by_cases hk : k = p
    · subst hk
      exact foldl_relinkStep_keep objs k id huniq ks _
        (relinkStep_establish objs k o hp hprop id hid links)
    · rcases List.mem_cons.mp hmem with e | hm
      · exact absurd e.symm hk
      · exact ih hm _

end Sageopt.Vars
