/-
A non-trivial `Rat`-valued character on grid rows: `a ↦ ∏ⱼ c ^ (aⱼ · 10⁷)` (integer powers).
Shows that `scGridChar` (the hypothesis of `sc_mra_identity_grid`) is satisfiable non-trivially.
-/
import SageoptModel.Lemmas.SymCorrMra
import Mathlib.Algebra.GroupWithZero.Basic
import Mathlib.Algebra.Group.Basic

namespace Sageopt.SymCorr
open Sageopt.Sig

/-- `x^a` for `x_j = c^(10^7)`, i.e. `∏ⱼ c ^ (aⱼ·10⁷)`; only meaningful on grid rows -/
def scPowChar (c : Rat) (a : Exp) : Rat := (a.map fun q => c ^ (q * scD).floor).prod

theorem sc_floor_add_grid {p q : Rat} (hp : round7 p = p) (hq : round7 q = q) :
    ((p + q) * scD).floor = (p * scD).floor + (q * scD).floor := by
  obtain ⟨k, rfl⟩ := sc_grid_int hp
  obtain ⟨l, rfl⟩ := sc_grid_int hq
  have h1 : ((k : Rat) / scD + (l : Rat) / scD) * scD = ((k + l : Int) : Rat) := by
    rw [add_mul, div_mul_cancel₀ _ sc_D_ne, div_mul_cancel₀ _ sc_D_ne]; push_cast; rfl
  rw [h1, div_mul_cancel₀ _ sc_D_ne, div_mul_cancel₀ _ sc_D_ne]
  simp only [Rat.floor_intCast]

theorem sc_powChar_gridChar (n : Nat) (c : Rat) (hc : c ≠ 0) : scGridChar n (scPowChar c) := by
  intro a b ha hb hla hlb
  have hl : a.length = b.length := hla.trans hlb.symm
  clear hla hlb
  unfold scPowChar addExp
  induction a generalizing b with
  | nil => cases b with
    | nil => simp
    | cons _ _ => simp at hl
  | cons x xs ih =>
    cases b with
    | nil => simp at hl
    | cons y ys =>
      simp only [List.zipWith_cons_cons, List.map_cons, List.prod_cons]
      rw [ih ys (fun q hq => ha q (by simp [hq])) (fun q hq => hb q (by simp [hq])) (by simpa using hl)]
      rw [sc_floor_add_grid (ha x (by simp)) (hb y (by simp)), zpow_add₀ hc]
      ring

end Sageopt.SymCorr
