/-
C19 helper lemmas, kernel-basis pruning: `kernelPrune` only empties covers whose kernel is trivial.
-/
import SageoptModel.Model.SageKernel
import Mathlib.Data.List.Nodup

namespace Sageopt.Sage
open Sageopt

theorem opt_eq_of_fst_eq {α β : Type} (l : List (α × β)) (hnd : (l.map (·.1)).Nodup) (a b : α × β)
    (ha : a ∈ l) (hb : b ∈ l) (h : a.1 = b.1) : a = b :=
  List.inj_on_of_nodup_map hnd ha hb h

/-- the map applied to the covers by `kernelPrune` -/
def opt_pruneF (n : Nat) (alpha : List (List Rat)) : Nat × List Bool → Nat × List Bool := fun (i, cov) =>
  if cov.any id && kernelTrivial n alpha i cov then (i, cov.map fun _ => false) else (i, cov)

theorem opt_pruneF_fst (n : Nat) (alpha : List (List Rat)) (q : Nat × List Bool) :
    (opt_pruneF n alpha q).1 = q.1 := by
  obtain ⟨i, cov⟩ := q
  unfold opt_pruneF
  simp only
  split <;> rfl

theorem opt_pruneF_snd (n : Nat) (alpha : List (List Rat)) (q : Nat × List Bool) :
    (opt_pruneF n alpha q).2 = q.2 ∨
      (kernelTrivial n alpha q.1 q.2 = true ∧ (opt_pruneF n alpha q).2 = q.2.map fun _ => false) := by
  obtain ⟨i, cov⟩ := q
  unfold opt_pruneF
  simp only
  split
  · rename_i h
    rw [Bool.and_eq_true] at h
    exact Or.inr ⟨h.2, rfl⟩
  · exact Or.inl rfl

theorem opt_kernelPrune_on (n : Nat) (alpha : List (List Rat)) (hasX : Bool) (s : Settings) (e : Ech)
    (h : (s.kernelBasis && !hasX) = true) :
    kernelPrune n alpha hasX s e = { e with covers := e.covers.map (opt_pruneF n alpha) } := by
  unfold kernelPrune
  rw [if_pos h]
  rfl

theorem opt_kernelPrune_off (n : Nat) (alpha : List (List Rat)) (hasX : Bool) (s : Settings) (e : Ech)
    (h : ¬ (s.kernelBasis && !hasX) = true) : kernelPrune n alpha hasX s e = e := by
  unfold kernelPrune
  rw [if_neg h]

theorem opt_kernelPrune_spec (n : Nat) (alpha : List (List Rat)) (hasX : Bool) (s : Settings) (e : Ech)
    (hnd : (e.covers.map (·.1)).Nodup) :
    (kernelPrune n alpha hasX s e).U = e.U ∧ (kernelPrune n alpha hasX s e).N = e.N ∧
    (kernelPrune n alpha hasX s e).P = e.P ∧
    (kernelPrune n alpha hasX s e).covers.map (·.1) = e.covers.map (·.1) ∧
    ∀ p ∈ e.covers, ∀ p' ∈ (kernelPrune n alpha hasX s e).covers, p'.1 = p.1 →
      p'.2 = p.2 ∨ (s.kernelBasis = true ∧ hasX = false ∧ kernelTrivial n alpha p.1 p.2 = true ∧
        p'.2 = p.2.map fun _ => false) := by
  by_cases h : (s.kernelBasis && !hasX) = true
  · rw [opt_kernelPrune_on n alpha hasX s e h]
    refine ⟨rfl, rfl, rfl, ?_, ?_⟩
    · show (e.covers.map (opt_pruneF n alpha)).map (·.1) = _
      rw [List.map_map]
      apply List.map_congr_left
      intro q _
      exact opt_pruneF_fst n alpha q
    · intro p hp p' hp' hfst
      have hp'' : p' ∈ e.covers.map (opt_pruneF n alpha) := hp'
      rw [List.mem_map] at hp''
      obtain ⟨q, hq, rfl⟩ := hp''
      rw [opt_pruneF_fst] at hfst
      have : q = p := opt_eq_of_fst_eq e.covers hnd q p hq hp hfst
      subst this
      rw [Bool.and_eq_true] at h
      rcases opt_pruneF_snd n alpha q with h1 | ⟨h1, h2⟩
      · exact Or.inl h1
      · exact Or.inr ⟨h.1, by simpa using h.2, h1, h2⟩
  · rw [opt_kernelPrune_off n alpha hasX s e h]
    refine ⟨rfl, rfl, rfl, rfl, ?_⟩
    intro p hp p' hp' hfst
    rw [opt_eq_of_fst_eq e.covers hnd p' p hp' hp hfst]
    exact Or.inl rfl

end Sageopt.Sage
