/-
The abstract cone semantics of C10 instantiated over ℝ: second-order cone, exponential cone and its
dual, and the pairing inequalities needed by `weak_duality`.
-/
import SageoptModel.Lemmas.ExpCone
import SageoptModel.Lemmas.SolversDual
import Mathlib.Algebra.QuadraticDiscriminant
import Mathlib.Algebra.Order.Ring.Abs
import Mathlib.Tactic.Positivity

namespace Sageopt.Solvers
open Sageopt Sageopt.Analysis

/-- second-order cone `{(t, x) : ‖x‖₂ ≤ t}` (coniclifts `'S'`: first entry is the epigraph variable) -/
def socR : List ℝ → Prop
  | [] => True
  | t :: x => 0 ≤ t ∧ (x.map (· ^ 2)).sum ≤ t ^ 2

/-- exponential cone (coniclifts `'e'`) -/
def expR : List ℝ → Prop
  | [x, y, z] => InExpCone x y z
  | _ => False

/-- dual exponential cone (coniclifts `'de'`) -/
def dexpR : List ℝ → Prop
  | [u, v, w] => InExpDual u v w
  | _ => False

/-- the cones over ℝ by tag; `pow` and `psd` are not modelled -/
def realP : CType → List ℝ → Prop
  | .zero, v => ∀ a ∈ v, a = 0
  | .pos, v => ∀ a ∈ v, 0 ≤ a
  | .free, _ => True
  | .soc, v => socR v
  | .exp, v => expR v
  | .dexp, v => dexpR v
  | .pow, _ => False
  | .psd, _ => False

/-- semantics of the primal cones over ℝ -/
def primalSemR : ConeSem ℝ where
  P := realP
  zero_iff _ := Iff.rfl
  pos_iff _ := Iff.rfl
  free_iff _ := Iff.rfl

/-- semantics of the dual cones over ℝ (tags `fr`, `+`, `S`, `de` as produced by `dualCone`) -/
def dualSemR : ConeSem ℝ where
  P := realP
  zero_iff _ := Iff.rfl
  pos_iff _ := Iff.rfl
  free_iff _ := Iff.rfl

/-! ### Cauchy–Schwarz on lists (any linearly ordered field, so that it also runs at ℚ) -/

section Field
variable {F : Type} [Field F] [LinearOrder F] [IsStrictOrderedRing F]

theorem sumsq_nonneg (x : List F) : 0 ≤ (x.map (· ^ 2)).sum := by
  induction x with
  | nil => simp
  | cons a x ih => simp only [List.map_cons, List.sum_cons]; positivity

theorem quad_nonneg (x z : List F) (l m : F) :
    0 ≤ l ^ 2 * (x.map (· ^ 2)).sum + 2 * l * m * dot x z + m ^ 2 * (z.map (· ^ 2)).sum := by
  induction x generalizing z with
  | nil =>
    have := sumsq_nonneg z
    simp only [List.map_nil, List.sum_nil, dot_nil_left]
    nlinarith [sq_nonneg m]
  | cons a x ih =>
    cases z with
    | nil =>
      have := sumsq_nonneg (a :: x)
      simp only [List.map_nil, List.sum_nil, dot_nil_right]
      nlinarith [sq_nonneg l]
    | cons b z =>
      have := ih z
      simp only [List.map_cons, List.sum_cons, dot_cons_cons]
      nlinarith [sq_nonneg (l * a + m * b)]

theorem dot_sq_le (x z : List F) :
    (dot x z) ^ 2 ≤ (x.map (· ^ 2)).sum * (z.map (· ^ 2)).sum := by
  have h := discrim_le_zero (a := (x.map (· ^ 2)).sum) (b := 2 * dot x z)
    (c := (z.map (· ^ 2)).sum) (by
      intro l
      have := quad_nonneg x z l 1
      nlinarith)
  unfold discrim at h
  nlinarith

/-- `‖x‖ ≤ t`, `‖z‖ ≤ u` ⇒ `0 ≤ t u + x·z` -/
theorem soc_pairing_core (t u : F) (x z : List F) (ht : 0 ≤ t) (hu : 0 ≤ u)
    (hx : (x.map (· ^ 2)).sum ≤ t ^ 2) (hz : (z.map (· ^ 2)).sum ≤ u ^ 2) :
    0 ≤ t * u + dot x z := by
  have hcs := dot_sq_le x z
  have hxz : (x.map (· ^ 2)).sum * (z.map (· ^ 2)).sum ≤ t ^ 2 * u ^ 2 :=
    mul_le_mul hx hz (sumsq_nonneg z) (by positivity)
  have hsq : (dot x z) ^ 2 ≤ (t * u) ^ 2 := by rw [mul_pow]; linarith
  have := (abs_le_of_sq_le_sq' hsq (mul_nonneg ht hu)).1
  linarith

end Field

/-! ### pairing inequalities -/

/-- the second-order cone is self-dual (the direction needed for weak duality) -/
theorem soc_pairing (s y : List ℝ) (hs : socR s) (hy : socR y) : 0 ≤ dot s y := by
  cases s with
  | nil => simp
  | cons t x =>
    cases y with
    | nil => simp
    | cons u z =>
      rw [dot_cons_cons]
      exact soc_pairing_core t u x z hs.1 hy.1 hs.2 hy.2

/-- exponential cone against its dual cone: immediate from the definition of `InExpDual` -/
theorem exp_pairing (s y : List ℝ) (hs : expR s) (hy : dexpR y) : 0 ≤ dot s y := by
  match s, hs with
  | [a, b, c], hs =>
    match y, hy with
    | [u, v, w], hy =>
      have := hy a b c hs
      simp only [dot_cons_cons, dot_nil_left]
      linarith

theorem zero_pairing {R : Type} [CommRing R] (s y : List R) (hs : ∀ a ∈ s, a = 0) :
    dot s y = 0 := by
  induction s generalizing y with
  | nil => simp
  | cons a s ih =>
    cases y with
    | nil => simp
    | cons b y =>
      simp [hs a (by simp), ih y (fun c hc => hs c (by simp [hc]))]

theorem pos_pairing {R : Type} [CommRing R] [LinearOrder R] [IsStrictOrderedRing R]
    (s y : List R) (hs : ∀ a ∈ s, 0 ≤ a) (hy : ∀ a ∈ y, 0 ≤ a) : 0 ≤ dot s y := by
  induction s generalizing y with
  | nil => simp
  | cons a s ih =>
    cases y with
    | nil => simp
    | cons b y =>
      have h1 := hs a (by simp)
      have h2 := hy b (by simp)
      have h3 := ih y (fun c hc => hs c (by simp [hc])) (fun c hc => hy c (by simp [hc]))
      rw [dot_cons_cons]
      have := mul_nonneg h1 h2
      linarith

/-- every cone over {0,+,S,e} pairs non-negatively with its dual cone -/
theorem real_pairing (co : Cone) (hco : co.type ∈ [CType.zero, .pos, .soc, .exp]) (s y : List ℝ)
    (hs : primalSemR.P co.type s) (hy : dualSemR.P (dualCone co).type y) : 0 ≤ dot s y := by
  obtain ⟨ty, len⟩ := co
  simp only [List.mem_cons, List.not_mem_nil, or_false] at hco
  rcases hco with rfl | rfl | rfl | rfl
  · exact le_of_eq (zero_pairing s y hs).symm
  · exact pos_pairing s y hs hy
  · exact soc_pairing s y hs hy
  · exact exp_pairing s y hs hy

end Sageopt.Solvers
