/-
Lemmas for the MOSEK dual form (C10, T5).
-/
import SageoptModel.Lemmas.SolversMosekP

namespace Sageopt.Solvers
open Sageopt

set_option linter.unusedSectionVars false

variable {R : Type} {α : Type}

/-! ### selectors of the dual cone list -/

/-- `K` only has cones over {0,+,S,e} and exponential cones have length 3 -/
def DualOK (K : List Cone) : Prop :=
  (∀ co ∈ K, co.type ∈ [CType.zero, .pos, .soc, .exp]) ∧ (∀ co ∈ K, co.type = .exp → co.len = 3)

theorem DualOK.tail {co : Cone} {K : List Cone} (h : DualOK (co :: K)) : DualOK K :=
  ⟨fun c hc => h.1 c (by simp [hc]), fun c hc => h.2 c (by simp [hc])⟩

/-- type of the dual cone -/
def dualType : CType → CType
  | .exp => .dexp
  | .zero => .free
  | t => t

theorem selector_dual (K : List Cone) (hK : DualOK K) (t : CType)
    (ht : t ∈ [CType.zero, .pos, .soc, .exp]) :
    selector (K.map dualCone) (dualType t) = selector K t := by
  induction K with
  | nil => rfl
  | cons co K ih =>
    rw [List.map_cons, selector_cons, selector_cons, ih hK.tail]
    congr 1
    have h1 := hK.1 co (by simp)
    have h2 := hK.2 co (by simp)
    obtain ⟨ty, len⟩ := co
    simp only at h1 h2
    simp only [List.mem_cons, List.not_mem_nil, or_false] at h1 ht
    rcases h1 with rfl | rfl | rfl | rfl <;> rcases ht with rfl | rfl | rfl | rfl <;>
      simp_all [dualCone, dualType]

theorem dual_types (K : List Cone) (hK : DualOK K) :
    ∀ co ∈ K.map dualCone, co.type ∈ [CType.free, .pos, .soc, .dexp] ∧
      (co.type = .dexp → co = ⟨.dexp, 3⟩) := by
  intro co hco
  rw [List.mem_map] at hco
  obtain ⟨c, hc, rfl⟩ := hco
  have h1 := hK.1 c hc
  obtain ⟨ty, len⟩ := c
  simp only [List.mem_cons, List.not_mem_nil, or_false] at h1
  rcases h1 with rfl | rfl | rfl | rfl <;> simp [dualCone]

/-! ### regrouping preserves dot products -/

/-- the blocks of `y` by type in the order +, S, e, 0 -/
def regroupBy (K : List Cone) (y : List α) : List α :=
  selectBy (selector K .pos) y ++ selectBy (selector K .soc) y ++ selectBy (selector K .exp) y
    ++ selectBy (selector K .zero) y

section
variable [CommRing R]

theorem dot_four (K : List Cone) (hK : ∀ co ∈ K, co.type ∈ [CType.zero, .pos, .soc, .exp])
    (a y : Vec R) (ha : a.length = totalLen K) (hy : y.length = totalLen K) :
    dot (selectBy (selector K .pos) a) (selectBy (selector K .pos) y)
      + dot (selectBy (selector K .soc) a) (selectBy (selector K .soc) y)
      + dot (selectBy (selector K .exp) a) (selectBy (selector K .exp) y)
      + dot (selectBy (selector K .zero) a) (selectBy (selector K .zero) y) = dot a y := by
  induction K generalizing a y with
  | nil =>
    have : a = [] := by simpa using ha
    simp [this]
  | cons co K ih =>
    simp only [totalLen_cons] at ha hy
    have hla : co.len ≤ a.length := by omega
    have hly : co.len ≤ y.length := by omega
    have htk : (a.take co.len).length = (y.take co.len).length := by simp; omega
    have ih' := ih (fun c hc => hK c (by simp [hc])) (a.drop co.len) (y.drop co.len)
      (by simp; omega) (by simp; omega)
    have h1 := hK co (by simp)
    simp only [List.mem_cons, List.not_mem_nil, or_false] at h1
    simp only [selectBy_selector_cons co K _ a hla, selectBy_selector_cons co K _ y hly]
    rw [dot_take_drop co.len a y, ← ih']
    rcases h1 with h | h | h | h <;> simp [h, dot_append _ _ _ _ htk] <;> ring

theorem dot_regroup (K : List Cone) (hK : ∀ co ∈ K, co.type ∈ [CType.zero, .pos, .soc, .exp])
    (a y : Vec R) (ha : a.length = totalLen K) (hy : y.length = totalLen K) :
    dot (regroupBy K a) (regroupBy K y) = dot a y := by
  have hl : ∀ t, (selectBy (selector K t) a).length = (selectBy (selector K t) y).length := by
    intro t
    rw [length_selectBy _ _ (by rw [length_selector, ha]),
      length_selectBy _ _ (by rw [length_selector, hy])]
  unfold regroupBy
  rw [dot_append _ _ _ _ (by simp [hl]), dot_append _ _ _ _ (by simp [hl]),
    dot_append _ _ _ _ (hl _), dot_four K hK a y ha hy]

end

/-! ### the task matrix -/

theorem range_map_getD' (n : Nat) (l : List α) (d : α) (h : l.length = n) :
    (List.range n).map (fun i => l.getD i d) = l := by
  apply List.ext_getElem
  · simp [h]
  · intro i h1 h2
    simp [List.getElem?_eq_getElem h2]

theorem hcat_four (m1 m2 m3 m4 : List Bool) (G : Mat R) (n : Nat) (hG : G.length = n) :
    hcat [selectCols m1 G, selectCols m2 G, selectCols m3 G, selectCols m4 G] n
      = G.map (fun row => selectBy m1 row ++ selectBy m2 row ++ selectBy m3 row ++ selectBy m4 row) := by
  have hget : ∀ (m : List Bool) (i : Nat),
      (G.map (selectBy m)).getD i [] = selectBy m (G.getD i []) := by
    intro m i
    have := List.getD_map (l := G) (d := []) (n := i) (selectBy m)
    simpa using this
  unfold hcat selectCols
  simp only [List.flatMap_cons, List.flatMap_nil, List.append_nil, hget]
  conv => rhs; rw [← range_map_getD' n G [] hG]
  rw [List.map_map]
  apply List.map_congr_left
  intro i _
  simp

theorem dualApply_selectors (K : List Cone) (hK : DualOK K) :
    selector (K.map dualCone) .pos = selector K .pos ∧
    selector (K.map dualCone) .soc = selector K .soc ∧
    selector (K.map dualCone) .dexp = selector K .exp ∧
    selector (K.map dualCone) .free = selector K .zero :=
  ⟨selector_dual K hK .pos (by simp), selector_dual K hK .soc (by simp),
   selector_dual K hK .exp (by simp), selector_dual K hK .zero (by simp)⟩

section
variable [CommRing R]

theorem mosekDualApply_f (n : Nat) (c : Vec R) (A : Mat R) (b : Vec R) (K : List Cone)
    (hK : DualOK K) : (mosekDualApply n c A b K).f = regroupBy K (negVec b) := by
  obtain ⟨h1, h2, h3, h4⟩ := dualApply_selectors K hK
  show selectBy (selector (K.map dualCone) .pos) (negVec b) ++ _ ++ _ ++ _ = _
  simp only [dualize, h1, h2, h3, h4, regroupBy]

theorem mosekDualApply_G (n : Nat) (c : Vec R) (A : Mat R) (b : Vec R) (K : List Cone)
    (hK : DualOK K) :
    (mosekDualApply n c A b K).G = (transpose n A).map (regroupBy K) := by
  obtain ⟨h1, h2, h3, h4⟩ := dualApply_selectors K hK
  show hcat [selectCols (selector (K.map dualCone) .pos) (transpose n A), _, _, _] n = _
  simp only [dualize, h1, h2, h3, h4]
  rw [hcat_four _ _ _ _ _ n (by simp [transpose])]
  rfl

/-- the task matrix applied to the regrouped multiplier is `Aᵀ y` -/
theorem mulVec_regroup (n : Nat) (A : Mat R) (K : List Cone) (y : Vec R)
    (hK : DualOK K) (hA : A.length = totalLen K) (hy : y.length = totalLen K) :
    mulVec ((transpose n A).map (regroupBy K)) (regroupBy K y) = mulVec (transpose n A) y := by
  simp only [mulVec, List.map_map]
  apply List.map_congr_left
  intro row hrow
  simp only [Function.comp_def]
  apply dot_regroup K hK.1 row y _ hy
  simp only [transpose, List.mem_map, List.mem_range] at hrow
  obtain ⟨j, _, rfl⟩ := hrow
  simp [hA]

end

/-! ### the MOSEK cone lists of the dual task -/

def socConesRec : List Nat → Nat → List (MosekConeKind × List Nat)
  | [], _ => []
  | len :: ds, st => (MosekConeKind.quad, (List.range len).map (· + st)) :: socConesRec ds (st + len)

theorem socCones_foldl (dims : List Nat) (pre : List (MosekConeKind × List Nat)) (st : Nat) :
    (dims.foldl (fun (acc : List (MosekConeKind × List Nat) × Nat) len =>
      (acc.1 ++ [(MosekConeKind.quad, (List.range len).map (· + acc.2))], acc.2 + len)) (pre, st)).1
      = pre ++ socConesRec dims st := by
  induction dims generalizing pre st with
  | nil => simp [socConesRec]
  | cons len ds ih => simp [List.foldl_cons, ih, socConesRec]

def expConesRec : Nat → Nat → List (MosekConeKind × List Nat)
  | 0, _ => []
  | k + 1, st => (MosekConeKind.dexp, [st + 1, st + 2, st]) :: expConesRec k (st + 3)

theorem expCones_eq (k st : Nat) :
    (List.range k).map (fun i => (MosekConeKind.dexp, [st + 3 * i + 1, st + 3 * i + 2, st + 3 * i]))
      = expConesRec k st := by
  induction k generalizing st with
  | zero => rfl
  | succ k ih =>
    rw [List.range_succ_eq_map, List.map_cons, List.map_map, expConesRec, ← ih (st + 3)]
    congr 1
    apply List.map_congr_left
    intro i _
    simp only [Function.comp_def, Nat.succ_eq_add_one]
    have : st + 3 * (i + 1) = st + 3 + 3 * i := by omega
    rw [this]

theorem mosekDualTask_eq (d : MosekDualData R) :
    mosekDualTask d =
      { nvars := d.f.length
        varBounds := List.replicate d.nPos .lo ++ List.replicate (d.f.length - d.nPos) .fr
        cones := socConesRec d.socDims d.nPos ++ expConesRec d.nDexp (d.nPos + d.socDims.sum)
        ncons := d.G.length
        aij := d.G
        conBounds := d.h.map fun v => (BoundKey.fx, v)
        obj := d.f
        maximize := true } := by
  unfold mosekDualTask
  simp only [socCones_foldl, List.nil_append, expCones_eq]

section
variable [Zero R]

theorem vals_range (z : Vec R) (st len : Nat) (h : st + len ≤ z.length) :
    ((List.range len).map (· + st)).map (fun k => z.getD k 0) = (z.drop st).take len := by
  apply List.ext_getElem
  · simp; omega
  · intro i h1 h2
    simp at h1
    simp [List.getElem?_eq_getElem (show st + i < z.length by omega), Nat.add_comm]

theorem socCones_iff (P : CType → List R → Prop) (PM : MosekConeKind → List R → Prop)
    (hquad : ∀ v, PM .quad v ↔ P .soc v) (z : Vec R) (dims : List Nat) (st : Nat)
    (h : st + dims.sum ≤ z.length) :
    (∀ c ∈ socConesRec dims st, PM c.1 (c.2.map fun k => z.getD k 0)) ↔
      FeasBlocks P (dims.map fun k => ⟨.soc, k⟩) (z.drop st) := by
  induction dims generalizing st with
  | nil => simp [socConesRec]
  | cons len ds ih =>
    simp only [List.sum_cons] at h
    simp only [socConesRec, List.forall_mem_cons, List.map_cons, feasBlocks_cons,
      ih (st + len) (by omega), hquad, vals_range z st len (by omega), List.drop_drop]

theorem expCones_iff (P : CType → List R → Prop) (PM : MosekConeKind → List R → Prop)
    (hdexp : ∀ s1 s2 s3, PM .dexp [s1, s2, s3] ↔ P .dexp [s3, s1, s2]) (z : Vec R) (k st : Nat)
    (h : st + 3 * k ≤ z.length) :
    (∀ c ∈ expConesRec k st, PM c.1 (c.2.map fun k => z.getD k 0)) ↔
      FeasBlocks P (List.replicate k ⟨.dexp, 3⟩) (z.drop st) := by
  induction k generalizing st with
  | zero => simp [expConesRec]
  | succ k ih =>
    have hv := vals_range z st 3 (by omega)
    simp only [List.range_succ, List.range_zero, List.nil_append, List.map_cons,
      List.map_nil, List.cons_append, zero_add] at hv
    simp only [expConesRec, List.forall_mem_cons, List.replicate_succ, feasBlocks_cons,
      ih (st + 3) (by omega), List.drop_drop, List.map_cons, List.map_nil, hdexp, ← hv]
    simp [Nat.add_comm]

end

/-! ### bounds -/

theorem feasBlocks_append_left (P : CType → List R → Prop) (K : List Cone) (u v : List R)
    (h : totalLen K ≤ u.length) : FeasBlocks P K (u ++ v) ↔ FeasBlocks P K u := by
  induction K generalizing u with
  | nil => simp
  | cons co K ih =>
    simp only [totalLen_cons] at h
    rw [feasBlocks_cons, feasBlocks_cons, List.take_append_of_le_length (by omega),
      List.drop_append_of_le_length (by omega), ih _ (by simp; omega)]

section
variable [CommRing R] [LinearOrder R] [IsStrictOrderedRing R]

omit [IsStrictOrderedRing R] in
theorem loBounds_iff (k : Nat) (u : Vec R) (h : u.length ≤ k) :
    (∀ p ∈ (List.replicate k BoundKey.lo).zip u,
      (p.1 = .lo → 0 ≤ p.2) ∧ (p.1 = .fx → p.2 = 0) ∧ (p.1 = .up → p.2 ≤ 0)) ↔ ∀ a ∈ u, 0 ≤ a := by
  induction u generalizing k with
  | nil => simp
  | cons a u ih =>
    cases k with
    | zero => simp at h
    | succ k =>
      simp at h
      simp only [List.replicate_succ, List.zip_cons_cons, List.forall_mem_cons, ih k h]
      simp

omit [IsStrictOrderedRing R] in
theorem frBounds (k : Nat) (u : Vec R) :
    ∀ p ∈ (List.replicate k BoundKey.fr).zip u,
      (p.1 = .lo → 0 ≤ p.2) ∧ (p.1 = .fx → p.2 = 0) ∧ (p.1 = .up → p.2 ≤ 0) := by
  intro p hp
  have := (List.of_mem_zip hp).1
  rw [List.mem_replicate] at this
  simp [this.2]

omit [IsStrictOrderedRing R] in
theorem fxCons_iff (h v : Vec R) (hl : v.length = h.length) :
    (∀ p ∈ (h.map fun a => (BoundKey.fx, a)).zip v,
      (p.1.1 = .up → p.2 ≤ p.1.2) ∧ (p.1.1 = .fx → p.2 = p.1.2) ∧ (p.1.1 = .lo → p.1.2 ≤ p.2))
      ↔ v = h := by
  induction h generalizing v with
  | nil =>
    have : v = [] := by simpa using hl
    simp [this]
  | cons a h ih =>
    cases v with
    | nil => simp at hl
    | cons b v =>
      simp at hl
      simp only [List.map_cons, List.zip_cons_cons, List.forall_mem_cons, ih v hl]
      simp

omit [IsStrictOrderedRing R] in
/-- reading of a dual-form task on a vector that is already split into its four groups -/
theorem dualTask_feas_abstract (P : CType → List R → Prop) (PM : MosekConeKind → List R → Prop)
    (hquad : ∀ v, PM .quad v ↔ P .soc v)
    (hdexp : ∀ s1 s2 s3, PM .dexp [s1, s2, s3] ↔ P .dexp [s3, s1, s2])
    (zP zS zE zZ : Vec R) (dims : List Nat) (k : Nat)
    (hS : zS.length = dims.sum) (hE : zE.length = 3 * k)
    (G' : Mat R) (h f' : Vec R) (hf' : f'.length = (zP ++ zS ++ zE ++ zZ).length)
    (hG' : G'.length = h.length) :
    TaskFeas PM
      { nvars := f'.length
        varBounds := List.replicate zP.length .lo ++ List.replicate (f'.length - zP.length) .fr
        cones := socConesRec dims zP.length ++ expConesRec k (zP.length + dims.sum)
        ncons := G'.length
        aij := G'
        conBounds := h.map fun v => (BoundKey.fx, v)
        obj := f'
        maximize := true } (zP ++ zS ++ zE ++ zZ) ↔
      ((∀ a ∈ zP, 0 ≤ a) ∧ FeasBlocks P (dims.map fun k => ⟨.soc, k⟩) zS ∧
        FeasBlocks P (List.replicate k ⟨.dexp, 3⟩) zE ∧ mulVec G' (zP ++ zS ++ zE ++ zZ) = h) := by
  simp only [TaskFeas]
  have hvb : (∀ p ∈ (List.replicate zP.length BoundKey.lo ++
        List.replicate (f'.length - zP.length) BoundKey.fr).zip (zP ++ zS ++ zE ++ zZ),
      (p.1 = .lo → 0 ≤ p.2) ∧ (p.1 = .fx → p.2 = 0) ∧ (p.1 = .up → p.2 ≤ 0)) ↔ ∀ a ∈ zP, 0 ≤ a := by
    rw [List.append_assoc zP, List.append_assoc zP, List.zip_append (by simp),
      List.forall_mem_append, loBounds_iff _ _ (le_refl _)]
    exact and_iff_left (frBounds _ _)
  have hsoc : (∀ c ∈ socConesRec dims zP.length,
      PM c.1 (c.2.map fun k => (zP ++ zS ++ zE ++ zZ).getD k 0)) ↔
      FeasBlocks P (dims.map fun k => ⟨.soc, k⟩) zS := by
    rw [socCones_iff P PM hquad _ dims zP.length (by simp; omega),
      List.append_assoc zP, List.append_assoc zP, List.drop_left, List.append_assoc,
      feasBlocks_append_left _ _ _ _ (by simp [totalLen, Function.comp_def, hS])]
  have hexp : (∀ c ∈ expConesRec k (zP.length + dims.sum),
      PM c.1 (c.2.map fun k => (zP ++ zS ++ zE ++ zZ).getD k 0)) ↔
      FeasBlocks P (List.replicate k ⟨.dexp, 3⟩) zE := by
    have hl : (zP ++ zS).length = zP.length + dims.sum := by simp [hS]
    rw [expCones_iff P PM hdexp _ k _ (by simp; omega), ← hl, List.append_assoc (zP ++ zS),
      List.drop_left, feasBlocks_append_left _ _ _ _ (by simp [totalLen, hE]; omega)]
  rw [hvb, fxCons_iff _ _ (by rw [length_mulVec, hG']), List.forall_mem_append, hsoc, hexp]
  constructor
  · rintro ⟨_, h1, h2, h3, h4⟩; exact ⟨h1, h3, h4, h2⟩
  · rintro ⟨h1, h3, h4, h2⟩; exact ⟨hf'.symm, h1, h2, h3, h4⟩

/-! ### decomposition of the dual cone list and final assembly -/

theorem totalLen_dual (K : List Cone) (hK : DualOK K) : totalLen (K.map dualCone) = totalLen K := by
  induction K with
  | nil => rfl
  | cons co K ih =>
    simp [ih hK.tail, dualCone_len co (hK.2 co (by simp))]

theorem feasBlocks_dual (Sd : ConeSem R) (K : List Cone) (hK : DualOK K) (y : Vec R)
    (hy : y.length = totalLen K) :
    FeasBlocks Sd.P (K.map dualCone) y ↔
      (∀ a ∈ selectBy (selector K .pos) y, 0 ≤ a) ∧
      FeasBlocks Sd.P ((K.map dualCone).filter (·.type == .soc)) (selectBy (selector K .soc) y) ∧
      FeasBlocks Sd.P ((K.map dualCone).filter (·.type == .dexp)) (selectBy (selector K .exp) y) := by
  obtain ⟨h1, h2, h3, h4⟩ := dualApply_selectors K hK
  have hT := totalLen_dual K hK
  have hy' : y.length = totalLen (K.map dualCone) := by rw [hT, hy]
  rw [feasBlocks_by_type Sd.P _ y (by omega)]
  have hp := feasBlocks_entrywise Sd.P .pos (0 ≤ ·) Sd.pos_iff ((K.map dualCone).filter (·.type == .pos))
    (selectBy (selector (K.map dualCone) .pos) y) filter_type_mem
    (by rw [length_selectBy_selector _ _ y hy'])
  have hf := feasBlocks_entrywise Sd.P .free (fun _ => True) (by intro v; simp [Sd.free_iff])
    ((K.map dualCone).filter (·.type == .free))
    (selectBy (selector (K.map dualCone) .free) y) filter_type_mem
    (by rw [length_selectBy_selector _ _ y hy'])
  rw [← h1, ← h2, ← h3, ← hp]
  constructor
  · intro hall
    exact ⟨hall _, hall _, hall _⟩
  · rintro ⟨g1, g2, g3⟩ t
    have hne : ∀ t', t' ≠ .free → t' ≠ .pos → t' ≠ .soc → t' ≠ .dexp →
        ∀ co ∈ K.map dualCone, co.type ≠ t' := by
      intro t' n0 n1 n2 n3 co hco heq
      have := (dual_types K hK co hco).1
      rw [heq] at this
      simp_all
    cases t
    case pos => exact g1
    case soc => exact g2
    case dexp => exact g3
    case free => rw [hf]; simp
    all_goals exact feasBlocks_of_nil_filter _ _ _ _ (hne _ (by decide) (by decide) (by decide) (by decide))

theorem dexp_filter_eq_replicate (K : List Cone) (hK : DualOK K) :
    (K.map dualCone).filter (·.type == .dexp)
      = List.replicate ((K.map dualCone).filter (·.type == .dexp)).length ⟨.dexp, 3⟩ := by
  apply List.eq_replicate_iff.mpr ⟨rfl, ?_⟩
  intro co hco
  exact (dual_types K hK co (List.mem_filter.mp hco).1).2 (filter_type_mem co hco)

theorem totalLen_replicate3 (k : Nat) (t : CType) : totalLen (List.replicate k ⟨t, 3⟩) = 3 * k := by
  induction k with
  | zero => rfl
  | succ k ih => simp [List.replicate_succ, ih]; omega

/-- the dual-form MOSEK task, read with MOSEK's conventions, on the regrouped multiplier -/
theorem mosek_dual_task_feas (Sd : ConeSem R) (PM : MosekConeKind → List R → Prop)
    (hquad : ∀ v, PM .quad v ↔ Sd.P .soc v)
    (hdexp : ∀ s1 s2 s3, PM .dexp [s1, s2, s3] ↔ Sd.P .dexp [s3, s1, s2])
    (n : Nat) (c : Vec R) (A : Mat R) (b : Vec R) (K : List Cone) (y : Vec R)
    (hwf : WFSys n A b K) (hc : c.length = n) (hy : y.length = A.length) (hK : DualOK K) :
    TaskFeas PM (mosekDualTask (mosekDualApply n c A b K)) (regroupBy K y) ↔
      (FeasBlocks Sd.P (K.map dualCone) y ∧ mulVec (transpose n A) y = c) := by
  have hyK : y.length = totalLen K := by rw [hy, hwf.rows]; rfl
  have hbK : (negVec b).length = totalLen K := by simp [negVec, hwf.rhs]; rfl
  obtain ⟨h1, h2, h3, h4⟩ := dualApply_selectors K hK
  have hT := totalLen_dual K hK
  have hlen : ∀ t (l : Vec R), l.length = totalLen K →
      (selectBy (selector K t) l).length = countTrue (selector K t) := fun t l hl =>
    length_selectBy _ _ (by rw [length_selector, hl])
  rw [mosekDualTask_eq, mosekDualApply_f n c A b K hK, mosekDualApply_G n c A b K hK]
  have hnPos : (mosekDualApply n c A b K).nPos = (selectBy (selector K .pos) y).length := by
    rw [hlen _ _ hyK, ← h1]; rfl
  have hdims : (mosekDualApply n c A b K).socDims
      = ((K.map dualCone).filter (·.type == .soc)).map (·.len) := rfl
  have hk : (mosekDualApply n c A b K).nDexp
      = ((K.map dualCone).filter (·.type == .dexp)).length := rfl
  have hh : (mosekDualApply n c A b K).h = c := rfl
  rw [hnPos, hdims, hk, hh]
  have hS : (selectBy (selector K .soc) y).length
      = (((K.map dualCone).filter (·.type == .soc)).map (·.len)).sum := by
    rw [hlen _ _ hyK, ← h2, countTrue_selector]; rfl
  have hE : (selectBy (selector K .exp) y).length
      = 3 * ((K.map dualCone).filter (·.type == .dexp)).length := by
    rw [hlen _ _ hyK, ← h3, countTrue_selector, dexp_filter_eq_replicate K hK, totalLen_replicate3,
      List.length_replicate]
  have hf' : (regroupBy K (negVec b)).length = (regroupBy K y).length := by
    simp only [regroupBy, List.length_append, hlen _ _ hyK, hlen _ _ hbK]
  have := dualTask_feas_abstract Sd.P PM hquad hdexp (selectBy (selector K .pos) y)
    (selectBy (selector K .soc) y) (selectBy (selector K .exp) y) (selectBy (selector K .zero) y)
    _ _ hS hE ((transpose n A).map (regroupBy K)) c (regroupBy K (negVec b)) hf'
    (by simp [transpose, hc])
  have hz : regroupBy K y = selectBy (selector K .pos) y ++ selectBy (selector K .soc) y
      ++ selectBy (selector K .exp) y ++ selectBy (selector K .zero) y := rfl
  rw [hz, this, ← hz, mulVec_regroup n A K y hK hwf.rows hyK, feasBlocks_dual Sd K hK y hyK,
    map_len_mk_eq .soc _ filter_type_mem, ← dexp_filter_eq_replicate K hK]
  tauto

end

end Sageopt.Solvers
