/-
Lemmas for the dualisation part of C10: adjoint identity for `transpose`, blockwise pairing.
-/
import SageoptModel.Lemmas.SolversEcos

namespace Sageopt.Solvers
open Sageopt

variable {R : Type}

section
variable [CommRing R]

theorem range_map_getD (n : Nat) (r : List R) (h : r.length = n) :
    (List.range n).map (fun j => r.getD j 0) = r := by
  apply List.ext_getElem
  · simp [h]
  · intro i h1 h2
    simp [List.getElem?_eq_getElem h2]

theorem dot_map_add {ι : Type} (L : List ι) (f g : ι → R) (x : List R) :
    dot (L.map fun j => f j + g j) x = dot (L.map f) x + dot (L.map g) x := by
  induction L generalizing x with
  | nil => simp
  | cons j L ih => cases x with
    | nil => simp
    | cons b x => simp [ih x]; ring

theorem dot_map_mul {ι : Type} (L : List ι) (f : ι → R) (c : R) (x : List R) :
    dot (L.map fun j => f j * c) x = c * dot (L.map f) x := by
  induction L generalizing x with
  | nil => simp
  | cons j L ih => cases x with
    | nil => simp
    | cons b x => simp [ih x]; ring

@[simp] theorem dot_replicate_zero (k : Nat) (x : List R) :
    dot (List.replicate k (0 : R)) x = 0 := by
  induction k generalizing x with
  | zero => simp
  | succ k ih => cases x with
    | nil => simp
    | cons b x => simp [List.replicate_succ, ih x]

/-- `(Aᵀ y) · x = y · (A x)` -/
theorem dot_transpose (n : Nat) (A : Mat R) (hw : ∀ r ∈ A, r.length = n) (x y : Vec R) :
    dot (mulVec (transpose n A) y) x = dot y (mulVec A x) := by
  induction A generalizing y with
  | nil => simp [mulVec, transpose]
  | cons r A ih => cases y with
    | nil => simp [mulVec, transpose, Function.comp_def]
    | cons y0 y =>
      have ih' := ih (fun r' hr' => hw r' (by simp [hr'])) y
      have hr := hw r (by simp)
      simp only [mulVec, transpose, List.map_map] at ih' ⊢
      simp only [Function.comp_def, List.map_cons, dot_cons_cons] at ih' ⊢
      rw [dot_map_add, dot_map_mul, range_map_getD n r hr, ih']

theorem dot_addVec (u v y : Vec R) (h : u.length = v.length) :
    dot (addVec u v) y = dot u y + dot v y := by
  induction u generalizing v y with
  | nil => cases v with
    | nil => simp [addVec]
    | cons b v => simp at h
  | cons a u ih => cases v with
    | nil => simp at h
    | cons b v =>
      simp at h
      cases y with
      | nil => simp
      | cons c y =>
        have := ih v y h
        simp only [addVec] at this ⊢
        simp [this]; ring

theorem dualCone_len (co : Cone) (h3 : co.type = .exp → co.len = 3) :
    (dualCone co).len = co.len := by
  unfold dualCone
  split <;> simp_all

end

section
variable [CommRing R] [LinearOrder R] [IsStrictOrderedRing R]

/-- blockwise pairing of a primal-feasible slack with a dual-feasible multiplier -/
theorem pairing_blocks (S Sd : ConeSem R) (K : List Cone)
    (h3 : ∀ co ∈ K, co.type = .exp → co.len = 3)
    (pair : ∀ co ∈ K, ∀ s y : List R, s.length = co.len → y.length = co.len →
        S.P co.type s → Sd.P (dualCone co).type y → 0 ≤ dot s y)
    (s y : List R) (hs : s.length = totalLen K) (hy : y.length = totalLen K)
    (hp : FeasBlocks S.P K s) (hd : FeasBlocks Sd.P (K.map dualCone) y) : 0 ≤ dot s y := by
  induction K generalizing s y with
  | nil =>
    have : s = [] := by simpa using hs
    simp [this]
  | cons co K ih =>
    simp only [totalLen_cons] at hs hy
    simp only [List.map_cons, feasBlocks_cons] at hp hd
    rw [dualCone_len co (h3 co (by simp))] at hd
    rw [dot_take_drop co.len]
    have h1 := pair co (by simp) (s.take co.len) (y.take co.len) (by simp; omega) (by simp; omega)
      hp.1 hd.1
    have h2 := ih (fun c hc => h3 c (by simp [hc])) (fun c hc => pair c (by simp [hc]))
      (s.drop co.len) (y.drop co.len) (by simp; omega) (by simp; omega) hp.2 hd.2
    linarith

/-- weak duality in the form `0 ≤ c·x + b·y` -/
theorem weak_duality_core (S Sd : ConeSem R) (n : Nat) (A : Mat R) (b : Vec R) (K : List Cone)
    (x y : Vec R) (hwf : WFSys n A b K)
    (pair : ∀ co ∈ K, ∀ s y : List R, s.length = co.len → y.length = co.len →
        S.P co.type s → Sd.P (dualCone co).type y → 0 ≤ dot s y)
    (hp : FeasBlocks S.P K (slack A b x))
    (hy : y.length = A.length)
    (hd : FeasBlocks Sd.P (K.map dualCone) y) :
    0 ≤ dot (mulVec (transpose n A) y) x + dot b y := by
  have hsl : (slack A b x).length = totalLen K := by
    rw [length_slack, hwf.rows, hwf.rhs]; simp [totalLen]
  have := pairing_blocks S Sd K hwf.exp3 pair (slack A b x) y hsl (by rw [hy, hwf.rows]; rfl) hp hd
  rw [slack, dot_addVec _ _ _ (by rw [length_mulVec, hwf.rows, hwf.rhs])] at this
  rw [dot_transpose n A hwf.width, dot_comm y]
  exact this

end

end Sageopt.Solvers
