/-
Helper lemmas for C17 (`Model/Solrec.lean`): the feasibility filter, `fvLt` as a strict order, stable insertion sort.
Core Lean only.
-/
import SageoptModel.Model.Solrec

namespace Sageopt.Solrec

/-! ### the filter -/

theorem sr_geNegTol_iff (tol : Rat) (v : FV) :
    geNegTol tol v = true ↔ (v = .pinf ∨ ∃ q, v = .num q ∧ -tol ≤ q) := by
  cases v <;> simp [geNegTol]

theorem sr_absLeTol_iff (tol : Rat) (v : FV) :
    absLeTol tol v = true ↔ ∃ q, v = .num q ∧ -tol ≤ q ∧ q ≤ tol := by
  cases v <;> simp [absLeTol]

theorem sr_isFeasible_iff (itol etol : Rat) (gt eq : List FV) :
    isFeasible itol etol gt eq = true ↔
      (∀ v ∈ gt, v = .pinf ∨ ∃ q, v = .num q ∧ -itol ≤ q) ∧ (∀ v ∈ eq, ∃ q, v = .num q ∧ -etol ≤ q ∧ q ≤ etol) := by
  simp only [isFeasible, Bool.and_eq_true, List.all_eq_true, sr_geNegTol_iff, sr_absLeTol_iff]

theorem sr_isFeasible_mono {itol etol itol' etol' : Rat} (h1 : itol ≤ itol') (h2 : etol ≤ etol') {gt eq : List FV}
    (h : isFeasible itol etol gt eq = true) : isFeasible itol' etol' gt eq = true := by
  rw [sr_isFeasible_iff] at h ⊢
  refine ⟨fun v hv => ?_, fun v hv => ?_⟩
  · rcases h.1 v hv with h | ⟨q, rfl, hq⟩
    · exact .inl h
    · exact .inr ⟨q, rfl, by grind⟩
  · obtain ⟨q, rfl, hq1, hq2⟩ := h.2 v hv
    exact ⟨q, rfl, by grind, by grind⟩

/-! ### `fvLt` -/

theorem sr_fvLt_irrefl (a : FV) : fvLt a a = false := by
  cases a <;> simp [fvLt]

theorem sr_fvLt_trans {a b c : FV} (h1 : fvLt a b = true) (h2 : fvLt b c = true) : fvLt a c = true := by
  cases a <;> cases b <;> cases c <;> simp_all [fvLt]
  exact Std.lt_trans h1 h2

theorem sr_fvLt_asymm {a b : FV} (h : fvLt a b = true) : fvLt b a = false := by
  cases hb : fvLt b a
  · rfl
  · have := sr_fvLt_trans h hb
    rw [sr_fvLt_irrefl] at this
    exact this.symm

/-- when neither key is NaN, incomparability is equality of keys (as values: `Rat` is normalised) -/
theorem sr_fvLt_incomp {a b : FV} (ha : a ≠ .nan) (hb : b ≠ .nan) (h1 : fvLt a b = false) (h2 : fvLt b a = false) :
    a = b := by
  cases a <;> cases b <;> simp_all [fvLt]
  exact Rat.le_antisymm (Rat.not_lt.1 h2) (Rat.not_lt.1 h1)

/-! ### stable insertion -/

theorem sr_mem_insertStable (x y : Nat × FV) (ys : List (Nat × FV)) :
    y ∈ insertStable x ys ↔ y = x ∨ y ∈ ys := by
  induction ys with
  | nil => simp [insertStable]
  | cons z zs ih =>
    simp only [insertStable]
    split
    · simp
    · simp only [List.mem_cons, ih]
      grind

theorem sr_insertStable_perm (x : Nat × FV) (ys : List (Nat × FV)) : (insertStable x ys).Perm (x :: ys) := by
  induction ys with
  | nil => simp [insertStable]
  | cons z zs ih =>
    simp only [insertStable]
    split
    · exact List.Perm.refl _
    · exact (List.Perm.cons z ih).trans (List.Perm.swap x z zs)

theorem sr_foldl_insertStable_perm (xs acc : List (Nat × FV)) :
    (xs.foldl (fun acc x => insertStable x acc) acc).Perm (acc ++ xs) := by
  induction xs generalizing acc with
  | nil => simp
  | cons x xs ih =>
    simp only [List.foldl_cons]
    refine (ih _).trans ?_
    refine ((sr_insertStable_perm x acc).append_right xs).trans ?_
    simpa using (List.perm_middle (a := x) (l₁ := acc) (l₂ := xs)).symm

theorem sr_sortStable_perm (xs : List (Nat × FV)) : (sortStable xs).Perm xs := by
  simpa [sortStable] using sr_foldl_insertStable_perm xs []

theorem sr_mem_sortStable (y : Nat × FV) (xs : List (Nat × FV)) : y ∈ sortStable xs ↔ y ∈ xs :=
  (sr_sortStable_perm xs).mem_iff

/-- sorted (no later key is smaller than an earlier one) and stable (equal keys in order of index) -/
def srInv (l : List (Nat × FV)) : Prop :=
  l.Pairwise fun a b => fvLt b.2 a.2 = false ∧ (a.2 = b.2 → a.1 < b.1)

theorem sr_insertStable_inv (x : Nat × FV) (ys : List (Nat × FV)) (h : srInv ys) (hx : ∀ y ∈ ys, y.1 < x.1) :
    srInv (insertStable x ys) := by
  induction ys with
  | nil => simp [insertStable, srInv]
  | cons z zs ih =>
    unfold srInv at h ⊢
    rw [List.pairwise_cons] at h
    simp only [insertStable]
    split
    · rename_i hlt
      refine List.pairwise_cons.2 ⟨?_, List.pairwise_cons.2 h⟩
      intro w hw
      rcases List.mem_cons.1 hw with rfl | hw
      · refine ⟨sr_fvLt_asymm hlt, fun he => ?_⟩
        rw [he, sr_fvLt_irrefl] at hlt
        exact absurd hlt (by simp)
      · have hzw := h.1 w hw
        refine ⟨?_, fun he => ?_⟩
        · cases hwx : fvLt w.2 x.2
          · rfl
          · have := sr_fvLt_trans hwx hlt
            rw [hzw.1] at this
            exact absurd this (by simp)
        · rw [he, hzw.1] at hlt
          exact absurd hlt (by simp)
    · rename_i hlt
      refine List.pairwise_cons.2 ⟨?_, ih h.2 (fun y hy => hx y (List.mem_cons_of_mem _ hy))⟩
      intro w hw
      rcases (sr_mem_insertStable x w zs).1 hw with rfl | hw
      · exact ⟨by simpa using hlt, fun _ => hx z (List.mem_cons_self ..)⟩
      · exact h.1 w hw

theorem sr_foldl_insertStable_inv (xs acc : List (Nat × FV)) (hacc : srInv acc)
    (hlt : ∀ a ∈ acc, ∀ x ∈ xs, a.1 < x.1) (hxs : xs.Pairwise fun a b => a.1 < b.1) :
    srInv (xs.foldl (fun acc x => insertStable x acc) acc) := by
  induction xs generalizing acc with
  | nil => simpa using hacc
  | cons x xs ih =>
    simp only [List.foldl_cons]
    rw [List.pairwise_cons] at hxs
    refine ih _ (sr_insertStable_inv x acc hacc fun a ha => hlt a ha x (List.mem_cons_self ..)) ?_ hxs.2
    intro a ha y hy
    rcases (sr_mem_insertStable x a acc).1 ha with rfl | ha
    · exact hxs.1 y hy
    · exact hlt a ha y (List.mem_cons_of_mem _ hy)

theorem sr_sortStable_inv (xs : List (Nat × FV)) (hxs : xs.Pairwise fun a b => a.1 < b.1) : srInv (sortStable xs) :=
  sr_foldl_insertStable_inv xs [] (by simp [srInv]) (by simp) hxs

end Sageopt.Solrec
