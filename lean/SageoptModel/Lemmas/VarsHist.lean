/-
Helper lemmas for C20: the per-history invariant of `runH` — generations never decrease along a session, and
within the current generation the counter only grows, so everything created later in the same generation lies
at or above the current counter.  Core Lean only.
-/
import SageoptModel.Lemmas.VarsAlloc

namespace Sageopt.Vars

theorem runH_nil (a : Alloc) : runH a [] = (a, []) := rfl

theorem runH_clear (a : Alloc) (ops : List HOp) : runH a (.clear :: ops) = runH (clear a) ops := rfl

theorem runH_create_none {a : Alloc} {shape : List Nat} {name : Option String} {sym : Bool}
    (h : create a shape name sym = none) (ops : List HOp) :
    runH a (.create shape name sym :: ops) = runH a ops := by
  simp [runH, h]

theorem runH_create_some {a a' : Alloc} {shape : List Nat} {name : Option String} {sym : Bool} {v : VarObj}
    (h : create a shape name sym = some (a', v)) (ops : List HOp) :
    (runH a (.create shape name sym :: ops)).2 = v :: (runH a' ops).2 := by
  simp [runH, h]

/-- the invariant: every Variable created by the rest of the history has a generation in the window
    `[a.gen, a.gen + #ops]`, and if it is of the current generation its indices lie at or above the counter -/
theorem runH_inv (ops : List HOp) : ∀ (a : Alloc) (v : VarObj), v ∈ (runH a ops).2 →
    a.gen ≤ v.gen ∧ v.gen ≤ a.gen + ops.length ∧ (v.gen = a.gen → ∀ id ∈ v.ids, a.counter ≤ id) := by
  induction ops with
  | nil => intro a v hv; simp [runH_nil] at hv
  | cons op ops ih =>
    intro a v hv
    cases op with
    | clear =>
      rw [runH_clear] at hv
      obtain ⟨h1, h2, _⟩ := ih (clear a) v hv
      have hg : (clear a).gen = a.gen + 1 := rfl
      rw [hg] at h1 h2
      simp only [List.length_cons]
      refine ⟨by omega, by omega, fun he => ?_⟩
      omega
    | create shape name sym =>
      cases hc : create a shape name sym with
      | none =>
        rw [runH_create_none hc] at hv
        obtain ⟨h1, h2, h3⟩ := ih a v hv
        simp only [List.length_cons]
        exact ⟨h1, by omega, h3⟩
      | some r =>
        obtain ⟨a', v0⟩ := r
        rw [runH_create_some hc] at hv
        obtain ⟨hp, hg, hg', hcnt, _, _, hids, _⟩ := create_spec' a a' shape name sym v0 hc
        simp only [List.length_cons]
        rcases List.mem_cons.mp hv with rfl | hv'
        · refine ⟨by omega, by omega, fun _ id hid => (hids id hid).1⟩
        · obtain ⟨h1, h2, h3⟩ := ih a' v hv'
          rw [hg'] at h1 h2 h3
          refine ⟨h1, by omega, fun he id hid => ?_⟩
          have := h3 he id hid
          omega

theorem getElem?_mem' {α : Type} {l : List α} {i : Nat} {x : α} (h : l[i]? = some x) : x ∈ l :=
  List.mem_of_getElem? h

theorem ids_unique' (ops : List HOp) : ∀ (a : Alloc) (i j : Nat) (v w : VarObj),
    (runH a ops).2[i]? = some v → (runH a ops).2[j]? = some w → i ≠ j → v.gen = w.gen →
    ∀ id ∈ v.ids, id ∉ w.ids := by
  induction ops with
  | nil => intro a i j v w hv; simp [runH_nil] at hv
  | cons op ops ih =>
    intro a i j v w hv hw hij hg
    cases op with
    | clear =>
      rw [runH_clear] at hv hw
      exact ih (clear a) i j v w hv hw hij hg
    | create shape name sym =>
      cases hc : create a shape name sym with
      | none =>
        rw [runH_create_none hc] at hv hw
        exact ih a i j v w hv hw hij hg
      | some r =>
        obtain ⟨a', v0⟩ := r
        rw [runH_create_some hc] at hv hw
        obtain ⟨_, hg0, hg', _, _, _, hids, _⟩ := create_spec' a a' shape name sym v0 hc
        cases i with
        | zero =>
          cases j with
          | zero => exact absurd rfl hij
          | succ j =>
            simp only [List.getElem?_cons_zero, Option.some.injEq] at hv
            simp only [List.getElem?_cons_succ] at hw
            subst hv
            obtain ⟨_, _, h3⟩ := runH_inv ops a' w (getElem?_mem' hw)
            intro id hid hid'
            have := h3 (by omega) id hid'
            have := (hids id hid).2
            omega
        | succ i =>
          cases j with
          | zero =>
            simp only [List.getElem?_cons_zero, Option.some.injEq] at hw
            simp only [List.getElem?_cons_succ] at hv
            subst hw
            obtain ⟨_, _, h3⟩ := runH_inv ops a' v (getElem?_mem' hv)
            intro id hid hid'
            have := h3 (by omega) id hid
            have := (hids id hid').2
            omega
          | succ j =>
            simp only [List.getElem?_cons_succ] at hv hw
            exact ih a' i j v w hv hw (by omega) hg

end Sageopt.Vars
