/-
Rounding lemmas for the signomial model: `round7` is idempotent, the grid `10⁻⁷ℤ` is closed under
addition / negation, and rows on the grid are fixed by `roundExp`.
-/
import SageoptModel.Lemmas.SigSem
import Mathlib.Algebra.Order.Field.Rat
import Mathlib.Tactic.Ring
import Mathlib.Tactic.Linarith
import Mathlib.Tactic.FieldSimp
import Mathlib.Tactic.NormNum

namespace Sageopt.Sig

theorem roundHalfEven_intCast (z : Int) : roundHalfEven (z : Rat) = z := by
  unfold roundHalfEven
  simp only [Rat.floor_intCast, sub_self]
  norm_num

theorem scale_ne_zero : ((10 ^ decimals : Nat) : Rat) ≠ 0 := by
  simp [decimals]

/-- values on the grid are exactly the integer multiples of `10⁻⁷` -/
theorem round7_int_div (z : Int) : round7 ((z : Rat) / (10 ^ decimals : Nat)) = (z : Rat) / (10 ^ decimals : Nat) := by
  unfold round7
  rw [div_mul_cancel₀ _ scale_ne_zero, roundHalfEven_intCast]

theorem round7_fix_iff (q : Rat) : round7 q = q ↔ ∃ z : Int, q = (z : Rat) / (10 ^ decimals : Nat) := by
  constructor
  · intro h
    exact ⟨roundHalfEven (q * (10 ^ decimals : Nat)), h.symm⟩
  · rintro ⟨z, rfl⟩
    exact round7_int_div z

theorem round7_idem' (q : Rat) : round7 (round7 q) = round7 q := by
  have : round7 q = ((roundHalfEven (q * (10 ^ decimals : Nat)) : Int) : Rat) / (10 ^ decimals : Nat) := rfl
  rw [this, round7_int_div]

theorem round7_add_grid' (a b : Rat) (ha : round7 a = a) (hb : round7 b = b) :
    round7 (a + b) = a + b := by
  obtain ⟨x, rfl⟩ := (round7_fix_iff a).1 ha
  obtain ⟨y, rfl⟩ := (round7_fix_iff b).1 hb
  rw [← add_div, ← Int.cast_add, round7_int_div]

theorem round7_neg_grid (a : Rat) (ha : round7 a = a) : round7 (-a) = -a := by
  obtain ⟨x, rfl⟩ := (round7_fix_iff a).1 ha
  rw [← neg_div, ← Int.cast_neg, round7_int_div]

theorem round7_zero' : round7 0 = 0 := by
  have := round7_int_div 0
  simpa using this

theorem round7_half_int' (k : Int) : round7 ((k : Rat) / 2) = (k : Rat) / 2 := by
  have h : (k : Rat) / 2 = ((k * 5000000 : Int) : Rat) / (10 ^ decimals : Nat) := by
    simp only [decimals]
    push_cast
    ring
  rw [h, round7_int_div]

/-! rows -/

theorem roundExp_length (a : Exp) : (roundExp a).length = a.length := by
  simp [roundExp]

theorem roundExp_onGrid (a : Exp) : OnGrid (roundExp a) := by
  intro q hq
  simp only [roundExp, List.mem_map] at hq
  obtain ⟨p, _, rfl⟩ := hq
  exact round7_idem' p

theorem roundExp_of_onGrid {a : Exp} (h : OnGrid a) : roundExp a = a := by
  unfold roundExp
  induction a with
  | nil => rfl
  | cons x xs ih =>
    rw [List.map_cons, h x (by simp), ih (fun q hq => h q (by simp [hq]))]

theorem onGrid_zeroExp (n : Nat) : OnGrid (zeroExp n) := by
  intro q hq
  simp only [zeroExp, List.mem_replicate] at hq
  rw [hq.2]; exact round7_zero'

theorem roundExp_zeroExp (n : Nat) : roundExp (zeroExp n) = zeroExp n :=
  roundExp_of_onGrid (onGrid_zeroExp n)

theorem onGrid_addExp {a b : Exp} (ha : OnGrid a) (hb : OnGrid b) : OnGrid (addExp a b) := by
  unfold addExp
  induction a generalizing b with
  | nil => intro q hq; simp at hq
  | cons x xs ih =>
    cases b with
    | nil => intro q hq; simp at hq
    | cons y ys =>
      intro q hq
      simp only [List.zipWith_cons_cons, List.mem_cons] at hq
      rcases hq with rfl | hq
      · exact round7_add_grid' x y (ha x (by simp)) (hb y (by simp))
      · exact ih (fun q hq => ha q (by simp [hq])) (fun q hq => hb q (by simp [hq])) q hq

theorem addExp_length (a b : Exp) : (addExp a b).length = min a.length b.length := by
  simp [addExp]

theorem addExp_zeroExp (a : Exp) : addExp a (zeroExp a.length) = a := by
  unfold addExp zeroExp
  induction a with
  | nil => rfl
  | cons x xs ih => simp [List.replicate_succ, ih]

theorem addExp_neg (a : Exp) : addExp (a.map (-1 * ·)) a = zeroExp a.length := by
  unfold addExp zeroExp
  induction a with
  | nil => rfl
  | cons x xs ih =>
    simp only [List.map_cons, List.zipWith_cons_cons, List.length_cons, List.replicate_succ, ih]
    congr 1
    ring

end Sageopt.Sig
