/-
C02 helper lemmas, part 3: real values of the individual rows of `dualRows` under an assignment.
-/
import SageoptModel.Lemmas.SageDualShape
import SageoptModel.Lemmas.SageDualScale

namespace Sageopt.Sage
open Sageopt Sageopt.Compile Sageopt.Solvers Sageopt.Analysis

theorem sd_crowVal_aff (σ : Nat → ℝ) (e : AffE) : crowVal σ ⟨e.co, e.off, false⟩ = argVal σ e := by
  simp [crowVal, argVal]

theorem sd_crowVal_nonnegRow (σ : Nat → ℝ) (e : AffE) (d : Nat) :
    crowVal σ (nonnegRow e d) = argVal σ e := by
  unfold nonnegRow
  split
  · rename_i h
    have : e.co = [] := by simpa using h
    simp [crowVal, argVal, this]
  · exact sd_crowVal_aff σ e

theorem sd_rdot_nil_left (x : List ℝ) : rdot [] x = 0 := by simp [rdot]
theorem sd_rdot_nil_right (a : List Rat) : rdot a [] = 0 := by simp [rdot]
theorem sd_rdot_cons (q : Rat) (a : List Rat) (t : ℝ) (x : List ℝ) :
    rdot (q :: a) (t :: x) = (q : ℝ) * t + rdot a x := by simp [rdot]

theorem sd_zip_sum (σ : Nat → ℝ) (row : List Rat) (ids : List Nat) :
    (((row.zip ids).map fun (q, id) => (id, q)).map fun (e : Nat × Rat) => (e.2 : ℝ) * σ e.1).sum
      = rdot row (ids.map σ) := by
  induction row generalizing ids with
  | nil => simp [sd_rdot_nil_left]
  | cons q row ih =>
    cases ids with
    | nil => simp [sd_rdot_nil_right]
    | cons id ids =>
      simp only [List.zip_cons_cons, List.map_cons, List.sum_cons, sd_rdot_cons, ih]

theorem sd_zip_filter_sum (σ : Nat → ℝ) (row : List Rat) (ids : List Nat) :
    ((((row.zip ids).filterMap fun (q, id) => if q == 0 then none else some (id, q)).map
        fun (e : Nat × Rat) => (e.1, -e.2)).map fun (e : Nat × Rat) => (e.2 : ℝ) * σ e.1).sum
      = - rdot row (ids.map σ) := by
  induction row generalizing ids with
  | nil => simp [sd_rdot_nil_left]
  | cons q row ih =>
    cases ids with
    | nil => simp [sd_rdot_nil_right]
    | cons id ids =>
      simp only [List.zip_cons_cons, List.filterMap_cons, List.map_cons, sd_rdot_cons]
      by_cases hq : q = 0
      · subst hq
        simp only [beq_self_eq_true, if_true, ih]
        simp
      · have : (q == 0) = false := by simpa using hq
        simp only [this, Bool.false_eq_true, if_false, List.map_cons, List.sum_cons, ih]
        push_cast
        ring

theorem sd_rdot_scale (row : List Rat) (y : List ℝ) (c : ℝ) :
    rdot row (y.map (c * ·)) = c * rdot row y := by
  induction row generalizing y with
  | nil => simp [sd_rdot_nil_left]
  | cons q row ih =>
    cases y with
    | nil => simp [sd_rdot_nil_right]
    | cons t y =>
      simp only [List.map_cons, sd_rdot_cons, ih]; ring

theorem sd_rdot_subRow (a b : List Rat) (x : List ℝ) (h : a.length = b.length) :
    rdot (subRow a b) x = rdot a x - rdot b x := by
  induction a generalizing b x with
  | nil =>
    cases b with
    | nil => simp [subRow, sd_rdot_nil_left]
    | cons _ _ => simp at h
  | cons q a ih =>
    cases b with
    | nil => simp at h
    | cons r b =>
      cases x with
      | nil => simp [sd_rdot_nil_right]
      | cons t x =>
        have h' : a.length = b.length := by simpa using h
        have := ih b x h'
        simp only [subRow] at this ⊢
        simp only [List.zipWith_cons_cons, sd_rdot_cons, this]
        push_cast
        ring

theorem sd_map_eq_scale (σ : Nat → ℝ) (ids : List Nat) (y : List ℝ) (c : ℝ) (hlen : ids.length = y.length)
    (h : ∀ k, k < ids.length → σ (ids.getD k 0) = c * y.getD k 0) : ids.map σ = y.map (c * ·) := by
  apply List.ext_getElem
  · simp [hlen]
  · intro k h1 h2
    have hk : k < ids.length := by simpa using h1
    have hk' : k < y.length := by omega
    have := h k hk
    simp only [List.getD_eq_getElem?_getD, List.getElem?_eq_getElem hk, List.getElem?_eq_getElem hk',
      Option.getD_some] at this
    simp [this]

theorem sd_take_getD {α : Type} (l : List α) (n k : Nat) (d : α) (hk : k < n) :
    (l.take n).getD k d = l.getD k d := by
  simp [List.getD, hk]

/-- the `n` leading entries of `μ_i`, as values -/
theorem sd_muN_vals (σ : Nat → ℝ) (mu : List Nat) (xt x : List ℝ) (n : Nat) (c : ℝ)
    (hlen : mu.length = xt.length) (hx : xt.take n = x)
    (h : ∀ k, k < mu.length → σ (mu.getD k 0) = c * xt.getD k 0) :
    (mu.take n).map σ = x.map (c * ·) := by
  subst hx
  apply sd_map_eq_scale
  · simp [hlen]
  · intro k hk
    rw [List.length_take] at hk
    rw [sd_take_getD _ _ _ _ (by omega), sd_take_getD _ _ _ _ (by omega)]
    exact h k (by omega)

end Sageopt.Sage
