/-
Semantics used to state the polynomial theorems (C05, C15, C17): value of a polynomial at a REAL point of any
orthant, `log|x|`, side constraints of the signomial representative.  Definitions only.
-/
import SageoptModel.Model.Poly
import SageoptModel.Lemmas.SageSem

namespace Sageopt.Poly
open Sageopt Sageopt.Sig Sageopt.Relax Sageopt.Sage

noncomputable section

/-- `x^a = ∏ x_i^{a_i}` for a row of nonnegative integers (`np.prod(np.power(x, a))`) -/
def monoR (a : Exp) (x : List ℝ) : ℝ := (List.zipWith (fun (q : Rat) (t : ℝ) => t ^ q.num.toNat) a x).prod

/-- value of the polynomial with (rational) coefficients `ts` at the real point `x` -/
def polyR (ts : List (Exp × Rat)) (x : List ℝ) : ℝ := (ts.map fun t => (t.2 : ℝ) * monoR t.1 x).sum

/-- value of the signomial with (rational) coefficients `ts` at the real point `y` -/
def sigR (ts : List (Exp × Rat)) (y : List ℝ) : ℝ := (ts.map fun t => (t.2 : ℝ) * Real.exp (rdot t.1 y)).sum

/-- `log|x|`, coordinatewise -/
def logAbs (x : List ℝ) : List ℝ := x.map fun t => Real.log |t|

def NoZero (x : List ℝ) : Prop := ∀ t ∈ x, t ≠ 0

/-- coefficients under an assignment of the scalar variables -/
def evalL (σ : Nat → Rat) (ts : List (Exp × Lin)) : List (Exp × Rat) := ts.map fun t => (t.1, Lin.value σ t.2)

/-- the side constraints `ĉ ≤ c`, `ĉ ≤ −c` hold under `σ` -/
def SideOk (σ : Nat → Rat) (side : List SideCon) : Prop :=
  ∀ s ∈ side, σ s.chat ≤ Lin.value σ s.c ∧ σ s.chat ≤ -(Lin.value σ s.c)

/-- a polynomial: rows of width `n` with nonnegative integer entries, no poisoned coefficient -/
def PolyWf (p : SigL) : Prop := ∀ t ∈ p.terms, t.1.length = p.n ∧ isPolyExp t.1 = true ∧ t.2.bad = false

def PolyWfQ (f : SigQ) : Prop := ∀ t ∈ f.terms, t.1.length = f.n ∧ isPolyExp t.1 = true

end

end Sageopt.Poly
