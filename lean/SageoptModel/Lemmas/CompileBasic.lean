/-
C07 helper lemmas, structural part: lawful `BEq` for the atom types, `mapM` over `Except`,
the assembly (`sortedCols`, `denseRow`, `assemble`), `colOf`, `variableMap`.
-/
import SageoptModel.Lemmas.CompileSem
import Mathlib.Data.Rat.Cast.Lemmas
import Mathlib.Data.Rat.Cast.Order
import Mathlib.Tactic.Ring
import Mathlib.Tactic.Linarith

namespace Sageopt.Compile
open Sageopt

instance : LawfulBEq AtomKind where
  eq_of_beq := by intro a b h; cases a <;> cases b <;> first | rfl | cases h
  rfl := by intro a; cases a <;> rfl

theorem AffArg.beq_iff (a b : AffArg) : (a == b) = (a.co == b.co && a.off == b.off) := by
  cases a; cases b; rfl

instance : LawfulBEq AffArg where
  eq_of_beq := by
    intro a b h
    rw [AffArg.beq_iff] at h
    cases a; cases b
    simp at h
    simp [h.1, h.2]
  rfl := by intro a; rw [AffArg.beq_iff]; simp

theorem same_iff (a b : NlAtom) : a.same b = true ↔ a.kind = b.kind ∧ a.args = b.args := by
  simp [NlAtom.same]

theorem same_refl (a : NlAtom) : a.same a = true := by simp [same_iff]
theorem same_symm {a b : NlAtom} (h : a.same b = true) : b.same a = true := by
  rw [same_iff] at *; exact ⟨h.1.symm, h.2.symm⟩
theorem same_trans {a b c : NlAtom} (h : a.same b = true) (h' : b.same c = true) : a.same c = true := by
  rw [same_iff] at *; exact ⟨h.1.trans h'.1, h.2.trans h'.2⟩
theorem same_comm (a b : NlAtom) : a.same b = b.same a := by
  cases h : a.same b
  · cases h' : b.same a
    · rfl
    · rw [same_symm h'] at h; cases h
  · exact (same_symm h).symm

/-! ### `mapM` in `Except` -/

theorem mapM_ok_iff {ε α β : Type} (f : α → Except ε β) (l : List α) (out : List β) :
    l.mapM f = .ok out ↔ List.Forall₂ (fun x y => f x = .ok y) l out := by
  induction l generalizing out with
  | nil =>
    simp only [List.mapM_nil, List.forall₂_nil_left_iff]
    constructor
    · intro h; cases h; rfl
    · intro h; subst h; rfl
  | cons a l ih =>
    rw [List.mapM_cons]
    cases hfa : f a with
    | error e =>
      constructor
      · intro h; cases h
      · intro h
        cases h with
        | cons h1 _ => rw [hfa] at h1; cases h1
    | ok b =>
      cases hl : l.mapM f with
      | error e =>
        constructor
        · intro h; cases h
        · intro h
          cases h with
          | cons h1 h2 =>
            rename_i y ys
            have := (ih ys).2 h2
            rw [hl] at this; cases this
      | ok bs =>
        have hbs := (ih bs).1 hl
        constructor
        · intro h
          have : b :: bs = out := by cases h; rfl
          subst this
          exact List.Forall₂.cons hfa hbs
        · intro h
          cases h with
          | cons h1 h2 =>
            rename_i y ys
            rw [hfa] at h1
            have := (ih ys).2 h2
            rw [hl] at this
            cases h1; cases this; rfl

theorem mapM_ok_length {ε α β : Type} {f : α → Except ε β} {l : List α} {out : List β}
    (h : l.mapM f = .ok out) : out.length = l.length :=
  ((mapM_ok_iff f l out).1 h).length_eq.symm

/-! ### assembly -/

theorem foldl_add_cast (l : List Rat) :
    ((l.foldl (· + ·) 0 : Rat) : ℝ) = (l.map (fun (q : Rat) => (q : ℝ))).sum := by
  rw [← List.sum_eq_foldl, Rat.cast_list_sum]

theorem zipWith_map_self {α β γ : Type} (f : β → α → γ) (g : α → β) (l : List α) :
    List.zipWith f (l.map g) l = l.map (fun c => f (g c) c) := by
  induction l with
  | nil => rfl
  | cons a l ih => simp [ih]

theorem sum_ite_nodup (σ : Nat → ℝ) (cols : List Nat) (hnd : cols.Nodup) (id : Nat) (v : ℝ)
    (h : id ∈ cols) : (cols.map fun c => (if id = c then v else 0) * σ c).sum = v * σ id := by
  induction cols with
  | nil => simp at h
  | cons c cols ih =>
    rw [List.nodup_cons] at hnd
    simp only [List.map_cons, List.sum_cons]
    by_cases hc : id = c
    · subst hc
      have : (cols.map fun c => (if id = c then v else 0) * σ c).sum = 0 := by
        apply List.sum_eq_zero
        intro x hx
        simp only [List.mem_map] at hx
        obtain ⟨c, hc, rfl⟩ := hx
        have : id ≠ c := fun e => hnd.1 (e ▸ hc)
        simp [this]
      rw [this]; simp
    · have : id ∈ cols := by
        rcases List.mem_cons.1 h with h | h
        · exact absurd h hc
        · exact h
      rw [ih hnd.2 this]; simp [hc]

theorem denseRow_val (σ : Nat → ℝ) (cols : List Nat) (hnd : cols.Nodup) (ents : List (Nat × Rat))
    (hmem : ∀ e ∈ ents, e.2 ≠ 0 → e.1 ∈ cols) :
    (cols.map fun c => ((((ents.filter fun e => e.1 == c).map (·.2)).foldl (· + ·) 0 : Rat) : ℝ) * σ c).sum
      = (ents.map fun e => (e.2 : ℝ) * σ e.1).sum := by
  induction ents with
  | nil => simp
  | cons e es ih =>
    have ih' := ih (fun e he => hmem e (List.mem_cons_of_mem _ he))
    simp only [List.map_cons, List.sum_cons]
    by_cases h0 : e.2 = 0
    · -- a zero-valued entry (placeholder) contributes nothing, whether or not its id is a column
      rw [← ih', h0]
      simp only [Rat.cast_zero, zero_mul, zero_add]
      congr 1
      apply List.map_congr_left
      intro c _
      simp only [foldl_add_cast, List.filter_cons]
      by_cases hc : e.1 = c
      · simp [hc, h0]
      · simp [hc]
    · have he := hmem e (List.mem_cons_self ..) h0
      rw [← ih', ← sum_ite_nodup σ cols hnd e.1 (e.2 : ℝ) he, ← List.sum_map_add]
      congr 1
      apply List.map_congr_left
      intro c _
      simp only [foldl_add_cast, List.filter_cons]
      by_cases hc : e.1 = c
      · simp [hc]; ring
      · simp [hc]


theorem mem_insertNat (a x : Nat) (l : List Nat) : x ∈ insertNat a l ↔ x = a ∨ x ∈ l := by
  induction l with
  | nil => simp [insertNat]
  | cons b bs ih =>
    unfold insertNat
    by_cases h1 : a < b
    · simp [h1]
    · by_cases h2 : a = b
      · subst h2; simp
      · simp only [h1, h2, if_false, List.mem_cons, ih]
        constructor
        · rintro (h | h | h)
          · exact Or.inr (Or.inl h)
          · exact Or.inl h
          · exact Or.inr (Or.inr h)
        · rintro (h | h | h)
          · exact Or.inr (Or.inl h)
          · exact Or.inl h
          · exact Or.inr (Or.inr h)

theorem pairwise_insertNat (a : Nat) (l : List Nat) (h : l.Pairwise (· < ·)) :
    (insertNat a l).Pairwise (· < ·) := by
  induction l with
  | nil => simp [insertNat]
  | cons b bs ih =>
    unfold insertNat
    rw [List.pairwise_cons] at h
    by_cases h1 : a < b
    · simp only [h1, if_true]
      rw [List.pairwise_cons]
      refine ⟨?_, List.pairwise_cons.2 h⟩
      intro x hx
      rcases List.mem_cons.1 hx with rfl | hx
      · exact h1
      · exact lt_trans h1 (h.1 x hx)
    · by_cases h2 : a = b
      · subst h2
        simp only [Nat.lt_irrefl, if_true, if_false]
        exact List.pairwise_cons.2 h
      · simp only [h1, h2, if_false]
        rw [List.pairwise_cons]
        refine ⟨?_, ih h.2⟩
        intro x hx
        rcases (mem_insertNat a x bs).1 hx with rfl | hx
        · omega
        · exact h.1 x hx

theorem foldl_insertNat (ids acc : List Nat) (h : acc.Pairwise (· < ·)) :
    (ids.foldl (fun acc c => insertNat c acc) acc).Pairwise (· < ·) ∧
    ∀ x, x ∈ ids.foldl (fun acc c => insertNat c acc) acc ↔ x ∈ ids ∨ x ∈ acc := by
  induction ids generalizing acc with
  | nil => simp [h]
  | cons c ids ih =>
    simp only [List.foldl_cons]
    obtain ⟨h1, h2⟩ := ih (insertNat c acc) (pairwise_insertNat c acc h)
    refine ⟨h1, fun x => ?_⟩
    rw [h2, mem_insertNat, List.mem_cons]
    tauto

theorem sortedCols_spec (rows : List CRow) : (sortedCols rows).Pairwise (· < ·) ∧
    ∀ id, id ∈ sortedCols rows ↔ ∃ r ∈ rows, ∃ e ∈ r.entries, e.1 = id ∧ e.2 ≠ 0 := by
  obtain ⟨h1, h2⟩ := foldl_insertNat
    (rows.flatMap fun r => (r.entries.filter fun e => e.2 != 0).map (·.1)) [] List.Pairwise.nil
  refine ⟨h1, fun id => ?_⟩
  unfold sortedCols
  rw [h2]
  simp only [List.mem_flatMap, List.mem_map, List.mem_filter, List.not_mem_nil, or_false,
    bne_iff_ne, ne_eq]
  constructor
  · rintro ⟨r, hr, e, ⟨he, hne⟩, rfl⟩
    exact ⟨r, hr, e, he, rfl, hne⟩
  · rintro ⟨r, hr, e, he, rfl, hne⟩
    exact ⟨r, hr, e, ⟨he, hne⟩, rfl⟩

theorem sortedCols_nodup (rows : List CRow) : (sortedCols rows).Nodup :=
  (sortedCols_spec rows).1.imp (fun h => Nat.ne_of_lt h)


theorem assemble_val (rows : List CRow) (K : List Cone) (σ : Nat → ℝ) (i : Nat) (hi : i < rows.length) :
    (List.zipWith (fun (a : Rat) (cid : Nat) => (a : ℝ) * σ cid) ((assemble rows K).A.getD i []) (assemble rows K).cols).sum
        + (((assemble rows K).b.getD i 0 : Rat) : ℝ)
      = ((rows.getD i ⟨[], 0, false⟩).entries.map fun e => (e.2 : ℝ) * σ e.1).sum
          + (((rows.getD i ⟨[], 0, false⟩).const : Rat) : ℝ) := by
  simp only [assemble, List.getD_eq_getElem?_getD, List.getElem?_map, List.getElem?_eq_getElem hi,
    Option.map_some, Option.getD_some]
  congr 1
  unfold denseRow
  rw [zipWith_map_self]
  apply denseRow_val σ _ (sortedCols_nodup rows)
  intro e he hne
  rw [(sortedCols_spec rows).2]
  exact ⟨rows[i], List.getElem_mem hi, e, he, rfl, hne⟩

/-! ### colOf -/

theorem idxOf?_none (cols : List Nat) (id : Nat) : cols.idxOf? id = none ↔ id ∉ cols := by
  induction cols with
  | nil => simp [List.idxOf?]
  | cons c cols ih =>
    simp only [List.idxOf?, List.findIdx?_cons] at ih ⊢
    by_cases h : c = id
    · simp [h]
    · have h' : ¬ id = c := fun e => h e.symm
      simp [h, h', ih]

theorem idxOf?_some (cols : List Nat) (id j : Nat) (h : cols.idxOf? id = some j) :
    cols.getD j 0 = id ∧ j < cols.length := by
  induction cols generalizing j with
  | nil => simp [List.idxOf?] at h
  | cons c cols ih =>
    simp only [List.idxOf?, List.findIdx?_cons] at ih h
    by_cases hc : c = id
    · simp [hc] at h; subst h; simp [hc]
    · simp [hc] at h
      obtain ⟨k, hk, rfl⟩ := h
      have := ih k hk
      refine ⟨?_, by simp [this.2]⟩
      rw [List.getD_cons_succ]; exact this.1

theorem colOf_spec' (cols : List Nat) (id : Nat) :
    (colOf cols id = -1 ↔ id ∉ cols) ∧
    (∀ j : Nat, colOf cols id = (j : Int) → cols.getD j 0 = id ∧ j < cols.length) ∧
    (id ∈ cols → ∃ j : Nat, colOf cols id = (j : Int)) := by
  unfold colOf
  cases h : cols.idxOf? id with
  | none =>
    have hn := (idxOf?_none cols id).1 h
    refine ⟨by simp [hn], ?_, fun hm => absurd hm hn⟩
    intro j hj
    simp only at hj
    omega
  | some k =>
    have hk := idxOf?_some cols id k h
    have hm : id ∈ cols := by
      by_contra hn
      rw [(idxOf?_none cols id).2 hn] at h; cases h
    refine ⟨?_, ?_, fun _ => ⟨k, rfl⟩⟩
    · simp only [hm, not_true_eq_false, iff_false]; omega
    · intro j hj
      simp only at hj
      have : k = j := by omega
      subst this; exact hk

/-! ### variableMap -/

theorem insertVar_perm (v : VarInfo) (l : List VarInfo) : (insertVar v l).Perm (v :: l) := by
  induction l with
  | nil => simp [insertVar]
  | cons w ws ih =>
    unfold insertVar
    by_cases h : leadingId v < leadingId w
    · simp [h]
    · simp only [h, if_false]
      exact (List.Perm.cons w ih).trans (List.Perm.swap v w ws)

theorem foldl_insertVar_perm (vars acc : List VarInfo) :
    (vars.foldl (fun acc v => insertVar v acc) acc).Perm (vars ++ acc) := by
  induction vars generalizing acc with
  | nil => simp
  | cons v vars ih =>
    simp only [List.foldl_cons]
    refine (ih (insertVar v acc)).trans ?_
    refine (List.Perm.append_left vars (insertVar_perm v acc)).trans ?_
    simp only [List.cons_append]
    exact List.perm_middle

theorem variableMap_ok (cols : List Nat) (vars : List VarInfo) (vm : List (String × List Int))
    (h : variableMap cols vars = .ok vm) :
    (∀ v ∈ vars, (v.name, v.ids.map (colOf cols)) ∈ vm) ∧ vm.length = vars.length ∧
    (∀ v ∈ vars, ∀ w ∈ vars, v.gen = w.gen) := by
  cases vars with
  | nil =>
    have : vm = [] := by cases h; rfl
    subst this; simp
  | cons v0 vs =>
    unfold variableMap at h
    by_cases hany : (v0 :: vs).any (fun v => v.gen != v0.gen) = true
    · simp only [hany, if_true] at h; cases h
    · simp only [hany] at h
      have hperm := foldl_insertVar_perm (v0 :: vs) []
      simp only [List.append_nil] at hperm
      have hvm : vm = ((v0 :: vs).foldl (fun acc v => insertVar v acc) []).map
          fun v => (v.name, v.ids.map (colOf cols)) := by cases h; rfl
      have hgen : ∀ v ∈ v0 :: vs, v.gen = v0.gen := by
        intro v hv
        by_contra hne
        apply hany
        rw [List.any_eq_true]
        exact ⟨v, hv, by simpa using hne⟩
      refine ⟨?_, ?_, ?_⟩
      · intro v hv
        rw [hvm, List.mem_map]
        exact ⟨v, hperm.mem_iff.2 hv, rfl⟩
      · rw [hvm, List.length_map]; exact hperm.length_eq
      · intro v hv w hw
        rw [hgen v hv, hgen w hw]

theorem variableMap_rejects (cols : List Nat) (vars : List VarInfo)
    (h : ∃ v ∈ vars, ∃ w ∈ vars, v.gen ≠ w.gen) : ∃ m, variableMap cols vars = .error m := by
  obtain ⟨v, hv, w, hw, hne⟩ := h
  cases vars with
  | nil => simp at hv
  | cons v0 vs =>
    unfold variableMap
    have hany : (v0 :: vs).any (fun v => v.gen != v0.gen) = true := by
      rw [List.any_eq_true]
      by_cases h1 : v.gen = v0.gen
      · exact ⟨w, hw, by simpa using fun e => hne (h1.trans e.symm)⟩
      · exact ⟨v, hv, by simpa using h1⟩
    simp only [hany, if_true]
    exact ⟨_, rfl⟩

/-! ### dimensions -/

theorem compile_dims' (cons : List Con) (dummy : Nat) (vars : List VarInfo) (c : Compiled)
    (vm : List (String × List Int)) (h : compile cons dummy vars = .ok (c, vm)) :
    c.A.length = (c.K.map (·.len)).sum ∧ c.b.length = (c.K.map (·.len)).sum ∧
      ∀ r ∈ c.A, r.length = c.cols.length := by
  unfold compile at h
  cases hb : compileBlocks cons dummy with
  | error e => rw [hb] at h; cases h
  | ok p =>
    obtain ⟨rows, K⟩ := p
    rw [hb] at h
    simp only [bind, Except.bind] at h
    by_cases hlen : rows.length ≠ (K.map (·.len)).sum
    · rw [if_pos hlen] at h; cases h
    · rw [if_neg hlen] at h
      cases hv : variableMap (assemble rows K).cols vars with
      | error e => rw [hv] at h; cases h
      | ok vm' =>
        rw [hv] at h
        have hc : c = assemble rows K := by cases h; rfl
        subst hc
        have hlen' : rows.length = (K.map (·.len)).sum := by simpa using hlen
        refine ⟨?_, ?_, ?_⟩
        · simp [assemble, hlen']
        · simp [assemble, hlen']
        · intro r hr
          simp only [assemble, List.mem_map] at hr
          obtain ⟨cr, _, rfl⟩ := hr
          simp [denseRow, assemble]

end Sageopt.Compile
