/-
Lemmas for `separate_cone_constraints` (C10, T2).
-/
import SageoptModel.Lemmas.SolversDual
import Mathlib.Data.List.GetD

namespace Sageopt.Solvers
open Sageopt

variable {R : Type}

/-! ### structure of `sepPlan` -/

theorem sepPlan_cons_allowed (allowed : CType → Bool) (n : Nat) (co : Cone) (K : List Cone)
    (next : Nat) (h : allowed co.type = true) :
    sepPlan allowed n (co :: K) next =
      (List.replicate co.len none ++ (sepPlan allowed n K next).1,
       co :: (sepPlan allowed n K next).2.1, (sepPlan allowed n K next).2.2) := by
  simp [sepPlan, h]

theorem sepPlan_cons_sep (allowed : CType → Bool) (n : Nat) (co : Cone) (K : List Cone)
    (next : Nat) (h : allowed co.type = false) :
    sepPlan allowed n (co :: K) next =
      (((List.range co.len).map (· + next)).map some ++ (sepPlan allowed n K (next + co.len)).1,
       ⟨.zero, co.len⟩ :: (sepPlan allowed n K (next + co.len)).2.1,
       ⟨co.type, co.len, ((List.range co.len).map (· + next)).map (· + n)⟩ ::
         (sepPlan allowed n K (next + co.len)).2.2) := by
  simp [sepPlan, h]

theorem sepPlan_rows_length (allowed : CType → Bool) (n : Nat) (K : List Cone) (next : Nat) :
    (sepPlan allowed n K next).1.length = totalLen K := by
  induction K generalizing next with
  | nil => rfl
  | cons co K ih =>
    cases h : allowed co.type
    · rw [sepPlan_cons_sep _ _ _ _ _ h]; simp [ih]
    · rw [sepPlan_cons_allowed _ _ _ _ _ h]; simp [ih]

theorem sepPlan_K_types (allowed : CType → Bool) (n : Nat) (K : List Cone) (next : Nat) :
    ∀ co ∈ (sepPlan allowed n K next).2.1, co.type = .zero ∨ allowed co.type = true := by
  induction K generalizing next with
  | nil => intro co hco; simp [sepPlan] at hco
  | cons co K ih =>
    cases h : allowed co.type
    · rw [sepPlan_cons_sep _ _ _ _ _ h]
      intro c hc
      simp only [List.mem_cons] at hc
      rcases hc with rfl | hc
      · left; rfl
      · exact ih _ c hc
    · rw [sepPlan_cons_allowed _ _ _ _ _ h]
      intro c hc
      simp only [List.mem_cons] at hc
      rcases hc with rfl | hc
      · right; exact h
      · exact ih _ c hc

/-- the concatenated blocks of the separated cones: the canonical value of the slack variables -/
def sepSel (allowed : CType → Bool) : List Cone → List R → List R
  | [], _ => []
  | co :: K, s =>
    if allowed co.type then sepSel allowed K (s.drop co.len)
    else s.take co.len ++ sepSel allowed K (s.drop co.len)

theorem sepSel_length (allowed : CType → Bool) (n : Nat) (K : List Cone) (next : Nat) (s : List R)
    (hs : s.length = totalLen K) :
    (sepSel allowed K s).length = ((sepPlan allowed n K next).2.2.map (·.len)).sum := by
  induction K generalizing next s with
  | nil => rfl
  | cons co K ih =>
    simp only [totalLen_cons] at hs
    cases h : allowed co.type
    · rw [sepPlan_cons_sep _ _ _ _ _ h]
      simp [sepSel, h, ih (next + co.len) (s.drop co.len) (by simp; omega)]
      omega
    · rw [sepPlan_cons_allowed _ _ _ _ _ h]
      simp [sepSel, h, ih next (s.drop co.len) (by simp; omega)]

/-! ### the separated slack vector -/

section
variable [CommRing R]

/-- value of the slack variable attached to a row -/
def yval (y : Vec R) : Option Nat → R
  | none => 0
  | some j => y.getD j 0

theorem dot_slackRow_aux (j : Option Nat) (w s : Nat) (y : Vec R) (hy : y.length = w) :
    dot ((List.range' s w).map fun k => if j = some k then (-1 : R) else 0) y
      = -(match j with | some jj => if s ≤ jj then y.getD (jj - s) 0 else 0 | none => 0) := by
  induction w generalizing s y with
  | zero =>
    have : y = [] := by simpa using hy
    subst this
    cases j <;> simp
  | succ w ih =>
    cases y with
    | nil => simp at hy
    | cons y0 y =>
      simp at hy
      rw [List.range'_succ]
      simp only [List.map_cons, dot_cons_cons, ih (s+1) y hy]
      cases j with
      | none => simp
      | some jj =>
        by_cases h1 : jj = s
        · subst h1; simp
        · by_cases h2 : s + 1 ≤ jj
          · have : jj - s = (jj - (s+1)) + 1 := by omega
            simp [h1, h2, this, show s ≤ jj by omega]
          · simp [h1, h2, show ¬ s ≤ jj by omega]

theorem dot_slackRow (w : Nat) (j : Option Nat) (y : Vec R) (hy : y.length = w) :
    dot (slackRow w j) y = - yval y j := by
  unfold slackRow
  rw [List.range_eq_range', dot_slackRow_aux j w 0 y hy]
  cases j <;> simp [yval]

theorem dot_sepRow (w : Nat) (j : Option Nat) (r x y : Vec R) (hr : r.length = x.length)
    (hy : y.length = w) :
    dot (r ++ slackRow w j) (x ++ y) = dot r x - yval y j := by
  rw [dot_append _ _ _ _ hr, dot_slackRow w j y hy]; ring

/-- `s - (slack variable of the row)` -/
def sepVec (s : Vec R) (rows : List (Option Nat)) (y : Vec R) : Vec R :=
  List.zipWith (fun si j => si - yval y j) s rows

theorem slack_sep (n w : Nat) (A : Mat R) (b : Vec R) (rows : List (Option Nat)) (x y : Vec R)
    (hw : ∀ r ∈ A, r.length = n) (hx : x.length = n) (hy : y.length = w) :
    slack ((A.zip rows).map fun (r, j) => r ++ slackRow w j) b (x ++ y)
      = sepVec (slack A b x) rows y := by
  induction A generalizing b rows with
  | nil => simp [slack, mulVec, addVec, sepVec]
  | cons r A ih =>
    cases rows with
    | nil => simp [slack, mulVec, addVec, sepVec]
    | cons j rows =>
      cases b with
      | nil => simp [slack, mulVec, addVec, sepVec]
      | cons bi b =>
        have ih' := ih b rows (fun r' hr' => hw r' (by simp [hr']))
        have hr := hw r (by simp)
        simp only [slack, mulVec, addVec, sepVec] at ih' ⊢
        simp only [List.zip_cons_cons, List.map_cons, List.zipWith_cons_cons, ih',
          dot_sepRow w j r x y (by rw [hr, hx]) hy]
        congr 1
        ring

/-- the values of the slack variables `next, …, next+len-1` -/
def yblk (y : Vec R) (next len : Nat) : Vec R := (List.range len).map fun k => y.getD (k + next) 0

@[simp] theorem length_yblk (y : Vec R) (next len : Nat) : (yblk y next len).length = len := by
  simp [yblk]

theorem sepVec_append (s : Vec R) (r1 r2 : List (Option Nat)) (y : Vec R) (h : r1.length ≤ s.length) :
    sepVec s (r1 ++ r2) y
      = sepVec (s.take r1.length) r1 y ++ sepVec (s.drop r1.length) r2 y := by
  conv => lhs; rw [← List.take_append_drop r1.length s]
  unfold sepVec
  rw [List.zipWith_append (by simp; omega)]

theorem length_sepVec_take (s : Vec R) (r1 : List (Option Nat)) (y : Vec R) (h : r1.length ≤ s.length) :
    (sepVec (s.take r1.length) r1 y).length = r1.length := by
  simp [sepVec]; omega

theorem sepVec_none (u : Vec R) (rows : List (Option Nat)) (y : Vec R)
    (hn : ∀ j ∈ rows, j = none) (hl : u.length ≤ rows.length) : sepVec u rows y = u := by
  induction u generalizing rows with
  | nil => simp [sepVec]
  | cons a u ih =>
    cases rows with
    | nil => simp at hl
    | cons j rows =>
      simp at hl
      have hj := hn j (by simp)
      subst hj
      have := ih rows (fun j hj => hn j (by simp [hj])) hl
      simp only [sepVec] at this ⊢
      simp only [List.zipWith_cons_cons, this]
      simp [yval]

theorem sepVec_some (u : Vec R) (next len : Nat) (y : Vec R) :
    sepVec u (((List.range len).map (· + next)).map some) y
      = List.zipWith (· - ·) u (yblk y next len) := by
  simp [sepVec, yblk, List.zipWith_map_right, yval]

theorem zipWith_sub_all_zero (u v : Vec R) (h : u.length = v.length) :
    (∀ a ∈ List.zipWith (· - ·) u v, a = 0) ↔ u = v := by
  induction u generalizing v with
  | nil => cases v with
    | nil => simp
    | cons b v => simp at h
  | cons a u ih => cases v with
    | nil => simp at h
    | cons b v =>
      simp at h
      simp only [List.zipWith_cons_cons, List.mem_cons, forall_eq_or_imp, ih v h, List.cons.injEq,
        sub_eq_zero]

theorem slackCols_vals (n next len : Nat) (x y : Vec R) (hx : x.length = n) :
    (((List.range len).map (· + next)).map (· + n)).map (fun k => (x ++ y).getD k 0)
      = yblk y next len := by
  simp only [yblk, List.map_map]
  apply List.map_congr_left
  intro k _
  simp only [Function.comp_def]
  rw [List.getD_append_right _ _ _ _ (by omega)]
  congr 1
  omega

theorem yblk_append (pre blk rest : Vec R) :
    yblk (pre ++ (blk ++ rest)) pre.length blk.length = blk := by
  unfold yblk
  apply List.ext_getElem
  · simp
  · intro i h1 h2
    simp only [List.getElem_map, List.getElem_range]
    rw [List.getD_append_right _ _ _ _ (by omega), List.getD_append _ _ _ _ (by omega),
      List.getD_eq_getElem _ _ (by omega)]
    congr 1
    omega

end

/-! ### `separate` in terms of `sepPlan` -/

section
variable [Neg R] [Zero R] [One R]

/-- `allowed` as computed inside `separate` -/
def sepAllowed (dontSep : CType → Bool) : CType → Bool := fun t => t == .zero || dontSep t

theorem separate_K (n : Nat) (A : Mat R) (b : Vec R) (K : List Cone) (dontSep : CType → Bool) :
    (separate n A b K dontSep).K = (sepPlan (sepAllowed dontSep) n K 0).2.1 := rfl

theorem separate_slacks (n : Nat) (A : Mat R) (b : Vec R) (K : List Cone) (dontSep : CType → Bool) :
    (separate n A b K dontSep).slacks = (sepPlan (sepAllowed dontSep) n K 0).2.2 := rfl

theorem separate_b (n : Nat) (A : Mat R) (b : Vec R) (K : List Cone) (dontSep : CType → Bool) :
    (separate n A b K dontSep).b = b := rfl

theorem separate_A (n : Nat) (A : Mat R) (b : Vec R) (K : List Cone) (dontSep : CType → Bool)
    (hA : A.length = totalLen K) :
    (separate n A b K dontSep).A =
      (A.zip (sepPlan (sepAllowed dontSep) n K 0).1).map fun (r, j) =>
        r ++ slackRow (((sepPlan (sepAllowed dontSep) n K 0).2.2.map (·.len)).sum) j := by
  have h : (separate n A b K dontSep).A =
      if (((sepPlan (sepAllowed dontSep) n K 0).2.2.map (·.len)).sum) = 0 then A else
      (A.zip (sepPlan (sepAllowed dontSep) n K 0).1).map fun (r, j) =>
        r ++ slackRow (((sepPlan (sepAllowed dontSep) n K 0).2.2.map (·.len)).sum) j := rfl
  rw [h]
  split
  · rename_i hw
    rw [hw]
    have : (fun (p : List R × Option Nat) => p.1 ++ slackRow 0 p.2) = Prod.fst := by
      funext p; simp [slackRow]
    rw [this, List.map_fst_zip (by rw [sepPlan_rows_length, hA])]
  · rfl

end

/-! ### the equivalence, with a running slack-variable offset -/

section
variable [CommRing R] [LinearOrder R] [IsStrictOrderedRing R]

/-- every separated block of `s` equals the corresponding block of slack variables -/
def SepEq (allowed : CType → Bool) : List Cone → Nat → Vec R → Vec R → Prop
  | [], _, _, _ => True
  | co :: K, next, s, y =>
    if allowed co.type then SepEq allowed K next (s.drop co.len) y
    else s.take co.len = yblk y next co.len ∧ SepEq allowed K (next + co.len) (s.drop co.len) y

omit [LinearOrder R] [IsStrictOrderedRing R] in
theorem sepEq_sepSel (allowed : CType → Bool) (K : List Cone) (next : Nat) (s pre : Vec R)
    (hpre : pre.length = next) (hs : s.length = totalLen K) :
    SepEq allowed K next s (pre ++ sepSel allowed K s) := by
  induction K generalizing next s pre with
  | nil => simp [SepEq]
  | cons co K ih =>
    simp only [totalLen_cons] at hs
    cases h : allowed co.type
    · simp only [SepEq, sepSel, h, Bool.false_eq_true, if_false]
      have htk : (s.take co.len).length = co.len := by simp; omega
      constructor
      · have := yblk_append pre (s.take co.len) (sepSel allowed K (s.drop co.len))
        rw [hpre, htk] at this
        exact this.symm
      · rw [← List.append_assoc]
        exact ih (next + co.len) (s.drop co.len) (pre ++ s.take co.len)
          (by rw [List.length_append, hpre, htk]) (by simp; omega)
    · simp only [SepEq, sepSel, h, if_true]
      exact ih next (s.drop co.len) pre hpre (by simp; omega)

omit [IsStrictOrderedRing R] in
theorem sep_iff (S : ConeSem R) (allowed : CType → Bool) (n : Nat) (x y : Vec R) (hx : x.length = n)
    (K : List Cone) (next : Nat) (s : Vec R) (hs : s.length = totalLen K) :
    (FeasBlocks S.P (sepPlan allowed n K next).2.1 (sepVec s (sepPlan allowed n K next).1 y) ∧
      ∀ sc ∈ (sepPlan allowed n K next).2.2,
        S.P sc.type (sc.cols.map fun k => (x ++ y).getD k 0)) ↔
    (FeasBlocks S.P K s ∧ SepEq allowed K next s y) := by
  induction K generalizing next s with
  | nil => simp [sepPlan, SepEq]
  | cons co K ih =>
    simp only [totalLen_cons] at hs
    have htk : (s.take co.len).length = co.len := by simp; omega
    cases h : allowed co.type
    · have ih' := ih (next + co.len) (s.drop co.len) (by simp; omega)
      rw [sepPlan_cons_sep _ _ _ _ _ h]
      simp only [SepEq, h, Bool.false_eq_true, if_false, feasBlocks_cons, List.forall_mem_cons]
      have hl : (((List.range co.len).map (· + next)).map some).length = co.len := by simp
      have hl' : (((List.range co.len).map (· + next)).map some).length ≤ s.length := by
        rw [hl]; omega
      rw [sepVec_append _ _ _ _ hl', List.take_left' (by rw [length_sepVec_take _ _ _ hl', hl]),
        List.drop_left' (by rw [length_sepVec_take _ _ _ hl', hl]), hl, sepVec_some,
        slackCols_vals n next co.len x y hx, S.zero_iff,
        zipWith_sub_all_zero _ _ (by rw [htk, length_yblk])]
      constructor
      · rintro ⟨⟨he, hfb⟩, hp, hsl⟩
        have := ih'.mp ⟨hfb, hsl⟩
        exact ⟨⟨by rw [he]; exact hp, this.1⟩, he, this.2⟩
      · rintro ⟨⟨hp, hfb⟩, he, hse⟩
        have := ih'.mpr ⟨hfb, hse⟩
        exact ⟨⟨he, this.1⟩, by rw [← he]; exact hp, this.2⟩
    · have ih' := ih next (s.drop co.len) (by simp; omega)
      rw [sepPlan_cons_allowed _ _ _ _ _ h]
      simp only [SepEq, h, if_true, feasBlocks_cons]
      have hl : (List.replicate co.len (none : Option Nat)).length = co.len := by simp
      have hl' : (List.replicate co.len (none : Option Nat)).length ≤ s.length := by
        rw [hl]; omega
      rw [sepVec_append _ _ _ _ hl', List.take_left' (by rw [length_sepVec_take _ _ _ hl', hl]),
        List.drop_left' (by rw [length_sepVec_take _ _ _ hl', hl]), hl,
        sepVec_none _ _ _ (by simp) (by rw [htk, hl])]
      constructor
      · rintro ⟨⟨hp, hfb⟩, hsl⟩
        have := ih'.mp ⟨hfb, hsl⟩
        exact ⟨⟨hp, this.1⟩, this.2⟩
      · rintro ⟨⟨hp, hfb⟩, hse⟩
        have := ih'.mpr ⟨hfb, hse⟩
        exact ⟨⟨hp, this.1⟩, this.2⟩

end

end Sageopt.Solvers
