/-
C15 helper lemmas, part 2: the TERMS of the normalised constraint `mulQ g (monomial g.n m)`: the rows of `g`
shifted by `m`, explicit zero coefficients dropped (unless `g` has a single term).
-/
import SageoptModel.Lemmas.DomBasic

namespace Sageopt.Domain
open Sageopt Sageopt.Sig Sageopt.Sig.Hom Sageopt.Relax Sageopt.Poly Sageopt.Sage Sageopt.RelaxSig

/-- rows shifted by `m`, coefficients kept -/
def dm_shift (m : Exp) (ts : List (Exp × Rat)) : List (Exp × Rat) := ts.map fun t => (addExp t.1 m, t.2)

theorem dm_addExp_inj (a b m : Exp) (ha : a.length = m.length) (hb : b.length = m.length)
    (h : addExp a m = addExp b m) : a = b := by
  unfold addExp at h
  induction a generalizing b m with
  | nil =>
    cases b with
    | nil => rfl
    | cons y b =>
      cases m with
      | nil => simp at hb
      | cons z m => simp at ha
  | cons x a ih =>
    cases m with
    | nil => simp at ha
    | cons z m =>
      cases b with
      | nil => simp at hb
      | cons y b =>
        simp only [List.zipWith_cons_cons, List.cons.injEq] at h
        have e := ih b m (by simpa using ha) (by simpa using hb) h.2
        rw [e, add_right_cancel h.1]

theorem dm_shift_length (m : Exp) (ts : List (Exp × Rat)) : (dm_shift m ts).length = ts.length := by
  simp [dm_shift]

theorem dm_mem_shift {m : Exp} {ts : List (Exp × Rat)} {t : Exp × Rat} :
    t ∈ dm_shift m ts ↔ ∃ u ∈ ts, t = (addExp u.1 m, u.2) := by
  unfold dm_shift
  rw [List.mem_map]
  constructor
  · rintro ⟨u, hu, rfl⟩; exact ⟨u, hu, rfl⟩
  · rintro ⟨u, hu, rfl⟩; exact ⟨u, hu, rfl⟩

theorem dm_shift_nodup (m : Exp) (ts : List (Exp × Rat)) (hw : ∀ t ∈ ts, t.1.length = m.length)
    (hnd : (keys ts).Nodup) : (keys (dm_shift m ts)).Nodup := by
  have e : keys (dm_shift m ts) = (keys ts).map fun a => addExp a m := by
    simp [keys, dm_shift, List.map_map, Function.comp_def]
  rw [e]
  apply List.Nodup.map_on _ hnd
  intro a ha b hb hab
  simp only [keys, List.mem_map] at ha hb
  obtain ⟨t, ht, rfl⟩ := ha
  obtain ⟨u, hu, rfl⟩ := hb
  exact dm_addExp_inj _ _ m (hw t ht) (hw u hu) hab

theorem dm_product_monomial (g : SigQ) (hg : Wf g) (m : Exp) (hm : OnGrid m) (hl : m.length = g.n) :
    (product g (monomial g.n m)).terms = dm_shift m g.terms := by
  have hmg : ∀ t ∈ (monomial g.n m).terms, OnGrid t.1 := by
    rw [dm_monomial_terms _ hm]
    intro t ht
    simp only [List.mem_singleton] at ht
    rw [ht]; exact hm
  rw [product_terms g _ hg.grid hmg, dm_monomial_terms _ hm]
  have e : prodTerms g.terms [(m, (1 : Rat))] = dm_shift m g.terms := by
    unfold prodTerms dm_shift
    simp
  rw [e, consolidate_of_nodup]
  exact dm_shift_nodup m g.terms (fun t ht => by rw [hg.width t ht, hl]) hg.nodup

theorem dm_product_monomial_wf (g : SigQ) (hg : Wf g) (m : Exp) (hl : m.length = g.n) :
    Wf (product g (monomial g.n m)) :=
  product_wf g _ hg (dm_monomial_wf g.n m hl) rfl

theorem dm_keepNZ_shift (g : SigQ) (hg : Wf g) (m : Exp) (hm : OnGrid m) (hl : m.length = g.n) :
    keepNZ isZeroQ (product g (monomial g.n m)) = dm_shift m (g.terms.filter fun t => !isZeroQ t.2) := by
  unfold keepNZ
  rw [dm_product_monomial g hg m hm hl]
  unfold dm_shift
  rw [List.filter_map]
  rfl

/-- every term of the normalised constraint is a shifted term of `g`, with nonzero coefficient unless `g` has
    one term only -/
theorem dm_normalised_mem (g : SigQ) (hg : Wf g) (m : Exp) (hm : OnGrid m) (hl : m.length = g.n)
    (hne : ∃ t ∈ g.terms, t.2 ≠ 0) (t : Exp × Rat) (ht : t ∈ (mulQ g (monomial g.n m)).terms) :
    ∃ u ∈ g.terms, t = (addExp u.1 m, u.2) ∧ (u.2 ≠ 0 ∨ g.terms.length = 1) := by
  have hP := dm_product_monomial g hg m hm hl
  have hK := dm_keepNZ_shift g hg m hm hl
  have hPwf := dm_product_monomial_wf g hg m hl
  have hfilt : ∀ t ∈ dm_shift m (g.terms.filter fun t => !isZeroQ t.2),
      ∃ u ∈ g.terms, t = (addExp u.1 m, u.2) ∧ (u.2 ≠ 0 ∨ g.terms.length = 1) := by
    intro t ht
    obtain ⟨u, hu, rfl⟩ := dm_mem_shift.1 ht
    obtain ⟨hu1, hu2⟩ := List.mem_filter.1 hu
    refine ⟨u, hu1, rfl, Or.inl ?_⟩
    intro h0
    rw [(isZeroQ_iff u.2).2 h0] at hu2
    simp at hu2
  unfold mulQ at ht
  rcases withoutZeros_cases isZeroQ (product g (monomial g.n m)) with ⟨h1, h⟩ | ⟨hk, h⟩ | ⟨hk, h⟩ | h
  · rw [h, hP] at ht
    obtain ⟨u, hu, rfl⟩ := dm_mem_shift.1 ht
    rw [hP, dm_shift_length] at h1
    exact ⟨u, hu, rfl, Or.inr h1⟩
  · rw [h, ← hk, hK] at ht
    exact hfilt t ht
  · exfalso
    obtain ⟨u, hu, hu0⟩ := hne
    rw [hK] at hk
    have : (addExp u.1 m, u.2) ∈ dm_shift m (g.terms.filter fun t => !isZeroQ t.2) := by
      apply dm_mem_shift.2
      refine ⟨u, List.mem_filter.2 ⟨hu, ?_⟩, rfl⟩
      have : isZeroQ u.2 = false := by
        rw [← Bool.not_eq_true, isZeroQ_iff]; exact hu0
      simp [this]
    rw [hk] at this
    simp at this
  · rw [h, mk_terms_of_wf (keepNZ_grid isZeroQ _ hPwf.grid) (keepNZ_nodup isZeroQ _ hPwf.nodup), hK] at ht
    exact hfilt t ht

/-- every term of `g` with a nonzero coefficient survives (shifted) -/
theorem dm_normalised_mem' (g : SigQ) (hg : Wf g) (m : Exp) (hm : OnGrid m) (hl : m.length = g.n)
    (u : Exp × Rat) (hu : u ∈ g.terms) (hu0 : u.2 ≠ 0) :
    (addExp u.1 m, u.2) ∈ (mulQ g (monomial g.n m)).terms := by
  have hP := dm_product_monomial g hg m hm hl
  have hK := dm_keepNZ_shift g hg m hm hl
  have hPwf := dm_product_monomial_wf g hg m hl
  have hin : (addExp u.1 m, u.2) ∈ dm_shift m (g.terms.filter fun t => !isZeroQ t.2) := by
    apply dm_mem_shift.2
    refine ⟨u, List.mem_filter.2 ⟨hu, ?_⟩, rfl⟩
    have : isZeroQ u.2 = false := by
      rw [← Bool.not_eq_true, isZeroQ_iff]; exact hu0
    simp [this]
  unfold mulQ
  rcases withoutZeros_cases isZeroQ (product g (monomial g.n m)) with ⟨_, h⟩ | ⟨_, h⟩ | ⟨hk, h⟩ | h
  · rw [h, hP]; exact dm_mem_shift.2 ⟨u, hu, rfl⟩
  · rw [h, hP]; exact dm_mem_shift.2 ⟨u, hu, rfl⟩
  · exfalso
    rw [hK] at hk
    rw [hk] at hin
    simp at hin
  · rw [h, mk_terms_of_wf (keepNZ_grid isZeroQ _ hPwf.grid) (keepNZ_nodup isZeroQ _ hPwf.nodup), hK]
    exact hin

/-- the number of terms of the normalised constraint -/
theorem dm_normalised_length (g : SigQ) (hg : Wf g) (m : Exp) (hm : OnGrid m) (hl : m.length = g.n) :
    (mulQ g (monomial g.n m)).terms.length = 1 ∨
      (mulQ g (monomial g.n m)).terms.length = nonzeroCount g := by
  have hP := dm_product_monomial g hg m hm hl
  have hK := dm_keepNZ_shift g hg m hm hl
  have hPwf := dm_product_monomial_wf g hg m hl
  unfold mulQ
  rcases withoutZeros_cases isZeroQ (product g (monomial g.n m)) with ⟨h1, h⟩ | ⟨hk, h⟩ | ⟨_, h⟩ | h
  · left; rw [h]; exact h1
  · right
    rw [h, ← hk, hK, dm_shift_length]
    rfl
  · left; rw [h, const_terms]; rfl
  · right
    rw [h, mk_terms_of_wf (keepNZ_grid isZeroQ _ hPwf.grid) (keepNZ_nodup isZeroQ _ hPwf.nodup), hK,
      dm_shift_length]
    rfl

end Sageopt.Domain
