/-
Helper lemmas for the level step of the SAGE hierarchy (`Props/C06Level.lean`): how the function of one AGE summand
changes under a shift of the exponents / a scaling of the coefficients, and facts about the modulator
`Σ_{a ∈ supp} e^{a·x}` written as a list sum.
-/
import SageoptModel.Lemmas.AgeCert
import Mathlib.Tactic.Linarith
import Mathlib.Tactic.Ring

namespace Sageopt.Analysis
open scoped BigOperators

set_option linter.unusedSectionVars false
set_option linter.unusedVariables false

variable {ι : Type} {n : ℕ}

/-- `dotp` is additive in the exponent -/
theorem al_dotp_add (a β x : Fin n → ℝ) : dotp (fun k => a k + β k) x = dotp a x + dotp β x := by
  unfold dotp
  rw [← Finset.sum_add_distrib]
  exact Finset.sum_congr rfl fun k _ => by ring

/-- a shifted monomial is the product of the monomial and the shift monomial -/
theorem al_exp_dotp_add (a β x : Fin n → ℝ) :
    Real.exp (dotp (fun k => a k + β k) x) = Real.exp (dotp a x) * Real.exp (dotp β x) := by
  rw [al_dotp_add, Real.exp_add]

/-- the function of an AGE summand with all exponents shifted by `β` is the old function times `e^{β·x}` -/
theorem al_term_shift (α : ι → Fin n → ℝ) (i : ι) (S : Finset ι) (c : ι → ℝ) (β x : Fin n → ℝ) :
    c i * Real.exp (dotp ((fun j k => α j k + β k) i) x)
        + ∑ j ∈ S, c j * Real.exp (dotp ((fun j k => α j k + β k) j) x)
      = (c i * Real.exp (dotp (α i) x) + ∑ j ∈ S, c j * Real.exp (dotp (α j) x)) * Real.exp (dotp β x) := by
  have e : ∀ j, Real.exp (dotp ((fun j k => α j k + β k) j) x) = Real.exp (dotp (α j) x) * Real.exp (dotp β x) :=
    fun j => al_exp_dotp_add (α j) β x
  rw [add_mul, Finset.sum_mul, e i]
  congr 1
  · ring
  · exact Finset.sum_congr rfl fun j _ => by rw [e j]; ring

/-- the function of an AGE summand with all coefficients scaled by `a` is `a` times the old function -/
theorem al_term_scale (α : ι → Fin n → ℝ) (i : ι) (S : Finset ι) (c : ι → ℝ) (a : ℝ) (x : Fin n → ℝ) :
    (fun j => a * c j) i * Real.exp (dotp (α i) x) + ∑ j ∈ S, (fun j => a * c j) j * Real.exp (dotp (α j) x)
      = a * (c i * Real.exp (dotp (α i) x) + ∑ j ∈ S, c j * Real.exp (dotp (α j) x)) := by
  rw [mul_add, Finset.mul_sum]
  congr 1
  · ring
  · exact Finset.sum_congr rfl fun j _ => by ring

/-- the posynomial with all weights `1` is the modulator -/
theorem al_zipWith_ones (supp : List (Fin n → ℝ)) (x : Fin n → ℝ) :
    (List.zipWith (fun q a => q * Real.exp (dotp a x)) (List.replicate supp.length 1) supp).sum
      = (supp.map fun a => Real.exp (dotp a x)).sum := by
  induction supp with
  | nil => simp
  | cons a as ih =>
    rw [List.length_cons, List.replicate_succ, List.zipWith_cons_cons, List.sum_cons, List.map_cons, List.sum_cons, ih,
      one_mul]

/-- the modulator of a nonempty support is positive everywhere -/
theorem al_modulator_pos (supp : List (Fin n → ℝ)) (hne : supp ≠ []) (x : Fin n → ℝ) :
    0 < (supp.map fun a => Real.exp (dotp a x)).sum := by
  have hnn : ∀ l : List (Fin n → ℝ), 0 ≤ (l.map fun a => Real.exp (dotp a x)).sum := by
    intro l
    induction l with
    | nil => simp
    | cons a as ih =>
      rw [List.map_cons, List.sum_cons]
      have := Real.exp_pos (dotp a x)
      linarith
  cases supp with
  | nil => exact absurd rfl hne
  | cons a as =>
    rw [List.map_cons, List.sum_cons]
    have := Real.exp_pos (dotp a x)
    have := hnn as
    linarith

/-- a list sum of nonnegative reals is nonnegative -/
theorem al_list_sum_nonneg (l : List ℝ) (h : ∀ q ∈ l, 0 ≤ q) : 0 ≤ l.sum := by
  induction l with
  | nil => simp
  | cons a as ih =>
    rw [List.sum_cons]
    have h1 := h a (List.mem_cons_self ..)
    have h2 := ih fun q hq => h q (List.mem_cons_of_mem _ hq)
    linarith

/-- `(v − γ) T^ell ≥ 0` with `T > 0` gives `γ ≤ v` -/
theorem al_bound_of_mul_pow (v γ T : ℝ) (ell : ℕ) (hT : 0 < T) (h : 0 ≤ (v - γ) * T ^ ell) : γ ≤ v := by
  have hp : 0 < T ^ ell := pow_pos hT ell
  have : 0 ≤ v - γ := nonneg_of_mul_nonneg_left h hp
  linarith

end Sageopt.Analysis
