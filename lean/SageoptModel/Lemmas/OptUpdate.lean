/-
C19 helper lemmas: the effect of raising ONE scalar variable on the value of affine expressions and rows.
-/
import SageoptModel.Lemmas.SageSem
import SageoptModel.Lemmas.CompileAtoms
import Mathlib.Tactic.Linarith

namespace Sageopt.Sage
open Sageopt Sageopt.Compile Sageopt.Solvers Sageopt.Analysis

/-- `σ` with the variable `id` raised by `s` -/
noncomputable def opt_upd (σ : Nat → ℝ) (id : Nat) (s : ℝ) : Nat → ℝ := Function.update σ id (σ id + s)

/-- the total coefficient of the variable `id` in an entry list -/
noncomputable def opt_coefAt (ents : List (Nat × Rat)) (id : Nat) : ℝ :=
  (ents.map fun e => if e.1 = id then ((e.2 : Rat) : ℝ) else 0).sum

theorem opt_upd_self (σ : Nat → ℝ) (id : Nat) (s : ℝ) : opt_upd σ id s id = σ id + s := by
  simp [opt_upd]

theorem opt_upd_ne (σ : Nat → ℝ) (id : Nat) (s : ℝ) (id' : Nat) (h : id' ≠ id) : opt_upd σ id s id' = σ id' := by
  simp [opt_upd, Function.update_of_ne h]

theorem opt_sum_upd (σ : Nat → ℝ) (id : Nat) (s : ℝ) (ents : List (Nat × Rat)) :
    (ents.map fun e => ((e.2 : Rat) : ℝ) * opt_upd σ id s e.1).sum
      = (ents.map fun e => ((e.2 : Rat) : ℝ) * σ e.1).sum + s * opt_coefAt ents id := by
  unfold opt_coefAt
  induction ents with
  | nil => simp
  | cons e ents ih =>
    simp only [List.map_cons, List.sum_cons, ih]
    by_cases h : e.1 = id
    · rw [h, opt_upd_self, if_pos rfl]; ring
    · rw [opt_upd_ne σ id s e.1 h, if_neg h]; ring

theorem opt_argVal_upd (σ : Nat → ℝ) (id : Nat) (s : ℝ) (e : AffArg) :
    argVal (opt_upd σ id s) e = argVal σ e + s * opt_coefAt e.co id := by
  unfold argVal
  rw [opt_sum_upd]; ring

theorem opt_coefAt_nil (id : Nat) : opt_coefAt [] id = 0 := by simp [opt_coefAt]

theorem opt_coefAt_append (a b : List (Nat × Rat)) (id : Nat) :
    opt_coefAt (a ++ b) id = opt_coefAt a id + opt_coefAt b id := by
  simp [opt_coefAt]

theorem opt_coefAt_of_not_mem (ents : List (Nat × Rat)) (id : Nat) (h : id ∉ ents.map (·.1)) :
    opt_coefAt ents id = 0 := by
  unfold opt_coefAt
  apply List.sum_eq_zero
  intro x hx
  rw [List.mem_map] at hx
  obtain ⟨e, he, rfl⟩ := hx
  have : e.1 ≠ id := by
    intro heq
    apply h
    rw [List.mem_map]
    exact ⟨e, he, heq⟩
  rw [if_neg this]

theorem opt_coefAt_varE (id' id : Nat) : opt_coefAt (varE id').co id = if id' = id then 1 else 0 := by
  simp [opt_coefAt, varE]

theorem opt_coefAt_constE (q : Rat) (id : Nat) : opt_coefAt (constE q).co id = 0 := by
  simp [opt_coefAt, constE]

theorem opt_coefAt_negE (e : AffE) (id : Nat) : opt_coefAt (negE e).co id = - opt_coefAt e.co id := by
  unfold opt_coefAt negE
  simp only
  induction e.co with
  | nil => simp
  | cons a l ih =>
    simp only [List.map_cons, List.sum_cons, ih]
    by_cases h : a.1 = id
    · simp [h]; ring
    · simp [h]

/-- an assignment that agrees on the ids of an expression gives the same value -/
theorem opt_argVal_congr (σ σ' : Nat → ℝ) (e : AffArg) (h : ∀ id ∈ e.co.map (·.1), σ' id = σ id) :
    argVal σ' e = argVal σ e := by
  unfold argVal
  congr 2
  apply List.map_congr_left
  intro c hc
  rw [h c.1 (List.mem_map.2 ⟨c, hc, rfl⟩)]

theorem opt_argVal_upd_of_not_mem (σ : Nat → ℝ) (id : Nat) (s : ℝ) (e : AffArg) (h : id ∉ e.co.map (·.1)) :
    argVal (opt_upd σ id s) e = argVal σ e := by
  rw [opt_argVal_upd, opt_coefAt_of_not_mem _ _ h]; ring

theorem opt_sum_map_add_mul {α : Type} (l : List α) (f g : α → ℝ) (s : ℝ) :
    (l.map fun a => f a + s * g a).sum = (l.map f).sum + s * (l.map g).sum := by
  induction l with
  | nil => simp
  | cons a l ih => simp only [List.map_cons, List.sum_cons, ih]; ring

theorem opt_le_sum_of_mem (l : List ℝ) (h0 : ∀ a ∈ l, 0 ≤ a) (a : ℝ) (ha : a ∈ l) : a ≤ l.sum := by
  induction l with
  | nil => cases ha
  | cons b l ih =>
    rw [List.sum_cons]
    have hb := h0 b (List.mem_cons_self ..)
    have hl : 0 ≤ l.sum := List.sum_nonneg (fun x hx => h0 x (List.mem_cons_of_mem _ hx))
    rcases List.mem_cons.1 ha with rfl | ha
    · linarith
    · have := ih (fun x hx => h0 x (List.mem_cons_of_mem _ hx)) ha
      linarith

end Sageopt.Sage
