/-
`linearSystemNegatives` / `variableSignPatterns` of `Model/GF2.lean`.  Core Lean only.
-/
import SageoptModel.Lemmas.GF2Null
set_option linter.unusedVariables false
set_option linter.unusedSimpArgs false

namespace Sageopt.GF2

/-- y is consistent with the signs of all nonzero moments:
    sign(prod_j y_j^alpha_ij) = sign(moment_i), i.e. parity of the odd exponents at negative
    coordinates equals [moment_i < 0] -/
def Consistent (alphaOdd : Mat) (nz neg : Row) (y : Row) : Prop :=
  ∀ i, i < alphaOdd.length → entry nz i = true → dotB (alphaOdd.getD i []) y = entry neg i

/-- the property's premise: moments are nonnegative on all-even monomials -/
def EvenNonneg (alphaOdd : Mat) (nz neg : Row) : Prop :=
  ∀ i, i < alphaOdd.length → (alphaOdd.getD i []).any id = false → entry nz i = true →
    entry neg i = false

instance (α : Mat) (nz neg y : Row) : Decidable (Consistent α nz neg y) := by
  unfold Consistent; infer_instance
instance (α : Mat) (nz neg : Row) : Decidable (EvenNonneg α nz neg) := by
  unfold EvenNonneg; infer_instance

/-! ### the pieces of `linearSystemNegatives` -/

def lsnU (α : Mat) (nz : Row) : List Nat :=
  (List.range α.length).filter fun i => entry nz i && (α.getD i []).any id
def lsnW (n : Nat) (α : Mat) (U : List Nat) : List Nat :=
  (List.range n).filter fun j => U.any fun i => entry (α.getD i []) j
def lsnA (α : Mat) (U W : List Nat) : Mat := U.map fun i => W.map fun j => entry (α.getD i []) j
def lsnB (neg : Row) (U : List Nat) : Row := U.map fun i => entry neg i

theorem lsn_eq (n : Nat) (α : Mat) (nz neg : Row) :
    linearSystemNegatives n α nz neg =
      if (lsnU α nz).isEmpty then .trivial else
      if (lsnW n α (lsnU α nz)).isEmpty then .trivial else
      match linsolve (lsnW n α (lsnU α nz)).length (lsnA α (lsnU α nz) (lsnW n α (lsnU α nz)))
          (lsnB neg (lsnU α nz)) with
      | none => .infeasible (lsnA α (lsnU α nz) (lsnW n α (lsnU α nz))) (lsnU α nz)
          (lsnW n α (lsnU α nz))
      | some xw => .solved (scatter n (lsnW n α (lsnU α nz)) xw)
          (lsnA α (lsnU α nz) (lsnW n α (lsnU α nz))) (lsnU α nz) (lsnW n α (lsnU α nz)) := rfl

theorem lsn_trivial (n : Nat) (α : Mat) (nz neg : Row)
    (h : lsnU α nz = [] ∨ lsnW n α (lsnU α nz) = []) :
    linearSystemNegatives n α nz neg = .trivial := by
  rw [lsn_eq]
  rcases h with h | h
  · simp only [h, List.isEmpty_nil, if_true]
  · simp only [h, List.isEmpty_nil, if_true]
    split <;> rfl

theorem lsn_none (n : Nat) (α : Mat) (nz neg : Row)
    (hU : lsnU α nz ≠ []) (hW : lsnW n α (lsnU α nz) ≠ [])
    (h : linsolve (lsnW n α (lsnU α nz)).length (lsnA α (lsnU α nz) (lsnW n α (lsnU α nz)))
      (lsnB neg (lsnU α nz)) = none) :
    linearSystemNegatives n α nz neg =
      .infeasible (lsnA α (lsnU α nz) (lsnW n α (lsnU α nz))) (lsnU α nz) (lsnW n α (lsnU α nz)) := by
  rw [lsn_eq]
  simp only [List.isEmpty_iff, hU, hW, if_false, h]

theorem lsn_some (n : Nat) (α : Mat) (nz neg : Row) (xw : Row)
    (hU : lsnU α nz ≠ []) (hW : lsnW n α (lsnU α nz) ≠ [])
    (h : linsolve (lsnW n α (lsnU α nz)).length (lsnA α (lsnU α nz) (lsnW n α (lsnU α nz)))
      (lsnB neg (lsnU α nz)) = some xw) :
    linearSystemNegatives n α nz neg =
      .solved (scatter n (lsnW n α (lsnU α nz)) xw)
        (lsnA α (lsnU α nz) (lsnW n α (lsnU α nz))) (lsnU α nz) (lsnW n α (lsnU α nz)) := by
  rw [lsn_eq]
  simp only [List.isEmpty_iff, hU, hW, if_false, h]

/-- the vectors added to the particular solution -/
def vspN0 (W : List Nat) (A1 : Mat) (all : Bool) : List Row :=
  if all then nullspace W.length (rref W.length A1 false).1 (rref W.length A1 false).2
  else [List.replicate W.length false]

theorem vsp_trivial (n : Nat) (α : Mat) (nz neg : Row) (all : Bool)
    (h : lsnU α nz = [] ∨ lsnW n α (lsnU α nz) = []) :
    variableSignPatterns n α nz neg all = [List.replicate n false] := by
  unfold variableSignPatterns
  rw [lsn_trivial n α nz neg h]

theorem vsp_none (n : Nat) (α : Mat) (nz neg : Row) (all : Bool)
    (hU : lsnU α nz ≠ []) (hW : lsnW n α (lsnU α nz) ≠ [])
    (h : linsolve (lsnW n α (lsnU α nz)).length (lsnA α (lsnU α nz) (lsnW n α (lsnU α nz)))
      (lsnB neg (lsnU α nz)) = none) :
    variableSignPatterns n α nz neg all = [] := by
  unfold variableSignPatterns
  rw [lsn_none n α nz neg hU hW h]

theorem vsp_some (n : Nat) (α : Mat) (nz neg : Row) (all : Bool) (xw : Row)
    (hU : lsnU α nz ≠ []) (hW : lsnW n α (lsnU α nz) ≠ [])
    (h : linsolve (lsnW n α (lsnU α nz)).length (lsnA α (lsnU α nz) (lsnW n α (lsnU α nz)))
      (lsnB neg (lsnU α nz)) = some xw) :
    variableSignPatterns n α nz neg all =
      (vspN0 (lsnW n α (lsnU α nz)) (lsnA α (lsnU α nz) (lsnW n α (lsnU α nz))) all).map
        fun vec0 => addRow (scatter n (lsnW n α (lsnU α nz)) vec0)
          (scatter n (lsnW n α (lsnU α nz)) xw) := by
  unfold variableSignPatterns
  rw [lsn_some n α nz neg xw hU hW h]
  cases all <;> rfl


/-! ### restriction to the relevant coordinates -/

/-- `y[W]` -/
def restr (W : List Nat) (y : Row) : Row := W.map (entry y)

@[simp] theorem length_restr (W : List Nat) (y : Row) : (restr W y).length = W.length := by
  simp [restr]

theorem entry_map_list (l : List Nat) (f : Nat → Bool) (i : Nat) :
    entry (l.map f) i = if i < l.length then f (l.getD i 0) else false := by
  unfold entry
  by_cases h : i < l.length
  · simp [List.getD_eq_getElem?_getD, h]
  · simp [List.getD_eq_getElem?_getD, h]

theorem dotB_map_map (W : List Nat) (f g : Nat → Bool) :
    dotB (W.map f) (W.map g) = xsum W (fun j => f j && g j) := by
  induction W with
  | nil => rfl
  | cons j W ih => simp [dotB, ih]

theorem any_id_iff (r : Row) : r.any id = true ↔ ∃ j, entry r j = true := by
  rw [List.any_eq_true]
  constructor
  · intro ⟨x, hx, hx'⟩
    obtain ⟨j, _, hj⟩ := (mem_iff_getD r false x).mp hx
    exact ⟨j, by simp only [entry]; rw [hj]; simpa using hx'⟩
  · intro ⟨j, hj⟩
    exact ⟨true, by rw [← hj]; exact getD_mem r false (lt_length_of_entry hj), rfl⟩

theorem mem_lsnU {α : Mat} {nz : Row} {i : Nat} :
    i ∈ lsnU α nz ↔ i < α.length ∧ entry nz i = true ∧ (α.getD i []).any id = true := by
  simp only [lsnU, List.mem_filter, List.mem_range, Bool.and_eq_true]

theorem mem_lsnW {n : Nat} {α : Mat} {U : List Nat} {j : Nat} :
    j ∈ lsnW n α U ↔ j < n ∧ ∃ i, i ∈ U ∧ entry (α.getD i []) j = true := by
  simp only [lsnW, List.mem_filter, List.mem_range, List.any_eq_true]

theorem sorted_lsnW (n : Nat) (α : Mat) (U : List Nat) : (lsnW n α U).Pairwise (· < ·) :=
  List.pairwise_lt_range.filter _

theorem lsnW_lt {n : Nat} {α : Mat} {U : List Nat} : ∀ j ∈ lsnW n α U, j < n :=
  fun j hj => (mem_lsnW.mp hj).1

theorem dotB_restr {n : Nat} {α : Mat} {U : List Nat} {i : Nat} (hi : i ∈ U)
    (hl : (α.getD i []).length ≤ n) (y : Row) :
    dotB ((lsnW n α U).map fun j => entry (α.getD i []) j) (restr (lsnW n α U) y) =
      dotB (α.getD i []) y := by
  rw [restr, dotB_map_map, dotB_eq_xsum _ _ n hl]
  unfold lsnW
  apply xsum_filter
  intro j _ hj
  rw [List.any_eq_true]
  refine ⟨i, hi, ?_⟩
  cases h : entry (α.getD i []) j with
  | true => rfl
  | false => rw [h] at hj; simp at hj

theorem solves_lsn (α : Mat) (U W : List Nat) (neg z : Row) :
    Solves (lsnA α U W) (lsnB neg U) z ↔
      ∀ i ∈ U, dotB (W.map fun j => entry (α.getD i []) j) z = entry neg i := by
  unfold Solves lsnA lsnB
  rw [List.zip_map']
  simp only [List.mem_map, forall_exists_index, and_imp, forall_apply_eq_imp_iff₂]

theorem sol_lsn (α : Mat) (U W : List Nat) (z : Row) :
    Sol (lsnA α U W) z ↔ ∀ i ∈ U, dotB (W.map fun j => entry (α.getD i []) j) z = false := by
  unfold Sol lsnA
  simp only [List.mem_map, forall_exists_index, and_imp, forall_apply_eq_imp_iff₂]

theorem wf_lsnA (α : Mat) (U W : List Nat) : WF W.length (lsnA α U W) := by
  intro r hr
  simp only [lsnA, List.mem_map] at hr
  obtain ⟨i, _, rfl⟩ := hr
  simp

/-- consistency with the moment signs is the linear system solved by `linearSystemNegatives` -/
theorem consistent_iff {n : Nat} {α : Mat} {nz neg : Row} (hα : WF n α)
    (hpos : EvenNonneg α nz neg) (y : Row) :
    Consistent α nz neg y ↔
      Solves (lsnA α (lsnU α nz) (lsnW n α (lsnU α nz))) (lsnB neg (lsnU α nz))
        (restr (lsnW n α (lsnU α nz)) y) := by
  rw [solves_lsn]
  constructor
  · intro h i hi
    obtain ⟨h1, h2, h3⟩ := mem_lsnU.mp hi
    rw [dotB_restr hi (by rw [hα _ (getD_mem α [] h1)]; exact Nat.le_refl _)]
    exact h i h1 h2
  · intro h i h1 h2
    by_cases h3 : (α.getD i []).any id = true
    · have hi : i ∈ lsnU α nz := mem_lsnU.mpr ⟨h1, h2, h3⟩
      rw [← h i hi, dotB_restr hi (by rw [hα _ (getD_mem α [] h1)]; exact Nat.le_refl _)]
    · have h3' : (α.getD i []).any id = false := by simpa using h3
      rw [hpos i h1 h3' h2]
      apply dotB_zero_left
      intro j
      cases hj : entry (α.getD i []) j with
      | false => rfl
      | true => exact absurd ((any_id_iff _).mpr ⟨j, hj⟩) h3

/-! ### scatter -/

@[simp] theorem length_scatter (n : Nat) (W : List Nat) (z : Row) : (scatter n W z).length = n := by
  simp [scatter]

theorem entry_scatter_getD {n : Nat} {W : List Nat} (z : Row) {k : Nat}
    (hs : W.Pairwise (· < ·)) (hk : k < W.length) (hn : W.getD k 0 < n) :
    entry (scatter n W z) (W.getD k 0) = entry z k := by
  unfold scatter
  rw [entry_map_range]
  simp [-List.getD_eq_getElem?_getD, hn, idxOf?_getD_sorted hs hk]

theorem restr_scatter {n : Nat} {W : List Nat} {z : Row} (hs : W.Pairwise (· < ·))
    (hb : ∀ j ∈ W, j < n) (hz : z.length = W.length) : restr W (scatter n W z) = z := by
  apply row_ext (by simp [hz])
  intro k
  rw [restr, entry_map_list]
  by_cases hk : k < W.length
  · simp only [hk, if_true]
    exact entry_scatter_getD z hs hk (hb _ (getD_mem W 0 hk))
  · simp only [hk, if_false]
    exact (entry_of_length_le (r := z) (k := k) (by omega)).symm

theorem restr_addRow (W : List Nat) (a b : Row) :
    restr W (addRow a b) = addRow (restr W a) (restr W b) := by
  apply row_ext
  · rw [length_addRow]; simp
  · intro k
    rw [entry_addRow]
    simp only [restr, entry_map_list]
    by_cases hk : k < W.length
    · simp only [hk, if_true, entry_addRow]
    · simp only [hk, if_false]; rfl

theorem solves_add {A : Mat} {b x v : Row} (hx : Solves A b x) (hv : Sol A v) :
    Solves A b (addRow v x) := by
  intro q hq
  rw [dotB_addRow_right, hx q hq, hv q.1 (List.of_mem_zip hq).1]
  simp

theorem replicate_mem_subsetSums (n : Nat) (vs : List Row) :
    List.replicate n false ∈ subsetSums n vs := by
  induction vs with
  | nil => simp [subsetSums]
  | cons v vs ih => simp [subsetSums, ih]

theorem vspN0_ne_nil (W : List Nat) (A1 : Mat) (all : Bool) : vspN0 W A1 all ≠ [] := by
  unfold vspN0
  cases all with
  | false => simp
  | true =>
    simp only [if_true]
    intro h
    have := replicate_mem_subsetSums W.length
      (nullspaceBasis W.length (rref W.length A1 false).1 (rref W.length A1 false).2)
    unfold nullspace at h
    rw [h] at this
    simp at this

theorem vspN0_sol {W : List Nat} {A1 : Mat} (hA : WF W.length A1) (all : Bool) :
    ∀ v ∈ vspN0 W A1 all, v.length = W.length ∧ Sol A1 v := by
  intro v hv
  unfold vspN0 at hv
  cases all with
  | false =>
    simp at hv
    subst hv
    refine ⟨by simp, ?_⟩
    intro r _
    exact dotB_zero_right _ _ (entry_replicate_false _)
  | true =>
    simp only [if_true] at hv
    obtain ⟨h1, h2⟩ := nullspace_sol (rref_false_rref W.length A1 hA) v hv
    exact ⟨h1, (rref_sol W.length A1 false v hA).mp h2⟩

/-! ### the three properties -/

/-- in the trivial branch no row with a nonzero moment has an odd entry -/
theorem trivial_no_odd {n : Nat} {α : Mat} {nz : Row} (hα : WF n α)
    (h : lsnU α nz = [] ∨ lsnW n α (lsnU α nz) = []) {i : Nat} (h1 : i < α.length)
    (h2 : entry nz i = true) : ∀ j, entry (α.getD i []) j = false := by
  intro j
  cases hj : entry (α.getD i []) j with
  | false => rfl
  | true =>
    have hi : i ∈ lsnU α nz := mem_lsnU.mpr ⟨h1, h2, (any_id_iff _).mpr ⟨j, hj⟩⟩
    have hjn : j < n := by
      have := lt_length_of_entry hj
      rwa [hα _ (getD_mem α [] h1)] at this
    have hjW : j ∈ lsnW n α (lsnU α nz) := mem_lsnW.mpr ⟨hjn, i, hi, hj⟩
    rcases h with h | h
    · rw [h] at hi; simp at hi
    · rw [h] at hjW; simp at hjW

theorem vsp_sound {n : Nat} {α : Mat} {nz neg : Row} (all : Bool) (hα : WF n α)
    (hpos : EvenNonneg α nz neg) (y : Row) (hy : y ∈ variableSignPatterns n α nz neg all) :
    y.length = n ∧ Consistent α nz neg y := by
  by_cases htriv : lsnU α nz = [] ∨ lsnW n α (lsnU α nz) = []
  · rw [vsp_trivial n α nz neg all htriv] at hy
    simp at hy
    subst hy
    refine ⟨by simp, ?_⟩
    intro i h1 h2
    have hz := trivial_no_odd hα htriv h1 h2
    rw [dotB_zero_left _ _ hz]
    have : (α.getD i []).any id = false := by
      cases h : (α.getD i []).any id with
      | false => rfl
      | true =>
        obtain ⟨j, hj⟩ := (any_id_iff _).mp h
        rw [hz j] at hj; cases hj
    exact (hpos i h1 this h2).symm
  · have hU : lsnU α nz ≠ [] := fun h => htriv (Or.inl h)
    have hW : lsnW n α (lsnU α nz) ≠ [] := fun h => htriv (Or.inr h)
    cases hls : linsolve (lsnW n α (lsnU α nz)).length
        (lsnA α (lsnU α nz) (lsnW n α (lsnU α nz))) (lsnB neg (lsnU α nz)) with
    | none =>
      rw [vsp_none n α nz neg all hU hW hls] at hy
      simp at hy
    | some xw =>
      rw [vsp_some n α nz neg all xw hU hW hls, List.mem_map] at hy
      obtain ⟨v, hv, rfl⟩ := hy
      have hwf := wf_lsnA α (lsnU α nz) (lsnW n α (lsnU α nz))
      obtain ⟨hx1, hx2⟩ := linsolve_sound' _ _ _ xw hwf hls
      obtain ⟨hv1, hv2⟩ := vspN0_sol hwf all v hv
      refine ⟨length_addRow_eq (by simp) (by simp), ?_⟩
      rw [consistent_iff hα hpos, restr_addRow,
        restr_scatter (sorted_lsnW _ _ _) lsnW_lt hv1, restr_scatter (sorted_lsnW _ _ _) lsnW_lt hx1]
      exact solves_add hx2 hv2

theorem vsp_nil_iff {n : Nat} {α : Mat} {nz neg : Row} (all : Bool) (hα : WF n α)
    (hpos : EvenNonneg α nz neg) :
    variableSignPatterns n α nz neg all = [] ↔ ¬ ∃ y : Row, Consistent α nz neg y := by
  constructor
  · intro hnil ⟨y, hy⟩
    by_cases htriv : lsnU α nz = [] ∨ lsnW n α (lsnU α nz) = []
    · rw [vsp_trivial n α nz neg all htriv] at hnil
      simp at hnil
    · have hU : lsnU α nz ≠ [] := fun h => htriv (Or.inl h)
      have hW : lsnW n α (lsnU α nz) ≠ [] := fun h => htriv (Or.inr h)
      cases hls : linsolve (lsnW n α (lsnU α nz)).length
          (lsnA α (lsnU α nz) (lsnW n α (lsnU α nz))) (lsnB neg (lsnU α nz)) with
      | none =>
        exact linsolve_complete' _ _ _ (wf_lsnA _ _ _) hls _ ((consistent_iff hα hpos y).mp hy)
      | some xw =>
        rw [vsp_some n α nz neg all xw hU hW hls, List.map_eq_nil_iff] at hnil
        exact vspN0_ne_nil _ _ _ hnil
  · intro hno
    cases hv : variableSignPatterns n α nz neg all with
    | nil => rfl
    | cons y ys =>
      exfalso
      apply hno
      exact ⟨y, (vsp_sound all hα hpos y (by rw [hv]; simp)).2⟩

theorem vsp_complete {n : Nat} {α : Mat} {nz neg : Row} (hα : WF n α)
    (hpos : EvenNonneg α nz neg) (y : Row) (hy : y.length = n) (hc : Consistent α nz neg y) :
    ∃ y' ∈ variableSignPatterns n α nz neg true,
      ∀ j, j < n → (∃ i, i < α.length ∧ entry nz i = true ∧ entry (α.getD i []) j = true) →
        entry y' j = entry y j := by
  by_cases htriv : lsnU α nz = [] ∨ lsnW n α (lsnU α nz) = []
  · rw [vsp_trivial n α nz neg true htriv]
    refine ⟨List.replicate n false, by simp, ?_⟩
    intro j _ ⟨i, h1, h2, h3⟩
    rw [trivial_no_odd hα htriv h1 h2 j] at h3
    cases h3
  · have hU : lsnU α nz ≠ [] := fun h => htriv (Or.inl h)
    have hW : lsnW n α (lsnU α nz) ≠ [] := fun h => htriv (Or.inr h)
    have hwf := wf_lsnA α (lsnU α nz) (lsnW n α (lsnU α nz))
    have hsy := (consistent_iff hα hpos y).mp hc
    cases hls : linsolve (lsnW n α (lsnU α nz)).length
        (lsnA α (lsnU α nz) (lsnW n α (lsnU α nz))) (lsnB neg (lsnU α nz)) with
    | none => exact absurd hsy (linsolve_complete' _ _ _ hwf hls _)
    | some xw =>
      obtain ⟨hx1, hx2⟩ := linsolve_sound' _ _ _ xw hwf hls
      rw [vsp_some n α nz neg true xw hU hW hls]
      generalize hWd : lsnW n α (lsnU α nz) = W at *
      generalize hAd : lsnA α (lsnU α nz) W = A1 at *
      -- the difference of the two solutions lies in the null space
      have hker : Sol A1 (addRow (restr W y) xw) := by
        intro r hr
        obtain ⟨k, hk, rfl⟩ := (mem_iff_getD A1 [] r).mp hr
        have hlen : A1.length = (lsnB neg (lsnU α nz)).length := by
          rw [← hAd]; simp [lsnA, lsnB]
        have hmem : (A1.getD k [], (lsnB neg (lsnU α nz)).getD k false) ∈
            A1.zip (lsnB neg (lsnU α nz)) := by
          rw [List.mem_iff_getElem]
          refine ⟨k, by simp [← hlen, hk], ?_⟩
          rw [List.getElem_zip, getD_of_lt A1 [] hk, getD_of_lt _ false (by omega)]
        rw [dotB_addRow_right, hsy _ hmem, hx2 _ hmem]
        simp
      have hmemN : addRow (restr W y) xw ∈ vspN0 W A1 true := by
        unfold vspN0
        simp only [if_true]
        exact nullspace_complete_rref (rref_false_rref W.length A1 hwf) _
          (length_addRow_eq (by simp) hx1) ((rref_sol W.length A1 false _ hwf).mpr hker)
      refine ⟨_, List.mem_map.mpr ⟨_, hmemN, rfl⟩, ?_⟩
      intro j hjn ⟨i, h1, h2, h3⟩
      have hi : i ∈ lsnU α nz := mem_lsnU.mpr ⟨h1, h2, (any_id_iff _).mpr ⟨j, h3⟩⟩
      have hjW : j ∈ W := by rw [← hWd]; exact mem_lsnW.mpr ⟨hjn, i, hi, h3⟩
      obtain ⟨k, hk, rfl⟩ := (mem_iff_getD W 0 j).mp hjW
      have hs : W.Pairwise (· < ·) := by rw [← hWd]; exact sorted_lsnW _ _ _
      rw [entry_addRow, entry_scatter_getD _ hs hk hjn, entry_scatter_getD _ hs hk hjn,
        entry_addRow]
      simp only [restr, entry_map_list, hk, if_true]
      cases entry y (W.getD k 0) <;> cases entry xw k <;> rfl


/-! ### the reduction of sign consistency to GF(2) -/

/-- for y ∈ {-1,+1}^n (as negativity indicator `ng`) the sign of prod_j y_j^(a_j) -/
def signProd : List Bool → List Nat → Int
  | ng :: ngs, a :: as => (if ng then (-1 : Int) else 1) ^ a * signProd ngs as
  | _, _ => 1

theorem neg_one_pow_int (a : Nat) : (-1 : Int) ^ a = if a % 2 = 1 then -1 else 1 := by
  induction a with
  | zero => simp
  | succ a ih =>
    rw [Int.pow_succ, ih]
    by_cases h : a % 2 = 1
    · have : ¬ (a + 1) % 2 = 1 := by omega
      simp [h, this]
    · have : (a + 1) % 2 = 1 := by omega
      simp [h, this]

theorem signProd_eq (ng : List Bool) (a : List Nat) :
    signProd ng a = if dotB (a.map (· % 2 = 1)) ng then -1 else 1 := by
  induction ng generalizing a with
  | nil => simp [signProd, dotB_nil_right]
  | cons g ngs ih =>
    cases a with
    | nil => simp [signProd, dotB_nil_left]
    | cons a as =>
      simp only [signProd, List.map_cons, dotB, ih as]
      cases g with
      | false => simp [Int.one_pow]
      | true =>
        simp only [if_true]
        rw [neg_one_pow_int]
        by_cases h : a % 2 = 1 <;> cases dotB (as.map (· % 2 = 1)) ngs <;> simp [h]

end Sageopt.GF2
