/-
Circuit completeness of the semantic ordinary AGE certificate (closed form via the circuit number) and the
midpoint circuit `c₀ + c₂ e^{2x} − β eˣ`.  Used by `Props/C06.lean`.
-/
import SageoptModel.Lemmas.AgeCert
import Mathlib.Analysis.SpecialFunctions.Pow.Real
import Mathlib.Analysis.SpecialFunctions.Sqrt
import Mathlib.Tactic.Linarith
import Mathlib.Tactic.FieldSimp
import Mathlib.Tactic.Ring

namespace Sageopt.Analysis
open scoped BigOperators

set_option linter.unusedSectionVars false
set_option linter.unusedVariables false

variable {ι : Type} {n : ℕ}

/-- the tight cone row: with `epi = ν log(ν/(e c))` the row holds with equality -/
theorem ai_row_tight (c ν : ℝ) (hc : 0 < c) (hν : 0 < ν) :
    InExpCone (-(ν * Real.log (ν / (Real.exp 1 * c)))) (Real.exp 1 * c) ν := by
  left
  refine ⟨hν, le_of_eq ?_⟩
  have he : 0 < Real.exp 1 := Real.exp_pos 1
  have hpos : 0 < ν / (Real.exp 1 * c) := div_pos hν (mul_pos he hc)
  have e1 : -(ν * Real.log (ν / (Real.exp 1 * c))) / ν = -Real.log (ν / (Real.exp 1 * c)) := by
    field_simp
  rw [e1, Real.exp_neg, Real.exp_log hpos]
  field_simp

/-- positivity of the circuit number -/
theorem ai_theta_pos (S : Finset ι) (c lam : ι → ℝ) (hlam : ∀ j ∈ S, 0 < lam j) (hc : ∀ j ∈ S, 0 < c j) :
    0 < ∏ j ∈ S, (c j / lam j) ^ (lam j) :=
  Finset.prod_pos fun j hj => Real.rpow_pos_of_pos (div_pos (hc j hj) (hlam j hj)) _

/-- logarithm of the circuit number -/
theorem ai_log_theta (S : Finset ι) (c lam : ι → ℝ) (hlam : ∀ j ∈ S, 0 < lam j) (hc : ∀ j ∈ S, 0 < c j) :
    Real.log (∏ j ∈ S, (c j / lam j) ^ (lam j)) = ∑ j ∈ S, lam j * Real.log (c j / lam j) := by
  rw [Real.log_prod]
  · apply Finset.sum_congr rfl; intro j hj
    exact Real.log_rpow (div_pos (hc j hj) (hlam j hj)) _
  · intro j hj
    exact (Real.rpow_pos_of_pos (div_pos (hc j hj) (hlam j hj)) _).ne'

/-- circuit completeness in closed form -/
theorem ai_circuit_complete (α : ι → Fin n → ℝ) (i : ι) (S : Finset ι) (c lam : ι → ℝ)
    (hlam : ∀ j ∈ S, 0 < lam j) (hsum : ∑ j ∈ S, lam j = 1)
    (hconv : ∀ k : Fin n, α i k = ∑ j ∈ S, lam j * α j k)
    (hc : ∀ j ∈ S, 0 < c j)
    (hbeta : -(c i) ≤ ∏ j ∈ S, (c j / lam j) ^ (lam j)) :
    OrdAgeCert α i S c := by
  set Θ := ∏ j ∈ S, (c j / lam j) ^ (lam j) with hΘ
  have hΘpos : 0 < Θ := ai_theta_pos S c lam hlam hc
  have hlogΘ : Real.log Θ = ∑ j ∈ S, lam j * Real.log (c j / lam j) := ai_log_theta S c lam hlam hc
  have he : 0 < Real.exp 1 := Real.exp_pos 1
  refine ⟨fun j => lam j * Θ, fun j => lam j * Θ * Real.log (lam j * Θ / (Real.exp 1 * c j)), ?_, ?_, ?_⟩
  · intro j hj
    exact ai_row_tight (c j) (lam j * Θ) (hc j hj) (mul_pos (hlam j hj) hΘpos)
  · have hterm : ∀ j ∈ S, lam j * Θ * Real.log (lam j * Θ / (Real.exp 1 * c j))
        = Θ * (lam j * (Real.log Θ - 1) - lam j * Real.log (c j / lam j)) := by
      intro j hj
      have hl := hlam j hj
      have hcj := hc j hj
      have e1 : Real.log (lam j * Θ / (Real.exp 1 * c j))
          = Real.log (lam j) + Real.log Θ - (1 + Real.log (c j)) := by
        rw [Real.log_div (mul_pos hl hΘpos).ne' (mul_pos he hcj).ne', Real.log_mul hl.ne' hΘpos.ne',
          Real.log_mul he.ne' hcj.ne', Real.log_exp]
      have e2 : Real.log (c j / lam j) = Real.log (c j) - Real.log (lam j) :=
        Real.log_div hcj.ne' hl.ne'
      rw [e1, e2]; ring
    have hS : ∑ j ∈ S, lam j * Θ * Real.log (lam j * Θ / (Real.exp 1 * c j)) = -Θ := by
      rw [Finset.sum_congr rfl hterm, ← Finset.mul_sum, Finset.sum_sub_distrib, ← Finset.sum_mul, hsum,
        ← hlogΘ]
      ring
    show 0 ≤ c i - ∑ j ∈ S, lam j * Θ * Real.log (lam j * Θ / (Real.exp 1 * c j))
    rw [hS]; linarith
  · intro k
    have e : ∑ j ∈ S, lam j * Θ * (α j k - α i k)
        = Θ * (∑ j ∈ S, lam j * α j k - (∑ j ∈ S, lam j) * α i k) := by
      rw [Finset.sum_mul, ← Finset.sum_sub_distrib, Finset.mul_sum]
      apply Finset.sum_congr rfl; intro j _; ring
    show ∑ j ∈ S, lam j * Θ * (α j k - α i k) = 0
    rw [e, hsum, ← hconv k]; ring

/-- circuit number of the midpoint circuit -/
theorem ai_midpoint_theta (c0 c2 : ℝ) (h0 : 0 < c0) (h2 : 0 < c2) :
    (c0 / (1 / 2)) ^ (1 / 2 : ℝ) * (c2 / (1 / 2)) ^ (1 / 2 : ℝ) = 2 * Real.sqrt (c0 * c2) := by
  rw [← Real.sqrt_eq_rpow, ← Real.sqrt_eq_rpow, ← Real.sqrt_mul (by positivity)]
  have e : c0 / (1 / 2) * (c2 / (1 / 2)) = 2 ^ 2 * (c0 * c2) := by ring
  rw [e, Real.sqrt_mul (by positivity), Real.sqrt_sq (by norm_num)]

/-- the midpoint circuit is nonnegative iff `β ≤ 2 √(c₀ c₂)` -/
theorem ai_midpoint_nonneg_iff (c0 c2 β : ℝ) (h0 : 0 < c0) (h2 : 0 < c2) :
    (∀ x : ℝ, 0 ≤ c0 + c2 * Real.exp (2 * x) - β * Real.exp x) ↔ β ≤ 2 * Real.sqrt (c0 * c2) := by
  have ha : 0 < Real.sqrt c0 := Real.sqrt_pos.mpr h0
  have hb : 0 < Real.sqrt c2 := Real.sqrt_pos.mpr h2
  have ha2 : Real.sqrt c0 * Real.sqrt c0 = c0 := Real.mul_self_sqrt h0.le
  have hb2 : Real.sqrt c2 * Real.sqrt c2 = c2 := Real.mul_self_sqrt h2.le
  have hab : Real.sqrt (c0 * c2) = Real.sqrt c0 * Real.sqrt c2 := Real.sqrt_mul h0.le c2
  have hexp2 : ∀ x : ℝ, Real.exp (2 * x) = Real.exp x * Real.exp x := by
    intro x; rw [← Real.exp_add]; congr 1; ring
  rw [hab]
  set a := Real.sqrt c0
  set b := Real.sqrt c2
  constructor
  · intro h
    have hx := h (Real.log (a / b))
    rw [hexp2, Real.exp_log (div_pos ha hb)] at hx
    have e : c0 + c2 * (a / b * (a / b)) - β * (a / b) = (a / b) * (2 * a * b - β) := by
      rw [← ha2, ← hb2]; field_simp; ring
    rw [e] at hx
    have h3 : 0 ≤ 2 * a * b - β := by
      by_contra hneg
      have : (a / b) * (2 * a * b - β) < 0 := mul_neg_of_pos_of_neg (div_pos ha hb) (not_le.mp hneg)
      linarith
    linarith
  · intro h x
    rw [hexp2]
    have hu : 0 < Real.exp x := Real.exp_pos x
    set u := Real.exp x
    have h1 : β * u ≤ 2 * (a * b) * u := mul_le_mul_of_nonneg_right h hu.le
    have h2' : 0 ≤ (a - b * u) ^ 2 := sq_nonneg _
    have e : c0 + c2 * (u * u) - 2 * (a * b) * u = (a - b * u) ^ 2 := by
      rw [← ha2, ← hb2]; ring
    linarith

/-- certificate for a two-point cover whose inner exponent is the midpoint -/
theorem ai_midpoint_cert [DecidableEq ι] (α : ι → Fin n → ℝ) (i j0 j2 : ι) (hne : j0 ≠ j2) (c : ι → ℝ)
    (h0 : 0 < c j0) (h2 : 0 < c j2) (hmid : ∀ k, α i k = (α j0 k + α j2 k) / 2)
    (hβ : -(c i) ≤ 2 * Real.sqrt (c j0 * c j2)) :
    OrdAgeCert α i {j0, j2} c := by
  apply ai_circuit_complete α i {j0, j2} c (fun _ => 1 / 2)
  · intro j _; norm_num
  · rw [Finset.sum_pair hne]; norm_num
  · intro k; rw [Finset.sum_pair hne, hmid k]; ring
  · intro j hj
    rw [Finset.mem_insert, Finset.mem_singleton] at hj
    rcases hj with rfl | rfl
    · exact h0
    · exact h2
  · rw [Finset.prod_pair hne, ai_midpoint_theta _ _ h0 h2]; exact hβ

end Sageopt.Analysis
