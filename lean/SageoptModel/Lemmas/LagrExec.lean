/-
Helper lemmas for C04, part 4: kernel-reducible forms of `combsWithRep` / `qFold`.
`combsWithRep` recurses on a lexicographic measure, so it is compiled by well-founded recursion and
does not reduce under `decide`; `lg_combs` is the same function by structural recursion.
-/
import SageoptModel.Model.Relax

namespace Sageopt.Relax
open Sageopt Sageopt.Sig

def lg_combsStep {α : Type} (prev : List α → List (List α)) : List α → List (List α)
  | [] => []
  | x :: xs => (prev (x :: xs)).map (x :: ·) ++ lg_combsStep prev xs

def lg_combs {α : Type} : Nat → List α → List (List α)
  | 0 => fun _ => [[]]
  | k + 1 => lg_combsStep (lg_combs k)

theorem lg_combs_eq {α : Type} (k : Nat) (xs : List α) : combsWithRep k xs = lg_combs k xs := by
  induction k, xs using combsWithRep.induct with
  | case1 xs => simp [combsWithRep, lg_combs]
  | case2 k => simp [combsWithRep, lg_combs, lg_combsStep]
  | case3 k x xs ih1 ih2 =>
    rw [combsWithRep, ih1, ih2]
    simp [lg_combs, lg_combsStep]

/-- `qFold` with the structurally recursive enumeration -/
def lg_qFoldS (_n : Nat) (cons : List SigQ) (q : Nat) : List SigQ :=
  if cons.isEmpty || q == 1 then cons
  else
    let prods := (List.range q).flatMap fun qq =>
      (lg_combs (qq + 1) cons).filterMap fun comb =>
        match comb with
        | [] => none
        | g :: gs =>
          let pr := gs.foldl mulQ g
          if nonzeroCount pr > 1 then some pr else none
    prods.foldl (fun acc g => if acc.any (sameSig g) then acc else acc ++ [g]) []

theorem lg_qFold_eq (n : Nat) (cons : List SigQ) (q : Nat) : qFold n cons q = lg_qFoldS n cons q := by
  unfold qFold lg_qFoldS
  simp only [lg_combs_eq]
  rfl

end Sageopt.Relax
