/-
`nullspaceBasis` / `nullspace` of `Model/GF2.lean` on a reduced row echelon form.  Core Lean only.
-/
import SageoptModel.Lemmas.GF2Solve
set_option linter.unusedVariables false
set_option linter.unusedSimpArgs false

namespace Sageopt.GF2

/-- the free (non-pivot) columns, increasing -/
def freeCols (n : Nat) (p : List Nat) : List Nat := (List.range n).filter fun j => !(p.contains j)

/-- the basis vector of the free column `f` -/
def basisVec (n : Nat) (R : Mat) (p : List Nat) (f : Nat) : Row :=
  (List.range n).map fun j =>
    if j = f then true
    else match p.idxOf? j with
      | some i => entry (R.getD i []) f
      | none => false

theorem nullspaceBasis_eq (n : Nat) (R : Mat) (p : List Nat) :
    nullspaceBasis n R p = (freeCols n p).map (basisVec n R p) := rfl

theorem mem_freeCols {n : Nat} {p : List Nat} {f : Nat} : f ∈ freeCols n p ↔ f < n ∧ f ∉ p := by
  simp [freeCols, List.mem_filter, List.mem_range]

@[simp] theorem length_basisVec (n : Nat) (R : Mat) (p : List Nat) (f : Nat) :
    (basisVec n R p f).length = n := by simp [basisVec]

theorem entry_basisVec_free {n : Nat} {R : Mat} {p : List Nat} {f j : Nat} (hj : j ∉ p) :
    entry (basisVec n R p f) j = (decide (j < n) && decide (j = f)) := by
  unfold basisVec
  rw [entry_map_range]
  have : p.idxOf? j = none := List.idxOf?_eq_none_iff.mpr hj
  by_cases h1 : j < n <;> by_cases h2 : j = f <;> simp [h1, h2, this]

theorem idxOf?_getD_sorted {p : List Nat} (hs : p.Pairwise (· < ·)) {i : Nat} (hi : i < p.length) :
    p.idxOf? (p.getD i 0) = some i := by
  rw [List.idxOf?_eq_some_iff]
  refine ⟨hi, ?_, ?_⟩
  · rw [getD_of_lt p 0 hi]
  · intro j hj
    have := sorted_getD hs hj hi
    rw [getD_of_lt p 0 (by omega : j < p.length)] at this
    omega

theorem entry_basisVec_pivot {n : Nat} {R : Mat} {p : List Nat} {f i : Nat}
    (hs : p.Pairwise (· < ·)) (hi : i < p.length) (hn : p.getD i 0 < n) (hf : f ∉ p) :
    entry (basisVec n R p f) (p.getD i 0) = entry (R.getD i []) f := by
  unfold basisVec
  rw [entry_map_range]
  have hne : p.getD i 0 ≠ f := by
    intro h; apply hf; rw [← h]; exact getD_mem p 0 hi
  simp [-List.getD_eq_getElem?_getD, hn, hne, idxOf?_getD_sorted hs hi]

theorem xsum_range_delta (n c : Nat) (a : Bool) (hc : c < n) :
    xsum (List.range n) (fun j => decide (j = c) && a) = a := by
  rw [xsum_range_single n c _ hc (fun j _ hj => by simp [hj])]
  simp

/-! ### soundness -/

theorem basisVec_sol {n : Nat} {R : Mat} {p : List Nat} (h : RREF n R p) {f : Nat} (hfn : f < n)
    (hf : f ∉ p) : Sol R (basisVec n R p f) := by
  rw [sol_iff_getD]
  intro i
  by_cases hi : i < p.length
  · have hiR : i < R.length := Nat.lt_of_lt_of_le hi h.ech.len
    have hlen : (R.getD i []).length = n := (wf_iff_getD n R).mp h.wf i hiR
    have hcn : p.getD i 0 < n := echI_pivot_lt h.wf h.ech hi
    have hcf : p.getD i 0 ≠ f := by
      intro h'; apply hf; rw [← h']; exact getD_mem p 0 hi
    rw [dotB_eq_xsum _ _ n (by omega)]
    have : ∀ j ∈ List.range n,
        (entry (R.getD i []) j && entry (basisVec n R p f) j) =
          xor (decide (j = f) && entry (R.getD i []) f)
            (decide (j = p.getD i 0) && entry (R.getD i []) f) := by
      intro j hj
      have hjn : j < n := by simpa using hj
      by_cases hjf : j = f
      · subst hjf
        rw [entry_basisVec_free hf]
        have : ¬ j = p.getD i 0 := fun h => hcf (Eq.symm h)
        simp [-List.getD_eq_getElem?_getD, hjn, this]
      · by_cases hjc : j = p.getD i 0
        · subst hjc
          rw [entry_basisVec_pivot h.ech.sorted hi hcn hf, (h.ech.lead i hi).1]
          simp [-List.getD_eq_getElem?_getD, hjf]
        · by_cases hjp : j ∈ p
          · obtain ⟨i', hi', rfl⟩ := (mem_iff_getD p 0 j).mp hjp
            have hne : i ≠ i' := by intro e; subst e; exact hjc rfl
            rw [h.unit i' i hi' hne]
            simp [-List.getD_eq_getElem?_getD, hjf, hjc]
          · rw [entry_basisVec_free hjp]
            simp [-List.getD_eq_getElem?_getD, hjf, hjc]
    rw [xsum_congr this, xsum_xor, xsum_range_delta n f _ hfn, xsum_range_delta n _ _ hcn]
    simp
  · exact dotB_zero_left _ _ (h.ech.zero i (by omega))

theorem subsetSums_forall {n : Nat} {vs : List Row} (P : Row → Prop)
    (h0 : P (List.replicate n false)) (hadd : ∀ w v, P w → v ∈ vs → P (addRow w v)) :
    ∀ w ∈ subsetSums n vs, P w := by
  induction vs with
  | nil => intro w hw; simp [subsetSums] at hw; subst hw; exact h0
  | cons v vs ih =>
    have ih' := ih (fun w v' hw hv' => hadd w v' hw (by simp [hv']))
    intro w hw
    simp only [subsetSums, List.mem_append, List.mem_map] at hw
    rcases hw with hw | ⟨w', hw', rfl⟩
    · exact ih' w hw
    · exact hadd w' v (ih' w' hw') (by simp)

theorem nullspace_sol {n : Nat} {R : Mat} {p : List Nat} (h : RREF n R p) :
    ∀ v ∈ nullspace n R p, v.length = n ∧ Sol R v := by
  unfold nullspace
  apply subsetSums_forall (fun v => v.length = n ∧ Sol R v)
  · refine ⟨by simp, ?_⟩
    intro r _
    exact dotB_zero_right _ _ (entry_replicate_false n)
  · intro w v ⟨hw1, hw2⟩ hv
    rw [nullspaceBasis_eq, List.mem_map] at hv
    obtain ⟨f, hf, rfl⟩ := hv
    obtain ⟨hfn, hfp⟩ := mem_freeCols.mp hf
    refine ⟨length_addRow_eq hw1 (by simp), ?_⟩
    intro r hr
    rw [dotB_addRow_right, hw2 r hr, basisVec_sol h hfn hfp r hr]; rfl

/-! ### completeness -/

theorem addRow_cancel {w v : Row} (h : v.length ≤ w.length) : addRow (addRow w v) v = w := by
  apply row_ext
  · rw [length_addRow, length_addRow]; omega
  · intro j
    rw [entry_addRow, entry_addRow]
    cases entry w j <;> cases entry v j <;> rfl

/-- a solution that vanishes on all free columns is zero -/
theorem sol_zero_of_free_zero {n : Nat} {R : Mat} {p : List Nat} (h : RREF n R p) {x : Row}
    (hx : x.length = n) (hs : Sol R x) (hz : ∀ g, g < n → g ∉ p → entry x g = false) :
    x = List.replicate n false := by
  apply eq_replicate_of_entries hx
  have hfree : ∀ j, j ∉ p → entry x j = false := by
    intro j hj
    by_cases hjn : j < n
    · exact hz j hjn hj
    · exact entry_of_length_le (by omega)
  intro j
  by_cases hjp : j ∈ p
  · obtain ⟨i, hi, rfl⟩ := (mem_iff_getD p 0 j).mp hjp
    have hd := (sol_iff_getD R x).mp hs i
    rw [dotB_single _ _ (p.getD i 0), (h.ech.lead i hi).1] at hd
    · simpa using hd
    · intro j' hj'
      by_cases hj'p : j' ∈ p
      · obtain ⟨i', hi', rfl⟩ := (mem_iff_getD p 0 j').mp hj'p
        have hne : i ≠ i' := by intro e; subst e; exact hj' rfl
        rw [h.unit i' i hi' hne]; rfl
      · rw [hfree j' hj'p]; simp
  · exact hfree j hjp

theorem mem_subsetSums_of_sol {n : Nat} {R : Mat} {p : List Nat} (h : RREF n R p) (L : List Nat)
    (hL : ∀ f ∈ L, f < n ∧ f ∉ p) (x : Row) (hx : x.length = n) (hs : Sol R x)
    (hz : ∀ g, g < n → g ∉ p → g ∉ L → entry x g = false) :
    x ∈ subsetSums n (L.map (basisVec n R p)) := by
  induction L generalizing x with
  | nil =>
    simp only [List.map_nil, subsetSums, List.mem_singleton]
    exact sol_zero_of_free_zero h hx hs (fun g hg hgp => hz g hg hgp (by simp))
  | cons f L ih =>
    have ih' := ih (fun f' hf' => hL f' (by simp [hf']))
    obtain ⟨hfn, hfp⟩ := hL f (by simp)
    simp only [List.map_cons, subsetSums, List.mem_append, List.mem_map]
    cases hxf : entry x f with
    | false =>
      left
      apply ih' x hx hs
      intro g hg hgp hgL
      by_cases hgf : g = f
      · subst hgf; exact hxf
      · exact hz g hg hgp (by simp [hgf, hgL])
    | true =>
      right
      refine ⟨addRow x (basisVec n R p f), ?_, addRow_cancel (by simp [hx])⟩
      apply ih'
      · exact length_addRow_eq hx (by simp)
      · intro r hr
        rw [dotB_addRow_right, hs r hr, basisVec_sol h hfn hfp r hr]; rfl
      · intro g hg hgp hgL
        rw [entry_addRow, entry_basisVec_free hgp]
        by_cases hgf : g = f
        · subst hgf; simp [hxf, hg]
        · rw [hz g hg hgp (by simp [hgf, hgL])]; simp [hgf]

theorem nullspace_complete_rref {n : Nat} {R : Mat} {p : List Nat} (h : RREF n R p) (x : Row)
    (hx : x.length = n) (hs : Sol R x) : x ∈ nullspace n R p := by
  unfold nullspace
  rw [nullspaceBasis_eq]
  apply mem_subsetSums_of_sol h _ (fun f hf => mem_freeCols.mp hf) x hx hs
  intro g hg hgp hgL
  exact absurd (mem_freeCols.mpr ⟨hg, hgp⟩) hgL

/-! ### cardinality -/

theorem length_subsetSums (n : Nat) (vs : List Row) : (subsetSums n vs).length = 2 ^ vs.length := by
  induction vs with
  | nil => simp [subsetSums]
  | cons v vs ih => simp [subsetSums, ih, Nat.pow_succ]; omega

theorem length_freeCols {n : Nat} {p : List Nat} (hs : p.Pairwise (· < ·)) (hb : ∀ c ∈ p, c < n) :
    (freeCols n p).length = n - p.length := by
  have h1 := (List.filter_append_perm (fun j => p.contains j) (List.range n)).length_eq
  have h2 : ((List.range n).filter fun j => p.contains j).Perm p := by
    rw [List.perm_ext_iff_of_nodup (List.nodup_range.filter _)
      (hs.imp (fun h => Nat.ne_of_lt h))]
    intro a
    simp only [List.mem_filter, List.mem_range, List.contains_iff_mem]
    exact ⟨fun h => h.2, fun h => ⟨hb a h, h⟩⟩
  rw [List.length_append, h2.length_eq, List.length_range] at h1
  unfold freeCols
  omega

theorem nodup_subsetSums_basis {n : Nat} {R : Mat} {p : List Nat} (L : List Nat)
    (hL : ∀ f ∈ L, f < n ∧ f ∉ p) (hnd : L.Nodup) :
    (subsetSums n (L.map (basisVec n R p))).Nodup := by
  induction L with
  | nil => simp [subsetSums]
  | cons f L ih =>
    rw [List.nodup_cons] at hnd
    have ih' := ih (fun f' hf' => hL f' (by simp [hf'])) hnd.2
    obtain ⟨hfn, hfp⟩ := hL f (by simp)
    -- members of the smaller span have length n and vanish at `f`
    have hP : ∀ w ∈ subsetSums n (L.map (basisVec n R p)), w.length = n ∧ entry w f = false := by
      apply subsetSums_forall (fun w => w.length = n ∧ entry w f = false)
      · exact ⟨by simp, entry_replicate_false n f⟩
      · intro w v ⟨hw1, hw2⟩ hv
        rw [List.mem_map] at hv
        obtain ⟨f', hf', rfl⟩ := hv
        refine ⟨length_addRow_eq hw1 (by simp), ?_⟩
        have hne : f ≠ f' := by intro e; subst e; exact hnd.1 hf'
        rw [entry_addRow, hw2, entry_basisVec_free hfp]; simp [hne]
    simp only [List.map_cons, subsetSums]
    rw [List.nodup_append]
    refine ⟨ih', ?_, ?_⟩
    · unfold List.Nodup
      rw [List.pairwise_map]
      apply List.Pairwise.imp_of_mem _ ih'
      intro a b ha hb hab heq
      apply hab
      have h1 := addRow_cancel (w := a) (v := basisVec n R p f) (by simp [(hP a ha).1])
      have h2 := addRow_cancel (w := b) (v := basisVec n R p f) (by simp [(hP b hb).1])
      rw [← h1, ← h2, heq]
    · intro a ha b hb heq
      rw [List.mem_map] at hb
      obtain ⟨w, hw, rfl⟩ := hb
      have h1 := (hP a ha).2
      rw [heq, entry_addRow, (hP w hw).2, entry_basisVec_free hfp] at h1
      simp [hfn] at h1

theorem nullspace_card_rref {n : Nat} {R : Mat} {p : List Nat} (hs : p.Pairwise (· < ·))
    (hb : ∀ c ∈ p, c < n) :
    (nullspace n R p).length = 2 ^ (n - p.length) ∧ (nullspace n R p).Nodup := by
  unfold nullspace
  rw [nullspaceBasis_eq]
  refine ⟨?_, ?_⟩
  · rw [length_subsetSums, List.length_map, length_freeCols hs hb]
  · apply nodup_subsetSums_basis _ (fun f hf => mem_freeCols.mp hf)
    exact List.nodup_range.filter _

end Sageopt.GF2
