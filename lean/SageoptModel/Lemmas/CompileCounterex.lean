/-
C07: the target statement `compile_equiv` is FALSE as given.  Two concrete counterexamples, both proved:
(1) a row whose term list carries the same atom key twice (not a dict), and
(2) a `DualProductCone` with a nonlinear row inside a `'0'` block (dropped by `dualMap` unseen).
-/
import SageoptModel.Lemmas.CompileEquiv
import Mathlib.Tactic.NormNum

namespace Sageopt.Compile
open Sageopt Sageopt.Solvers Sageopt.Analysis

/-- the statement of target `compile_equiv` as given (no key-distinctness, no affineness of dual rows) -/
def CompileEquivAsStated : Prop :=
  ∀ (Q : CType → List ℝ → Prop) (cons : List Con) (dummy : Nat)
    (_ : ∀ c ∈ cons, Convex c = true) (_ : EpiFresh cons)
    (_ : ∀ c ∈ cons, match c with
      | .primal y K => y.length = (K.map (·.len)).sum
      | .dual y K => y.length = (K.map (·.len)).sum ∧ ∀ co ∈ K, co.type ∈ [CType.zero, .pos, .soc, .exp]
      | _ => True)
    (rows : List CRow) (K : List Cone) (_ : compileBlocks cons dummy = .ok (rows, K)) (σ : Nat → ℝ),
    (∀ c ∈ cons, Holds Q σ c) ↔
      ∃ σ' : Nat → ℝ,
        (∀ id, id ∉ (collectAtoms ((cons.filter isElem).flatMap elemRowsOf)).map (·.epi) → σ' id = σ id) ∧
        FeasRows Q σ' rows K

def cxAtom : NlAtom := ⟨.abs, [⟨[(1, 1)], 0⟩], 5⟩

/-- counterexample 1: a row whose term list carries the same atom key twice (`2|x₁| + x₀ ≤ 0`) -/
def cxDup : List Con := [.elem false [⟨[(.nl cxAtom, 1), (.nl cxAtom, 1), (.var 0, 1)], 0⟩]]

theorem cxDup_compiled : compileBlocks cxDup 9 = .ok
    ([⟨[(0, -1), (5, -1)], 0, false⟩, ⟨[(5, 1), (1, 1)], 0, false⟩, ⟨[(5, 1), (1, -1)], 0, false⟩],
     [⟨.pos, 1⟩, ⟨.pos, 2⟩]) := by with_unfolding_all decide

theorem cxDup_fresh : EpiFresh cxDup := by unfold EpiFresh; with_unfolding_all decide

theorem cxDup_atoms : (collectAtoms ((cxDup.filter isElem).flatMap elemRowsOf)).map (·.epi) = [5] := by
  with_unfolding_all decide

noncomputable def cxσ : Nat → ℝ := fun id => if id = 0 then -1 else if id = 1 then 1 else 0
noncomputable def cxσ' : Nat → ℝ := fun id => if id = 5 then 1 else cxσ id

theorem compile_equiv_false_dupkeys : ¬ CompileEquivAsStated := by
  intro H
  have h := H (fun _ _ => True) cxDup 9 (by decide) cxDup_fresh (by simp [cxDup]) _ _ cxDup_compiled cxσ
  have hR : ∃ σ' : Nat → ℝ,
      (∀ id, id ∉ (collectAtoms ((cxDup.filter isElem).flatMap elemRowsOf)).map (·.epi) → σ' id = cxσ id) ∧
      FeasRows (fun _ _ => True) σ'
        [⟨[(0, -1), (5, -1)], 0, false⟩, ⟨[(5, 1), (1, 1)], 0, false⟩, ⟨[(5, 1), (1, -1)], 0, false⟩]
        [⟨.pos, 1⟩, ⟨.pos, 2⟩] := by
    refine ⟨cxσ', ?_, ?_⟩
    · rw [cxDup_atoms]
      intro id hid
      have : id ≠ 5 := by simpa using hid
      simp [cxσ', this]
    · unfold FeasRows
      simp only [List.map_cons, List.map_nil, crowVal_false, List.sum_cons, List.sum_nil, feasBlocks_cons,
        feasBlocks_nil, and_true, List.take, List.drop, conP, realP, List.mem_cons, List.not_mem_nil, or_false,
        forall_eq_or_imp, forall_eq]
      norm_num [cxσ', cxσ]
  have hL := h.2 hR
  have hrow := hL _ (List.mem_cons_self ..)
  obtain ⟨τ, hτ, hle⟩ : RowLe cxσ _ := hrow _ (List.mem_cons_self ..)
  have hv : IsVal cxσ cxAtom (τ cxAtom) := hτ cxAtom (by simp [rowAtoms])
  have h1 : (1 : ℝ) ≤ τ cxAtom := by
    have : |argVal cxσ ⟨[(1, 1)], 0⟩| ≤ τ cxAtom := hv.1
    simpa [argVal, cxσ] using this
  have : rowValWith cxσ τ ⟨[(.nl cxAtom, 1), (.nl cxAtom, 1), (.var 0, 1)], 0⟩ = 2 * τ cxAtom - 1 := by
    simp [rowValWith, cxσ]; ring
  rw [this] at hle
  linarith


/-- counterexample 2: a `DualProductCone` whose `'0'` block (dropped by `dualMap` without looking at it)
    holds a nonlinear row; `Holds` requires the rows of `y` to be affine -/
def cxDual : List Con :=
  [.dual [⟨[(.nl cxAtom, 1)], 0⟩] [⟨.zero, 1⟩], .elem false [⟨[(.var 0, 1)], 0⟩]]

theorem cxDual_compiled : compileBlocks cxDual 9 = .ok ([⟨[(0, -1)], 0, false⟩], [⟨.pos, 1⟩]) := by
  with_unfolding_all decide

theorem cxDual_fresh : EpiFresh cxDual := by unfold EpiFresh; with_unfolding_all decide

theorem cxDual_atoms : (collectAtoms ((cxDual.filter isElem).flatMap elemRowsOf)).map (·.epi) = [] := by
  with_unfolding_all decide

theorem compile_equiv_false_dualzero : ¬ CompileEquivAsStated := by
  intro H
  have h := H (fun _ _ => True) cxDual 9 (by decide) cxDual_fresh (by simp [cxDual]) _ _ cxDual_compiled cxσ
  have hR : ∃ σ' : Nat → ℝ,
      (∀ id, id ∉ (collectAtoms ((cxDual.filter isElem).flatMap elemRowsOf)).map (·.epi) → σ' id = cxσ id) ∧
      FeasRows (fun _ _ => True) σ' [⟨[(0, -1)], 0, false⟩] [⟨.pos, 1⟩] := by
    refine ⟨cxσ, fun _ _ => rfl, ?_⟩
    unfold FeasRows
    simp only [List.map_cons, List.map_nil, crowVal_false, List.sum_cons, List.sum_nil, feasBlocks_cons,
      feasBlocks_nil, and_true, List.take, conP, realP, List.mem_cons, List.not_mem_nil, or_false, forall_eq]
    norm_num [cxσ]
  have hL := h.2 hR
  have hd := hL _ (List.mem_cons_self ..)
  have := hd.1 _ (List.mem_cons_self ..)
  simp [rowAtoms] at this

end Sageopt.Compile
