/-
C15 helper lemmas, part 3: what `posyIneq` / `monoEq` return (case analysis), and the standard form of what they
keep.
-/
import SageoptModel.Lemmas.DomShift

namespace Sageopt.Domain
open Sageopt Sageopt.Sig Sageopt.Sig.Hom Sageopt.Relax Sageopt.Poly Sageopt.Sage Sageopt.RelaxSig

/-! ### all-zero rows -/

theorem dm_allzero_iff (a : Exp) : a.all (· == 0) = true ↔ a = zeroExp a.length := by
  unfold zeroExp
  rw [List.all_eq_true, List.eq_replicate_iff]
  constructor
  · intro h
    exact ⟨rfl, fun b hb => by simpa using h b hb⟩
  · intro h b hb
    simpa using h.2 b hb

theorem dm_allzero_zeroExp (n : Nat) : (zeroExp n).all (· == 0) = true := by
  rw [dm_allzero_iff]
  simp [zeroExp]

theorem dm_rdot_allzero (a : Exp) (h : a.all (· == 0) = true) (y : List ℝ) : rdot a y = 0 := by
  rw [(dm_allzero_iff a).1 h]
  exact rs_rdot_zeroExp _ y

/-! ### term lists with distinct rows -/

theorem dm_eq_of_key_eq {ts : List (Exp × Rat)} (hnd : (keys ts).Nodup) {t u : Exp × Rat}
    (ht : t ∈ ts) (hu : u ∈ ts) (h : t.1 = u.1) : t = u := by
  have h1 := coeff_of_nodup_mem hnd (a := t.1) (c := t.2) ht
  have h2 := coeff_of_nodup_mem hnd (a := u.1) (c := u.2) hu
  rw [h] at h1
  exact Prod.ext h (h1.symm.trans h2)

theorem dm_idx_eq_of_key_eq {ts : List (Exp × Rat)} (hnd : (keys ts).Nodup) {i j : Nat}
    (hi : i < ts.length) (hj : j < ts.length) (h : ts[i].1 = ts[j].1) : i = j := by
  have hi' : i < (keys ts).length := by simpa [keys] using hi
  have hj' : j < (keys ts).length := by simpa [keys] using hj
  have e : (keys ts)[i] = (keys ts)[j] := by
    simpa [keys] using h
  exact (List.Nodup.getElem_inj_iff hnd).1 e

theorem dm_getD_lt {α : Type} (l : List α) (d : α) {i : Nat} (h : i < l.length) : l.getD i d = l[i] := by
  simp [List.getD_eq_getElem?_getD, List.getElem?_eq_getElem h]

/-! ### recognising the standard forms -/

/-- a positive coefficient on the all-zero row and negative coefficients everywhere else: standard form -/
theorem dm_stdGt_of (g : SigQ) (hg : SigWf g) (z : Exp) (hz : z.all (· == 0) = true) (c : Rat) (hc : 0 < c)
    (hm : (z, c) ∈ g.terms) (hneg : ∀ t ∈ g.terms, t.1 ≠ z → t.2 < 0) : StdGt g := by
  refine ⟨hg, ?_⟩
  cases hk : constLoc g with
  | none =>
    exfalso
    unfold constLoc at hk
    rw [List.findIdx?_eq_none_iff] at hk
    have := hk (z, c) hm
    simp only [hz] at this
    exact absurd this (by simp)
  | some k =>
    unfold constLoc at hk
    obtain ⟨hkl, hpk, _⟩ := List.findIdx?_eq_some_iff_getElem.1 hk
    have hkz : g.terms[k].1 = z := by
      have h1 := (dm_allzero_iff _).1 hpk
      have h2 := (dm_allzero_iff _).1 hz
      rw [h1, h2, hg.1 _ (List.getElem_mem hkl), hg.1 _ hm]
    have hkt : g.terms[k] = (z, c) := dm_eq_of_key_eq hg.2 (List.getElem_mem hkl) hm hkz
    refine ⟨k, rfl, ?_, ?_⟩
    · rw [dm_getD_lt _ _ hkl, hkt]; exact hc
    · intro j hj hjk
      rw [dm_getD_lt _ _ hj]
      apply hneg _ (List.getElem_mem hj)
      intro e
      exact hjk (dm_idx_eq_of_key_eq hg.2 hj hkl (e.trans hkz.symm))

/-- a standard-form inequality with exactly two terms is a standard-form equation -/
theorem dm_stdEq_of_stdGt (g : SigQ) (hg : StdGt g) (h2 : g.terms.length = 2) : StdEq g := by
  obtain ⟨hw, k, hk, hpos, hneg⟩ := hg
  refine ⟨hw, h2, k, hk, hpos, ?_⟩
  have hkl : k < g.terms.length := by
    unfold constLoc at hk
    exact (List.findIdx?_eq_some_iff_getElem.1 hk).1
  apply hneg (1 - k) (by omega) (by omega)

/-! ### case analysis of the selectors -/

theorem dm_posTerms_single {g : SigQ} {p : Exp × Rat} (h : posTerms g = [p]) :
    p ∈ g.terms ∧ 0 < p.2 ∧ ∀ u ∈ g.terms, 0 < u.2 → u = p := by
  have hp : p ∈ posTerms g := by rw [h]; simp
  unfold posTerms at hp h
  obtain ⟨hp1, hp2⟩ := List.mem_filter.1 hp
  refine ⟨hp1, by simpa using hp2, ?_⟩
  intro u hu hu0
  have : u ∈ g.terms.filter fun t => decide (0 < t.2) := List.mem_filter.2 ⟨hu, by simpa using hu0⟩
  rw [h] at this
  simpa using this

theorem dm_posyIneq_keep (g g' : SigQ) (h : posyIneq g = .keep g') :
    ∃ p, posTerms g = [p] ∧ g' = mulQ g (monomial g.n (negExp p.1)) := by
  unfold posyIneq at h
  simp only [] at h
  split at h
  · cases h
  · rename_i hlen
    split at h
    · cases h
    · split at h
      · cases h
      · rename_i p rest hp
        rw [hp] at hlen
        cases rest with
        | nil =>
          injection h with h
          exact ⟨p, hp, h.symm⟩
        | cons q rest =>
          exfalso
          simp at hlen

theorem dm_posyIneq_raise (g : SigQ) (h : posyIneq g = .raises "RuntimeError: infeasible signomial inequality") :
    posTerms g = [] ∧ negTerms g ≠ [] := by
  unfold posyIneq at h
  simp only [] at h
  split at h
  · cases h
  · split at h
    · rename_i hc
      simp only [Bool.and_eq_true, beq_iff_eq, List.length_eq_zero_iff, decide_eq_true_eq] at hc
      refine ⟨hc.1, ?_⟩
      intro e
      rw [e] at hc
      simp at hc
    · split at h
      · injection h with h
        exact absurd h (by decide)
      · cases h

theorem dm_monoEq_keep (g g' : SigQ) (h : monoEq g = .keep g') :
    nonzeroCount g ≤ 2 ∧ ∃ p, posTerms g = [p] ∧ g' = mulQ g (monomial g.n (negExp p.1)) := by
  unfold monoEq at h
  split at h
  · cases h
  · rename_i hc
    split at h
    · rename_i p hp
      injection h with h
      exact ⟨by omega, p, hp, h.symm⟩
    · cases h

/-! ### what is kept is in standard form -/

theorem dm_normalised_stdGt (g : SigQ) (hg : Wf g) (p : Exp × Rat) (hp : posTerms g = [p]) :
    StdGt (mulQ g (monomial g.n (negExp p.1))) := by
  obtain ⟨hpm, hp0, hpu⟩ := dm_posTerms_single hp
  have hgrid := dm_negExp_onGrid (hg.grid p hpm)
  have hl : (negExp p.1).length = g.n := by rw [dm_negExp_length, hg.width p hpm]
  have hwf' : Wf (mulQ g (monomial g.n (negExp p.1))) := dm_normalised_wf g hg p.1 (hg.width p hpm)
  have hz : addExp p.1 (negExp p.1) = zeroExp g.n := by
    rw [dm_addExp_negExp, hg.width p hpm]
  apply dm_stdGt_of _ (dm_sigWf_of hwf') (zeroExp g.n) (dm_allzero_zeroExp _) p.2 hp0
  · have := dm_normalised_mem' g hg _ hgrid hl p hpm hp0.ne'
    rw [hz] at this
    exact this
  · intro t ht hne
    obtain ⟨u, hu, rfl, hu0⟩ := dm_normalised_mem g hg _ hgrid hl ⟨p, hpm, hp0.ne'⟩ t ht
    have hup : u ≠ p := by
      intro e
      apply hne
      rw [e]
      exact hz
    rcases hu0 with hu0 | h1
    · show u.2 < 0
      rcases lt_trichotomy u.2 0 with h | h | h
      · exact h
      · exact absurd h hu0
      · exact absurd (hpu u hu h) hup
    · exfalso
      obtain ⟨t0, hts⟩ := List.length_eq_one_iff.1 h1
      rw [hts] at hu hpm
      simp only [List.mem_singleton] at hu hpm
      exact hup (hu.trans hpm.symm)

theorem dm_posyIneq_keep_std (g g' : SigQ) (hg : Wf g) (h : posyIneq g = .keep g') : StdGt g' := by
  obtain ⟨p, hp, rfl⟩ := dm_posyIneq_keep g g' h
  exact dm_normalised_stdGt g hg p hp

theorem dm_monoEq_keep_std (g g' : SigQ) (hg : Wf g) (h : monoEq g = .keep g') :
    StdEq g' ∨ g'.terms.length ≤ 1 := by
  obtain ⟨hc, p, hp, rfl⟩ := dm_monoEq_keep g g' h
  obtain ⟨hpm, _, _⟩ := dm_posTerms_single hp
  have hgrid := dm_negExp_onGrid (hg.grid p hpm)
  have hl : (negExp p.1).length = g.n := by rw [dm_negExp_length, hg.width p hpm]
  have hstd := dm_normalised_stdGt g hg p hp
  rcases dm_normalised_length g hg _ hgrid hl with h1 | h1
  · right; omega
  · by_cases h2 : (mulQ g (monomial g.n (negExp p.1))).terms.length = 2
    · left; exact dm_stdEq_of_stdGt _ hstd h2
    · right; omega

/-- what the polynomial equality selector keeps normalises to a two-term standard form -/
theorem dm_monoEq_keep_std2 (g g' : SigQ) (hg : Wf g) (h : monoEq g = .keep g') (h2 : nonzeroCount g = 2) :
    StdEq g' := by
  obtain ⟨hc, p, hp, rfl⟩ := dm_monoEq_keep g g' h
  obtain ⟨hpm, _, _⟩ := dm_posTerms_single hp
  have hgrid := dm_negExp_onGrid (hg.grid p hpm)
  have hl : (negExp p.1).length = g.n := by rw [dm_negExp_length, hg.width p hpm]
  have hstd := dm_normalised_stdGt g hg p hp
  rcases dm_normalised_length g hg _ hgrid hl with h1 | h1
  · -- a single term, but two nonzero coefficients survive
    exfalso
    have hsub : ∀ u ∈ g.terms.filter (fun t => !isZeroQ t.2),
        (addExp u.1 (negExp p.1), u.2) ∈ (mulQ g (monomial g.n (negExp p.1))).terms := by
      intro u hu
      obtain ⟨hu1, hu2⟩ := List.mem_filter.1 hu
      apply dm_normalised_mem' g hg _ hgrid hl u hu1
      intro h0
      rw [(isZeroQ_iff u.2).2 h0] at hu2
      simp at hu2
    unfold nonzeroCount at h2
    obtain ⟨u, v, hf⟩ := List.length_eq_two.1 h2
    rw [hf] at hsub
    have hu := hsub u (by simp)
    have hv := hsub v (by simp)
    obtain ⟨w, hts⟩ := List.length_eq_one_iff.1 h1
    rw [hts] at hu hv
    simp only [List.mem_singleton] at hu hv
    have huv : u.1 = v.1 := by
      have e : addExp u.1 (negExp p.1) = addExp v.1 (negExp p.1) := by
        have := hu.trans hv.symm
        exact (Prod.ext_iff.1 this).1
      have hum : u ∈ g.terms := List.mem_of_mem_filter (p := fun t => !isZeroQ t.2) (by rw [hf]; simp)
      have hvm : v ∈ g.terms := List.mem_of_mem_filter (p := fun t => !isZeroQ t.2) (by rw [hf]; simp)
      exact dm_addExp_inj _ _ _ (by rw [hg.width u hum, hl]) (by rw [hg.width v hvm, hl]) e
    have hnd : (keys (g.terms.filter fun t => !isZeroQ t.2)).Nodup := by
      unfold keys
      exact List.Nodup.sublist (List.Sublist.map _ List.filter_sublist) hg.nodup
    rw [hf] at hnd
    simp [keys, huv] at hnd
  · exact dm_stdEq_of_stdGt _ hstd (by omega)

end Sageopt.Domain
