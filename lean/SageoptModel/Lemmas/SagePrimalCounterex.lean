/-
C01: the two hypotheses that `primal_sound` adds to `WfPrimal` / `KernelOk` are needed.  Three concrete
inputs of the model on which every hypothesis of the target statement holds, the compiled rows are
satisfied, and the conclusion fails:
* `sp_ce1`: ordinary cone, `kernel_basis` set but no basis recorded (`basis = []`): no balance rows are
  emitted and `nu` is unconstrained (`−1 + eˣ` is "certified");
* `sp_ce2`: an index without `nu` Variable whose cover is not empty: the cover entries of its aligned AGE
  vector refer to scalar variables nothing constrains;
* `sp_ce3`: conditional cone with `kernel_basis` and a recorded basis: the relative-entropy rows use
  `B·pre_nu`, the balance rows use `pre_nu` (`−eˣ` is "certified" on `x ≤ −1`).
A fourth input, `sp_ce4`, satisfies ALL hypotheses of `primal_sound` and shows why part (ii) speaks of the
reached indices only: under `sum_age_force_equality` an index no AGE vector reaches keeps its inequality
row, so `Σ_i age_i = c` fails there (`0 ≠ 5`).
-/
import SageoptModel.Lemmas.SagePrimalMain
import Mathlib.Tactic.NormNum

namespace Sageopt.Sage
open Sageopt Sageopt.Compile Sageopt.Solvers Sageopt.Analysis

/-- the conclusion of `primal_sound` -/
def sp_Concl (Q : CType → List ℝ → Prop) (inp : PrimalIn) (σ : Nat → ℝ) : Prop :=
  let m := inp.alpha.length
  ((inp.ids.filter fun p => !p.nu.isEmpty) ≠ [] →
    (∀ j, j < m → (inp.ids.map fun p => ageVal σ m inp.c inp.ech p j).sum ≤ cVal σ inp.c j) ∧
    (inp.settings.sumAgeForceEquality = true →
      ∀ j, j < m → reachedB inp.ech j = true →
        (inp.ids.map fun p => ageVal σ m inp.c inp.ech p j).sum = cVal σ inp.c j) ∧
    (∀ p ∈ inp.ids, ∀ j, j < m → j ≠ p.i → 0 ≤ ageVal σ m inp.c inp.ech p j) ∧
    (∀ p ∈ inp.ids, ∀ x, InDom Q inp.X inp.n x →
      0 ≤ sigVal inp.alpha ((List.range m).map fun j => ageVal σ m inp.c inp.ech p j) x)) ∧
  (∀ x, InDom Q inp.X inp.n x → 0 ≤ sigVal inp.alpha ((List.range m).map fun j => cVal σ inp.c j) x)

/-- the conclusion with part (ii) demanding equality at EVERY index (the statement before the reached /
    unreached split of `_age_vectors_sum_to_c`); false for the model, see `sp_ce4_not_eqAll` -/
def sp_ConclEqAll (Q : CType → List ℝ → Prop) (inp : PrimalIn) (σ : Nat → ℝ) : Prop :=
  let m := inp.alpha.length
  ((inp.ids.filter fun p => !p.nu.isEmpty) ≠ [] →
    (∀ j, j < m → (inp.ids.map fun p => ageVal σ m inp.c inp.ech p j).sum ≤ cVal σ inp.c j) ∧
    (inp.settings.sumAgeForceEquality = true →
      ∀ j, j < m → (inp.ids.map fun p => ageVal σ m inp.c inp.ech p j).sum = cVal σ inp.c j) ∧
    (∀ p ∈ inp.ids, ∀ j, j < m → j ≠ p.i → 0 ≤ ageVal σ m inp.c inp.ech p j) ∧
    (∀ p ∈ inp.ids, ∀ x, InDom Q inp.X inp.n x →
      0 ≤ sigVal inp.alpha ((List.range m).map fun j => ageVal σ m inp.c inp.ech p j) x)) ∧
  (∀ x, InDom Q inp.X inp.n x → 0 ≤ sigVal inp.alpha ((List.range m).map fun j => cVal σ inp.c j) x)

def sp_Cov0 (inp : PrimalIn) : Prop := ∀ p ∈ inp.ids, p.nu = [] → trueIdx (coverOf inp.ech p.i) = []
def sp_BasisOk (inp : PrimalIn) : Prop :=
  inp.settings.kernelBasis = true → ∀ p ∈ inp.ids, p.nu ≠ [] → (p.basis ≠ [] ↔ inp.X = none)

/-! ### sp_ce1 -/

def sp_ce1 : PrimalIn :=
  { n := 1, alpha := [[0], [1]], c := [constE (-1), constE 1], X := none,
    settings := { kernelBasis := true },
    ech := { U := [0], N := [0], P := [1], covers := [(0, [false, true])] },
    ids := [{ i := 0, nu := [10], basis := [], cvar := [11], epi := [12], eta := [] }], dummy := 20 }

def sp_ce1Rows : List CRow :=
  [⟨[(12, -1)], -1, false⟩, ⟨[(12, -1)], 0, false⟩, ⟨[(11, 1)], 0, true⟩, ⟨[(10, 1)], 0, false⟩,
   ⟨[(20, 0)], 0, false⟩, ⟨[(11, -1)], 1, false⟩]
def sp_ce1K : List Cone := [⟨.pos, 1⟩, ⟨.exp, 3⟩, ⟨.pos, 2⟩]

noncomputable def sp_ce1σ : Nat → ℝ := fun id => if id = 12 then -1 else if id = 10 ∨ id = 11 then 1 else 0

theorem sp_ce1_wf : WfPrimal sp_ce1 where
  width := by with_unfolding_all decide
  clen := by with_unfolding_all decide
  idsU := by with_unfolding_all decide
  cover := by with_unfolding_all decide
  sizes := by with_unfolding_all decide
  negConst := by with_unfolding_all decide
  dom := by intro X h; cases h

theorem sp_ce1_kernelOk : sp_KernelOk sp_ce1 := by
  intro _ p hp hb
  have : p.basis = [] := by
    have : p = { i := 0, nu := [10], basis := [], cvar := [11], epi := [12], eta := [] } := by
      simpa [sp_ce1] using hp
    rw [this]
  exact absurd this hb

theorem sp_ce1_cov0 : sp_Cov0 sp_ce1 := by unfold sp_Cov0; with_unfolding_all decide
theorem sp_ce1_rows : primalRows sp_ce1 = .ok (sp_ce1Rows, sp_ce1K) := by with_unfolding_all decide

theorem sp_ce1_feas (Q : CType → List ℝ → Prop) : FeasRows Q sp_ce1σ sp_ce1Rows sp_ce1K := by
  unfold FeasRows sp_ce1Rows sp_ce1K
  simp only [feasBlocks_cons, feasBlocks_nil, List.map_cons, List.map_nil, crowVal_false, crowVal_true,
    List.take_succ_cons, List.take_zero, List.drop_succ_cons, List.drop_zero, conP, realP, expR,
    List.sum_cons, List.sum_nil, and_true]
  simp only [sp_ce1σ]
  norm_num
  exact Or.inl ⟨one_pos, by simp⟩

/-- without `hbasis` (ordinary cone, `kernel_basis`, no basis) the statement of `primal_sound` fails -/
theorem sp_ce1_not_sound (Q : CType → List ℝ → Prop) : ¬ sp_Concl Q sp_ce1 sp_ce1σ := by
  intro h
  have h2 := h.2 [-1] ⟨rfl, trivial⟩
  simp [sigVal, rdot, cVal, sp_ce1, constE, argVal, List.range, List.range.loop] at h2
  linarith

/-! ### sp_ce2 -/

def sp_ce2 : PrimalIn :=
  { n := 1, alpha := [[0], [1], [2]], c := [varE 1, varE 2, varE 3], X := none, settings := {},
    ech := { U := [0, 1], N := [], P := [], covers := [(0, [false, true, false]), (1, [true, false, true])] },
    ids := [{ i := 0, nu := [10], basis := [], cvar := [11, 12], epi := [13], eta := [] },
            { i := 1, nu := [], basis := [], cvar := [14], epi := [], eta := [] }], dummy := 20 }

def sp_ce2Rows : List CRow :=
  [⟨[(12, 1), (13, -1)], 0, false⟩, ⟨[(13, -1)], 0, false⟩, ⟨[(11, 1)], 0, true⟩, ⟨[(10, 1)], 0, false⟩,
   ⟨[(10, 1)], 0, false⟩, ⟨[(14, 1)], 0, false⟩,
   ⟨[(12, -1), (14, -1), (1, 1)], 0, false⟩, ⟨[(11, -1), (14, -1), (2, 1)], 0, false⟩,
   ⟨[(0, -1), (3, 1)], 0, false⟩]
def sp_ce2K : List Cone := [⟨.pos, 1⟩, ⟨.exp, 3⟩, ⟨.zero, 1⟩, ⟨.pos, 1⟩, ⟨.pos, 3⟩]

noncomputable def sp_ce2σ : Nat → ℝ := fun id => if id = 0 then -1 else 0

theorem sp_ce2_wf : WfPrimal sp_ce2 where
  width := by with_unfolding_all decide
  clen := by with_unfolding_all decide
  idsU := by with_unfolding_all decide
  cover := by with_unfolding_all decide
  sizes := by with_unfolding_all decide
  negConst := by with_unfolding_all decide
  dom := by intro X h; cases h

theorem sp_ce2_kernelOk : sp_KernelOk sp_ce2 := by intro h; cases h
theorem sp_ce2_basisOk : sp_BasisOk sp_ce2 := by intro h; cases h
theorem sp_ce2_rows : primalRows sp_ce2 = .ok (sp_ce2Rows, sp_ce2K) := by with_unfolding_all decide

theorem sp_ce2_feas (Q : CType → List ℝ → Prop) : FeasRows Q sp_ce2σ sp_ce2Rows sp_ce2K := by
  unfold FeasRows sp_ce2Rows sp_ce2K
  simp only [feasBlocks_cons, feasBlocks_nil, List.map_cons, List.map_nil, crowVal_false, crowVal_true,
    List.take_succ_cons, List.take_zero, List.drop_succ_cons, List.drop_zero, conP, realP, expR,
    List.sum_cons, List.sum_nil, and_true]
  simp only [sp_ce2σ]
  norm_num
  exact Or.inr ⟨rfl, le_refl _, le_refl _⟩

/-- without `hcov0` (an index without `nu` but with a nonempty cover) part (ii) of `primal_sound` fails -/
theorem sp_ce2_not_sound (Q : CType → List ℝ → Prop) : ¬ sp_Concl Q sp_ce2 sp_ce2σ := by
  intro h
  have h1 := (h.1 (by with_unfolding_all decide)).2.2.1
    { i := 1, nu := [], basis := [], cvar := [14], epi := [], eta := [] } (by simp [sp_ce2]) 2
    (by with_unfolding_all decide) (by decide)
  have hv : (ageVector sp_ce2.alpha.length sp_ce2.c sp_ce2.ech
      { i := 1, nu := [], basis := [], cvar := [14], epi := [], eta := [] }).getD 2 (constE 0) = varE 0 := by
    with_unfolding_all decide
  unfold ageVal at h1
  rw [hv] at h1
  simp [argVal, varE, sp_ce2σ] at h1
  linarith

/-! ### sp_ce3 -/

def sp_ce3X : Dom := { A := [[-1]], b := [-1], K := [⟨.pos, 1⟩], N := 1 }

def sp_ce3 : PrimalIn :=
  { n := 1, alpha := [[0], [1]], c := [constE 0, constE (-1)], X := some sp_ce3X,
    settings := { kernelBasis := true },
    ech := { U := [1], N := [1], P := [], covers := [(1, [true, false])] },
    ids := [{ i := 1, nu := [10], basis := [[0]], cvar := [11], epi := [12], eta := [13] }], dummy := 20 }

def sp_ce3Rows : List CRow :=
  [⟨[(13, 1), (12, -1)], -1, false⟩, ⟨[(12, -1)], 0, false⟩, ⟨[(11, 1)], 0, true⟩, ⟨[], 0, false⟩,
   ⟨[(10, -1), (13, 1)], 0, false⟩, ⟨[(13, 1)], 0, false⟩,
   ⟨[(11, -1)], 0, false⟩, ⟨[(20, 0)], 0, false⟩]
def sp_ce3K : List Cone := [⟨.pos, 1⟩, ⟨.exp, 3⟩, ⟨.zero, 1⟩, ⟨.pos, 1⟩, ⟨.pos, 2⟩]

noncomputable def sp_ce3σ : Nat → ℝ := fun id => if id = 10 ∨ id = 13 then 1 else 0

theorem sp_ce3_wf : WfPrimal sp_ce3 where
  width := by with_unfolding_all decide
  clen := by with_unfolding_all decide
  idsU := by with_unfolding_all decide
  cover := by with_unfolding_all decide
  sizes := by with_unfolding_all decide
  negConst := by with_unfolding_all decide
  dom := by
    intro X h
    have : X = sp_ce3X := by
      have h' : some sp_ce3X = some X := h
      exact (Option.some.inj h').symm
    subst this
    refine ⟨?_, by with_unfolding_all decide⟩
    unfold domWf
    with_unfolding_all decide

theorem sp_ce3_kernelOk : sp_KernelOk sp_ce3 := by
  unfold sp_KernelOk
  with_unfolding_all decide

theorem sp_ce3_cov0 : sp_Cov0 sp_ce3 := by unfold sp_Cov0; with_unfolding_all decide
theorem sp_ce3_rows : primalRows sp_ce3 = .ok (sp_ce3Rows, sp_ce3K) := by with_unfolding_all decide

theorem sp_ce3_feas (Q : CType → List ℝ → Prop) : FeasRows Q sp_ce3σ sp_ce3Rows sp_ce3K := by
  unfold FeasRows sp_ce3Rows sp_ce3K
  simp only [feasBlocks_cons, feasBlocks_nil, List.map_cons, List.map_nil, crowVal_false, crowVal_true,
    List.take_succ_cons, List.take_zero, List.drop_succ_cons, List.drop_zero, conP, realP, expR,
    List.sum_cons, List.sum_nil, and_true]
  simp only [sp_ce3σ]
  norm_num
  exact Or.inr ⟨rfl, le_refl _, le_refl _⟩

/-- without `hbasis` (conditional cone with a recorded kernel basis) the statement of `primal_sound` fails -/
theorem sp_ce3_not_sound (Q : CType → List ℝ → Prop) : ¬ sp_Concl Q sp_ce3 sp_ce3σ := by
  intro h
  have hdom : InDom Q sp_ce3.X sp_ce3.n [-1] := by
    refine ⟨rfl, [-1], rfl, rfl, ?_⟩
    show FeasBlocks (conP Q) [⟨.pos, 1⟩] (domSlack sp_ce3X [-1])
    simp [feasBlocks_cons, domSlack, sp_ce3X, rdot, conP, realP]
  have h2 := h.2 [-1] hdom
  simp [sigVal, rdot, cVal, sp_ce3, constE, argVal, List.range, List.range.loop] at h2
  have := Real.exp_pos (-1)
  linarith

/-! ### sp_ce4 -/

/-- `1 − 2eˣ + e²ˣ + 5e³ˣ`, default-style covers, `sum_age_force_equality`: index 3 is reached by no AGE vector -/
def sp_ce4 : PrimalIn :=
  { n := 1, alpha := [[0], [1], [2], [3]], c := [constE 1, constE (-2), constE 1, constE 5], X := none,
    settings := { sumAgeForceEquality := true },
    ech := { U := [1], N := [1], P := [0, 2, 3], covers := [(1, [true, false, true, false])] },
    ids := [{ i := 1, nu := [10, 11], basis := [], cvar := [12, 13], epi := [14, 15], eta := [] }], dummy := 20 }

def sp_ce4Rows : List CRow :=
  [⟨[(14, -1), (15, -1)], -2, false⟩,
   ⟨[(14, -1)], 0, false⟩, ⟨[(12, 1)], 0, true⟩, ⟨[(10, 1)], 0, false⟩,
   ⟨[(15, -1)], 0, false⟩, ⟨[(13, 1)], 0, true⟩, ⟨[(11, 1)], 0, false⟩,
   ⟨[(10, -1), (11, 1)], 0, false⟩,
   ⟨[(12, -1)], 1, false⟩, ⟨[(20, 0)], 0, false⟩, ⟨[(13, -1)], 1, false⟩,
   ⟨[(20, 0)], 5, false⟩]
/-- the reached indices 0, 1, 2 form the `0` cone, the unreached index 3 stays in a `+` cone -/
def sp_ce4K : List Cone := [⟨.pos, 1⟩, ⟨.exp, 3⟩, ⟨.exp, 3⟩, ⟨.zero, 1⟩, ⟨.zero, 3⟩, ⟨.pos, 1⟩]

/-- ν = (1,1), c^{(1)} = (1,−2,1), epi = (−1,−1) -/
noncomputable def sp_ce4σ : Nat → ℝ := fun id =>
  if id = 14 ∨ id = 15 then -1 else if id = 10 ∨ id = 11 ∨ id = 12 ∨ id = 13 then 1 else 0

theorem sp_ce4_wf : WfPrimal sp_ce4 where
  width := by with_unfolding_all decide
  clen := by with_unfolding_all decide
  idsU := by with_unfolding_all decide
  cover := by with_unfolding_all decide
  sizes := by with_unfolding_all decide
  negConst := by with_unfolding_all decide
  dom := by intro X h; cases h

theorem sp_ce4_kernelOk : sp_KernelOk sp_ce4 := by intro h; cases h
theorem sp_ce4_cov0 : sp_Cov0 sp_ce4 := by unfold sp_Cov0; with_unfolding_all decide
theorem sp_ce4_basisOk : sp_BasisOk sp_ce4 := by intro h; cases h
theorem sp_ce4_rows : primalRows sp_ce4 = .ok (sp_ce4Rows, sp_ce4K) := by with_unfolding_all decide
theorem sp_ce4_unreached : reachedB sp_ce4.ech 3 = false := by with_unfolding_all decide

theorem sp_ce4_feas (Q : CType → List ℝ → Prop) : FeasRows Q sp_ce4σ sp_ce4Rows sp_ce4K := by
  unfold FeasRows sp_ce4Rows sp_ce4K
  simp only [feasBlocks_cons, feasBlocks_nil, List.map_cons, List.map_nil, crowVal_false, crowVal_true,
    List.take_succ_cons, List.take_zero, List.drop_succ_cons, List.drop_zero, conP, realP, expR,
    List.sum_cons, List.sum_nil, and_true]
  simp only [sp_ce4σ]
  norm_num
  exact Or.inl ⟨one_pos, by simp⟩

/-- with every hypothesis of `primal_sound` in force, equality at ALL indices fails: at the unreached
    index 3 the AGE vectors sum to `0`, and `c₃ = 5` -/
theorem sp_ce4_not_eqAll (Q : CType → List ℝ → Prop) : ¬ sp_ConclEqAll Q sp_ce4 sp_ce4σ := by
  intro h
  have h1 := (h.1 (by with_unfolding_all decide)).2.1 rfl 3 (by with_unfolding_all decide)
  have hv : (ageVector sp_ce4.alpha.length sp_ce4.c sp_ce4.ech
      { i := 1, nu := [10, 11], basis := [], cvar := [12, 13], epi := [14, 15], eta := [] }).getD 3 (constE 0)
      = constE 0 := by
    with_unfolding_all decide
  have hc : sp_ce4.c.getD 3 (constE 0) = constE 5 := by with_unfolding_all decide
  unfold ageVal cVal at h1
  rw [show sp_ce4.ids = [{ i := 1, nu := [10, 11], basis := [], cvar := [12, 13], epi := [14, 15], eta := [] }]
    from rfl] at h1
  simp only [List.map_cons, List.map_nil, List.sum_cons, List.sum_nil] at h1
  rw [hv, hc] at h1
  simp [argVal, constE] at h1

end Sageopt.Sage
