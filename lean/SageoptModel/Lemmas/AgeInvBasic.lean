/-
Invariance lemmas for the semantic ordinary AGE certificate (`Lemmas/AgeCert.lean`): translation, linear change of
variables, positive scaling, exponent shift, re-indexing, cover enlargement.  Used by `Props/C06.lean`.
-/
import SageoptModel.Lemmas.AgeCert
import Mathlib.Tactic.Linarith
import Mathlib.Tactic.FieldSimp
import Mathlib.Tactic.Ring

namespace Sageopt.Analysis
open scoped BigOperators

set_option linter.unusedSectionVars false
set_option linter.unusedVariables false

variable {ι : Type} {n : ℕ}

/-- the balance equations kill every linear functional of the exponent differences -/
theorem ai_balance_dot (α : ι → Fin n → ℝ) (i : ι) (S : Finset ι) (ν : ι → ℝ)
    (hbal : ∀ k : Fin n, ∑ j ∈ S, ν j * (α j k - α i k) = 0) (t : Fin n → ℝ) :
    ∑ j ∈ S, ν j * (dotp (α j) t - dotp (α i) t) = 0 := by
  have : ∀ j ∈ S, ν j * (dotp (α j) t - dotp (α i) t) = ∑ k, (ν j * (α j k - α i k)) * t k := by
    intro j _; unfold dotp; rw [← Finset.sum_sub_distrib, Finset.mul_sum]
    apply Finset.sum_congr rfl; intro k _; ring
  rw [Finset.sum_congr rfl this, Finset.sum_comm]
  apply Finset.sum_eq_zero; intro k _
  rw [← Finset.sum_mul, hbal k, zero_mul]

theorem ai_dotp_neg (a t : Fin n → ℝ) : dotp a (fun k => -(t k)) = -(dotp a t) := by
  unfold dotp; rw [← Finset.sum_neg_distrib]
  apply Finset.sum_congr rfl; intro k _; ring

/-- nonnegativity of the middle coordinate's coefficient from a cone row -/
theorem ai_row_coef_nonneg (x c z : ℝ) (h : InExpCone x (Real.exp 1 * c) z) : 0 ≤ c := by
  have h1 := expcone_y_nonneg _ _ _ h
  have he : 0 < Real.exp 1 := Real.exp_pos 1
  by_contra hneg
  have : Real.exp 1 * c < 0 := mul_neg_of_pos_of_neg he (not_le.mp hneg)
  linarith

/-- one cone row under translation -/
theorem ai_row_translate (epi c ν s d : ℝ) (hs : 0 < s)
    (h : InExpCone (-epi) (Real.exp 1 * c) ν) :
    InExpCone (-(s * (epi - ν * d))) (Real.exp 1 * (c * (s * Real.exp d))) (s * ν) := by
  rcases h with ⟨hν, h⟩ | ⟨hν, hx, hy⟩
  · left
    refine ⟨mul_pos hs hν, ?_⟩
    have e1 : -(s * (epi - ν * d)) / (s * ν) = -epi / ν + d := by
      field_simp; ring
    rw [e1, Real.exp_add]
    have hd : 0 < Real.exp d := Real.exp_pos d
    have h2 : s * Real.exp d * (ν * Real.exp (-epi / ν)) ≤ s * Real.exp d * (Real.exp 1 * c) :=
      mul_le_mul_of_nonneg_left h (mul_pos hs hd).le
    calc s * ν * (Real.exp (-epi / ν) * Real.exp d)
        = s * Real.exp d * (ν * Real.exp (-epi / ν)) := by ring
      _ ≤ s * Real.exp d * (Real.exp 1 * c) := h2
      _ = Real.exp 1 * (c * (s * Real.exp d)) := by ring
  · right
    subst hν
    refine ⟨by ring, ?_, ?_⟩
    · have : 0 ≤ s * epi := mul_nonneg hs.le (by linarith)
      have e : -(s * (epi - 0 * d)) = -(s * epi) := by ring
      rw [e]; linarith
    · have hd : 0 < Real.exp d := Real.exp_pos d
      have : 0 ≤ (Real.exp 1 * c) * (s * Real.exp d) := mul_nonneg hy (mul_pos hs hd).le
      calc 0 ≤ (Real.exp 1 * c) * (s * Real.exp d) := this
        _ = Real.exp 1 * (c * (s * Real.exp d)) := by ring

/-- translation, forward direction -/
theorem ai_translate_fwd (α : ι → Fin n → ℝ) (i : ι) (S : Finset ι) (c : ι → ℝ) (t : Fin n → ℝ)
    (h : OrdAgeCert α i S c) : OrdAgeCert α i S (fun j => c j * Real.exp (dotp (α j) t)) := by
  obtain ⟨ν, epi, h1, h2, h3⟩ := h
  have hs : 0 < Real.exp (dotp (α i) t) := Real.exp_pos _
  refine ⟨fun j => Real.exp (dotp (α i) t) * ν j,
    fun j => Real.exp (dotp (α i) t) * (epi j - ν j * (dotp (α j) t - dotp (α i) t)), ?_, ?_, ?_⟩
  · intro j hj
    have := ai_row_translate (epi j) (c j) (ν j) (Real.exp (dotp (α i) t)) (dotp (α j) t - dotp (α i) t) hs (h1 j hj)
    have e : Real.exp (dotp (α i) t) * Real.exp (dotp (α j) t - dotp (α i) t) = Real.exp (dotp (α j) t) := by
      rw [← Real.exp_add]; congr 1; ring
    rw [e] at this
    exact this
  · have hb := ai_balance_dot α i S ν h3 t
    have e : ∑ j ∈ S, Real.exp (dotp (α i) t) * (epi j - ν j * (dotp (α j) t - dotp (α i) t))
        = Real.exp (dotp (α i) t) * ∑ j ∈ S, epi j := by
      rw [← Finset.mul_sum, Finset.sum_sub_distrib, hb, sub_zero]
    show 0 ≤ c i * Real.exp (dotp (α i) t)
      - ∑ j ∈ S, Real.exp (dotp (α i) t) * (epi j - ν j * (dotp (α j) t - dotp (α i) t))
    rw [e]
    have : 0 ≤ Real.exp (dotp (α i) t) * (c i - ∑ j ∈ S, epi j) := mul_nonneg hs.le h2
    linarith
  · intro k
    have e : ∑ j ∈ S, Real.exp (dotp (α i) t) * ν j * (α j k - α i k)
        = Real.exp (dotp (α i) t) * ∑ j ∈ S, ν j * (α j k - α i k) := by
      rw [Finset.mul_sum]; apply Finset.sum_congr rfl; intro j _; ring
    show ∑ j ∈ S, Real.exp (dotp (α i) t) * ν j * (α j k - α i k) = 0
    rw [e, h3 k, mul_zero]

/-- translation invariance -/
theorem ai_translate (α : ι → Fin n → ℝ) (i : ι) (S : Finset ι) (c : ι → ℝ) (t : Fin n → ℝ) :
    OrdAgeCert α i S c ↔ OrdAgeCert α i S (fun j => c j * Real.exp (dotp (α j) t)) := by
  refine ⟨ai_translate_fwd α i S c t, fun h => ?_⟩
  have h' := ai_translate_fwd α i S _ (fun k => -(t k)) h
  have e : (fun j => c j * Real.exp (dotp (α j) t) * Real.exp (dotp (α j) fun k => -(t k))) = c := by
    funext j
    rw [ai_dotp_neg, mul_assoc, ← Real.exp_add, add_neg_cancel, Real.exp_zero, mul_one]
  rw [e] at h'
  exact h'

/-- linear change of variables -/
theorem ai_linear {m : ℕ} (α : ι → Fin n → ℝ) (i : ι) (S : Finset ι) (c : ι → ℝ) (M : Fin n → Fin m → ℝ)
    (h : OrdAgeCert α i S c) :
    OrdAgeCert (fun j l => ∑ k, α j k * M k l) i S c := by
  obtain ⟨ν, epi, h1, h2, h3⟩ := h
  refine ⟨ν, epi, h1, h2, ?_⟩
  intro l
  have : ∀ j ∈ S, ν j * (∑ k, α j k * M k l - ∑ k, α i k * M k l) = ∑ k, (ν j * (α j k - α i k)) * M k l := by
    intro j _; rw [← Finset.sum_sub_distrib, Finset.mul_sum]
    apply Finset.sum_congr rfl; intro k _; ring
  show ∑ j ∈ S, ν j * (∑ k, α j k * M k l - ∑ k, α i k * M k l) = 0
  rw [Finset.sum_congr rfl this, Finset.sum_comm]
  apply Finset.sum_eq_zero; intro k _
  rw [← Finset.sum_mul, h3 k, zero_mul]

/-- composing the exponent matrix with `M` and then with a right inverse gives the exponents back -/
theorem ai_linear_inv (α : ι → Fin n → ℝ) (M Minv : Fin n → Fin n → ℝ)
    (hinv : ∀ k k', ∑ l, M k l * Minv l k' = if k = k' then 1 else 0) :
    (fun (j : ι) (k' : Fin n) => ∑ l, (∑ k, α j k * M k l) * Minv l k') = α := by
  funext j k'
  have : ∀ l ∈ (Finset.univ : Finset (Fin n)), (∑ k, α j k * M k l) * Minv l k' = ∑ k, α j k * (M k l * Minv l k') := by
    intro l _; rw [Finset.sum_mul]; apply Finset.sum_congr rfl; intro k _; ring
  rw [Finset.sum_congr rfl this, Finset.sum_comm]
  have h2 : ∀ k ∈ (Finset.univ : Finset (Fin n)), ∑ l, α j k * (M k l * Minv l k') = if k = k' then α j k else 0 := by
    intro k _; rw [← Finset.mul_sum, hinv k k']; split <;> simp
  rw [Finset.sum_congr rfl h2]
  simp

theorem ai_linear_iff (α : ι → Fin n → ℝ) (i : ι) (S : Finset ι) (c : ι → ℝ) (M Minv : Fin n → Fin n → ℝ)
    (hinv : ∀ k k', ∑ l, M k l * Minv l k' = if k = k' then 1 else 0) :
    OrdAgeCert α i S c ↔ OrdAgeCert (fun j l => ∑ k, α j k * M k l) i S c := by
  refine ⟨ai_linear α i S c M, fun h => ?_⟩
  have h' := ai_linear _ i S c Minv h
  rw [ai_linear_inv α M Minv hinv] at h'
  exact h'

/-- one cone row under positive scaling -/
theorem ai_row_scale (epi c ν a : ℝ) (ha : 0 < a) (h : InExpCone (-epi) (Real.exp 1 * c) ν) :
    InExpCone (-(a * epi)) (Real.exp 1 * (a * c)) (a * ν) := by
  rcases h with ⟨hν, h⟩ | ⟨hν, hx, hy⟩
  · left
    refine ⟨mul_pos ha hν, ?_⟩
    have e1 : -(a * epi) / (a * ν) = -epi / ν := by field_simp
    rw [e1]
    have := mul_le_mul_of_nonneg_left h ha.le
    calc a * ν * Real.exp (-epi / ν) = a * (ν * Real.exp (-epi / ν)) := by ring
      _ ≤ a * (Real.exp 1 * c) := this
      _ = Real.exp 1 * (a * c) := by ring
  · right
    subst hν
    refine ⟨by ring, ?_, ?_⟩
    · have : 0 ≤ a * epi := mul_nonneg ha.le (by linarith)
      linarith
    · have := mul_nonneg ha.le hy
      calc 0 ≤ a * (Real.exp 1 * c) := this
        _ = Real.exp 1 * (a * c) := by ring

theorem ai_scale_fwd (α : ι → Fin n → ℝ) (i : ι) (S : Finset ι) (c : ι → ℝ) (a : ℝ) (ha : 0 < a)
    (h : OrdAgeCert α i S c) : OrdAgeCert α i S (fun j => a * c j) := by
  obtain ⟨ν, epi, h1, h2, h3⟩ := h
  refine ⟨fun j => a * ν j, fun j => a * epi j, ?_, ?_, ?_⟩
  · intro j hj; exact ai_row_scale _ _ _ a ha (h1 j hj)
  · show 0 ≤ a * c i - ∑ j ∈ S, a * epi j
    rw [← Finset.mul_sum]
    have := mul_nonneg ha.le h2
    linarith
  · intro k
    have e : ∑ j ∈ S, a * ν j * (α j k - α i k) = a * ∑ j ∈ S, ν j * (α j k - α i k) := by
      rw [Finset.mul_sum]; apply Finset.sum_congr rfl; intro j _; ring
    show ∑ j ∈ S, a * ν j * (α j k - α i k) = 0
    rw [e, h3 k, mul_zero]

theorem ai_scale (α : ι → Fin n → ℝ) (i : ι) (S : Finset ι) (c : ι → ℝ) (a : ℝ) (ha : 0 < a) :
    OrdAgeCert α i S c ↔ OrdAgeCert α i S (fun j => a * c j) := by
  refine ⟨ai_scale_fwd α i S c a ha, fun h => ?_⟩
  have h' := ai_scale_fwd α i S _ a⁻¹ (inv_pos.mpr ha) h
  have e : (fun j => a⁻¹ * (a * c j)) = c := by
    funext j; rw [← mul_assoc, inv_mul_cancel₀ ha.ne', one_mul]
  rw [e] at h'
  exact h'

theorem ai_shift (α : ι → Fin n → ℝ) (i : ι) (S : Finset ι) (c : ι → ℝ) (β : Fin n → ℝ) :
    OrdAgeCert α i S c ↔ OrdAgeCert (fun j k => α j k + β k) i S c := by
  have e : ∀ (ν : ι → ℝ) (k : Fin n), ∑ j ∈ S, ν j * (α j k + β k - (α i k + β k)) = ∑ j ∈ S, ν j * (α j k - α i k) := by
    intro ν k; apply Finset.sum_congr rfl; intro j _; ring
  constructor
  · rintro ⟨ν, epi, h1, h2, h3⟩
    exact ⟨ν, epi, h1, h2, fun k => by rw [← h3 k]; exact e ν k⟩
  · rintro ⟨ν, epi, h1, h2, h3⟩
    exact ⟨ν, epi, h1, h2, fun k => by rw [← h3 k]; exact (e ν k).symm⟩

theorem ai_reindex {ι' : Type} (e : ι' ≃ ι) (α : ι → Fin n → ℝ) (i : ι) (S : Finset ι) (c : ι → ℝ) :
    OrdAgeCert α i S c ↔ OrdAgeCert (fun j => α (e j)) (e.symm i) (S.map e.symm.toEmbedding) (fun j => c (e j)) := by
  constructor
  · rintro ⟨ν, epi, h1, h2, h3⟩
    refine ⟨fun j => ν (e j), fun j => epi (e j), ?_, ?_, ?_⟩
    · intro j hj
      rw [Finset.mem_map] at hj
      obtain ⟨j0, hj0, rfl⟩ := hj
      simpa using h1 j0 hj0
    · rw [Finset.sum_map]
      simpa using h2
    · intro k
      rw [Finset.sum_map]
      simpa using h3 k
  · rintro ⟨ν, epi, h1, h2, h3⟩
    refine ⟨fun j => ν (e.symm j), fun j => epi (e.symm j), ?_, ?_, ?_⟩
    · intro j hj
      have := h1 (e.symm j) (Finset.mem_map.mpr ⟨j, hj, rfl⟩)
      simpa using this
    · rw [Finset.sum_map] at h2
      simpa using h2
    · intro k
      have := h3 k
      rw [Finset.sum_map] at this
      simpa using this

theorem ai_cover_mono (α : ι → Fin n → ℝ) (i : ι) (S S' : Finset ι) (hS : S ⊆ S') (c : ι → ℝ)
    (hc : ∀ j ∈ S', j ∉ S → 0 ≤ c j) (h : OrdAgeCert α i S c) : OrdAgeCert α i S' c := by
  classical
  obtain ⟨ν, epi, h1, h2, h3⟩ := h
  refine ⟨fun j => if j ∈ S then ν j else 0, fun j => if j ∈ S then epi j else 0, ?_, ?_, ?_⟩
  · intro j hj
    by_cases hjS : j ∈ S
    · simpa [hjS] using h1 j hjS
    · simp only [hjS, if_false]
      right
      exact ⟨rfl, by simp, mul_nonneg (Real.exp_pos 1).le (hc j hj hjS)⟩
  · have e : ∑ j ∈ S', (if j ∈ S then epi j else 0) = ∑ j ∈ S, epi j := by
      rw [← Finset.sum_subset hS (fun j _ hjS => by simp [hjS])]
      apply Finset.sum_congr rfl; intro j hj; simp [hj]
    show 0 ≤ c i - ∑ j ∈ S', (if j ∈ S then epi j else 0)
    rw [e]; exact h2
  · intro k
    have e : ∑ j ∈ S', (if j ∈ S then ν j else 0) * (α j k - α i k) = ∑ j ∈ S, ν j * (α j k - α i k) := by
      rw [← Finset.sum_subset hS (fun j _ hjS => by simp [hjS])]
      apply Finset.sum_congr rfl; intro j hj; simp [hj]
    show ∑ j ∈ S', (if j ∈ S then ν j else 0) * (α j k - α i k) = 0
    rw [e]; exact h3 k

end Sageopt.Analysis
