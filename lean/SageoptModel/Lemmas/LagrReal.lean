/-
Helper lemmas for C04 part B (the signomial Lagrangian as a FUNCTION on ℝⁿ): real evaluation (`sigR`, at an
arbitrary real point) through the building blocks of `makeLagrangian`: `L0 = f − γ`, the summands `−g·s_g`,
the sum of the summands, and left folds of `mulQ` (the members of `qFold`).
The character `a ↦ exp (a·x)` (`rs_chi x`) is multiplicative on ALL rows of width `n`, so the calculus of
`Lemmas/RelaxSigCalc.lean` applies; the file follows `Lemmas/PolyBLagr.lean` (the same results for `polyR`).
-/
import SageoptModel.Lemmas.LagrIdent
import SageoptModel.Lemmas.PolySem
import SageoptModel.Lemmas.RelaxSigCalc
import SageoptModel.Lemmas.RelaxSigBuild
import SageoptModel.Lemmas.DomBasic

namespace Sageopt.Relax
open Sageopt Sageopt.Sig Sageopt.Sig.Hom Sageopt.Poly Sageopt.Sage Sageopt.RelaxSig Sageopt.Domain
  Sageopt.Props Sageopt.Props.C13

theorem lr_evalL_eq (σ : Nat → Rat) (ts : List (Exp × Lin)) : evalL σ ts = mapT (Lin.value σ) ts := rfl

theorem lr_evalL_mapσ (σ : Nat → Rat) (f : SigL) : evalL σ f.terms = (mapσ σ f).terms := rfl

theorem lr_evalL_width (n : Nat) (σ : Nat → Rat) (ts : List (Exp × Lin)) (h : ∀ t ∈ ts, t.1.length = n) :
    ∀ t ∈ evalL σ ts, t.1.length = n := by
  intro t ht
  obtain ⟨u, hu, rfl⟩ := List.mem_map.1 ht
  exact h u hu

noncomputable section

/-! ### `sigR` and the coefficient function -/

@[simp] theorem lr_sigR_nil (x : List ℝ) : sigR [] x = 0 := by simp [sigR]

theorem lr_sigR_cons (t : Exp × Rat) (ts : List (Exp × Rat)) (x : List ℝ) :
    sigR (t :: ts) x = (t.2 : ℝ) * Real.exp (rdot t.1 x) + sigR ts x := by
  simp [sigR]

theorem lr_sigR_append (ts us : List (Exp × Rat)) (x : List ℝ) :
    sigR (ts ++ us) x = sigR ts x + sigR us x := by
  simp [sigR]

/-- the value at a real point is determined by the (rational) coefficient function -/
theorem lr_sigR_congr {ts us : List (Exp × Rat)} (x : List ℝ) (h : ∀ a, coeff ts a = coeff us a) :
    sigR ts x = sigR us x := by
  rw [dm_sigR_eq, dm_sigR_eq]
  apply eval_congr_coeff
  intro a
  rw [rs_coeff_cast, rs_coeff_cast, h a]

theorem lr_sigR_add_of_coeff {hs ts us : List (Exp × Rat)} (x : List ℝ)
    (h : ∀ a, coeff hs a = coeff ts a + coeff us a) : sigR hs x = sigR ts x + sigR us x := by
  rw [← lr_sigR_append]
  exact lr_sigR_congr x (fun a => by rw [h a, coeff_append])

theorem lr_sigR_neg_of_coeff {ts us : List (Exp × Rat)} (x : List ℝ)
    (h : ∀ a, coeff ts a = - coeff us a) : sigR ts x = - sigR us x := by
  have h0 : sigR ([] : List (Exp × Rat)) x = sigR ts x + sigR us x :=
    lr_sigR_add_of_coeff x (fun a => by rw [h a]; simp [coeff])
  rw [lr_sigR_nil] at h0
  linarith

theorem lr_sigR_flatMap {ι : Type} (x : List ℝ) (l : List ι) (F : ι → List (Exp × Rat)) :
    sigR (l.flatMap F) x = (l.map fun i => sigR (F i) x).sum := by
  induction l with
  | nil => simp
  | cons i l ih => rw [List.flatMap_cons, lr_sigR_append, ih, List.map_cons, List.sum_cons]

theorem lr_sigR_sum_of_coeff {ι : Type} (x : List ℝ) (hs : List (Exp × Rat)) (l : List ι)
    (F : ι → List (Exp × Rat)) (h : ∀ a, coeff hs a = (l.map fun i => coeff (F i) a).sum) :
    sigR hs x = (l.map fun i => sigR (F i) x).sum := by
  rw [← lr_sigR_flatMap]
  apply lr_sigR_congr
  intro a
  rw [h a, coeff_flatMap]

/-- `(Σ c_a e^{a·x})(Σ d_b e^{b·x}) = Σ c_a d_b e^{(a+b)·x}` for rows of width `n`, at EVERY real point -/
theorem lr_sigR_prodTerms (n : Nat) (x : List ℝ) (ts us : List (Exp × Rat))
    (hw : ∀ t ∈ ts, t.1.length = n) (hu : ∀ t ∈ us, t.1.length = n) :
    sigR (prodTerms ts us) x = sigR ts x * sigR us x := by
  rw [dm_sigR_eq, dm_sigR_eq, dm_sigR_eq]
  exact rs_eval_prodTerms x n ts us hw hu

theorem lr_sigR_single (n : Nat) (v : Rat) (x : List ℝ) : sigR [(zeroExp n, v)] x = (v : ℝ) := by
  rw [lr_sigR_cons, lr_sigR_nil, rs_rdot_zeroExp]
  simp

/-! ### `L0 = f − γ` -/

/-- the signomial `f − γ` with the scalar variable `γ` -/
def lr_L0 (f : SigQ) (γ : Nat) : SigL :=
  okOr (add Lin.isZero (embed f) (const f.n (Lin.scale (-1) (Lin.var γ)))) (embed f)

theorem lr_L0_spec (f : SigQ) (hf : Wf f) (γ : Nat) (σ : Nat → Rat) (x : List ℝ) :
    Wf (lr_L0 f γ) ∧ (lr_L0 f γ).n = f.n ∧
    sigR (evalL σ (lr_L0 f γ).terms) x = sigR f.terms x - (σ γ : ℝ) := by
  unfold lr_L0
  rw [lg_add_ok]
  simp only [okOr]
  have h := fun a => map_add σ (embed f) (const f.n (Lin.scale (-1) (Lin.var γ))) _ (lg_embed_wf f hf)
    (Gen.const_wf _ _) (lg_add_ok f _) a
  have hn : (sumList f.n [embed f, const f.n (Lin.scale (-1) (Lin.var γ))]).n = f.n :=
    Gen.sumList_n _ _ (by
      intro y hy
      simp only [List.mem_cons, List.not_mem_nil, or_false] at hy
      rcases hy with rfl | rfl <;> rfl)
  refine ⟨(h []).1, ?_, ?_⟩
  · rw [Gen.withoutZeros_n]
    exact hn
  · have h1 : sigR (mapσ σ (withoutZeros Lin.isZero
        (sumList f.n [embed f, const f.n (Lin.scale (-1) (Lin.var γ))]))).terms x =
        sigR (mapσ σ (embed f)).terms x + sigR (mapσ σ (const f.n (Lin.scale (-1) (Lin.var γ)))).terms x :=
      lr_sigR_add_of_coeff x (fun a => (h a).2)
    have h2 : sigR (mapσ σ (const f.n (Lin.scale (-1) (Lin.var γ)))).terms x = -(σ γ : ℝ) := by
      rw [lr_sigR_congr x (map_const σ f.n (Lin.scale (-1) (Lin.var γ))), const_terms, lr_sigR_single,
        rs_value_gamma]
      push_cast
      rfl
    rw [lg_mapσ_embed, h2] at h1
    show sigR (mapσ σ _).terms x = _
    rw [h1]
    ring

/-! ### the summands `−g · s_g` -/

theorem lr_summand (n : Nat) (σ : Nat → Rat) (x : List ℝ) (g : SigQ) (hg : Wf g) (hgn : g.n = n)
    (am : List Exp) (ham : ∀ a ∈ am, a.length = n) (ids : List Nat) :
    Wf (okOr (mul Lin.isZero (embed (neg isZeroQ g)) (varSig n am ids)) (embed g)) ∧
    (okOr (mul Lin.isZero (embed (neg isZeroQ g)) (varSig n am ids)) (embed g)).n = n ∧
    sigR (evalL σ (okOr (mul Lin.isZero (embed (neg isZeroQ g)) (varSig n am ids)) (embed g)).terms) x =
      - (sigR (evalL σ (varSig n am ids).terms) x * sigR g.terms x) := by
  obtain ⟨w1, w2, _⟩ := lg_summand n (fun _ => 1) (lg_oneChar n).isGridChar σ g hg hgn am ham ids
  refine ⟨w1, w2, ?_⟩
  rw [lg_mul_ok n g hgn]
  simp only [okOr]
  have hneg : Wf (neg isZeroQ g) := (C12.neg_hom isZeroQ isZeroQ_iff g hg []).1
  have hnn : (neg isZeroQ g).n = n := by rw [neg, smul_n, hgn]
  have hA : Wf (embed (neg isZeroQ g)) := lg_embed_wf _ hneg
  have hB : Wf (varSig n am ids) := lg_varSig_wf n am ham ids
  have hp : Wf (product (embed (neg isZeroQ g)) (varSig n am ids)) :=
    Gen.product_wf _ _ hA hB (by rw [lg_embed_n, hnn, lg_varSig_n])
  have hmm : ∀ t1 ∈ (embed (neg isZeroQ g)).terms, ∀ t2 ∈ (varSig n am ids).terms,
      Lin.value σ (t1.2 * t2.2) = Lin.value σ t1.2 * Lin.value σ t2.2 :=
    fun t1 h1 t2 _ => Lin.value_mul_of_left_const σ t1.2 t2.2 (lg_embed_const _ t1 h1)
  have hc : ∀ a, coeff (evalL σ (withoutZeros Lin.isZero
      (product (embed (neg isZeroQ g)) (varSig n am ids))).terms) a =
      coeff (prodTerms (neg isZeroQ g).terms (evalL σ (varSig n am ids).terms)) a := by
    intro a
    rw [lr_evalL_eq, lr_evalL_eq,
      coeff_mapT_withoutZeros (LinC.value_isAddHom σ) Lin.isZero (LinC.isZero_value σ) _ hp a,
      coeff_mapT_product (LinC.value_isAddHom σ) _ _ hA.grid hB.grid hmm a, rs_mapT_embed]
  rw [lr_sigR_congr x hc,
    lr_sigR_prodTerms n x _ _ (fun t ht => by rw [hneg.width t ht, hnn])
      (lr_evalL_width n σ _ (fun t ht => by rw [hB.width t ht, lg_varSig_n])),
    lr_sigR_neg_of_coeff x (fun a => (C12.neg_hom isZeroQ isZeroQ_iff g hg a).2)]
  ring

/-! ### the sum of the summands -/

theorem lr_sum_map_neg {ι : Type} (l : List ι) (F G : ι → ℝ) (h : ∀ i ∈ l, F i = - G i) :
    (l.map F).sum = - (l.map G).sum := by
  induction l with
  | nil => simp
  | cons i l ih =>
    rw [List.map_cons, List.sum_cons, List.map_cons, List.sum_cons, h i (by simp),
      ih (fun y hy => h y (List.mem_cons_of_mem _ hy))]
    ring

theorem lr_sum_identity (n : Nat) (σ : Nat → Rat) (x : List ℝ) (L0 : SigL) (hL0 : Wf L0 ∧ L0.n = n)
    (S : SigQ × List Nat → SigL) (V : SigQ × List Nat → ℝ) (A B : List (SigQ × List Nat))
    (hA : ∀ p ∈ A, (Wf (S p) ∧ (S p).n = n) ∧ sigR (evalL σ (S p).terms) x = - V p)
    (hB : ∀ p ∈ B, (Wf (S p) ∧ (S p).n = n) ∧ sigR (evalL σ (S p).terms) x = - V p) :
    sigR (evalL σ (sumList n ([L0] ++ A.map S ++ B.map S)).terms) x =
      sigR (evalL σ L0.terms) x - (A.map V).sum - (B.map V).sum := by
  have hfs : ∀ f ∈ [L0] ++ A.map S ++ B.map S, Wf f ∧ f.n = n := by
    intro f hf
    simp only [List.mem_append, List.mem_singleton, List.mem_map] at hf
    rcases hf with (rfl | ⟨p, hp, rfl⟩) | ⟨p, hp, rfl⟩
    · exact hL0
    · exact (hA p hp).1
    · exact (hB p hp).1
  have hs : sigR (evalL σ (sumList n ([L0] ++ A.map S ++ B.map S)).terms) x =
      (([L0] ++ A.map S ++ B.map S).map fun f => sigR (evalL σ f.terms) x).sum :=
    lr_sigR_sum_of_coeff x _ ([L0] ++ A.map S ++ B.map S) (fun f => evalL σ f.terms)
      (fun a => map_sumList σ n _ hfs (by simp) a)
  rw [hs, List.map_append, List.map_append, List.sum_append, List.sum_append, List.map_map, List.map_map,
    lr_sum_map_neg A ((fun f : SigL => sigR (evalL σ f.terms) x) ∘ S) V (fun p hp => (hA p hp).2),
    lr_sum_map_neg B ((fun f : SigL => sigR (evalL σ f.terms) x) ∘ S) V (fun p hp => (hB p hp).2)]
  simp only [List.map_cons, List.map_nil, List.sum_cons, List.sum_nil]
  ring

/-! ### left folds of `mulQ` -/

theorem lr_sigR_foldl_mulQ (n : Nat) (x : List ℝ) (gs : List SigQ)
    (hgs : ∀ g ∈ gs, Wf g ∧ g.n = n) (g : SigQ) (hg : Wf g) (hgn : g.n = n) :
    sigR (gs.foldl mulQ g).terms x = sigR g.terms x * (gs.map fun g => sigR g.terms x).prod := by
  induction gs generalizing g with
  | nil => simp
  | cons y gs ih =>
    obtain ⟨hy, hyn⟩ := hgs y (by simp)
    rw [List.foldl_cons, ih (fun g hg => hgs g (List.mem_cons_of_mem _ hg)) (mulQ g y)
      (lg_mulQ_wf g y hg hy (by rw [hgn, hyn])) (by rw [lg_mulQ_n, hgn]),
      dm_sigR_mulQ g y hg hy (by rw [hgn, hyn]), List.map_cons, List.prod_cons]
    ring

/-! ### products of reals -/

theorem lr_prod_nonneg (l : List ℝ) (h : ∀ v ∈ l, 0 ≤ v) : 0 ≤ l.prod := by
  induction l with
  | nil => simp
  | cons v l ih =>
    rw [List.prod_cons]
    exact mul_nonneg (h v (by simp)) (ih (fun w hw => h w (List.mem_cons_of_mem _ hw)))

theorem lr_prod_zero (l : List ℝ) (hne : l ≠ []) (h : ∀ v ∈ l, v = 0) : l.prod = 0 := by
  cases l with
  | nil => exact absurd rfl hne
  | cons v l =>
    rw [List.prod_cons, h v (by simp), zero_mul]

theorem lr_sum_nonneg {ι : Type} (l : List ι) (F : ι → ℝ) (h : ∀ i ∈ l, 0 ≤ F i) : 0 ≤ (l.map F).sum := by
  apply List.sum_nonneg
  intro v hv
  obtain ⟨i, hi, rfl⟩ := List.mem_map.1 hv
  exact h i hi

theorem lr_sum_zero {ι : Type} (l : List ι) (F : ι → ℝ) (h : ∀ i ∈ l, F i = 0) : (l.map F).sum = 0 := by
  induction l with
  | nil => simp
  | cons i l ih =>
    rw [List.map_cons, List.sum_cons, h i (by simp), ih (fun j hj => h j (List.mem_cons_of_mem _ hj)), add_zero]

end

end Sageopt.Relax
