/-
The signomial model at coefficient type `Lin`: `Lin.value σ` is an additive map in the sense of
`Lemmas/SigMapHom.lean`, and the poison flag propagates through `consolidate`, `withoutZeros` and
`product` (a clean result means every coefficient product that was formed was clean).
-/
import SageoptModel.Lemmas.LinValue
import SageoptModel.Lemmas.SigMapHom

namespace Sageopt.Sig.LinC
open Sageopt Sageopt.Sig Sageopt.Sig.Hom

theorem value_isAddHom (σ : Nat → Rat) : IsAddHom (Lin.value σ) :=
  ⟨Lin.value_zero σ, Lin.value_add σ⟩

theorem isZero_value (σ : Nat → Rat) : ∀ c, Lin.isZero c = true → Lin.value σ c = 0 :=
  fun c h => Lin.isZero_value σ c h

/-- no coefficient of the term list carries the poison flag -/
def CleanT (ts : List (Exp × Lin)) : Prop := ∀ t ∈ ts, t.2.bad = false

theorem cleanT_of_consolidate {ts : List (Exp × Lin)} (h : CleanT (consolidate ts)) : CleanT ts := by
  unfold consolidate at h
  cases hd : hasDupKeys (keys ts) with
  | false => simpa [hd] using h
  | true =>
    simp only [hd, if_true] at h
    intro t ht
    have hk : t.1 ∈ sortedKeys (keys ts) := (mem_sortedKeys _ _).2 (List.mem_map.2 ⟨t, ht, rfl⟩)
    have h1 := h (t.1, sumC ((ts.filter fun u => u.1 == t.1).map Prod.snd))
      (List.mem_map.2 ⟨t.1, hk, rfl⟩)
    apply (Lin.bad_sumC _).1 h1
    exact List.mem_map.2 ⟨t, List.mem_filter.2 ⟨ht, by simp⟩, rfl⟩

theorem cleanT_of_keepNZ {f : SigT Lin} (h : CleanT (keepNZ Lin.isZero f)) : CleanT f.terms := by
  intro t ht
  by_cases hz : Lin.isZero t.2 = true
  · exact Lin.isZero_bad _ hz
  · apply h t
    unfold keepNZ
    exact List.mem_filter.2 ⟨ht, by simpa using hz⟩

theorem cleanT_of_withoutZeros {f : SigT Lin} (hf : Wf f)
    (h : CleanT (withoutZeros Lin.isZero f).terms) : CleanT f.terms := by
  rcases Gen.withoutZeros_terms Lin.isZero f hf with e | ⟨hk, _⟩ | e
  · rwa [e] at h
  · apply cleanT_of_keepNZ
    rw [hk]
    intro t ht
    simp at ht
  · apply cleanT_of_keepNZ
    rwa [e] at h

theorem clean_products_of_product {f g : SigT Lin} (hf : Wf f) (hg : Wf g)
    (h : CleanT (product f g).terms) :
    ∀ t1 ∈ f.terms, ∀ t2 ∈ g.terms, (t1.2 * t2.2).bad = false := by
  rw [Gen.product_terms f g hf.grid hg.grid] at h
  have h' := cleanT_of_consolidate h
  intro t1 h1 t2 h2
  exact h' (addExp t1.1 t2.1, t1.2 * t2.2) (Gen.mem_prodTerms.2 ⟨t2, h2, t1, h1, rfl⟩)

end Sageopt.Sig.LinC
