/-
`withoutZeros`, `alignKeys`/`sumList`, `product`, scalar multiples and `powNat`.
-/
import SageoptModel.Lemmas.SigCons

namespace Sageopt.Sig

variable {C : Type} [CommRing C]

/-! ### withoutZeros -/

/-- the terms `withoutZeros` keeps -/
def keepNZ (isZero : C → Bool) (f : SigT C) : List (Exp × C) := f.terms.filter fun t => !isZero t.2

theorem withoutZeros_cases (isZero : C → Bool) (f : SigT C) :
    (f.terms.length = 1 ∧ withoutZeros isZero f = f) ∨
    (keepNZ isZero f = f.terms ∧ withoutZeros isZero f = f) ∨
    (keepNZ isZero f = [] ∧ withoutZeros isZero f = const f.n 0) ∨
    (withoutZeros isZero f = mk f.n (keepNZ isZero f)) := by
  unfold withoutZeros
  by_cases h1 : f.terms.length = 1
  · left; exact ⟨h1, by rw [if_pos h1]⟩
  · right
    rw [if_neg h1]
    simp only []
    by_cases h2 : (f.terms.filter fun t => !isZero t.2).length = f.terms.length
    · left
      rw [if_pos h2]
      exact ⟨List.filter_eq_self.2 (List.length_filter_eq_length_iff.1 h2), rfl⟩
    · right
      rw [if_neg h2]
      by_cases h3 : (f.terms.filter fun t => !isZero t.2).isEmpty = true
      · left
        rw [if_pos h3]
        exact ⟨List.isEmpty_iff.1 h3, rfl⟩
      · right
        rw [if_neg h3]
        rfl

theorem withoutZeros_n (isZero : C → Bool) (f : SigT C) : (withoutZeros isZero f).n = f.n := by
  rcases withoutZeros_cases isZero f with ⟨_, h⟩ | ⟨_, h⟩ | ⟨_, h⟩ | h <;> rw [h] <;> rfl

theorem keepNZ_coeff (isZero : C → Bool) (hz : ∀ c, isZero c = true ↔ c = 0) (f : SigT C) (a : Exp) :
    coeff (keepNZ isZero f) a = coeff f.terms a := by
  unfold keepNZ
  apply coeff_filter_of_zero
  intro t _ ht
  simp only [Bool.not_eq_false'] at ht
  exact (hz _).1 ht

omit [CommRing C] in
theorem keepNZ_grid (isZero : C → Bool) (f : SigT C) (hf : ∀ t ∈ f.terms, OnGrid t.1) :
    ∀ t ∈ keepNZ isZero f, OnGrid t.1 :=
  fun t ht => hf t (List.mem_of_mem_filter ht)

omit [CommRing C] in
theorem keepNZ_nodup (isZero : C → Bool) (f : SigT C) (hf : (keys f.terms).Nodup) :
    (keys (keepNZ isZero f)).Nodup := by
  unfold keepNZ keys
  exact List.Nodup.sublist (List.Sublist.map _ List.filter_sublist) hf

theorem withoutZeros_coeff' (isZero : C → Bool) (hz : ∀ c, isZero c = true ↔ c = 0) (f : SigT C)
    (hg : ∀ t ∈ f.terms, OnGrid t.1) (a : Exp) :
    coeff (withoutZeros isZero f).terms a = coeff f.terms a := by
  rcases withoutZeros_cases isZero f with ⟨_, h⟩ | ⟨_, h⟩ | ⟨hk, h⟩ | h
  · rw [h]
  · rw [h]
  · rw [h, const_terms, ← keepNZ_coeff isZero hz f a, hk, coeff_cons]
    simp
  · rw [h, mk_coeff', rounded_of_grid (keepNZ_grid isZero f hg), keepNZ_coeff isZero hz]

theorem withoutZeros_eval (isZero : C → Bool) (hz : ∀ c, isZero c = true ↔ c = 0) (f : SigT C)
    (hg : ∀ t ∈ f.terms, OnGrid t.1) (χ : Exp → C) :
    eval χ (withoutZeros isZero f).terms = eval χ f.terms :=
  eval_congr_coeff χ (withoutZeros_coeff' isZero hz f hg)

theorem withoutZeros_wf' (isZero : C → Bool) (f : SigT C) (hf : Wf f) : Wf (withoutZeros isZero f) := by
  rcases withoutZeros_cases isZero f with ⟨_, h⟩ | ⟨_, h⟩ | ⟨_, h⟩ | h
  · rw [h]; exact hf
  · rw [h]; exact hf
  · rw [h]; exact const_wf _ _
  · rw [h]
    apply mk_wf'
    intro t ht
    exact hf.width t (List.mem_of_mem_filter ht)

theorem withoutZeros_no_zero' (isZero : C → Bool) (hz : ∀ c, isZero c = true ↔ c = 0) (f : SigT C)
    (hf : Wf f) :
    (∀ t ∈ (withoutZeros isZero f).terms, t.2 ≠ 0) ∨ (withoutZeros isZero f).terms.length = 1 := by
  have hkeep : ∀ t ∈ keepNZ isZero f, t.2 ≠ 0 := by
    intro t ht h0
    have := (List.mem_filter.1 ht).2
    rw [(hz t.2).2 h0] at this
    simp at this
  rcases withoutZeros_cases isZero f with ⟨h1, h⟩ | ⟨hk, h⟩ | ⟨_, h⟩ | h
  · right; rw [h]; exact h1
  · left; rw [h, ← hk]; exact hkeep
  · right; rw [h, const_terms]; rfl
  · left
    rw [h, mk_terms_of_wf (keepNZ_grid isZero f hf.grid) (keepNZ_nodup isZero f hf.nodup)]
    exact hkeep

/-! ### alignKeys -/

/-- the inner loop of `alignKeys` -/
def addNew (acc m : List Exp) : List Exp :=
  m.foldl (fun acc r => if acc.contains r then acc else acc ++ [r]) acc

theorem addNew_spec (m acc : List Exp) (hacc : acc.Nodup) :
    (addNew acc m).Nodup ∧ ∀ x, x ∈ addNew acc m ↔ x ∈ acc ∨ x ∈ m := by
  unfold addNew
  induction m generalizing acc with
  | nil => simp [hacc]
  | cons r m ih =>
    simp only [List.foldl_cons]
    by_cases h : acc.contains r = true
    · rw [if_pos h]
      obtain ⟨h1, h2⟩ := ih acc hacc
      refine ⟨h1, fun x => ?_⟩
      rw [h2, List.mem_cons]
      have hr : r ∈ acc := by simpa using h
      constructor
      · tauto
      · rintro (h | rfl | h)
        · exact Or.inl h
        · exact Or.inl hr
        · exact Or.inr h
    · rw [if_neg h]
      have hr : r ∉ acc := by simpa using h
      have hnd : (acc ++ [r]).Nodup := by
        rw [List.nodup_append]
        refine ⟨hacc, by simp, ?_⟩
        intro a ha b hb
        simp only [List.mem_singleton] at hb
        rintro rfl
        exact hr (hb ▸ ha)
      obtain ⟨h1, h2⟩ := ih (acc ++ [r]) hnd
      refine ⟨h1, fun x => ?_⟩
      rw [h2, List.mem_append, List.mem_singleton, List.mem_cons]
      tauto

theorem alignKeys_aux (mats : List (List Exp)) (acc : List Exp) (hacc : acc.Nodup) :
    (mats.foldl addNew acc).Nodup ∧
    ∀ x, x ∈ mats.foldl addNew acc ↔ x ∈ acc ∨ ∃ m ∈ mats, x ∈ m := by
  induction mats generalizing acc with
  | nil => simp [hacc]
  | cons m mats ih =>
    simp only [List.foldl_cons]
    obtain ⟨h0, h0'⟩ := addNew_spec m acc hacc
    obtain ⟨h1, h2⟩ := ih (addNew acc m) h0
    refine ⟨h1, fun x => ?_⟩
    rw [h2, h0']
    simp only [List.mem_cons, exists_eq_or_imp]
    tauto

theorem alignKeys_eq (mats : List (List Exp)) : alignKeys mats = mats.foldl addNew [] := rfl

theorem alignKeys_nodup (mats : List (List Exp)) : (alignKeys mats).Nodup :=
  (alignKeys_aux mats [] List.nodup_nil).1

theorem mem_alignKeys (mats : List (List Exp)) (x : Exp) :
    x ∈ alignKeys mats ↔ ∃ m ∈ mats, x ∈ m := by
  have := (alignKeys_aux mats [] List.nodup_nil).2 x
  simpa [alignKeys_eq] using this

/-! ### sumList -/

/-- the general (non-singleton) branch of `sumList` -/
def sumGen (n : Nat) (fs : List (SigT C)) : SigT C :=
  mk n ((alignKeys (fs.map fun f => keys f.terms)).map fun k =>
    (k, sumC (fs.map fun f => lookupC f.terms k)))

theorem sumList_cases (n : Nat) (fs : List (SigT C)) :
    (∃ f, fs = [f] ∧ sumList n fs = f) ∨ sumList n fs = sumGen n fs := by
  match fs with
  | [] => right; rfl
  | [f] => left; exact ⟨f, rfl, rfl⟩
  | f :: g :: r => right; rfl

omit [CommRing C] in
theorem mem_sumKeys (fs : List (SigT C)) (k : Exp) :
    k ∈ alignKeys (fs.map fun f => keys f.terms) ↔ ∃ f ∈ fs, k ∈ keys f.terms := by
  rw [mem_alignKeys]
  simp only [List.mem_map]
  constructor
  · rintro ⟨m, ⟨f, hf, rfl⟩, hk⟩
    exact ⟨f, hf, hk⟩
  · rintro ⟨f, hf, hk⟩
    exact ⟨_, ⟨f, hf, rfl⟩, hk⟩

omit [CommRing C] in
theorem onGrid_of_mem_keys {ts : List (Exp × C)} (h : ∀ t ∈ ts, OnGrid t.1) {k : Exp}
    (hk : k ∈ keys ts) : OnGrid k := by
  obtain ⟨t, ht, rfl⟩ := List.mem_map.1 hk
  exact h t ht

theorem sumGen_terms (n : Nat) (fs : List (SigT C)) (hfs : ∀ f ∈ fs, Wf f) :
    (sumGen n fs).terms = (alignKeys (fs.map fun f => keys f.terms)).map fun k =>
      (k, sumC (fs.map fun f => lookupC f.terms k)) := by
  unfold sumGen
  apply mk_terms_of_wf
  · intro t ht
    obtain ⟨k, hk, rfl⟩ := List.mem_map.1 ht
    obtain ⟨f, hf, hkf⟩ := (mem_sumKeys fs k).1 hk
    exact onGrid_of_mem_keys (hfs f hf).grid hkf
  · rw [keys_map_keyfun]
    exact alignKeys_nodup _

theorem sumGen_coeff (n : Nat) (fs : List (SigT C)) (hfs : ∀ f ∈ fs, Wf f) (a : Exp) :
    coeff (sumGen n fs).terms a = (fs.map fun f => coeff f.terms a).sum := by
  rw [sumGen_terms n fs hfs,
    coeff_map_keyfun _ (alignKeys_nodup _) (fun k => sumC (fs.map fun f => lookupC f.terms k))]
  have hl : (fs.map fun f => lookupC f.terms a) = fs.map fun f => coeff f.terms a :=
    List.map_congr_left fun f hf => lookupC_eq_coeff (hfs f hf).nodup a
  by_cases hm : a ∈ alignKeys (fs.map fun f => keys f.terms)
  · rw [if_pos hm, sumC_eq_sum, hl]
  · rw [if_neg hm]
    symm
    apply List.sum_eq_zero
    intro x hx
    obtain ⟨f, hf, rfl⟩ := List.mem_map.1 hx
    apply coeff_eq_zero_of_not_mem
    intro hk
    exact hm ((mem_sumKeys fs a).2 ⟨f, hf, hk⟩)

theorem sumGen_wf (n : Nat) (fs : List (SigT C)) (hfs : ∀ f ∈ fs, Wf f ∧ f.n = n) :
    Wf (sumGen n fs) := by
  unfold sumGen
  apply mk_wf'
  intro t ht
  obtain ⟨k, hk, rfl⟩ := List.mem_map.1 ht
  obtain ⟨f, hf, hkf⟩ := (mem_sumKeys fs k).1 hk
  obtain ⟨u, hu, rfl⟩ := List.mem_map.1 hkf
  rw [(hfs f hf).1.width u hu, (hfs f hf).2]

theorem sumList_coeff' (n : Nat) (fs : List (SigT C)) (hfs : ∀ f ∈ fs, Wf f) (a : Exp) :
    coeff (sumList n fs).terms a = (fs.map fun f => coeff f.terms a).sum := by
  rcases sumList_cases n fs with ⟨f, rfl, h⟩ | h
  · rw [h]; simp
  · rw [h]; exact sumGen_coeff n fs hfs a

theorem sumList_wf (n : Nat) (fs : List (SigT C)) (hfs : ∀ f ∈ fs, Wf f ∧ f.n = n) :
    Wf (sumList n fs) := by
  rcases sumList_cases n fs with ⟨f, rfl, h⟩ | h
  · rw [h]; exact (hfs f (by simp)).1
  · rw [h]; exact sumGen_wf n fs hfs

theorem sumList_n (n : Nat) (fs : List (SigT C)) (hfs : ∀ f ∈ fs, f.n = n) :
    (sumList n fs).n = n := by
  rcases sumList_cases n fs with ⟨f, rfl, h⟩ | h
  · rw [h]; exact hfs f (by simp)
  · rw [h]; rfl

/-! ### product -/

/-- the un-rounded term list of a product (tile/repeat order) -/
def prodTerms (ts us : List (Exp × C)) : List (Exp × C) :=
  us.flatMap fun t2 => ts.map fun t1 => (addExp t1.1 t2.1, t1.2 * t2.2)

theorem product_terms (f g : SigT C) (hf : ∀ t ∈ f.terms, OnGrid t.1) (hg : ∀ t ∈ g.terms, OnGrid t.1) :
    (product f g).terms = consolidate (prodTerms f.terms g.terms) := by
  unfold product
  rw [mk_terms]
  have h1 : (g.terms.flatMap fun t2 => f.terms.map fun t1 =>
      (roundExp (addExp t1.1 t2.1), t1.2 * t2.2)) = prodTerms f.terms g.terms := by
    unfold prodTerms
    apply List.flatMap_congr
    intro t2 h2
    apply List.map_congr_left
    intro t1 h1
    rw [roundExp_of_onGrid (onGrid_addExp (hf t1 h1) (hg t2 h2))]
  rw [h1, rounded_of_grid]
  intro t ht
  unfold prodTerms at ht
  obtain ⟨t2, h2, ht⟩ := List.mem_flatMap.1 ht
  obtain ⟨t1, h1, rfl⟩ := List.mem_map.1 ht
  exact onGrid_addExp (hf t1 h1) (hg t2 h2)

@[simp] theorem product_n (f g : SigT C) : (product f g).n = f.n := rfl

theorem product_wf (f g : SigT C) (hf : Wf f) (hg : Wf g) (hn : f.n = g.n) : Wf (product f g) := by
  unfold product
  apply mk_wf'
  intro t ht
  obtain ⟨t2, h2, ht⟩ := List.mem_flatMap.1 ht
  obtain ⟨t1, h1, rfl⟩ := List.mem_map.1 ht
  rw [roundExp_length, addExp_length, hf.width t1 h1, hg.width t2 h2, hn, Nat.min_self]

theorem eval_map_mul (χ : Exp → C) (n : Nat) (hχ : IsChar n χ) (ts : List (Exp × C))
    (hw : ∀ t ∈ ts, t.1.length = n) (t2 : Exp × C) (h2 : t2.1.length = n) :
    eval χ (ts.map fun t1 => (addExp t1.1 t2.1, t1.2 * t2.2)) = eval χ ts * (t2.2 * χ t2.1) := by
  induction ts with
  | nil => simp
  | cons t ts ih =>
    rw [List.map_cons, eval_cons, eval_cons, ih (fun t ht => hw t (List.mem_cons_of_mem _ ht)),
      hχ.add _ _ (hw t (by simp)) h2]
    ring

theorem eval_prodTerms (χ : Exp → C) (n : Nat) (hχ : IsChar n χ) (ts us : List (Exp × C))
    (hw : ∀ t ∈ ts, t.1.length = n) (hu : ∀ t ∈ us, t.1.length = n) :
    eval χ (prodTerms ts us) = eval χ ts * eval χ us := by
  unfold prodTerms
  induction us with
  | nil => simp
  | cons u us ih =>
    rw [List.flatMap_cons, eval_append, eval_cons, ih (fun t ht => hu t (List.mem_cons_of_mem _ ht)),
      eval_map_mul χ n hχ ts hw u (hu u (by simp))]
    ring

theorem product_eval' (n : Nat) (χ : Exp → C) (hχ : IsChar n χ) (f g : SigT C) (hf : Wf f) (hg : Wf g)
    (hfn : f.n = n) (hgn : g.n = n) :
    eval χ (product f g).terms = eval χ f.terms * eval χ g.terms := by
  rw [product_terms f g hf.grid hg.grid, consolidate_eval]
  apply eval_prodTerms χ n hχ
  · intro t ht; rw [hf.width t ht, hfn]
  · intro t ht; rw [hg.width t ht, hgn]

theorem coeff_map_pair {ι : Type} (l : List ι) (k : ι → Exp) (c : ι → C) (a : Exp) :
    coeff (l.map fun x => (k x, c x)) a = (l.map fun x => if k x == a then c x else 0).sum := by
  induction l with
  | nil => rfl
  | cons x l ih =>
    rw [List.map_cons, coeff_cons, ih, List.map_cons, List.sum_cons]
    simp only [beq_iff_eq]

theorem coeff_flatMap {ι : Type} (l : List ι) (F : ι → List (Exp × C)) (a : Exp) :
    coeff (l.flatMap F) a = (l.map fun x => coeff (F x) a).sum := by
  induction l with
  | nil => rfl
  | cons x l ih => rw [List.flatMap_cons, coeff_append, ih, List.map_cons, List.sum_cons]

theorem sum_flatMap_map {ι κ : Type} (l : List ι) (m : List κ) (G : ι → κ → C) :
    (l.flatMap fun x => m.map fun y => G x y).sum = (l.map fun x => (m.map fun y => G x y).sum).sum := by
  induction l with
  | nil => rfl
  | cons x l ih => rw [List.flatMap_cons, List.sum_append, ih, List.map_cons, List.sum_cons]

theorem sum_map_sum_comm {ι κ : Type} (l : List ι) (m : List κ) (G : ι → κ → C) :
    (l.map fun x => (m.map fun y => G x y).sum).sum = (m.map fun y => (l.map fun x => G x y).sum).sum := by
  induction l with
  | nil => simp
  | cons x l ih =>
    simp only [List.map_cons, List.sum_cons]
    rw [ih, List.sum_map_add]

theorem coeff_prodTerms (ts us : List (Exp × C)) (a : Exp) :
    coeff (prodTerms ts us) a =
      (ts.flatMap fun t1 => us.map fun t2 => if addExp t1.1 t2.1 == a then t1.2 * t2.2 else 0).sum := by
  unfold prodTerms
  rw [coeff_flatMap, sum_flatMap_map, sum_map_sum_comm]
  congr 1
  apply List.map_congr_left
  intro t2 _
  exact coeff_map_pair ts (fun t1 => addExp t1.1 t2.1) (fun t1 => t1.2 * t2.2) a

theorem product_coeff' (f g : SigT C) (hf : ∀ t ∈ f.terms, OnGrid t.1) (hg : ∀ t ∈ g.terms, OnGrid t.1)
    (a : Exp) :
    coeff (product f g).terms a =
      (f.terms.flatMap fun t1 => g.terms.map fun t2 =>
        if addExp t1.1 t2.1 == a then t1.2 * t2.2 else 0).sum := by
  rw [product_terms f g hf hg, consolidate_coeff, coeff_prodTerms]

/-! ### scalar multiples, negation -/

theorem coeff_map_smul (ts : List (Exp × C)) (n : Nat) (hw : ∀ t ∈ ts, t.1.length = n) (v : C) (a : Exp) :
    coeff (ts.map fun t1 => (addExp t1.1 (zeroExp n), t1.2 * v)) a = coeff ts a * v := by
  induction ts with
  | nil => simp
  | cons t ts ih =>
    rw [List.map_cons, coeff_cons, coeff_cons, ih (fun t ht => hw t (List.mem_cons_of_mem _ ht))]
    have : addExp t.1 (zeroExp n) = t.1 := by
      rw [← hw t (by simp)]; exact addExp_zeroExp _
    simp only [this]
    split <;> ring

theorem smul_wf (isZero : C → Bool) (f : SigT C) (hf : Wf f) (v : C) : Wf (smul isZero f v) := by
  unfold smul
  exact withoutZeros_wf' isZero _ (product_wf f _ hf (const_wf _ _) rfl)

theorem smul_n (isZero : C → Bool) (f : SigT C) (v : C) : (smul isZero f v).n = f.n := by
  unfold smul
  rw [withoutZeros_n]; rfl

theorem smul_coeff (isZero : C → Bool) (hz : ∀ c, isZero c = true ↔ c = 0) (f : SigT C) (hf : Wf f)
    (v : C) (a : Exp) : coeff (smul isZero f v).terms a = coeff f.terms a * v := by
  unfold smul
  have hc : Wf (const f.n v) := const_wf _ _
  rw [withoutZeros_coeff' isZero hz _ (product_wf f _ hf hc rfl).grid,
    product_terms f _ hf.grid hc.grid, consolidate_coeff, const_terms]
  unfold prodTerms
  simp only [List.flatMap_cons, List.flatMap_nil, List.append_nil]
  exact coeff_map_smul f.terms f.n hf.width v a

/-! ### powNat -/

theorem powLoop_spec (isZero : C → Bool) (hz : ∀ c, isZero c = true ↔ c = 0) (n : Nat) (χ : Exp → C)
    (hχ : IsChar n χ) (f : SigT C) (hf : Wf f) (hfn : f.n = n) (k : Nat) (s : SigT C) (hs : Wf s)
    (hsn : s.n = n) :
    Wf ((List.range k).foldl (fun s _ => withoutZeros isZero (product s f)) s) ∧
    eval χ ((List.range k).foldl (fun s _ => withoutZeros isZero (product s f)) s).terms =
      eval χ s.terms * (eval χ f.terms) ^ k := by
  induction k generalizing s with
  | zero => simp [hs]
  | succ k ih =>
    -- peel the first iteration: the loop body does not depend on the index
    rw [List.range_succ_eq_map, List.foldl_cons, List.foldl_map]
    have hp : Wf (product s f) := product_wf s f hs hf (by rw [hsn, hfn])
    have hs' : Wf (withoutZeros isZero (product s f)) := withoutZeros_wf' isZero _ hp
    have hsn' : (withoutZeros isZero (product s f)).n = n := by
      rw [withoutZeros_n, product_n, hsn]
    obtain ⟨h1, h2⟩ := ih _ hs' hsn'
    refine ⟨h1, ?_⟩
    rw [h2, withoutZeros_eval isZero hz _ hp.grid, product_eval' n χ hχ s f hs hf hsn hfn]
    ring

theorem powNat_spec (isZero : C → Bool) (hz : ∀ c, isZero c = true ↔ c = 0) (n : Nat) (χ : Exp → C)
    (hχ : IsChar n χ) (f : SigT C) (hf : Wf f) (hfn : f.n = n) (k : Nat) :
    Wf (powNat isZero f k) ∧ eval χ (powNat isZero f k).terms = (eval χ f.terms) ^ k := by
  cases k with
  | zero =>
    unfold powNat
    refine ⟨const_wf _ _, ?_⟩
    rw [const_terms, eval_cons, hfn, hχ.zero]
    simp
  | succ k =>
    unfold powNat
    simp only []
    rw [mk_id' f hf]
    obtain ⟨h1, h2⟩ := powLoop_spec isZero hz n χ hχ f hf hfn k f hf hfn
    refine ⟨h1, ?_⟩
    rw [h2]
    ring

end Sageopt.Sig
