/-
Lemmas for the ECOS part of C10: the ECOS data describe the blockwise feasible set.
-/
import SageoptModel.Lemmas.SolversBasic

namespace Sageopt.Solvers
open Sageopt

variable {R : Type}

theorem filter_type_mem {K : List Cone} {t : CType} :
    ∀ co ∈ K.filter (·.type == t), co.type = t := by
  intro co hco
  simpa using (List.mem_filter.mp hco).2

theorem length_selectBy_selector (K : List Cone) (t : CType) (s : List R)
    (h : s.length = totalLen K) :
    (selectBy (selector K t) s).length = totalLen (K.filter (·.type == t)) := by
  rw [length_selectBy _ _ (by rw [length_selector, h]), countTrue_selector]

section
variable [CommRing R]

theorem mulVec_append (A B : Mat R) (x : Vec R) : mulVec (A ++ B) x = mulVec A x ++ mulVec B x := by
  simp [mulVec]

@[simp] theorem length_mulVec (A : Mat R) (x : Vec R) : (mulVec A x).length = A.length := by
  simp [mulVec]

theorem subVec_append (u1 u2 v1 v2 : Vec R) (h : u1.length = v1.length) :
    subVec (u1 ++ u2) (v1 ++ v2) = subVec u1 v1 ++ subVec u2 v2 := by
  simp [subVec, List.zipWith_append h]

@[simp] theorem length_negMat (A : Mat R) : (negMat A).length = A.length := by simp [negMat]

theorem length_slack (A : Mat R) (b x : Vec R) :
    (slack A b x).length = min A.length b.length := by
  simp [slack, addVec, mulVec]

theorem sub_neg_eq_slack (A : Mat R) (b x : Vec R) :
    List.zipWith (· - ·) b (List.map (dot · x) (List.map negVec A)) = slack A b x := by
  induction A generalizing b with
  | nil => simp [slack, addVec, mulVec]
  | cons r A ih => cases b with
    | nil => simp [slack, addVec, mulVec]
    | cons bi b =>
      have := ih b
      simp only [slack, addVec, mulVec] at this ⊢
      simp only [List.map_cons, List.zipWith_cons_cons, this, dot_neg_left]
      congr 1
      ring

/-- `h_sel - (-A_sel) x` is the selection of the slack vector `A x + b` -/
theorem ecos_slack_select (m : List Bool) (A : Mat R) (b x : Vec R) :
    subVec (selectBy m b) (mulVec (negMat (selectBy m A)) x) = selectBy m (slack A b x) := by
  unfold subVec mulVec negMat
  rw [← selectBy_map, ← selectBy_map, ← selectBy_zipWith, sub_neg_eq_slack]

theorem eq_negVec_iff (u v : Vec R) (h : u.length = v.length) :
    u = negVec v ↔ ∀ a ∈ addVec u v, a = 0 := by
  induction u generalizing v with
  | nil => cases v with
    | nil => simp [negVec, addVec]
    | cons b v => simp at h
  | cons a u ih => cases v with
    | nil => simp at h
    | cons b v =>
      simp at h
      have := ih v h
      simp only [negVec, addVec] at this ⊢
      simp only [List.map_cons, List.cons.injEq, this, List.zipWith_cons_cons, List.mem_cons,
        forall_eq_or_imp]
      constructor
      · rintro ⟨h1, h2⟩; exact ⟨by rw [h1]; ring, h2⟩
      · rintro ⟨h1, h2⟩; exact ⟨eq_neg_of_add_eq_zero_left h1, h2⟩

end

section
variable [CommRing R] [LinearOrder R] [IsStrictOrderedRing R]

omit [IsStrictOrderedRing R] in
/-- decomposition of a system over {0,+,S,e} -/
theorem feasBlocks_four (S : ConeSem R) (K : List Cone) (s : List R)
    (hK : K.all (fun co => ecosAllowed co.type) = true) (h : s.length = totalLen K) :
    FeasBlocks S.P K s ↔
      (∀ a ∈ selectBy (selector K .zero) s, a = 0) ∧
      (∀ a ∈ selectBy (selector K .pos) s, 0 ≤ a) ∧
      FeasBlocks S.P (K.filter (·.type == .soc)) (selectBy (selector K .soc) s) ∧
      FeasBlocks S.P (K.filter (·.type == .exp)) (selectBy (selector K .exp) s) := by
  rw [feasBlocks_by_type S.P K s (by omega)]
  have hz := feasBlocks_entrywise S.P .zero (· = 0) S.zero_iff (K.filter (·.type == .zero))
    (selectBy (selector K .zero) s) filter_type_mem (by rw [length_selectBy_selector K _ s h])
  have hp := feasBlocks_entrywise S.P .pos (0 ≤ ·) S.pos_iff (K.filter (·.type == .pos))
    (selectBy (selector K .pos) s) filter_type_mem (by rw [length_selectBy_selector K _ s h])
  rw [← hz, ← hp]
  constructor
  · intro hall
    exact ⟨hall _, hall _, hall _, hall _⟩
  · rintro ⟨h0, h1, h2, h3⟩ t
    have hne : ∀ t', t' ≠ .zero → t' ≠ .pos → t' ≠ .soc → t' ≠ .exp → ∀ co ∈ K, co.type ≠ t' := by
      intro t' n0 n1 n2 n3 co hco
      have := List.all_eq_true.mp hK co hco
      intro heq
      rw [heq] at this
      cases t' <;> simp_all [ecosAllowed]
    cases t
    · exact h0
    · exact h1
    · exact h2
    · exact h3
    all_goals exact feasBlocks_of_nil_filter _ _ _ _ (hne _ (by decide) (by decide) (by decide) (by decide))

theorem map_len_mk_eq (t : CType) (L : List Cone) (h : ∀ co ∈ L, co.type = t) :
    (L.map (·.len)).map (fun k => (⟨t, k⟩ : Cone)) = L := by
  induction L with
  | nil => rfl
  | cons co L ih =>
    have h1 := h co (by simp)
    have h2 := ih (fun c hc => h c (by simp [hc]))
    cases co
    simp_all

theorem exp_filter_eq_replicate (K : List Cone) (h3 : ∀ co ∈ K, co.type = .exp → co.len = 3) :
    K.filter (·.type == .exp) = List.replicate (countTrue (selector K .exp) / 3) ⟨.exp, 3⟩ := by
  have hall : ∀ co ∈ K.filter (·.type == .exp), co = ⟨.exp, 3⟩ := by
    intro co hco
    have ht := filter_type_mem co hco
    have hl := h3 co (List.mem_filter.mp hco).1 ht
    cases co; simp_all
  have hrep := List.eq_replicate_iff.mpr ⟨rfl, hall⟩
  have hlen : countTrue (selector K .exp) = 3 * (K.filter (·.type == .exp)).length := by
    rw [countTrue_selector]
    generalize K.filter (·.type == .exp) = L at hall
    induction L with
    | nil => rfl
    | cons co L ih =>
      have := hall co (by simp)
      subst this
      simp [ih (fun c hc => hall c (by simp [hc]))]
      omega
  rw [hlen, Nat.mul_div_cancel_left _ (by decide : 0 < 3)]
  exact hrep

omit [IsStrictOrderedRing R] in
/-- the ECOS reading, expressed on the selections of the slack vector `A x + b` -/
theorem ecos_feas_iff (S : ConeSem R) (c : Vec R) (A : Mat R) (b : Vec R) (K : List Cone) (x : Vec R)
    (hrows : A.length = totalLen K) (hrhs : b.length = totalLen K)
    (h3 : ∀ co ∈ K, co.type = .exp → co.len = 3) :
    FeasECOS S.P
      { c := c
        A := selectBy (selector K .zero) A
        b := negVec (selectBy (selector K .zero) b)
        G := negMat (selectBy (selector K .pos) A) ++ negMat (selectBy (selector K .soc) A)
              ++ negMat (selectBy (selector K .exp) A)
        h := selectBy (selector K .pos) b ++ selectBy (selector K .soc) b
              ++ selectBy (selector K .exp) b
        l := countTrue (selector K .pos)
        e := countTrue (selector K .exp) / 3
        q := (K.filter (·.type == .soc)).map (·.len) } x ↔
      (∀ a ∈ selectBy (selector K .zero) (slack A b x), a = 0) ∧
      (∀ a ∈ selectBy (selector K .pos) (slack A b x), 0 ≤ a) ∧
      FeasBlocks S.P (K.filter (·.type == .soc)) (selectBy (selector K .soc) (slack A b x)) ∧
      FeasBlocks S.P (K.filter (·.type == .exp)) (selectBy (selector K .exp) (slack A b x)) := by
  have hsl : (slack A b x).length = totalLen K := by rw [length_slack, hrows, hrhs]; simp
  have hlenA : ∀ t, (selectBy (selector K t) A).length = countTrue (selector K t) := fun t =>
    length_selectBy _ _ (by rw [length_selector, hrows])
  have hlenb : ∀ t, (selectBy (selector K t) b).length = countTrue (selector K t) := fun t =>
    length_selectBy _ _ (by rw [length_selector, hrhs])
  have hlens : ∀ t, (selectBy (selector K t) (slack A b x)).length = countTrue (selector K t) :=
    fun t => length_selectBy _ _ (by rw [length_selector, hsl])
  have e0 : mulVec (selectBy (selector K .zero) A) x = negVec (selectBy (selector K .zero) b) ↔
      ∀ a ∈ selectBy (selector K .zero) (slack A b x), a = 0 := by
    rw [eq_negVec_iff _ _ (by rw [length_mulVec, hlenA, hlenb])]
    have : addVec (mulVec (selectBy (selector K .zero) A) x) (selectBy (selector K .zero) b)
        = selectBy (selector K .zero) (slack A b x) := by
      simp [slack, addVec, mulVec, selectBy_zipWith, selectBy_map]
    rw [this]
  have es : subVec (selectBy (selector K .pos) b ++ selectBy (selector K .soc) b
              ++ selectBy (selector K .exp) b)
        (mulVec (negMat (selectBy (selector K .pos) A) ++ negMat (selectBy (selector K .soc) A)
              ++ negMat (selectBy (selector K .exp) A)) x)
      = selectBy (selector K .pos) (slack A b x) ++ (selectBy (selector K .soc) (slack A b x)
          ++ selectBy (selector K .exp) (slack A b x)) := by
    rw [mulVec_append, mulVec_append,
      subVec_append _ _ _ _ (by simp [hlenA, hlenb]),
      subVec_append _ _ _ _ (by simp [hlenA, hlenb]),
      ecos_slack_select, ecos_slack_select, ecos_slack_select, List.append_assoc]
  have hq : ((K.filter (·.type == .soc)).map (·.len)).sum
      = (selectBy (selector K .soc) (slack A b x)).length := by
    rw [hlens, countTrue_selector]; rfl
  have hl : countTrue (selector K .pos) = (selectBy (selector K .pos) (slack A b x)).length :=
    (hlens _).symm
  simp only [FeasECOS]
  rw [es, e0, map_len_mk_eq .soc _ filter_type_mem, ← exp_filter_eq_replicate K h3,
    List.take_left' hl.symm, List.drop_left' hl.symm, List.take_left' hq.symm]
  have : countTrue (selector K .pos) + ((K.filter (·.type == .soc)).map (·.len)).sum
      = (selectBy (selector K .pos) (slack A b x) ++ selectBy (selector K .soc) (slack A b x)).length := by
    rw [List.length_append, ← hl, ← hq]
  rw [← List.append_assoc, List.drop_left' this.symm]

end

end Sageopt.Solvers
