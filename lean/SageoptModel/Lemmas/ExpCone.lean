/-
Real-analysis core of the SAGE proofs: the closed exponential cone, its dual, the AGE-certificate
soundness lemmas (ordinary and conditional) and the primal/dual pairing lemma.
(Proved first as a design-time calibration experiment; now part of the library.)
-/
import Mathlib.Analysis.SpecialFunctions.Log.Basic
import Mathlib.Analysis.SpecialFunctions.Exp
import Mathlib.Algebra.BigOperators.Ring.Finset
import Mathlib.Algebra.Order.BigOperators.Group.Finset
open Real Finset

namespace Sageopt.Analysis

set_option linter.unusedSectionVars false
set_option linter.unusedVariables false

/-- ECOS / coniclifts exponential cone (closed): (x,y,z) with y ≥ z·exp(x/z), z>0, or z = 0 ∧ x ≤ 0 ∧ y ≥ 0. -/
def InExpCone (x y z : ℝ) : Prop :=
  (0 < z ∧ z * Real.exp (x / z) ≤ y) ∨ (z = 0 ∧ x ≤ 0 ∧ 0 ≤ y)

theorem age_key (c ν t : ℝ) (hc : 0 < c) (hν : 0 < ν) :
    ν * t - ν * Real.log (ν / (Real.exp 1 * c)) ≤ c * Real.exp t := by
  have h := Real.add_one_le_exp (t - Real.log (ν / c))
  have hpos : 0 < ν / c := div_pos hν hc
  have e1 : Real.exp (t - Real.log (ν / c)) = Real.exp t * (c / ν) := by
    rw [Real.exp_sub, Real.exp_log hpos]; field_simp
  have e2 : Real.log (ν / (Real.exp 1 * c)) = Real.log (ν / c) - 1 := by
    have : ν / (Real.exp 1 * c) = (ν / c) / Real.exp 1 := by field_simp
    rw [this, Real.log_div (ne_of_gt hpos) (Real.exp_pos 1).ne', Real.log_exp]
  rw [e2]
  rw [e1] at h
  have h2 : ν * (t - Real.log (ν / c) + 1) ≤ ν * (Real.exp t * (c / ν)) :=
    mul_le_mul_of_nonneg_left h hν.le
  have e3 : ν * (Real.exp t * (c / ν)) = c * Real.exp t := by field_simp
  rw [e3] at h2
  nlinarith [h2]

/-- one exp-cone row of `sum_relent`: (-epi, e*c, ν) ∈ K_exp gives the linear minorant of c·exp t. -/
theorem expcone_row (epi c ν t : ℝ) (h : InExpCone (-epi) (Real.exp 1 * c) ν) :
    ν * t - epi ≤ c * Real.exp t := by
  rcases h with ⟨hν, h⟩ | ⟨hν, hx, hy⟩
  · have hc : 0 < c := by
      have : 0 < ν * Real.exp (-epi / ν) := mul_pos hν (Real.exp_pos _)
      have h3 : 0 < Real.exp 1 * c := lt_of_lt_of_le this h
      exact (pos_iff_pos_of_mul_pos h3).mp (Real.exp_pos 1)
    have key := age_key c ν t hc hν
    -- from the cone row: ν * log(ν/(e c)) ≤ epi
    have h4 : Real.log (ν * Real.exp (-epi / ν)) ≤ Real.log (Real.exp 1 * c) :=
      Real.log_le_log (mul_pos hν (Real.exp_pos _)) h
    rw [Real.log_mul hν.ne' (Real.exp_pos _).ne', Real.log_exp] at h4
    have h5 : Real.log (ν / (Real.exp 1 * c)) = Real.log ν - Real.log (Real.exp 1 * c) :=
      Real.log_div hν.ne' (by positivity)
    have h6 : ν * Real.log (ν / (Real.exp 1 * c)) ≤ epi := by
      rw [h5]
      have : ν * (Real.log ν - Real.log (Real.exp 1 * c)) ≤ ν * (epi / ν) := by
        apply mul_le_mul_of_nonneg_left _ hν.le
        have : -epi / ν = -(epi / ν) := by ring
        rw [this] at h4; linarith
      calc ν * (Real.log ν - Real.log (Real.exp 1 * c)) ≤ ν * (epi / ν) := this
        _ = epi := by field_simp
    linarith
  · subst hν
    have hc : 0 ≤ c := by
      have := Real.exp_pos 1
      by_contra hneg; push Not at hneg
      have : Real.exp 1 * c < 0 := mul_neg_of_pos_of_neg this hneg
      linarith
    have : 0 ≤ c * Real.exp t := mul_nonneg hc (Real.exp_pos t).le
    simp; linarith

variable {ι : Type} {n : ℕ}

def dotp (a x : Fin n → ℝ) : ℝ := ∑ k, a k * x k

/-- Soundness of one ordinary AGE certificate as compiled by `_ordsage_conic_form`. -/
theorem ord_age_sound (α : ι → Fin n → ℝ) (i : ι) (S : Finset ι) (hi : i ∉ S)
    (c ν epi : ι → ℝ)
    (hrows : ∀ j ∈ S, InExpCone (-(epi j)) (Real.exp 1 * c j) (ν j))
    (hlin : 0 ≤ c i - ∑ j ∈ S, epi j)
    (hbal : ∀ k : Fin n, ∑ j ∈ S, ν j * (α j k - α i k) = 0)
    (x : Fin n → ℝ) :
    0 ≤ c i * Real.exp (dotp (α i) x) + ∑ j ∈ S, c j * Real.exp (dotp (α j) x) := by
  have hj : ∀ j ∈ S, ν j * (dotp (α j) x - dotp (α i) x) - epi j
      ≤ c j * Real.exp (dotp (α j) x - dotp (α i) x) :=
    fun j hjS => expcone_row _ _ _ _ (hrows j hjS)
  have hsum := Finset.sum_le_sum hj
  have hb : ∑ j ∈ S, ν j * (dotp (α j) x - dotp (α i) x) = 0 := by
    have : ∀ j ∈ S, ν j * (dotp (α j) x - dotp (α i) x) = ∑ k, (ν j * (α j k - α i k)) * x k := by
      intro j _; unfold dotp; rw [← Finset.sum_sub_distrib, Finset.mul_sum]
      apply Finset.sum_congr rfl; intro k _; ring
    rw [Finset.sum_congr rfl this, Finset.sum_comm]
    apply Finset.sum_eq_zero; intro k _
    rw [← Finset.sum_mul, hbal k, zero_mul]
  rw [Finset.sum_sub_distrib, hb] at hsum
  have hE : 0 < Real.exp (dotp (α i) x) := Real.exp_pos _
  have h1 : 0 ≤ c i + ∑ j ∈ S, c j * Real.exp (dotp (α j) x - dotp (α i) x) := by linarith
  have h2 : c i * Real.exp (dotp (α i) x) + ∑ j ∈ S, c j * Real.exp (dotp (α j) x)
      = Real.exp (dotp (α i) x) * (c i + ∑ j ∈ S, c j * Real.exp (dotp (α j) x - dotp (α i) x)) := by
    rw [mul_add, Finset.mul_sum]; congr 1
    · ring
    · apply Finset.sum_congr rfl; intro j _
      rw [Real.exp_sub]; field_simp
  rw [h2]; exact mul_nonneg hE.le h1


/-- Soundness of one conditional AGE certificate as compiled by `_condsage_conic_form`.
`Kset` is the cone of X's conic form, `η` is in its dual, rows: relative entropy, balance `(α̃_S - α̃_i)ᵀ ν = Aᵀ η`. -/
theorem cond_age_sound {ι : Type} {N r : ℕ} (α : ι → Fin N → ℝ) (i : ι) (S : Finset ι)
    (A : Fin r → Fin N → ℝ) (b : Fin r → ℝ) (Kset : Set (Fin r → ℝ))
    (c ν epi : ι → ℝ) (η : Fin r → ℝ)
    (hη : ∀ s ∈ Kset, 0 ≤ ∑ k, η k * s k)
    (hrows : ∀ j ∈ S, InExpCone (-(epi j)) (Real.exp 1 * c j) (ν j))
    (hlin : 0 ≤ c i - (∑ k, η k * b k) - ∑ j ∈ S, epi j)
    (hbal : ∀ l : Fin N, ∑ j ∈ S, ν j * (α j l - α i l) = ∑ k, A k l * η k)
    (x : Fin N → ℝ) (hx : (fun k => dotp (A k) x + b k) ∈ Kset) :
    0 ≤ c i * Real.exp (dotp (α i) x) + ∑ j ∈ S, c j * Real.exp (dotp (α j) x) := by
  have hj : ∀ j ∈ S, ν j * (dotp (α j) x - dotp (α i) x) - epi j
      ≤ c j * Real.exp (dotp (α j) x - dotp (α i) x) :=
    fun j hjS => expcone_row _ _ _ _ (hrows j hjS)
  have hsum := Finset.sum_le_sum hj
  have hb : ∑ j ∈ S, ν j * (dotp (α j) x - dotp (α i) x) = ∑ k, η k * dotp (A k) x := by
    have h1 : ∀ j ∈ S, ν j * (dotp (α j) x - dotp (α i) x) = ∑ l, (ν j * (α j l - α i l)) * x l := by
      intro j _; unfold dotp; rw [← Finset.sum_sub_distrib, Finset.mul_sum]
      apply Finset.sum_congr rfl; intro l _; ring
    rw [Finset.sum_congr rfl h1, Finset.sum_comm]
    have h2 : ∀ l ∈ (Finset.univ : Finset (Fin N)), ∑ j ∈ S, ν j * (α j l - α i l) * x l
        = (∑ k, A k l * η k) * x l := by
      intro l _; rw [← Finset.sum_mul, hbal l]
    rw [Finset.sum_congr rfl h2]
    unfold dotp
    simp_rw [Finset.sum_mul, Finset.mul_sum]
    rw [Finset.sum_comm]
    apply Finset.sum_congr rfl; intro k _
    apply Finset.sum_congr rfl; intro l _; ring
  have hK := hη _ hx
  have hK' : -(∑ k, η k * b k) ≤ ∑ k, η k * dotp (A k) x := by
    have : ∑ k, η k * (dotp (A k) x + b k) = ∑ k, η k * dotp (A k) x + ∑ k, η k * b k := by
      rw [← Finset.sum_add_distrib]; apply Finset.sum_congr rfl; intro k _; ring
    linarith
  rw [Finset.sum_sub_distrib, hb] at hsum
  have hE : 0 < Real.exp (dotp (α i) x) := Real.exp_pos _
  have h1 : 0 ≤ c i + ∑ j ∈ S, c j * Real.exp (dotp (α j) x - dotp (α i) x) := by linarith
  have h2 : c i * Real.exp (dotp (α i) x) + ∑ j ∈ S, c j * Real.exp (dotp (α j) x)
      = Real.exp (dotp (α i) x) * (c i + ∑ j ∈ S, c j * Real.exp (dotp (α j) x - dotp (α i) x)) := by
    rw [mul_add, Finset.mul_sum]; congr 1
    · ring
    · apply Finset.sum_congr rfl; intro j _
      rw [Real.exp_sub]; field_simp
  rw [h2]; exact mul_nonneg hE.le h1



/-- membership in the dual cone, by definition -/
def InExpDual (u v w : ℝ) : Prop :=
  ∀ x y z, InExpCone x y z → 0 ≤ u * x + v * y + w * z

/-- ⇐ : the image point in K_exp certifies dual membership -/
theorem exp_dual_of_map (u v w : ℝ) (h : InExpCone (-w) (Real.exp 1 * v) (-u)) : InExpDual u v w := by
  intro x y z hxyz
  rcases h with ⟨ha, h⟩ | ⟨ha, hw, hv⟩
  · -- a = -u > 0,  a * exp(-w/a) ≤ e v
    set a := -u with haDef
    have hu : u = -a := by simp [haDef]
    have hv : a * Real.exp (-w / a - 1) ≤ v := by
      have : Real.exp (-w / a - 1) = Real.exp (-w / a) / Real.exp 1 := by rw [Real.exp_sub]
      rw [this]
      have he : 0 < Real.exp 1 := Real.exp_pos 1
      rw [← mul_div_assoc, div_le_iff₀ he]; linarith
    have hvpos : 0 ≤ v := le_trans (mul_nonneg ha.le (Real.exp_pos _).le) hv
    rcases hxyz with ⟨hz, hy⟩ | ⟨hz, hx, hy⟩
    · -- interior-type point
      have key := Real.add_one_le_exp (x / z - w / a - 1)
      have hy' : v * (z * Real.exp (x / z)) ≤ v * y := mul_le_mul_of_nonneg_left hy hvpos
      have h1 : a * Real.exp (-w / a - 1) * (z * Real.exp (x / z)) ≤ v * (z * Real.exp (x / z)) :=
        mul_le_mul_of_nonneg_right hv (mul_nonneg hz.le (Real.exp_pos _).le)
      have h2 : a * Real.exp (-w / a - 1) * (z * Real.exp (x / z))
          = a * z * Real.exp (x / z - w / a - 1) := by
        have : x / z - w / a - 1 = (-w / a - 1) + x / z := by ring
        rw [this, Real.exp_add]; ring
      have h3 : a * z * (x / z - w / a - 1 + 1) ≤ a * z * Real.exp (x / z - w / a - 1) :=
        mul_le_mul_of_nonneg_left key (mul_nonneg ha.le hz.le)
      have h4 : a * z * (x / z - w / a - 1 + 1) = a * x - w * z := by
        field_simp; ring
      rw [hu]; nlinarith [h1, h2, h3, h4, hy']
    · subst hz
      rw [hu]; nlinarith [mul_nonneg ha.le (neg_nonneg.mpr hx), mul_nonneg hvpos hy]
  · -- u = 0, w ≥ 0, v ≥ 0
    have hu : u = 0 := by linarith
    have hw' : 0 ≤ w := by linarith
    have hv' : 0 ≤ v := by
      have he : 0 < Real.exp 1 := Real.exp_pos 1
      by_contra hneg
      have : Real.exp 1 * v < 0 := mul_neg_of_pos_of_neg he (not_le.mp hneg)
      linarith
    have hy : 0 ≤ y := by
      rcases hxyz with ⟨hz, hy⟩ | ⟨_, _, hy⟩
      · exact le_trans (mul_nonneg hz.le (Real.exp_pos _).le) hy
      · exact hy
    have hz : 0 ≤ z := by
      rcases hxyz with ⟨hz, _⟩ | ⟨hz, _, _⟩
      · exact hz.le
      · exact hz.ge
    rw [hu]; nlinarith [mul_nonneg hv' hy, mul_nonneg hw' hz]

/-- ⇒ : every dual point maps into K_exp -/
theorem map_of_exp_dual (u v w : ℝ) (h : InExpDual u v w) : InExpCone (-w) (Real.exp 1 * v) (-u) := by
  have he : 0 < Real.exp 1 := Real.exp_pos 1
  -- test points (x, y, 0), x ≤ 0, y ≥ 0
  have hv : 0 ≤ v := by
    have := h 0 1 0 (Or.inr ⟨rfl, le_refl _, zero_le_one⟩); simpa using this
  have hu : u ≤ 0 := by
    have := h (-1) 0 0 (Or.inr ⟨rfl, by norm_num, le_refl _⟩); simp at this; linarith
  -- test points (s, exp s, 1)
  have hs : ∀ s : ℝ, 0 ≤ u * s + v * Real.exp s + w := by
    intro s
    have := h s (Real.exp s) 1 (Or.inl ⟨one_pos, by simp⟩); simpa using this
  rcases lt_or_eq_of_le hu with hneg | hzero
  · left
    refine ⟨by linarith, ?_⟩
    set a := -u with haDef
    have ha : 0 < a := by simp [haDef]; exact hneg
    have hu' : u = -a := by simp [haDef]
    -- v must be positive
    have hvpos : 0 < v := by
      rcases lt_or_eq_of_le hv with hp | hz
      · exact hp
      · exfalso
        have := hs ((|w| + 1) / a)
        rw [← hz, hu'] at this
        have e1 : -a * ((|w| + 1) / a) = -(|w| + 1) := by field_simp
        have := le_abs_self w
        nlinarith
    -- choose s = log (a / v)
    have hav : 0 < a / v := div_pos ha hvpos
    have := hs (Real.log (a / v))
    rw [Real.exp_log hav, hu'] at this
    have e2 : v * (a / v) = a := by field_simp
    rw [e2] at this
    -- this : 0 ≤ -a * log(a/v) + a + w   ⇒  log(a/v) ≤ 1 + w/a  ⇒ a/v ≤ exp(1 + w/a)
    have h1 : Real.log (a / v) ≤ 1 + w / a := by
      have : a * Real.log (a / v) ≤ a * (1 + w / a) := by
        have e3 : a * (1 + w / a) = a + w := by field_simp
        rw [e3]; linarith
      exact le_of_mul_le_mul_left this ha
    have h2 : a / v ≤ Real.exp (1 + w / a) := by
      have := Real.exp_le_exp.mpr h1
      rwa [Real.exp_log hav] at this
    -- goal: a * exp(-w / a) ≤ e * v
    have h3 : a ≤ Real.exp (1 + w / a) * v := by
      rwa [div_le_iff₀ hvpos] at h2
    have e4 : Real.exp (1 + w / a) = Real.exp 1 * Real.exp (w / a) := Real.exp_add _ _
    have e5 : Real.exp (-w / a) * Real.exp (w / a) = 1 := by
      rw [← Real.exp_add]; have : -w / a + w / a = 0 := by ring
      rw [this, Real.exp_zero]
    have hpos : 0 < Real.exp (-w / a) := Real.exp_pos _
    have h4 : a * Real.exp (-w / a) ≤ (Real.exp (1 + w / a) * v) * Real.exp (-w / a) :=
      mul_le_mul_of_nonneg_right h3 hpos.le
    have e6 : (Real.exp (1 + w / a) * v) * Real.exp (-w / a) = Real.exp 1 * v := by
      rw [e4]; calc Real.exp 1 * Real.exp (w / a) * v * Real.exp (-w / a)
          = Real.exp 1 * v * (Real.exp (-w / a) * Real.exp (w / a)) := by ring
        _ = Real.exp 1 * v := by rw [e5, mul_one]
    have e7 : -w / -u = -w / a := by rw [haDef]
    show (-u) * Real.exp (-w / -u) ≤ Real.exp 1 * v
    rw [e7, ← haDef]; linarith
  · right
    refine ⟨by linarith, ?_, mul_nonneg he.le hv⟩
    -- w ≥ 0 : otherwise pick s with v * exp s < -w
    by_contra hw
    have hw' : w < 0 := by linarith
    rcases lt_or_eq_of_le hv with hp | hz
    · have hpos : 0 < -w / (2 * v) := div_pos (by linarith) (by linarith)
      have := hs (Real.log (-w / (2 * v)))
      rw [Real.exp_log hpos, hzero] at this
      have e8 : v * (-w / (2 * v)) = -w / 2 := by field_simp
      rw [e8] at this; linarith
    · have := hs 0
      rw [← hz, hzero] at this; simp at this; linarith

theorem exp_dual_iff (u v w : ℝ) : InExpDual u v w ↔ InExpCone (-w) (Real.exp 1 * v) (-u) :=
  ⟨map_of_exp_dual u v w, exp_dual_of_map u v w⟩


-- weak duality at the level of one AGE cone (basis of `primal value ≤ dual value`, C03–C05)
theorem expcone_y_nonneg (x y z : ℝ) (h : InExpCone x y z) : 0 ≤ y := by
  rcases h with ⟨hz, h⟩ | ⟨_, _, hy⟩
  · exact le_trans (mul_nonneg hz.le (Real.exp_pos _).le) h
  · exact hy

/-- Pairing of one compiled ordinary primal AGE certificate with the compiled dual AGE rows:
the basis of weak duality `primal value ≤ dual value`. -/
theorem ord_age_pairing {ι : Type} {n : ℕ} (α : ι → Fin n → ℝ) (i : ι) (S : Finset ι)
    (c ν epi : ι → ℝ)
    (hrows : ∀ j ∈ S, InExpCone (-(epi j)) (Real.exp 1 * c j) (ν j))
    (hlin : 0 ≤ c i - ∑ j ∈ S, epi j)
    (hbal : ∀ k : Fin n, ∑ j ∈ S, ν j * (α j k - α i k) = 0)
    (v : ι → ℝ) (μ : Fin n → ℝ) (hvi : 0 ≤ v i)
    (hdual : ∀ j ∈ S, InExpCone (-(dotp (α i) μ - dotp (α j) μ)) (v j) (v i)) :
    0 ≤ c i * v i + ∑ j ∈ S, c j * v j := by
  have hc : ∀ j ∈ S, 0 ≤ c j := by
    intro j hj
    have h1 := expcone_y_nonneg _ _ _ (hrows j hj)
    have he : 0 < Real.exp 1 := Real.exp_pos 1
    by_contra hneg
    have : Real.exp 1 * c j < 0 := mul_neg_of_pos_of_neg he (not_le.mp hneg)
    linarith
  have hvj : ∀ j ∈ S, 0 ≤ v j := fun j hj => expcone_y_nonneg _ _ _ (hdual j hj)
  rcases lt_or_eq_of_le hvi with hpos | hzero
  · -- v i > 0
    have hj : ∀ j ∈ S, ν j * (dotp (α j) μ - dotp (α i) μ) - v i * epi j ≤ c j * v j := by
      intro j hjS
      rcases hdual j hjS with ⟨_, hd⟩ | ⟨hz, _, _⟩
      · set t := -(dotp (α i) μ - dotp (α j) μ) / v i with ht
        have h1 := expcone_row (epi j) (c j) (ν j) t (hrows j hjS)
        have h2 : v i * (ν j * t - epi j) ≤ v i * (c j * Real.exp t) :=
          mul_le_mul_of_nonneg_left h1 hpos.le
        have h3 : c j * (v i * Real.exp t) ≤ c j * v j := mul_le_mul_of_nonneg_left hd (hc j hjS)
        have h4 : v i * (ν j * t) = ν j * (dotp (α j) μ - dotp (α i) μ) := by
          rw [ht]; field_simp; ring
        nlinarith [h2, h3, h4]
      · exact absurd hz (ne_of_gt hpos)
    have hsum := Finset.sum_le_sum hj
    have hb : ∑ j ∈ S, ν j * (dotp (α j) μ - dotp (α i) μ) = 0 := by
      have : ∀ j ∈ S, ν j * (dotp (α j) μ - dotp (α i) μ) = ∑ k, (ν j * (α j k - α i k)) * μ k := by
        intro j _; unfold dotp; rw [← Finset.sum_sub_distrib, Finset.mul_sum]
        apply Finset.sum_congr rfl; intro k _; ring
      rw [Finset.sum_congr rfl this, Finset.sum_comm]
      apply Finset.sum_eq_zero; intro k _
      rw [← Finset.sum_mul, hbal k, zero_mul]
    rw [Finset.sum_sub_distrib, hb, ← Finset.mul_sum] at hsum
    have : v i * ∑ j ∈ S, epi j ≤ v i * c i := mul_le_mul_of_nonneg_left (by linarith) hpos.le
    nlinarith [hsum, this]
  · -- v i = 0
    rw [← hzero]
    have : 0 ≤ ∑ j ∈ S, c j * v j := Finset.sum_nonneg fun j hj => mul_nonneg (hc j hj) (hvj j hj)
    simpa using this



end Sageopt.Analysis
