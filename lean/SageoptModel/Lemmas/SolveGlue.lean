/-
Helper lemmas about the value store of `Model/SolveGlue.lean`: `get`/`set`, folds of `set`s
(the last write to an id wins), `applySolve` as one flat fold, `runSolves` of an extended history.
Core Lean only.
-/
import SageoptModel.Model.SolveGlue

namespace Sageopt.Glue

theorem Store.get_nil (id : Nat) : Store.get [] id = .nan := rfl

theorem find?_congr' {α : Type} (l : List α) (p q : α → Bool) (h : ∀ a ∈ l, p a = q a) :
    l.find? p = l.find? q := by
  induction l with
  | nil => rfl
  | cons a as ih =>
    rw [List.find?_cons, List.find?_cons, h a List.mem_cons_self,
      ih (fun b hb => h b (List.mem_cons_of_mem _ hb))]

/-- reading after one write -/
theorem Store.get_set (st : Store) (id : Nat) (c : Cell) (id' : Nat) :
    (st.set id c).get id' = if id' = id then c else st.get id' := by
  unfold Store.get Store.set
  by_cases h : id' = id
  · subst h
    simp
  · have h1 : (id == id') = false := by
      simp only [beq_eq_false_iff_ne, ne_eq]
      exact fun e => h e.symm
    rw [List.find?_cons]
    simp only [h1, if_neg h]
    rw [List.find?_filter]
    congr 2
    apply find?_congr'
    intro a _
    by_cases ha : a.1 = id'
    · have : a.1 ≠ id := fun e => h (ha.symm.trans e)
      simp [ha, h]
    · simp [ha]

theorem Store.get_set_self (st : Store) (id : Nat) (c : Cell) : (st.set id c).get id = c := by
  simp [Store.get_set]

theorem Store.get_set_ne (st : Store) (id : Nat) (c : Cell) (id' : Nat) (h : id' ≠ id) :
    (st.set id c).get id' = st.get id' := by
  simp [Store.get_set, h]

/-- a sequence of writes `(id, f col)` -/
def writeAll (f : Int → Cell) (st : Store) (ws : List (Nat × Int)) : Store :=
  ws.foldl (fun st p => st.set p.1 (f p.2)) st

theorem writeAll_nil (f : Int → Cell) (st : Store) : writeAll f st [] = st := rfl

theorem writeAll_cons (f : Int → Cell) (st : Store) (w : Nat × Int) (ws : List (Nat × Int)) :
    writeAll f st (w :: ws) = writeAll f (st.set w.1 (f w.2)) ws := rfl

/-- frame: ids that are not written keep their cell -/
theorem writeAll_frame (f : Int → Cell) (ws : List (Nat × Int)) (st : Store) (id : Nat)
    (h : ∀ p ∈ ws, p.1 ≠ id) : (writeAll f st ws).get id = st.get id := by
  induction ws generalizing st with
  | nil => rfl
  | cons w ws ih =>
    rw [writeAll_cons, ih _ (fun p hp => h p (List.mem_cons_of_mem _ hp))]
    exact Store.get_set_ne _ _ _ _ (fun e => h w List.mem_cons_self e.symm)

/-- if every write to `id` writes `c`, and `id` is written at least once (or already holds `c`),
    it holds `c` afterwards -/
theorem writeAll_get (f : Int → Cell) (ws : List (Nat × Int)) (st : Store) (id : Nat) (c : Cell)
    (hall : ∀ p ∈ ws, p.1 = id → f p.2 = c)
    (hex : st.get id = c ∨ ∃ p ∈ ws, p.1 = id) : (writeAll f st ws).get id = c := by
  induction ws generalizing st with
  | nil =>
    rcases hex with h | ⟨p, hp, _⟩
    · exact h
    · cases hp
  | cons w ws ih =>
    rw [writeAll_cons]
    apply ih _ (fun p hp => hall p (List.mem_cons_of_mem _ hp))
    by_cases hw : w.1 = id
    · left
      rw [← hw, Store.get_set_self]
      exact hall w List.mem_cons_self hw
    · rcases hex with h | ⟨p, hp, hpid⟩
      · left
        rw [Store.get_set_ne _ _ _ _ (fun e => hw e.symm)]
        exact h
      · right
        rcases List.mem_cons.1 hp with rfl | hp'
        · exact absurd hpid hw
        · exact ⟨p, hp', hpid⟩

/-- all (id, column) pairs a solve writes, in write order -/
def Solve.writes (s : Solve) : List (Nat × Int) := s.vars.flatMap (fun v => v.ids.zip v.cols)

theorem Solve.mem_writes {s : Solve} {p : Nat × Int} :
    p ∈ s.writes ↔ ∃ v ∈ s.vars, p ∈ v.ids.zip v.cols := by
  simp [Solve.writes, List.mem_flatMap]

/-- `applySolve` is one flat sequence of writes -/
theorem applySolve_eq_writeAll (k : Nat) (st : Store) (s : Solve) :
    applySolve k st s = writeAll (cellFor k s.loads) st s.writes := by
  unfold applySolve writeAll Solve.writes
  rw [List.foldl_flatMap]

/-- the ids of `ids.zip cols` are the first `cols.length` ids -/
theorem map_fst_zip_take (ids : List Nat) (cols : List Int) :
    (ids.zip cols).map Prod.fst = ids.take cols.length := by
  induction ids generalizing cols with
  | nil => simp
  | cons a as ih =>
    cases cols with
    | nil => simp
    | cons b bs => simp [ih]

theorem fst_mem_take_of_mem_zip {ids : List Nat} {cols : List Int} {p : Nat × Int}
    (hp : p ∈ ids.zip cols) : p.1 ∈ ids.take cols.length := by
  rw [← map_fst_zip_take]
  exact List.mem_map_of_mem hp

theorem exists_mem_zip_of_mem_take {ids : List Nat} {cols : List Int} {id : Nat}
    (h : id ∈ ids.take cols.length) : ∃ col, (id, col) ∈ ids.zip cols := by
  rw [← map_fst_zip_take] at h
  obtain ⟨p, hp, rfl⟩ := List.mem_map.1 h
  exact ⟨p.2, hp⟩

/-- the last solve of `hist ++ [s]` has index `hist.length` and runs on the store left by `hist` -/
theorem runSolves_snoc (hist : List Solve) (s : Solve) :
    runSolves (hist ++ [s]) = applySolve hist.length (runSolves hist) s := by
  unfold runSolves
  rw [List.zipIdx_append, List.foldl_append]
  simp [List.zipIdx]

end Sageopt.Glue
