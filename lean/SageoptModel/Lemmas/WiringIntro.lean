/-
Introspection on affine forms (`support`, `isAffineConst`, `cellEquiv`) agrees with the value
function.  Helper lemmas for `Props/C08.lean`.
-/
import SageoptModel.Model.Wiring
import SageoptModel.Lemmas.LinValue
import SageoptModel.Lemmas.WiringNF

namespace Sageopt.Wiring
open Sageopt Sageopt.Lin

/-- the unit assignment `e_i` -/
def unit (i : Nat) : Nat → Rat := Function.update (fun _ => 0) i 1

/-- the coefficient of variable `i` as seen by the value function: `lsum` at the unit assignment -/
def coeff (i : Nat) (co : List (Nat × Rat)) : Rat := lsum (unit i) co

theorem unit_apply (i k : Nat) : unit i k = if k = i then 1 else 0 := by
  unfold unit
  by_cases h : k = i
  · subst h; simp
  · simp [h]

@[simp] theorem coeff_nil (i : Nat) : coeff i [] = 0 := rfl

theorem coeff_cons (i : Nat) (p : Nat × Rat) (co : List (Nat × Rat)) :
    coeff i (p :: co) = (if p.1 = i then p.2 else 0) + coeff i co := by
  unfold coeff
  rw [lsum_cons, unit_apply]
  by_cases h : p.1 = i
  · rw [if_pos h, if_pos h, mul_one]
  · rw [if_neg h, if_neg h, mul_zero]

theorem lsum_zero (co : List (Nat × Rat)) : lsum (fun _ => 0) co = 0 := by
  induction co with
  | nil => rfl
  | cons p co ih => rw [lsum_cons, ih]; simp

theorem lsum_update (σ : Nat → Rat) (i : Nat) (t : Rat) (co : List (Nat × Rat)) :
    lsum (Function.update σ i t) co = lsum σ co + (t - σ i) * coeff i co := by
  induction co with
  | nil => simp
  | cons p co ih =>
    rw [lsum_cons, lsum_cons, coeff_cons, ih]
    by_cases h : p.1 = i
    · rw [if_pos h, h, Function.update_self]
      ring
    · rw [if_neg h, Function.update_of_ne h]
      ring

theorem value_update (σ : Nat → Rat) (i : Nat) (t : Rat) (x : Lin) :
    Lin.value (Function.update σ i t) x = Lin.value σ x + (t - σ i) * coeff i x.co := by
  rw [value_eq, value_eq, lsum_update]
  ring

theorem coeff_eq_zero_of_not_key (i : Nat) (co : List (Nat × Rat)) (h : ∀ p ∈ co, p.1 ≠ i) :
    coeff i co = 0 := by
  induction co with
  | nil => rfl
  | cons p co ih =>
    rw [coeff_cons, if_neg (h p List.mem_cons_self),
      ih (fun q hq => h q (List.mem_cons_of_mem _ hq)), add_zero]

theorem coeff_eq_zero_of_lt (i : Nat) (co : List (Nat × Rat)) (h : ∀ p ∈ co, i < p.1) :
    coeff i co = 0 :=
  coeff_eq_zero_of_not_key i co (fun p hp => Nat.ne_of_gt (h p hp))

theorem coeff_head (p : Nat × Rat) (co : List (Nat × Rat)) (h : Sorted (p :: co)) :
    coeff p.1 (p :: co) = p.2 := by
  rw [coeff_cons, if_pos rfl, coeff_eq_zero_of_lt _ _ (sorted_cons.1 h).1, add_zero]

theorem coeff_ne_zero_of_key (i : Nat) (co : List (Nat × Rat)) (hs : Sorted co) (hz : NoZero co)
    (hi : i ∈ co.map (·.1)) : coeff i co ≠ 0 := by
  induction co with
  | nil => simp at hi
  | cons p co ih =>
    by_cases h : p.1 = i
    · subst h
      rw [coeff_head p co hs]
      exact hz p List.mem_cons_self
    · rw [coeff_cons, if_neg h, zero_add]
      apply ih (sorted_cons.1 hs).2 (fun q hq => hz q (List.mem_cons_of_mem _ hq))
      rw [List.map_cons, List.mem_cons] at hi
      rcases hi with hi | hi
      · exact absurd hi.symm h
      · exact hi

theorem coeff_eq_zero_of_not_support (i : Nat) (co : List (Nat × Rat))
    (hi : i ∉ co.map (·.1)) : coeff i co = 0 := by
  apply coeff_eq_zero_of_not_key
  intro p hp e
  exact hi (List.mem_map.2 ⟨p, hp, e⟩)

/-! ### `support` and `isAffineConst` -/

theorem depends_iff_co (x : Lin) (hs : Sorted x.co) (hz : NoZero x.co) (i : Nat) :
    i ∈ support x ↔
      ∃ σ : Nat → Rat, ∃ t : Rat, Lin.value (Function.update σ i t) x ≠ Lin.value σ x := by
  constructor
  · intro hi
    refine ⟨fun _ => 0, 1, ?_⟩
    rw [value_update]
    have hc := coeff_ne_zero_of_key i x.co hs hz hi
    intro h
    apply hc
    have : ((1 : Rat) - 0) * coeff i x.co = 0 := by linarith
    simpa using this
  · rintro ⟨σ, t, h⟩
    by_contra hi
    apply h
    rw [value_update, coeff_eq_zero_of_not_support i x.co hi]
    ring

theorem constant_iff_co (x : Lin) (hs : Sorted x.co) (hz : NoZero x.co) :
    isAffineConst x = true ↔ ∀ σ σ' : Nat → Rat, Lin.value σ x = Lin.value σ' x := by
  constructor
  · intro h σ σ'
    have : x.co = [] := List.isEmpty_iff.1 h
    rw [value_eq, value_eq, this]
    rfl
  · intro h
    unfold isAffineConst
    rw [List.isEmpty_iff]
    cases hco : x.co with
    | nil => rfl
    | cons p co =>
      exfalso
      have hi : p.1 ∈ support x := by
        unfold support
        rw [hco]
        exact List.mem_cons_self
      obtain ⟨σ, t, hne⟩ := (depends_iff_co x hs hz p.1).1 hi
      exact hne (h _ _)

/-! ### `cellEquiv` at zero tolerance -/

theorem absR_le_zero (q : Rat) (h : absR q ≤ 0) : q = 0 := by
  unfold absR at h
  split at h
  · linarith
  · rename_i hq
    linarith [not_lt.1 hq]

theorem closeQ_zero_iff (a b : Rat) : closeQ 0 0 a b = true ↔ a = b := by
  unfold closeQ
  rw [decide_eq_true_iff]
  constructor
  · intro h
    have h' : absR (a - b) ≤ 0 := by simpa using h
    have := absR_le_zero _ h'
    linarith
  · rintro rfl
    simp [absR]

theorem co_eq_of_keys_all (xs ys : List (Nat × Rat))
    (hk : xs.map (·.1) = ys.map (·.1))
    (ha : (xs.zip ys).all (fun p => closeQ 0 0 p.1.2 p.2.2) = true) : xs = ys := by
  induction xs generalizing ys with
  | nil =>
    cases ys with
    | nil => rfl
    | cons y ys => simp at hk
  | cons x xs ih =>
    cases ys with
    | nil => simp at hk
    | cons y ys =>
      rw [List.map_cons, List.map_cons, List.cons.injEq] at hk
      rw [List.zip_cons_cons, List.all_cons, Bool.and_eq_true] at ha
      have h2 : x.2 = y.2 := (closeQ_zero_iff _ _).1 ha.1
      rw [ih ys hk.2 ha.2]
      congr 1
      exact Prod.ext hk.1 h2

theorem mem_zip_self (co : List (Nat × Rat)) (p : (Nat × Rat) × (Nat × Rat))
    (hp : p ∈ co.zip co) : p.1 = p.2 := by
  induction co with
  | nil => simp at hp
  | cons q co ih =>
    rw [List.zip_cons_cons, List.mem_cons] at hp
    rcases hp with rfl | hp
    · rfl
    · exact ih hp

theorem cellEquiv_zero_iff (x y : Lin) :
    cellEquiv 0 0 x y = true ↔ x.co = y.co ∧ x.off = y.off := by
  unfold cellEquiv
  rw [Bool.and_eq_true, Bool.and_eq_true, beq_iff_eq, closeQ_zero_iff]
  constructor
  · rintro ⟨⟨hk, ha⟩, ho⟩
    exact ⟨co_eq_of_keys_all _ _ hk ha, ho⟩
  · rintro ⟨hc, ho⟩
    refine ⟨⟨by rw [hc], ?_⟩, ho⟩
    rw [hc, List.all_eq_true]
    intro p hp
    rw [closeQ_zero_iff]
    rw [mem_zip_self _ p hp]

theorem cellEquiv_sound_co (x y : Lin) (h : cellEquiv 0 0 x y = true) (σ : Nat → Rat) :
    Lin.value σ x = Lin.value σ y := by
  obtain ⟨hc, ho⟩ := (cellEquiv_zero_iff x y).1 h
  rw [value_eq, value_eq, hc, ho]

/-- a normal-form coefficient list is determined by its coefficient function -/
theorem co_ext (xs ys : List (Nat × Rat)) (hxs : Sorted xs) (hxz : NoZero xs)
    (hys : Sorted ys) (hyz : NoZero ys) (h : ∀ i, coeff i xs = coeff i ys) : xs = ys := by
  induction xs generalizing ys with
  | nil =>
    cases ys with
    | nil => rfl
    | cons y ys =>
      exfalso
      have := h y.1
      rw [coeff_head y ys hys, coeff_nil] at this
      exact hyz y List.mem_cons_self this.symm
  | cons x xs ih =>
    cases ys with
    | nil =>
      exfalso
      have := h x.1
      rw [coeff_head x xs hxs, coeff_nil] at this
      exact hxz x List.mem_cons_self this
    | cons y ys =>
      have hx0 : x.2 ≠ 0 := hxz x List.mem_cons_self
      have hy0 : y.2 ≠ 0 := hyz y List.mem_cons_self
      obtain ⟨hx1, hx2⟩ := sorted_cons.1 hxs
      obtain ⟨hy1, hy2⟩ := sorted_cons.1 hys
      rcases Nat.lt_trichotomy x.1 y.1 with hlt | heq | hgt
      · exfalso
        have := h x.1
        rw [coeff_head x xs hxs, coeff_eq_zero_of_lt] at this
        · exact hx0 this
        · intro p hp
          rcases List.mem_cons.1 hp with rfl | hp
          · exact hlt
          · exact Nat.lt_trans hlt (hy1 p hp)
      · have h2 : x.2 = y.2 := by
          have := h x.1
          rw [coeff_head x xs hxs, heq, coeff_head y ys hys] at this
          exact this
        have hxy : x = y := Prod.ext heq h2
        subst hxy
        rw [ih ys hx2 (fun q hq => hxz q (List.mem_cons_of_mem _ hq)) hy2
          (fun q hq => hyz q (List.mem_cons_of_mem _ hq))]
        intro i
        have := h i
        rw [coeff_cons, coeff_cons] at this
        linarith
      · exfalso
        have := h y.1
        rw [coeff_head y ys hys, coeff_eq_zero_of_lt] at this
        · exact hy0 this.symm
        · intro p hp
          rcases List.mem_cons.1 hp with rfl | hp
          · exact hgt
          · exact Nat.lt_trans hgt (hx1 p hp)

theorem cellEquiv_complete_co (x y : Lin) (hxs : Sorted x.co) (hxz : NoZero x.co)
    (hys : Sorted y.co) (hyz : NoZero y.co)
    (h : ∀ σ : Nat → Rat, Lin.value σ x = Lin.value σ y) : cellEquiv 0 0 x y = true := by
  have hoff : x.off = y.off := by
    have := h (fun _ => 0)
    rw [value_eq, value_eq, lsum_zero, lsum_zero, add_zero, add_zero] at this
    exact this
  have hco : x.co = y.co := by
    apply co_ext _ _ hxs hxz hys hyz
    intro i
    have := h (unit i)
    rw [value_eq, value_eq, hoff] at this
    exact add_left_cancel this
  exact (cellEquiv_zero_iff x y).2 ⟨hco, hoff⟩

end Sageopt.Wiring
