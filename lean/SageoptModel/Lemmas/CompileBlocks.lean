/-
C07 helper lemmas, block structure: `compileBlocks` = elementwise blocks ++ epigraph blocks ++
set-membership blocks; feasibility of the compiled system splits blockwise, and each block is
characterised semantically (`feasRows_nf`).
-/
import SageoptModel.Lemmas.CompileSubst

namespace Sageopt.Compile
open Sageopt Sageopt.Solvers Sageopt.Analysis

/-! ### blockwise feasibility of concatenated systems -/

theorem feasBlocks_append {R : Type} (P : CType → List R → Prop) (K1 K2 : List Cone) (s1 s2 : List R)
    (h : s1.length = totalLen K1) :
    FeasBlocks P (K1 ++ K2) (s1 ++ s2) ↔ FeasBlocks P K1 s1 ∧ FeasBlocks P K2 s2 := by
  induction K1 generalizing s1 with
  | nil =>
    have : s1 = [] := by simpa using h
    subst this
    simp
  | cons co K ih =>
    rw [totalLen_cons] at h
    rw [List.cons_append, feasBlocks_cons, feasBlocks_cons,
      List.take_append_of_le_length (by omega), List.drop_append_of_le_length (by omega),
      ih _ (by rw [List.length_drop]; omega), and_assoc]

theorem totalLen_append (K1 K2 : List Cone) : totalLen (K1 ++ K2) = totalLen K1 + totalLen K2 := by
  simp [totalLen]

theorem feasBlocks_flatMap (P : CType → List ℝ → Prop) (f : CRow → ℝ) (l : List (List CRow × List Cone))
    (hl : ∀ p ∈ l, p.1.length = totalLen p.2) :
    FeasBlocks P (l.flatMap (·.2)) ((l.flatMap (·.1)).map f) ↔ ∀ p ∈ l, FeasBlocks P p.2 (p.1.map f) := by
  induction l with
  | nil => simp
  | cons p l ih =>
    rw [List.flatMap_cons, List.flatMap_cons, List.map_append,
      feasBlocks_append P _ _ _ _ (by rw [List.length_map]; exact hl p (List.mem_cons_self ..)),
      ih (fun q hq => hl q (List.mem_cons_of_mem _ hq))]
    simp only [List.forall_mem_cons]

theorem forall₂_forall_iff {α β : Type} {R : α → β → Prop} {A : α → Prop} {B : β → Prop}
    {l : List α} {out : List β} (h : List.Forall₂ R l out)
    (hAB : ∀ x ∈ l, ∀ p, R x p → (B p ↔ A x)) : (∀ p ∈ out, B p) ↔ ∀ x ∈ l, A x := by
  induction h with
  | nil => simp
  | @cons x p l out h1 _ ih =>
    simp only [List.forall_mem_cons]
    rw [hAB x (List.mem_cons_self ..) p h1, ih (fun y hy => hAB y (List.mem_cons_of_mem _ hy))]

theorem forall₂_forall_right {α β : Type} {R : α → β → Prop} {B : β → Prop}
    {l : List α} {out : List β} (h : List.Forall₂ R l out)
    (hB : ∀ x ∈ l, ∀ p, R x p → B p) : ∀ p ∈ out, B p := by
  induction h with
  | nil => simp
  | @cons x p l out h1 _ ih =>
    simp only [List.forall_mem_cons]
    exact ⟨hB x (List.mem_cons_self ..) p h1, ih (fun y hy => hB y (List.mem_cons_of_mem _ hy))⟩

/-! ### decomposition of `compileBlocks` -/

def epiBlock (dummy : Nat) (a : NlAtom) : M (List CRow × List Cone) := do
  let (r, k) ← epiRows a dummy; pure (r, [k])

theorem compileBlocks_ok (cons : List Con) (dummy : Nat) (rows : List CRow) (K : List Cone)
    (h : compileBlocks cons dummy = .ok (rows, K)) :
    ∃ e1 e2 e3,
      ((cons.filter isElem).map (substCon (collectAtoms ((cons.filter isElem).flatMap elemRowsOf)))).mapM
        (conRows dummy) = .ok e1 ∧
      (collectAtoms ((cons.filter isElem).flatMap elemRowsOf)).mapM (epiBlock dummy) = .ok e2 ∧
      (cons.filter (!isElem ·)).mapM (conRows dummy) = .ok e3 ∧
      rows = (e1 ++ e2 ++ e3).flatMap (·.1) ∧ K = (e1 ++ e2 ++ e3).flatMap (·.2) := by
  unfold compileBlocks at h
  simp only [bind, Except.bind] at h
  split at h
  · cases h
  · rename_i e1 he1
    split at h
    · cases h
    · rename_i e2 he2
      split at h
      · cases h
      · rename_i e3 he3
        simp only [pure, Except.pure, Except.ok.injEq, Prod.mk.injEq] at h
        exact ⟨e1, e2, e3, he1, he2, he3, h.1.symm, h.2.symm⟩


/-! ### semantics of the three kinds of blocks -/

/-- the value the compiled system gives to an atom: that of the epigraph variable of its representative -/
noncomputable def epiEnv (atoms : List NlAtom) (σ' : Nat → ℝ) (b : NlAtom) : ℝ :=
  match atoms.find? (fun a => b.same a) with
  | some a => σ' a.epi
  | none => 0

theorem epiEnv_spec (atoms : List NlAtom) (hns : NonSame atoms) (σ' : Nat → ℝ) (a : NlAtom) (ha : a ∈ atoms)
    (b : NlAtom) (hb : b.same a = true) : epiEnv atoms σ' b = σ' a.epi := by
  unfold epiEnv
  cases hf : atoms.find? (fun a => b.same a) with
  | none =>
    rw [List.find?_eq_none] at hf
    exact absurd hb (hf a ha)
  | some a' =>
    have h1 := List.find?_some hf
    have h2 := List.mem_of_find?_eq_some hf
    have : a' = a := nonSame_eq_of_same hns h2 ha (same_trans (same_symm h1) hb)
    rw [this]

theorem feasBlocks_single (P : CType → List ℝ → Prop) (t : CType) (n : Nat) (s : List ℝ) (h : s.length = n) :
    FeasBlocks P [⟨t, n⟩] s ↔ P t s := by
  rw [feasBlocks_cons]
  simp only [feasBlocks_nil, and_true]
  rw [List.take_of_length_le (by omega)]

theorem elem_block_sem (Q : CType → List ℝ → Prop) (σ' : Nat → ℝ) (atoms : List NlAtom) (hns : NonSame atoms)
    (hnd : (atoms.map (·.epi)).Nodup) (dummy : Nat) (isEq : Bool) (rows : List SRow)
    (hfresh : ∀ a ∈ atoms, ∀ r ∈ rows, ∀ u ∈ r.terms, u.1 ≠ .var a.epi)
    (hdist : ∀ r ∈ rows, NonSame (rowAtoms r))
    (crows : List CRow) (Kc : List Cone)
    (h : conRows dummy (substCon atoms (.elem isEq rows)) = .ok (crows, Kc)) :
    crows.length = totalLen Kc ∧
    (FeasBlocks (conP Q) Kc (crows.map (crowVal σ')) ↔
      ∀ r ∈ rows, if isEq then rowValWith σ' (epiEnv atoms σ') r = 0
        else rowValWith σ' (epiEnv atoms σ') r ≤ 0) := by
  simp only [substCon] at h
  obtain ⟨h1, h2⟩ := conRows_elem_ok dummy isEq _ crows Kc h
  obtain ⟨_, h4⟩ := linRows_ok σ' (epiEnv atoms σ') _ dummy (-1) crows h1
  have hlen : crows.length = rows.length := by rw [linRows_length _ _ _ _ h1, List.length_map]
  rw [List.length_map] at h2
  have hvals : crows.map (crowVal σ') = rows.map fun r => - rowValWith σ' (epiEnv atoms σ') r := by
    rw [h4, List.map_map]
    apply List.map_congr_left
    intro r hr
    simp only [Function.comp]
    rw [substFold_val σ' (epiEnv atoms σ') atoms hnd
      (fun a ha b hb => epiEnv_spec atoms hns σ' a ha b hb) r
      (fun a ha => hfresh a ha r hr) (hdist r hr)]
    push_cast; ring
  subst h2
  refine ⟨by simp [hlen], ?_⟩
  rw [feasBlocks_single _ _ _ _ (by rw [List.length_map, hlen]), hvals]
  cases isEq with
  | true =>
    simp only [if_true, conP, realP, List.mem_map, forall_exists_index, and_imp,
      forall_apply_eq_imp_iff₂, neg_eq_zero]
  | false =>
    simp only [Bool.false_eq_true, if_false, conP, realP, List.mem_map, forall_exists_index, and_imp,
      forall_apply_eq_imp_iff₂, neg_nonneg]

theorem epi_block_sem (Q : CType → List ℝ → Prop) (σ' : Nat → ℝ) (a : NlAtom) (dummy : Nat)
    (p : List CRow × List Cone) (h : epiBlock dummy a = .ok p) :
    p.1.length = totalLen p.2 ∧
    (FeasBlocks (conP Q) p.2 (p.1.map (crowVal σ')) ↔ AtomLe σ' a (σ' a.epi)) := by
  unfold epiBlock at h
  cases he : epiRows a dummy with
  | error e => rw [he] at h; cases h
  | ok q =>
    obtain ⟨r, k⟩ := q
    rw [he] at h
    have : p = (r, [k]) := by cases h; rfl
    subst this
    refine ⟨?_, epiRows_sem Q σ' a dummy r k he⟩
    simp [epiRows_length a dummy r k he]

/-- the well-formedness conditions on the set-membership constraints -/
def SetWF : Con → Prop
  | .primal y K => y.length = (K.map (·.len)).sum
  | .dual y K => (y.length = (K.map (·.len)).sum ∧ ∀ co ∈ K, co.type ∈ [CType.zero, .pos, .soc, .exp]) ∧
      ∀ r ∈ dualZeroRows y K, rowAtoms r = []
  | _ => True

theorem setm_block_sem (Q : CType → List ℝ → Prop) (σ' : Nat → ℝ) (dummy : Nat) (c : Con)
    (hne : isElem c = false) (hwf : SetWF c) (crows : List CRow) (Kc : List Cone)
    (h : conRows dummy c = .ok (crows, Kc)) :
    crows.length = totalLen Kc ∧
    (FeasBlocks (conP Q) Kc (crows.map (crowVal σ')) ↔ Holds Q σ' c) := by
  cases c with
  | elem isEq rows => cases hne
  | primal y K =>
    obtain ⟨h1, h2, h3⟩ := primal_rows' σ' dummy y K crows Kc h
    obtain ⟨h4, _⟩ := conRows_primal_ok dummy y K crows Kc h
    subst h1
    refine ⟨?_, ?_⟩
    · rw [linRows_length _ _ _ _ h4]; exact hwf
    · rw [h2]; simp only [Holds]; exact ⟨fun hq => ⟨h3, hq⟩, fun hq => hq.2⟩
  | dual y K =>
    obtain ⟨⟨hlen, hK⟩, hz⟩ := hwf
    have haff := dual_affine_of_zero dummy y K hK hlen crows Kc h hz
    obtain ⟨h1, h2⟩ := dual_rows_sem Q σ' dummy y K hK hlen crows Kc h
    refine ⟨h1, ?_⟩
    rw [h2]; simp only [Holds]; exact ⟨fun hq => ⟨haff, hq⟩, fun hq => hq.2⟩
  | pow w z =>
    obtain ⟨h1, h2⟩ := conRows_pow_ok dummy w z crows Kc h
    obtain ⟨h3, h4⟩ := linRows_ok σ' (fun _ => 0) _ dummy 1 crows h1
    have hl := linRows_length _ _ _ _ h1
    subst h2
    refine ⟨by simp [hl], ?_⟩
    rw [feasBlocks_single _ _ _ _ (by rw [List.length_map, hl, List.length_append])]
    have : crows.map (crowVal σ') = (w ++ z).map (affVal σ') := by
      rw [h4]; apply List.map_congr_left; intro r _; simp [affVal]
    rw [this]
    simp only [Holds, conP]
    constructor
    · intro hq; exact ⟨h3, hq⟩
    · intro hq; exact hq.2
  | psd arg =>
    obtain ⟨h1, h2⟩ := conRows_psd_ok dummy arg crows Kc h
    obtain ⟨h3, h4⟩ := linRows_ok σ' (fun _ => 0) _ (dummy + 1) 1 crows h1
    have hl := linRows_length _ _ _ _ h1
    subst h2
    refine ⟨by simp [hl], ?_⟩
    rw [feasBlocks_single _ _ _ _ (by rw [List.length_map, hl])]
    have : crows.map (crowVal σ') = (triuEntries arg).map (affVal σ') := by
      rw [h4]; apply List.map_congr_left; intro r _; simp [affVal]
    rw [this]
    simp only [Holds, conP]
    constructor
    · intro hq; exact ⟨h3, hq⟩
    · intro hq; exact hq.2


/-! ### normal form of the compiled system's feasibility -/

theorem var_mem_rowVarIds (r : SRow) (id : Nat) (c : Rat) (h : (AtomRef.var id, c) ∈ r.terms) :
    id ∈ rowVarIds r := by
  unfold rowVarIds
  rw [List.mem_flatMap]
  exact ⟨_, h, by simp⟩

theorem arg_mem_rowVarIds (r : SRow) (b : NlAtom) (c : Rat) (h : (AtomRef.nl b, c) ∈ r.terms)
    (x : AffArg) (hx : x ∈ b.args) (p : Nat × Rat) (hp : p ∈ x.co) : p.1 ∈ rowVarIds r := by
  unfold rowVarIds
  rw [List.mem_flatMap]
  refine ⟨_, h, ?_⟩
  simp only [List.mem_flatMap, List.mem_map]
  exact ⟨x, hx, p, hp, rfl⟩

/-- what the elementwise rows say after substitution, in terms of the original rows -/
def ElemSem (σ' : Nat → ℝ) (E : NlAtom → ℝ) : Con → Prop
  | .elem isEq rows => ∀ r ∈ rows, if isEq then rowValWith σ' E r = 0 else rowValWith σ' E r ≤ 0
  | _ => True

/-- distinct dictionary keys: no two nonlinear atoms of one row are identified by the code -/
def KeysDistinct (cons : List Con) : Prop :=
  ∀ c ∈ cons, ∀ r ∈ elemRowsOf c, (rowAtoms r).Pairwise (fun a b => a.same b = false)

theorem mem_filter_isElem (cons : List Con) (c : Con) (h : c ∈ cons.filter isElem) :
    c ∈ cons ∧ ∃ isEq rows, c = .elem isEq rows := by
  rw [List.mem_filter] at h
  refine ⟨h.1, ?_⟩
  cases c with
  | elem isEq rows => exact ⟨isEq, rows, rfl⟩
  | _ => cases h.2

theorem feasRows_nf (Q : CType → List ℝ → Prop) (cons : List Con) (dummy : Nat)
    (hfresh : EpiFresh cons) (hkeys : KeysDistinct cons)
    (hwf : ∀ c ∈ cons, isElem c = false → SetWF c)
    (rows : List CRow) (K : List Cone) (h : compileBlocks cons dummy = .ok (rows, K)) (σ' : Nat → ℝ) :
    FeasRows Q σ' rows K ↔
      (∀ c ∈ cons.filter isElem,
        ElemSem σ' (epiEnv (collectAtoms ((cons.filter isElem).flatMap elemRowsOf)) σ') c) ∧
      (∀ a ∈ collectAtoms ((cons.filter isElem).flatMap elemRowsOf), AtomLe σ' a (σ' a.epi)) ∧
      (∀ c ∈ cons.filter (!isElem ·), Holds Q σ' c) := by
  obtain ⟨e1, e2, e3, h1, h2, h3, hrows, hK⟩ := compileBlocks_ok cons dummy rows K h
  obtain ⟨hf1, hf2⟩ := hfresh
  obtain ⟨hns, _, _⟩ := collectAtoms_spec ((cons.filter isElem).flatMap elemRowsOf)
  generalize hat : collectAtoms ((cons.filter isElem).flatMap elemRowsOf) = atoms at *
  rw [mapM_ok_iff] at h1 h2 h3
  rw [List.forall₂_map_left_iff] at h1
  -- per-block facts
  have hb1 : ∀ c ∈ cons.filter isElem, ∀ p, conRows dummy (substCon atoms c) = .ok p →
      p.1.length = totalLen p.2 ∧
      (FeasBlocks (conP Q) p.2 (p.1.map (crowVal σ')) ↔ ElemSem σ' (epiEnv atoms σ') c) := by
    intro c hc p hp
    obtain ⟨hc1, isEq, rws, rfl⟩ := mem_filter_isElem cons c hc
    obtain ⟨crows, Kc⟩ := p
    refine elem_block_sem Q σ' atoms hns hf2 dummy isEq rws ?_ ?_ crows Kc hp
    · intro a ha r hr u hu heq
      apply hf1 a ha
      rw [List.mem_flatMap]
      refine ⟨_, hc1, ?_⟩
      simp only [conVarIds, List.mem_flatMap]
      refine ⟨r, hr, ?_⟩
      obtain ⟨ref, cf⟩ := u
      simp only at heq
      subst heq
      exact var_mem_rowVarIds r a.epi cf hu
    · intro r hr
      exact hkeys _ hc1 r hr
  have hb2 : ∀ a ∈ atoms, ∀ p, epiBlock dummy a = .ok p →
      p.1.length = totalLen p.2 ∧
      (FeasBlocks (conP Q) p.2 (p.1.map (crowVal σ')) ↔ AtomLe σ' a (σ' a.epi)) :=
    fun a _ p hp => epi_block_sem Q σ' a dummy p hp
  have hb3 : ∀ c ∈ cons.filter (!isElem ·), ∀ p, conRows dummy c = .ok p →
      p.1.length = totalLen p.2 ∧
      (FeasBlocks (conP Q) p.2 (p.1.map (crowVal σ')) ↔ Holds Q σ' c) := by
    intro c hc p hp
    rw [List.mem_filter] at hc
    obtain ⟨crows, Kc⟩ := p
    have hne : isElem c = false := by simpa using hc.2
    exact setm_block_sem Q σ' dummy c hne (hwf c hc.1 hne) crows Kc hp
  have hl : ∀ p ∈ e1 ++ e2 ++ e3, p.1.length = totalLen p.2 := by
    intro p hp
    rcases List.mem_append.1 hp with hp | hp
    · rcases List.mem_append.1 hp with hp | hp
      · exact forall₂_forall_right h1 (fun c hc q hq => (hb1 c hc q hq).1) p hp
      · exact forall₂_forall_right h2 (fun c hc q hq => (hb2 c hc q hq).1) p hp
    · exact forall₂_forall_right h3 (fun c hc q hq => (hb3 c hc q hq).1) p hp
  unfold FeasRows
  rw [hrows, hK, feasBlocks_flatMap (conP Q) (crowVal σ') _ hl]
  simp only [List.forall_mem_append]
  rw [forall₂_forall_iff h1 (fun c hc q hq => (hb1 c hc q hq).2),
    forall₂_forall_iff h2 (fun c hc q hq => (hb2 c hc q hq).2),
    forall₂_forall_iff h3 (fun c hc q hq => (hb3 c hc q hq).2), and_assoc]

end Sageopt.Compile
