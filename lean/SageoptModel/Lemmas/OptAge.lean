/-
C19 helper lemmas: the entries of the aligned AGE vectors, the "slots" (index, id of the `c^{(i)}` variable
sitting there), uniqueness of the slot of an id, and the value of a row of `_age_vectors_sum_to_c`.
-/
import SageoptModel.Lemmas.OptUpdate
import SageoptModel.Lemmas.OptPrimalRows
import Mathlib.Data.List.Nodup

namespace Sageopt.Sage
open Sageopt Sageopt.Compile Sageopt.Solvers Sageopt.Analysis

/-! ### entries of `ageVector` -/

theorem opt_getD_map_range {α : Type} (f : ℕ → α) (m j : ℕ) (d : α) (hj : j < m) :
    ((List.range m).map f).getD j d = f j := by
  simp [List.getD_eq_getElem?_getD, hj]

theorem opt_age_getD (m : Nat) (c : List AffE) (e : Ech) (p : PIds) (j : Nat) (hj : j < m) :
    (ageVector m c e p).getD j (constE 0) =
      if j == p.i then
        if e.N.contains p.i then c.getD p.i (constE 0) else varE (p.cvar.getLastD 0)
      else match (trueIdx (coverOf e p.i)).idxOf? j with
        | some k => varE (p.cvar.getD k 0)
        | none => constE 0 := by
  unfold ageVector
  simp only []
  rw [opt_getD_map_range _ _ _ _ hj]
  rfl

/-- the slots of index `p.i`: `(j, id)` — the variable `id` of `c^{(i)}` sits at index `j` of the AGE vector -/
def opt_slots (e : Ech) (p : PIds) : List (Nat × Nat) :=
  ((trueIdx (coverOf e p.i)).zipIdx.map fun (jt : Nat × Nat) => (jt.1, p.cvar.getD jt.2 0)) ++
    (if e.N.contains p.i then [] else [(p.i, p.cvar.getLastD 0)])

/-- an entry of an AGE vector is the constant 0, or the coefficient `c_i` itself (`i ∈ N_I`), or a slot -/
theorem opt_age_entry (m : Nat) (c : List AffE) (e : Ech) (p : PIds) (j : Nat) (hj : j < m) :
    (ageVector m c e p).getD j (constE 0) = constE 0 ∨
    (j = p.i ∧ e.N.contains p.i = true ∧ (ageVector m c e p).getD j (constE 0) = c.getD p.i (constE 0)) ∨
    ∃ id, (ageVector m c e p).getD j (constE 0) = varE id ∧ (j, id) ∈ opt_slots e p := by
  rw [opt_age_getD m c e p j hj]
  by_cases hji : j = p.i
  · have : (j == p.i) = true := by simpa using hji
    rw [this, if_pos rfl]
    by_cases hN : e.N.contains p.i = true
    · rw [if_pos hN]
      exact Or.inr (Or.inl ⟨hji, hN, rfl⟩)
    · rw [if_neg hN]
      refine Or.inr (Or.inr ⟨_, rfl, ?_⟩)
      unfold opt_slots
      rw [if_neg hN, hji]
      exact List.mem_append_right _ (List.mem_singleton.2 rfl)
  · have : (j == p.i) = false := by simpa using hji
    rw [this]
    simp only [Bool.false_eq_true, if_false]
    cases hk : (trueIdx (coverOf e p.i)).idxOf? j with
    | none => exact Or.inl rfl
    | some k =>
      refine Or.inr (Or.inr ⟨_, rfl, ?_⟩)
      obtain ⟨h1, h2⟩ := idxOf?_some _ j k hk
      unfold opt_slots
      apply List.mem_append_left
      rw [List.mem_map]
      refine ⟨(j, k), ?_, rfl⟩
      rw [List.mk_mem_zipIdx_iff_getElem?]
      rw [List.getD_eq_getElem?_getD, List.getElem?_eq_getElem h2] at h1
      rw [List.getElem?_eq_getElem h2]
      simpa using h1

/-- a covered index carries a slot -/
theorem opt_age_covered (m : Nat) (c : List AffE) (e : Ech) (p : PIds) (j : Nat) (hj : j < m)
    (hcov : j ∈ trueIdx (coverOf e p.i)) (hpi : p.i ∉ trueIdx (coverOf e p.i)) :
    ∃ id, (ageVector m c e p).getD j (constE 0) = varE id ∧ (j, id) ∈ opt_slots e p := by
  rcases opt_age_entry m c e p j hj with h | ⟨h, _, _⟩ | h
  · exfalso
    rw [opt_age_getD m c e p j hj] at h
    have hji : j ≠ p.i := fun heq => hpi (heq ▸ hcov)
    have : (j == p.i) = false := by simpa using hji
    rw [this] at h
    simp only [Bool.false_eq_true, if_false] at h
    cases hk : (trueIdx (coverOf e p.i)).idxOf? j with
    | none => exact (idxOf?_none _ j).1 hk hcov
    | some k =>
      rw [hk] at h
      simp [varE, constE] at h
  · exact absurd (h ▸ hcov) hpi
  · exact h

/-- the own index of `i ∉ N_I` carries a slot -/
theorem opt_age_own (m : Nat) (c : List AffE) (e : Ech) (p : PIds) (hj : p.i < m)
    (hN : ¬ e.N.contains p.i = true) :
    ∃ id, (ageVector m c e p).getD p.i (constE 0) = varE id ∧ (p.i, id) ∈ opt_slots e p := by
  rcases opt_age_entry m c e p p.i hj with h | ⟨_, h, _⟩ | h
  · exfalso
    rw [opt_age_getD m c e p p.i hj] at h
    simp only [beq_self_eq_true, if_true, if_neg hN] at h
    simp [varE, constE] at h
  · exact absurd h hN
  · exact h

/-! ### the ids of the slots -/

theorem opt_range_map_getD (l : List Nat) (k : Nat) (hk : k ≤ l.length) :
    (List.range k).map (fun t => l.getD t 0) = l.take k := by
  apply List.ext_getElem
  · simp; omega
  · intro i h1 h2
    have hi : i < k := by simpa using h1
    simp [List.getD_eq_getElem?_getD, List.getElem?_eq_getElem (show i < l.length by omega)]

/-- with the sizes the constructor gives `c^{(i)}`, the slot ids are exactly the ids of `c^{(i)}`, in order -/
theorem opt_slots_snd (e : Ech) (p : PIds)
    (hlen : p.cvar.length = (trueIdx (coverOf e p.i)).length + (if e.N.contains p.i then 0 else 1)) :
    (opt_slots e p).map (·.2) = p.cvar := by
  unfold opt_slots
  rw [List.map_append, List.map_map]
  have h1 : ((trueIdx (coverOf e p.i)).zipIdx.map ((fun x : Nat × Nat => x.2) ∘ fun jt => (jt.1, p.cvar.getD jt.2 0)))
      = p.cvar.take (trueIdx (coverOf e p.i)).length := by
    have : ((fun x : Nat × Nat => x.2) ∘ fun (jt : Nat × Nat) => (jt.1, p.cvar.getD jt.2 0))
        = (fun t => p.cvar.getD t 0) ∘ Prod.snd := rfl
    rw [this, ← List.map_map, List.zipIdx_map_snd, ← List.range_eq_range']
    apply opt_range_map_getD
    omega
  rw [h1]
  by_cases hN : e.N.contains p.i = true
  · rw [if_pos hN] at hlen ⊢
    simp only [List.map_nil, List.append_nil]
    rw [List.take_of_length_le (by omega)]
  · rw [if_neg hN] at hlen ⊢
    simp only [List.map_cons, List.map_nil]
    have hlast : p.cvar.getLastD 0 = p.cvar[(trueIdx (coverOf e p.i)).length]'(by omega) := by
      rw [List.getLastD_eq_getLast?, List.getLast?_eq_getElem?]
      have : p.cvar.length - 1 = (trueIdx (coverOf e p.i)).length := by omega
      rw [this, List.getElem?_eq_getElem (by omega)]
      rfl
    have hdrop : p.cvar.drop (trueIdx (coverOf e p.i)).length = [p.cvar[(trueIdx (coverOf e p.i)).length]'(by omega)] := by
      rw [List.drop_eq_getElem_cons (by omega), List.drop_of_length_le (by omega)]
    rw [hlast, ← hdrop, List.take_append_drop]

/-- an id sits at one index only -/
theorem opt_slot_unique (e : Ech) (ids : List PIds) (hnd : (ids.flatMap (·.cvar)).Nodup)
    (hsnd : ∀ p ∈ ids, (opt_slots e p).map (·.2) = p.cvar)
    (p1 : PIds) (hp1 : p1 ∈ ids) (p2 : PIds) (hp2 : p2 ∈ ids) (j1 j2 id : Nat)
    (h1 : (j1, id) ∈ opt_slots e p1) (h2 : (j2, id) ∈ opt_slots e p2) : j1 = j2 := by
  have hL : ((ids.flatMap (opt_slots e)).map (·.2)).Nodup := by
    rw [List.map_flatMap]
    have : (ids.flatMap fun p => (opt_slots e p).map (·.2)) = ids.flatMap (·.cvar) :=
      List.flatMap_congr hsnd
    rw [this]; exact hnd
  have := List.inj_on_of_nodup_map hL (List.mem_flatMap.2 ⟨p1, hp1, h1⟩) (List.mem_flatMap.2 ⟨p2, hp2, h2⟩) rfl
  exact (Prod.mk.inj this).1

theorem opt_slot_id_mem (e : Ech) (p : PIds) (hsnd : (opt_slots e p).map (·.2) = p.cvar) (j id : Nat)
    (h : (j, id) ∈ opt_slots e p) : id ∈ p.cvar := by
  rw [← hsnd, List.mem_map]
  exact ⟨(j, id), h, rfl⟩

/-! ### value of a row of `_age_vectors_sum_to_c` -/

/-- every coefficient is `1` (true of all entries of aligned AGE vectors) -/
def opt_UnitCo (a : AffE) : Prop := ∀ q ∈ a.co, q.2 = 1

theorem opt_unitCo_varE (id : Nat) : opt_UnitCo (varE id) := by
  intro q hq; simp [varE] at hq; rw [hq]

theorem opt_unitCo_of_nil (a : AffE) (h : a.co = []) : opt_UnitCo a := by
  intro q hq; rw [h] at hq; cases hq

theorem opt_argVal_unit (σ : Nat → ℝ) (a : AffE) (h : opt_UnitCo a) :
    argVal σ a = ((a.co.map (·.1)).map σ).sum + (a.off : ℝ) := by
  unfold argVal
  congr 1
  rw [List.map_map]
  congr 1
  apply List.map_congr_left
  intro q hq
  simp [h q hq]

theorem opt_sum_neg_one (σ : Nat → ℝ) (l : List Nat) :
    ((l.map fun id => (id, (-1 : Rat))).map fun e => ((e.2 : Rat) : ℝ) * σ e.1).sum = - (l.map σ).sum := by
  induction l with
  | nil => simp
  | cons a l ih =>
    simp only [List.map_cons, List.sum_cons, ih]
    push_cast; ring

theorem opt_sumRow_aux (σ : Nat → ℝ) (j : Nat) (ages : List (List AffE))
    (hu : ∀ a ∈ ages, opt_UnitCo (a.getD j (constE 0))) :
    (((ages.flatMap fun a => (a.getD j (constE 0)).co.map (·.1)).map fun id => (id, (-1 : Rat))).map
        fun e => ((e.2 : Rat) : ℝ) * σ e.1).sum
      - ((((ages.map fun a => (a.getD j (constE 0)).off).foldl (· + ·) 0 : Rat)) : ℝ)
      = - (ages.map fun a => argVal σ (a.getD j (constE 0))).sum := by
  rw [opt_sum_neg_one, foldl_add_cast]
  induction ages with
  | nil => simp
  | cons a ages ih =>
    have ih' := ih (fun b hb => hu b (List.mem_cons_of_mem _ hb))
    simp only [List.flatMap_cons, List.map_append, List.sum_append, List.map_cons, List.sum_cons]
    rw [opt_argVal_unit σ _ (hu a (List.mem_cons_self ..))]
    linarith

theorem opt_sumRow_val (σ : Nat → ℝ) (c : List AffE) (ages : List (List AffE)) (dummy j : Nat)
    (hu : ∀ a ∈ ages, opt_UnitCo (a.getD j (constE 0))) :
    crowVal σ (opt_sumRow c ages dummy j)
      = cVal σ c j - (ages.map fun a => argVal σ (a.getD j (constE 0))).sum := by
  have haux := opt_sumRow_aux σ j ages hu
  unfold opt_sumRow
  simp only
  rw [crowVal_false]
  split
  · rename_i hemp
    have hnil : ((ages.flatMap fun a => (a.getD j (constE 0)).co.map (·.1)).map fun id => (id, (-1 : Rat))) ++
          (c.getD j (constE 0)).co = [] := by simpa using hemp
    have h1 := List.append_eq_nil_iff.1 hnil
    rw [h1.1] at haux
    unfold cVal
    rw [show argVal σ (c.getD j (constE 0)) = ((c.getD j (constE 0)).co.map fun p => ((p.2 : Rat) : ℝ) * σ p.1).sum
      + (((c.getD j (constE 0)).off : Rat) : ℝ) from rfl, h1.2]
    simp only [List.map_nil, List.sum_nil, List.map_cons, List.sum_cons] at haux ⊢
    push_cast
    linarith
  · rw [List.map_append, List.sum_append]
    unfold cVal
    rw [show argVal σ (c.getD j (constE 0)) = ((c.getD j (constE 0)).co.map fun p => ((p.2 : Rat) : ℝ) * σ p.1).sum
      + (((c.getD j (constE 0)).off : Rat) : ℝ) from rfl]
    push_cast
    linarith

end Sageopt.Sage
