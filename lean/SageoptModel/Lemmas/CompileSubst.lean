/-
C07 helper lemmas, epigraph substitution: `collectAtoms` (pairwise distinct representatives of all
atoms), `substRow` and its fold preserve the value of a row when the epigraph variable carries the
atom's value.
-/
import SageoptModel.Lemmas.CompileRows

namespace Sageopt.Compile
open Sageopt Sageopt.Solvers Sageopt.Analysis

/-! ### collectAtoms -/

def collectStep (acc : List NlAtom) (a : NlAtom) : List NlAtom :=
  if acc.any (·.same a) then acc else acc ++ [a]

theorem collectAtoms_foldl_aux (rows : List SRow) (acc : List NlAtom) :
    rows.foldl (fun acc r => (rowAtoms r).foldl (fun acc a => if acc.any (·.same a) then acc else acc ++ [a]) acc) acc
      = (rows.flatMap rowAtoms).foldl collectStep acc := by
  induction rows generalizing acc with
  | nil => rfl
  | cons r rows ih =>
    simp only [List.foldl_cons, List.flatMap_cons, List.foldl_append, ih]
    rfl

theorem collectAtoms_eq (rows : List SRow) :
    collectAtoms rows = (rows.flatMap rowAtoms).foldl collectStep [] :=
  collectAtoms_foldl_aux rows []

def NonSame (l : List NlAtom) : Prop := l.Pairwise (fun a b => a.same b = false)

theorem collect_foldl_spec (l acc : List NlAtom) (hacc : NonSame acc) :
    NonSame (l.foldl collectStep acc) ∧
    (∀ b, b ∈ acc ∨ b ∈ l → ∃ a ∈ l.foldl collectStep acc, a.same b = true) ∧
    (∀ a ∈ l.foldl collectStep acc, a ∈ acc ∨ a ∈ l) := by
  induction l generalizing acc with
  | nil =>
    refine ⟨hacc, ?_, fun a ha => Or.inl ha⟩
    intro b hb
    rcases hb with hb | hb
    · exact ⟨b, hb, same_refl b⟩
    · simp at hb
  | cons x l ih =>
    simp only [List.foldl_cons]
    have hstep : NonSame (collectStep acc x) := by
      unfold collectStep
      by_cases h : acc.any (·.same x) = true
      · rw [if_pos h]; exact hacc
      · rw [if_neg h]
        unfold NonSame
        rw [List.pairwise_append]
        refine ⟨hacc, List.pairwise_singleton _ _, ?_⟩
        intro a ha b hb
        rw [List.mem_singleton] at hb
        subst hb
        rw [List.any_eq_true] at h
        cases hs : a.same b with
        | false => rfl
        | true => exact absurd ⟨a, ha, hs⟩ h
    obtain ⟨h1, h2, h3⟩ := ih (collectStep acc x) hstep
    have hsub : ∀ a ∈ acc, a ∈ collectStep acc x := by
      intro a ha
      unfold collectStep
      by_cases h : acc.any (·.same x) = true
      · rw [if_pos h]; exact ha
      · rw [if_neg h]; exact List.mem_append_left _ ha
    have hx : ∃ a ∈ collectStep acc x, a.same x = true := by
      unfold collectStep
      by_cases h : acc.any (·.same x) = true
      · rw [if_pos h]
        rw [List.any_eq_true] at h
        exact h
      · rw [if_neg h]
        exact ⟨x, by simp, same_refl x⟩
    refine ⟨h1, ?_, ?_⟩
    · intro b hb
      rcases hb with hb | hb
      · exact h2 b (Or.inl (hsub b hb))
      · rcases List.mem_cons.1 hb with rfl | hb
        · obtain ⟨a, ha, hab⟩ := hx
          obtain ⟨a', ha', hab'⟩ := h2 a (Or.inl ha)
          exact ⟨a', ha', same_trans hab' hab⟩
        · exact h2 b (Or.inr hb)
    · intro a ha
      rcases h3 a ha with h | h
      · unfold collectStep at h
        by_cases hc : acc.any (·.same x) = true
        · rw [if_pos hc] at h; exact Or.inl h
        · rw [if_neg hc] at h
          rcases List.mem_append.1 h with h | h
          · exact Or.inl h
          · rw [List.mem_singleton] at h; subst h; exact Or.inr (List.mem_cons_self ..)
      · exact Or.inr (List.mem_cons_of_mem _ h)

theorem collectAtoms_spec (rows : List SRow) :
    NonSame (collectAtoms rows) ∧
    (∀ r ∈ rows, ∀ b ∈ rowAtoms r, ∃ a ∈ collectAtoms rows, a.same b = true) ∧
    (∀ a ∈ collectAtoms rows, ∃ r ∈ rows, a ∈ rowAtoms r) := by
  rw [collectAtoms_eq]
  obtain ⟨h1, h2, h3⟩ := collect_foldl_spec (rows.flatMap rowAtoms) [] List.Pairwise.nil
  refine ⟨h1, ?_, ?_⟩
  · intro r hr b hb
    exact h2 b (Or.inr (List.mem_flatMap.2 ⟨r, hr, hb⟩))
  · intro a ha
    rcases h3 a ha with h | h
    · simp at h
    · exact List.mem_flatMap.1 h

theorem nonSame_eq_of_same {l : List NlAtom} (h : NonSame l) {a b : NlAtom} (ha : a ∈ l) (hb : b ∈ l)
    (hs : a.same b = true) : a = b := by
  induction l with
  | nil => simp at ha
  | cons x l ih =>
    unfold NonSame at h
    rw [List.pairwise_cons] at h
    rcases List.mem_cons.1 ha with rfl | ha'
    · rcases List.mem_cons.1 hb with rfl | hb
      · rfl
      · rw [h.1 b hb] at hs; cases hs
    · rcases List.mem_cons.1 hb with rfl | hb'
      · rw [same_comm, h.1 a ha'] at hs; cases hs
      · exact ih h.2 ha' hb'

theorem nodup_map_inj {α β : Type} (f : α → β) {l : List α} (h : (l.map f).Nodup) {a b : α}
    (ha : a ∈ l) (hb : b ∈ l) (hf : f a = f b) : a = b := by
  induction l with
  | nil => simp at ha
  | cons x l ih =>
    rw [List.map_cons, List.nodup_cons] at h
    rcases List.mem_cons.1 ha with rfl | ha'
    · rcases List.mem_cons.1 hb with rfl | hb
      · rfl
      · exact absurd (hf ▸ List.mem_map_of_mem hb) h.1
    · rcases List.mem_cons.1 hb with rfl | hb'
      · exact absurd (hf ▸ List.mem_map_of_mem ha') h.1
      · exact ih h.2 ha' hb'


/-! ### substRow -/

theorem atomRef_beq_var (x : AtomRef) (e : Nat) : (x == AtomRef.var e) = true ↔ x = .var e := by
  cases x with
  | var id =>
    show (id == e) = true ↔ _
    simp
  | nl a =>
    show false = true ↔ _
    simp

def isA (a : NlAtom) (u : AtomRef × Rat) : Bool :=
  match u.1 with | .nl b => b.same a | .var _ => false

def termAtoms (ts : List (AtomRef × Rat)) : List NlAtom :=
  ts.filterMap fun t => match t.1 with | .nl a => some a | .var _ => none

theorem rowAtoms_eq (r : SRow) : rowAtoms r = termAtoms r.terms := rfl

theorem substRow_unfold (a : NlAtom) (r : SRow) :
    substRow a r = (match r.terms.find? (isA a) with
      | none => r
      | some t =>
        if ((r.terms.filter fun u => !isA a u).any fun u => u.1 == .var a.epi) then
          { r with terms := (r.terms.filter fun u => !isA a u).map fun u => if u.1 == .var a.epi then (u.1, t.2) else u }
        else { r with terms := r.terms.filter (fun u => !isA a u) ++ [(.var a.epi, t.2)] }) := rfl

theorem substRow_none (a : NlAtom) (r : SRow) (h : r.terms.find? (isA a) = none) : substRow a r = r := by
  rw [substRow_unfold, h]

theorem substRow_some (a : NlAtom) (r : SRow) (t : AtomRef × Rat) (h : r.terms.find? (isA a) = some t)
    (hfresh : ∀ u ∈ r.terms, u.1 ≠ .var a.epi) :
    substRow a r = { r with terms := r.terms.filter (fun u => !isA a u) ++ [(.var a.epi, t.2)] } := by
  rw [substRow_unfold, h]
  simp only
  rw [if_neg]
  intro hany
  rw [List.any_eq_true] at hany
  obtain ⟨u, hu, hu2⟩ := hany
  exact hfresh u (List.mem_of_mem_filter hu) ((atomRef_beq_var _ _).1 hu2)

theorem substRow_off (a : NlAtom) (r : SRow) : (substRow a r).off = r.off := by
  rw [substRow_unfold]
  split
  · rfl
  · split <;> rfl

theorem substRow_mem (a : NlAtom) (r : SRow) (hfresh : ∀ u ∈ r.terms, u.1 ≠ .var a.epi) :
    ∀ u ∈ (substRow a r).terms, u ∈ r.terms ∨ u.1 = .var a.epi := by
  intro u hu
  cases h : r.terms.find? (isA a) with
  | none => rw [substRow_none a r h] at hu; exact Or.inl hu
  | some t =>
    rw [substRow_some a r t h hfresh] at hu
    simp only [List.mem_append, List.mem_singleton] at hu
    rcases hu with hu | rfl
    · exact Or.inl (List.mem_of_mem_filter hu)
    · exact Or.inr rfl

theorem termAtoms_append_var (ts : List (AtomRef × Rat)) (e : Nat) (c : Rat) :
    termAtoms (ts ++ [(.var e, c)]) = termAtoms ts := by
  simp [termAtoms, List.filterMap_append]

theorem substRow_atoms_sublist (a : NlAtom) (r : SRow) (hfresh : ∀ u ∈ r.terms, u.1 ≠ .var a.epi) :
    (rowAtoms (substRow a r)).Sublist (rowAtoms r) := by
  cases h : r.terms.find? (isA a) with
  | none => rw [substRow_none a r h]
  | some t =>
    rw [substRow_some a r t h hfresh, rowAtoms_eq, rowAtoms_eq]
    simp only
    rw [termAtoms_append_var]
    exact List.Sublist.filterMap _ List.filter_sublist

theorem termAtoms_cons_nl (b : NlAtom) (c : Rat) (ts : List (AtomRef × Rat)) :
    termAtoms ((.nl b, c) :: ts) = b :: termAtoms ts := by
  simp [termAtoms]

theorem termAtoms_cons_var (e : Nat) (c : Rat) (ts : List (AtomRef × Rat)) :
    termAtoms ((.var e, c) :: ts) = termAtoms ts := by
  simp [termAtoms]

theorem mem_termAtoms (b : NlAtom) (ts : List (AtomRef × Rat)) :
    b ∈ termAtoms ts ↔ ∃ c, (AtomRef.nl b, c) ∈ ts := by
  induction ts with
  | nil => simp [termAtoms]
  | cons u us ih =>
    obtain ⟨ref, c⟩ := u
    cases ref with
    | var e =>
      rw [termAtoms_cons_var, ih]
      simp
    | nl b' =>
      rw [termAtoms_cons_nl, List.mem_cons, ih]
      constructor
      · rintro (rfl | ⟨c', hc'⟩)
        · exact ⟨c, List.mem_cons_self ..⟩
        · exact ⟨c', List.mem_cons_of_mem _ hc'⟩
      · rintro ⟨c', hc'⟩
        rcases List.mem_cons.1 hc' with h | h
        · left; cases h; rfl
        · exact Or.inr ⟨c', h⟩

theorem termsVal_cons (σ : Nat → ℝ) (τ : NlAtom → ℝ) (u : AtomRef × Rat) (ts : List (AtomRef × Rat)) :
    termsVal σ τ (u :: ts) = (u.2 : ℝ) * (match u.1 with | .var id => σ id | .nl a => τ a) + termsVal σ τ ts := by
  unfold termsVal; rw [List.map_cons, List.sum_cons]; rfl

theorem termsVal_append (σ : Nat → ℝ) (τ : NlAtom → ℝ) (ts us : List (AtomRef × Rat)) :
    termsVal σ τ (ts ++ us) = termsVal σ τ ts + termsVal σ τ us := by
  simp [termsVal]

theorem termsVal_split (σ : Nat → ℝ) (E : NlAtom → ℝ) (a : NlAtom) (x : ℝ)
    (hE : ∀ b, b.same a = true → E b = x) (ts : List (AtomRef × Rat)) (hdist : NonSame (termAtoms ts)) :
    termsVal σ E ts = termsVal σ E (ts.filter fun u => !isA a u) +
      (match ts.find? (isA a) with | some t => (t.2 : ℝ) * x | none => 0) := by
  induction ts with
  | nil => simp [termsVal]
  | cons u us ih =>
    obtain ⟨ref, c⟩ := u
    cases ref with
    | var e =>
      rw [termAtoms_cons_var] at hdist
      have h1 : isA a (AtomRef.var e, c) = false := rfl
      rw [List.filter_cons, List.find?_cons]
      simp only [h1, Bool.not_false, if_true]
      rw [termsVal_cons, termsVal_cons, ih hdist]
      ring
    | nl b =>
      rw [termAtoms_cons_nl] at hdist
      unfold NonSame at hdist
      rw [List.pairwise_cons] at hdist
      by_cases hb : b.same a = true
      · have h1 : isA a (AtomRef.nl b, c) = true := hb
        rw [List.filter_cons, List.find?_cons]
        simp only [h1, Bool.not_true, Bool.false_eq_true, if_false]
        have hus : us.filter (fun u => !isA a u) = us := by
          rw [List.filter_eq_self]
          intro u hu
          obtain ⟨ref', c'⟩ := u
          cases ref' with
          | var e => rfl
          | nl b' =>
            have hb' : b' ∈ termAtoms us := (mem_termAtoms b' us).2 ⟨c', hu⟩
            have hne := hdist.1 b' hb'
            show (!b'.same a) = true
            cases hs : b'.same a with
            | false => rfl
            | true =>
              rw [same_trans hb (same_symm hs)] at hne; cases hne
        rw [hus, termsVal_cons]
        simp only [hE b hb]
        ring
      · have h1 : isA a (AtomRef.nl b, c) = false := by simpa [isA] using hb
        rw [List.filter_cons, List.find?_cons]
        simp only [h1, Bool.not_false, if_true]
        rw [termsVal_cons, termsVal_cons, ih hdist.2]
        ring

theorem substRow_val (σ : Nat → ℝ) (E : NlAtom → ℝ) (a : NlAtom)
    (hE : ∀ b, b.same a = true → E b = σ a.epi) (r : SRow)
    (hfresh : ∀ u ∈ r.terms, u.1 ≠ .var a.epi) (hdist : NonSame (rowAtoms r)) :
    rowValWith σ E (substRow a r) = rowValWith σ E r := by
  rw [rowValWith_eq, rowValWith_eq, substRow_off]
  congr 1
  have hsplit := termsVal_split σ E a (σ a.epi) hE r.terms hdist
  cases h : r.terms.find? (isA a) with
  | none => rw [substRow_none a r h]
  | some t =>
    rw [substRow_some a r t h hfresh]
    rw [h] at hsplit
    simp only at hsplit ⊢
    rw [hsplit, termsVal_append]
    simp [termsVal]


theorem substFold_val (σ : Nat → ℝ) (E : NlAtom → ℝ) (as : List NlAtom) (hnd : (as.map (·.epi)).Nodup)
    (hE : ∀ a ∈ as, ∀ b, b.same a = true → E b = σ a.epi) (r : SRow)
    (hfresh : ∀ a ∈ as, ∀ u ∈ r.terms, u.1 ≠ .var a.epi) (hdist : NonSame (rowAtoms r)) :
    rowValWith σ E (as.foldl (fun r a => substRow a r) r) = rowValWith σ E r := by
  induction as generalizing r with
  | nil => rfl
  | cons a as ih =>
    simp only [List.foldl_cons]
    rw [List.map_cons, List.nodup_cons] at hnd
    have hfa := hfresh a (List.mem_cons_self ..)
    rw [ih hnd.2 (fun a' ha' => hE a' (List.mem_cons_of_mem _ ha')) (substRow a r)]
    · exact substRow_val σ E a (hE a (List.mem_cons_self ..)) r hfa hdist
    · intro a' ha' u hu
      rcases substRow_mem a r hfa u hu with h | h
      · exact hfresh a' (List.mem_cons_of_mem _ ha') u h
      · rw [h]
        intro heq
        have : a.epi = a'.epi := AtomRef.var.inj heq
        exact hnd.1 (this ▸ List.mem_map_of_mem (f := (·.epi)) ha')
    · exact List.Pairwise.sublist (substRow_atoms_sublist a r hfa) hdist

end Sageopt.Compile
