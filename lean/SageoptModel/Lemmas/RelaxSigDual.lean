/-
The dual data of `sigDual` (`Model/Relax.lean`) in terms of the named intermediate objects of
`Lemmas/RelaxSigBuild.lean`: the normalisation vector and the objective vector are the coefficient
functions of `t` and of `f'·t` tabulated along the rows of the modulated Lagrangian, whose rows contain
the supports of both; the coefficient at row `j` of the primal constraint is `obj_j − γ·a_j`.
-/
import SageoptModel.Lemmas.RelaxSigBuild

namespace Sageopt.RelaxSig
open Sageopt Sageopt.Sig Sageopt.Sig.Hom Sageopt.Relax Sageopt.Props Sageopt.SymCorr

theorem rs_tol8 : Relax.tol8 = scTol := by
  unfold Relax.tol8 scTol decimals
  norm_num

/-! ### the numeric product `f'·t` -/

theorem rs_fmod_spec (f : SigQ) (hf : Wf f) (ell : Nat) (ms : Option (List Exp))
    (hms : ∀ s, ms = some s → ∀ r ∈ s, r.length = f.n) (g : Nat) :
    Wf (mulQ (rsF f) (rsT f ell ms g)) ∧ (mulQ (rsF f) (rsT f ell ms g)).n = f.n ∧
    ∀ a, coeff (mulQ (rsF f) (rsT f ell ms g)).terms a =
      coeff (prodTerms (rsF f).terms (rsT f ell ms g).terms) a := by
  have hF := rs_F_wf f hf
  have hT := rs_T_wf f hf ell ms hms g
  have hn : (rsF f).n = (rsT f ell ms g).n := by rw [rs_F_n, rs_T_n f hf ell ms hms g]
  have hp : Wf (product (rsF f) (rsT f ell ms g)) := product_wf _ _ hF hT hn
  unfold mulQ
  refine ⟨withoutZeros_wf' isZeroQ _ hp, ?_, ?_⟩
  · rw [withoutZeros_n]; exact rs_F_n f
  · intro a
    rw [withoutZeros_coeff' isZeroQ isZeroQ_iff _ hp.grid, product_terms _ _ hF.grid hT.grid,
      consolidate_coeff]

/-! ### rows of the modulated Lagrangian -/

theorem rs_S_rows (f : SigQ) (hf : Wf f) (ell : Nat) (ms : Option (List Exp))
    (hms : ∀ s, ms = some s → ∀ r ∈ s, r.length = f.n) (g : Nat) :
    (∀ r ∈ keys (rsS f ell ms g).terms, OnGrid r ∧ r.length = f.n) ∧ (keys (rsS f ell ms g).terms).Nodup := by
  obtain ⟨hS, hSn⟩ := rs_S_wf f hf ell ms hms g
  refine ⟨?_, hS.nodup⟩
  intro r hr
  obtain ⟨t, ht, rfl⟩ := List.mem_map.1 hr
  exact ⟨hS.grid t ht, by rw [hS.width t ht, hSn]⟩

/-- a row outside the modulated Lagrangian has coefficient 0 in `t` and in `f'·t` -/
theorem rs_S_outside (f : SigQ) (hf : Wf f) (ell : Nat) (ms : Option (List Exp))
    (hms : ∀ s, ms = some s → ∀ r ∈ s, r.length = f.n) (g : Nat) (a : Exp)
    (ha : a ∉ keys (rsS f ell ms g).terms) :
    coeff (rsT f ell ms g).terms a = 0 ∧ coeff (prodTerms (rsF f).terms (rsT f ell ms g).terms) a = 0 := by
  have h0 := rs_S_coeff f hf ell ms hms g (fun _ => 0) a
  have h1 := rs_S_coeff f hf ell ms hms g (fun _ => 1) a
  rw [coeff_eq_zero_of_not_mem (by rw [keys_mapT]; exact ha)] at h0 h1
  simp only [zero_mul, sub_zero, one_mul] at h0 h1
  refine ⟨?_, h0.symm⟩
  rw [← h0] at h1
  simpa using h1.symm

theorem rs_supp_T (f : SigQ) (hf : Wf f) (ell : Nat) (ms : Option (List Exp))
    (hms : ∀ s, ms = some s → ∀ r ∈ s, r.length = f.n) (g : Nat) :
    ∀ u ∈ (rsT f ell ms g).terms, u.2 ≠ 0 → u.1 ∈ keys (rsS f ell ms g).terms := by
  intro u hu hne
  by_contra hnot
  have h := (rs_S_outside f hf ell ms hms g u.1 hnot).1
  rw [coeff_of_nodup_mem (rs_T_wf f hf ell ms hms g).nodup (c := u.2) hu] at h
  exact hne h

theorem rs_supp_fmod (f : SigQ) (hf : Wf f) (ell : Nat) (ms : Option (List Exp))
    (hms : ∀ s, ms = some s → ∀ r ∈ s, r.length = f.n) (g : Nat) :
    ∀ u ∈ (mulQ (rsF f) (rsT f ell ms g)).terms, u.2 ≠ 0 → u.1 ∈ keys (rsS f ell ms g).terms := by
  intro u hu hne
  by_contra hnot
  have h := (rs_S_outside f hf ell ms hms g u.1 hnot).2
  obtain ⟨hw, _, hc⟩ := rs_fmod_spec f hf ell ms hms g
  rw [← hc, coeff_of_nodup_mem hw.nodup (c := u.2) hu] at h
  exact hne h

/-! ### the vectors `a` and `obj` -/

theorem rs_a_eq (f : SigQ) (hf : Wf f) (ell : Nat) (ms : Option (List Exp))
    (hms : ∀ s, ms = some s → ∀ r ∈ s, r.length = f.n) (g : Nat) :
    (sigDual f ell ms g).a = (keys (rsS f ell ms g).terms).map (coeff (rsT f ell ms g).terms) := by
  obtain ⟨hr, hnd⟩ := rs_S_rows f hf ell ms hms g
  rw [rs_sigDual_eq, rs_tol8]
  exact sc_rcv_eq_map f.n _ (sc_wf_rows (rs_T_wf f hf ell ms hms g) (rs_T_n f hf ell ms hms g))
    (rs_T_wf f hf ell ms hms g).nodup _ hr hnd

theorem rs_obj_eq (f : SigQ) (hf : Wf f) (ell : Nat) (ms : Option (List Exp))
    (hms : ∀ s, ms = some s → ∀ r ∈ s, r.length = f.n) (g : Nat) :
    (sigDual f ell ms g).obj =
      (keys (rsS f ell ms g).terms).map (coeff (prodTerms (rsF f).terms (rsT f ell ms g).terms)) := by
  obtain ⟨hr, hnd⟩ := rs_S_rows f hf ell ms hms g
  obtain ⟨hw, hn, hc⟩ := rs_fmod_spec f hf ell ms hms g
  rw [rs_sigDual_eq, rs_tol8]
  show relativeCoeffVector scTol (mulQ (rsF f) (rsT f ell ms g)).terms (keys (rsS f ell ms g).terms) = _
  rw [sc_rcv_eq_map f.n _ (sc_wf_rows hw hn) hw.nodup _ hr hnd]
  apply List.map_congr_left
  intro a _
  exact hc a

/-! ### the coefficient vector of the primal constraint -/

theorem rs_zip_keys {C D : Type} (φ : C → D) (ts : List (Exp × C)) :
    (keys ts).zip ((ts.map (·.2)).map φ) = mapT φ ts := by
  induction ts with
  | nil => rfl
  | cons t ts ih =>
    simp only [keys, List.map_cons, List.zip_cons_cons, mapT_cons] at ih ⊢
    rw [ih]

theorem rs_c_value (f : SigQ) (hf : Wf f) (ell : Nat) (ms : Option (List Exp))
    (hms : ∀ s, ms = some s → ∀ r ∈ s, r.length = f.n) (g : Nat) (σ : Nat → Rat) (j : Nat)
    (hj : j < (rsS f ell ms g).terms.length) :
    Lin.value σ (((rsS f ell ms g).terms.map (·.2)).getD j 0) =
      coeff (mapT (Lin.value σ) (rsS f ell ms g).terms) ((keys (rsS f ell ms g).terms).getD j []) := by
  obtain ⟨_, hnd⟩ := rs_S_rows f hf ell ms hms g
  have hj' : j < (mapT (Lin.value σ) (rsS f ell ms g).terms).length := by simpa [mapT] using hj
  have h := sc_coeff_getElem (mapT (Lin.value σ) (rsS f ell ms g).terms)
    (by rw [keys_mapT]; exact hnd) j hj'
  rw [sc_getD_lt _ _ _ (by simpa using hj), sc_getD_lt _ _ _ (by simpa [keys] using hj)]
  simp only [mapT, keys, List.getElem_map] at h ⊢
  exact h.symm

/-- row by row: the primal coefficient is `obj_j − γ·a_j` -/
theorem rs_primal_dual (f : SigQ) (hf : Wf f) (ell : Nat) (ms : Option (List Exp))
    (hms : ∀ s, ms = some s → ∀ r ∈ s, r.length = f.n) (g : Nat) (σ : Nat → Rat) (j : Nat)
    (hj : j < (rsS f ell ms g).terms.length) :
    Lin.value σ (((rsS f ell ms g).terms.map (·.2)).getD j 0) =
      (sigDual f ell ms g).obj.getD j 0 - σ g * (sigDual f ell ms g).a.getD j 0 := by
  have hk : j < (keys (rsS f ell ms g).terms).length := by simpa [keys] using hj
  rw [rs_c_value f hf ell ms hms g σ j hj, rs_S_coeff f hf ell ms hms g σ, rs_a_eq f hf ell ms hms g,
    rs_obj_eq f hf ell ms hms g, sc_getD_lt _ _ _ hk, sc_getD_lt _ _ _ (by simpa using hk),
    sc_getD_lt _ _ _ (by simpa using hk)]
  simp only [List.getElem_map]

/-! ### list algebra for weak duality -/

theorem rs_weak_alg (σ : Nat → Rat) (γ : Rat) (v : List ℝ) :
    ∀ (cs : List Lin) (as os : List Rat), cs.length = v.length → as.length = v.length →
      os.length = v.length →
      (∀ j < v.length, Lin.value σ (cs.getD j 0) = os.getD j 0 - γ * as.getD j 0) →
      (List.zipWith (fun (c : Lin) (vj : ℝ) => (Lin.value σ c : ℝ) * vj) cs v).sum =
        (List.zipWith (fun (o : Rat) (vj : ℝ) => (o : ℝ) * vj) os v).sum -
          (γ : ℝ) * (List.zipWith (fun (a : Rat) (vj : ℝ) => (a : ℝ) * vj) as v).sum := by
  induction v with
  | nil => intro cs as os _ _ _ _; simp
  | cons y v ih =>
    intro cs as os hc ha ho h
    cases cs with
    | nil => simp at hc
    | cons c cs =>
      cases as with
      | nil => simp at ha
      | cons a as =>
        cases os with
        | nil => simp at ho
        | cons o os =>
          have h0 := h 0 (by simp)
          simp only [List.getD_cons_zero] at h0
          have ih' := ih cs as os (by simpa using hc) (by simpa using ha) (by simpa using ho)
            (fun j hj => by simpa using h (j + 1) (by simpa using hj))
          simp only [List.zipWith_cons_cons, List.sum_cons]
          rw [ih', h0]
          push_cast
          ring

end Sageopt.RelaxSig
