/-
Helper lemmas for C04, part 2: `mulQ`, folds of `mulQ`, and the members of `qFold`.
-/
import SageoptModel.Lemmas.LagrBasic

namespace Sageopt.Relax
open Sageopt Sageopt.Sig Sageopt.Props.C13

/-! ### mulQ -/

theorem lg_mulQ_n (f g : SigQ) : (mulQ f g).n = f.n := by
  unfold mulQ
  rw [withoutZeros_n, product_n]

theorem lg_mulQ_wf (f g : SigQ) (hf : Wf f) (hg : Wf g) (hn : f.n = g.n) : Wf (mulQ f g) :=
  withoutZeros_wf' isZeroQ _ (product_wf f g hf hg hn)

theorem lg_mulQ_eval (n : Nat) (χ : Exp → Rat) (hχ : IsGridChar n χ) (f g : SigQ) (hf : Wf f) (hg : Wf g)
    (hfn : f.n = n) (hgn : g.n = n) :
    eval χ (mulQ f g).terms = eval χ f.terms * eval χ g.terms := by
  unfold mulQ
  rw [withoutZeros_eval isZeroQ isZeroQ_iff _ (product_wf f g hf hg (by rw [hfn, hgn])).grid,
    product_eval_grid n χ hχ f g hf hg hfn hgn]

/-- a left fold of `mulQ` evaluates to the product of the evaluations -/
theorem lg_foldl_mulQ (n : Nat) (χ : Exp → Rat) (hχ : IsGridChar n χ) (gs : List SigQ)
    (hgs : ∀ g ∈ gs, Wf g ∧ g.n = n) (g : SigQ) (hg : Wf g) (hgn : g.n = n) :
    Wf (gs.foldl mulQ g) ∧ (gs.foldl mulQ g).n = n ∧
    eval χ (gs.foldl mulQ g).terms = eval χ g.terms * (gs.map fun g => eval χ g.terms).prod := by
  induction gs generalizing g with
  | nil => simp [hg, hgn]
  | cons x gs ih =>
    obtain ⟨hx, hxn⟩ := hgs x (by simp)
    rw [List.foldl_cons]
    obtain ⟨h1, h2, h3⟩ := ih (fun g hg => hgs g (List.mem_cons_of_mem _ hg)) (mulQ g x)
      (lg_mulQ_wf g x hg hx (by rw [hgn, hxn])) (by rw [lg_mulQ_n, hgn])
    refine ⟨h1, h2, ?_⟩
    rw [h3, lg_mulQ_eval n χ hχ g x hg hx hgn hxn, List.map_cons, List.prod_cons]
    ring

/-! ### qFold: the dedup pass only keeps members of its input -/

theorem lg_dedup_subset (l : List SigQ) (acc : List SigQ) :
    ∀ x ∈ l.foldl (fun acc g => if acc.any (sameSig g) then acc else acc ++ [g]) acc, x ∈ acc ∨ x ∈ l := by
  induction l generalizing acc with
  | nil => intro x hx; exact Or.inl hx
  | cons g l ih =>
    intro x hx
    rw [List.foldl_cons] at hx
    rcases ih _ x hx with h | h
    · split at h
      · exact Or.inl h
      · rcases List.mem_append.1 h with h | h
        · exact Or.inl h
        · right
          rw [List.mem_singleton] at h
          rw [h]; simp
    · exact Or.inr (List.mem_cons_of_mem _ h)

/-- every member of `qFold n cons q` is a member of `cons` (q = 1 / no constraints) or a left fold of
    `mulQ` over an enumerated multiset of size ≤ q -/
theorem lg_mem_qFold (n : Nat) (cons : List SigQ) (q : Nat) (hq : 1 ≤ q) :
    ∀ pr ∈ qFold n cons q, ∃ g gs, (g :: gs).length ≤ q ∧ (∀ x ∈ g :: gs, x ∈ cons) ∧ pr = gs.foldl mulQ g := by
  intro pr hpr
  unfold qFold at hpr
  split at hpr
  · exact ⟨pr, [], by simpa using hq, by simpa using hpr, rfl⟩
  · simp only [] at hpr
    rcases lg_dedup_subset _ [] pr hpr with h | h
    · simp at h
    · obtain ⟨qq, hqq, h⟩ := List.mem_flatMap.1 h
      obtain ⟨comb, hcomb, h⟩ := List.mem_filterMap.1 h
      obtain ⟨hlen, hmem⟩ := lg_combsWithRep_spec _ _ comb hcomb
      cases comb with
      | nil => simp at h
      | cons g gs =>
        simp only [] at h
        split at h
        · simp only [Option.some.injEq] at h
          refine ⟨g, gs, ?_, hmem, h.symm⟩
          rw [hlen]
          exact List.mem_range.1 hqq
        · simp at h

end Sageopt.Relax
