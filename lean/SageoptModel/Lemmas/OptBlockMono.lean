/-
C19 helper lemmas, primal cone: the block of one index `i` stays feasible when a `c^{(i')}` variable is raised
(`sum_relent` is monotone in the cover entries and in the own entry; no other row of the block mentions them).
-/
import SageoptModel.Lemmas.OptAge
import SageoptModel.Lemmas.OptCone

namespace Sageopt.Sage
open Sageopt Sageopt.Compile Sageopt.Solvers Sageopt.Analysis

/-! ### `sum_relent` -/

theorem opt_crowVal_arg_false (σ : Nat → ℝ) (x : AffE) : crowVal σ ⟨x.co, x.off, false⟩ = argVal σ x := by
  rw [crowVal_false]; rfl

theorem opt_crowVal_arg_true (σ : Nat → ℝ) (x : AffE) :
    crowVal σ ⟨x.co, x.off, true⟩ = Real.exp 1 * argVal σ x := by
  rw [crowVal_true]; rfl

theorem opt_crowVal_nonnegRow (σ : Nat → ℝ) (x : AffE) (dummy : Nat) :
    crowVal σ (nonnegRow x dummy) = argVal σ x := by
  unfold nonnegRow
  split
  · rename_i h
    have : x.co = [] := by simpa using h
    rw [crowVal_false]; simp [argVal, this]
  · exact opt_crowVal_arg_false σ x

theorem opt_relent_blocks (Q : CType → List ℝ → Prop) (σ : Nat → ℝ) (x y : List AffE) (epi : List Nat)
    (ks : List Nat) :
    FeasBlocks (conP Q) (List.replicate ks.length ⟨.exp, 3⟩)
      ((ks.flatMap fun k =>
        [ (⟨[(epi.getD k 0, -1)], 0, false⟩ : CRow),
          ⟨(y.getD k (constE 0)).co, (y.getD k (constE 0)).off, true⟩,
          ⟨(x.getD k (constE 0)).co, (x.getD k (constE 0)).off, false⟩ ]).map (crowVal σ)) ↔
      ∀ k ∈ ks, InExpCone (-(σ (epi.getD k 0))) (Real.exp 1 * argVal σ (y.getD k (constE 0)))
        (argVal σ (x.getD k (constE 0))) := by
  induction ks with
  | nil => simp
  | cons k ks ih =>
    rw [List.length_cons, List.replicate_succ, List.flatMap_cons, List.map_append, feasBlocks_cons]
    simp only [List.map_cons, List.map_nil]
    have take3 : ∀ (a b c : ℝ) (l : List ℝ), List.take 3 ([a, b, c] ++ l) = [a, b, c] := fun _ _ _ _ => rfl
    have drop3 : ∀ (a b c : ℝ) (l : List ℝ), List.drop 3 ([a, b, c] ++ l) = l := fun _ _ _ _ => rfl
    show conP Q CType.exp (List.take 3 _) ∧ FeasBlocks (conP Q) _ (List.drop 3 _) ↔ _
    rw [take3, drop3]
    rw [ih, List.forall_mem_cons, opt_crowVal_arg_false, opt_crowVal_arg_true, crowVal_false]
    simp only [conP, realP, expR, List.map_cons, List.map_nil, List.sum_cons, List.sum_nil]
    have : ((-1 : Rat) : ℝ) * σ (epi.getD k 0) + 0 + ((0 : Rat) : ℝ) = -(σ (epi.getD k 0)) := by
      push_cast; ring
    rw [this]

theorem opt_sumRelent_iff (Q : CType → List ℝ → Prop) (σ : Nat → ℝ) (x y : List AffE) (z : AffE) (epi : List Nat) :
    FeasBlocks (conP Q) (sumRelent x y z epi).2 ((sumRelent x y z epi).1.map (crowVal σ)) ↔
      (0 ≤ -(argVal σ z) - (epi.map σ).sum) ∧
      ∀ k, k < x.length →
        InExpCone (-(σ (epi.getD k 0))) (Real.exp 1 * argVal σ (y.getD k (constE 0))) (argVal σ (x.getD k (constE 0))) := by
  unfold sumRelent
  simp only [List.map_cons]
  rw [feasBlocks_cons]
  have hl := opt_relent_blocks Q σ x y epi (List.range x.length)
  rw [List.length_range] at hl
  simp only [List.take_succ_cons, List.take_zero, List.drop_succ_cons, List.drop_zero]
  rw [hl]
  simp only [conP, realP, List.mem_singleton, forall_eq, List.mem_range]
  rw [crowVal_false, List.map_append, List.sum_append, sum_negated, opt_sum_neg_one]
  have : -(z.co.map fun p => ((p.2 : Rat) : ℝ) * σ p.1).sum + -(epi.map σ).sum + ((-z.off : Rat) : ℝ)
      = -(argVal σ z) - (epi.map σ).sum := by
    unfold argVal; push_cast; ring
  rw [this]

/-! ### ids used by the pieces of a block -/

theorem opt_nuExprs_ids (s : Settings) (p : PIds) : ∀ x ∈ nuExprs s p, ∀ id ∈ x.co.map (·.1), id ∈ p.nu := by
  intro x hx id hid
  unfold nuExprs at hx
  split at hx
  · rw [List.mem_map] at hx
    obtain ⟨row, _, rfl⟩ := hx
    simp only at hid
    rw [List.mem_map] at hid
    obtain ⟨e, he, rfl⟩ := hid
    rw [List.mem_filterMap] at he
    obtain ⟨⟨q, id'⟩, hz, hsome⟩ := he
    simp only at hsome
    split at hsome
    · cases hsome
    · cases hsome
      exact (List.of_mem_zip hz).2
  · rw [List.mem_map] at hx
    obtain ⟨id', hid', rfl⟩ := hx
    simp [varE] at hid
    rw [hid]; exact hid'

theorem opt_getD_mem_or {α : Type} (l : List α) (k : Nat) (d : α) : l.getD k d ∈ l ∨ l.getD k d = d := by
  by_cases hk : k < l.length
  · left; simp [List.getD_eq_getElem?_getD, hk]
  · right; simp [List.getD_eq_getElem?_getD, not_lt.1 hk]

theorem opt_bal_ids (inp : PrimalIn) (p : PIds) :
    ∀ r ∈ (opt_bal inp p).1, ∀ e ∈ r.entries, e.1 ∈ p.nu ∨ e.1 ∈ p.eta := by
  intro r hr e he
  unfold opt_bal at hr
  cases hX : inp.X with
  | none =>
    rw [hX] at hr
    simp only at hr
    split at hr
    · cases hr
    · unfold matvecRows at hr
      rw [List.mem_map] at hr
      obtain ⟨row, _, rfl⟩ := hr
      simp only at he
      rw [List.mem_map] at he
      obtain ⟨⟨q, id⟩, hz, rfl⟩ := he
      exact Or.inl (List.of_mem_zip hz).2
  | some X =>
    rw [hX] at hr
    simp only at hr
    rw [List.mem_map] at hr
    obtain ⟨t, _, rfl⟩ := hr
    simp only at he
    rcases List.mem_append.1 he with he | he
    · rw [List.mem_map] at he
      obtain ⟨⟨q, id⟩, hz, rfl⟩ := he
      exact Or.inl (List.of_mem_zip hz).2
    · rw [List.mem_map] at he
      obtain ⟨⟨q, id⟩, hz, rfl⟩ := he
      exact Or.inr (List.of_mem_zip hz).2

theorem opt_crowVal_eq_of_entries (σ σ' : Nat → ℝ) (r : CRow) (h : ∀ e ∈ r.entries, σ' e.1 = σ e.1) :
    crowVal σ' r = crowVal σ r := by
  unfold crowVal
  congr 3
  apply List.map_congr_left
  intro e he
  rw [h e he]

theorem opt_mem_trueIdx_lt (cov : List Bool) (j : Nat) (h : j ∈ trueIdx cov) : j < cov.length := by
  unfold trueIdx at h
  rw [List.mem_map] at h
  obtain ⟨⟨b, k⟩, hk, rfl⟩ := h
  rw [List.mem_filter] at hk
  have := List.snd_lt_of_mem_zipIdx hk.1
  simpa using this

/-! ### freshness of one id, monotonicity of a block -/

/-- `id` is an id of some `c^{(i)}` Variable: it occurs neither in `c` nor among the other auxiliary ids -/
structure opt_FreshAt (inp : PrimalIn) (id : Nat) : Prop where
  c : ∀ cj ∈ inp.c, id ∉ cj.co.map (·.1)
  aux : ∀ p ∈ inp.ids, id ∉ p.nu ∧ id ∉ p.epi ∧ id ∉ p.eta

/-- the coefficient of a fresh id in an entry of an AGE vector is `0` or `1` -/
theorem opt_age_coef_nonneg (inp : PrimalIn) (hclen : inp.c.length = inp.alpha.length) (p : PIds) (id : Nat)
    (hid : opt_FreshAt inp id) (j : Nat) (hj : j < inp.alpha.length) :
    0 ≤ opt_coefAt ((ageVector inp.alpha.length inp.c inp.ech p).getD j (constE 0)).co id := by
  rcases opt_age_entry inp.alpha.length inp.c inp.ech p j hj with h | ⟨hji, _, h⟩ | ⟨id', h, _⟩
  · rw [h, opt_coefAt_constE]
  · rw [h, opt_coefAt_of_not_mem]
    apply hid.c
    have : p.i < inp.c.length := by rw [hclen, ← hji]; exact hj
    simp [List.getD_eq_getElem?_getD, this]
  · rw [h, opt_coefAt_varE]
    split <;> norm_num

theorem opt_block_mono (Q : CType → List ℝ → Prop) (inp : PrimalIn) (hwf : WfPrimal inp)
    (p : PIds) (hp : p ∈ inp.ids) (q : List CRow × List Cone) (h : opt_pPerI inp p = .ok q)
    (id : Nat) (hid : opt_FreshAt inp id) (s : ℝ) (hs : 0 ≤ s) (σ : Nat → ℝ)
    (hσ : FeasBlocks (conP Q) q.2 (q.1.map (crowVal σ))) :
    FeasBlocks (conP Q) q.2 (q.1.map (crowVal (opt_upd σ id s))) := by
  obtain ⟨hcovlen, hpi, _⟩ := hwf.cover p hp
  obtain ⟨hidnu, hidepi, hideta⟩ := hid.aux p hp
  have hself : 0 ≤ opt_coefAt (opt_selfE inp p).co id :=
    opt_age_coef_nonneg inp hwf.clen p id hid p.i hpi
  by_cases hnu : p.nu = []
  · rw [opt_pPerI_nil inp p hnu] at h
    cases h
    simp only [List.map_cons, List.map_nil] at hσ ⊢
    rw [feasBlocks_single (conP Q) .pos 1 _ rfl] at hσ ⊢
    have h0 : 0 ≤ crowVal σ (nonnegRow (opt_selfE inp p) inp.dummy) := hσ _ (List.mem_singleton.2 rfl)
    intro a ha
    rw [List.mem_singleton.1 ha, opt_crowVal_nonnegRow, opt_argVal_upd]
    rw [opt_crowVal_nonnegRow] at h0
    have := mul_nonneg hs hself
    linarith
  · obtain ⟨r3, k3, h3, rfl⟩ := opt_pPerI_cons inp p hnu q h
    obtain ⟨hxlen, hepilen, _⟩ := (hwf.sizes p hp).1 hnu
    simp only [List.map_append] at hσ ⊢
    rw [feasBlocks_append _ _ _ _ _ (by rw [List.length_append, List.length_map, List.length_map, totalLen_append,
      opt_rel_length, opt_bal_length]),
      feasBlocks_append _ _ _ _ _ (by rw [List.length_map, opt_rel_length])] at hσ ⊢
    obtain ⟨⟨hrel, hbal⟩, hdual⟩ := hσ
    refine ⟨⟨?_, ?_⟩, ?_⟩
    · -- relative entropy
      unfold opt_rel at hrel ⊢
      rw [opt_sumRelent_iff] at hrel ⊢
      obtain ⟨h0, hk⟩ := hrel
      refine ⟨?_, fun k hk' => ?_⟩
      · have hz : opt_coefAt (opt_relZ inp p).co id ≤ 0 := by
          unfold opt_relZ
          cases hX : inp.X with
          | none =>
            simp only
            rw [opt_coefAt_negE]; linarith
          | some X =>
            simp only
            have hz2 : opt_coefAt ((p.eta.zip X.b).filterMap fun (id, q) => if q == 0 then none else some (id, q)) id
                = 0 := by
              apply opt_coefAt_of_not_mem
              intro hmem
              rw [List.mem_map] at hmem
              obtain ⟨e, he, rfl⟩ := hmem
              rw [List.mem_filterMap] at he
              obtain ⟨⟨id', b⟩, hz, hsome⟩ := he
              simp only at hsome
              split at hsome
              · cases hsome
              · cases hsome
                exact hideta (List.of_mem_zip hz).1
            rw [opt_coefAt_append, opt_coefAt_negE, hz2]
            linarith
        have hepi : p.epi.map (opt_upd σ id s) = p.epi.map σ := by
          apply List.map_congr_left
          intro e he
          exact opt_upd_ne σ id s e (fun heq => hidepi (heq ▸ he))
        rw [hepi, opt_argVal_upd]
        have := mul_nonneg hs (neg_nonneg.2 hz)
        nlinarith
      · have hke : k < p.epi.length := by rw [hepilen, ← hxlen]; exact hk'
        have hepik : opt_upd σ id s (p.epi.getD k 0) = σ (p.epi.getD k 0) := by
          apply opt_upd_ne
          intro heq
          apply hidepi
          rw [← heq]
          simp [List.getD_eq_getElem?_getD, hke]
        have hx : argVal (opt_upd σ id s) ((nuExprs inp.settings p).getD k (constE 0))
            = argVal σ ((nuExprs inp.settings p).getD k (constE 0)) := by
          apply opt_argVal_upd_of_not_mem
          intro hmem
          rcases opt_getD_mem_or (nuExprs inp.settings p) k (constE 0) with hm | hm
          · exact hidnu (opt_nuExprs_ids inp.settings p _ hm id hmem)
          · rw [hm] at hmem; simp [constE] at hmem
        have hy : argVal σ ((opt_relY inp p).getD k (constE 0))
            ≤ argVal (opt_upd σ id s) ((opt_relY inp p).getD k (constE 0)) := by
          rw [opt_argVal_upd]
          have hc : 0 ≤ opt_coefAt ((opt_relY inp p).getD k (constE 0)).co id := by
            unfold opt_relY
            by_cases hkc : k < (trueIdx (coverOf inp.ech p.i)).length
            · have : ((trueIdx (coverOf inp.ech p.i)).map fun j =>
                  (ageVector inp.alpha.length inp.c inp.ech p).getD j (constE 0)).getD k (constE 0)
                  = (ageVector inp.alpha.length inp.c inp.ech p).getD ((trueIdx (coverOf inp.ech p.i))[k]) (constE 0) := by
                simp [List.getD_eq_getElem?_getD, hkc]
              rw [this]
              apply opt_age_coef_nonneg inp hwf.clen p id hid
              rw [← hcovlen]
              exact opt_mem_trueIdx_lt _ _ (List.getElem_mem hkc)
            · have : ((trueIdx (coverOf inp.ech p.i)).map fun j =>
                  (ageVector inp.alpha.length inp.c inp.ech p).getD j (constE 0)).getD k (constE 0) = constE 0 := by
                simp [List.getD_eq_getElem?_getD, not_lt.1 hkc]
              rw [this, opt_coefAt_constE]
          have := mul_nonneg hs hc
          linarith
        rw [hepik, hx]
        exact opt_expcone_mono_second _ _ _ _ (hk k hk') (mul_le_mul_of_nonneg_left hy (Real.exp_pos 1).le)
    · -- balance rows
      have : (opt_bal inp p).1.map (crowVal (opt_upd σ id s)) = (opt_bal inp p).1.map (crowVal σ) := by
        apply List.map_congr_left
        intro r hr
        apply opt_crowVal_eq_of_entries
        intro e he
        apply opt_upd_ne
        intro heq
        rcases opt_bal_ids inp p r hr e he with h1 | h1
        · exact hidnu (heq ▸ h1)
        · exact hideta (heq ▸ h1)
      rw [this]; exact hbal
    · -- `eta ∈ K*`
      cases hX : inp.X with
      | none =>
        rw [hX] at h3
        obtain ⟨rfl, rfl⟩ := h3
        trivial
      | some X =>
        rw [hX] at h3
        obtain ⟨⟨_, _, _, hbK, hKty, _⟩, heta⟩ := hwf.dom X hX
        have hlen : (p.eta.map fun id => (⟨[(.var id, 1)], 0⟩ : SRow)).length = (X.K.map (·.len)).sum := by
          rw [List.length_map, heta p hp hnu, hbK]
        rw [(dual_rows_sem Q σ inp.dummy _ X.K hKty hlen r3 k3 h3).2] at hdual
        rw [(dual_rows_sem Q (opt_upd σ id s) inp.dummy _ X.K hKty hlen r3 k3 h3).2]
        have : (p.eta.map fun id => (⟨[(.var id, 1)], 0⟩ : SRow)).map (affVal (opt_upd σ id s))
            = (p.eta.map fun id => (⟨[(.var id, 1)], 0⟩ : SRow)).map (affVal σ) := by
          rw [List.map_map, List.map_map]
          apply List.map_congr_left
          intro id' hid'
          have hne : id' ≠ id := fun heq => hideta (heq ▸ hid')
          simp [affVal, rowValWith, opt_upd_ne σ id s id' hne]
        rw [this]; exact hdual

end Sageopt.Sage
