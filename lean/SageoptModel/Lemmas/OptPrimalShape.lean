/-
C19 helper lemmas, primal cone: the shape of `primalRows` — the per-index block as a named function and the
decomposition of a successful run into `blocks ++ sumToC`.
-/
import SageoptModel.Lemmas.SageSem
import SageoptModel.Lemmas.CompileBasic

namespace Sageopt.Sage
open Sageopt Sageopt.Compile Sageopt.Solvers Sageopt.Analysis

/-- the rows of one index `p.i` (everything except `_age_vectors_sum_to_c`) -/
def opt_pPerI (inp : PrimalIn) (p : PIds) : M (List CRow × List Cone) := do
  let m := inp.alpha.length
  let N := match inp.X with | some X => X.N | none => inp.n
  let lifted := inp.alpha.map (padTo N)
  let age := ageVector m inp.c inp.ech p
  let cov := trueIdx (coverOf inp.ech p.i)
  if p.nu.isEmpty then
    pure ([nonnegRow (age.getD p.i (constE 0)) inp.dummy], [(⟨.pos, 1⟩ : Cone)])
  else
    let x := nuExprs inp.settings p
    let y := cov.map fun j => age.getD j (constE 0)
    let selfE := age.getD p.i (constE 0)
    match inp.X with
    | none =>
      let (r1, k1) := sumRelent x y (negE selfE) p.epi
      if inp.settings.kernelBasis then pure (r1, k1)
      else
        let mat := transposeQ inp.n (cov.map fun j => subRow (inp.alpha.getD j []) (inp.alpha.getD p.i []))
        pure (r1 ++ matvecRows mat p.nu, k1 ++ [⟨.zero, inp.n⟩])
    | some X =>
      let etaB : List (Nat × Rat) := (p.eta.zip X.b).filterMap fun (id, q) => if q == 0 then none else some (id, q)
      let z : AffE := ⟨(negE selfE).co ++ etaB, (negE selfE).off⟩
      let (r1, k1) := sumRelent x y z p.epi
      let mat1 := transposeQ N (cov.map fun j => subRow (lifted.getD j []) (lifted.getD p.i []))
      let mat2 := (transposeQ N X.A).map fun r => r.map (- ·)
      let eqRows := (List.range N).map fun t =>
        (⟨((mat1.getD t []).zip p.nu).map (fun (q, id) => (id, q)) ++ ((mat2.getD t []).zip p.eta).map (fun (q, id) => (id, q)),
          0, false⟩ : CRow)
      let (r3, k3) ← conRows inp.dummy (.dual (p.eta.map fun id => ⟨[(.var id, 1)], 0⟩) X.K)
      pure (r1 ++ eqRows ++ r3, k1 ++ [⟨.zero, N⟩] ++ k3)

/-- the aligned AGE vectors -/
def opt_ages (inp : PrimalIn) : List (List AffE) := inp.ids.map (ageVector inp.alpha.length inp.c inp.ech)

/-- the `_age_vectors_sum_to_c` rows -/
def opt_sumRows (inp : PrimalIn) : List CRow × List Cone :=
  sumToC inp.alpha.length inp.c (opt_ages inp) inp.settings.sumAgeForceEquality inp.dummy inp.ech

theorem opt_primalRows_eq (inp : PrimalIn) :
    primalRows inp =
      (if (inp.ids.filter fun p => !p.nu.isEmpty).isEmpty then
        pure (inp.c.map (nonnegRow · inp.dummy), [⟨.pos, inp.c.length⟩])
      else do
        let perI ← inp.ids.mapM (opt_pPerI inp)
        pure (perI.flatMap (·.1) ++ (opt_sumRows inp).1, perI.flatMap (·.2) ++ (opt_sumRows inp).2)) := by
  unfold primalRows
  dsimp only
  split
  · rfl
  · rfl

theorem opt_primalRows_small (inp : PrimalIn) (h0 : (inp.ids.filter fun p => !p.nu.isEmpty).isEmpty = true)
    (rows : List CRow) (K : List Cone) (h : primalRows inp = .ok (rows, K)) :
    rows = inp.c.map (nonnegRow · inp.dummy) ∧ K = [⟨.pos, inp.c.length⟩] := by
  rw [opt_primalRows_eq, if_pos h0] at h
  simp only [pure, Except.pure, Except.ok.injEq, Prod.mk.injEq] at h
  exact ⟨h.1.symm, h.2.symm⟩

theorem opt_primalRows_big (inp : PrimalIn) (h0 : ¬ (inp.ids.filter fun p => !p.nu.isEmpty).isEmpty = true)
    (rows : List CRow) (K : List Cone) (h : primalRows inp = .ok (rows, K)) :
    ∃ perI, inp.ids.mapM (opt_pPerI inp) = .ok perI ∧
      rows = perI.flatMap (·.1) ++ (opt_sumRows inp).1 ∧ K = perI.flatMap (·.2) ++ (opt_sumRows inp).2 := by
  rw [opt_primalRows_eq, if_neg h0] at h
  cases hp : inp.ids.mapM (opt_pPerI inp) with
  | error e => rw [hp] at h; cases h
  | ok perI =>
    rw [hp] at h
    simp only [bind, Except.bind, pure, Except.pure, Except.ok.injEq, Prod.mk.injEq] at h
    exact ⟨perI, rfl, h.1.symm, h.2.symm⟩

end Sageopt.Sage
