/-
Helper lemmas for C05 part B (the polynomial Lagrangians as functions on all of ℝⁿ), part 1:
rows of nonnegative integers, the character `a ↦ x^a` (`monoR`) of such rows at an arbitrary real point,
and `polyR` as an instance of `eval` so that the coefficient calculus of `Lemmas/SigCons.lean`,
`Lemmas/SigMapHom.lean` and `Lemmas/RelaxSigCalc.lean` applies.
-/
import SageoptModel.Lemmas.PolySem
import SageoptModel.Lemmas.RelaxSigCalc

namespace Sageopt.Poly
open Sageopt Sageopt.Sig Sageopt.Sig.Hom Sageopt.Relax Sageopt.RelaxSig

/-! ### entries: nonnegative integers -/

theorem pb_int_of_den {q : Rat} (h : q.den = 1) : ((q.num : Int) : Rat) = q :=
  Rat.coe_int_num_of_den_eq_one h

theorem pb_round7_of_den {q : Rat} (h : q.den = 1) : round7 q = q := by
  rw [round7_fix_iff]
  refine ⟨q.num * (10 ^ decimals : Nat), ?_⟩
  rw [Int.cast_mul, pb_int_of_den h, Int.cast_natCast, mul_div_cancel_right₀ _ scale_ne_zero]

theorem pb_den_add {p q : Rat} (hp : p.den = 1) (hq : q.den = 1) : (p + q).den = 1 := by
  rw [← pb_int_of_den hp, ← pb_int_of_den hq, ← Int.cast_add]
  exact Rat.den_intCast _

theorem pb_num_add {p q : Rat} (hp : p.den = 1) (hq : q.den = 1) : (p + q).num = p.num + q.num := by
  conv_lhs => rw [← pb_int_of_den hp, ← pb_int_of_den hq, ← Int.cast_add]
  exact Rat.num_intCast _

theorem pb_den_two_mul {q : Rat} (hq : q.den = 1) : (2 * q).den = 1 := by
  rw [two_mul]; exact pb_den_add hq hq

theorem pb_num_two_mul {q : Rat} (hq : q.den = 1) : (2 * q).num = 2 * q.num := by
  rw [two_mul, pb_num_add hq hq]; ring

theorem pb_toNat_add {p q : Rat} (hp : p.den = 1) (hq : q.den = 1) (hp0 : 0 ≤ p) (hq0 : 0 ≤ q) :
    (p + q).num.toNat = p.num.toNat + q.num.toNat := by
  rw [pb_num_add hp hq, Int.toNat_add (Rat.num_nonneg.2 hp0) (Rat.num_nonneg.2 hq0)]

/-! ### rows -/

theorem pb_isPolyExp_cons (q : Rat) (a : Exp) :
    isPolyExp (q :: a) = true ↔ (q.den = 1 ∧ 0 ≤ q) ∧ isPolyExp a = true := by
  simp [isPolyExp]

theorem pb_isEvenExp_cons (q : Rat) (a : Exp) :
    isEvenExp (q :: a) = true ↔ (q.den = 1 ∧ q.num % 2 = 0) ∧ isEvenExp a = true := by
  simp [isEvenExp]

theorem pb_isPolyExp_mem {a : Exp} (h : isPolyExp a = true) : ∀ q ∈ a, q.den = 1 ∧ 0 ≤ q := by
  intro q hq
  have := List.all_eq_true.1 h q hq
  simpa using this

theorem pb_isPolyExp_onGrid {a : Exp} (h : isPolyExp a = true) : OnGrid a :=
  fun q hq => pb_round7_of_den (pb_isPolyExp_mem h q hq).1

theorem pb_isPolyExp_zeroExp (n : Nat) : isPolyExp (zeroExp n) = true := by
  unfold isPolyExp zeroExp
  rw [List.all_eq_true]
  intro q hq
  rw [(List.mem_replicate.1 hq).2]
  decide

theorem pb_isEvenExp_zeroExp (n : Nat) : isEvenExp (zeroExp n) = true := by
  unfold isEvenExp zeroExp
  rw [List.all_eq_true]
  intro q hq
  rw [(List.mem_replicate.1 hq).2]
  decide

theorem pb_isPolyExp_addExp {a b : Exp} (ha : isPolyExp a = true) (hb : isPolyExp b = true) :
    isPolyExp (addExp a b) = true := by
  induction a generalizing b with
  | nil => simp [addExp, isPolyExp]
  | cons p a ih =>
    cases b with
    | nil => simp [addExp, isPolyExp]
    | cons q b =>
      obtain ⟨⟨hp, hp0⟩, ha'⟩ := (pb_isPolyExp_cons p a).1 ha
      obtain ⟨⟨hq, hq0⟩, hb'⟩ := (pb_isPolyExp_cons q b).1 hb
      have h := ih ha' hb'
      unfold addExp at h ⊢
      rw [List.zipWith_cons_cons, pb_isPolyExp_cons]
      exact ⟨⟨pb_den_add hp hq, add_nonneg hp0 hq0⟩, h⟩

theorem pb_isEvenExp_addExp {a b : Exp} (ha : isEvenExp a = true) (hb : isEvenExp b = true) :
    isEvenExp (addExp a b) = true := by
  induction a generalizing b with
  | nil => simp [addExp, isEvenExp]
  | cons p a ih =>
    cases b with
    | nil => simp [addExp, isEvenExp]
    | cons q b =>
      obtain ⟨⟨hp, hp0⟩, ha'⟩ := (pb_isEvenExp_cons p a).1 ha
      obtain ⟨⟨hq, hq0⟩, hb'⟩ := (pb_isEvenExp_cons q b).1 hb
      have h := ih ha' hb'
      unfold addExp at h ⊢
      rw [List.zipWith_cons_cons, pb_isEvenExp_cons]
      refine ⟨⟨pb_den_add hp hq, ?_⟩, h⟩
      rw [pb_num_add hp hq]
      omega

theorem pb_isPolyExp_double {a : Exp} (ha : isPolyExp a = true) : isPolyExp (a.map (2 * ·)) = true := by
  induction a with
  | nil => rfl
  | cons p a ih =>
    obtain ⟨⟨hp, hp0⟩, ha'⟩ := (pb_isPolyExp_cons p a).1 ha
    rw [List.map_cons, pb_isPolyExp_cons]
    exact ⟨⟨pb_den_two_mul hp, by positivity⟩, ih ha'⟩

theorem pb_isEvenExp_double {a : Exp} (ha : isPolyExp a = true) : isEvenExp (a.map (2 * ·)) = true := by
  induction a with
  | nil => rfl
  | cons p a ih =>
    obtain ⟨⟨hp, _⟩, ha'⟩ := (pb_isPolyExp_cons p a).1 ha
    rw [List.map_cons, pb_isEvenExp_cons]
    refine ⟨⟨pb_den_two_mul hp, ?_⟩, ih ha'⟩
    rw [pb_num_two_mul hp]
    omega

/-- rows of width `n` with nonnegative integer entries -/
def pb_PolyRow (n : Nat) (a : Exp) : Prop := a.length = n ∧ isPolyExp a = true

/-- even rows of width `n` with nonnegative integer entries -/
def pb_EvenRow (n : Nat) (a : Exp) : Prop := a.length = n ∧ isPolyExp a = true ∧ isEvenExp a = true

/-! ### the character `a ↦ x^a` -/

noncomputable section

theorem pb_monoR_nil_left (x : List ℝ) : monoR [] x = 1 := by simp [monoR]

theorem pb_monoR_nil_right (a : Exp) : monoR a [] = 1 := by simp [monoR]

theorem pb_monoR_cons (q : Rat) (a : Exp) (t : ℝ) (x : List ℝ) :
    monoR (q :: a) (t :: x) = t ^ q.num.toNat * monoR a x := by
  simp [monoR]

theorem pb_monoR_zeroExp (n : Nat) (x : List ℝ) : monoR (zeroExp n) x = 1 := by
  induction n generalizing x with
  | zero => exact pb_monoR_nil_left x
  | succ n ih =>
    cases x with
    | nil => exact pb_monoR_nil_right _
    | cons t x =>
      have : zeroExp (n + 1) = (0 : Rat) :: zeroExp n := by simp [zeroExp, List.replicate_succ]
      rw [this, pb_monoR_cons, ih]
      simp

/-- `x^(a+b) = x^a · x^b` for rows of nonnegative integers of the same width, at EVERY real point -/
theorem pb_monoR_addExp (a b : Exp) (x : List ℝ) (hl : a.length = b.length)
    (ha : isPolyExp a = true) (hb : isPolyExp b = true) :
    monoR (addExp a b) x = monoR a x * monoR b x := by
  induction a generalizing b x with
  | nil =>
    cases b with
    | nil => simp [addExp, monoR]
    | cons q b => simp at hl
  | cons p a ih =>
    cases b with
    | nil => simp at hl
    | cons q b =>
      cases x with
      | nil => simp [pb_monoR_nil_right]
      | cons t x =>
        obtain ⟨⟨hp, hp0⟩, ha'⟩ := (pb_isPolyExp_cons p a).1 ha
        obtain ⟨⟨hq, hq0⟩, hb'⟩ := (pb_isPolyExp_cons q b).1 hb
        have h := ih b x (by simpa using hl) ha' hb'
        have e : addExp (p :: a) (q :: b) = (p + q) :: addExp a b := by simp [addExp]
        rw [e, pb_monoR_cons, pb_monoR_cons, pb_monoR_cons, h, pb_toNat_add hp hq hp0 hq0, pow_add]
        ring

theorem pb_monoR_even_nonneg (a : Exp) (x : List ℝ) (ha : isEvenExp a = true) : 0 ≤ monoR a x := by
  induction a generalizing x with
  | nil => rw [pb_monoR_nil_left]; exact zero_le_one
  | cons p a ih =>
    cases x with
    | nil => rw [pb_monoR_nil_right]; exact zero_le_one
    | cons t x =>
      obtain ⟨⟨_, hp2⟩, ha'⟩ := (pb_isEvenExp_cons p a).1 ha
      rw [pb_monoR_cons]
      have he : Even p.num.toNat := by
        rw [Nat.even_iff]
        omega
      exact mul_nonneg (he.pow_nonneg t) (ih x ha')

theorem pb_monoR_even_pos (a : Exp) (x : List ℝ) (ha : isEvenExp a = true) (hx : NoZero x) : 0 < monoR a x := by
  induction a generalizing x with
  | nil => rw [pb_monoR_nil_left]; exact zero_lt_one
  | cons p a ih =>
    cases x with
    | nil => rw [pb_monoR_nil_right]; exact zero_lt_one
    | cons t x =>
      obtain ⟨⟨_, hp2⟩, ha'⟩ := (pb_isEvenExp_cons p a).1 ha
      rw [pb_monoR_cons]
      have he : Even p.num.toNat := by
        rw [Nat.even_iff]
        omega
      exact mul_pos (he.pow_pos (hx t (by simp))) (ih x ha' (fun s hs => hx s (by simp [hs])))

/-- the character of polynomial rows at the real point `x` -/
def pb_chi (x : List ℝ) : Exp → ℝ := fun a => monoR a x

/-! ### `polyR` is `eval` against `pb_chi` of the embedded coefficients -/

theorem pb_polyR_eq (ts : List (Exp × Rat)) (x : List ℝ) :
    polyR ts x = eval (pb_chi x) (mapT rs_cast ts) := by
  unfold polyR eval mapT pb_chi rs_cast
  rw [List.map_map]
  rfl

@[simp] theorem pb_polyR_nil (x : List ℝ) : polyR [] x = 0 := by simp [polyR]

theorem pb_polyR_cons (t : Exp × Rat) (ts : List (Exp × Rat)) (x : List ℝ) :
    polyR (t :: ts) x = (t.2 : ℝ) * monoR t.1 x + polyR ts x := by
  simp [polyR]

theorem pb_polyR_append (ts us : List (Exp × Rat)) (x : List ℝ) :
    polyR (ts ++ us) x = polyR ts x + polyR us x := by
  simp [polyR]

/-- the value at a real point is determined by the (rational) coefficient function -/
theorem pb_polyR_congr {ts us : List (Exp × Rat)} (x : List ℝ) (h : ∀ a, coeff ts a = coeff us a) :
    polyR ts x = polyR us x := by
  rw [pb_polyR_eq, pb_polyR_eq]
  apply eval_congr_coeff
  intro a
  rw [rs_coeff_cast, rs_coeff_cast, h a]

theorem pb_polyR_add_of_coeff {hs ts us : List (Exp × Rat)} (x : List ℝ)
    (h : ∀ a, coeff hs a = coeff ts a + coeff us a) : polyR hs x = polyR ts x + polyR us x := by
  rw [← pb_polyR_append]
  exact pb_polyR_congr x (fun a => by rw [h a, coeff_append])

theorem pb_polyR_neg_of_coeff {ts us : List (Exp × Rat)} (x : List ℝ)
    (h : ∀ a, coeff ts a = - coeff us a) : polyR ts x = - polyR us x := by
  have h0 : polyR ([] : List (Exp × Rat)) x = polyR ts x + polyR us x :=
    pb_polyR_add_of_coeff x (fun a => by rw [h a]; simp [coeff])
  rw [pb_polyR_nil] at h0
  linarith

theorem pb_polyR_flatMap {ι : Type} (x : List ℝ) (l : List ι) (F : ι → List (Exp × Rat)) :
    polyR (l.flatMap F) x = (l.map fun i => polyR (F i) x).sum := by
  induction l with
  | nil => simp
  | cons i l ih => rw [List.flatMap_cons, pb_polyR_append, ih, List.map_cons, List.sum_cons]

theorem pb_polyR_sum_of_coeff {ι : Type} (x : List ℝ) (hs : List (Exp × Rat)) (l : List ι)
    (F : ι → List (Exp × Rat)) (h : ∀ a, coeff hs a = (l.map fun i => coeff (F i) a).sum) :
    polyR hs x = (l.map fun i => polyR (F i) x).sum := by
  rw [← pb_polyR_flatMap]
  apply pb_polyR_congr
  intro a
  rw [h a, coeff_flatMap]

/-! ### products of term lists with polynomial rows -/

theorem pb_polyR_map_mul (n : Nat) (x : List ℝ) (ts : List (Exp × Rat)) (hw : ∀ t ∈ ts, pb_PolyRow n t.1)
    (u : Exp × Rat) (hu : pb_PolyRow n u.1) :
    polyR (ts.map fun t1 => (addExp t1.1 u.1, t1.2 * u.2)) x = polyR ts x * ((u.2 : ℝ) * monoR u.1 x) := by
  induction ts with
  | nil => simp
  | cons t ts ih =>
    obtain ⟨h1, h2⟩ := hw t (by simp)
    rw [List.map_cons, pb_polyR_cons, pb_polyR_cons, ih (fun t ht => hw t (List.mem_cons_of_mem _ ht)),
      pb_monoR_addExp _ _ x (by rw [h1, hu.1]) h2 hu.2]
    push_cast
    ring

/-- `(Σ c_a x^a)(Σ d_b x^b) = Σ c_a d_b x^{a+b}` for polynomial rows, at EVERY real point -/
theorem pb_polyR_prodTerms (n : Nat) (x : List ℝ) (ts us : List (Exp × Rat))
    (hw : ∀ t ∈ ts, pb_PolyRow n t.1) (hu : ∀ t ∈ us, pb_PolyRow n t.1) :
    polyR (prodTerms ts us) x = polyR ts x * polyR us x := by
  unfold prodTerms
  induction us with
  | nil => simp
  | cons u us ih =>
    rw [List.flatMap_cons, pb_polyR_append, pb_polyR_cons,
      ih (fun t ht => hu t (List.mem_cons_of_mem _ ht)),
      pb_polyR_map_mul n x ts hw u (hu u (by simp))]
    ring

end

end Sageopt.Poly
