/-
The semantic ordinary AGE certificate: what the rows `PrimalSageCone._ordsage_conic_form` compiles say about
`(c, ν, epi)` (C01: `sumRelent_iff` + the balance rows), as a predicate on the coefficient vector.  Definitions only.
-/
import SageoptModel.Lemmas.ExpCone

namespace Sageopt.Analysis
open scoped BigOperators

variable {ι : Type} {n : ℕ}

/-- `c` (restricted to `S ∪ {i}`) carries an AGE certificate for the index `i` with cover `S` -/
def OrdAgeCert (α : ι → Fin n → ℝ) (i : ι) (S : Finset ι) (c : ι → ℝ) : Prop :=
  ∃ ν epi : ι → ℝ,
    (∀ j ∈ S, InExpCone (-(epi j)) (Real.exp 1 * c j) (ν j)) ∧
    0 ≤ c i - ∑ j ∈ S, epi j ∧
    ∀ k : Fin n, ∑ j ∈ S, ν j * (α j k - α i k) = 0

end Sageopt.Analysis
