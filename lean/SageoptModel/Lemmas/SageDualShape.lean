/-
C02 helper lemmas, part 2: the shape of `dualRows` — named pieces of the `do` block and the
decomposition of a successful run.
-/
import SageoptModel.Lemmas.SageSem
import SageoptModel.Lemmas.CompileBasic

namespace Sageopt.Sage
open Sageopt Sageopt.Compile Sageopt.Solvers Sageopt.Analysis

/-- one relative-entropy block of the compact form -/
def sd_compactBlock (inp : DualIn) (p : DIds) : Nat × Nat → M (List CRow) := fun (j, k) => do
  let cov := trueIdx (coverOf inp.ech p.i)
  let vi := inp.v.getD p.i (constE 0)
  let mat := cov.map fun j => subRow (inp.alpha.getD p.i []) (inp.alpha.getD j [])
  let muN := p.mu.take inp.n
  let vj := inp.v.getD j (constE 0)
  let z : List (Nat × Rat) := ((mat.getD k []).zip muN).filterMap fun (q, id) => if q == 0 then none else some (id, q)
  if z.isEmpty || vi.co.isEmpty || vj.co.isEmpty then throw "ValueError: not enough values to unpack"
  else pure [ (⟨z.map fun p => (p.1, -p.2), 0, false⟩ : CRow), ⟨vj.co, vj.off, false⟩, ⟨vi.co, vi.off, false⟩ ]

/-- the relative-entropy rows of index `p.i` (both forms) -/
def sd_relRows (inp : DualIn) (p : DIds) : M (List CRow × List Cone) :=
  let cov := trueIdx (coverOf inp.ech p.i)
  let vi := inp.v.getD p.i (constE 0)
  let mat := cov.map fun j => subRow (inp.alpha.getD p.i []) (inp.alpha.getD j [])
  let muN := p.mu.take inp.n
  if inp.settings.compactDual then do
    let blocks ← cov.zipIdx.mapM (sd_compactBlock inp p)
    pure (blocks.flatten, List.replicate cov.length (⟨.exp, 3⟩ : Cone))
  else
    let blocks := cov.zipIdx.flatMap fun (j, k) =>
      let vj := inp.v.getD j (constE 0)
      [ (⟨[(p.epi.getD k 0, -1)], 0, false⟩ : CRow), ⟨vj.co, vj.off, false⟩, ⟨vi.co, vi.off, false⟩ ]
    let lin := cov.zipIdx.map fun (_, k) =>
      (⟨((mat.getD k []).zip muN).map (fun (q, id) => (id, q)) ++ [(p.epi.getD k 0, -1)], 0, false⟩ : CRow)
    pure (blocks ++ lin, List.replicate cov.length (⟨.exp, 3⟩ : Cone) ++ [⟨.pos, cov.length⟩])

/-- the perspective rows `A μ_i + v_i b` -/
def sd_domRows (inp : DualIn) (p : DIds) (X : Dom) : List CRow :=
  let vi := inp.v.getD p.i (constE 0)
  (X.A.zip X.b).map fun (arow, br) =>
    (⟨(arow.zip p.mu).map (fun (q, id) => (id, q)) ++ vi.co.map (fun pc => (pc.1, br * pc.2)), vi.off * br, false⟩ : CRow)

/-- all rows of index `p.i` -/
def sd_perI (inp : DualIn) (p : DIds) : M (List CRow × List Cone) := do
  let cov := trueIdx (coverOf inp.ech p.i)
  if cov.isEmpty then pure ([], [])
  else
    let (r1, k1) ← sd_relRows inp p
    match inp.X with
    | none => pure (r1, k1)
    | some X => pure (r1 ++ sd_domRows inp p X, k1 ++ X.K)

def sd_nontriv (inp : DualIn) : List Nat := (inp.ech.U ++ inp.ech.P).foldl (fun acc i => insertNatS i acc) []

theorem sd_dualRows_eq (inp : DualIn) :
    dualRows inp =
      (if inp.alpha.length ≤ 1 then
        pure (inp.v.map (nonnegRow · inp.dummy), [⟨.pos, inp.v.length⟩])
      else do
        let perI ← inp.ids.mapM (sd_perI inp)
        pure ((sd_nontriv inp).map (fun i => nonnegRow (inp.v.getD i (constE 0)) inp.dummy) ++ perI.flatMap (·.1),
          [⟨.pos, (sd_nontriv inp).length⟩] ++ perI.flatMap (·.2))) := by
  unfold dualRows
  dsimp only
  split
  · rfl
  · congr 1
    congr 1
    funext p
    unfold sd_perI sd_relRows
    dsimp only
    split
    · rfl
    · split
      · simp only [bind_assoc, pure_bind]
        rfl
      · rfl

theorem sd_dualRows_small (inp : DualIn) (hm : inp.alpha.length ≤ 1) (rows : List CRow) (K : List Cone)
    (h : dualRows inp = .ok (rows, K)) :
    rows = inp.v.map (nonnegRow · inp.dummy) ∧ K = [⟨.pos, inp.v.length⟩] := by
  rw [sd_dualRows_eq, if_pos hm] at h
  simp only [pure, Except.pure, Except.ok.injEq, Prod.mk.injEq] at h
  exact ⟨h.1.symm, h.2.symm⟩

theorem sd_dualRows_big (inp : DualIn) (hm : ¬ inp.alpha.length ≤ 1) (rows : List CRow) (K : List Cone)
    (h : dualRows inp = .ok (rows, K)) :
    ∃ perI, inp.ids.mapM (sd_perI inp) = .ok perI ∧
      rows = (sd_nontriv inp).map (fun i => nonnegRow (inp.v.getD i (constE 0)) inp.dummy) ++ perI.flatMap (·.1) ∧
      K = [⟨.pos, (sd_nontriv inp).length⟩] ++ perI.flatMap (·.2) := by
  rw [sd_dualRows_eq, if_neg hm] at h
  cases hp : inp.ids.mapM (sd_perI inp) with
  | error e => rw [hp] at h; cases h
  | ok perI =>
    rw [hp] at h
    simp only [bind, Except.bind, pure, Except.pure, Except.ok.injEq, Prod.mk.injEq] at h
    exact ⟨perI, rfl, h.1.symm, h.2.symm⟩

theorem sd_perI_empty (inp : DualIn) (p : DIds) (hc : trueIdx (coverOf inp.ech p.i) = []) :
    sd_perI inp p = .ok ([], []) := by
  unfold sd_perI
  simp [hc, pure, Except.pure]

theorem sd_perI_nonempty (inp : DualIn) (p : DIds) (hc : trueIdx (coverOf inp.ech p.i) ≠ [])
    (q : List CRow × List Cone) (h : sd_perI inp p = .ok q) :
    ∃ r1 k1, sd_relRows inp p = .ok (r1, k1) ∧
      q = match inp.X with
        | none => (r1, k1)
        | some X => (r1 ++ sd_domRows inp p X, k1 ++ X.K) := by
  unfold sd_perI at h
  have hne : (trueIdx (coverOf inp.ech p.i)).isEmpty = false := by
    cases hh : trueIdx (coverOf inp.ech p.i) with
    | nil => exact absurd hh hc
    | cons a l => rfl
  simp only [hne, Bool.false_eq_true, if_false] at h
  cases hr : sd_relRows inp p with
  | error e => rw [hr] at h; cases h
  | ok rk =>
    obtain ⟨r1, k1⟩ := rk
    rw [hr] at h
    refine ⟨r1, k1, rfl, ?_⟩
    simp only [bind, Except.bind] at h
    cases hX : inp.X with
    | none =>
      rw [hX] at h
      simp only [pure, Except.pure, Except.ok.injEq] at h
      exact h.symm
    | some X =>
      rw [hX] at h
      simp only [pure, Except.pure, Except.ok.injEq] at h
      exact h.symm

theorem sd_relRows_compact (inp : DualIn) (p : DIds) (hc : inp.settings.compactDual = true)
    (r1 : List CRow) (k1 : List Cone) (h : sd_relRows inp p = .ok (r1, k1)) :
    ∃ blocks, (trueIdx (coverOf inp.ech p.i)).zipIdx.mapM (sd_compactBlock inp p) = .ok blocks ∧
      r1 = blocks.flatten ∧
      k1 = List.replicate (trueIdx (coverOf inp.ech p.i)).length (⟨.exp, 3⟩ : Cone) := by
  unfold sd_relRows at h
  simp only [hc, if_true] at h
  cases hb : (trueIdx (coverOf inp.ech p.i)).zipIdx.mapM (sd_compactBlock inp p) with
  | error e => rw [hb] at h; cases h
  | ok blocks =>
    rw [hb] at h
    simp only [bind, Except.bind, pure, Except.pure, Except.ok.injEq, Prod.mk.injEq] at h
    exact ⟨blocks, rfl, h.1.symm, h.2.symm⟩

/-- the rows of the epigraph form, as lists -/
def sd_epiBlocks (inp : DualIn) (p : DIds) : List CRow :=
  (trueIdx (coverOf inp.ech p.i)).zipIdx.flatMap fun (j, k) =>
    [ (⟨[(p.epi.getD k 0, -1)], 0, false⟩ : CRow),
      ⟨(inp.v.getD j (constE 0)).co, (inp.v.getD j (constE 0)).off, false⟩,
      ⟨(inp.v.getD p.i (constE 0)).co, (inp.v.getD p.i (constE 0)).off, false⟩ ]

def sd_epiLin (inp : DualIn) (p : DIds) : List CRow :=
  (trueIdx (coverOf inp.ech p.i)).zipIdx.map fun (j, k) =>
    (⟨((subRow (inp.alpha.getD p.i []) (inp.alpha.getD j [])).zip (p.mu.take inp.n)).map (fun (q, id) => (id, q))
        ++ [(p.epi.getD k 0, -1)], 0, false⟩ : CRow)

theorem sd_getD_map_of_mem_zipIdx {α β : Type} (l : List α) (f : α → β) (d : β) (j : α) (k : Nat)
    (h : (j, k) ∈ l.zipIdx) : (l.map f).getD k d = f j := by
  rw [List.mk_mem_zipIdx_iff_getElem?] at h
  simp [List.getD, h]

theorem sd_relRows_epi (inp : DualIn) (p : DIds) (hc : inp.settings.compactDual = false)
    (r1 : List CRow) (k1 : List Cone) (h : sd_relRows inp p = .ok (r1, k1)) :
    r1 = sd_epiBlocks inp p ++ sd_epiLin inp p ∧
    k1 = List.replicate (trueIdx (coverOf inp.ech p.i)).length (⟨.exp, 3⟩ : Cone)
          ++ [⟨.pos, (trueIdx (coverOf inp.ech p.i)).length⟩] := by
  unfold sd_relRows at h
  simp only [hc, Bool.false_eq_true, if_false, pure, Except.pure, Except.ok.injEq, Prod.mk.injEq] at h
  refine ⟨?_, h.2.symm⟩
  rw [← h.1]
  congr 1
  unfold sd_epiLin
  apply List.map_congr_left
  rintro ⟨j, k⟩ hjk
  simp only
  rw [sd_getD_map_of_mem_zipIdx _ _ _ j k hjk]

/-- the compact block, when it does not raise -/
theorem sd_compactBlock_ok (inp : DualIn) (p : DIds) (j k : Nat)
    (hjk : (j, k) ∈ (trueIdx (coverOf inp.ech p.i)).zipIdx) (b : List CRow)
    (h : sd_compactBlock inp p (j, k) = .ok b) :
    b = [ (⟨(((subRow (inp.alpha.getD p.i []) (inp.alpha.getD j [])).zip (p.mu.take inp.n)).filterMap
              fun (q, id) => if q == 0 then none else some (id, q)).map (fun e => (e.1, -e.2)), 0, false⟩ : CRow),
          ⟨(inp.v.getD j (constE 0)).co, (inp.v.getD j (constE 0)).off, false⟩,
          ⟨(inp.v.getD p.i (constE 0)).co, (inp.v.getD p.i (constE 0)).off, false⟩ ] := by
  unfold sd_compactBlock at h
  simp only at h
  rw [sd_getD_map_of_mem_zipIdx _ _ _ j k hjk] at h
  split at h
  · cases h
  · simp only [pure, Except.pure, Except.ok.injEq] at h
    exact h.symm

end Sageopt.Sage
