/-
C19 helper lemmas, real-analysis part: monotonicity of the closed exponential cone in its first two
coordinates, the relative-entropy block of one AGE cone, and the abstract slack-absorption argument.
-/
import SageoptModel.Lemmas.ExpCone
import Mathlib.Tactic.Linarith
import Mathlib.Tactic.FieldSimp
import Mathlib.Algebra.BigOperators.Group.List.Basic

namespace Sageopt.Sage
open Sageopt Sageopt.Analysis

/-- monotone (decreasing) in the first coordinate -/
theorem opt_expcone_mono_first (x x' y z : ℝ) (h : InExpCone x y z) (hx : x' ≤ x) : InExpCone x' y z := by
  rcases h with ⟨hz, h⟩ | ⟨hz, hx0, hy⟩
  · left
    refine ⟨hz, le_trans ?_ h⟩
    apply mul_le_mul_of_nonneg_left _ hz.le
    exact Real.exp_le_exp.mpr (div_le_div_of_nonneg_right hx hz.le)
  · right; exact ⟨hz, le_trans hx hx0, hy⟩

/-- monotone (increasing) in the second coordinate -/
theorem opt_expcone_mono_second (x y y' z : ℝ) (h : InExpCone x y z) (hy : y ≤ y') : InExpCone x y' z := by
  rcases h with ⟨hz, h⟩ | ⟨hz, hx0, hy0⟩
  · left; exact ⟨hz, le_trans h hy⟩
  · right; exact ⟨hz, hx0, le_trans hy0 hy⟩

/-- with third coordinate `0` the cone only says `x ≤ 0`, `0 ≤ y` -/
theorem opt_expcone_zero (x y : ℝ) (h : InExpCone x y 0) : x ≤ 0 ∧ 0 ≤ y := by
  rcases h with ⟨hz, _⟩ | ⟨_, hx0, hy0⟩
  · exact absurd hz (lt_irrefl 0)
  · exact ⟨hx0, hy0⟩

theorem opt_getD_le_of_length {y y' : List ℝ} (hy : y.length = y'.length)
    (hyy : ∀ k, k < y.length → y.getD k 0 ≤ y'.getD k 0) (k : Nat) : y.getD k 0 ≤ y'.getD k 0 := by
  by_cases hk : k < y.length
  · exact hyy k hk
  · have h1 : y.getD k 0 = 0 := by simp [List.getD_eq_getElem?_getD, not_lt.1 hk]
    have h2 : y'.getD k 0 = 0 := by simp [List.getD_eq_getElem?_getD, hy ▸ not_lt.1 hk]
    rw [h1, h2]

theorem opt_sum_nonneg_of_getD (l : List ℝ) (h : ∀ k, k < l.length → 0 ≤ l.getD k 0) : 0 ≤ l.sum := by
  apply List.sum_nonneg
  intro a ha
  obtain ⟨k, hk, rfl⟩ := List.getElem_of_mem ha
  have := h k hk
  simpa [List.getD_eq_getElem?_getD, hk] using this

/-! ### slack absorption -/

theorem opt_sum_update (U : List Nat) (f : Nat → ℝ) (i : Nat) (s : ℝ) :
    (U.map fun i' => if i' = i then f i' + s else f i').sum = (U.map f).sum + (U.count i : ℝ) * s := by
  induction U with
  | nil => simp
  | cons a U ih =>
    simp only [List.map_cons, List.sum_cons, ih, List.count_cons]
    by_cases h : a = i
    · subst h; simp; ring
    · have : (a == i) = false := by simpa using h
      simp [h, this]; ring

/-- one round of absorption: the sums are made exact at the reached indices below `m`, nothing changes at
    the indices `≥ m` -/
theorem opt_absorb_aux (U : List Nat) (reach : Nat → Nat → Bool) (A : Nat → (Nat → ℝ) → Prop)
    (hmono : ∀ i ∈ U, ∀ a j (s : ℝ), reach i j = true → 0 ≤ s → A i a → A i (Function.update a j (a j + s)))
    (c : Nat → ℝ) (m : Nat) (ages : Nat → Nat → ℝ) (hA : ∀ i ∈ U, A i (ages i))
    (hle : ∀ j, j < m → (U.map fun i => ages i j).sum ≤ c j) :
    ∃ ages' : Nat → Nat → ℝ, (∀ i ∈ U, A i (ages' i)) ∧
      (∀ j, j < m → if U.any (fun i => reach i j) then (U.map fun i => ages' i j).sum = c j
        else (U.map fun i => ages' i j).sum ≤ c j) ∧
      ∀ i j, m ≤ j → ages' i j = ages i j := by
  induction m with
  | zero => exact ⟨ages, hA, fun j hj => absurd hj (Nat.not_lt_zero j), fun _ _ _ => rfl⟩
  | succ m ih =>
    obtain ⟨ag, hAg, hcond, hsame⟩ := ih (fun j hj => hle j (Nat.lt_succ_of_lt hj))
    have hlem : (U.map fun i => ag i m).sum ≤ c m := by
      have : (U.map fun i => ag i m) = (U.map fun i => ages i m) := by
        apply List.map_congr_left; intro i _; exact hsame i m (le_refl m)
      rw [this]; exact hle m (Nat.lt_succ_self m)
    by_cases hany : U.any (fun i => reach i m) = true
    · rw [List.any_eq_true] at hany
      obtain ⟨i0, hi0, hr⟩ := hany
      have hcnt : 0 < (U.count i0 : ℝ) := by
        have : 0 < U.count i0 := List.count_pos_iff.2 hi0
        exact_mod_cast this
      set s : ℝ := (c m - (U.map fun i => ag i m).sum) / (U.count i0 : ℝ) with hs
      have hs0 : 0 ≤ s := div_nonneg (by linarith) hcnt.le
      refine ⟨fun i => if i = i0 then Function.update (ag i) m (ag i m + s) else ag i, ?_, ?_, ?_⟩
      · intro i hi
        by_cases h : i = i0
        · subst h
          simp only [if_true]
          exact hmono i hi _ m s hr hs0 (hAg i hi)
        · simp only [h, if_false]; exact hAg i hi
      · intro j hj
        by_cases hjm : j = m
        · subst hjm
          have hany' : U.any (fun i => reach i j) = true := List.any_eq_true.2 ⟨i0, hi0, hr⟩
          rw [if_pos hany']
          have e : (U.map fun i => (if i = i0 then Function.update (ag i) j (ag i j + s) else ag i) j)
              = (U.map fun i' => if i' = i0 then ag i' j + s else ag i' j) := by
            apply List.map_congr_left
            intro i _
            by_cases h : i = i0
            · simp [h]
            · simp [h]
          rw [e, opt_sum_update, hs]
          field_simp
          ring
        · have hj' : j < m := by omega
          have e : (U.map fun i => (if i = i0 then Function.update (ag i) m (ag i m + s) else ag i) j)
              = (U.map fun i => ag i j) := by
            apply List.map_congr_left
            intro i _
            by_cases h : i = i0
            · simp [h, Function.update_of_ne hjm]
            · simp [h]
          rw [e]
          exact hcond j hj'
      · intro i j hj
        have hjm : j ≠ m := by omega
        by_cases h : i = i0
        · simp only [h, if_true, Function.update_of_ne hjm]
          exact hsame i0 j (by omega)
        · simp only [h, if_false]
          exact hsame i j (by omega)
    · refine ⟨ag, hAg, ?_, fun i j hj => hsame i j (by omega)⟩
      intro j hj
      by_cases hjm : j = m
      · subst hjm
        rw [if_neg hany]
        exact hlem
      · exact hcond j (by omega)

end Sageopt.Sage
