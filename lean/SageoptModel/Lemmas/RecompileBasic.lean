/-
C11 helper lemmas (1): generic facts about the `Except` monad / `List.mapM`, and the relations
"same value under every assignment" on entry lists, compiled rows and row lists.
-/
import SageoptModel.Lemmas.CompileSem
import SageoptModel.Model.Recompile
import Mathlib.Data.List.Forall2

namespace Sageopt.Compile
open Sageopt Sageopt.Solvers

theorem rc_bind_ok {α β : Type} (x : M α) (f : α → M β) (b : β) :
    (x >>= f) = .ok b ↔ ∃ a, x = .ok a ∧ f a = .ok b := by
  cases x <;> simp [bind, Except.bind]

theorem rc_pure_ok {α : Type} (a b : α) : (pure a : M α) = .ok b ↔ a = b := by
  simp [pure, Except.pure]

theorem rc_throw_ok {α : Type} (m : String) (b : α) : (throw m : M α) = .ok b ↔ False := by
  simp [throw, throwThe, MonadExceptOf.throw]

/-- pointwise related functions give related `mapM`s (success direction) -/
theorem rc_mapM_rel {α β : Type} (R : β → β → Prop) (f g : α → M β) :
    ∀ (xs : List α) (ys : List β), xs.mapM f = .ok ys →
    (∀ x ∈ xs, ∀ a, f x = .ok a → ∃ b, g x = .ok b ∧ R a b) →
    ∃ ys', xs.mapM g = .ok ys' ∧ List.Forall₂ R ys ys' := by
  intro xs
  induction xs with
  | nil =>
    intro ys h _
    rw [List.mapM_nil, rc_pure_ok] at h
    subst h
    exact ⟨[], by rw [List.mapM_nil, rc_pure_ok], .nil⟩
  | cons x xs ih =>
    intro ys h hf
    rw [List.mapM_cons, rc_bind_ok] at h
    obtain ⟨a, ha, h⟩ := h
    rw [rc_bind_ok] at h
    obtain ⟨as, has, h⟩ := h
    rw [rc_pure_ok] at h
    subst h
    obtain ⟨b, hb, hR⟩ := hf x (by simp) a ha
    obtain ⟨bs, hbs, hRs⟩ := ih as has (fun x hx => hf x (List.mem_cons_of_mem _ hx))
    refine ⟨b :: bs, ?_, .cons hR hRs⟩
    rw [List.mapM_cons, rc_bind_ok]
    refine ⟨b, hb, ?_⟩
    rw [rc_bind_ok]
    exact ⟨bs, hbs, by rw [rc_pure_ok]⟩

noncomputable def rc_esum (σ : Nat → ℝ) (es : List (Nat × Rat)) : ℝ :=
  (es.map fun e => (e.2 : ℝ) * σ e.1).sum

/-- two triplet-entry lists with the same value under every assignment -/
def rc_ERel (es es' : List (Nat × Rat)) : Prop := ∀ σ : Nat → ℝ, rc_esum σ es' = rc_esum σ es

/-- two compiled rows with the same value under every assignment -/
def rc_CRel (r r' : CRow) : Prop := ∀ σ : Nat → ℝ, crowVal σ r' = crowVal σ r

theorem rc_ERel_refl (es : List (Nat × Rat)) : rc_ERel es es := fun _ => rfl

theorem rc_CRel_refl (r : CRow) : rc_CRel r r := fun _ => rfl

theorem rc_ERel_zero (d d' : Nat) : rc_ERel [(d, 0)] [(d', 0)] := by
  intro σ; simp [rc_esum]

theorem rc_CRel_of_ERel {es es' : List (Nat × Rat)} (h : rc_ERel es es') (c : Rat) (b : Bool) :
    rc_CRel ⟨es, c, b⟩ ⟨es', c, b⟩ := by
  intro σ
  have := h σ
  unfold rc_esum at this
  unfold crowVal
  simp only [this]

theorem rc_forall₂_CRel_refl (rs : List CRow) : List.Forall₂ rc_CRel rs rs :=
  List.forall₂_same.2 fun r _ => rc_CRel_refl r

theorem rc_forall₂_map {rs rs' : List CRow} (h : List.Forall₂ rc_CRel rs rs') (σ : Nat → ℝ) :
    rs'.map (crowVal σ) = rs.map (crowVal σ) := by
  induction h with
  | nil => rfl
  | cons h _ ih => simp only [List.map_cons, ih, h σ]

/-- relation on compiled blocks: same cones, rows equal under every assignment -/
def rc_BRel (p p' : List CRow × List Cone) : Prop := List.Forall₂ rc_CRel p.1 p'.1 ∧ p'.2 = p.2

theorem rc_forall₂_flatMap {bs bs' : List (List CRow × List Cone)} (h : List.Forall₂ rc_BRel bs bs') :
    List.Forall₂ rc_CRel (bs.flatMap (·.1)) (bs'.flatMap (·.1)) ∧
      bs'.flatMap (·.2) = bs.flatMap (·.2) := by
  induction h with
  | nil => exact ⟨.nil, rfl⟩
  | cons h _ ih =>
    simp only [List.flatMap_cons]
    exact ⟨List.rel_append h.1 ih.1, by rw [h.2, ih.2]⟩

end Sageopt.Compile
