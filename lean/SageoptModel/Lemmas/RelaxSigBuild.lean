/-
The intermediate objects of the relaxation builders `sigPrimal` / `sigDual` (`Model/Relax.lean`), named,
with their invariants: `f' = withoutZeros f`, the Lagrangian `L = f' − γ` (symbolic coefficients), the
modulator `t`, and the modulated Lagrangian `s = L·t`.  Key lemma `rs_S_coeff`: under every assignment
the coefficient function of `s` is that of `f'·t − γ·t`.
-/
import SageoptModel.Model.Relax
import SageoptModel.Lemmas.RelaxSigCalc

namespace Sageopt.RelaxSig
open Sageopt Sageopt.Sig Sageopt.Sig.Hom Sageopt.Relax Sageopt.Props

def rsF (f : SigQ) : SigQ := withoutZeros isZeroQ f

def rsL (f : SigQ) (g : Nat) : SigL :=
  okOr (add Lin.isZero (embed (rsF f)) (const (rsF f).n (Lin.scale (-1) (Lin.var g)))) (embed (rsF f))

def rsSupp (f : SigQ) (ms : Option (List Exp)) (g : Nat) : List Exp := ms.getD (keys (rsL f g).terms)

def rsBase (f : SigQ) (ms : Option (List Exp)) (g : Nat) : SigQ :=
  mk (rsF f).n ((rsSupp f ms g).map fun r => (r, (1 : Rat)))

def rsT (f : SigQ) (ell : Nat) (ms : Option (List Exp)) (g : Nat) : SigQ :=
  modulator (rsF f).n (rsSupp f ms g) ell

def rsS (f : SigQ) (ell : Nat) (ms : Option (List Exp)) (g : Nat) : SigL :=
  okOr (mul Lin.isZero (rsL f g) (embed (rsT f ell ms g))) (rsL f g)

theorem rs_sigPrimal_eq (f : SigQ) (ell : Nat) (ms : Option (List Exp)) (g : Nat) :
    sigPrimal f ell ms g = ⟨keys (rsS f ell ms g).terms, (rsS f ell ms g).terms.map (·.2)⟩ := rfl

theorem rs_sigDual_eq (f : SigQ) (ell : Nat) (ms : Option (List Exp)) (g : Nat) :
    sigDual f ell ms g = ⟨keys (rsS f ell ms g).terms, (rsS f ell ms g).terms.map (·.2),
      SymCorr.relativeCoeffVector tol8 (rsT f ell ms g).terms (keys (rsS f ell ms g).terms),
      SymCorr.relativeCoeffVector tol8 (mulQ (rsF f) (rsT f ell ms g)).terms (keys (rsS f ell ms g).terms)⟩ := rfl

/-! ### `f'` and its embedding -/

theorem rs_F_wf (f : SigQ) (hf : Wf f) : Wf (rsF f) := withoutZeros_wf' isZeroQ f hf

theorem rs_F_n (f : SigQ) : (rsF f).n = f.n := withoutZeros_n isZeroQ f

theorem rs_embed_wf (f : SigQ) (hf : Wf f) : Wf (embed f) := wf_mapT Lin.const hf

theorem rs_mapT_embed (σ : Nat → Rat) (f : SigQ) : mapT (Lin.value σ) (embed f).terms = f.terms := by
  unfold embed mapT
  simp only [List.map_map]
  conv_rhs => rw [← List.map_id f.terms]
  apply List.map_congr_left
  intro t _
  simp [Lin.value_const]

theorem rs_value_gamma (σ : Nat → Rat) (g : Nat) : Lin.value σ (Lin.scale (-1) (Lin.var g)) = - σ g := by
  rw [Lin.value_scale]
  simp [Lin.value, Lin.var]

/-! ### the Lagrangian `L = f' − γ` -/

theorem rs_L_add (f : SigQ) (g : Nat) :
    add Lin.isZero (embed (rsF f)) (const (rsF f).n (Lin.scale (-1) (Lin.var g))) = .ok (rsL f g) := by
  have h : add Lin.isZero (embed (rsF f)) (const (rsF f).n (Lin.scale (-1) (Lin.var g))) =
      .ok (withoutZeros Lin.isZero (sumList (embed (rsF f)).n
        [embed (rsF f), const (rsF f).n (Lin.scale (-1) (Lin.var g))])) := by
    unfold add
    rw [if_neg]
    simp [embed]
  unfold rsL
  rw [h]
  rfl

theorem rs_L_n (f : SigQ) (g : Nat) : (rsL f g).n = f.n := by
  have h := rs_L_add f g
  unfold add at h
  rw [if_neg (by simp [embed])] at h
  simp only [Res.ok.injEq] at h
  rw [← h, Gen.withoutZeros_n]
  show (sumList (rsF f).n _).n = f.n
  rw [Gen.sumList_n (rsF f).n]
  · exact rs_F_n f
  · intro x hx
    simp only [List.mem_cons, List.not_mem_nil, or_false] at hx
    rcases hx with rfl | rfl <;> rfl

theorem rs_L_spec (f : SigQ) (hf : Wf f) (g : Nat) (σ : Nat → Rat) (a : Exp) :
    Wf (rsL f g) ∧
    coeff (mapT (Lin.value σ) (rsL f g).terms) a =
      coeff (rsF f).terms a - σ g * coeff [(zeroExp f.n, (1 : Rat))] a := by
  have h := C13.map_add σ _ _ _ (rs_embed_wf _ (rs_F_wf f hf)) (Gen.const_wf _ _) (rs_L_add f g) a
  refine ⟨h.1, ?_⟩
  have h2 := h.2
  have hc := C13.map_const σ (rsF f).n (Lin.scale (-1) (Lin.var g)) a
  have e1 : (C13.mapσ σ (rsL f g)).terms = mapT (Lin.value σ) (rsL f g).terms := rfl
  have e2 : (C13.mapσ σ (embed (rsF f))).terms = mapT (Lin.value σ) (embed (rsF f)).terms := rfl
  rw [e1, e2, rs_mapT_embed, hc, const_terms, rs_value_gamma, rs_F_n] at h2
  rw [h2, coeff_cons, coeff_cons]
  by_cases hz : zeroExp f.n = a
  · simp [hz, coeff]; ring
  · simp [hz, coeff]

theorem rs_L_wf (f : SigQ) (hf : Wf f) (g : Nat) : Wf (rsL f g) :=
  (rs_L_spec f hf g (fun _ => 0) []).1

/-- the Lagrangian always has at least one term (the constant one carries `−γ`) -/
theorem rs_L_terms_ne_nil (f : SigQ) (hf : Wf f) (g : Nat) : (rsL f g).terms ≠ [] := by
  intro he
  have h := (rs_L_spec f hf g (fun _ => coeff (rsF f).terms (zeroExp f.n) + 1) (zeroExp f.n)).2
  rw [he] at h
  simp [coeff] at h

/-! ### the modulator -/

theorem rs_supp_width (f : SigQ) (hf : Wf f) (ms : Option (List Exp))
    (hms : ∀ s, ms = some s → ∀ r ∈ s, r.length = f.n) (g : Nat) :
    ∀ r ∈ rsSupp f ms g, r.length = f.n := by
  intro r hr
  unfold rsSupp at hr
  cases ms with
  | none =>
    simp only [Option.getD_none, keys, List.mem_map] at hr
    obtain ⟨t, ht, rfl⟩ := hr
    rw [(rs_L_wf f hf g).width t ht, rs_L_n]
  | some s => exact hms s rfl r hr

theorem rs_supp_ne_nil (f : SigQ) (hf : Wf f) (ms : Option (List Exp))
    (hms : ∀ s, ms = some s → s ≠ []) (g : Nat) : rsSupp f ms g ≠ [] := by
  unfold rsSupp
  cases ms with
  | none =>
    simp only [Option.getD_none, keys]
    intro h
    exact rs_L_terms_ne_nil f hf g (List.map_eq_nil_iff.1 h)
  | some s => exact hms s rfl

theorem rs_base_wf (f : SigQ) (hf : Wf f) (ms : Option (List Exp))
    (hms : ∀ s, ms = some s → ∀ r ∈ s, r.length = f.n) (g : Nat) : Wf (rsBase f ms g) := by
  unfold rsBase
  apply mk_wf'
  intro t ht
  obtain ⟨r, hr, rfl⟩ := List.mem_map.1 ht
  rw [rs_F_n]
  exact rs_supp_width f hf ms hms g r hr

theorem rs_T_spec (f : SigQ) (hf : Wf f) (ell : Nat) (ms : Option (List Exp))
    (hms : ∀ s, ms = some s → ∀ r ∈ s, r.length = f.n) (g : Nat) (x : List ℝ) :
    Wf (rsT f ell ms g) ∧ (rsT f ell ms g).n = f.n ∧
    eval (rs_chi x) (mapT rs_cast (rsT f ell ms g).terms) =
      (eval (rs_chi x) (mapT rs_cast (rsBase f ms g).terms)) ^ ell := by
  have h := rs_powNat x f.n (rsBase f ms g) (rs_base_wf f hf ms hms g) (rs_F_n f) ell
  exact h

theorem rs_T_wf (f : SigQ) (hf : Wf f) (ell : Nat) (ms : Option (List Exp))
    (hms : ∀ s, ms = some s → ∀ r ∈ s, r.length = f.n) (g : Nat) : Wf (rsT f ell ms g) :=
  (rs_T_spec f hf ell ms hms g []).1

theorem rs_T_n (f : SigQ) (hf : Wf f) (ell : Nat) (ms : Option (List Exp))
    (hms : ∀ s, ms = some s → ∀ r ∈ s, r.length = f.n) (g : Nat) : (rsT f ell ms g).n = f.n :=
  (rs_T_spec f hf ell ms hms g []).2.1

/-- the number of variables of the modulator, with no assumption at all -/
theorem rs_T_n' (f : SigQ) (ell : Nat) (ms : Option (List Exp)) (g : Nat) : (rsT f ell ms g).n = f.n := by
  unfold rsT modulator
  rw [rs_powNat_n]
  exact rs_F_n f

theorem rs_base_pos (f : SigQ) (hf : Wf f) (ms : Option (List Exp))
    (hms : ∀ s, ms = some s → s ≠ []) (g : Nat) (x : List ℝ) :
    0 < eval (rs_chi x) (mapT rs_cast (rsBase f ms g).terms) := by
  unfold rsBase
  rw [rs_eval_mk]
  have hne := rs_supp_ne_nil f hf ms hms g
  generalize rsSupp f ms g = supp at hne
  unfold rounded mapT eval
  simp only [List.map_map, Function.comp_def]
  cases supp with
  | nil => exact absurd rfl hne
  | cons r rs =>
    simp only [List.map_cons, List.sum_cons]
    apply add_pos_of_pos_of_nonneg
    · simp [rs_cast, rs_chi_pos]
    · apply List.sum_nonneg
      intro y hy
      obtain ⟨r', _, rfl⟩ := List.mem_map.1 hy
      simp [rs_cast, (rs_chi_pos x _).le]

theorem rs_T_pos (f : SigQ) (hf : Wf f) (ell : Nat) (ms : Option (List Exp))
    (hms : ∀ s, ms = some s → s ≠ [] ∧ ∀ r ∈ s, r.length = f.n) (g : Nat) (x : List ℝ) :
    0 < eval (rs_chi x) (mapT rs_cast (rsT f ell ms g).terms) := by
  rw [(rs_T_spec f hf ell ms (fun s hs => (hms s hs).2) g x).2.2]
  exact pow_pos (rs_base_pos f hf ms (fun s hs => (hms s hs).1) g x) ell

/-! ### the modulated Lagrangian `s = L·t` -/

theorem rs_S_eq (f : SigQ) (hf : Wf f) (ell : Nat) (ms : Option (List Exp))
    (hms : ∀ s, ms = some s → ∀ r ∈ s, r.length = f.n) (g : Nat) :
    rsS f ell ms g = withoutZeros Lin.isZero (product (rsL f g) (embed (rsT f ell ms g))) := by
  unfold rsS mul
  have hn : (rsL f g).n = (embed (rsT f ell ms g)).n := by
    rw [rs_L_n]
    exact (rs_T_n f hf ell ms hms g).symm
  rw [if_neg (by simpa using hn)]
  rfl

/-- the `okOr` fallback of the product is never taken, with no assumption at all -/
theorem rs_S_mul (f : SigQ) (ell : Nat) (ms : Option (List Exp)) (g : Nat) :
    mul Lin.isZero (rsL f g) (embed (rsT f ell ms g)) = .ok (rsS f ell ms g) := by
  have hn : (rsL f g).n = (embed (rsT f ell ms g)).n := by
    rw [rs_L_n]
    exact (rs_T_n' f ell ms g).symm
  have h : mul Lin.isZero (rsL f g) (embed (rsT f ell ms g)) =
      .ok (withoutZeros Lin.isZero (product (rsL f g) (embed (rsT f ell ms g)))) := by
    unfold mul
    rw [if_neg (by simpa using hn)]
  unfold rsS
  rw [h]
  rfl

theorem rs_S_wf (f : SigQ) (hf : Wf f) (ell : Nat) (ms : Option (List Exp))
    (hms : ∀ s, ms = some s → ∀ r ∈ s, r.length = f.n) (g : Nat) :
    Wf (rsS f ell ms g) ∧ (rsS f ell ms g).n = f.n := by
  rw [rs_S_eq f hf ell ms hms g]
  have hn : (rsL f g).n = (embed (rsT f ell ms g)).n := by
    rw [rs_L_n]
    exact (rs_T_n f hf ell ms hms g).symm
  refine ⟨Gen.withoutZeros_wf _ _ (Gen.product_wf _ _ (rs_L_wf f hf g)
    (rs_embed_wf _ (rs_T_wf f hf ell ms hms g)) hn), ?_⟩
  rw [Gen.withoutZeros_n, Gen.product_n, rs_L_n]

/-- KEY: under every assignment the coefficient function of `s` is that of `f'·t − γ·t` -/
theorem rs_S_coeff (f : SigQ) (hf : Wf f) (ell : Nat) (ms : Option (List Exp))
    (hms : ∀ s, ms = some s → ∀ r ∈ s, r.length = f.n) (g : Nat) (σ : Nat → Rat) (a : Exp) :
    coeff (mapT (Lin.value σ) (rsS f ell ms g).terms) a =
      coeff (prodTerms (rsF f).terms (rsT f ell ms g).terms) a - σ g * coeff (rsT f ell ms g).terms a := by
  have hL := rs_L_wf f hf g
  have hT := rs_T_wf f hf ell ms hms g
  have hE := rs_embed_wf _ hT
  have hn : (rsL f g).n = (embed (rsT f ell ms g)).n := by
    rw [rs_L_n]
    exact (rs_T_n f hf ell ms hms g).symm
  have hm : ∀ t1 ∈ (rsL f g).terms, ∀ t2 ∈ (embed (rsT f ell ms g)).terms,
      Lin.value σ (t1.2 * t2.2) = Lin.value σ t1.2 * Lin.value σ t2.2 := by
    intro t1 _ t2 h2
    obtain ⟨u, _, rfl⟩ := List.mem_map.1 h2
    exact Lin.value_mul_of_right_const σ _ _ rfl
  rw [rs_S_eq f hf ell ms hms g,
    coeff_mapT_withoutZeros (LinC.value_isAddHom σ) Lin.isZero (LinC.isZero_value σ) _
      (Gen.product_wf _ _ hL hE hn) a,
    coeff_mapT_product (LinC.value_isAddHom σ) _ _ hL.grid hE.grid hm a, rs_mapT_embed,
    rs_coeff_prodTerms_lin (σ g) _ (fun b => (rs_L_spec f hf g σ b).2) a,
    rs_coeff_prodTerms_const f.n 1 _ (fun u hu => by rw [hT.width u hu, rs_T_n f hf ell ms hms g]) a]
  ring

end Sageopt.RelaxSig
