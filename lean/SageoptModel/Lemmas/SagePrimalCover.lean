/-
C01 helper lemmas, `ExpCoverHelper`: the default cover family is obtained from the initial family
`cov0` by steps that only ever switch entries off.
-/
import SageoptModel.Lemmas.SagePrimalBasic

namespace Sageopt.Sage
open Sageopt Sageopt.Compile

/-! ### the stages of `defaultEch` as separate functions -/

def sp_UNP (m : Nat) (signs : Option (List CSign)) : List Nat × List Nat × List Nat :=
  match signs with
  | none => (List.range m, [], [])
  | some sg =>
    ((List.range m).filter fun i => sg.getD i .zero == .nonconst || sg.getD i .zero == .neg,
     (List.range m).filter fun i => sg.getD i .zero == .neg,
     (List.range m).filter fun i => sg.getD i .zero == .pos)

def sp_cov0 (m : Nat) (U N : List Nat) : List (Nat × List Bool) :=
  U.map fun i => (i, (List.range m).map fun j => !(N.contains j) && j != i)

def sp_cov1 (alpha : List (List Rat)) (hasX : Bool) (s : Settings) (cov0 : List (Nat × List Bool)) :
    List (Nat × List Bool) :=
  let rowSums := alpha.map fun r => r.foldl (· + ·) 0
  let allNonneg := alpha.all fun r => r.all fun q => 0 ≤ q
  let minZero := (rowSums.foldl (fun acc q => if q < acc then q else acc) (rowSums.headD 0)) == 0
  if (!hasX || s.heuristicReduction) && allNonneg && minZero && !rowSums.isEmpty then
    let zeroLoc := (rowSums.findIdx? (· == 0)).getD 0
    cov0.map fun (i, cov) => if i == zeroLoc then (i, cov) else (i, simplifyCover alpha zeroLoc i cov)
  else cov0

def sp_cov2 (hasX : Bool) (cov1 : List (Nat × List Bool)) : List (Nat × List Bool) :=
  if !hasX then cov1.map fun (i, cov) => if countTrueB cov == 1 then (i, cov.map fun _ => false) else (i, cov)
  else cov1

def sp_cov3 (s : Settings) (answers : List Bool) (cov2 : List (Nat × List Bool)) : List (Nat × List Bool) :=
  if s.presolveTrivial then
    (cov2.foldl (fun (acc : List (Nat × List Bool) × List Bool) p =>
      let (c', rest) := presolveStep p.2 acc.2
      (acc.1 ++ [(p.1, c')], rest)) ([], answers)).1
  else cov2

theorem sp_defaultEch_eq (alpha : List (List Rat)) (signs : Option (List CSign)) (hasX : Bool) (s : Settings)
    (answers : List Bool) :
    defaultEch alpha signs hasX s answers =
      { U := (sp_UNP alpha.length signs).1, N := (sp_UNP alpha.length signs).2.1,
        P := (sp_UNP alpha.length signs).2.2,
        covers := sp_cov3 s answers (sp_cov2 hasX (sp_cov1 alpha hasX s
          (sp_cov0 alpha.length (sp_UNP alpha.length signs).1 (sp_UNP alpha.length signs).2.1))) } := by
  cases signs <;> rfl

/-! ### shrinking -/

/-- `c'` is `c` with some entries switched off -/
def sp_Shrink (c' c : List Bool) : Prop :=
  c'.length = c.length ∧ ∀ j : Nat, c'[j]? = some true → c[j]? = some true

theorem sp_shrink_refl (c : List Bool) : sp_Shrink c c := ⟨rfl, fun _ h => h⟩

theorem sp_shrink_false (c : List Bool) : sp_Shrink (c.map fun _ => false) c := by
  refine ⟨by simp, ?_⟩
  intro j h
  simp only [List.getElem?_map] at h
  cases hc : c[j]? with
  | none => rw [hc] at h; cases h
  | some b => rw [hc] at h; cases h

theorem sp_shrink_simplify (alpha : List (List Rat)) (z i : Nat) (c : List Bool) :
    sp_Shrink (simplifyCover alpha z i c) c := by
  unfold simplifyCover
  refine ⟨by simp, ?_⟩
  intro j h
  simp only [List.getElem?_map, List.getElem?_zipIdx] at h
  cases hc : c[j]? with
  | none => rw [hc] at h; cases h
  | some b =>
    rw [hc] at h
    simp only [Option.map_some, Nat.zero_add, Option.some.injEq] at h
    split at h
    · cases h
    · rw [h]

theorem sp_shrink_presolve (c answers : List Bool) : sp_Shrink (presolveStep c answers).1 c := by
  unfold presolveStep
  split
  · cases answers with
    | nil => exact sp_shrink_refl c
    | cons a rest =>
      cases a
      · exact sp_shrink_refl c
      · exact sp_shrink_false c
  · exact sp_shrink_refl c

/-- what the covers must satisfy -/
def sp_CovOk (U N : List Nat) (m : Nat) (p : Nat × List Bool) : Prop :=
  p.1 ∈ U ∧ p.2.length = m ∧ ∀ j : Nat, p.2[j]? = some true → j ∉ N ∧ j ≠ p.1

theorem sp_covOk_shrink (U N : List Nat) (m i : Nat) (c c' : List Bool) (h : sp_CovOk U N m (i, c))
    (hs : sp_Shrink c' c) : sp_CovOk U N m (i, c') :=
  ⟨h.1, by show c'.length = m; rw [hs.1]; exact h.2.1, fun j hj => h.2.2 j (hs.2 j hj)⟩

theorem sp_cov0_ok (m : Nat) (U N : List Nat) : ∀ p ∈ sp_cov0 m U N, sp_CovOk U N m p := by
  intro p hp
  unfold sp_cov0 at hp
  rw [List.mem_map] at hp
  obtain ⟨i, hi, rfl⟩ := hp
  refine ⟨hi, by simp, ?_⟩
  intro j hj
  simp only [List.getElem?_map] at hj
  by_cases hjm : j < m
  · rw [List.getElem?_range hjm] at hj
    simp only [Option.map_some, Option.some.injEq, Bool.and_eq_true, Bool.not_eq_true',
      bne_iff_ne, ne_eq] at hj
    refine ⟨?_, hj.2⟩
    intro hmem
    have := List.contains_iff_mem.2 hmem
    rw [this] at hj
    cases hj.1
  · rw [List.getElem?_eq_none (by simp; omega)] at hj
    cases hj

theorem sp_cov1_ok (alpha : List (List Rat)) (hasX : Bool) (s : Settings) (U N : List Nat) (m : Nat)
    (l : List (Nat × List Bool)) (h : ∀ p ∈ l, sp_CovOk U N m p) :
    ∀ p ∈ sp_cov1 alpha hasX s l, sp_CovOk U N m p := by
  unfold sp_cov1
  simp only []
  split
  · intro p hp
    rw [List.mem_map] at hp
    obtain ⟨⟨i, c⟩, hq, rfl⟩ := hp
    simp only []
    split
    · exact h _ hq
    · exact sp_covOk_shrink U N m i c _ (h _ hq) (sp_shrink_simplify _ _ _ _)
  · exact h

theorem sp_cov2_ok (hasX : Bool) (U N : List Nat) (m : Nat)
    (l : List (Nat × List Bool)) (h : ∀ p ∈ l, sp_CovOk U N m p) :
    ∀ p ∈ sp_cov2 hasX l, sp_CovOk U N m p := by
  unfold sp_cov2
  split
  · intro p hp
    rw [List.mem_map] at hp
    obtain ⟨⟨i, c⟩, hq, rfl⟩ := hp
    simp only []
    split
    · exact sp_covOk_shrink U N m i c _ (h _ hq) (sp_shrink_false c)
    · exact h _ hq
  · exact h

theorem sp_foldl_ok (U N : List Nat) (m : Nat) (l : List (Nat × List Bool)) (h : ∀ p ∈ l, sp_CovOk U N m p)
    (acc : List (Nat × List Bool) × List Bool) (hacc : ∀ p ∈ acc.1, sp_CovOk U N m p) :
    ∀ p ∈ (l.foldl (fun (acc : List (Nat × List Bool) × List Bool) p =>
      let (c', rest) := presolveStep p.2 acc.2
      (acc.1 ++ [(p.1, c')], rest)) acc).1, sp_CovOk U N m p := by
  induction l generalizing acc with
  | nil => exact hacc
  | cons q l ih =>
    rw [List.foldl_cons]
    apply ih (fun p hp => h p (List.mem_cons_of_mem _ hp))
    intro p hp
    simp only [List.mem_append, List.mem_singleton] at hp
    rcases hp with hp | rfl
    · exact hacc p hp
    · exact sp_covOk_shrink U N m q.1 q.2 _ (h q (List.mem_cons_self ..)) (sp_shrink_presolve _ _)

theorem sp_cov3_ok (s : Settings) (answers : List Bool) (U N : List Nat) (m : Nat)
    (l : List (Nat × List Bool)) (h : ∀ p ∈ l, sp_CovOk U N m p) :
    ∀ p ∈ sp_cov3 s answers l, sp_CovOk U N m p := by
  unfold sp_cov3
  split
  · exact sp_foldl_ok U N m l h ([], answers) (by simp)
  · exact h

theorem sp_default_covers_ok (alpha : List (List Rat)) (signs : Option (List CSign)) (hasX : Bool) (s : Settings)
    (answers : List Bool) :
    ∀ p ∈ (defaultEch alpha signs hasX s answers).covers,
      p.1 ∈ (defaultEch alpha signs hasX s answers).U ∧ p.2.length = alpha.length ∧
      p.1 ∉ trueIdx p.2 ∧ ∀ j ∈ trueIdx p.2, j ∉ (defaultEch alpha signs hasX s answers).N := by
  rw [sp_defaultEch_eq]
  simp only []
  intro p hp
  have := sp_cov3_ok s answers _ _ alpha.length _
    (sp_cov2_ok hasX _ _ alpha.length _ (sp_cov1_ok alpha hasX s _ _ alpha.length _
      (sp_cov0_ok alpha.length (sp_UNP alpha.length signs).1 (sp_UNP alpha.length signs).2.1))) p hp
  obtain ⟨h1, h2, h3⟩ := this
  refine ⟨h1, h2, ?_, ?_⟩
  · intro hmem
    rw [sp_mem_trueIdx] at hmem
    exact (h3 _ hmem).2 rfl
  · intro j hj
    rw [sp_mem_trueIdx] at hj
    exact (h3 _ hj).1

theorem sp_outside_U_nonneg (alpha : List (List Rat)) (c : List AffE) (hasX : Bool) (s : Settings)
    (answers : List Bool) (j : Nat) (hj : j < c.length) (hja : j < alpha.length)
    (hnot : j ∉ (defaultEch alpha (some (c.map classify)) hasX s answers).U) :
    (c.getD j (constE 0)).co = [] ∧ 0 ≤ (c.getD j (constE 0)).off := by
  rw [sp_defaultEch_eq] at hnot
  simp only [sp_UNP, List.mem_filter, List.mem_range, hja, true_and] at hnot
  have hg : (c.map classify).getD j .zero = classify (c.getD j (constE 0)) := by
    simp [List.getD_eq_getElem?_getD, hj]
  rw [hg] at hnot
  generalize c.getD j (constE 0) = a at hnot ⊢
  unfold classify at hnot
  by_cases h1 : a.co.isEmpty = true
  · have hco : a.co = [] := by simpa using h1
    refine ⟨hco, ?_⟩
    by_contra hneg
    have hlt : a.off < 0 := not_le.1 hneg
    apply hnot
    simp [h1, hlt]
    exact Or.inr rfl
  · exfalso
    apply hnot
    simp [h1]
    exact Or.inl rfl

end Sageopt.Sage
