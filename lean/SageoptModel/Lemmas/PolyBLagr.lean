/-
Helper lemmas for C05 part B, part 3: real evaluation (`polyR`, at an arbitrary real point) through the
building blocks of `modLagrangian`, `makePolyLagrangian` and `conModulator`:
`L0 = f − γ`, products with an embedded numeric polynomial, the summands `−g·s_g`, the sum of the summands,
numeric products / powers.
-/
import SageoptModel.Lemmas.PolyBRows
import SageoptModel.Lemmas.RelaxSigBuild

namespace Sageopt.Poly
open Sageopt Sageopt.Sig Sageopt.Sig.Hom Sageopt.Relax Sageopt.RelaxSig Sageopt.Props Sageopt.Props.C13

theorem pb_wf_of_rows {C : Type} (f : SigT C) (hr : pb_Rows (pb_PolyRow f.n) f.terms)
    (hnd : (keys f.terms).Nodup) : Wf f :=
  ⟨fun t ht => (hr t ht).1, fun t ht => pb_isPolyExp_onGrid (hr t ht).2, hnd⟩

theorem pb_evalL_eq (σ : Nat → Rat) (ts : List (Exp × Lin)) : evalL σ ts = mapT (Lin.value σ) ts := rfl

noncomputable section

theorem pb_polyR_single (n : Nat) (v : Rat) (x : List ℝ) : polyR [(zeroExp n, v)] x = (v : ℝ) := by
  rw [pb_polyR_cons, pb_polyR_nil, pb_monoR_zeroExp]
  simp

/-! ### `L0 = f − γ` -/

/-- the polynomial `f − γ` with the scalar variable `γ` -/
def pb_L0 (f : SigQ) (γ : Nat) : SigL :=
  okOr (add Lin.isZero (embed f) (const f.n (Lin.scale (-1) (Lin.var γ)))) (embed f)

theorem pb_L0_spec (f : SigQ) (hf : Wf f) (hr : pb_Rows (pb_PolyRow f.n) f.terms) (γ : Nat)
    (σ : Nat → Rat) (x : List ℝ) :
    Wf (pb_L0 f γ) ∧ (pb_L0 f γ).n = f.n ∧ pb_Rows (pb_PolyRow f.n) (pb_L0 f γ).terms ∧
    polyR (evalL σ (pb_L0 f γ).terms) x = polyR f.terms x - (σ γ : ℝ) := by
  unfold pb_L0
  rw [lg_add_ok]
  simp only [okOr]
  have h := fun a => map_add σ (embed f) (const f.n (Lin.scale (-1) (Lin.var γ))) _ (lg_embed_wf f hf)
    (Gen.const_wf _ _) (lg_add_ok f _) a
  have hn : (sumList f.n [embed f, const f.n (Lin.scale (-1) (Lin.var γ))]).n = f.n :=
    Gen.sumList_n _ _ (by
      intro y hy
      simp only [List.mem_cons, List.not_mem_nil, or_false] at hy
      rcases hy with rfl | rfl <;> rfl)
  refine ⟨(h []).1, ?_, ?_, ?_⟩
  · rw [Gen.withoutZeros_n]
    exact hn
  · apply pb_rows_withoutZeros (pb_polyRow_closed f.n) Lin.isZero _ hn
    apply pb_rows_sumList (pb_polyRow_closed f.n)
    intro y hy
    simp only [List.mem_cons, List.not_mem_nil, or_false] at hy
    rcases hy with rfl | rfl
    · exact pb_rows_embed f hr
    · exact pb_rows_const (pb_polyRow_closed f.n) _
  · have h1 : polyR (mapσ σ (withoutZeros Lin.isZero
        (sumList f.n [embed f, const f.n (Lin.scale (-1) (Lin.var γ))]))).terms x =
        polyR (mapσ σ (embed f)).terms x + polyR (mapσ σ (const f.n (Lin.scale (-1) (Lin.var γ)))).terms x :=
      pb_polyR_add_of_coeff x (fun a => (h a).2)
    have h2 : polyR (mapσ σ (const f.n (Lin.scale (-1) (Lin.var γ)))).terms x = -(σ γ : ℝ) := by
      rw [pb_polyR_congr x (map_const σ f.n (Lin.scale (-1) (Lin.var γ))), const_terms, pb_polyR_single,
        rs_value_gamma]
      push_cast
      rfl
    rw [lg_mapσ_embed, h2] at h1
    show polyR (mapσ σ _).terms x = _
    rw [h1]
    ring

/-! ### product with an embedded numeric polynomial on the right: `(f − γ)·modulator` -/

theorem pb_mul_embed_right (n : Nat) (L : SigL) (m : SigQ) (hL : Wf L) (hLn : L.n = n)
    (hLr : pb_Rows (pb_PolyRow n) L.terms) (hm : Wf m) (hmn : m.n = n) (hmr : pb_Rows (pb_PolyRow n) m.terms)
    (σ : Nat → Rat) (x : List ℝ) :
    polyR (evalL σ (okOr (mul Lin.isZero L (embed m)) L).terms) x =
      polyR (evalL σ L.terms) x * polyR m.terms x := by
  have hE : Wf (embed m) := lg_embed_wf m hm
  have hnn : L.n = (embed m).n := by rw [hLn, lg_embed_n, hmn]
  have hmul : mul Lin.isZero L (embed m) = .ok (withoutZeros Lin.isZero (product L (embed m))) := by
    unfold mul
    rw [if_neg (by simpa using hnn)]
  rw [hmul]
  simp only [okOr]
  have hmm : ∀ t1 ∈ L.terms, ∀ t2 ∈ (embed m).terms,
      Lin.value σ (t1.2 * t2.2) = Lin.value σ t1.2 * Lin.value σ t2.2 := by
    intro t1 _ t2 h2
    obtain ⟨u, _, rfl⟩ := List.mem_map.1 h2
    exact Lin.value_mul_of_right_const σ _ _ rfl
  have hc : ∀ a, coeff (evalL σ (withoutZeros Lin.isZero (product L (embed m))).terms) a =
      coeff (prodTerms (evalL σ L.terms) m.terms) a := by
    intro a
    rw [pb_evalL_eq, pb_evalL_eq,
      coeff_mapT_withoutZeros (LinC.value_isAddHom σ) Lin.isZero (LinC.isZero_value σ) _
        (Gen.product_wf _ _ hL hE hnn) a,
      coeff_mapT_product (LinC.value_isAddHom σ) _ _ hL.grid hE.grid hmm a, rs_mapT_embed]
  rw [pb_polyR_congr x hc, pb_polyR_prodTerms n x _ _ (pb_rows_evalL σ _ hLr) hmr]

/-! ### the summands `−g · s_g` -/

theorem pb_summand (n : Nat) (σ : Nat → Rat) (x : List ℝ) (g : SigQ) (hg : Wf g) (hgn : g.n = n)
    (hgr : pb_Rows (pb_PolyRow n) g.terms) (am : List Exp) (ham : ∀ a ∈ am, pb_PolyRow n a) (ids : List Nat) :
    Wf (okOr (mul Lin.isZero (embed (neg isZeroQ g)) (varSig n am ids)) (embed g)) ∧
    (okOr (mul Lin.isZero (embed (neg isZeroQ g)) (varSig n am ids)) (embed g)).n = n ∧
    polyR (evalL σ (okOr (mul Lin.isZero (embed (neg isZeroQ g)) (varSig n am ids)) (embed g)).terms) x =
      - (polyR (evalL σ (varSig n am ids).terms) x * polyR g.terms x) := by
  obtain ⟨w1, w2, _⟩ := lg_summand n (fun _ => 1) (lg_oneChar n).isGridChar σ g hg hgn am
    (fun r hr => (ham r hr).1) ids
  refine ⟨w1, w2, ?_⟩
  rw [lg_mul_ok n g hgn]
  simp only [okOr]
  have hneg : Wf (neg isZeroQ g) := (C12.neg_hom isZeroQ isZeroQ_iff g hg []).1
  have hnn : (neg isZeroQ g).n = n := by rw [neg, smul_n, hgn]
  have hA : Wf (embed (neg isZeroQ g)) := lg_embed_wf _ hneg
  have hB : Wf (varSig n am ids) := lg_varSig_wf n am (fun r hr => (ham r hr).1) ids
  have hp : Wf (product (embed (neg isZeroQ g)) (varSig n am ids)) :=
    Gen.product_wf _ _ hA hB (by rw [lg_embed_n, hnn, lg_varSig_n])
  have hmm : ∀ t1 ∈ (embed (neg isZeroQ g)).terms, ∀ t2 ∈ (varSig n am ids).terms,
      Lin.value σ (t1.2 * t2.2) = Lin.value σ t1.2 * Lin.value σ t2.2 :=
    fun t1 h1 t2 _ => Lin.value_mul_of_left_const σ t1.2 t2.2 (lg_embed_const _ t1 h1)
  have hc : ∀ a, coeff (evalL σ (withoutZeros Lin.isZero
      (product (embed (neg isZeroQ g)) (varSig n am ids))).terms) a =
      coeff (prodTerms (neg isZeroQ g).terms (evalL σ (varSig n am ids).terms)) a := by
    intro a
    rw [pb_evalL_eq, pb_evalL_eq,
      coeff_mapT_withoutZeros (LinC.value_isAddHom σ) Lin.isZero (LinC.isZero_value σ) _ hp a,
      coeff_mapT_product (LinC.value_isAddHom σ) _ _ hA.grid hB.grid hmm a, rs_mapT_embed]
  rw [pb_polyR_congr x hc,
    pb_polyR_prodTerms n x _ _ (pb_rows_neg (pb_polyRow_closed n) g hgn hgr)
      (pb_rows_evalL σ _ (pb_rows_varSig (pb_polyRow_closed n).grid n am ham ids)),
    pb_polyR_neg_of_coeff x (fun a => (C12.neg_hom isZeroQ isZeroQ_iff g hg a).2)]
  ring

/-! ### the sum of the summands -/

theorem pb_sum_map_neg {ι : Type} (l : List ι) (F G : ι → ℝ) (h : ∀ i ∈ l, F i = - G i) :
    (l.map F).sum = - (l.map G).sum := by
  induction l with
  | nil => simp
  | cons i l ih =>
    rw [List.map_cons, List.sum_cons, List.map_cons, List.sum_cons, h i (by simp),
      ih (fun y hy => h y (List.mem_cons_of_mem _ hy))]
    ring

theorem pb_sum_identity (n : Nat) (σ : Nat → Rat) (x : List ℝ) (L0 : SigL) (hL0 : Wf L0 ∧ L0.n = n)
    (S : SigQ × List Nat → SigL) (V : SigQ × List Nat → ℝ) (A B : List (SigQ × List Nat))
    (hA : ∀ p ∈ A, (Wf (S p) ∧ (S p).n = n) ∧ polyR (evalL σ (S p).terms) x = - V p)
    (hB : ∀ p ∈ B, (Wf (S p) ∧ (S p).n = n) ∧ polyR (evalL σ (S p).terms) x = - V p) :
    polyR (evalL σ (sumList n ([L0] ++ A.map S ++ B.map S)).terms) x =
      polyR (evalL σ L0.terms) x - (A.map V).sum - (B.map V).sum := by
  have hfs : ∀ f ∈ [L0] ++ A.map S ++ B.map S, Wf f ∧ f.n = n := by
    intro f hf
    simp only [List.mem_append, List.mem_singleton, List.mem_map] at hf
    rcases hf with (rfl | ⟨p, hp, rfl⟩) | ⟨p, hp, rfl⟩
    · exact hL0
    · exact (hA p hp).1
    · exact (hB p hp).1
  have hs : polyR (evalL σ (sumList n ([L0] ++ A.map S ++ B.map S)).terms) x =
      (([L0] ++ A.map S ++ B.map S).map fun f => polyR (evalL σ f.terms) x).sum :=
    pb_polyR_sum_of_coeff x _ ([L0] ++ A.map S ++ B.map S) (fun f => evalL σ f.terms)
      (fun a => map_sumList σ n _ hfs (by simp) a)
  rw [hs, List.map_append, List.map_append, List.sum_append, List.sum_append, List.map_map, List.map_map,
    pb_sum_map_neg A ((fun f : SigL => polyR (evalL σ f.terms) x) ∘ S) V (fun p hp => (hA p hp).2),
    pb_sum_map_neg B ((fun f : SigL => polyR (evalL σ f.terms) x) ∘ S) V (fun p hp => (hB p hp).2)]
  simp only [List.map_cons, List.map_nil, List.sum_cons, List.sum_nil]
  ring

/-! ### numeric products and powers -/

theorem pb_polyR_withoutZeros (x : List ℝ) (f : SigQ) (hf : Wf f) :
    polyR (withoutZeros isZeroQ f).terms x = polyR f.terms x :=
  pb_polyR_congr x (withoutZeros_coeff' isZeroQ isZeroQ_iff f hf.grid)

theorem pb_polyR_product (n : Nat) (x : List ℝ) (f g : SigQ) (hf : Wf f) (hg : Wf g)
    (hfr : pb_Rows (pb_PolyRow n) f.terms) (hgr : pb_Rows (pb_PolyRow n) g.terms) :
    polyR (product f g).terms x = polyR f.terms x * polyR g.terms x := by
  rw [product_terms f g hf.grid hg.grid, pb_polyR_congr x (consolidate_coeff _),
    pb_polyR_prodTerms n x _ _ hfr hgr]

theorem pb_polyR_mulQ (n : Nat) (x : List ℝ) (f g : SigQ) (hf : Wf f) (hg : Wf g) (hn : f.n = g.n)
    (hfr : pb_Rows (pb_PolyRow n) f.terms) (hgr : pb_Rows (pb_PolyRow n) g.terms) :
    polyR (mulQ f g).terms x = polyR f.terms x * polyR g.terms x := by
  unfold mulQ
  rw [pb_polyR_withoutZeros x _ (product_wf f g hf hg hn), pb_polyR_product n x f g hf hg hfr hgr]

theorem pb_polyR_foldl_mulQ (n : Nat) (x : List ℝ) (gs : List SigQ)
    (hgs : ∀ g ∈ gs, Wf g ∧ g.n = n ∧ pb_Rows (pb_PolyRow n) g.terms) (g : SigQ) (hg : Wf g) (hgn : g.n = n)
    (hgr : pb_Rows (pb_PolyRow n) g.terms) :
    polyR (gs.foldl mulQ g).terms x = polyR g.terms x * (gs.map fun g => polyR g.terms x).prod := by
  induction gs generalizing g with
  | nil => simp
  | cons y gs ih =>
    obtain ⟨hy, hyn, hyr⟩ := hgs y (by simp)
    rw [List.foldl_cons, ih (fun g hg => hgs g (List.mem_cons_of_mem _ hg)) (mulQ g y)
      (lg_mulQ_wf g y hg hy (by rw [hgn, hyn])) (by rw [lg_mulQ_n, hgn])
      (pb_rows_mulQ (pb_polyRow_closed n) g y hgn hgr hyr),
      pb_polyR_mulQ n x g y hg hy (by rw [hgn, hyn]) hgr hyr, List.map_cons, List.prod_cons]
    ring

theorem pb_polyR_powLoop (n : Nat) (x : List ℝ) (f : SigQ) (hf : Wf f) (hfn : f.n = n)
    (hfr : pb_Rows (pb_PolyRow n) f.terms) (k : Nat) (s : SigQ) (hs : Wf s) (hsn : s.n = n)
    (hsr : pb_Rows (pb_PolyRow n) s.terms) :
    polyR ((List.range k).foldl (fun s _ => withoutZeros isZeroQ (product s f)) s).terms x =
      polyR s.terms x * (polyR f.terms x) ^ k := by
  induction k generalizing s with
  | zero => simp
  | succ k ih =>
    rw [List.range_succ_eq_map, List.foldl_cons, List.foldl_map]
    have hp : Wf (product s f) := product_wf s f hs hf (by rw [hsn, hfn])
    have hs' : Wf (withoutZeros isZeroQ (product s f)) := withoutZeros_wf' isZeroQ _ hp
    have hsn' : (withoutZeros isZeroQ (product s f)).n = n := by
      rw [withoutZeros_n]; exact hsn
    have hsr' : pb_Rows (pb_PolyRow n) (withoutZeros isZeroQ (product s f)).terms :=
      pb_rows_withoutZeros (pb_polyRow_closed n) isZeroQ _ (by rw [Gen.product_n, hsn])
        (pb_rows_product (pb_polyRow_closed n) s f hsr hfr)
    rw [ih _ hs' hsn' hsr', pb_polyR_withoutZeros x _ hp, pb_polyR_product n x s f hs hf hsr hfr]
    ring

/-- `polyR (f^k) x = (polyR f x)^k` at every real point -/
theorem pb_polyR_powNat (n : Nat) (x : List ℝ) (f : SigQ) (hf : Wf f) (hfn : f.n = n)
    (hfr : pb_Rows (pb_PolyRow n) f.terms) (k : Nat) :
    polyR (powNat isZeroQ f k).terms x = (polyR f.terms x) ^ k := by
  cases k with
  | zero =>
    unfold powNat
    rw [const_terms, pow_zero, pb_polyR_single]
    simp
  | succ k =>
    unfold powNat
    simp only []
    rw [mk_id' f hf, pb_polyR_powLoop n x f hf hfn hfr k f hf hfn hfr]
    ring

/-! ### the even modulator of the constrained builders -/

/-- `Polynomial(2·E_1, ones)` -/
def pb_evenBase (n : Nat) (alphas : List (List Exp)) : SigQ :=
  mk n ((hierarchyEk n alphas 1).map fun a => (a.map (2 * ·), (1 : Rat)))

theorem pb_conModulator_eq (n : Nat) (alphas : List (List Exp)) (ell : Nat) :
    conModulator n alphas ell = powNat isZeroQ (pb_evenBase n alphas) ell := rfl

theorem pb_evenBase_pre_rows (n : Nat) (alphas : List (List Exp))
    (h : ∀ l ∈ alphas, ∀ a ∈ l, pb_PolyRow n a) :
    pb_Rows (pb_EvenRow n) ((hierarchyEk n alphas 1).map fun a => (a.map (2 * ·), (1 : Rat))) := by
  intro t ht
  obtain ⟨a, ha, rfl⟩ := List.mem_map.1 ht
  obtain ⟨h1, h2⟩ := pb_hierarchyEk_rows (pb_polyRow_closed n) alphas h 1 a ha
  exact ⟨by rw [List.length_map, h1], pb_isPolyExp_double h2, pb_isEvenExp_double h2⟩

theorem pb_evenBase_rows (n : Nat) (alphas : List (List Exp))
    (h : ∀ l ∈ alphas, ∀ a ∈ l, pb_PolyRow n a) : pb_Rows (pb_EvenRow n) (pb_evenBase n alphas).terms :=
  pb_rows_mk (pb_evenRow_closed n).grid _ _ (pb_evenBase_pre_rows n alphas h)

theorem pb_evenBase_wf (n : Nat) (alphas : List (List Exp))
    (h : ∀ l ∈ alphas, ∀ a ∈ l, pb_PolyRow n a) : Wf (pb_evenBase n alphas) := by
  unfold pb_evenBase
  apply mk_wf'
  intro t ht
  exact (pb_evenBase_pre_rows n alphas h t ht).1

theorem pb_conModulator_rows (n : Nat) (alphas : List (List Exp))
    (h : ∀ l ∈ alphas, ∀ a ∈ l, pb_PolyRow n a) (ell : Nat) :
    pb_Rows (pb_EvenRow n) (conModulator n alphas ell).terms := by
  rw [pb_conModulator_eq]
  exact pb_rows_powNat (pb_evenRow_closed n) _ rfl (pb_evenBase_rows n alphas h) ell

theorem pb_polyR_ones (x : List ℝ) (rows : List Exp) :
    polyR (rows.map fun a => (a, (1 : Rat))) x = (rows.map fun a => monoR a x).sum := by
  induction rows with
  | nil => simp
  | cons a rows ih =>
    rw [List.map_cons, pb_polyR_cons, ih, List.map_cons, List.sum_cons]
    simp

theorem pb_evenBase_eval (n : Nat) (alphas : List (List Exp))
    (h : ∀ l ∈ alphas, ∀ a ∈ l, pb_PolyRow n a) (x : List ℝ) :
    polyR (pb_evenBase n alphas).terms x =
      ((hierarchyEk n alphas 1).map fun a => monoR (a.map (2 * ·)) x).sum := by
  unfold pb_evenBase
  rw [pb_polyR_congr x (mk_coeff' n _),
    rounded_of_grid (fun t ht => (pb_evenRow_closed n).grid _ (pb_evenBase_pre_rows n alphas h t ht))]
  have e : ((hierarchyEk n alphas 1).map fun a => (a.map (2 * ·), (1 : Rat))) =
      ((hierarchyEk n alphas 1).map fun a => a.map (2 * ·)).map fun b => (b, (1 : Rat)) := by
    rw [List.map_map]; rfl
  rw [e, pb_polyR_ones, List.map_map]
  rfl

/-- the even modulator is the `ell`-th power of a sum of even monomials, at every real point -/
theorem pb_conModulator_eval (n : Nat) (alphas : List (List Exp))
    (h : ∀ l ∈ alphas, ∀ a ∈ l, pb_PolyRow n a) (ell : Nat) (x : List ℝ) :
    polyR (conModulator n alphas ell).terms x =
      (((hierarchyEk n alphas 1).map fun a => monoR (a.map (2 * ·)) x).sum) ^ ell := by
  rw [pb_conModulator_eq, pb_polyR_powNat n x _ (pb_evenBase_wf n alphas h) rfl
    (pb_rows_mono (fun a ha => ⟨ha.1, ha.2.1⟩) (pb_evenBase_rows n alphas h)) ell,
    pb_evenBase_eval n alphas h x]

theorem pb_evenSum_nonneg (n : Nat) (alphas : List (List Exp))
    (h : ∀ l ∈ alphas, ∀ a ∈ l, pb_PolyRow n a) (x : List ℝ) :
    0 ≤ ((hierarchyEk n alphas 1).map fun a => monoR (a.map (2 * ·)) x).sum := by
  apply List.sum_nonneg
  intro y hy
  obtain ⟨a, ha, rfl⟩ := List.mem_map.1 hy
  exact pb_monoR_even_nonneg _ x
    (pb_isEvenExp_double (pb_hierarchyEk_rows (pb_polyRow_closed n) alphas h 1 a ha).2)

theorem pb_evenSum_pos (n : Nat) (alphas : List (List Exp))
    (h : ∀ l ∈ alphas, ∀ a ∈ l, pb_PolyRow n a) (hne : alphas.flatten ≠ []) (x : List ℝ) (hx : NoZero x) :
    0 < ((hierarchyEk n alphas 1).map fun a => monoR (a.map (2 * ·)) x).sum := by
  have hpos : ∀ a ∈ hierarchyEk n alphas 1, 0 < monoR (a.map (2 * ·)) x := fun a ha =>
    pb_monoR_even_pos _ x
      (pb_isEvenExp_double (pb_hierarchyEk_rows (pb_polyRow_closed n) alphas h 1 a ha).2) hx
  have hne' : hierarchyEk n alphas 1 ≠ [] := by
    rw [pb_hierarchyEk_one n alphas (fun l hl a ha => pb_isPolyExp_onGrid (h l hl a ha).2)]
    obtain ⟨r, hr⟩ := List.exists_mem_of_ne_nil _ hne
    exact List.ne_nil_of_mem ((mem_sortedKeys _ _).2 hr)
  generalize hierarchyEk n alphas 1 = e1 at hpos hne'
  cases e1 with
  | nil => exact absurd rfl hne'
  | cons a rest =>
    rw [List.map_cons, List.sum_cons]
    apply add_pos_of_pos_of_nonneg (hpos a (by simp))
    apply List.sum_nonneg
    intro y hy
    obtain ⟨b, hb, rfl⟩ := List.mem_map.1 hy
    exact (hpos b (List.mem_cons_of_mem _ hb)).le

end

end Sageopt.Poly
