/-
Semantics used to state the C10 theorems: matrix-vector products over a commutative ring, blockwise
cone membership with the nonlinear cones (`S`, `e`, `de`) as abstract predicates, and the readings of
the ECOS data / MOSEK task.  (Definitions only; lemmas about them follow below / in other files.)
-/
import SageoptModel.Model.Solvers
import Mathlib.Algebra.Order.Ring.Defs
import Mathlib.Algebra.BigOperators.Group.List.Basic

namespace Sageopt.Solvers
open Sageopt

variable {R : Type}

def dot [Mul R] [Add R] [Zero R] (a x : List R) : R := (List.zipWith (· * ·) a x).sum
def mulVec [Mul R] [Add R] [Zero R] (A : Mat R) (x : Vec R) : Vec R := A.map (dot · x)
def addVec [Add R] (u v : Vec R) : Vec R := List.zipWith (· + ·) u v
def subVec [Sub R] (u v : Vec R) : Vec R := List.zipWith (· - ·) u v
/-- `A x + b` -/
def slack [Mul R] [Add R] [Zero R] (A : Mat R) (b x : Vec R) : Vec R := addVec (mulVec A x) b

/-- a family of cone predicates: linear cones are fixed, nonlinear ones are whatever `P` says -/
structure ConeSem (R : Type) [Zero R] [LE R] where
  P : CType → List R → Prop
  zero_iff : ∀ v, P .zero v ↔ ∀ a ∈ v, a = 0
  pos_iff : ∀ v, P .pos v ↔ ∀ a ∈ v, 0 ≤ a
  free_iff : ∀ v, P .free v ↔ True

/-- `s ∈ K₁ × K₂ × …` blockwise -/
def FeasBlocks (P : CType → List R → Prop) : List Cone → List R → Prop
  | [], _ => True
  | co :: K, s => P co.type (s.take co.len) ∧ FeasBlocks P K (s.drop co.len)

/-- well-formed system: row count matches the cones, every row has `n` entries, exponential
    cones have length 3 -/
structure WFSys (n : Nat) (A : Mat R) (b : Vec R) (K : List Cone) : Prop where
  rows : A.length = (K.map (·.len)).sum
  rhs : b.length = (K.map (·.len)).sum
  width : ∀ r ∈ A, r.length = n
  exp3 : ∀ co ∈ K, co.type = .exp → co.len = 3

/-- the set ECOS is told about: `A x = b`, `h - G x ∈ R₊^l × Q^{q₁} × … × K_exp^e` -/
def FeasECOS [Mul R] [Add R] [Sub R] [Zero R] [LE R] (P : CType → List R → Prop) (d : EcosData R) (x : Vec R) : Prop :=
  mulVec d.A x = d.b ∧
  let s := subVec d.h (mulVec d.G x)
  (∀ a ∈ s.take d.l, 0 ≤ a) ∧
  FeasBlocks P (d.q.map fun k => ⟨.soc, k⟩) ((s.drop d.l).take d.q.sum) ∧
  FeasBlocks P (List.replicate d.e ⟨.exp, 3⟩) (s.drop (d.l + d.q.sum))

/-- reading of a MOSEK task (trusted: MOSEK's documented meaning of bound keys and cone types;
    `PM` gives MOSEK's cones over the member values in MOSEK's order) -/
def TaskFeas [Mul R] [Add R] [Zero R] [LE R] (PM : MosekConeKind → List R → Prop) (t : MosekTask R) (z : Vec R) : Prop :=
  z.length = t.nvars ∧
  (∀ p ∈ (t.varBounds.zip z), (p.1 = .lo → 0 ≤ p.2) ∧ (p.1 = .fx → p.2 = 0) ∧ (p.1 = .up → p.2 ≤ 0)) ∧
  (∀ p ∈ (t.conBounds.zip (mulVec t.aij z)),
      (p.1.1 = .up → p.2 ≤ p.1.2) ∧ (p.1.1 = .fx → p.2 = p.1.2) ∧ (p.1.1 = .lo → p.1.2 ≤ p.2)) ∧
  (∀ c ∈ t.cones, PM c.1 (c.2.map fun k => z.getD k 0))

end Sageopt.Solvers
