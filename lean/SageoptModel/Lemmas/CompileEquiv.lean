/-
C07 helper lemmas, the equivalence: dependence of the semantics on the assignment, the values of the
atoms, the extension of an assignment to the epigraph variables, and both directions of
`compile_equiv`.
-/
import SageoptModel.Lemmas.CompileBlocks

namespace Sageopt.Compile
open Sageopt Sageopt.Solvers Sageopt.Analysis

/-! ### dependence on the assignment -/

theorem argVal_congr (σ σ' : Nat → ℝ) (x : AffArg) (h : ∀ p ∈ x.co, σ' p.1 = σ p.1) :
    argVal σ' x = argVal σ x := by
  unfold argVal
  congr 1
  congr 1
  apply List.map_congr_left
  intro p hp
  rw [h p hp]

theorem atomLe_congr_env (σ σ' : Nat → ℝ) (a : NlAtom)
    (h : ∀ x ∈ a.args, ∀ p ∈ x.co, σ' p.1 = σ p.1) (t : ℝ) : AtomLe σ' a t ↔ AtomLe σ a t := by
  obtain ⟨k, ar, e⟩ := a
  simp only at h
  cases k
  · rcases ar with _ | ⟨x, _ | ⟨y, rest⟩⟩
    · exact Iff.rfl
    · show |argVal σ' x| ≤ t ↔ |argVal σ x| ≤ t
      rw [argVal_congr σ σ' x (h x (by simp))]
    · exact Iff.rfl
  · rcases ar with _ | ⟨x, _ | ⟨y, rest⟩⟩
    · exact Iff.rfl
    · show max (argVal σ' x) 0 ≤ t ↔ max (argVal σ x) 0 ≤ t
      rw [argVal_congr σ σ' x (h x (by simp))]
    · exact Iff.rfl
  · rcases ar with _ | ⟨x, _ | ⟨y, rest⟩⟩
    · exact Iff.rfl
    · show Real.exp (argVal σ' x) ≤ t ↔ Real.exp (argVal σ x) ≤ t
      rw [argVal_congr σ σ' x (h x (by simp))]
    · exact Iff.rfl
  · rcases ar with _ | ⟨x, _ | ⟨y, _ | ⟨z, rest⟩⟩⟩
    · exact Iff.rfl
    · exact Iff.rfl
    · show ((0 < argVal σ' x ∧ 0 < argVal σ' y ∧ argVal σ' x * Real.log (argVal σ' x / argVal σ' y) ≤ t) ∨
          (argVal σ' x = 0 ∧ 0 ≤ argVal σ' y ∧ 0 ≤ t)) ↔
        ((0 < argVal σ x ∧ 0 < argVal σ y ∧ argVal σ x * Real.log (argVal σ x / argVal σ y) ≤ t) ∨
          (argVal σ x = 0 ∧ 0 ≤ argVal σ y ∧ 0 ≤ t))
      rw [argVal_congr σ σ' x (h x (by simp)), argVal_congr σ σ' y (h y (by simp))]
    · exact Iff.rfl
  · show Real.sqrt ((ar.map fun x => (argVal σ' x) ^ 2).sum) ≤ t ↔
      Real.sqrt ((ar.map fun x => (argVal σ x) ^ 2).sum) ≤ t
    have : (ar.map fun x => (argVal σ' x) ^ 2) = (ar.map fun x => (argVal σ x) ^ 2) := by
      apply List.map_congr_left
      intro x hx
      rw [argVal_congr σ σ' x (h x hx)]
    rw [this]

theorem termsVal_congr (σ σ' : Nat → ℝ) (τ τ' : NlAtom → ℝ) (ts : List (AtomRef × Rat))
    (hv : ∀ id c, (AtomRef.var id, c) ∈ ts → σ' id = σ id)
    (ha : ∀ b c, (AtomRef.nl b, c) ∈ ts → τ' b = τ b) :
    termsVal σ' τ' ts = termsVal σ τ ts := by
  induction ts with
  | nil => rfl
  | cons u us ih =>
    rw [termsVal_cons, termsVal_cons, ih (fun id c h => hv id c (List.mem_cons_of_mem _ h))
      (fun b c h => ha b c (List.mem_cons_of_mem _ h))]
    obtain ⟨ref, c⟩ := u
    cases ref with
    | var id => simp only; rw [hv id c (List.mem_cons_self ..)]
    | nl b => simp only; rw [ha b c (List.mem_cons_self ..)]

theorem termsVal_mono (σ σ' : Nat → ℝ) (τ τ' : NlAtom → ℝ) (ts : List (AtomRef × Rat))
    (hv : ∀ id c, (AtomRef.var id, c) ∈ ts → σ' id = σ id)
    (ha : ∀ b c, (AtomRef.nl b, c) ∈ ts → 0 < c ∧ τ b ≤ τ' b) :
    termsVal σ τ ts ≤ termsVal σ' τ' ts := by
  induction ts with
  | nil => exact le_refl _
  | cons u us ih =>
    rw [termsVal_cons, termsVal_cons]
    have := ih (fun id c h => hv id c (List.mem_cons_of_mem _ h))
      (fun b c h => ha b c (List.mem_cons_of_mem _ h))
    obtain ⟨ref, c⟩ := u
    cases ref with
    | var id => simp only; rw [hv id c (List.mem_cons_self ..)]; linarith
    | nl b =>
      simp only
      obtain ⟨hc, hb⟩ := ha b c (List.mem_cons_self ..)
      have hc' : (0 : ℝ) < (c : ℝ) := by exact_mod_cast hc
      have := mul_le_mul_of_nonneg_left hb hc'.le
      linarith

theorem affVal_congr (σ σ' : Nat → ℝ) (r : SRow) (h : ∀ id ∈ rowVarIds r, σ' id = σ id) :
    affVal σ' r = affVal σ r := by
  unfold affVal
  rw [rowValWith_eq, rowValWith_eq]
  congr 1
  exact termsVal_congr σ σ' _ _ r.terms (fun id c hm => h id (var_mem_rowVarIds r id c hm)) (fun _ _ _ => rfl)

theorem map_affVal_congr (σ σ' : Nat → ℝ) (rows : List SRow) (h : ∀ id ∈ rows.flatMap rowVarIds, σ' id = σ id) :
    rows.map (affVal σ') = rows.map (affVal σ) := by
  apply List.map_congr_left
  intro r hr
  exact affVal_congr σ σ' r (fun id hid => h id (List.mem_flatMap.2 ⟨r, hr, hid⟩))

theorem holds_congr_setm (Q : CType → List ℝ → Prop) (σ σ' : Nat → ℝ) (c : Con) (hne : isElem c = false)
    (h : ∀ id ∈ conVarIds c, σ' id = σ id) : Holds Q σ' c ↔ Holds Q σ c := by
  cases c with
  | elem isEq rows => cases hne
  | primal y K => simp only [Holds]; rw [map_affVal_congr σ σ' y h]
  | dual y K => simp only [Holds]; rw [map_affVal_congr σ σ' y h]
  | pow w z => simp only [Holds]; rw [map_affVal_congr σ σ' (w ++ z) h]
  | psd arg => simp only [Holds]; rw [map_affVal_congr σ σ' (triuEntries arg) h]


/-! ### the values of the atoms and the extension of an assignment to the epigraph variables -/

noncomputable def atomValue (σ : Nat → ℝ) (b : NlAtom) : ℝ :=
  open Classical in if h : ∃ v, IsVal σ b v then Classical.choose h else 0

theorem atomValue_spec (σ : Nat → ℝ) (b : NlAtom) (h : ∃ v, IsVal σ b v) : IsVal σ b (atomValue σ b) := by
  unfold atomValue
  rw [dif_pos h]
  exact Classical.choose_spec h

noncomputable def extend (atoms : List NlAtom) (σ : Nat → ℝ) (id : Nat) : ℝ :=
  match atoms.find? (fun a => a.epi == id) with
  | some a => atomValue σ a
  | none => σ id

theorem extend_epi (atoms : List NlAtom) (hnd : (atoms.map (·.epi)).Nodup) (σ : Nat → ℝ) (a : NlAtom)
    (ha : a ∈ atoms) : extend atoms σ a.epi = atomValue σ a := by
  unfold extend
  cases hf : atoms.find? (fun a' => a'.epi == a.epi) with
  | none =>
    rw [List.find?_eq_none] at hf
    exact absurd (by simp) (hf a ha)
  | some a' =>
    have h1 := List.find?_some hf
    have h2 := List.mem_of_find?_eq_some hf
    have : a' = a := nodup_map_inj (·.epi) hnd h2 ha (by simpa using h1)
    rw [this]

theorem extend_other (atoms : List NlAtom) (σ : Nat → ℝ) (id : Nat) (h : id ∉ atoms.map (·.epi)) :
    extend atoms σ id = σ id := by
  unfold extend
  cases hf : atoms.find? (fun a' => a'.epi == id) with
  | none => rfl
  | some a' =>
    have h1 := List.find?_some hf
    have h2 := List.mem_of_find?_eq_some hf
    exact absurd (List.mem_map.2 ⟨a', h2, by simpa using h1⟩) h

theorem convexRow_pos (r : SRow) (h : ConvexRow r = true) (b : NlAtom) (c : Rat)
    (hm : (AtomRef.nl b, c) ∈ r.terms) : 0 < c := by
  unfold ConvexRow at h
  rw [List.all_eq_true] at h
  have := h _ hm
  simpa using this

theorem mem_rowAtoms (r : SRow) (b : NlAtom) : b ∈ rowAtoms r ↔ ∃ c, (AtomRef.nl b, c) ∈ r.terms :=
  mem_termAtoms b r.terms


/-! ### facts about the collected atoms of a constraint list -/

/-- the collected atoms -/
def atomsOf (cons : List Con) : List NlAtom := collectAtoms ((cons.filter isElem).flatMap elemRowsOf)

theorem mem_elemRows (cons : List Con) (r : SRow) :
    r ∈ (cons.filter isElem).flatMap elemRowsOf ↔ ∃ isEq rws, Con.elem isEq rws ∈ cons ∧ r ∈ rws := by
  rw [List.mem_flatMap]
  constructor
  · rintro ⟨c, hc, hr⟩
    obtain ⟨hc1, isEq, rws, rfl⟩ := mem_filter_isElem cons c hc
    exact ⟨isEq, rws, hc1, hr⟩
  · rintro ⟨isEq, rws, hc, hr⟩
    exact ⟨_, List.mem_filter.2 ⟨hc, rfl⟩, hr⟩

/-- F1: variables of the constraints are not epigraph variables -/
theorem conVar_not_epi (cons : List Con) (hfresh : EpiFresh cons) (c : Con) (hc : c ∈ cons) (id : Nat)
    (hid : id ∈ conVarIds c) : id ∉ (atomsOf cons).map (·.epi) := by
  intro hmem
  rw [List.mem_map] at hmem
  obtain ⟨a, ha, rfl⟩ := hmem
  exact hfresh.1 a ha (List.mem_flatMap.2 ⟨c, hc, hid⟩)

/-- F2: every collected atom occurs in a `≤` row -/
theorem atom_source (cons : List Con) (hconv : ∀ c ∈ cons, Convex c = true) (a : NlAtom)
    (ha : a ∈ atomsOf cons) : ∃ rws, Con.elem false rws ∈ cons ∧ ∃ r ∈ rws, a ∈ rowAtoms r := by
  obtain ⟨_, _, hsrc⟩ := collectAtoms_spec ((cons.filter isElem).flatMap elemRowsOf)
  obtain ⟨r, hr, har⟩ := hsrc a ha
  obtain ⟨isEq, rws, hc, hr'⟩ := (mem_elemRows cons r).1 hr
  cases isEq with
  | false => exact ⟨rws, hc, r, hr', har⟩
  | true =>
    have := hconv _ hc
    simp only [Convex, List.all_eq_true] at this
    have h0 := this r hr'
    rw [List.isEmpty_iff] at h0
    rw [h0] at har
    simp at har

/-- F3: every atom of an elementwise row has a collected representative -/
theorem atom_rep (cons : List Con) (isEq : Bool) (rws : List SRow) (hc : Con.elem isEq rws ∈ cons)
    (r : SRow) (hr : r ∈ rws) (b : NlAtom) (hb : b ∈ rowAtoms r) :
    ∃ a ∈ atomsOf cons, a.same b = true := by
  obtain ⟨_, hcover, _⟩ := collectAtoms_spec ((cons.filter isElem).flatMap elemRowsOf)
  exact hcover r ((mem_elemRows cons r).2 ⟨isEq, rws, hc, hr⟩) b hb

/-- F4: the arguments of the atoms of elementwise rows do not mention epigraph variables -/
theorem atom_args_not_epi (cons : List Con) (hfresh : EpiFresh cons) (isEq : Bool) (rws : List SRow)
    (hc : Con.elem isEq rws ∈ cons) (r : SRow) (hr : r ∈ rws) (b : NlAtom) (hb : b ∈ rowAtoms r)
    (σ σ' : Nat → ℝ) (hag : ∀ id, id ∉ (atomsOf cons).map (·.epi) → σ' id = σ id) :
    ∀ x ∈ b.args, ∀ p ∈ x.co, σ' p.1 = σ p.1 := by
  intro x hx p hp
  obtain ⟨c, hbc⟩ := (mem_rowAtoms r b).1 hb
  apply hag
  apply conVar_not_epi cons hfresh _ hc
  simp only [conVarIds, List.mem_flatMap]
  exact ⟨r, hr, arg_mem_rowVarIds r b c hbc x hx p hp⟩

theorem row_var_agree (cons : List Con) (hfresh : EpiFresh cons) (isEq : Bool) (rws : List SRow)
    (hc : Con.elem isEq rws ∈ cons) (r : SRow) (hr : r ∈ rws)
    (σ σ' : Nat → ℝ) (hag : ∀ id, id ∉ (atomsOf cons).map (·.epi) → σ' id = σ id) :
    ∀ id c, (AtomRef.var id, c) ∈ r.terms → σ' id = σ id := by
  intro id c hm
  apply hag
  apply conVar_not_epi cons hfresh _ hc
  simp only [conVarIds, List.mem_flatMap]
  exact ⟨r, hr, var_mem_rowVarIds r id c hm⟩


/-! ### the two directions -/

/-- a collected atom evaluated at `σ'` (which agrees with `σ` off the epigraph variables) -/
theorem atomLe_transfer (cons : List Con) (hconv : ∀ c ∈ cons, Convex c = true) (hfresh : EpiFresh cons)
    (σ σ' : Nat → ℝ) (hag : ∀ id, id ∉ (atomsOf cons).map (·.epi) → σ' id = σ id)
    (a : NlAtom) (ha : a ∈ atomsOf cons) (t : ℝ) : AtomLe σ' a t ↔ AtomLe σ a t := by
  obtain ⟨rws, hc, r, hr, har⟩ := atom_source cons hconv a ha
  exact atomLe_congr_env σ σ' a (atom_args_not_epi cons hfresh false rws hc r hr a har σ σ' hag) t

theorem compile_fwd (Q : CType → List ℝ → Prop) (cons : List Con)
    (hconv : ∀ c ∈ cons, Convex c = true) (hfresh : EpiFresh cons) (σ : Nat → ℝ)
    (hH : ∀ c ∈ cons, Holds Q σ c) :
    let σ' := extend (atomsOf cons) σ
    (∀ c ∈ cons.filter isElem, ElemSem σ' (epiEnv (atomsOf cons) σ') c) ∧
    (∀ a ∈ atomsOf cons, AtomLe σ' a (σ' a.epi)) ∧
    (∀ c ∈ cons.filter (!isElem ·), Holds Q σ' c) := by
  intro σ'
  have hag : ∀ id, id ∉ (atomsOf cons).map (·.epi) → σ' id = σ id :=
    fun id hid => extend_other (atomsOf cons) σ id hid
  obtain ⟨hns, _, _⟩ := collectAtoms_spec ((cons.filter isElem).flatMap elemRowsOf)
  have hnd : ((atomsOf cons).map (·.epi)).Nodup := hfresh.2
  -- every collected atom has a value at σ
  have hval : ∀ a ∈ atomsOf cons, IsVal σ a (atomValue σ a) := by
    intro a ha
    obtain ⟨rws, hc, r, hr, har⟩ := atom_source cons hconv a ha
    have hle : RowLe σ r := (hH _ hc) r hr
    obtain ⟨τ, hτ, _⟩ := hle
    exact atomValue_spec σ a ⟨τ a, hτ a har⟩
  refine ⟨?_, ?_, ?_⟩
  · intro c hc
    obtain ⟨hc1, isEq, rws, rfl⟩ := mem_filter_isElem cons c hc
    intro r hr
    have hv := row_var_agree cons hfresh isEq rws hc1 r hr σ σ' hag
    cases isEq with
    | true =>
      simp only [if_true]
      obtain ⟨h0, hz⟩ : RowEq σ r := (hH _ hc1) r hr
      rw [← hz, rowValWith_eq, rowValWith_eq]
      congr 1
      apply termsVal_congr σ σ' _ _ r.terms hv
      intro b c hb
      have : b ∈ rowAtoms r := (mem_rowAtoms r b).2 ⟨c, hb⟩
      rw [h0] at this
      simp at this
    | false =>
      simp only [Bool.false_eq_true, if_false]
      obtain ⟨τ, hτ, hle⟩ : RowLe σ r := (hH _ hc1) r hr
      refine le_trans (le_of_eq ?_) hle
      rw [rowValWith_eq, rowValWith_eq]
      congr 1
      apply termsVal_congr σ σ' _ _ r.terms hv
      intro b c hb
      have hbr : b ∈ rowAtoms r := (mem_rowAtoms r b).2 ⟨c, hb⟩
      obtain ⟨a, ha, hab⟩ := atom_rep cons false rws hc1 r hr b hbr
      rw [epiEnv_spec (atomsOf cons) hns σ' a ha b (same_symm hab)]
      show extend (atomsOf cons) σ a.epi = τ b
      rw [extend_epi (atomsOf cons) hnd σ a ha]
      exact isVal_unique σ a _ _ (hval a ha) ((isVal_congr σ a b hab (τ b)).2 (hτ b hbr))
  · intro a ha
    rw [atomLe_transfer cons hconv hfresh σ σ' hag a ha]
    show AtomLe σ a (extend (atomsOf cons) σ a.epi)
    rw [extend_epi (atomsOf cons) hnd σ a ha]
    exact (hval a ha).1
  · intro c hc
    rw [List.mem_filter] at hc
    have hne : isElem c = false := by simpa using hc.2
    rw [holds_congr_setm Q σ σ' c hne (fun id hid => hag id (conVar_not_epi cons hfresh c hc.1 id hid))]
    exact hH c hc.1

theorem compile_bwd (Q : CType → List ℝ → Prop) (cons : List Con)
    (hconv : ∀ c ∈ cons, Convex c = true) (hfresh : EpiFresh cons) (σ σ' : Nat → ℝ)
    (hag : ∀ id, id ∉ (atomsOf cons).map (·.epi) → σ' id = σ id)
    (h1 : ∀ c ∈ cons.filter isElem, ElemSem σ' (epiEnv (atomsOf cons) σ') c)
    (h2 : ∀ a ∈ atomsOf cons, AtomLe σ' a (σ' a.epi))
    (h3 : ∀ c ∈ cons.filter (!isElem ·), Holds Q σ' c) :
    ∀ c ∈ cons, Holds Q σ c := by
  obtain ⟨hns, _, _⟩ := collectAtoms_spec ((cons.filter isElem).flatMap elemRowsOf)
  intro c hc
  cases hie : isElem c with
  | false =>
    rw [← holds_congr_setm Q σ σ' c hie (fun id hid => hag id (conVar_not_epi cons hfresh c hc id hid))]
    exact h3 c (List.mem_filter.2 ⟨hc, by simp [hie]⟩)
  | true =>
    obtain ⟨_, isEq, rws, rfl⟩ := mem_filter_isElem cons c (List.mem_filter.2 ⟨hc, hie⟩)
    have hsem := h1 _ (List.mem_filter.2 ⟨hc, hie⟩)
    have hcv := hconv _ hc
    cases isEq with
    | true =>
      intro r hr
      have hv := row_var_agree cons hfresh true rws hc r hr σ σ' hag
      have hr1 := hsem r hr
      simp only [if_true] at hr1
      simp only [Convex, List.all_eq_true] at hcv
      have h0 : rowAtoms r = [] := List.isEmpty_iff.1 (hcv r hr)
      refine ⟨h0, ?_⟩
      rw [← hr1, rowValWith_eq, rowValWith_eq]
      congr 1
      symm
      apply termsVal_congr σ σ' _ _ r.terms hv
      intro b c hb
      have : b ∈ rowAtoms r := (mem_rowAtoms r b).2 ⟨c, hb⟩
      rw [h0] at this
      simp at this
    | false =>
      intro r hr
      have hv := row_var_agree cons hfresh false rws hc r hr σ σ' hag
      have hr1 := hsem r hr
      simp only [Bool.false_eq_true, if_false] at hr1
      simp only [Convex, List.all_eq_true] at hcv
      have hcr : ConvexRow r = true := hcv r hr
      -- every atom of the row has a value, bounded by its epigraph variable
      have hb : ∀ b ∈ rowAtoms r, IsVal σ b (atomValue σ b) ∧
          atomValue σ b ≤ epiEnv (atomsOf cons) σ' b := by
        intro b hbr
        obtain ⟨a, ha, hab⟩ := atom_rep cons false rws hc r hr b hbr
        have hle : AtomLe σ b (σ' a.epi) :=
          (atomLe_congr σ a b hab _).1 ((atomLe_transfer cons hconv hfresh σ σ' hag a ha _).1 (h2 a ha))
        obtain ⟨v, hv⟩ := atom_has_value' σ b _ hle
        have hval := atomValue_spec σ b ⟨v, hv⟩
        refine ⟨hval, ?_⟩
        rw [epiEnv_spec (atomsOf cons) hns σ' a ha b (same_symm hab)]
        exact hval.2 _ hle
      refine ⟨atomValue σ, fun b hbr => (hb b hbr).1, le_trans ?_ hr1⟩
      rw [rowValWith_eq, rowValWith_eq]
      have := termsVal_mono σ σ' (atomValue σ) (epiEnv (atomsOf cons) σ') r.terms hv
        (fun b c hm => ⟨convexRow_pos r hcr b c hm, (hb b ((mem_rowAtoms r b).2 ⟨c, hm⟩)).2⟩)
      linarith

/-- the equivalence, with all side conditions in explicit form -/
theorem compile_equiv_core (Q : CType → List ℝ → Prop) (cons : List Con) (dummy : Nat)
    (hconv : ∀ c ∈ cons, Convex c = true) (hfresh : EpiFresh cons) (hkeys : KeysDistinct cons)
    (hwf : ∀ c ∈ cons, isElem c = false → SetWF c)
    (rows : List CRow) (K : List Cone) (h : compileBlocks cons dummy = .ok (rows, K)) (σ : Nat → ℝ) :
    (∀ c ∈ cons, Holds Q σ c) ↔
      ∃ σ' : Nat → ℝ,
        (∀ id, id ∉ (collectAtoms ((cons.filter isElem).flatMap elemRowsOf)).map (·.epi) → σ' id = σ id) ∧
        FeasRows Q σ' rows K := by
  constructor
  · intro hH
    refine ⟨extend (atomsOf cons) σ, fun id hid => extend_other (atomsOf cons) σ id hid, ?_⟩
    rw [feasRows_nf Q cons dummy hfresh hkeys hwf rows K h]
    exact compile_fwd Q cons hconv hfresh σ hH
  · rintro ⟨σ', hag, hfeas⟩
    rw [feasRows_nf Q cons dummy hfresh hkeys hwf rows K h] at hfeas
    exact compile_bwd Q cons hconv hfresh σ σ' hag hfeas.1 hfeas.2.1 hfeas.2.2

end Sageopt.Compile
