/-
Coefficient / evaluation calculus for term lists, and the constructor (`consolidate`, `mk`).
-/
import SageoptModel.Lemmas.SigRound
import SageoptModel.Lemmas.SigLex
import Mathlib.Algebra.BigOperators.Group.Finset.Piecewise
import Mathlib.Algebra.BigOperators.Ring.Finset

namespace Sageopt.Sig

variable {C : Type} [CommRing C]

theorem sumC_eq_sum (cs : List C) : sumC cs = cs.sum := by
  unfold sumC
  rw [List.sum_eq_foldl]

/-! ### coeff -/

@[simp] theorem coeff_nil (a : Exp) : coeff ([] : List (Exp × C)) a = 0 := rfl

theorem coeff_cons (t : Exp × C) (ts : List (Exp × C)) (a : Exp) :
    coeff (t :: ts) a = (if t.1 = a then t.2 else 0) + coeff ts a := by
  unfold coeff
  by_cases h : t.1 = a
  · simp [h]
  · simp [h]

theorem coeff_append (ts us : List (Exp × C)) (a : Exp) :
    coeff (ts ++ us) a = coeff ts a + coeff us a := by
  unfold coeff
  simp [List.filter_append]

theorem coeff_eq_zero_of_not_mem {ts : List (Exp × C)} {a : Exp} (h : a ∉ keys ts) :
    coeff ts a = 0 := by
  induction ts with
  | nil => rfl
  | cons t ts ih =>
    simp only [keys, List.map_cons, List.mem_cons, not_or] at h
    rw [coeff_cons, if_neg (fun e => h.1 e.symm), zero_add]
    exact ih h.2

theorem coeff_of_nodup_mem {ts : List (Exp × C)} (hnd : (keys ts).Nodup) {a : Exp} {c : C}
    (hm : (a, c) ∈ ts) : coeff ts a = c := by
  induction ts with
  | nil => simp at hm
  | cons t ts ih =>
    simp only [keys, List.map_cons, List.nodup_cons] at hnd
    rw [coeff_cons]
    rcases List.mem_cons.1 hm with rfl | hm
    · simp only [if_true]
      rw [coeff_eq_zero_of_not_mem hnd.1, add_zero]
    · have : t.1 ≠ a := by
        intro e
        apply hnd.1
        rw [e]
        exact List.mem_map.2 ⟨(a, c), hm, rfl⟩
      rw [if_neg this, zero_add]
      exact ih hnd.2 hm

theorem lookupC_eq_coeff {ts : List (Exp × C)} (hnd : (keys ts).Nodup) (a : Exp) :
    lookupC ts a = coeff ts a := by
  induction ts with
  | nil => rfl
  | cons t ts ih =>
    simp only [keys, List.map_cons, List.nodup_cons] at hnd
    rw [coeff_cons]
    unfold lookupC
    by_cases h : t.1 = a
    · subst h
      simp only [List.find?_cons, beq_self_eq_true, if_true]
      rw [coeff_eq_zero_of_not_mem hnd.1, add_zero]
    · have hb : (t.1 == a) = false := by simpa using h
      simp only [List.find?_cons, hb, if_neg h, zero_add]
      exact ih hnd.2

theorem coeff_filter_of_zero (p : Exp × C → Bool) (ts : List (Exp × C))
    (hp : ∀ t ∈ ts, p t = false → t.2 = 0) (a : Exp) :
    coeff (ts.filter p) a = coeff ts a := by
  induction ts with
  | nil => rfl
  | cons t ts ih =>
    have ih' := ih (fun t ht => hp t (List.mem_cons_of_mem _ ht))
    by_cases h : p t = true
    · rw [List.filter_cons_of_pos h, coeff_cons, coeff_cons, ih']
    · have h' : p t = false := by simpa using h
      rw [List.filter_cons_of_neg h, coeff_cons, ih', hp t (by simp) h']
      simp

/-- the coefficient function of a list with distinct keys `ks`, given as a function of the key -/
theorem coeff_map_keyfun (ks : List Exp) (hnd : ks.Nodup) (F : Exp → C) (a : Exp) :
    coeff (ks.map fun k => (k, F k)) a = if a ∈ ks then F a else 0 := by
  induction ks with
  | nil => rfl
  | cons k ks ih =>
    rw [List.nodup_cons] at hnd
    rw [List.map_cons, coeff_cons, ih hnd.2]
    by_cases h : k = a
    · subst h
      simp [hnd.1]
    · have : a ≠ k := fun e => h e.symm
      simp [h, this]

omit [CommRing C] in
theorem keys_map_keyfun (ks : List Exp) (F : Exp → C) : keys (ks.map fun k => (k, F k)) = ks := by
  simp [keys, List.map_map, Function.comp_def]

/-! ### eval -/

@[simp] theorem eval_nil (χ : Exp → C) : eval χ ([] : List (Exp × C)) = 0 := rfl

theorem eval_cons (χ : Exp → C) (t : Exp × C) (ts : List (Exp × C)) :
    eval χ (t :: ts) = t.2 * χ t.1 + eval χ ts := by
  simp [eval]

theorem eval_append (χ : Exp → C) (ts us : List (Exp × C)) :
    eval χ (ts ++ us) = eval χ ts + eval χ us := by
  simp [eval]

/-- evaluation is determined by the coefficient function -/
theorem eval_eq_finset_sum (χ : Exp → C) (ts : List (Exp × C)) (K : Finset Exp)
    (hK : ∀ t ∈ ts, t.1 ∈ K) : eval χ ts = ∑ a ∈ K, coeff ts a * χ a := by
  induction ts with
  | nil => simp
  | cons t ts ih =>
    rw [eval_cons, ih (fun t ht => hK t (List.mem_cons_of_mem _ ht))]
    simp only [coeff_cons, add_mul, Finset.sum_add_distrib]
    congr 1
    have : ∀ a, (if t.1 = a then t.2 else 0) * χ a = if t.1 = a then t.2 * χ a else 0 := by
      intro a; split <;> simp
    simp only [this]
    rw [Finset.sum_ite_eq, if_pos (hK t (by simp))]

theorem eval_congr_coeff (χ : Exp → C) {ts us : List (Exp × C)}
    (h : ∀ a, coeff ts a = coeff us a) : eval χ ts = eval χ us := by
  classical
  let K : Finset Exp := (keys ts).toFinset ∪ (keys us).toFinset
  rw [eval_eq_finset_sum χ ts K, eval_eq_finset_sum χ us K]
  · simp only [h]
  · intro t ht
    exact Finset.mem_union_right _ (List.mem_toFinset.2 (List.mem_map.2 ⟨t, ht, rfl⟩))
  · intro t ht
    exact Finset.mem_union_left _ (List.mem_toFinset.2 (List.mem_map.2 ⟨t, ht, rfl⟩))

theorem eval_add_of_coeff (χ : Exp → C) {hs ts us : List (Exp × C)}
    (h : ∀ a, coeff hs a = coeff ts a + coeff us a) : eval χ hs = eval χ ts + eval χ us := by
  rw [← eval_append]
  exact eval_congr_coeff χ (fun a => by rw [h a, coeff_append])

/-! ### consolidate / mk -/

theorem consolidate_of_nodup {ts : List (Exp × C)} (h : (keys ts).Nodup) : consolidate ts = ts := by
  unfold consolidate
  rw [(hasDupKeys_eq_false_iff _).2 h]
  simp

theorem consolidate_keys_nodup (ts : List (Exp × C)) : (keys (consolidate ts)).Nodup := by
  unfold consolidate
  cases h : hasDupKeys (keys ts) with
  | false => simpa using (hasDupKeys_eq_false_iff _).1 h
  | true =>
    simp only [if_true]
    rw [keys_map_keyfun]
    exact sortedKeys_nodup _

theorem mem_keys_consolidate (ts : List (Exp × C)) (a : Exp) :
    a ∈ keys (consolidate ts) ↔ a ∈ keys ts := by
  unfold consolidate
  cases h : hasDupKeys (keys ts) with
  | false => simp
  | true =>
    simp only [if_true]
    rw [keys_map_keyfun, mem_sortedKeys]

theorem consolidate_coeff (ts : List (Exp × C)) (a : Exp) :
    coeff (consolidate ts) a = coeff ts a := by
  unfold consolidate
  cases h : hasDupKeys (keys ts) with
  | false => simp
  | true =>
    simp only [if_true]
    rw [coeff_map_keyfun _ (sortedKeys_nodup _)
      (fun k => sumC ((ts.filter fun t => t.1 == k).map Prod.snd))]
    by_cases hm : a ∈ keys ts
    · rw [if_pos ((mem_sortedKeys _ _).2 hm), sumC_eq_sum]; rfl
    · rw [if_neg (fun h => hm ((mem_sortedKeys _ _).1 h)), coeff_eq_zero_of_not_mem hm]

theorem consolidate_eval (χ : Exp → C) (ts : List (Exp × C)) :
    eval χ (consolidate ts) = eval χ ts :=
  eval_congr_coeff χ (consolidate_coeff ts)

/-- the rounded term list the constructor works on -/
def rounded (ts : List (Exp × C)) : List (Exp × C) := ts.map fun t => (roundExp t.1, t.2)

theorem mk_terms (n : Nat) (ts : List (Exp × C)) : (mk n ts).terms = consolidate (rounded ts) := rfl

@[simp] theorem mk_n (n : Nat) (ts : List (Exp × C)) : (mk n ts).n = n := rfl

omit [CommRing C] in
theorem rounded_of_grid {ts : List (Exp × C)} (h : ∀ t ∈ ts, OnGrid t.1) : rounded ts = ts := by
  unfold rounded
  induction ts with
  | nil => rfl
  | cons t ts ih =>
    rw [List.map_cons, roundExp_of_onGrid (h t (by simp)), ih (fun t ht => h t (by simp [ht]))]

theorem mk_wf' (n : Nat) (ts : List (Exp × C)) (hw : ∀ t ∈ ts, t.1.length = n) : Wf (mk n ts) := by
  have hk : ∀ t ∈ (mk n ts).terms, t.1 ∈ keys (rounded ts) := by
    intro t ht
    rw [mk_terms] at ht
    exact (mem_keys_consolidate _ _).1 (List.mem_map.2 ⟨t, ht, rfl⟩)
  have hk' : ∀ t ∈ (mk n ts).terms, ∃ u ∈ ts, t.1 = roundExp u.1 := by
    intro t ht
    have := hk t ht
    simp only [keys, rounded, List.map_map, List.mem_map, Function.comp_def] at this
    obtain ⟨u, hu, e⟩ := this
    exact ⟨u, hu, e.symm⟩
  refine ⟨?_, ?_, ?_⟩
  · intro t ht
    obtain ⟨u, hu, e⟩ := hk' t ht
    rw [e, roundExp_length, mk_n]
    exact hw u hu
  · intro t ht
    obtain ⟨u, hu, e⟩ := hk' t ht
    rw [e]
    exact roundExp_onGrid _
  · exact consolidate_keys_nodup _

theorem mk_coeff' (n : Nat) (ts : List (Exp × C)) (a : Exp) :
    coeff (mk n ts).terms a = coeff (rounded ts) a := consolidate_coeff _ a

theorem mk_eval' (n : Nat) (ts : List (Exp × C)) (χ : Exp → C) :
    eval χ (mk n ts).terms = eval χ (rounded ts) := consolidate_eval χ _

theorem mk_terms_of_wf {n : Nat} {ts : List (Exp × C)} (hg : ∀ t ∈ ts, OnGrid t.1)
    (hnd : (keys ts).Nodup) : (mk n ts).terms = ts := by
  rw [mk_terms, rounded_of_grid hg, consolidate_of_nodup hnd]

theorem mk_id' (f : SigT C) (hf : Wf f) : mk f.n f.terms = f := by
  have := mk_terms_of_wf (n := f.n) hf.grid hf.nodup
  cases f with
  | mk n terms => simp only [mk] at this ⊢; rw [this]

theorem const_terms (n : Nat) (v : C) : (const n v).terms = [(zeroExp n, v)] := by
  unfold const
  rw [mk_terms_of_wf]
  · intro t ht
    simp only [List.mem_singleton] at ht
    rw [ht]; exact onGrid_zeroExp n
  · simp [keys]

@[simp] theorem const_n (n : Nat) (v : C) : (const n v).n = n := rfl

theorem const_wf (n : Nat) (v : C) : Wf (const n v) := by
  unfold const
  apply mk_wf'
  intro t ht
  simp only [List.mem_singleton] at ht
  rw [ht]; simp [zeroExp]

end Sageopt.Sig
