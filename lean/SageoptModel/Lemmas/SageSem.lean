/-
Semantics used to state the SAGE theorems (C01, C02, C19, C06): real values of affine expressions,
evaluation of signomials at real points, membership in the domain X given by its conic form, and
well-formedness of the model inputs.  Definitions only.
-/
import SageoptModel.Model.Sage
import SageoptModel.Lemmas.CompileSem

namespace Sageopt.Sage
open Sageopt Sageopt.Compile Sageopt.Solvers Sageopt.Analysis

noncomputable section

/-- `α_j · x` -/
def rdot (a : List Rat) (x : List ℝ) : ℝ := (List.zipWith (fun (q : Rat) (t : ℝ) => (q : ℝ) * t) a x).sum

/-- the signomial `Σ_j coef_j · exp(α_j · x)` -/
def sigVal (alpha : List (List Rat)) (coef : List ℝ) (x : List ℝ) : ℝ :=
  (List.zipWith (fun c a => c * Real.exp (rdot a x)) coef alpha).sum

/-- `A x̃ + b` for the domain's conic form -/
def domSlack (X : Dom) (xt : List ℝ) : List ℝ :=
  List.zipWith (fun (row : List Rat) (br : Rat) => rdot row xt + (br : ℝ)) X.A X.b

/-- `x ∈ X`: either no domain (all of ℝⁿ), or `x` extends by lifted coordinates to a point of the conic form -/
def InDom (Q : CType → List ℝ → Prop) (X : Option Dom) (n : Nat) (x : List ℝ) : Prop :=
  x.length = n ∧
  match X with
  | none => True
  | some X => ∃ xt : List ℝ, xt.length = X.N ∧ xt.take n = x ∧ FeasBlocks (conP Q) X.K (domSlack X xt)

/-- value of the aligned AGE vector of `p` at index `j` -/
def ageVal (σ : Nat → ℝ) (m : Nat) (c : List AffE) (e : Ech) (p : PIds) (j : Nat) : ℝ :=
  argVal σ ((ageVector m c e p).getD j (constE 0))

def cVal (σ : Nat → ℝ) (c : List AffE) (j : Nat) : ℝ := argVal σ (c.getD j (constE 0))

def domWf (n : Nat) (X : Dom) : Prop :=
  n ≤ X.N ∧ X.A.length = X.b.length ∧ (∀ r ∈ X.A, r.length = X.N) ∧ X.b.length = (X.K.map (·.len)).sum ∧
  (∀ co ∈ X.K, co.type ∈ [CType.zero, .pos, .soc, .exp]) ∧ (∀ co ∈ X.K, co.type = .exp → co.len = 3)

/-- well-formed primal input: shapes agree and the auxiliary Variables have the sizes the constructor gives them -/
structure WfPrimal (inp : PrimalIn) : Prop where
  width : ∀ r ∈ inp.alpha, r.length = inp.n
  clen : inp.c.length = inp.alpha.length
  idsU : inp.ids.map (·.i) = inp.ech.U
  cover : ∀ p ∈ inp.ids,
    (coverOf inp.ech p.i).length = inp.alpha.length ∧ p.i < inp.alpha.length ∧ p.i ∉ trueIdx (coverOf inp.ech p.i)
  sizes : ∀ p ∈ inp.ids,
    let k := (trueIdx (coverOf inp.ech p.i)).length
    (p.nu ≠ [] → (nuExprs inp.settings p).length = k ∧ p.epi.length = k ∧
        p.cvar.length = k + (if inp.ech.N.contains p.i then 0 else 1)) ∧
    (p.nu = [] → p.cvar.length = 1 ∧ ¬ inp.ech.N.contains p.i)
  negConst : ∀ i ∈ inp.ech.N, (inp.c.getD i (constE 0)).co = []
  dom : ∀ X, inp.X = some X → domWf inp.n X ∧ ∀ p ∈ inp.ids, p.nu ≠ [] → p.eta.length = X.b.length

end

end Sageopt.Sage
