/-
Coefficient calculus in "homomorphism form": `φ : C → D` maps the coefficients of the model run at
an arbitrary coefficient type `C` (only `Add`, `Zero`, `Mul` operations, no laws) into a commutative
ring `D`; `φ` is additive and maps `0 ↦ 0`.  Then mapping the result of a model operation has the
same coefficient function as the corresponding ring-level expression of the mapped operands.
(Used with `φ = Lin.value σ`, C13.)
-/
import SageoptModel.Lemmas.SigMapGen

namespace Sageopt.Sig.Hom
open Sageopt.Sig

variable {C D : Type}

/-- apply `φ` to every coefficient -/
def mapT (φ : C → D) (ts : List (Exp × C)) : List (Exp × D) := ts.map fun t => (t.1, φ t.2)

/-- `φ` is additive and maps `0 ↦ 0` (no laws are assumed on `C`) -/
structure IsAddHom [Add C] [Zero C] [CommRing D] (φ : C → D) : Prop where
  zero : φ 0 = 0
  add : ∀ x y, φ (x + y) = φ x + φ y

section basic

variable (φ : C → D)

@[simp] theorem mapT_nil : mapT φ [] = [] := rfl

@[simp] theorem mapT_cons (t : Exp × C) (ts : List (Exp × C)) :
    mapT φ (t :: ts) = (t.1, φ t.2) :: mapT φ ts := rfl

theorem mapT_append (ts us : List (Exp × C)) : mapT φ (ts ++ us) = mapT φ ts ++ mapT φ us := by
  simp [mapT]

theorem keys_mapT (ts : List (Exp × C)) : keys (mapT φ ts) = keys ts := by
  simp [keys, mapT, List.map_map, Function.comp_def]

theorem mem_mapT {ts : List (Exp × C)} {u : Exp × D} :
    u ∈ mapT φ ts ↔ ∃ t ∈ ts, u = (t.1, φ t.2) := by
  unfold mapT
  simp only [List.mem_map]
  constructor
  · rintro ⟨t, ht, rfl⟩; exact ⟨t, ht, rfl⟩
  · rintro ⟨t, ht, rfl⟩; exact ⟨t, ht, rfl⟩

theorem mapT_filter_key (ts : List (Exp × C)) (k : Exp) :
    ((mapT φ ts).filter fun t => t.1 == k) = mapT φ (ts.filter fun t => t.1 == k) := by
  induction ts with
  | nil => rfl
  | cons t ts ih =>
    by_cases h : (t.1 == k) = true <;> simp [h, ih]

theorem rounded_mapT (ts : List (Exp × C)) : rounded (mapT φ ts) = mapT φ (rounded ts) := by
  simp [rounded, mapT, List.map_map, Function.comp_def]

theorem mapT_map_keyfun (ks : List Exp) (F : Exp → C) :
    mapT φ (ks.map fun k => (k, F k)) = ks.map fun k => (k, φ (F k)) := by
  simp [mapT, List.map_map, Function.comp_def]

theorem wf_mapT {f : SigT C} (hf : Wf f) : Wf (⟨f.n, mapT φ f.terms⟩ : SigT D) := by
  refine ⟨?_, ?_, ?_⟩
  · intro u hu
    obtain ⟨t, ht, rfl⟩ := (mem_mapT φ).1 hu
    exact hf.width t ht
  · intro u hu
    obtain ⟨t, ht, rfl⟩ := (mem_mapT φ).1 hu
    exact hf.grid t ht
  · show (keys (mapT φ f.terms)).Nodup
    rw [keys_mapT]
    exact hf.nodup

end basic

section additive

variable [Add C] [Zero C] [CommRing D] {φ : C → D}

theorem hom_foldl_add (hφ : IsAddHom φ) (cs : List C) (init : C) :
    φ (cs.foldl (· + ·) init) = φ init + (cs.map φ).sum := by
  induction cs generalizing init with
  | nil => simp
  | cons c cs ih =>
    rw [List.foldl_cons, ih, hφ.add, List.map_cons, List.sum_cons, add_assoc]

theorem hom_sumC (hφ : IsAddHom φ) (cs : List C) : φ (sumC cs) = (cs.map φ).sum := by
  unfold sumC
  rw [hom_foldl_add hφ, hφ.zero, zero_add]

omit [Add C] [Zero C] in
theorem coeff_mapT_eq (φ : C → D) (ts : List (Exp × C)) (a : Exp) :
    coeff (mapT φ ts) a = (((ts.filter fun t => t.1 == a).map Prod.snd).map φ).sum := by
  unfold coeff
  rw [mapT_filter_key]
  simp [mapT, List.map_map, Function.comp_def]

theorem coeff_mapT_consolidate (hφ : IsAddHom φ) (ts : List (Exp × C)) (a : Exp) :
    coeff (mapT φ (consolidate ts)) a = coeff (mapT φ ts) a := by
  unfold consolidate
  cases h : hasDupKeys (keys ts) with
  | false => simp
  | true =>
    simp only [if_true]
    rw [mapT_map_keyfun φ _ (fun k => sumC ((ts.filter fun t => t.1 == k).map Prod.snd)),
      coeff_map_keyfun _ (sortedKeys_nodup _)
        (fun k => φ (sumC ((ts.filter fun t => t.1 == k).map Prod.snd)))]
    by_cases hm : a ∈ keys ts
    · rw [if_pos ((mem_sortedKeys _ _).2 hm), hom_sumC hφ, coeff_mapT_eq]
    · rw [if_neg (fun h => hm ((mem_sortedKeys _ _).1 h)), coeff_eq_zero_of_not_mem]
      rw [keys_mapT]; exact hm

/-- `Signomial.__init__` commutes with mapping the coefficients (as coefficient functions) -/
theorem coeff_mapT_mk (hφ : IsAddHom φ) (n : Nat) (ts : List (Exp × C)) (a : Exp) :
    coeff (mapT φ (mk n ts).terms) a = coeff (mk n (mapT φ ts)).terms a := by
  rw [Gen.mk_terms, coeff_mapT_consolidate hφ, mk_coeff', rounded_mapT]

theorem lookupC_mapT (hφ : IsAddHom φ) (ts : List (Exp × C)) (k : Exp) :
    lookupC (mapT φ ts) k = φ (lookupC ts k) := by
  induction ts with
  | nil => simp [lookupC, hφ.zero]
  | cons t ts ih =>
    unfold lookupC at ih ⊢
    by_cases h : (t.1 == k) = true
    · simp [h]
    · have hb : (t.1 == k) = false := by simpa using h
      simp only [mapT_cons, List.find?_cons, hb]
      exact ih

theorem coeff_mapT_sumGen (hφ : IsAddHom φ) (n : Nat) (fs : List (SigT C)) (hfs : ∀ f ∈ fs, Wf f)
    (a : Exp) :
    coeff (mapT φ (Gen.sumGen n fs).terms) a = (fs.map fun f => coeff (mapT φ f.terms) a).sum := by
  rw [Gen.sumGen_terms n fs hfs,
    mapT_map_keyfun φ _ (fun k => sumC (fs.map fun f => lookupC f.terms k)),
    coeff_map_keyfun _ (alignKeys_nodup _) (fun k => φ (sumC (fs.map fun f => lookupC f.terms k)))]
  have hl : ((fs.map fun f => lookupC f.terms a).map φ) = fs.map fun f => coeff (mapT φ f.terms) a := by
    rw [List.map_map]
    apply List.map_congr_left
    intro f hf
    show φ (lookupC f.terms a) = _
    rw [← lookupC_mapT hφ, lookupC_eq_coeff]
    rw [keys_mapT]; exact (hfs f hf).nodup
  by_cases hm : a ∈ alignKeys (fs.map fun f => keys f.terms)
  · rw [if_pos hm, hom_sumC hφ, hl]
  · rw [if_neg hm]
    symm
    apply List.sum_eq_zero
    intro x hx
    obtain ⟨f, hf, rfl⟩ := List.mem_map.1 hx
    apply coeff_eq_zero_of_not_mem
    rw [keys_mapT]
    intro hk
    exact hm ((mem_sumKeys fs a).2 ⟨f, hf, hk⟩)

theorem coeff_mapT_sumList (hφ : IsAddHom φ) (n : Nat) (fs : List (SigT C)) (hfs : ∀ f ∈ fs, Wf f)
    (a : Exp) :
    coeff (mapT φ (sumList n fs).terms) a = (fs.map fun f => coeff (mapT φ f.terms) a).sum := by
  rcases Gen.sumList_cases n fs with ⟨f, rfl, h⟩ | h
  · rw [h]; simp
  · rw [h]; exact coeff_mapT_sumGen hφ n fs hfs a

/-! ### withoutZeros: the test only accepts coefficients that `φ` maps to `0` -/

omit [Add C] [Zero C] in
theorem coeff_mapT_filter (φ : C → D) (p : Exp × C → Bool) (ts : List (Exp × C))
    (hp : ∀ t ∈ ts, p t = false → φ t.2 = 0) (a : Exp) :
    coeff (mapT φ (ts.filter p)) a = coeff (mapT φ ts) a := by
  induction ts with
  | nil => rfl
  | cons t ts ih =>
    have ih' := ih (fun t ht => hp t (List.mem_cons_of_mem _ ht))
    by_cases h : p t = true
    · rw [List.filter_cons_of_pos h, mapT_cons, mapT_cons, coeff_cons, coeff_cons, ih']
    · have h' : p t = false := by simpa using h
      rw [List.filter_cons_of_neg h, mapT_cons, coeff_cons, ih', hp t (by simp) h']
      simp

omit [Add C] [Zero C] in
theorem coeff_mapT_keepNZ (φ : C → D) (isZero : C → Bool) (hz : ∀ c, isZero c = true → φ c = 0)
    (f : SigT C) (a : Exp) :
    coeff (mapT φ (keepNZ isZero f)) a = coeff (mapT φ f.terms) a := by
  unfold keepNZ
  apply coeff_mapT_filter
  intro t _ ht
  simp only [Bool.not_eq_false'] at ht
  exact hz _ ht

theorem coeff_mapT_withoutZeros (hφ : IsAddHom φ) (isZero : C → Bool)
    (hz : ∀ c, isZero c = true → φ c = 0) (f : SigT C) (hf : Wf f) (a : Exp) :
    coeff (mapT φ (withoutZeros isZero f).terms) a = coeff (mapT φ f.terms) a := by
  rcases Gen.withoutZeros_terms isZero f hf with h | ⟨hk, h⟩ | h
  · rw [h]
  · rw [h, ← coeff_mapT_keepNZ φ isZero hz f a, hk, mapT_cons, coeff_cons, hφ.zero]
    simp
  · rw [h, coeff_mapT_keepNZ φ isZero hz]

end additive

/-! ### products: `φ` multiplicative on the coefficient products that actually occur -/
section multiplicative

variable [Add C] [Zero C] [Mul C] [CommRing D] {φ : C → D}

omit [Add C] [Zero C] in
theorem mapT_prodTerms (ts us : List (Exp × C))
    (hm : ∀ t1 ∈ ts, ∀ t2 ∈ us, φ (t1.2 * t2.2) = φ t1.2 * φ t2.2) :
    mapT φ (Gen.prodTerms ts us) = prodTerms (mapT φ ts) (mapT φ us) := by
  unfold Gen.prodTerms prodTerms
  induction us with
  | nil => rfl
  | cons u us ih =>
    rw [List.flatMap_cons, mapT_append, ih (fun t1 h1 t2 h2 => hm t1 h1 t2 (List.mem_cons_of_mem _ h2)),
      mapT_cons, List.flatMap_cons]
    congr 1
    unfold mapT
    rw [List.map_map, List.map_map]
    apply List.map_congr_left
    intro t1 h1
    simp only [Function.comp_def]
    rw [hm t1 h1 u (by simp)]

theorem coeff_mapT_product (hφ : IsAddHom φ) (f g : SigT C) (hf : ∀ t ∈ f.terms, OnGrid t.1)
    (hg : ∀ t ∈ g.terms, OnGrid t.1)
    (hm : ∀ t1 ∈ f.terms, ∀ t2 ∈ g.terms, φ (t1.2 * t2.2) = φ t1.2 * φ t2.2) (a : Exp) :
    coeff (mapT φ (product f g).terms) a = coeff (prodTerms (mapT φ f.terms) (mapT φ g.terms)) a := by
  rw [Gen.product_terms f g hf hg, coeff_mapT_consolidate hφ, mapT_prodTerms _ _ hm]

theorem eval_mapT_product (hφ : IsAddHom φ) (n : Nat) (χ : Exp → D) (hχ : IsChar n χ) (f g : SigT C)
    (hf : Wf f) (hg : Wf g) (hfn : f.n = n) (hgn : g.n = n)
    (hm : ∀ t1 ∈ f.terms, ∀ t2 ∈ g.terms, φ (t1.2 * t2.2) = φ t1.2 * φ t2.2) :
    eval χ (mapT φ (product f g).terms) = eval χ (mapT φ f.terms) * eval χ (mapT φ g.terms) := by
  rw [eval_congr_coeff χ (coeff_mapT_product hφ f g hf.grid hg.grid hm)]
  apply eval_prodTerms χ n hχ
  · intro u hu
    obtain ⟨t, ht, rfl⟩ := (mem_mapT φ).1 hu
    show t.1.length = n
    rw [hf.width t ht, hfn]
  · intro u hu
    obtain ⟨t, ht, rfl⟩ := (mem_mapT φ).1 hu
    show t.1.length = n
    rw [hg.width t ht, hgn]

/-- scalar multiples `f * v` -/
theorem coeff_mapT_smul (hφ : IsAddHom φ) (isZero : C → Bool) (hz : ∀ c, isZero c = true → φ c = 0)
    (f : SigT C) (hf : Wf f) (v : C) (hm : ∀ t ∈ f.terms, φ (t.2 * v) = φ t.2 * φ v) (a : Exp) :
    coeff (mapT φ (smul isZero f v).terms) a = coeff (mapT φ f.terms) a * φ v := by
  unfold smul
  have hc : Wf (const f.n v) := Gen.const_wf _ _
  have hm' : ∀ t1 ∈ f.terms, ∀ t2 ∈ (const f.n v).terms, φ (t1.2 * t2.2) = φ t1.2 * φ t2.2 := by
    intro t1 h1 t2 h2
    rw [Gen.const_terms, List.mem_singleton] at h2
    rw [h2]
    exact hm t1 h1
  rw [coeff_mapT_withoutZeros hφ isZero hz _ (Gen.product_wf f _ hf hc rfl),
    coeff_mapT_product hφ f _ hf.grid hc.grid hm', Gen.const_terms]
  unfold prodTerms
  simp only [mapT_cons, mapT_nil, List.flatMap_cons, List.flatMap_nil, List.append_nil]
  apply coeff_map_smul (mapT φ f.terms) f.n
  intro u hu
  obtain ⟨t, ht, rfl⟩ := (mem_mapT φ).1 hu
  exact hf.width t ht

end multiplicative

end Sageopt.Sig.Hom
