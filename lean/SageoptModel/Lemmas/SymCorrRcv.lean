/-
`relativeCoeffVector` on well-formed term lists and grid reference rows (C16 helper lemmas).
-/
import SageoptModel.Lemmas.SymCorrMatch
import Mathlib.Algebra.BigOperators.Group.List.Basic
import Mathlib.Algebra.Ring.Basic

namespace Sageopt.SymCorr
open Sageopt.Sig

variable {C : Type} [CommRing C]

theorem sc_coeff_cons (t : Exp × C) (ts : List (Exp × C)) (a : Exp) :
    coeff (t :: ts) a = (if t.1 = a then t.2 else 0) + coeff ts a := by
  unfold coeff
  by_cases h : t.1 = a
  · simp [h]
  · simp [h]

theorem sc_coeff_not_mem (ts : List (Exp × C)) (a : Exp) (h : a ∉ keys ts) : coeff ts a = 0 := by
  induction ts with
  | nil => simp [coeff]
  | cons t ts ih =>
    rw [sc_coeff_cons]
    simp only [keys, List.map_cons, List.mem_cons, not_or] at h
    rw [if_neg (fun e => h.1 e.symm), ih h.2, add_zero]

theorem sc_coeff_getElem (ts : List (Exp × C)) (hnd : (keys ts).Nodup) (i : Nat) (hi : i < ts.length) :
    coeff ts (ts[i]).1 = (ts[i]).2 := by
  induction ts generalizing i with
  | nil => simp at hi
  | cons t ts ih =>
    rw [sc_coeff_cons]
    simp only [keys, List.map_cons, List.nodup_cons] at hnd
    cases i with
    | zero =>
      simp only [List.getElem_cons_zero, if_true]
      rw [sc_coeff_not_mem ts _ hnd.1, add_zero]
    | succ j =>
      simp only [List.getElem_cons_succ]
      have hj : j < ts.length := by simpa using hi
      have hne : t.1 ≠ (ts[j]).1 := by
        intro e
        apply hnd.1
        rw [e]
        exact List.mem_map.mpr ⟨ts[j], List.getElem_mem hj, rfl⟩
      rw [if_neg hne, zero_add]
      exact ih hnd.2 j hj

omit [CommRing C] in
theorem sc_wf_rows {g : SigT C} (hg : Wf g) {n : Nat} (hn : g.n = n) :
    ∀ t ∈ g.terms, OnGrid t.1 ∧ t.1.length = n :=
  fun t ht => ⟨hg.grid t ht, by rw [hg.width t ht, hn]⟩

/-- the list of writes `c[corr] = sc[common]` -/
def scWrites (tol : Rat) (terms : List (Exp × C)) (ref : List Exp) : List (Nat × C) :=
  (scPairs tol (keys terms) ref).map fun p => (p.2, (terms.map Prod.snd).getD p.1 0)

theorem sc_rcv_unfold (tol : Rat) (terms : List (Exp × C)) (ref : List Exp) :
    relativeCoeffVector tol terms ref =
      (List.range ref.length).map fun k =>
        match ((scWrites tol terms ref).reverse.find? fun w => w.1 == k) with
        | some w => w.2
        | none => 0 := by
  unfold relativeCoeffVector scWrites
  rw [sc_rowCorrespondence_eq]
  simp only [List.map_map, List.zip_map']
  rfl

theorem sc_rcv_length (tol : Rat) (terms : List (Exp × C)) (ref : List Exp) :
    (relativeCoeffVector tol terms ref).length = ref.length := by
  rw [sc_rcv_unfold]; simp

/-- value of one slot of `relativeCoeffVector` -/
theorem sc_rcv_slot (n : Nat) (terms : List (Exp × C))
    (hw : ∀ t ∈ terms, OnGrid t.1 ∧ t.1.length = n) (hnd : (keys terms).Nodup) (ref : List Exp)
    (href : ∀ r ∈ ref, OnGrid r ∧ r.length = n) (hrnd : ref.Nodup) (k : Nat) (hk : k < ref.length) :
    (match ((scWrites scTol terms ref).reverse.find? fun w => w.1 == k) with
        | some w => w.2
        | none => (0 : C)) = coeff terms ref[k] := by
  have hkeys : ∀ i (hi : i < (keys terms).length), OnGrid (keys terms)[i] ∧ (keys terms)[i].length = n := by
    intro i hi
    have hi' : i < terms.length := by simpa [keys] using hi
    have : (keys terms)[i] = (terms[i]).1 := by simp [keys]
    rw [this]; exact hw _ (List.getElem_mem hi')
  cases hfind : (scWrites scTol terms ref).reverse.find? fun w => w.1 == k with
  | some w =>
    simp only
    have hw1 : w.1 = k := by simpa using List.find?_some hfind
    have hmem : w ∈ scWrites scTol terms ref := by
      have := List.mem_of_find?_eq_some hfind
      simpa using this
    unfold scWrites at hmem
    rw [List.mem_map] at hmem
    obtain ⟨p, hp, rfl⟩ := hmem
    rw [sc_mem_pairs] at hp
    obtain ⟨hlt, hf⟩ := hp
    rw [sc_findRow_some n _ ref (hkeys _ hlt) href] at hf
    obtain ⟨hlt2, heq, -⟩ := hf
    simp only at hw1
    have hlt' : p.1 < terms.length := by simpa [keys] using hlt
    have hk1 : (keys terms)[p.1] = (terms[p.1]).1 := by simp [keys]
    have : ref[k] = (terms[p.1]).1 := by
      rw [← hk1, ← heq]; congr 1; exact hw1.symm
    rw [this, sc_coeff_getElem terms hnd p.1 hlt']
    simp only
    rw [sc_getD_lt _ _ _ (by simpa using hlt')]
    simp
  | none =>
    simp only
    rw [List.find?_eq_none] at hfind
    symm
    apply sc_coeff_not_mem
    intro hmem
    obtain ⟨i, hi, hik⟩ := List.mem_iff_getElem.mp hmem
    have hin : (keys terms)[i] ∈ ref := by rw [hik]; exact List.getElem_mem hk
    obtain ⟨loc, hloc⟩ := sc_findRow_isSome_of_mem _ ref hin
    have hloc' := hloc
    rw [sc_findRow_some n _ ref (hkeys _ hi) href] at hloc'
    obtain ⟨hlt2, heq, -⟩ := hloc'
    have hlk : loc = k := (hrnd.getElem_inj_iff).mp (heq.trans hik)
    have hwm : (loc, (terms.map Prod.snd).getD i 0) ∈ scWrites scTol terms ref := by
      unfold scWrites
      exact List.mem_map.mpr ⟨(i, loc), (sc_mem_pairs _ _ _ _).mpr ⟨hi, hloc⟩, rfl⟩
    have := hfind _ (List.mem_reverse.mpr hwm)
    simp [hlk] at this

/-- `relativeCoeffVector` is the coefficient function of `terms` tabulated along `ref` -/
theorem sc_rcv_eq_map (n : Nat) (terms : List (Exp × C))
    (hw : ∀ t ∈ terms, OnGrid t.1 ∧ t.1.length = n) (hnd : (keys terms).Nodup) (ref : List Exp)
    (href : ∀ r ∈ ref, OnGrid r ∧ r.length = n) (hrnd : ref.Nodup) :
    relativeCoeffVector scTol terms ref = ref.map (coeff terms) := by
  apply List.ext_getElem
  · rw [sc_rcv_length]; simp
  · intro k h1 h2
    have hk : k < ref.length := by simpa using h2
    simp only [sc_rcv_unfold, List.getElem_map, List.getElem_range]
    exact sc_rcv_slot n terms hw hnd ref href hrnd k hk

/-- `Σ_{r ∈ ref} coeff ts r · χ r = eval χ ts` when the support of `ts` lies in the duplicate-free `ref` -/
theorem sc_sum_coeff_eval (ts : List (Exp × C)) (ref : List Exp) (hrnd : ref.Nodup)
    (hsupp : ∀ t ∈ ts, t.2 ≠ 0 → t.1 ∈ ref) (χ : Exp → C) :
    (ref.map fun r => coeff ts r * χ r).sum = eval χ ts := by
  induction ts with
  | nil => simp [coeff, eval]
  | cons t ts ih =>
    have ih' := ih (fun u hu => hsupp u (List.mem_cons_of_mem _ hu))
    have hsplit : (ref.map fun r => coeff (t :: ts) r * χ r).sum =
        (ref.map fun r => (if t.1 = r then t.2 else 0) * χ r).sum + (ref.map fun r => coeff ts r * χ r).sum := by
      rw [← List.sum_map_add]
      congr 1
      apply List.map_congr_left
      intro r _
      rw [sc_coeff_cons, add_mul]
    have hone : (ref.map fun r => (if t.1 = r then t.2 else 0) * χ r).sum = t.2 * χ t.1 := by
      by_cases hz : t.2 = 0
      · rw [hz]; simp
      · have hin := hsupp t (by simp) hz
        clear hsplit ih ih' hsupp
        induction ref with
        | nil => simp at hin
        | cons r rs ihr =>
          rw [List.nodup_cons] at hrnd
          simp only [List.map_cons, List.sum_cons]
          by_cases hr : t.1 = r
          · rw [if_pos hr, hr]
            have : (rs.map fun r' => (if r = r' then t.2 else 0) * χ r').sum = 0 := by
              apply List.sum_eq_zero
              intro x hx
              rw [List.mem_map] at hx
              obtain ⟨r', hr', rfl⟩ := hx
              rw [if_neg (fun e : r = r' => hrnd.1 (e ▸ hr')), zero_mul]
            rw [← hr] at this ⊢
            rw [this, add_zero]
          · rw [if_neg hr, zero_mul, zero_add]
            have hin' : t.1 ∈ rs := by
              rcases List.mem_cons.mp hin with h | h
              · exact absurd h hr
              · exact h
            exact ihr hrnd.2 hin'
    rw [hsplit, hone, ih']
    simp [eval]

theorem sc_rcv_eval (n : Nat) (terms : List (Exp × C))
    (hw : ∀ t ∈ terms, OnGrid t.1 ∧ t.1.length = n) (hnd : (keys terms).Nodup) (ref : List Exp)
    (href : ∀ r ∈ ref, OnGrid r ∧ r.length = n) (hrnd : ref.Nodup)
    (hsupp : ∀ t ∈ terms, t.2 ≠ 0 → t.1 ∈ ref) (χ : Exp → C) :
    ((List.zipWith (fun c r => c * χ r) (relativeCoeffVector scTol terms ref) ref)).sum = eval χ terms := by
  rw [sc_rcv_eq_map n terms hw hnd ref href hrnd, List.zipWith_map_left]
  rw [← sc_sum_coeff_eval terms ref hrnd hsupp χ]
  congr 1
  clear href hrnd hsupp
  induction ref with
  | nil => rfl
  | cons r rs ih => simp

end Sageopt.SymCorr
