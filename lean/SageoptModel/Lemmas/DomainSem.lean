/-
Semantics used to state the domain theorems (C15).  Definitions only.
-/
import SageoptModel.Model.Domain
import SageoptModel.Lemmas.PolySem

namespace Sageopt.Domain
open Sageopt Sageopt.Sig Sageopt.Relax Sageopt.Poly Sageopt.Sage

noncomputable section

/-- the set a log-space constraint describes -/
def LogCon.holds (y : List ℝ) : LogCon → Prop
  | .lse c alpha cst => (List.zipWith (fun (q : Rat) (a : Exp) => (q : ℝ) * Real.exp (rdot a y)) c alpha).sum ≤ (cst : ℝ)
  | .lin a num den => rdot a y ≤ Real.log ((num : ℝ) / (den : ℝ))
  | .eq a num den => rdot a y = Real.log ((num : ℝ) / (den : ℝ))
  | .raises _ => False

/-- rows of width `n`, distinct -/
def SigWf (g : SigQ) : Prop := (∀ t ∈ g.terms, t.1.length = g.n) ∧ (keys g.terms).Nodup

/-- the standard form `clcons_from_standard_gprep` expects of an inequality: a positive constant term, every other
    coefficient negative -/
def StdGt (g : SigQ) : Prop :=
  SigWf g ∧ ∃ k, constLoc g = some k ∧ 0 < (g.terms.getD k ([], 0)).2 ∧
    ∀ j, j < g.terms.length → j ≠ k → (g.terms.getD j ([], 0)).2 < 0

/-- of an equality: exactly two terms, a positive constant and a negative monomial -/
def StdEq (g : SigQ) : Prop :=
  SigWf g ∧ g.terms.length = 2 ∧ ∃ k, constLoc g = some k ∧ 0 < (g.terms.getD k ([], 0)).2 ∧ (g.terms.getD (1 - k) ([], 0)).2 < 0

end

end Sageopt.Domain
