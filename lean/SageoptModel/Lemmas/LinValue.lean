/-
Meaning of the affine-form operations of `Model/Lin.lean` under an assignment `σ` of the scalar
variables: `Lin.value σ` is additive, maps `0 ↦ 0`, commutes with scaling / negation and is
multiplicative on products with a constant factor (the only products that are not poisoned).
-/
import SageoptModel.Model.Lin
import SageoptModel.Model.Sig
import Mathlib.Algebra.Order.Field.Rat
import Mathlib.Algebra.BigOperators.Group.List.Basic
import Mathlib.Tactic.Ring
import Mathlib.Tactic.Linarith

namespace Sageopt.Lin

/-- the variable part of the value: `Σ cᵢ·σ(i)` -/
def lsum (σ : Nat → Rat) (co : List (Nat × Rat)) : Rat := (co.map fun p => p.2 * σ p.1).sum

@[simp] theorem lsum_nil (σ : Nat → Rat) : lsum σ [] = 0 := rfl

@[simp] theorem lsum_cons (σ : Nat → Rat) (p : Nat × Rat) (co : List (Nat × Rat)) :
    lsum σ (p :: co) = p.2 * σ p.1 + lsum σ co := by
  simp [lsum]

theorem foldl_value (σ : Nat → Rat) (co : List (Nat × Rat)) (init : Rat) :
    co.foldl (fun acc p => acc + p.2 * σ p.1) init = init + lsum σ co := by
  induction co generalizing init with
  | nil => simp
  | cons p co ih =>
    rw [List.foldl_cons, ih, lsum_cons]
    ring

theorem value_eq (σ : Nat → Rat) (x : Lin) : value σ x = x.off + lsum σ x.co := by
  unfold value
  exact foldl_value σ x.co x.off

theorem lsum_merge (σ : Nat → Rat) (xs ys : List (Nat × Rat)) :
    lsum σ (merge xs ys) = lsum σ xs + lsum σ ys := by
  induction xs, ys using merge.induct with
  | case1 ys => simp [merge]
  | case2 xs h =>
    cases xs with
    | nil => exact absurd rfl h
    | cons x xs => simp [merge]
  | case3 i a xs j b ys hij ih =>
    rw [merge, if_pos hij, lsum_cons, ih]
    simp only [lsum_cons]
    ring
  | case4 i a xs j b ys hij hji ih =>
    rw [merge, if_neg hij, if_pos hji, lsum_cons, ih]
    simp only [lsum_cons]
    ring
  | case5 i a xs j b ys hij hji hab ih =>
    rw [merge, if_neg hij, if_neg hji, if_pos hab, ih]
    have e : i = j := Nat.le_antisymm (Nat.not_lt.1 hji) (Nat.not_lt.1 hij)
    subst e
    simp only [lsum_cons]
    have : a * σ i + b * σ i = 0 := by rw [← add_mul, hab, zero_mul]
    linarith
  | case6 i a xs j b ys hij hji hab ih =>
    rw [merge, if_neg hij, if_neg hji, if_neg hab, lsum_cons, ih]
    have e : i = j := Nat.le_antisymm (Nat.not_lt.1 hji) (Nat.not_lt.1 hij)
    subst e
    simp only [lsum_cons]
    ring

theorem lsum_map_scale (σ : Nat → Rat) (q : Rat) (co : List (Nat × Rat)) :
    lsum σ (co.map fun p => (p.1, q * p.2)) = q * lsum σ co := by
  induction co with
  | nil => simp
  | cons p co ih =>
    rw [List.map_cons, lsum_cons, lsum_cons, ih]
    ring

/-! ### the operations -/

theorem add_def (x y : Lin) : x + y = ⟨x.off + y.off, merge x.co y.co, x.bad || y.bad⟩ := rfl

theorem zero_def : (0 : Lin) = ⟨0, [], false⟩ := rfl

theorem neg_def (x : Lin) : -x = scale (-1) x := rfl

theorem mul_def (x y : Lin) : x * y = mul x y := rfl

theorem value_const (σ : Nat → Rat) (q : Rat) : value σ (const q) = q := by
  simp [value_eq, const]

@[simp] theorem value_zero (σ : Nat → Rat) : value σ (0 : Lin) = 0 := value_const σ 0

theorem value_add (σ : Nat → Rat) (x y : Lin) : value σ (x + y) = value σ x + value σ y := by
  rw [add_def, value_eq, value_eq, value_eq, lsum_merge]
  ring

theorem value_scale (σ : Nat → Rat) (q : Rat) (x : Lin) : value σ (scale q x) = q * value σ x := by
  unfold scale
  by_cases hq : q = 0
  · rw [if_pos hq, value_eq, hq]
    simp
  · rw [if_neg hq, value_eq, value_eq, lsum_map_scale]
    ring

theorem value_neg (σ : Nat → Rat) (x : Lin) : value σ (-x) = - value σ x := by
  rw [neg_def, value_scale]
  ring

theorem value_of_isConstant (σ : Nat → Rat) (x : Lin) (h : x.isConstant = true) :
    value σ x = x.off := by
  have : x.co = [] := List.isEmpty_iff.1 h
  rw [value_eq, this]
  simp

/-- a product with a constant right factor means what it says (whatever the poison flags) -/
theorem value_mul_of_right_const (σ : Nat → Rat) (x y : Lin) (hy : y.isConstant = true) :
    value σ (x * y) = value σ x * value σ y := by
  have h1 : value σ (x * y) = value σ (scale y.off x) := by
    rw [mul_def]
    unfold mul
    rw [if_pos hy, value_eq, value_eq]
  rw [h1, value_scale, value_of_isConstant σ y hy]
  ring

theorem value_mul_of_left_const (σ : Nat → Rat) (x y : Lin) (hx : x.isConstant = true) :
    value σ (x * y) = value σ x * value σ y := by
  by_cases hy : y.isConstant = true
  · exact value_mul_of_right_const σ x y hy
  · have h1 : value σ (x * y) = value σ (scale x.off y) := by
      rw [mul_def]
      unfold mul
      rw [if_neg hy, if_pos hx, value_eq, value_eq]
    rw [h1, value_scale, value_of_isConstant σ x hx]

theorem mul_bad_iff (x y : Lin) :
    (x * y).bad = true ↔
      (x.bad = true ∨ y.bad = true ∨ (x.isConstant = false ∧ y.isConstant = false)) := by
  rw [mul_def]
  unfold mul
  by_cases hy : y.isConstant = true
  · rw [if_pos hy]
    simp [hy]
  · rw [if_neg hy]
    by_cases hx : x.isConstant = true
    · rw [if_pos hx]
      simp [hx]
    · rw [if_neg hx]
      simp only [Bool.not_eq_true] at hx hy
      simp [hx, hy]

theorem value_mul (σ : Nat → Rat) (x y : Lin) (h : (x * y).bad = false) :
    value σ (x * y) = value σ x * value σ y := by
  by_cases hy : y.isConstant = true
  · exact value_mul_of_right_const σ x y hy
  · by_cases hx : x.isConstant = true
    · exact value_mul_of_left_const σ x y hx
    · exfalso
      have : (x * y).bad = true := by
        rw [mul_bad_iff]
        right; right
        exact ⟨by simpa using hx, by simpa using hy⟩
      rw [h] at this
      exact absurd this (by simp)

/-! ### the zero test -/

theorem isZero_iff (x : Lin) : isZero x = true ↔ x.bad = false ∧ x.co = [] ∧ x.off = 0 := by
  simp [isZero, List.isEmpty_iff, and_assoc]

theorem isZero_value (σ : Nat → Rat) (x : Lin) (h : isZero x = true) : value σ x = 0 := by
  obtain ⟨_, h2, h3⟩ := (isZero_iff x).1 h
  rw [value_eq, h2, h3]
  simp

theorem isZero_bad (x : Lin) (h : isZero x = true) : x.bad = false := ((isZero_iff x).1 h).1

/-! ### the poison flag -/

@[simp] theorem bad_zero : (0 : Lin).bad = false := rfl

theorem bad_add (x y : Lin) : (x + y).bad = (x.bad || y.bad) := rfl

/-! ### the constant `-1` used by `Sig.sub` / `Sig.neg` -/

theorem neg_one_isConstant : (-(1 : Lin)).isConstant = true := by
  with_unfolding_all decide

theorem value_neg_one (σ : Nat → Rat) : value σ (-(1 : Lin)) = -1 := by
  rw [value_neg]
  have : value σ (1 : Lin) = 1 := value_const σ 1
  rw [this]

/-! ### sums of lists (`Sig.sumC`) -/

open Sageopt.Sig in
theorem foldl_add_value (σ : Nat → Rat) (cs : List Lin) (init : Lin) :
    value σ (cs.foldl (· + ·) init) = value σ init + (cs.map (value σ)).sum := by
  induction cs generalizing init with
  | nil => simp
  | cons c cs ih =>
    rw [List.foldl_cons, ih, value_add, List.map_cons, List.sum_cons]
    ring

open Sageopt.Sig in
theorem value_sumC (σ : Nat → Rat) (cs : List Lin) :
    value σ (sumC cs) = (cs.map (value σ)).sum := by
  unfold sumC
  rw [foldl_add_value, value_zero, zero_add]

theorem foldl_add_bad (cs : List Lin) (init : Lin) :
    (cs.foldl (· + ·) init).bad = false ↔ init.bad = false ∧ ∀ c ∈ cs, c.bad = false := by
  induction cs generalizing init with
  | nil => simp
  | cons c cs ih =>
    rw [List.foldl_cons, ih, bad_add]
    simp only [Bool.or_eq_false_iff, List.mem_cons, forall_eq_or_imp]
    tauto

open Sageopt.Sig in
theorem bad_sumC (cs : List Lin) : (sumC cs).bad = false ↔ ∀ c ∈ cs, c.bad = false := by
  unfold sumC
  rw [foldl_add_bad]
  simp

end Sageopt.Lin
