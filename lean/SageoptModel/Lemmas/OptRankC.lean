/-
C19 helper lemmas, part C: soundness of `kernelTrivial` — when the model declares the kernel of
`(alpha[cover] - alpha[i])ᵀ` trivial, every real `ν` balancing the difference vectors is zero.
-/
import SageoptModel.Lemmas.OptRankB

namespace Sageopt.Sage
open Sageopt Sageopt.Sage

theorem opt_getD_mem (alpha : List (List Rat)) (j : Nat) (h : alpha.getD j [] ≠ []) :
    alpha.getD j [] ∈ alpha := by
  by_cases hj : j < alpha.length
  · rw [List.getD_eq_getElem?_getD, List.getElem?_eq_getElem hj]
    simp
  · exfalso; apply h
    rw [List.getD_eq_getElem?_getD, List.getElem?_eq_none (by omega)]
    rfl

theorem opt_subRow_getD (a b : List Rat) (t : Nat) (ht : t < (subRow a b).length) :
    (subRow a b).getD t 0 = a.getD t 0 - b.getD t 0 := by
  have h1 : t < a.length := by simp [subRow] at ht; omega
  have h2 : t < b.length := by simp [subRow] at ht; omega
  simp only [List.getD_eq_getElem?_getD]
  simp [subRow, h1, h2]

theorem opt_comb_diffs (n : Nat) (alpha : List (List Rat)) (i : Nat) (idx : List Nat) (ν : List ℝ)
    (t : Nat) (ht : t < n)
    (hlen : ∀ j ∈ idx, (subRow (alpha.getD j []) (alpha.getD i [])).length = n) :
    opt_comb (idx.map fun j => subRow (alpha.getD j []) (alpha.getD i [])) ν t =
      ((idx.zip ν).map fun (j, v) =>
        ((((alpha.getD j []).getD t 0 - (alpha.getD i []).getD t 0 : Rat)) : ℝ) * v).sum := by
  induction idx generalizing ν with
  | nil => simp
  | cons j idx ih =>
    cases ν with
    | nil => simp
    | cons v w =>
      rw [List.map_cons, opt_comb_cons, ih w (fun x hx => hlen x (List.mem_cons_of_mem _ hx)),
        opt_subRow_getD _ _ _ (by rw [hlen j List.mem_cons_self]; exact ht)]
      simp

theorem opt_kernelTrivial_sound (n : Nat) (alpha : List (List Rat)) (i : Nat) (cov : List Bool)
    (hw : ∀ r ∈ alpha, r.length = n)
    (h : kernelTrivial n alpha i cov = true) (ν : List ℝ) (hν : ν.length = (trueIdx cov).length)
    (hbal : ∀ t, t < n → (((trueIdx cov).zip ν).map fun (j, v) =>
        ((((alpha.getD j []).getD t 0 - (alpha.getD i []).getD t 0 : Rat)) : ℝ) * v).sum = 0) :
    ∀ k, k < ν.length → ν.getD k 0 = 0 := by
  have hr : rankQ n ((trueIdx cov).map fun j => subRow (alpha.getD j []) (alpha.getD i []))
      = ((trueIdx cov).map fun j => subRow (alpha.getD j []) (alpha.getD i [])).length := by
    have := h
    unfold kernelTrivial at this
    simpa using this
  -- no difference vector is empty unless it legitimately has length `n`
  have hlen : ∀ j ∈ trueIdx cov, (subRow (alpha.getD j []) (alpha.getD i [])).length = n := by
    intro j hj
    by_cases he : subRow (alpha.getD j []) (alpha.getD i []) = []
    · exfalso
      have hmem : [] ∈ (trueIdx cov).map fun j => subRow (alpha.getD j []) (alpha.getD i []) := by
        rw [List.mem_map]; exact ⟨j, hj, he⟩
      have := opt_rankQ_empty_lt n _ hmem
      omega
    · have h1 : alpha.getD j [] ≠ [] := by
        intro h0; apply he; rw [subRow, h0]; exact List.zipWith_nil_left
      have h2 : alpha.getD i [] ≠ [] := by
        intro h0; apply he; rw [subRow, h0]; exact List.zipWith_nil_right
      have l1 := hw _ (opt_getD_mem alpha j h1)
      have l2 := hw _ (opt_getD_mem alpha i h2)
      rw [subRow, List.length_zipWith, l1, l2, Nat.min_self]
  have hz : ∀ v ∈ ν, v = 0 := by
    apply opt_rankQ_indep n _ ?_ hr ν (by simpa using hν)
    · intro t ht
      rw [opt_comb_diffs n alpha i (trueIdx cov) ν t ht hlen]
      exact hbal t ht
    · intro r hr'
      rw [List.mem_map] at hr'
      obtain ⟨j, hj, rfl⟩ := hr'
      exact hlen j hj
  intro k hk
  apply hz
  rw [List.getD_eq_getElem?_getD, List.getElem?_eq_getElem hk]
  simp

/-! ### non-vacuity: a concrete instance on which the hypothesis `kernelTrivial … = true` holds -/

example : kernelTrivial 2 [[0, 0], [1, 0], [0, 1]] 0 [false, true, true] = true := by
  with_unfolding_all decide

/-- the dependent family `(1,0), (2,0)` is (correctly) not declared trivial -/
example : kernelTrivial 2 [[0, 0], [1, 0], [2, 0]] 0 [false, true, true] = false := by
  with_unfolding_all decide

example (ν : List ℝ) (hν : ν.length = (trueIdx [false, true, true]).length)
    (hbal : ∀ t, t < 2 → (((trueIdx [false, true, true]).zip ν).map fun (j, v) =>
        (((([[0, 0], [1, 0], [0, 1]] : List (List Rat)).getD j []).getD t 0
          - (([[0, 0], [1, 0], [0, 1]] : List (List Rat)).getD 0 []).getD t 0 : Rat) : ℝ) * v).sum = 0) :
    ∀ k, k < ν.length → ν.getD k 0 = 0 :=
  opt_kernelTrivial_sound 2 [[0, 0], [1, 0], [0, 1]] 0 [false, true, true]
    (by intro r hr; simp at hr; rcases hr with rfl | rfl | rfl <;> rfl)
    (by with_unfolding_all decide) ν hν hbal

/-- the hypotheses of the instance are satisfiable (by `ν = [0, 0]`), so the example above is not vacuous -/
example : ∃ ν : List ℝ, ν.length = (trueIdx [false, true, true]).length ∧
    ∀ t, t < 2 → (((trueIdx [false, true, true]).zip ν).map fun (j, v) =>
        (((([[0, 0], [1, 0], [0, 1]] : List (List Rat)).getD j []).getD t 0
          - (([[0, 0], [1, 0], [0, 1]] : List (List Rat)).getD 0 []).getD t 0 : Rat) : ℝ) * v).sum = 0 :=
  ⟨[0, 0], by simp [trueIdx], by intro t _; simp [trueIdx]⟩

end Sageopt.Sage
