/-
Index-based echelon form and the back substitution `backSub` of `Model/GF2.lean`.  Core Lean only.
-/
import SageoptModel.Lemmas.GF2Echelon
set_option linter.unusedVariables false
set_option linter.unusedSimpArgs false

namespace Sageopt.GF2

/-! ### index-based views -/

theorem getD_of_lt {α} (l : List α) (d : α) {i : Nat} (h : i < l.length) : l.getD i d = l[i] := by
  simp [List.getD_eq_getElem?_getD, h]

theorem getD_of_le {α} (l : List α) (d : α) {i : Nat} (h : l.length ≤ i) : l.getD i d = d := by
  simp [List.getD_eq_getElem?_getD, h]

theorem getD_mem {α} (l : List α) (d : α) {i : Nat} (h : i < l.length) : l.getD i d ∈ l := by
  rw [getD_of_lt l d h]; exact List.getElem_mem h

theorem mem_iff_getD {α} (l : List α) (d : α) (a : α) :
    a ∈ l ↔ ∃ i, i < l.length ∧ l.getD i d = a := by
  rw [List.mem_iff_getElem]
  constructor
  · intro ⟨i, h, e⟩; exact ⟨i, h, by rw [getD_of_lt l d h, e]⟩
  · intro ⟨i, h, e⟩; exact ⟨i, h, by rw [← getD_of_lt l d h, e]⟩

theorem sol_iff_getD (rows : List Row) (x : Row) :
    Sol rows x ↔ ∀ i, dotB (rows.getD i []) x = false := by
  constructor
  · intro h i
    by_cases hi : i < rows.length
    · exact h _ (getD_mem rows [] hi)
    · rw [getD_of_le rows [] (by omega), dotB_nil_left]
  · intro h r hr
    obtain ⟨i, _, rfl⟩ := (mem_iff_getD rows [] r).mp hr
    exact h i

theorem wf_iff_getD (n : Nat) (rows : List Row) :
    WF n rows ↔ ∀ i, i < rows.length → (rows.getD i []).length = n := by
  constructor
  · intro h i hi; exact h _ (getD_mem rows [] hi)
  · intro h r hr
    obtain ⟨i, hi, rfl⟩ := (mem_iff_getD rows [] r).mp hr
    exact h i hi

theorem sorted_getD {p : List Nat} (h : p.Pairwise (· < ·)) {i i' : Nat} (hi : i < i')
    (hi' : i' < p.length) : p.getD i 0 < p.getD i' 0 := by
  rw [getD_of_lt p 0 hi', getD_of_lt p 0 (by omega : i < p.length)]
  exact List.pairwise_iff_getElem.mp h i i' (by omega) hi' hi

/-- index-based echelon form -/
structure EchI (R : List Row) (p : List Nat) : Prop where
  len : p.length ≤ R.length
  sorted : p.Pairwise (· < ·)
  lead : ∀ i, i < p.length → Lead (R.getD i []) (p.getD i 0)
  zero : ∀ i, p.length ≤ i → ZeroRow (R.getD i [])

theorem ech_pivots {k : Nat} {R : List Row} {p : List Nat} (h : Ech k R p) :
    p.Pairwise (· < ·) ∧ ∀ c ∈ p, k ≤ c := by
  induction R generalizing k p with
  | nil =>
    cases p with
    | nil => simp
    | cons c p => simp [Ech] at h
  | cons r R ih =>
    cases p with
    | nil => simp
    | cons c p =>
      simp only [Ech] at h
      obtain ⟨hkc, hl, he⟩ := h
      obtain ⟨h1, h2⟩ := ih he
      refine ⟨?_, ?_⟩
      · simp only [List.pairwise_cons]
        exact ⟨fun c' hc' => by have := h2 c' hc'; omega, h1⟩
      · intro c' hc'
        simp at hc'
        rcases hc' with rfl | hc'
        · exact hkc
        · have := h2 c' hc'; omega

theorem ech_echI {k : Nat} {R : List Row} {p : List Nat} (h : Ech k R p) : EchI R p := by
  induction R generalizing k p with
  | nil =>
    cases p with
    | nil => exact ⟨by simp, by simp, by simp, by intro i _ j; simp⟩
    | cons c p => simp [Ech] at h
  | cons r R ih =>
    cases p with
    | nil =>
      simp only [Ech] at h
      refine ⟨by simp, by simp, by simp, ?_⟩
      intro i _
      by_cases hi : i < (r :: R).length
      · exact h _ (getD_mem _ [] hi)
      · rw [getD_of_le _ [] (by omega)]; intro j; simp
    | cons c p =>
      have hs := (ech_pivots h).1
      simp only [Ech] at h
      obtain ⟨hkc, hl, he⟩ := h
      have ih' := ih he
      refine ⟨by simpa using ih'.len, hs, ?_, ?_⟩
      · intro i hi
        cases i with
        | zero => simpa using hl
        | succ i => simpa using ih'.lead i (by simpa using hi)
      · intro i hi
        cases i with
        | zero => simp at hi
        | succ i => simpa using ih'.zero i (by simpa using hi)

/-! ### `addRowFrom` is a full row addition on echelon rows -/

theorem addRowFrom_eq (pc : Nat) (r p : Row) (hr : pc ≤ r.length) (hp : pc ≤ p.length)
    (hz : ∀ j, j < pc → entry p j = false) : addRowFrom pc r p = addRow r p := by
  induction pc generalizing r p with
  | zero => simp [addRowFrom]
  | succ pc ih =>
    cases r with
    | nil => simp at hr
    | cons a r =>
      cases p with
      | nil => simp at hp
      | cons b p =>
        have hb : b = false := by simpa using hz 0 (by omega)
        subst hb
        have := ih r p (by simpa using hr) (by simpa using hp)
          (fun j hj => by simpa using hz (j+1) (by omega))
        simp only [addRowFrom] at this ⊢
        simp [addRow, this]

/-! ### one back-substitution step -/

theorem length_backStep (rows : List Row) (pr pc : Nat) :
    (backStep rows pr pc).length = rows.length := by
  simp [backStep]

theorem backStep_getD (rows : List Row) (pr pc i : Nat) :
    (backStep rows pr pc).getD i [] =
      if i < pr ∧ entry (rows.getD i []) pc = true
      then addRowFrom pc (rows.getD i []) (rows.getD pr []) else rows.getD i [] := by
  by_cases hi : i < rows.length
  · simp [backStep, List.getD_eq_getElem?_getD, hi]
  · have hi' : rows.length ≤ i := by omega
    simp [backStep, List.getD_eq_getElem?_getD, hi']

/-- `backStep` on an echelon matrix: a genuine row operation -/
theorem backStep_getD_ech {n : Nat} {rows : List Row} {piv : List Nat} (hwf : WF n rows)
    (he : EchI rows piv) {t : Nat} (ht : t < piv.length) (i : Nat) :
    (backStep rows t (piv.getD t 0)).getD i [] =
      if i < t ∧ entry (rows.getD i []) (piv.getD t 0) = true
      then addRow (rows.getD i []) (rows.getD t []) else rows.getD i [] := by
  rw [backStep_getD]
  by_cases hc : i < t ∧ entry (rows.getD i []) (piv.getD t 0) = true
  · simp only [hc, and_self, if_true]
    have hl := he.lead t ht
    apply addRowFrom_eq
    · exact Nat.le_of_lt (lt_length_of_entry hc.2)
    · exact Nat.le_of_lt (lt_length_of_entry hl.1)
    · exact hl.2
  · simp only [hc, if_false]

/-- invariant of the back substitution after `t` pivots have been processed -/
structure BackInv (n : Nat) (rows : List Row) (piv : List Nat) (t : Nat) (acc : List Row) : Prop where
  len : acc.length = rows.length
  wf : WF n acc
  ech : EchI acc piv
  unit : ∀ i i', i < t → i < piv.length → i' < i → entry (acc.getD i' []) (piv.getD i 0) = false
  sol : ∀ x, Sol acc x ↔ Sol rows x

theorem backInv_step {n : Nat} {rows : List Row} {piv : List Nat} {t : Nat} {acc : List Row}
    (h : BackInv n rows piv t acc) (ht : t < piv.length) :
    BackInv n rows piv (t+1) (backStep acc t (piv.getD t 0)) := by
  have hg := backStep_getD_ech h.wf h.ech ht
  have hlt := h.ech.lead t ht
  have htl : t < acc.length := Nat.lt_of_lt_of_le ht h.ech.len
  have hpl : (acc.getD t []).length = n := (wf_iff_getD n acc).mp h.wf t htl
  refine ⟨?_, ?_, ⟨?_, h.ech.sorted, ?_, ?_⟩, ?_, ?_⟩
  · rw [length_backStep]; exact h.len
  · rw [wf_iff_getD]
    intro i hi
    rw [length_backStep] at hi
    have hil := (wf_iff_getD n acc).mp h.wf i hi
    rw [hg]
    by_cases hc : i < t ∧ entry (acc.getD i []) (piv.getD t 0) = true
    · simp only [hc, and_self, if_true]; exact length_addRow_eq hil hpl
    · simp only [hc, if_false]; exact hil
  · rw [length_backStep]; exact h.ech.len
  · intro i hi
    rw [hg]
    have hli := h.ech.lead i hi
    by_cases hc : i < t ∧ entry (acc.getD i []) (piv.getD t 0) = true
    · simp only [hc, and_self, if_true]
      have hlt' := sorted_getD h.ech.sorted hc.1 ht
      refine ⟨?_, ?_⟩
      · rw [entry_addRow, hli.1, hlt.2 _ hlt']; rfl
      · intro j hj
        rw [entry_addRow, hli.2 j hj, hlt.2 j (by omega)]; rfl
    · simp only [hc, if_false]; exact hli
  · intro i hi
    rw [hg]
    have : ¬ (i < t ∧ entry (acc.getD i []) (piv.getD t 0) = true) := by omega
    simp only [this, if_false]
    exact h.ech.zero i hi
  · intro i i' hi hip hi'
    rw [hg]
    by_cases hc : i' < t ∧ entry (acc.getD i' []) (piv.getD t 0) = true
    · simp only [hc, and_self, if_true]
      rw [entry_addRow]
      by_cases hit : i = t
      · subst hit; rw [hc.2, hlt.1]; rfl
      · rw [h.unit i i' (by omega) hip hi', hlt.2 _ (sorted_getD h.ech.sorted (by omega) ht)]; rfl
    · simp only [hc, if_false]
      by_cases hit : i = t
      · subst hit
        have : ¬ entry (acc.getD i' []) (piv.getD i 0) = true := fun h' => hc ⟨hi', h'⟩
        simpa using this
      · exact h.unit i i' (by omega) hip hi'
  · intro x
    rw [← h.sol x, sol_iff_getD, sol_iff_getD]
    have hgt : (backStep acc t (piv.getD t 0)).getD t [] = acc.getD t [] := by
      rw [hg]; simp
    constructor
    · intro hs i
      have hp : dotB (acc.getD t []) x = false := by rw [← hgt]; exact hs t
      have hi := hs i
      rw [hg] at hi
      by_cases hc : i < t ∧ entry (acc.getD i []) (piv.getD t 0) = true
      · simp only [hc, and_self, if_true, dotB_addRow, hp] at hi
        simpa using hi
      · simpa only [hc, if_false] using hi
    · intro hs i
      rw [hg]
      by_cases hc : i < t ∧ entry (acc.getD i []) (piv.getD t 0) = true
      · simp only [hc, and_self, if_true, dotB_addRow, hs i, hs t]; rfl
      · simp only [hc, if_false]; exact hs i

/-! ### the fold -/

theorem foldl_zipIdx_inv {α : Type} (P : Nat → α → Prop) (f : α → Nat × Nat → α) (l : List Nat)
    (s : Nat) (a : α) (h0 : P s a)
    (hs : ∀ t a, t < l.length → P (s+t) a → P (s+t+1) (f a (l.getD t 0, s+t))) :
    P (s + l.length) ((l.zipIdx s).foldl f a) := by
  induction l generalizing s a with
  | nil => simpa using h0
  | cons b l ih =>
    simp only [List.zipIdx_cons, List.foldl_cons, List.length_cons]
    have h1 : P (s+1) (f a (b, s)) := by simpa using hs 0 a (by simp) (by simpa using h0)
    have := ih (s+1) (f a (b, s)) h1 (fun t a ht hp => by
      have := hs (t+1) a (by simpa using ht) (by rw [← Nat.add_assoc, Nat.add_right_comm]; exact hp)
      rw [← Nat.add_assoc, Nat.add_right_comm s t 1] at this
      simpa using this)
    rw [Nat.add_assoc, Nat.add_comm 1] at this
    exact this

theorem backSub_inv {n : Nat} {rows : List Row} {piv : List Nat} (hwf : WF n rows)
    (he : EchI rows piv) : BackInv n rows piv piv.length (backSub rows piv) := by
  have h0 : BackInv n rows piv 0 rows :=
    ⟨rfl, hwf, he, by intro i i' hi; omega, fun x => Iff.rfl⟩
  have := foldl_zipIdx_inv (fun t acc => t ≤ piv.length → BackInv n rows piv t acc)
    (fun acc (q : Nat × Nat) => backStep acc q.2 q.1) piv 0 rows (fun _ => h0)
    (fun t a ht hp hle => by
      simp only [Nat.zero_add] at hp ⊢
      exact backInv_step (hp (by omega)) ht)
  simp only [Nat.zero_add] at this
  exact this (Nat.le_refl _)


/-! ### `rref` -/

theorem rref_true (n : Nat) (A : Mat) : rref n A true = fwd n 0 A [] [] := by
  simp [rref]

theorem rref_false (n : Nat) (A : Mat) :
    rref n A false = (backSub (fwd n 0 A [] []).1 (fwd n 0 A [] []).2, (fwd n 0 A [] []).2) := by
  simp [rref]

theorem rref_snd (n : Nat) (A : Mat) (f : Bool) : (rref n A f).2 = (fwd n 0 A [] []).2 := by
  cases f <;> simp [rref]

theorem fwd_full (n : Nat) (A : Mat) (hA : WF n A) :
    EchI (fwd n 0 A [] []).1 (fwd n 0 A [] []).2 ∧ WF n (fwd n 0 A [] []).1 ∧
      (fwd n 0 A [] []).1.length = A.length := by
  obtain ⟨h1, h2, h3⟩ := fwd_ech n n 0 A (by omega) hA (by intro r _ j hj; omega)
  exact ⟨ech_echI h1, h2, h3⟩

/-- the reduced form: invariant of the finished back substitution -/
theorem rref_false_inv (n : Nat) (A : Mat) (hA : WF n A) :
    BackInv n (fwd n 0 A [] []).1 (rref n A false).2 (rref n A false).2.length (rref n A false).1 := by
  obtain ⟨h1, h2, h3⟩ := fwd_full n A hA
  rw [rref_false]
  exact backSub_inv h2 h1

/-- pivot columns of an echelon matrix with rows of length `n` are `< n` -/
theorem echI_pivot_lt {n : Nat} {R : List Row} {p : List Nat} (hwf : WF n R) (he : EchI R p)
    {i : Nat} (hi : i < p.length) : p.getD i 0 < n := by
  have h := lt_length_of_entry (he.lead i hi).1
  rwa [(wf_iff_getD n R).mp hwf i (Nat.lt_of_lt_of_le hi he.len)] at h

/-- in echelon form the entries of the rows below row `i` vanish in the pivot column of row `i` -/
theorem echI_below {R : List Row} {p : List Nat} (he : EchI R p) {i i' : Nat} (hi : i < p.length)
    (hii : i < i') : entry (R.getD i' []) (p.getD i 0) = false := by
  by_cases hi' : i' < p.length
  · exact (he.lead i' hi').2 _ (sorted_getD he.sorted hii hi')
  · exact he.zero i' (by omega) _

/-- reduced row echelon form: echelon, and pivot columns are unit columns -/
structure RREF (n : Nat) (R : List Row) (p : List Nat) : Prop where
  wf : WF n R
  ech : EchI R p
  unit : ∀ i i', i < p.length → i' ≠ i → entry (R.getD i' []) (p.getD i 0) = false

theorem rref_false_rref (n : Nat) (A : Mat) (hA : WF n A) :
    RREF n (rref n A false).1 (rref n A false).2 := by
  have h := rref_false_inv n A hA
  refine ⟨h.wf, h.ech, ?_⟩
  intro i i' hi hne
  by_cases hlt : i' < i
  · exact h.unit i i' hi hi hlt
  · exact echI_below h.ech hi (by omega)

theorem rref_sol (n : Nat) (A : Mat) (f : Bool) (x : Row) (hA : WF n A) :
    Sol (rref n A f).1 x ↔ Sol A x := by
  have hf : Sol (fwd n 0 A [] []).1 x ↔ Sol A x := by
    have h := fwd_sol n 0 A [] [] x
    simpa [Sol] using h
  cases f with
  | true => rw [rref_true]; exact hf
  | false => rw [(rref_false_inv n A hA).sol x]; exact hf

end Sageopt.GF2
